import TarsModel.Model.Schema
import TarsModel.Proofs.SkipTo

/-! Schema evolution (C04): absent members, unknown fields in front of / between / behind the
    known members of a generated `ReadFrom`. -/
namespace Tars
namespace Evolve
open Consts WFField Skip

/-! ### what may follow a member: nothing, a StructEnd head, or a head with a higher tag -/

/-- the input continues with nothing, or with a (canonically encoded) head that is a StructEnd or
    carries a tag above `lo` -/
def After (lo : Nat) (t : Bytes) : Prop :=
  t = [] ∨ ∃ ty tag t', ty < 16 ∧ tag < 256 ∧ (ty = tyStructEnd ∨ lo < tag) ∧ t = writeHead ty tag ++ t'

/-- what follows a struct body in every generated context: the end of the buffer (`ReadFrom` on a
    top-level buffer) or a StructEnd head (`WriteBlock` writes it with tag 0) -/
def Terminated (t : Bytes) : Prop :=
  t = [] ∨ ∃ tg t', tg < 256 ∧ t = writeHead tyStructEnd tg ++ t'

theorem Terminated.after {t : Bytes} (h : Terminated t) (lo : Nat) : After lo t := by
  rcases h with h | ⟨tg, t', htg, h⟩
  · exact .inl h
  · exact .inr ⟨tyStructEnd, tg, t', by decide, htg, .inl rfl, h⟩

theorem readByte_nil (r : Reader) (h : r.rest = []) : readByte r = (.error .eof, r) := by
  unfold Reader.rest at h
  have : r.data.size ≤ r.pos := by
    have := List.drop_eq_nil_iff.mp h
    simpa using this
  unfold readByte
  rw [Array.getElem?_eq_none this]

theorem unreadHead_adv (r : Reader) (ty tag : Nat) :
    unreadHead tag (r.adv (writeHead ty tag).length) = (.ok (), r) := by
  obtain ⟨d, p⟩ := r
  unfold unreadHead unreadByte writeHead
  by_cases h : tag < extTagThreshold
  · have h' : ¬ tag ≥ extTagUnread := by simp only [extTagThreshold, extTagUnread] at *; omega
    simp [h, h', Reader.adv]
  · have h' : tag ≥ extTagUnread := by simp only [extTagThreshold, extTagUnread] at *; omega
    simp [h, h', Reader.adv]

/-- an optional member that is absent: `SkipToNoCheck` reports "not there" and leaves the reader
    where it was (the head it peeked at is un-read exactly) -/
theorem skipToNoCheck_absent (tag : Nat) (r : Reader) (h : After tag r.rest) :
    ∃ tyc, skipToNoCheck tag false r = (.ok (false, tyc), r) := by
  unfold skipToNoCheck
  rw [Reader.fuel_succ]
  rcases h with h | ⟨ty, tg, t', hty, htg, hc, h⟩
  · refine ⟨0, ?_⟩
    simp [skipToNoCheckF, readHead, readByte_nil r h]
  · refine ⟨ty, ?_⟩
    have hc' : ty = tyStructEnd ∨ tg > tag := hc
    simp [skipToNoCheckF, readHead_writeHead r ty tg t' hty htg h, hc', unreadHead_adv]

/-- a required member that is absent: "can not find Tag … But require" -/
theorem skipToNoCheck_missing (tag : Nat) (r : Reader) (h : After tag r.rest) :
    ∃ r', skipToNoCheck tag true r = (.error .require, r') := by
  unfold skipToNoCheck
  rw [Reader.fuel_succ]
  rcases h with h | ⟨ty, tg, t', hty, htg, hc, h⟩
  · exact ⟨r, by simp [skipToNoCheckF, readHead, readByte_nil r h]⟩
  · have hc' : ty = tyStructEnd ∨ tg > tag := hc
    exact ⟨r.adv (writeHead ty tg).length,
      by simp [skipToNoCheckF, readHead_writeHead r ty tg t' hty htg h, hc']⟩

/-! ### the target of a member read -/

/-- the target variable has the Go type the schema says (top level only): the generated code is
    statically typed, so this always holds in Go; unsigned targets are within their range -/
def targetOk (env : Env) (ty : Ty) (old : Val) : Bool :=
  match ty, old with
  | .bool, .bool _ | .i8, .int _ | .i16, .int _ | .i32, .int _ | .i64, .int _ | .enum, .int _
  | .f32, .f32 _ | .f64, .f64 _ | .str, .str _ => true
  | .u8, .int i => decide (0 ≤ i ∧ i < 2 ^ 8)
  | .u16, .int i => decide (0 ≤ i ∧ i < 2 ^ 16)
  | .u32, .int i => decide (0 ≤ i ∧ i < 2 ^ 32)
  | .vec _, _ | .arr _ _, _ | .map _ _, _ => true
  | .struct name, .struct _ => (env.find name).isSome
  | _, _ => false

/-- what an absent optional member leaves in the target: the previous value; for a nested struct
    the previous value after `ResetDefault` (generated `ReadBlock` calls it before looking) -/
def absentVal (env : Env) (fuel : Nat) (ty : Ty) (old : Val) : Val :=
  match ty, old with
  | .struct name, .struct ovs =>
    match env.find name with
    | some fs => .struct (resetDefault env fuel fs ovs)
    | none => old
  | _, _ => old

theorem toU_max (bits : Nat) (i : Int) (h0 : 0 ≤ i) (h1 : i < ((2 ^ bits : Nat) : Int)) :
    ((toU bits (max i 0) : Nat) : Int) = i := by
  rw [Int.max_eq_left h0]
  unfold toU
  rw [Int.emod_eq_of_lt h0 h1]
  exact Int.toNat_of_nonneg h0

/-- **absent optional member**: the generated read leaves the target as it was (after
    `ResetDefault` for a nested struct) and does not move the reader -/
theorem decVar_absent_opt (env : Env) (F tag : Nat) (ty : Ty) (old : Val) (r : Reader)
    (hok : targetOk env ty old = true) (h : After tag r.rest) :
    decVar env (F+1) tag false ty old r = (.ok (absentVal env F ty old), r) := by
  obtain ⟨tyc, ha⟩ := skipToNoCheck_absent tag r h
  cases ty with
  | vec e => unfold decVar; simp [ha, absentVal]
  | arr n e => unfold decVar; simp [ha, absentVal]
  | map k v => unfold decVar; simp [skipTo, ha, absentVal]
  | struct name =>
    cases old <;> simp [targetOk] at hok
    rename_i ovs
    obtain ⟨fs, hfs⟩ := Option.isSome_iff_exists.mp hok
    unfold decVar; simp [hfs, skipTo, ha, absentVal]
  | bool =>
    cases old <;> simp [targetOk] at hok
    rename_i b
    cases b <;> (unfold decVar; simp [readScalar, readBool, readInt8, ha, mapRes, absentVal])
  | i8 =>
    cases old <;> simp [targetOk] at hok
    unfold decVar; simp [readScalar, readInt8, ha, mapRes, absentVal]
  | i16 =>
    cases old <;> simp [targetOk] at hok
    unfold decVar; simp [readScalar, readInt16, ha, mapRes, absentVal]
  | i32 =>
    cases old <;> simp [targetOk] at hok
    unfold decVar; simp [readScalar, readInt32, ha, mapRes, absentVal]
  | i64 =>
    cases old <;> simp [targetOk] at hok
    unfold decVar; simp [readScalar, readInt64, ha, mapRes, absentVal]
  | enum =>
    cases old <;> simp [targetOk] at hok
    unfold decVar; simp [readScalar, readInt32, ha, mapRes, absentVal]
  | u8 =>
    cases old <;> simp [targetOk] at hok
    unfold decVar; simp [readScalar, readUint8, readInt16, ha, mapRes, absentVal]
    exact toU_max 8 _ hok.1 (by simpa using hok.2)
  | u16 =>
    cases old <;> simp [targetOk] at hok
    unfold decVar; simp [readScalar, readUint16, readInt32, ha, mapRes, absentVal]
    exact toU_max 16 _ hok.1 (by simpa using hok.2)
  | u32 =>
    cases old <;> simp [targetOk] at hok
    unfold decVar; simp [readScalar, readUint32, readInt64, ha, mapRes, absentVal]
    exact toU_max 32 _ hok.1 (by simpa using hok.2)
  | f32 =>
    cases old <;> simp [targetOk] at hok
    unfold decVar; simp [readScalar, readFloat32, ha, mapRes, absentVal]
  | f64 =>
    cases old <;> simp [targetOk] at hok
    unfold decVar; simp [readScalar, readFloat64, ha, mapRes, absentVal]
  | str =>
    cases old <;> simp [targetOk] at hok
    unfold decVar; simp [readScalar, readString, ha, mapRes, absentVal]

/-- **absent required member**: an error ("can not find Tag … But require"), for every member kind -/
theorem decVar_missing_req (env : Env) (F tag : Nat) (ty : Ty) (old : Val) (r : Reader)
    (hok : targetOk env ty old = true) (h : After tag r.rest) :
    (decVar env (F+1) tag true ty old r).1 = .error .require := by
  obtain ⟨r', ha⟩ := skipToNoCheck_missing tag r h
  cases ty with
  | vec e => unfold decVar; simp [ha]
  | arr n e => unfold decVar; simp [ha]
  | map k v => unfold decVar; simp [skipTo, ha]
  | struct name =>
    cases old <;> simp [targetOk] at hok
    rename_i ovs
    obtain ⟨fs, hfs⟩ := Option.isSome_iff_exists.mp hok
    unfold decVar; simp [hfs, skipTo, ha]
  | bool =>
    cases old <;> simp [targetOk] at hok
    unfold decVar; simp [readScalar, readBool, readInt8, ha, mapRes]
  | i8 =>
    cases old <;> simp [targetOk] at hok
    unfold decVar; simp [readScalar, readInt8, ha, mapRes]
  | i16 =>
    cases old <;> simp [targetOk] at hok
    unfold decVar; simp [readScalar, readInt16, ha, mapRes]
  | i32 =>
    cases old <;> simp [targetOk] at hok
    unfold decVar; simp [readScalar, readInt32, ha, mapRes]
  | i64 =>
    cases old <;> simp [targetOk] at hok
    unfold decVar; simp [readScalar, readInt64, ha, mapRes]
  | enum =>
    cases old <;> simp [targetOk] at hok
    unfold decVar; simp [readScalar, readInt32, ha, mapRes]
  | u8 =>
    cases old <;> simp [targetOk] at hok
    unfold decVar; simp [readScalar, readUint8, readInt16, ha, mapRes]
  | u16 =>
    cases old <;> simp [targetOk] at hok
    unfold decVar; simp [readScalar, readUint16, readInt32, ha, mapRes]
  | u32 =>
    cases old <;> simp [targetOk] at hok
    unfold decVar; simp [readScalar, readUint32, readInt64, ha, mapRes]
  | f32 =>
    cases old <;> simp [targetOk] at hok
    unfold decVar; simp [readScalar, readFloat32, ha, mapRes]
  | f64 =>
    cases old <;> simp [targetOk] at hok
    unfold decVar; simp [readScalar, readFloat64, ha, mapRes]
  | str =>
    cases old <;> simp [targetOk] at hok
    unfold decVar; simp [readScalar, readString, ha, mapRes]

/-! ### results that agree in outcome, and in the reader when the outcome is a success -/

def ResEq {α : Type} (a b : Res α) : Prop := a.1 = b.1 ∧ ∀ v, a.1 = .ok v → a.2 = b.2

theorem ResEq.refl {α : Type} (a : Res α) : ResEq a a := ⟨rfl, fun _ _ => rfl⟩
theorem ResEq.of_eq {α : Type} {a b : Res α} (h : a = b) : ResEq a b := h ▸ ResEq.refl a
theorem ResEq.trans {α : Type} {a b c : Res α} (h1 : ResEq a b) (h2 : ResEq b c) : ResEq a c :=
  ⟨h1.1.trans h2.1, fun v hv => (h1.2 v hv).trans (h2.2 v (h1.1 ▸ hv))⟩
theorem ResEq.err {α : Type} (e : Err) (r r' : Reader) :
    ResEq ((.error e, r) : Res α) (.error e, r') := ⟨rfl, fun _ h => by cases h⟩

/-- the generated read of a member depends on the reader only through the result of its initial
    `SkipToNoCheck(tag, require)` -/
theorem decVar_congr (env : Env) (fuel tag : Nat) (req : Bool) (ty : Ty) (old : Val) (r r' : Reader)
    (hp : skipToNoCheck tag req r = skipToNoCheck tag req r') :
    ResEq (decVar env fuel tag req ty old r) (decVar env fuel tag req ty old r') := by
  cases fuel with
  | zero => unfold decVar; exact ResEq.err _ _ _
  | succ F =>
    have hst : ∀ ty, skipTo ty tag req r = skipTo ty tag req r' := by
      intro ty; unfold skipTo; rw [hp]
    have h8 : ∀ o, readInt8 o tag req r = readInt8 o tag req r' := by
      intro o; unfold readInt8; rw [hp]
    have h16 : ∀ o, readInt16 o tag req r = readInt16 o tag req r' := by
      intro o; unfold readInt16; rw [hp]
    have h32 : ∀ o, readInt32 o tag req r = readInt32 o tag req r' := by
      intro o; unfold readInt32; rw [hp]
    have h64 : ∀ o, readInt64 o tag req r = readInt64 o tag req r' := by
      intro o; unfold readInt64; rw [hp]
    have hf32 : ∀ o, readFloat32 o tag req r = readFloat32 o tag req r' := by
      intro o; unfold readFloat32; rw [hp]
    have hf64 : ∀ o, readFloat64 o tag req r = readFloat64 o tag req r' := by
      intro o; unfold readFloat64; rw [hp]
    have hstr : ∀ o, readString o tag req r = readString o tag req r' := by
      intro o; unfold readString; rw [hp]
    have hsc : ∀ t, ResEq (readScalar t old tag req r) (readScalar t old tag req r') := by
      intro t
      unfold readScalar
      split
      all_goals first
        | exact ResEq.err _ _ _
        | (apply ResEq.of_eq
           simp only [readBool, readUint8, readUint16, readUint32, h8, h16, h32, h64, hf32, hf64, hstr])
    cases ty with
    | vec e => apply ResEq.of_eq; unfold decVar; simp only [hp]
    | arr n e => apply ResEq.of_eq; unfold decVar; simp only [hp]
    | map k v => apply ResEq.of_eq; unfold decVar; simp only [hst]
    | struct name =>
      unfold decVar
      simp only
      split
      · apply ResEq.of_eq; simp only [hst]
      · exact ResEq.err _ _ _
    | _ => unfold decVar; exact hsc _

/-- unknown lower-tag fields in front of a member are invisible to its generated read -/
theorem decVar_passes (env : Env) (fuel tag : Nat) (req : Bool) (ty : Ty) (old : Val) (r : Reader)
    (xs : List WFField) (hx : ∀ x ∈ xs, x.wf = true ∧ x.tag < tag) (t : Bytes)
    (h : r.rest = renderList xs ++ t) :
    ResEq (decVar env fuel tag req ty old r)
      (decVar env fuel tag req ty old (r.adv (renderList xs).length)) :=
  decVar_congr env fuel tag req ty old r _ (skipToNoCheck_passes_list tag xs hx req r t h)

/-! ### a message as a sequence of member slots with unknown fields in between -/

/-- one known member of the reader's schema, the previous value of its target, and the bytes the
    message holds for it (`[]` when the writer left it out) -/
structure Slot where
  f : Field
  old : Val
  enc : Bytes

/-- assumption on a known member's bytes (1): when present they start with a canonical head carrying
    the member's tag (any wire type) -/
def Slot.HeadOk (s : Slot) : Prop :=
  s.enc = [] ∨ ∃ ty rest, ty < 16 ∧ s.enc = writeHead ty s.f.tag ++ rest

/-- assumption on a known member's bytes (2): the member's generated read is *self-delimiting* on
    them: whatever follows (as long as it is the end, a StructEnd or a higher tag) and whatever the
    fuel (≥ `N`), the outcome is the same, and a success consumes exactly these bytes (what is left
    is exactly what followed).
    This is what a round-trip theorem (C03) gives for the encoding of a value, what
    `decVar_absent_opt` / `decVar_missing_req` give for an absent member, and it equally covers
    members whose decoding fails (wrong wire type, bad length): the failure must not depend on
    what follows. -/
def Slot.SelfDelimiting (env : Env) (N : Nat) (s : Slot) : Prop :=
  ∀ fuel fuel', N ≤ fuel → N ≤ fuel' → ∀ (r r' : Reader) (t t' : Bytes),
    r.rest = s.enc ++ t → r'.rest = s.enc ++ t' → After s.f.tag t → After s.f.tag t' →
    (decVar env fuel s.f.tag s.f.req s.f.ty s.old r).1
      = (decVar env fuel' s.f.tag s.f.req s.f.ty s.old r').1 ∧
    ∀ v, (decVar env fuel s.f.tag s.f.req s.f.ty s.old r).1 = .ok v →
      (decVar env fuel s.f.tag s.f.req s.f.ty s.old r).2.rest = t ∧
      (decVar env fuel' s.f.tag s.f.req s.f.ty s.old r').2.rest = t'

/-- the message without unknown fields -/
def plain : List Slot → Bytes
  | [] => []
  | s :: ss => s.enc ++ plain ss

/-- the message with unknown fields `xs` in front of each slot and `tail` behind the last one -/
def merged : List (List WFField × Slot) → List WFField → Bytes
  | [], tail => renderList tail
  | (xs, s) :: rest, tail => renderList xs ++ s.enc ++ merged rest tail

/-- admissible positions in the ascending tag order: the schema's tags ascend strictly and are
    bytes; the unknown fields in front of a member are well formed and their tags lie strictly
    between the previous member's tag and this member's tag (all tags `≥ lo` at the front); the
    trailing ones lie above the last member's tag.  The unknown fields need not be sorted among
    themselves and may repeat a tag. -/
def Admissible : Nat → List (List WFField × Slot) → List WFField → Prop
  | lo, [], tail => ∀ x ∈ tail, x.wf = true ∧ lo ≤ x.tag
  | lo, (xs, s) :: rest, tail =>
    (∀ x ∈ xs, x.wf = true ∧ lo ≤ x.tag ∧ x.tag < s.f.tag) ∧ lo ≤ s.f.tag ∧ s.f.tag < 256 ∧
    Admissible (s.f.tag + 1) rest tail

theorem after_render (lo : Nat) (x : WFField) (hx : x.wf = true) (hlo : lo < x.tag) (t : Bytes) :
    After lo (render x ++ t) :=
  .inr ⟨x.ty, x.tag, body x ++ t, ty_lt x, tag_lt x hx, .inr hlo, by simp [render]⟩

/-- everything that follows a member in the (merged) message has a higher tag or terminates -/
theorem after_merged (items : List (List WFField × Slot)) (tail : List WFField) (lo lo' : Nat)
    (hadm : Admissible lo items tail) (hh : ∀ p ∈ items, p.2.HeadOk) (t : Bytes)
    (ht : Terminated t) (hlo : lo' < lo) : After lo' (merged items tail ++ t) := by
  induction items generalizing lo lo' with
  | nil =>
    cases tail with
    | nil => simpa [merged, renderList] using ht.after lo'
    | cons x tail =>
      have hx := hadm x (by simp)
      simp only [merged, renderList_cons, List.append_assoc]
      exact after_render lo' x hx.1 (by omega) _
  | cons p rest ih =>
    obtain ⟨xs, s⟩ := p
    obtain ⟨hxs, hs, _, hrest⟩ := hadm
    cases xs with
    | cons x xs =>
      have hx := hxs x (by simp)
      simp only [merged, renderList_cons, List.append_assoc]
      exact after_render lo' x hx.1 (by omega) _
    | nil =>
      rcases hh (([] : List WFField), s) (by simp) with he | ⟨ty, rest', hty, he⟩
      · have he' : s.enc = [] := he
        simp only [merged, renderList, List.nil_append]
        rw [he', List.nil_append]
        exact ih (s.f.tag + 1) lo' hrest (fun p hp => hh p (by simp [hp])) (by omega)
      · simp only [merged, renderList, List.nil_append]
        simp only at he
        rw [he]
        exact .inr ⟨ty, s.f.tag, rest' ++ (merged rest tail ++ t), hty, by assumption,
          .inr (by omega), by simp⟩

/-- forget the unknown fields -/
def strip (items : List (List WFField × Slot)) : List (List WFField × Slot) :=
  items.map fun p => ([], p.2)

theorem merged_strip (items : List (List WFField × Slot)) :
    merged (strip items) [] = plain (items.map (·.2)) := by
  induction items with
  | nil => simp [strip, merged, plain, renderList]
  | cons p rest ih =>
    simp only [strip, List.map_cons, merged, plain, renderList, List.nil_append] at ih ⊢
    rw [ih]

theorem admissible_strip (items : List (List WFField × Slot)) (tail : List WFField) (lo : Nat)
    (h : Admissible lo items tail) : Admissible lo (strip items) [] := by
  induction items generalizing lo with
  | nil => simp [strip, Admissible]
  | cons p rest ih =>
    obtain ⟨xs, s⟩ := p
    obtain ⟨_, h2, h3, h4⟩ := h
    have := ih _ h4
    simp only [strip, List.map_cons, Admissible] at this ⊢
    exact ⟨fun x hx => absurd hx (by simp), h2, h3, this⟩

/-! ### `ReadFrom`'s member sequence -/

theorem decMembers_nil (env : Env) (F : Nat) (os : List Val) (r : Reader) :
    decMembers env (F+1) [] os r = (.ok [], r) := by
  unfold decMembers; simp

theorem decMembers_cons_err (env : Env) (F : Nat) (f : Field) (fs : List Field) (o : Val)
    (os : List Val) (r r1 : Reader) (e : Err)
    (h : decVar env F f.tag f.req f.ty o r = (.error e, r1)) :
    decMembers env (F+1) (f :: fs) (o :: os) r = (.error e, r1) := by
  unfold decMembers; simp [h]

theorem decMembers_cons_ok (env : Env) (F : Nat) (f : Field) (fs : List Field) (o : Val)
    (os : List Val) (r r1 : Reader) (v : Val)
    (h : decVar env F f.tag f.req f.ty o r = (.ok v, r1)) :
    decMembers env (F+1) (f :: fs) (o :: os) r
      = ((decMembers env F fs os r1).1.map (v :: ·), (decMembers env F fs os r1).2) := by
  rw [decMembers]
  simp only [h]
  rcases decMembers env F fs os r1 with ⟨e | vs, r2⟩ <;> simp [Except.map]

def fieldsOf (items : List (List WFField × Slot)) : List Field := items.map (·.2.f)
def oldsOf (items : List (List WFField × Slot)) : List Val := items.map (·.2.old)

/-- **unknown fields are ignored** (member-sequence level): the generated member reads give the same
    outcome (values or error) on the message with the unknown fields as on the message without
    them; on success the reader with the unknown fields stands in front of the trailing unknown
    fields, the other one at the terminator. -/
theorem decMembers_unknown_ignored (env : Env) (N : Nat) (items : List (List WFField × Slot)) :
    ∀ (tail : List WFField) (lo : Nat), Admissible lo items tail →
    (∀ p ∈ items, p.2.HeadOk ∧ p.2.SelfDelimiting env N) →
    ∀ (t t' : Bytes), Terminated t → Terminated t' →
    ∀ (fuel fuel' : Nat), N + items.length < fuel → N + items.length < fuel' →
    ∀ (r r' : Reader), r.rest = merged items tail ++ t → r'.rest = merged (strip items) [] ++ t' →
      (decMembers env fuel (fieldsOf items) (oldsOf items) r).1
        = (decMembers env fuel' (fieldsOf items) (oldsOf items) r').1 ∧
      ∀ vs, (decMembers env fuel (fieldsOf items) (oldsOf items) r).1 = .ok vs →
        (decMembers env fuel (fieldsOf items) (oldsOf items) r).2.rest = renderList tail ++ t ∧
        (decMembers env fuel' (fieldsOf items) (oldsOf items) r').2.rest = t' := by
  induction items with
  | nil =>
    intro tail lo _ _ t t' _ _ fuel fuel' hf hf' r r' h h'
    obtain ⟨F, rfl⟩ := exists_succ_of_pos (n := fuel) (by omega)
    obtain ⟨F', rfl⟩ := exists_succ_of_pos (n := fuel') (by omega)
    simp only [fieldsOf, oldsOf, List.map_nil, decMembers_nil]
    refine ⟨trivial, fun _ _ => ⟨by simpa [merged] using h, by simpa [strip, merged, renderList] using h'⟩⟩
  | cons p rest ih =>
    obtain ⟨xs, s⟩ := p
    intro tail lo hadm hsl t t' ht ht' fuel fuel' hf hf' r r' h h'
    obtain ⟨F, rfl⟩ := exists_succ_of_pos (n := fuel) (by omega)
    obtain ⟨F', rfl⟩ := exists_succ_of_pos (n := fuel') (by omega)
    simp only [List.length_cons] at hf hf'
    obtain ⟨hxs, hlo, htag, hrest⟩ := hadm
    obtain ⟨hhead, hsd⟩ := hsl (xs, s) (by simp)
    have hsl' : ∀ p ∈ rest, p.2.HeadOk ∧ p.2.SelfDelimiting env N := fun p hp => hsl p (by simp [hp])
    -- the unknown fields in front of the member are passed over
    have h0 : r.rest = renderList xs ++ (s.enc ++ (merged rest tail ++ t)) := by
      simpa [merged] using h
    have hpass := decVar_passes env F s.f.tag s.f.req s.f.ty s.old r xs
      (fun x hx => ⟨(hxs x hx).1, (hxs x hx).2.2⟩) _ h0
    have hr1 := r.rest_adv _ _ h0
    have h0' : r'.rest = s.enc ++ (merged (strip rest) [] ++ t') := by
      simpa [strip, merged, renderList] using h'
    -- what follows the member in either message
    have haft : After s.f.tag (merged rest tail ++ t) :=
      after_merged rest tail (s.f.tag + 1) s.f.tag hrest (fun p hp => (hsl' p hp).1) t ht (by omega)
    have haft' : After s.f.tag (merged (strip rest) [] ++ t') := by
      refine after_merged (strip rest) [] (s.f.tag + 1) s.f.tag (admissible_strip rest tail _ hrest)
        ?_ t' ht' (by omega)
      intro p hp
      simp only [strip, List.mem_map] at hp
      obtain ⟨q, hq, rfl⟩ := hp
      exact (hsl' q hq).1
    obtain ⟨hA, hB⟩ := hsd F F' (by omega) (by omega) _ r' _ _ hr1 h0' haft haft'
    simp only [fieldsOf, oldsOf, List.map_cons]
    rcases hdv : decVar env F s.f.tag s.f.req s.f.ty s.old r with ⟨e | v, rr⟩
    · -- the member fails: it fails in the same way without the unknown fields
      have h1 : (decVar env F s.f.tag s.f.req s.f.ty s.old (r.adv (renderList xs).length)).1
          = .error e := by rw [← hpass.1, hdv]
      rw [h1] at hA
      rcases hdv' : decVar env F' s.f.tag s.f.req s.f.ty s.old r' with ⟨e' | v', rr'⟩
      · rw [hdv'] at hA
        simp only [Except.error.injEq] at hA
        subst hA
        rw [decMembers_cons_err env F _ _ _ _ r rr e hdv, decMembers_cons_err env F' _ _ _ _ r' rr' e hdv']
        exact ⟨rfl, fun vs hvs => by cases hvs⟩
      · rw [hdv'] at hA; cases hA
    · -- the member succeeds: same value, and both readers stand right behind its bytes
      have h1 : (decVar env F s.f.tag s.f.req s.f.ty s.old (r.adv (renderList xs).length)).1
          = .ok v := by rw [← hpass.1, hdv]
      have h2 : rr = (decVar env F s.f.tag s.f.req s.f.ty s.old (r.adv (renderList xs).length)).2 := by
        have := hpass.2 v (by rw [hdv]); rw [hdv] at this; exact this
      obtain ⟨hB1, hB2⟩ := hB v h1
      rw [h1] at hA
      rcases hdv' : decVar env F' s.f.tag s.f.req s.f.ty s.old r' with ⟨e' | v', rr'⟩
      · rw [hdv'] at hA; cases hA
      rw [hdv'] at hA hB2
      simp only [Except.ok.injEq] at hA
      subst hA
      rw [← h2] at hB1
      rw [decMembers_cons_ok env F _ _ _ _ r _ v hdv, decMembers_cons_ok env F' _ _ _ _ r' _ v hdv']
      have hr2 := hB1
      have hr2' : rr'.rest = merged (strip rest) [] ++ t' := hB2
      obtain ⟨ih1, ih2⟩ := ih tail (s.f.tag + 1) hrest hsl' t t' ht ht' F F' (by omega) (by omega)
        _ _ hr2 hr2'
      simp only [fieldsOf, oldsOf] at ih1 ih2
      refine ⟨by rw [ih1], fun vs hvs => ?_⟩
      simp only at hvs ⊢
      rcases hm : (decMembers env F (List.map (fun x => x.2.f) rest) (List.map (fun x => x.2.old) rest)
          rr).1 with e | vs'
      · rw [hm] at hvs; cases hvs
      · exact ih2 vs' hm

end Evolve
end Tars
