import TarsModel.Model.Schema

/-!
# Specification vocabulary for C03 (generated struct codecs)

Explicit well-typedness of schemas and values, the normal form `norm` that a round trip produces,
and what may follow a struct body (`Terminated`).  Definitions only (core Lean).
-/
namespace Tars
open Consts

/-! ## Well-formed schemas -/

/-- a scalar (or enum) value in the range of its Go type; floats are bit patterns, strings are
    shorter than 2^32 bytes -/
def ScalarOK : Ty → Val → Prop
  | .bool, .bool _ => True
  | .i8, .int i => -(2:Int)^7 ≤ i ∧ i < (2:Int)^7
  | .u8, .int i => 0 ≤ i ∧ i < (2:Int)^8
  | .i16, .int i => -(2:Int)^15 ≤ i ∧ i < (2:Int)^15
  | .u16, .int i => 0 ≤ i ∧ i < (2:Int)^16
  | .i32, .int i => -(2:Int)^31 ≤ i ∧ i < (2:Int)^31
  | .enum, .int i => -(2:Int)^31 ≤ i ∧ i < (2:Int)^31
  | .u32, .int i => 0 ≤ i ∧ i < (2:Int)^32
  | .i64, .int i => -(2:Int)^63 ≤ i ∧ i < (2:Int)^63
  | .f32, .f32 b => b < 2^32
  | .f64, .f64 b => b < 2^64
  | .str, .str s => s.length < 2^32
  | _, _ => False

/-- scalar or enum: the types that may carry an explicit IDL default -/
def Ty.isAtom (t : Ty) : Bool := t.isScalar || t == .enum

/-- a type of the supported language relative to a schema: every struct it mentions is defined;
    a struct contained *by value* (directly or in fixed arrays) has a rank below `bound` (a Go
    struct cannot contain itself by value), while below a vector or a map any defined struct may
    appear (recursive types such as `struct Tree { vector<Tree> kids; }` are allowed).  Fixed
    arrays of `byte` / `unsigned byte` are excluded: the code tars2go emits for them does not
    compile. -/
def TyOK (env : Env) (rk : String → Nat) : Nat → Ty → Prop
  | _, .vec e => TyOK env rk (env.length + 1) e
  | bound, .arr _ e => e ≠ .i8 ∧ e ≠ .u8 ∧ TyOK env rk bound e
  | _, .map k v => TyOK env rk (env.length + 1) k ∧ TyOK env rk (env.length + 1) v
  | bound, .struct name => (∃ fs, env.find name = some fs) ∧ rk name < bound
  | _, _ => True

/-- a member declaration: tag fits a byte, type supported, an explicit default only on scalars and
    enums and within the range of the type -/
def FieldOK (env : Env) (rk : String → Nat) (bound : Nat) (f : Field) : Prop :=
  f.tag ≤ 255 ∧ TyOK env rk bound f.ty ∧
  (match f.dflt with
   | none => True
   | some d => f.ty.isAtom = true ∧ ScalarOK f.ty d)

/-- members in strictly ascending tag order (guaranteed by the parser's tag check and sort) -/
def TagsAsc (fs : List Field) : Prop := fs.Pairwise (fun a b => a.tag < b.tag)

/-- well-formed schema: `rk` ranks the struct names (ranks ≤ `env.length`) so that a struct only
    contains by value structs of smaller rank — by-value nesting is acyclic — and every definition
    is a list of admissible members in strictly ascending tag order -/
def EnvWF (env : Env) (rk : String → Nat) : Prop :=
  ∀ name fs, env.find name = some fs →
    rk name ≤ env.length ∧ TagsAsc fs ∧ ∀ f ∈ fs, FieldOK env rk (rk name) f

/-! ## Well-typed values -/

/-- map keys pairwise distinct under Go `==` (a Go map cannot hold two equal keys) -/
def KeysDistinct (kvs : List (Val × Val)) : Prop :=
  kvs.Pairwise (fun a b => keyEq a.1 b.1 = false)

mutual
/-- `v` is a Go value of the type the generator emits for `ty` -/
def WT (env : Env) : Ty → Val → Prop
  | ty, .list vs =>
    match ty with
    | .vec e => vs.length < 2^31 ∧ WTs env e vs
    | .arr n e => vs.length = n ∧ n < 2^31 ∧ WTs env e vs
    | _ => False
  | ty, .map kvs =>
    match ty with
    | .map k v => kvs.length < 2^31 ∧ KeysDistinct kvs ∧ WTp env k v kvs
    | _ => False
  | ty, .struct vs =>
    match ty with
    | .struct name =>
      match env.find name with
      | some fs => WTm env fs vs
      | none => False
    | _ => False
  | ty, v => ScalarOK ty v
def WTs (env : Env) : Ty → List Val → Prop
  | _, [] => True
  | e, v :: vs => WT env e v ∧ WTs env e vs
def WTp (env : Env) : Ty → Ty → List (Val × Val) → Prop
  | _, _, [] => True
  | k, v, (a, b) :: rest => WT env k a ∧ WT env v b ∧ WTp env k v rest
/-- struct value positionally matching the member list -/
def WTm (env : Env) : List Field → List Val → Prop
  | [], [] => True
  | f :: fs, v :: vs => WT env f.ty v ∧ WTm env fs vs
  | _, _ => False
end

/-- the property's `WellTyped`: a value of struct type `S` under a well-formed schema -/
def WellTyped (env : Env) (rk : String → Nat) (S : String) (v : Val) : Prop :=
  EnvWF env rk ∧ WT env (.struct S) v

/-! ## Normal form of a round trip -/

mutual
/-- what a member/element holding `v` reads back as: identical, except that an optional float
    member equal (Go `==`, so `-0 == +0`) to its default is not transmitted and reads back as the
    default.  (nil and empty containers are both `.list []` / `.map []` in the model.) -/
def normVar (env : Env) (req : Bool) (ty : Ty) (dflt : Option Val) : Val → Val
  | .list vs =>
    match ty with
    | .vec e | .arr _ e => .list (normElems env e vs)
    | _ => .list vs
  | .map kvs =>
    match ty with
    | .map k v => .map (normPairs env k v kvs)
    | _ => .map kvs
  | .struct vs =>
    match ty with
    | .struct name =>
      match env.find name with
      | some fs => .struct (normMembers env fs vs)
      | none => .struct vs
    | _ => .struct vs
  | .f32 b =>
    match dflt.getD (.f32 0) with
    | .f32 d => if !req && f32Eq b d then .f32 d else .f32 b
    | _ => .f32 b
  | .f64 b =>
    match dflt.getD (.f64 0) with
    | .f64 d => if !req && f64Eq b d then .f64 d else .f64 b
    | _ => .f64 b
  | v => v
def normElems (env : Env) (e : Ty) : List Val → List Val
  | [] => []
  | v :: vs => normVar env true e none v :: normElems env e vs
def normPairs (env : Env) (k v : Ty) : List (Val × Val) → List (Val × Val)
  | [] => []
  | (a, b) :: rest => (normVar env true k none a, normVar env true v none b) :: normPairs env k v rest
def normMembers (env : Env) : List Field → List Val → List Val
  | f :: fs, v :: vs => normVar env f.req f.ty f.dflt v :: normMembers env fs vs
  | _, _ => []
end

/-- normal form of a value of struct type `S` -/
def norm (env : Env) (S : String) (v : Val) : Val := normVar env true (.struct S) none v

/-! ## What follows a struct body -/

/-- the input after a struct body: nothing (top-level buffer) or a StructEnd head (`WriteBlock`) -/
def Terminated (t : Bytes) : Prop :=
  t = [] ∨ ∃ tg t', tg < 256 ∧ t = writeHead tyStructEnd tg ++ t'

end Tars
