import TarsModel.Model.ServerConn

/-!
Helper lemmas for C12, part 1: the per-connection invariant and its preservation by every
transition of one connection record.
-/
namespace Tars.ServerConn

/-! ### list facts -/

theorem countP_set_same {α : Type} (p : α → Bool) :
    ∀ (l : List α) (i : Nat) (x a : α), l[i]? = some x → p x = p a → (l.set i a).countP p = l.countP p
  | [], _, _, _, h, _ => by simp at h
  | y :: l, 0, x, a, h, hp => by
    simp at h; subst h
    simp [List.set, List.countP_cons, hp]
  | y :: l, i + 1, x, a, h, hp => by
    simp at h
    simp [List.set, List.countP_cons, countP_set_same p l i x a h hp]

theorem countP_set_dec {α : Type} (p : α → Bool) :
    ∀ (l : List α) (i : Nat) (x a : α), l[i]? = some x → p x = true → p a = false →
      (l.set i a).countP p + 1 = l.countP p
  | [], _, _, _, h, _, _ => by simp at h
  | y :: l, 0, x, a, h, hx, ha => by
    simp at h; subst h
    simp [List.set, hx, ha]
  | y :: l, i + 1, x, a, h, hx, ha => by
    simp at h
    have := countP_set_dec p l i x a h hx ha
    simp [List.set, List.countP_cons]
    omega

theorem countP_zero_all {α : Type} (p : α → Bool) (l : List α) (h : l.countP p = 0) :
    ∀ x ∈ l, p x = false := by
  intro x hx
  cases hpx : p x with
  | false => rfl
  | true =>
    have : 0 < l.countP p := List.countP_pos_iff.mpr ⟨x, hx, hpx⟩
    omega

theorem mem_of_getElem? {α : Type} {l : List α} {i : Nat} {x : α} (h : l[i]? = some x) : x ∈ l :=
  List.mem_of_getElem? h

/-! ### the invariant of one connection record -/

def notDone (q : Req) : Bool := !q.st.isDone

/-- the connection goroutine has got past `t.conns.Store` -/
def Conn.started (k : Conn) : Prop := k.rpc ≠ .backlog ∧ k.rpc ≠ .unreg

structure ConnInv (k : Conn) : Prop where
  /-- `numInvoke` counts exactly the dispatched requests whose deferred decrement has not run -/
  count : k.numInvoke = k.reqs.countP notDone
  /-- while the server has not closed the connection, every request was dispatched on the open
  connection and no response write has failed -/
  openOk : k.srvClosed = false → ∀ q ∈ k.reqs, q.dispOpen = true ∧ q.st.ok = true
  closedPc : k.rpc = .closed → k.srvClosed = true ∧ k.numInvoke = 0 ∧ k.registered = false
  bufNil : (k.rpc = .top ∨ k.rpc = .reading ∨ k.rpc = .draining ∨ k.rpc = .closed ∨ k.rpc = .unreg ∨
            k.rpc = .backlog ∨ k.rpc = .drainWait) → k.buf = []
  fresh : (k.rpc = .backlog ∨ k.rpc = .unreg) → k.reqs = [] ∧ k.registered = false
  regPc : k.registered = false → k.rpc = .backlog ∨ k.rpc = .unreg ∨ k.rpc = .closed

/-- how the handler of a request dispatched on the open connection may have ended when the connection
is closed: executed with its response written to the open connection (`done true`); in the
early-decrement variant also with its write still pending or made late -/
def HSt.safeEnd : HSt → Bool
  | .done true | .writePending | .doneLate _ => true
  | _ => false

/-- the safety clause for one connection: once the server has closed it, every request that was
dispatched while it was open has been executed, its response written to the open connection and its
handler has finished -/
def ConnSafe (k : Conn) : Prop :=
  k.srvClosed = true → ∀ q ∈ k.reqs, q.dispOpen = true → q.st.safeEnd = true

theorem safeEnd_isDone {st : HSt} (h : st.safeEnd = true) : st.isDone = true := by
  cases st <;> simp_all [HSt.safeEnd, HSt.isDone]

/-- without the early-decrement variant's states, `safeEnd` is `done true` -/
theorem safeEnd_done {st : HSt} (h : st.safeEnd = true) (he : st.early = false) : st = .done true := by
  cases st with
  | done ok => cases ok <;> simp_all [HSt.safeEnd]
  | _ => simp_all [HSt.safeEnd, HSt.early]

/-- what never goes back in a connection record -/
structure ConnMono (k k' : Conn) : Prop where
  closedM : k.srvClosed = true → k'.srvClosed = true
  notifiedM : k.notified = true → k'.notified = true
  startedM : k.started → k'.started
  pcClosedM : k.rpc = .closed → k'.rpc = .closed

theorem ConnMono.refl (k : Conn) : ConnMono k k := ⟨id, id, id, id⟩

theorem ConnMono.trans {a b c : Conn} (h1 : ConnMono a b) (h2 : ConnMono b c) : ConnMono a c :=
  ⟨fun h => h2.closedM (h1.closedM h), fun h => h2.notifiedM (h1.notifiedM h),
   fun h => h2.startedM (h1.startedM h), fun h => h2.pcClosedM (h1.pcClosedM h)⟩

theorem connInv_new : ConnInv Conn.new := by
  constructor <;> simp [Conn.new]

/-- an open connection with `numInvoke = 0`: everything dispatched is finished with its response written -/
theorem all_done_of_zero {k : Conn} (hi : ConnInv k) (ho : k.srvClosed = false) (hz : k.numInvoke = 0) :
    ∀ q ∈ k.reqs, q.dispOpen = true → q.st.safeEnd = true := by
  intro q hq _
  have hc : k.reqs.countP notDone = 0 := by rw [← hi.count]; exact hz
  have hnd := countP_zero_all notDone k.reqs hc q hq
  have hok := (hi.openOk ho q hq).2
  cases hst : q.st with
  | done ok =>
    cases ok with
    | true => rfl
    | false => simp [hst, HSt.ok] at hok
  | writePending => rfl
  | doneLate ok => rfl
  | queued => simp [notDone, hst, HSt.isDone] at hnd
  | handed => simp [notDone, hst, HSt.isDone] at hnd
  | running => simp [notDone, hst, HSt.isDone] at hnd
  | finished => simp [notDone, hst, HSt.isDone] at hnd
  | wrote ok => simp [notDone, hst, HSt.isDone] at hnd
  | leaked => simp [notDone, hst, HSt.isDone] at hnd

/-- A transition function of one connection record is `Good` when it preserves the invariant, only
moves forward, preserves the safety clause, keeps a connection in the backlog there (`stay`; only
`cAccept` is exempt) and keeps the registration unless it is the receiver's own close. -/
structure Good (f : Conn → Option Conn) : Prop where
  inv : ∀ k k', f k = some k' → ConnInv k → ConnInv k'
  mono : ∀ k k', f k = some k' → ConnMono k k'
  safe : ∀ k k', f k = some k' → ConnInv k → ConnSafe k → ConnSafe k'

def Stay (f : Conn → Option Conn) : Prop :=
  ∀ k k', f k = some k' → k.rpc = .backlog → k'.rpc = .backlog

/-! ### each transition function is good -/

theorem good_cSend (nr : Bool) (r : Rid) : Good (cSend nr r) := by
  refine ⟨?_, ?_, ?_⟩ <;> intro k k' h <;> unfold cSend at h <;> split at h <;> simp at h <;> subst h
  · intro hi; exact ⟨hi.count, hi.openOk, hi.closedPc, hi.bufNil, hi.fresh, hi.regPc⟩
  · exact ⟨id, id, id, id⟩
  · intro _ hs; exact hs

theorem stay_cSend (nr : Bool) (r : Rid) : Stay (cSend nr r) := by
  intro k k' h; unfold cSend at h; split at h <;> simp at h; subst h; exact id

theorem good_cAccept : Good cAccept := by
  refine ⟨?_, ?_, ?_⟩ <;> intro k k' h <;> unfold cAccept at h <;> split at h <;> simp at h <;> subst h
  · rename_i hpc
    intro hi
    have hf := hi.fresh (Or.inl hpc)
    have hb := hi.bufNil (by simp [hpc])
    refine ⟨hi.count, hi.openOk, by simp, fun _ => hb, fun _ => hf, fun _ => by simp⟩
  · rename_i hpc
    refine ⟨id, id, ?_, ?_⟩
    · intro hs; exact absurd hpc hs.1
    · intro hc; simp [hpc] at hc
  · intro _ hs; exact hs

theorem good_cRegister : Good cRegister := by
  refine ⟨?_, ?_, ?_⟩ <;> intro k k' h <;> unfold cRegister at h <;> split at h <;> simp at h <;> subst h
  · rename_i hpc
    intro hi
    have hb := hi.bufNil (by simp [hpc])
    refine ⟨hi.count, hi.openOk, by simp, fun _ => hb, by simp, by simp⟩
  · rename_i hpc
    refine ⟨id, id, ?_, ?_⟩
    · intro _; simp [Conn.started]
    · intro hc; simp [hpc] at hc
  · intro _ hs; exact hs

theorem stay_cRegister : Stay cRegister := by
  intro k k' h hb; unfold cRegister at h; split at h <;> simp at h; rename_i hpc; simp [hpc] at hb

theorem good_cStamp : Good cStamp := by
  refine ⟨?_, ?_, ?_⟩ <;> intro k k' h <;> unfold cStamp at h <;> split at h <;> simp at h <;> subst h
  · rename_i hpc
    intro hi
    have hb := hi.bufNil (by simp [hpc])
    refine ⟨hi.count, hi.openOk, by simp, fun _ => hb, by simp, ?_⟩
    intro hr; have := hi.regPc hr; simp [hpc] at this
  · rename_i hpc
    refine ⟨id, id, ?_, ?_⟩
    · intro _; simp [Conn.started]
    · intro hc; simp [hpc] at hc
  · intro _ hs; exact hs

theorem stay_cStamp : Stay cStamp := by
  intro k k' h hb; unfold cStamp at h; split at h <;> simp at h; rename_i hpc; simp [hpc] at hb

theorem good_cRead (n : Nat) : Good (cRead n) := by
  refine ⟨?_, ?_, ?_⟩ <;> intro k k' h <;> unfold cRead at h <;> split at h <;> try contradiction
  all_goals (split at h <;> try contradiction)
  all_goals (simp only [Option.some.injEq] at h; subst h)
  · rename_i hpc _
    intro hi
    refine ⟨hi.count, hi.openOk, by simp, by simp, by simp, ?_⟩
    intro hr; have := hi.regPc hr; simp [hpc] at this
  · rename_i hpc _
    refine ⟨id, id, ?_, ?_⟩
    · intro _; simp [Conn.started]
    · intro hc; simp [hpc] at hc
  · intro _ hs; exact hs

theorem stay_cRead (n : Nat) : Stay (cRead n) := by
  intro k k' h hb; unfold cRead at h; split at h <;> simp at h; rename_i hpc; simp [hpc] at hb

theorem good_cReadErr (p b f : Bool) : Good (cReadErr p b f) := by
  refine ⟨?_, ?_, ?_⟩ <;> intro k k' h <;> unfold cReadErr at h <;> split at h <;> try contradiction
  all_goals (split at h <;> try contradiction)
  all_goals (simp only [Option.some.injEq] at h; subst h)
  all_goals rename_i hpc _
  · intro hi
    have hb := hi.bufNil (by simp [hpc])
    refine ⟨hi.count, hi.openOk, by simp, fun _ => hb, by simp, ?_⟩
    intro hr; have := hi.regPc hr; simp [hpc] at this
  · intro hi
    have hb := hi.bufNil (by simp [hpc])
    refine ⟨hi.count, hi.openOk, by simp, fun _ => hb, by simp, ?_⟩
    intro hr; have := hi.regPc hr; simp [hpc] at this
  · refine ⟨id, id, ?_, ?_⟩
    · intro _; simp [Conn.started]
    · intro hc; simp [hpc] at hc
  · refine ⟨id, id, ?_, ?_⟩
    · intro _; simp [Conn.started]
    · intro hc; simp [hpc] at hc
  · intro _ hs; exact hs
  · intro _ hs; exact hs

theorem stay_cReadErr (p b f : Bool) : Stay (cReadErr p b f) := by
  intro k k' h hb; unfold cReadErr at h; split at h <;> try contradiction
  rename_i hpc; simp [hpc] at hb

theorem good_cAge : Good cAge := by
  refine ⟨?_, ?_, ?_⟩ <;> intro k k' h <;> unfold cAge at h <;> simp at h <;> subst h
  · intro hi; exact ⟨hi.count, hi.openOk, hi.closedPc, hi.bufNil, hi.fresh, hi.regPc⟩
  · exact ⟨id, id, id, id⟩
  · intro _ hs; exact hs

theorem stay_cAge : Stay cAge := by
  intro k k' h; unfold cAge at h; simp at h; subst h; exact id

theorem good_cDispatch (p : Bool) : Good (cDispatch p) := by
  refine ⟨?_, ?_, ?_⟩ <;> intro k k' h <;> unfold cDispatch at h <;> split at h <;> simp at h <;> subst h
  · rename_i r rest hpc hbuf
    intro hi
    refine ⟨?_, ?_, ?_, ?_, ?_, ?_⟩
    · simp [List.countP_append, notDone, HSt.isDone, hi.count]
    · intro ho q hq
      simp at ho
      simp at hq
      rcases hq with hq | hq
      · exact hi.openOk ho q hq
      · subst hq; simp [ho, HSt.ok]
    · intro hc
      simp at hc
      split at hc <;> try (simp at hc)
      split at hc <;> simp at hc
    · intro hc
      simp at hc ⊢
      split at hc
      · simp at hc
      · split at hc
        · assumption
        · simp at hc
    · intro hc
      simp at hc
      split at hc <;> try (simp at hc)
      split at hc <;> simp at hc
    · intro hr
      simp at hr
      have := hi.regPc hr; simp [hpc] at this
  · rename_i r rest hpc hbuf
    refine ⟨id, id, ?_, ?_⟩
    · intro _
      simp only [Conn.started]
      constructor <;> (split <;> try simp) <;> (split <;> simp)
    · intro hc; simp [hpc] at hc
  · rename_i r rest hpc hbuf
    intro _ hs hcl q hq hd
    simp at hcl
    simp at hq
    rcases hq with hq | hq
    · exact hs hcl q hq hd
    · subst hq; simp [hcl] at hd

theorem stay_cDispatch (p : Bool) : Stay (cDispatch p) := by
  intro k k' h hb; unfold cDispatch at h; split at h <;> simp at h; rename_i hpc _; simp [hpc] at hb

/-- `cEnqueued` as a plain transition -/
def cEnqueued' (k : Conn) : Option Conn := (cEnqueued k).map Prod.fst

theorem good_cEnqueued' : Good cEnqueued' := by
  refine ⟨?_, ?_, ?_⟩ <;> intro k k' h <;> unfold cEnqueued' cEnqueued at h <;> split at h <;> simp at h <;> subst h
  · rename_i i hpc
    intro hi
    refine ⟨hi.count, hi.openOk, ?_, ?_, ?_, ?_⟩
    · intro hc; simp at hc; split at hc <;> simp at hc
    · intro hc
      by_cases hb : k.buf = []
      · exact hb
      · simp [hb] at hc
    · intro hc; simp at hc; split at hc <;> simp at hc
    · intro hr; simp at hr; have := hi.regPc hr; simp [hpc] at this
  · rename_i i hpc
    refine ⟨id, id, ?_, ?_⟩
    · intro _; simp only [Conn.started]; constructor <;> (split <;> simp)
    · intro hc; simp [hpc] at hc
  · intro _ hs; exact hs

theorem stay_cEnqueued' : Stay cEnqueued' := by
  intro k k' h hb; unfold cEnqueued' cEnqueued at h; split at h <;> simp at h; rename_i hpc; simp [hpc] at hb

/-- changing the state of one unfinished request to another unfinished state -/
theorem good_cSetSt (i : Nat) (frm : HSt) (to : Conn → HSt)
    (hfrm : frm.isDone = false) (hto : ∀ k, (to k).isDone = false)
    (hok : ∀ k, k.srvClosed = false → (to k).ok = true) :
    Good (fun k => cSetSt i frm (to k) k) := by
  refine ⟨?_, ?_, ?_⟩ <;> intro k k' h <;> simp only [cSetSt] at h <;> split at h <;> try contradiction
  all_goals (split at h <;> try contradiction)
  all_goals (simp only [Option.some.injEq] at h; subst h)
  all_goals rename_i q hq hst
  · intro hi
    refine ⟨?_, ?_, hi.closedPc, hi.bufNil, ?_, hi.regPc⟩
    · simp only
      rw [countP_set_same notDone k.reqs i q _ hq (by simp [notDone, hst, hfrm, hto])]
      exact hi.count
    · intro ho x hx
      simp at ho
      rcases List.mem_or_eq_of_mem_set hx with hx | hx
      · exact hi.openOk ho x hx
      · subst hx
        exact ⟨(hi.openOk ho q (mem_of_getElem? hq)).1, hok k ho⟩
    · intro hc
      have := hi.fresh hc
      rw [this.1] at hq
      simp at hq
  · exact ⟨id, id, id, id⟩
  · intro hi hs hcl x hx hd
    simp at hcl
    rcases List.mem_or_eq_of_mem_set hx with hx | hx
    · exact hs hcl x hx hd
    · subst hx
      have h2 := safeEnd_isDone (hs hcl q (mem_of_getElem? hq) hd)
      rw [hst, hfrm] at h2
      contradiction

theorem stay_cSetSt (i : Nat) (frm : HSt) (to : Conn → HSt) : Stay (fun k => cSetSt i frm (to k) k) := by
  intro k k' h hb
  simp only [cSetSt] at h
  split at h <;> try contradiction
  split at h <;> try contradiction
  simp only [Option.some.injEq] at h
  subst h; exact hb

theorem good_cStart (i : Nat) : Good (cStart i) :=
  good_cSetSt i .queued (fun _ => .running) rfl (fun _ => rfl) (fun _ _ => rfl)
theorem good_cHand (i : Nat) : Good (cHand i) :=
  good_cSetSt i .queued (fun _ => .handed) rfl (fun _ => rfl) (fun _ _ => rfl)
theorem good_cStartP (i : Nat) : Good (cStartP i) :=
  good_cSetSt i .handed (fun _ => .running) rfl (fun _ => rfl) (fun _ _ => rfl)
theorem good_cFin (i : Nat) : Good (cFin i) :=
  good_cSetSt i .running (fun _ => .finished) rfl (fun _ => rfl) (fun _ _ => rfl)
/-- a guarded version of a good transition is good -/
theorem good_of_imp {f g : Conn → Option Conn} (h : ∀ k k', f k = some k' → g k = some k') (hg : Good g) :
    Good f :=
  ⟨fun k k' hf => hg.inv k k' (h k k' hf), fun k k' hf => hg.mono k k' (h k k' hf),
   fun k k' hf => hg.safe k k' (h k k' hf)⟩

theorem stay_of_imp {f g : Conn → Option Conn} (h : ∀ k k', f k = some k' → g k = some k') (hg : Stay g) :
    Stay f := fun k k' hf => hg k k' (h k k' hf)

theorem cWrite_imp (i : Nat) : ∀ k k', cWrite i k = some k' →
    (fun k => cSetSt i .finished (.wrote (!k.srvClosed)) k) k = some k' := by
  intro k k' h
  unfold cWrite at h
  split at h <;> try contradiction
  split at h <;> try contradiction
  exact h

theorem cSkip_imp (d : Bool) (i : Nat) : ∀ k k', cSkip d i k = some k' →
    (fun k => cSetSt i .finished (if d then .wrote true else .leaked) k) k = some k' := by
  intro k k' h
  unfold cSkip at h
  split at h <;> try contradiction
  split at h <;> try contradiction
  exact h

theorem good_cWrite (i : Nat) : Good (cWrite i) :=
  good_of_imp (cWrite_imp i)
    (good_cSetSt i .finished (fun k => .wrote (!k.srvClosed)) rfl (fun _ => rfl)
      (fun k h => by simp [h, HSt.ok]))

theorem good_cSkip (d : Bool) (i : Nat) : Good (cSkip d i) :=
  good_of_imp (cSkip_imp d i)
    (good_cSetSt i .finished (fun _ => if d then .wrote true else .leaked) rfl
      (fun _ => by cases d <;> rfl) (fun _ _ => by cases d <;> rfl))

theorem stay_cStart (i : Nat) : Stay (cStart i) := stay_cSetSt i .queued (fun _ => .running)
theorem stay_cHand (i : Nat) : Stay (cHand i) := stay_cSetSt i .queued (fun _ => .handed)
theorem stay_cStartP (i : Nat) : Stay (cStartP i) := stay_cSetSt i .handed (fun _ => .running)
theorem stay_cFin (i : Nat) : Stay (cFin i) := stay_cSetSt i .running (fun _ => .finished)
theorem stay_cWrite (i : Nat) : Stay (cWrite i) :=
  stay_of_imp (cWrite_imp i) (stay_cSetSt i .finished (fun k => .wrote (!k.srvClosed)))
theorem stay_cSkip (d : Bool) (i : Nat) : Stay (cSkip d i) :=
  stay_of_imp (cSkip_imp d i) (stay_cSetSt i .finished (fun _ => if d then .wrote true else .leaked))

theorem good_cDec (i : Nat) : Good (cDec i) := by
  refine ⟨?_, ?_, ?_⟩ <;> intro k k' h <;> unfold cDec at h <;> split at h <;> try contradiction
  all_goals (split at h <;> try contradiction)
  all_goals (simp only [Option.some.injEq] at h; subst h)
  all_goals rename_i q hq _ ok hst
  · intro hi
    refine ⟨?_, ?_, ?_, hi.bufNil, ?_, hi.regPc⟩
    · simp only
      have := countP_set_dec notDone k.reqs i q { q with st := .done ok } hq
        (by simp [notDone, hst, HSt.isDone]) (by simp [notDone, HSt.isDone])
      have hc := hi.count
      omega
    · intro ho x hx
      simp at ho
      rcases List.mem_or_eq_of_mem_set hx with hx | hx
      · exact hi.openOk ho x hx
      · subst hx
        have := hi.openOk ho q (mem_of_getElem? hq)
        rw [hst] at this
        refine ⟨this.1, ?_⟩
        cases ok <;> simp [HSt.ok] at this ⊢
    · intro hc
      have := hi.closedPc hc
      have hpos : 0 < k.reqs.countP notDone :=
        List.countP_pos_iff.mpr ⟨q, mem_of_getElem? hq, by simp [notDone, hst, HSt.isDone]⟩
      have := hi.count
      omega
    · intro hc
      have := hi.fresh hc
      rw [this.1] at hq
      simp at hq
  · exact ⟨id, id, id, id⟩
  · intro hi hs hcl x hx hd
    simp at hcl
    rcases List.mem_or_eq_of_mem_set hx with hx | hx
    · exact hs hcl x hx hd
    · subst hx
      have := hs hcl q (mem_of_getElem? hq) hd
      rw [hst] at this
      simp [HSt.safeEnd] at this

theorem stay_cDec (i : Nat) : Stay (cDec i) := by
  intro k k' h hb
  unfold cDec at h
  split at h <;> try contradiction
  split at h <;> try contradiction
  simp only [Option.some.injEq] at h
  subst h; exact hb

theorem good_cDrainTick : Good cDrainTick := by
  refine ⟨?_, ?_, ?_⟩ <;> intro k k' h <;> unfold cDrainTick at h <;> split at h <;> try contradiction
  all_goals (simp only [Option.some.injEq] at h; subst h)
  all_goals rename_i hpc
  · intro hi
    have hb := hi.bufNil (by simp [hpc])
    refine ⟨hi.count, hi.openOk, by simp, fun _ => hb, by simp, ?_⟩
    intro hr; have := hi.regPc hr; simp [hpc] at this
  · refine ⟨id, id, ?_, ?_⟩
    · intro _; simp [Conn.started]
    · intro hc; simp [hpc] at hc
  · intro _ hs; exact hs

theorem stay_cDrainTick : Stay cDrainTick := by
  intro k k' h hb; unfold cDrainTick at h; split at h <;> try contradiction
  rename_i hpc; simp [hpc] at hb

theorem good_cDrainClose : Good cDrainClose := by
  refine ⟨?_, ?_, ?_⟩ <;> intro k k' h <;> unfold cDrainClose at h <;> split at h <;> try contradiction
  all_goals (split at h <;> try contradiction)
  all_goals (simp only [Option.some.injEq] at h; subst h)
  all_goals rename_i hpc hz
  · intro hi
    have hb := hi.bufNil (by simp [hpc])
    exact ⟨hi.count, by simp, fun _ => ⟨rfl, hz, rfl⟩, fun _ => hb, by simp, by simp⟩
  · refine ⟨fun _ => rfl, id, ?_, fun _ => rfl⟩
    intro _; simp [Conn.started]
  · intro hi hs _ q hq hd
    cases ho : k.srvClosed with
    | true => exact hs ho q hq hd
    | false => exact all_done_of_zero hi ho hz q hq hd

theorem stay_cDrainClose : Stay cDrainClose := by
  intro k k' h hb; unfold cDrainClose at h; split at h <;> simp at h; rename_i hpc; simp [hpc] at hb

theorem good_cRecvRsp (i : Nat) : Good (cRecvRsp i) := by
  refine ⟨?_, ?_, ?_⟩ <;> intro k k' h <;> unfold cRecvRsp at h <;> split at h <;> try contradiction
  all_goals (split at h <;> try contradiction)
  all_goals (simp only [Option.some.injEq] at h; subst h)
  · intro hi; exact ⟨hi.count, hi.openOk, hi.closedPc, hi.bufNil, hi.fresh, hi.regPc⟩
  · exact ⟨id, id, id, id⟩
  · intro _ hs; exact hs

theorem stay_cRecvRsp (i : Nat) : Stay (cRecvRsp i) := by
  intro k k' h hb
  unfold cRecvRsp at h
  split at h <;> try contradiction
  split at h <;> try contradiction
  simp only [Option.some.injEq] at h
  subst h; exact hb

theorem good_cRecvMsg : Good cRecvMsg := by
  refine ⟨?_, ?_, ?_⟩ <;> intro k k' h <;> unfold cRecvMsg at h <;> split at h <;> simp at h <;> subst h
  · intro hi; exact ⟨hi.count, hi.openOk, hi.closedPc, hi.bufNil, hi.fresh, hi.regPc⟩
  · exact ⟨id, id, id, id⟩
  · intro _ hs; exact hs

theorem stay_cRecvMsg : Stay cRecvMsg := by
  intro k k' h hb; unfold cRecvMsg at h; split at h <;> simp at h; subst h; exact hb

theorem good_cRecvEof : Good cRecvEof := by
  refine ⟨?_, ?_, ?_⟩ <;> intro k k' h <;> unfold cRecvEof at h <;> split at h <;> simp at h <;> subst h
  · intro hi; exact ⟨hi.count, hi.openOk, hi.closedPc, hi.bufNil, hi.fresh, hi.regPc⟩
  · exact ⟨id, id, id, id⟩
  · intro _ hs; exact hs

theorem stay_cRecvEof : Stay cRecvEof := by
  intro k k' h hb; unfold cRecvEof at h; split at h <;> simp at h; subst h; exact hb

/-! ### the early-decrement variant -/

theorem good_cFinEarly (i : Nat) : Good (cFinEarly i) := by
  refine ⟨?_, ?_, ?_⟩ <;> intro k k' h <;> unfold cFinEarly at h <;> split at h <;> try contradiction
  all_goals (split at h <;> try contradiction)
  all_goals (simp only [Option.some.injEq] at h; subst h)
  all_goals rename_i q hq _ hst
  · intro hi
    refine ⟨?_, ?_, ?_, hi.bufNil, ?_, hi.regPc⟩
    · simp only
      have := countP_set_dec notDone k.reqs i q { q with st := .writePending } hq
        (by simp [notDone, hst, HSt.isDone]) (by simp [notDone, HSt.isDone])
      have hc := hi.count
      omega
    · intro ho x hx
      simp at ho
      rcases List.mem_or_eq_of_mem_set hx with hx | hx
      · exact hi.openOk ho x hx
      · subst hx
        exact ⟨(hi.openOk ho q (mem_of_getElem? hq)).1, rfl⟩
    · intro hc
      have := hi.closedPc hc
      have hpos : 0 < k.reqs.countP notDone :=
        List.countP_pos_iff.mpr ⟨q, mem_of_getElem? hq, by simp [notDone, hst, HSt.isDone]⟩
      have := hi.count
      omega
    · intro hc
      have := hi.fresh hc
      rw [this.1] at hq
      simp at hq
  · exact ⟨id, id, id, id⟩
  · intro hi hs hcl x hx hd
    simp at hcl
    rcases List.mem_or_eq_of_mem_set hx with hx | hx
    · exact hs hcl x hx hd
    · subst hx; rfl

theorem stay_cFinEarly (i : Nat) : Stay (cFinEarly i) := by
  intro k k' h hb
  unfold cFinEarly at h
  split at h <;> try contradiction
  split at h <;> try contradiction
  simp only [Option.some.injEq] at h
  subst h; exact hb

theorem good_cLateWrite (i : Nat) : Good (cLateWrite i) := by
  refine ⟨?_, ?_, ?_⟩ <;> intro k k' h <;> unfold cLateWrite at h <;> split at h <;> try contradiction
  all_goals (split at h <;> try contradiction)
  all_goals (simp only [Option.some.injEq] at h; subst h)
  all_goals rename_i q hq _ hst
  · intro hi
    refine ⟨?_, ?_, hi.closedPc, hi.bufNil, ?_, hi.regPc⟩
    · simp only
      rw [countP_set_same notDone k.reqs i q _ hq (by simp [notDone, hst, HSt.isDone])]
      exact hi.count
    · intro ho x hx
      simp at ho
      rcases List.mem_or_eq_of_mem_set hx with hx | hx
      · exact hi.openOk ho x hx
      · subst hx
        exact ⟨(hi.openOk ho q (mem_of_getElem? hq)).1, by simp [ho, HSt.ok]⟩
    · intro hc
      have := hi.fresh hc
      rw [this.1] at hq
      simp at hq
  · exact ⟨id, id, id, id⟩
  · intro hi hs hcl x hx hd
    simp at hcl
    rcases List.mem_or_eq_of_mem_set hx with hx | hx
    · exact hs hcl x hx hd
    · subst hx; rfl

theorem stay_cLateWrite (i : Nat) : Stay (cLateWrite i) := by
  intro k k' h hb
  unfold cLateWrite at h
  split at h <;> try contradiction
  split at h <;> try contradiction
  simp only [Option.some.injEq] at h
  subst h; exact hb

/-! ### the two functions applied from outside the connection's own goroutines -/

theorem cNotify_keeps' (k : Conn) : (cNotify k).reqs = k.reqs ∧ (cNotify k).srvClosed = k.srvClosed ∧
    (cNotify k).registered = k.registered ∧ (cNotify k).rpc = k.rpc ∧ (cNotify k).numInvoke = k.numInvoke ∧
    (cNotify k).buf = k.buf ∧ (k.notified = true → (cNotify k).notified = true) := by
  unfold cNotify
  split
  · exact ⟨rfl, rfl, rfl, rfl, rfl, rfl, fun _ => rfl⟩
  · split <;> exact ⟨rfl, rfl, rfl, rfl, rfl, rfl, id⟩

theorem connInv_cNotify {k : Conn} (hi : ConnInv k) : ConnInv (cNotify k) := by
  obtain ⟨h1, h2, h3, h4, h5, h6, _⟩ := cNotify_keeps' k
  refine ⟨by rw [h5, h1]; exact hi.count, by rw [h2, h1]; exact hi.openOk,
    by rw [h4, h2, h5, h3]; exact hi.closedPc, by rw [h4, h6]; exact hi.bufNil,
    by rw [h4, h1, h3]; exact hi.fresh, by rw [h3, h4]; exact hi.regPc⟩

theorem connMono_cNotify (k : Conn) : ConnMono k (cNotify k) := by
  obtain ⟨_, h2, _, h4, _, _, h7⟩ := cNotify_keeps' k
  refine ⟨by rw [h2]; exact id, h7, ?_, by rw [h4]; exact id⟩
  unfold Conn.started; rw [h4]; exact id

theorem connSafe_cNotify {k : Conn} (hs : ConnSafe k) : ConnSafe (cNotify k) := by
  obtain ⟨h1, h2, _⟩ := cNotify_keeps' k
  unfold ConnSafe; rw [h1, h2]; exact hs

theorem cNotify_rpc (k : Conn) : (cNotify k).rpc = k.rpc := (cNotify_keeps' k).2.2.2.1

theorem cNotify_notified {k : Conn} (hr : k.registered = true) (ho : k.srvClosed = false) :
    (cNotify k).notified = true := by
  simp [cNotify, hr, ho]

theorem connInv_cCloseByIdles {k : Conn} (hi : ConnInv k) : ConnInv (cCloseByIdles k) := by
  refine ⟨hi.count, by simp [cCloseByIdles], ?_, hi.bufNil, hi.fresh, hi.regPc⟩
  intro hc
  have := hi.closedPc hc
  exact ⟨rfl, this.2.1, this.2.2⟩

theorem connMono_cCloseByIdles (k : Conn) : ConnMono k (cCloseByIdles k) :=
  ⟨fun _ => rfl, id, id, id⟩

/-- closing from outside is safe when `numInvoke = 0` is seen in the same step -/
theorem connSafe_cCloseByIdles {k : Conn} (hi : ConnInv k) (hs : ConnSafe k) (hz : k.numInvoke = 0) :
    ConnSafe (cCloseByIdles k) := by
  intro _ q hq hd
  cases ho : k.srvClosed with
  | true => exact hs ho q hq hd
  | false => exact all_done_of_zero hi ho hz q hq hd

end Tars.ServerConn
