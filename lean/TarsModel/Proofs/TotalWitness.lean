import TarsModel.Proofs.TotalAlloc

/-!
  C05 helper lemmas, part 10: reachability of the panic sites and of unbounded allocation
  (general sufficient conditions; the concrete witnesses in `Props/C05.lean` instantiate them).
-/
namespace Tars
open Consts

/-- a `vector<e>` member whose LIST length prefix is negative: `make([]e, length)` panics -/
theorem decVar_vec_makeslice (env : Env) (f tag : Nat) (req : Bool) (e : Ty) (old : Val)
    {r r1 r2 : Reader} {len : Int}
    (hs : skipToNoCheck tag req r = (.ok (true, tyLIST), r1))
    (hl : readLen r1 = (.ok len, r2)) (hneg : len < 0) :
    decVar env (f+1) tag req (.vec e) old r = (.error (.panic "makeslice"), r2) := by
  rw [Total.decVar_vec, hs]
  simp only [Bool.not_true, Bool.and_false, Bool.false_eq_true, if_false, if_true, hl, if_pos hneg]

/-- an error in the first member is the result of the member sequence -/
theorem decMembers_first_err (env : Env) (f : Nat) (fld : Field) (fs : List Field) (o : Val)
    (os : List Val) {r r' : Reader} {e : Err}
    (h : decVar env f fld.tag fld.req fld.ty o r = (.error e, r')) :
    decMembers env (f+1) (fld :: fs) (o :: os) r = (.error e, r') := by
  rw [Total.decMembers_succ]; simp only [h]

theorem rd_cons_shape (env : Env) (fuel : Nat) (f : Field) (fs : List Field) (v : Val)
    (vs : List Val) : ∃ v' vs', resetDefault env (fuel+1) (f :: fs) (v :: vs) = v' :: vs' := by
  rw [rd_cons]; exact ⟨_, _, rfl⟩

theorem decFuel_succ (env : Env) (r : Reader) : ∃ f, decFuel env r = f + 1 := by
  refine ⟨decFuel env r - 1, ?_⟩
  have : 1 ≤ decFuel env r := by
    unfold decFuel
    exact Nat.le_trans (by omega : 1 ≤ 3 * 2) (Nat.mul_le_mul (by omega) (by omega))
  omega

/-- **makeslice is reachable in every generated `ReadFrom` whose first member is a vector**: a
    LIST head under the member's tag followed by a negative length -/
theorem decStruct_makeslice (env : Env) (name : String) (fld : Field) (fs : List Field) (e : Ty)
    (o : Val) (os : List Val) {r r1 r2 : Reader} {len : Int}
    (hfind : env.find name = some (fld :: fs)) (hty : fld.ty = .vec e)
    (hs : skipToNoCheck fld.tag fld.req r = (.ok (true, tyLIST), r1))
    (hl : readLen r1 = (.ok len, r2)) (hneg : len < 0) :
    decStruct env name (.struct (o :: os)) r = (.error (.panic "makeslice"), r2) := by
  rw [decStruct_eq]
  simp only [hfind]
  obtain ⟨f, hf⟩ := decFuel_succ env r
  rw [hf]
  obtain ⟨o', os', hr⟩ := rd_cons_shape env f fld fs o os
  rw [hr]
  obtain ⟨f', rfl⟩ : ∃ f', f = f' + 1 := by
    refine ⟨f - 1, ?_⟩
    have : 6 ≤ decFuel env r := by
      unfold decFuel
      exact Nat.le_trans (by omega : 6 ≤ 3 * 2) (Nat.mul_le_mul (by omega) (by omega))
    omega
  have hv := decVar_vec_makeslice env f' fld.tag fld.req e o' hs hl hneg
  rw [← hty] at hv
  rw [decMembers_first_err env _ fld fs o' os' hv]

/-- the array loop at an index beyond the declared size, element type scalar: "index out of range" -/
theorem decArr_overflow (env : Env) (f : Nat) (e : Ty) (n i : Nat) (len : Int) (cur : List Val)
    (r : Reader) (hi : (i : Int) < len) (hn : n ≤ i) (hat : Total.isAtom e = true) :
    decArr env (f+1) e n i len cur r = (.error (.panic "index"), r) := by
  rw [Total.decArr_succ, if_neg (by omega), if_pos hn]
  unfold arrOverflow
  cases e <;> first | rfl | simp [Total.isAtom] at hat

/-- one successful element of the array loop -/
theorem decArr_step (env : Env) (f : Nat) (e : Ty) (n i : Nat) (len : Int) (cur : List Val)
    {r r1 : Reader} {v : Val} (hi : (i : Int) < len) (hn : i < n)
    (h : decVar env f 0 true e (cur.getD i (zeroOf env e)) r = (.ok v, r1)) :
    decArr env (f+1) e n i len cur r = decArr env f e n (i+1) len (listSet cur i v) r1 := by
  rw [Total.decArr_succ, if_neg (by omega), if_neg (by omega)]
  simp only [h]

/-- allocation: the vector member requests at least the announced number of elements, whatever
    the input still holds -/
theorem decVarA_vec_alloc (env : Env) (f tag : Nat) (req : Bool) (e : Ty) (old : Val)
    {r r1 r2 : Reader} {len : Int}
    (hs : skipToNoCheck tag req r = (.ok (true, tyLIST), r1))
    (hl : readLen r1 = (.ok len, r2)) (hpos : 0 ≤ len) :
    len.toNat ≤ (decVarA env (f+1) tag req (.vec e) old r).2.alloc ∧
    ((decVarA env (f+1) tag req (.vec e) old r).2.lenOK = true → len.toNat ≤ r2.remaining) := by
  unfold decVarA
  simp only [hs, Bool.not_true, Bool.and_false, Bool.false_eq_true, if_false, if_true, hl,
    if_neg (by omega : ¬ len < 0)]
  exact ⟨by simp, fun h => (Cost.make_lenOK h).1⟩

theorem decMembersA_first_alloc (env : Env) (f : Nat) (fld : Field) (fs : List Field) (o : Val)
    (os : List Val) (r : Reader) :
    (decVarA env f fld.tag fld.req fld.ty o r).2.alloc
      ≤ (decMembersA env (f+1) (fld :: fs) (o :: os) r).2.alloc := by
  unfold decMembersA
  simp only
  rcases decVarA env f fld.tag fld.req fld.ty o r with ⟨⟨_ | v, r1⟩, c⟩
  · simp
  · simp only
    rcases decMembersA env f fs os r1 with ⟨⟨_ | vs, r2⟩, c'⟩ <;> simp

/-- **Unbounded allocation is reachable in every generated `ReadFrom` whose first member is a
    vector**: the decoder requests `len` elements as soon as it has read the length prefix -/
theorem decStructA_vec_alloc (env : Env) (name : String) (fld : Field) (fs : List Field) (e : Ty)
    (o : Val) (os : List Val) {r r1 r2 : Reader} {len : Int}
    (hfind : env.find name = some (fld :: fs)) (hty : fld.ty = .vec e)
    (hs : skipToNoCheck fld.tag fld.req r = (.ok (true, tyLIST), r1))
    (hl : readLen r1 = (.ok len, r2)) (hpos : 0 ≤ len) :
    len.toNat ≤ (decStructA env name (.struct (o :: os)) r).2.alloc := by
  unfold decStructA
  simp only [hfind]
  obtain ⟨f, hf⟩ := decFuel_succ env r
  rw [hf]
  obtain ⟨o', os', hr⟩ := rd_cons_shape env f fld fs o os
  rw [hr]
  obtain ⟨f', rfl⟩ : ∃ f', f = f' + 1 := by
    refine ⟨f - 1, ?_⟩
    have : 6 ≤ decFuel env r := by
      unfold decFuel
      exact Nat.le_trans (by omega : 6 ≤ 3 * 2) (Nat.mul_le_mul (by omega) (by omega))
    omega
  have h1 := (decVarA_vec_alloc env f' fld.tag fld.req e o' hs hl hpos).1
  rw [← hty] at h1
  have h2 := decMembersA_first_alloc env (f'+1) fld fs o' os' r
  refine Nat.le_trans h1 (Nat.le_trans h2 ?_)
  rcases (decMembersA env (f' + 1 + 1) (fld :: fs) (o' :: os') r) with ⟨⟨_ | vs, r2⟩, c'⟩ <;> simp


/-! ### concrete schemas and inputs for the witnesses -/

/-- bytes from numerals -/
def C05.bs (l : List Nat) : Bytes := l.map byte

/-- `struct V { 0 require vector<int> v; };` -/
def C05.envV : Env := [("V", [⟨0, true, .vec .i32, none⟩])]
/-- `struct A { 0 require int a[3]; };` -/
def C05.envA : Env := [("A", [⟨0, true, .arr 3 .i32, none⟩])]

/-- LIST under tag 0 with length −1 -/
def C05.negLenInput : Bytes := C05.bs [0x09, 0x00, 0xFF]
/-- LIST under tag 0 announcing 4 elements (1, 2, 3, 4) for `int a[3]` -/
def C05.overlongInput : Bytes := C05.bs [0x09, 0x00, 4, 0x00, 1, 0x00, 2, 0x00, 3, 0x00, 4]
/-- LIST under tag 0 announcing 2^31 − 1 elements, then nothing: 6 bytes -/
def C05.hugeLenInput : Bytes := C05.bs [0x09, 0x02, 0x7F, 0xFF, 0xFF, 0xFF]

theorem C05.freshV : freshStruct C05.envV "V" = .struct [.list []] := by
  simp [freshStruct, zeroOf, zeroVal, C05.envV, Env.find]

theorem C05.freshA : freshStruct C05.envA "A" = .struct [.list [.int 0, .int 0, .int 0]] := by
  simp [freshStruct, zeroOf, zeroVal, C05.envA, Env.find, scalarZero, List.replicate]

theorem C05.findV : C05.envV.find "V" = some [⟨0, true, .vec .i32, none⟩] := by
  simp [C05.envV, Env.find]
theorem C05.findA : C05.envA.find "A" = some [⟨0, true, .arr 3 .i32, none⟩] := by
  simp [C05.envA, Env.find]

open C05 in
/-- witness for the "makeslice" site -/
theorem witness_makeslice :
    decStruct envV "V" (freshStruct envV "V") (Reader.mk0 negLenInput)
      = (.error (.panic "makeslice"), ⟨negLenInput.toArray, 3⟩) := by
  rw [freshV]
  exact decStruct_makeslice envV "V" ⟨0, true, .vec .i32, none⟩ [] .i32 (.list []) []
    (r1 := ⟨negLenInput.toArray, 1⟩) (len := -1) findV rfl (by rfl) (by rfl) (by decide)

open C05 in
/-- witness for the "index" site -/
theorem witness_index :
    decStruct envA "A" (freshStruct envA "A") (Reader.mk0 overlongInput)
      = (.error (.panic "index"), ⟨overlongInput.toArray, 9⟩) := by
  rw [freshA, decStruct_eq]
  simp only [findA]
  have hF : decFuel envA (Reader.mk0 overlongInput) = 50 + 1 + 1 := by rfl
  rw [hF]
  have hr : resetDefault envA (50 + 1 + 1) [⟨0, true, .arr 3 .i32, none⟩] [.list [.int 0, .int 0, .int 0]]
      = [.list [.int 0, .int 0, .int 0]] := by
    simp [resetDefault]
  rw [hr]
  have hs : skipToNoCheck 0 true (Reader.mk0 overlongInput) = (.ok (true, tyLIST), ⟨overlongInput.toArray, 1⟩) := by rfl
  have hl : readLen ⟨overlongInput.toArray, 1⟩ = (.ok 4, ⟨overlongInput.toArray, 3⟩) := by rfl
  have e0 : decVar envA (48 + 1) 0 true .i32 ([Val.int 0, .int 0, .int 0].getD 0 (zeroOf envA .i32))
      ⟨overlongInput.toArray, 3⟩ = (.ok (.int 1), ⟨overlongInput.toArray, 5⟩) := by
    rw [Total.decVar_atom _ _ _ _ _ _ _ rfl]; rfl
  have e1 : decVar envA (47 + 1) 0 true .i32 ((listSet [Val.int 0, .int 0, .int 0] 0 (.int 1)).getD 1 (zeroOf envA .i32))
      ⟨overlongInput.toArray, 5⟩ = (.ok (.int 2), ⟨overlongInput.toArray, 7⟩) := by
    rw [Total.decVar_atom _ _ _ _ _ _ _ rfl]; rfl
  have e2 : decVar envA (46 + 1) 0 true .i32
      ((listSet (listSet [Val.int 0, .int 0, .int 0] 0 (.int 1)) 1 (.int 2)).getD 2 (zeroOf envA .i32))
      ⟨overlongInput.toArray, 7⟩ = (.ok (.int 3), ⟨overlongInput.toArray, 9⟩) := by
    rw [Total.decVar_atom _ _ _ _ _ _ _ rfl]; rfl
  have hv : decVar envA (50 + 1) 0 true (.arr 3 .i32) (.list [.int 0, .int 0, .int 0]) (Reader.mk0 overlongInput)
      = (.error (.panic "index"), ⟨overlongInput.toArray, 9⟩) := by
    rw [Total.decVar_arr, hs]
    simp only [Bool.not_true, Bool.and_false, Bool.false_eq_true, if_false, if_true, hl, Total.oldList]
    rw [decArr_step envA _ .i32 3 0 4 _ (by decide) (by decide) e0,
      decArr_step envA _ .i32 3 1 4 _ (by decide) (by decide) e1,
      decArr_step envA _ .i32 3 2 4 _ (by decide) (by decide) e2,
      decArr_overflow envA _ .i32 3 3 4 _ _ (by decide) (by decide) rfl]
  rw [decMembers_first_err envA (50 + 1) ⟨0, true, .arr 3 .i32, none⟩ [] _ [] hv]


/-- `ReadFrom` into a well-shaped target of a well-formed environment never reports the model's
    ill-typed-target marker -/
theorem decStruct_notIll {env : Env} (hwf : EnvClosed env) {name : String} {old : Val}
    (hsh : Shape env (.struct name) old) (r : Reader) : NotIll (decStruct env name old r) := by
  rw [decStruct_eq]
  obtain ⟨fs, ovs, rfl, hfs, hm⟩ := shape_struct_inv hsh
  simp only [hfs]
  have hM := (dec_notIll env hwf (decFuel env r)).2.2.2.2 fs (resetDefault env (decFuel env r) fs ovs) r
    (hwf.closed name fs hfs) (shape_resetDefault hwf _ fs _ (hwf.dflt name fs hfs) hm)
  cases hd : decMembers env (decFuel env r) fs (resetDefault env (decFuel env r) fs ovs) r with
  | mk res r1 =>
    rw [hd] at hM
    cases res with
    | error er => exact hM.err_cast
    | ok vs => exact NotIll.of_ok

/-- a fresh target has the right shape -/
theorem shape_fresh {env : Env} (hwf : EnvClosed env) {name : String} {fs : List Field}
    (h : env.find name = some fs) : Shape env (.struct name) (freshStruct env name) :=
  shape_zeroOf hwf ⟨fs, h⟩

theorem C05.envV_wf : EnvClosed C05.envV := by
  constructor
  · intro name fs h f hf
    simp only [C05.envV, Env.find] at h
    split at h
    · simp only [Option.some.injEq] at h; subst h
      simp only [List.mem_singleton] at hf; subst hf
      simp [TyClosed]
    · simp at h
  · intro name fs h f hf d hd
    simp only [C05.envV, Env.find] at h
    split at h
    · simp only [Option.some.injEq] at h; subst h
      simp only [List.mem_singleton] at hf; subst hf
      simp at hd
    · simp at h

theorem C05.envA_wf : EnvClosed C05.envA := by
  constructor
  · intro name fs h f hf
    simp only [C05.envA, Env.find] at h
    split at h
    · simp only [Option.some.injEq] at h; subst h
      simp only [List.mem_singleton] at hf; subst hf
      simp [TyClosed]
    · simp at h
  · intro name fs h f hf d hd
    simp only [C05.envA, Env.find] at h
    split at h
    · simp only [Option.some.injEq] at h; subst h
      simp only [List.mem_singleton] at hf; subst hf
      simp at hd
    · simp at h

open C05 in
/-- a valid `vector<int>` of two elements (1, 2) under tag 0 -/
def C05.twoInts : Bytes := C05.bs [0x09, 0x00, 2, 0x00, 1, 0x00, 2]

open C05 in
theorem C05.twoInts_cost :
    decStructA envV "V" (freshStruct envV "V") (Reader.mk0 twoInts)
      = ((.ok (.struct [.list [.int 1, .int 2]]), ⟨twoInts.toArray, 7⟩), ⟨2, true, 1⟩) := by
  rw [freshV]
  unfold decStructA
  simp only [findV]
  have hF : decFuel envV (Reader.mk0 twoInts) = 30 + 1 + 1 + 1 + 1 + 1 + 1 := by rfl
  rw [hF]
  have hr : resetDefault envV (30 + 1 + 1 + 1 + 1 + 1 + 1) [⟨0, true, .vec .i32, none⟩] [.list []] = [.list []] := by
    simp [resetDefault]
  rw [hr]
  have hs : skipToNoCheck 0 true (Reader.mk0 twoInts) = (.ok (true, tyLIST), ⟨twoInts.toArray, 1⟩) := by rfl
  have hl : readLen ⟨twoInts.toArray, 1⟩ = (.ok 2, ⟨twoInts.toArray, 3⟩) := by rfl
  have hz : zeroOf envV .i32 = .int 0 := by simp [zeroOf, zeroVal, scalarZero]
  have e0 : readScalar .i32 (.int 0) 0 true ⟨twoInts.toArray, 3⟩ = (.ok (.int 1), ⟨twoInts.toArray, 5⟩) := by rfl
  have e1 : readScalar .i32 (.int 0) 0 true ⟨twoInts.toArray, 5⟩ = (.ok (.int 2), ⟨twoInts.toArray, 7⟩) := by rfl
  have a0 : strAlloc 0 true ⟨twoInts.toArray, 3⟩ (.ok (.int 1), ⟨twoInts.toArray, 5⟩) = 0 := by rfl
  have a1 : strAlloc 0 true ⟨twoInts.toArray, 5⟩ (.ok (.int 2), ⟨twoInts.toArray, 7⟩) = 0 := by rfl
  unfold decMembersA
  simp only
  unfold decVarA
  simp only [hs, hl, Bool.not_true, Bool.and_false, Bool.false_eq_true, if_false]
  unfold decElemsA decMembersA
  unfold decVarA decElemsA
  simp only [hz, e0, a0]
  unfold decVarA decElemsA
  simp only [hz, e1, a1]
  rfl


theorem C05.hugeLen_readLen :
    readLen ⟨C05.hugeLenInput.toArray, 1⟩ = (.ok 2147483647, ⟨C05.hugeLenInput.toArray, 6⟩) := by
  simp [readLen, readHead, readByte, C05.hugeLenInput, C05.bs, bReadU, readFull, takeFrom, beVal, toS,
    extTagRead, tyStructEnd, tyZeroTag, tyBYTE, tySHORT, tyINT]

end Tars
