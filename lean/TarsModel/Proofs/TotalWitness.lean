import TarsModel.Proofs.TotalAlloc

/-!
  C05 helper lemmas, part 10: concrete schemas and inputs.  Since fix 040488e ("generated decoders
  validate element counts and lengths before allocating") the former D11 witnesses are rejected
  with an error by the model; the as-found behaviour is witnessed on `AsFound.vecMake` /
  `AsFound.arrLoop` (`Model/Cost.lean`).  Also: `ReadFrom` never yields the ill-typed marker for
  well-shaped targets.
-/
namespace Tars
open Consts

/-- an error in the first member is the result of the member sequence -/
theorem decMembers_first_err (env : Env) (f : Nat) (fld : Field) (fs : List Field) (o : Val)
    (os : List Val) {r r' : Reader} {e : Err}
    (h : decVar env f fld.tag fld.req fld.ty o r = (.error e, r')) :
    decMembers env (f+1) (fld :: fs) (o :: os) r = (.error e, r') := by
  rw [Total.decMembers_succ]; simp only [h]

theorem rd_cons_shape (env : Env) (fuel : Nat) (f : Field) (fs : List Field) (v : Val)
    (vs : List Val) : ∃ v' vs', resetDefault env (fuel+1) (f :: fs) (v :: vs) = v' :: vs' := by
  rw [rd_cons]; exact ⟨_, _, rfl⟩

theorem decFuel_succ2 (env : Env) (r : Reader) : ∃ f, decFuel env r = f + 1 + 1 := by
  refine ⟨decFuel env r - 2, ?_⟩
  have : 6 ≤ decFuel env r := by
    unfold decFuel
    have : 3 * 2 ≤ (env.width + 3) * (r.data.size + 2) := Nat.mul_le_mul (by omega) (by omega)
    omega
  omega

/-- if the first member fails whatever its (reset) old value, `ReadFrom` fails the same way -/
theorem decStruct_first_err (env : Env) (name : String) (fld : Field) (fs : List Field)
    (o : Val) (os : List Val) {r r' : Reader} {e : Err}
    (hfind : env.find name = some (fld :: fs))
    (h : ∀ f o', decVar env (f+1) fld.tag fld.req fld.ty o' r = (.error e, r')) :
    decStruct env name (.struct (o :: os)) r = (.error e, r') := by
  rw [decStruct_eq]
  simp only [hfind]
  obtain ⟨f, hf⟩ := decFuel_succ2 env r
  rw [hf]
  obtain ⟨o', os', hr⟩ := rd_cons_shape env (f+1) fld fs o os
  rw [hr, decMembers_first_err env _ fld fs o' os' (h f o')]

/-- a `vector<e>` member whose LIST length prefix fails `CheckLength` (negative, or more elements
    than bytes remain) is rejected with an error before anything is allocated -/
theorem decVar_vec_checkfail (env : Env) (f tag : Nat) (req : Bool) (e : Ty) (old : Val)
    {r r1 r2 : Reader} {len : Int}
    (hs : skipToNoCheck tag req r = (.ok (true, tyLIST), r1))
    (hl : readLen r1 = (.ok len, r2)) (hbad : len < 0 ∨ (r2.remaining : Int) < len) :
    decVar env (f+1) tag req (.vec e) old r = (.error .eof, r2) := by
  rw [Total.decVar_vec, hs]
  simp only [Bool.not_true, Bool.and_false, Bool.false_eq_true, if_false, if_true, hl,
    checkLength_of_gt hbad]

/-- a fixed-array member receiving a LIST longer than the array is rejected with an error -/
theorem decVar_arr_toolong (env : Env) (f tag : Nat) (req : Bool) (n : Nat) (e : Ty) (old : Val)
    {r r1 r2 : Reader} {len : Int}
    (hs : skipToNoCheck tag req r = (.ok (true, tyLIST), r1))
    (hl : readLen r1 = (.ok len, r2)) (hbad : len > (n : Int)) :
    decVar env (f+1) tag req (.arr n e) old r = (.error .mismatch, r2) := by
  rw [Total.decVar_arr, hs]
  simp only [Bool.not_true, Bool.and_false, Bool.false_eq_true, if_false, if_true, hl, if_pos hbad]

/-- the array loop at an index beyond the declared size, element type scalar: "index out of
    range" (only reachable when the loop is entered with `len > n`, as it was before the fix) -/
theorem decArr_overflow (env : Env) (f : Nat) (e : Ty) (n i : Nat) (len : Int) (cur : List Val)
    (r : Reader) (hi : (i : Int) < len) (hn : n ≤ i) (hat : Total.isAtom e = true) :
    decArr env (f+1) e n i len cur r = (.error (.panic "index"), r) := by
  rw [Total.decArr_succ, if_neg (by omega), if_pos hn]
  unfold arrOverflow
  cases e <;> first | rfl | simp [Total.isAtom] at hat

/-- one successful element of the array loop -/
theorem decArr_step (env : Env) (f : Nat) (e : Ty) (n i : Nat) (len : Int) (cur : List Val)
    {r r1 : Reader} {v : Val} (hi : (i : Int) < len) (hn : i < n)
    (h : decVar env f 0 true e (cur.getD i (zeroOf env e)) r = (.ok v, r1)) :
    decArr env (f+1) e n i len cur r = decArr env f e n (i+1) len (listSet cur i v) r1 := by
  rw [Total.decArr_succ, if_neg (by omega), if_neg (by omega)]
  simp only [h]

/-! ### concrete schemas and inputs -/

/-- bytes from numerals -/
def C05.bs (l : List Nat) : Bytes := l.map byte

/-- `struct V { 0 require vector<int> v; };` -/
def C05.envV : Env := [("V", [⟨0, true, .vec .i32, none⟩])]
/-- `struct A { 0 require int a[3]; };` -/
def C05.envA : Env := [("A", [⟨0, true, .arr 3 .i32, none⟩])]

/-- LIST under tag 0 with length −1 -/
def C05.negLenInput : Bytes := C05.bs [0x09, 0x00, 0xFF]
/-- LIST under tag 0 announcing 4 elements (1, 2, 3, 4) for `int a[3]` -/
def C05.overlongInput : Bytes := C05.bs [0x09, 0x00, 4, 0x00, 1, 0x00, 2, 0x00, 3, 0x00, 4]
/-- LIST under tag 0 announcing 2^31 − 1 elements, then nothing: 6 bytes -/
def C05.hugeLenInput : Bytes := C05.bs [0x09, 0x02, 0x7F, 0xFF, 0xFF, 0xFF]
/-- a valid `vector<int>` of two elements (1, 2) under tag 0 -/
def C05.twoInts : Bytes := C05.bs [0x09, 0x00, 2, 0x00, 1, 0x00, 2]

theorem C05.freshV : freshStruct C05.envV "V" = .struct [.list []] := by
  simp [freshStruct, zeroOf, zeroVal, C05.envV, Env.find]

theorem C05.freshA : freshStruct C05.envA "A" = .struct [.list [.int 0, .int 0, .int 0]] := by
  simp [freshStruct, zeroOf, zeroVal, C05.envA, Env.find, scalarZero, List.replicate]

theorem C05.findV : C05.envV.find "V" = some [⟨0, true, .vec .i32, none⟩] := by
  simp [C05.envV, Env.find]
theorem C05.findA : C05.envA.find "A" = some [⟨0, true, .arr 3 .i32, none⟩] := by
  simp [C05.envA, Env.find]

theorem C05.hugeLen_readLen :
    readLen ⟨C05.hugeLenInput.toArray, 1⟩ = (.ok 2147483647, ⟨C05.hugeLenInput.toArray, 6⟩) := by
  simp [readLen, readHead, readByte, C05.hugeLenInput, C05.bs, bReadU, readFull, takeFrom, beVal, toS,
    extTagRead, tyStructEnd, tyZeroTag, tyBYTE, tySHORT, tyINT]

open C05 in
/-- the former "makeslice" witness is now rejected with an error -/
theorem repaired_negLen :
    decStruct envV "V" (freshStruct envV "V") (Reader.mk0 negLenInput)
      = (.error .eof, ⟨negLenInput.toArray, 3⟩) := by
  rw [freshV]
  exact decStruct_first_err envV "V" ⟨0, true, .vec .i32, none⟩ [] (.list []) [] findV
    (fun f o' => decVar_vec_checkfail envV f 0 true .i32 o'
      (r1 := ⟨negLenInput.toArray, 1⟩) (len := -1) (by rfl) (by rfl) (by decide))

open C05 in
/-- the former "index" witness is now rejected with an error -/
theorem repaired_overlong :
    decStruct envA "A" (freshStruct envA "A") (Reader.mk0 overlongInput)
      = (.error .mismatch, ⟨overlongInput.toArray, 3⟩) := by
  rw [freshA]
  exact decStruct_first_err envA "A" ⟨0, true, .arr 3 .i32, none⟩ [] _ [] findA
    (fun f o' => decVar_arr_toolong envA f 0 true 3 .i32 o'
      (r1 := ⟨overlongInput.toArray, 1⟩) (len := 4) (by rfl) (by rfl) (by decide))

open C05 in
/-- the former allocation witness is now rejected with an error … -/
theorem repaired_hugeLen :
    decStruct envV "V" (freshStruct envV "V") (Reader.mk0 hugeLenInput)
      = (.error .eof, ⟨hugeLenInput.toArray, 6⟩) := by
  rw [freshV]
  exact decStruct_first_err envV "V" ⟨0, true, .vec .i32, none⟩ [] (.list []) [] findV
    (fun f o' => decVar_vec_checkfail envV f 0 true .i32 o'
      (r1 := ⟨hugeLenInput.toArray, 1⟩) (len := 2147483647) (by rfl) hugeLen_readLen
      (by right; decide))

open C05 in
/-- as found: `09 00 FF` made `make([]int32, -1)` panic -/
theorem asFound_makeslice :
    AsFound.vecMake 0 true (Reader.mk0 negLenInput)
      = (.error (.panic "makeslice"), ⟨negLenInput.toArray, 3⟩) := by rfl

open C05 in
/-- as found: `09 02 7F FF FF FF` (6 bytes) requested 2^31 − 1 elements -/
theorem asFound_hugeMake :
    AsFound.vecMake 0 true (Reader.mk0 hugeLenInput) = (.ok 2147483647, ⟨hugeLenInput.toArray, 6⟩) := by
  have hs : skipToNoCheck 0 true (Reader.mk0 hugeLenInput)
      = (.ok (true, tyLIST), ⟨hugeLenInput.toArray, 1⟩) := by rfl
  unfold AsFound.vecMake
  rw [hs]
  simp only [if_true, hugeLen_readLen]
  rfl

open C05 in
/-- as found: the array loop entered with 4 announced elements for `int a[3]` panics with
    "index out of range" after the third element -/
theorem asFound_index :
    AsFound.arrLoop envA 50 .i32 3 [.int 0, .int 0, .int 0] ⟨overlongInput.toArray, 1⟩
      = (.error (.panic "index"), ⟨overlongInput.toArray, 9⟩) := by
  have hl : readLen ⟨overlongInput.toArray, 1⟩ = (.ok 4, ⟨overlongInput.toArray, 3⟩) := by rfl
  have e0 : decVar envA (48 + 1) 0 true .i32 ([Val.int 0, .int 0, .int 0].getD 0 (zeroOf envA .i32))
      ⟨overlongInput.toArray, 3⟩ = (.ok (.int 1), ⟨overlongInput.toArray, 5⟩) := by
    rw [Total.decVar_atom _ _ _ _ _ _ _ rfl]; rfl
  have e1 : decVar envA (47 + 1) 0 true .i32 ((listSet [Val.int 0, .int 0, .int 0] 0 (.int 1)).getD 1 (zeroOf envA .i32))
      ⟨overlongInput.toArray, 5⟩ = (.ok (.int 2), ⟨overlongInput.toArray, 7⟩) := by
    rw [Total.decVar_atom _ _ _ _ _ _ _ rfl]; rfl
  have e2 : decVar envA (46 + 1) 0 true .i32
      ((listSet (listSet [Val.int 0, .int 0, .int 0] 0 (.int 1)) 1 (.int 2)).getD 2 (zeroOf envA .i32))
      ⟨overlongInput.toArray, 7⟩ = (.ok (.int 3), ⟨overlongInput.toArray, 9⟩) := by
    rw [Total.decVar_atom _ _ _ _ _ _ _ rfl]; rfl
  unfold AsFound.arrLoop
  rw [hl]
  simp only
  rw [decArr_step envA _ .i32 3 0 4 _ (by decide) (by decide) e0,
    decArr_step envA _ .i32 3 1 4 _ (by decide) (by decide) e1,
    decArr_step envA _ .i32 3 2 4 _ (by decide) (by decide) e2,
    decArr_overflow envA _ .i32 3 3 4 _ _ (by decide) (by decide) rfl]

/-- `ReadFrom` into a well-shaped target of a well-formed environment never reports the model's
    ill-typed-target marker -/
theorem decStruct_notIll {env : Env} (hwf : EnvClosed env) {name : String} {old : Val}
    (hsh : Shape env (.struct name) old) (r : Reader) : NotIll (decStruct env name old r) := by
  rw [decStruct_eq]
  obtain ⟨fs, ovs, rfl, hfs, hm⟩ := shape_struct_inv hsh
  simp only [hfs]
  have hM := (dec_notIll env hwf (decFuel env r)).2.2.2.2 fs (resetDefault env (decFuel env r) fs ovs) r
    (hwf.closed name fs hfs)
    (shape_resetDefault hwf _ fs _ (hwf.closed name fs hfs) (hwf.dflt name fs hfs) hm)
  cases hd : decMembers env (decFuel env r) fs (resetDefault env (decFuel env r) fs ovs) r with
  | mk res r1 =>
    rw [hd] at hM
    cases res with
    | error er => exact hM.err_cast
    | ok vs => exact NotIll.of_ok

/-- a fresh target has the right shape -/
theorem shape_fresh {env : Env} (hwf : EnvClosed env) {name : String} {fs : List Field}
    (h : env.find name = some fs) : Shape env (.struct name) (freshStruct env name) :=
  shape_zeroOf hwf ⟨fs, h⟩

theorem C05.envV_wf : EnvClosed C05.envV := by
  constructor
  · intro name fs h f hf
    simp only [C05.envV, Env.find] at h
    split at h
    · simp only [Option.some.injEq] at h; subst h
      simp only [List.mem_singleton] at hf; subst hf
      simp [TyClosed]
    · simp at h
  · intro name fs h f hf d hd
    simp only [C05.envV, Env.find] at h
    split at h
    · simp only [Option.some.injEq] at h; subst h
      simp only [List.mem_singleton] at hf; subst hf
      simp at hd
    · simp at h

theorem C05.envA_wf : EnvClosed C05.envA := by
  constructor
  · intro name fs h f hf
    simp only [C05.envA, Env.find] at h
    split at h
    · simp only [Option.some.injEq] at h; subst h
      simp only [List.mem_singleton] at hf; subst hf
      simp [TyClosed]
    · simp at h
  · intro name fs h f hf d hd
    simp only [C05.envA, Env.find] at h
    split at h
    · simp only [Option.some.injEq] at h; subst h
      simp only [List.mem_singleton] at hf; subst hf
      simp at hd
    · simp at h

open C05 in
/-- a valid decode with its cost: 2 elements allocated, nesting 1, 7 bytes consumed -/
theorem C05.twoInts_cost :
    decStructA envV "V" (freshStruct envV "V") (Reader.mk0 twoInts)
      = ((.ok (.struct [.list [.int 1, .int 2]]), ⟨twoInts.toArray, 7⟩), ⟨2, 1⟩) := by
  rw [freshV]
  unfold decStructA
  simp only [findV]
  have hF : decFuel envV (Reader.mk0 twoInts) = 31 + 1 + 1 + 1 + 1 + 1 + 1 := by rfl
  rw [hF]
  have hr : resetDefault envV (31 + 1 + 1 + 1 + 1 + 1 + 1) [⟨0, true, .vec .i32, none⟩] [.list []] = [.list []] := by
    simp [resetDefault, zeroOf, zeroVal]
  rw [hr]
  have hs : skipToNoCheck 0 true (Reader.mk0 twoInts) = (.ok (true, tyLIST), ⟨twoInts.toArray, 1⟩) := by rfl
  have hl : readLen ⟨twoInts.toArray, 1⟩ = (.ok 2, ⟨twoInts.toArray, 3⟩) := by rfl
  have hc : checkLength 2 ⟨twoInts.toArray, 3⟩ = (.ok (), ⟨twoInts.toArray, 3⟩) := by rfl
  have hz : zeroOf envV .i32 = .int 0 := by simp [zeroOf, zeroVal, scalarZero]
  have e0 : readScalar .i32 (.int 0) 0 true ⟨twoInts.toArray, 3⟩ = (.ok (.int 1), ⟨twoInts.toArray, 5⟩) := by rfl
  have e1 : readScalar .i32 (.int 0) 0 true ⟨twoInts.toArray, 5⟩ = (.ok (.int 2), ⟨twoInts.toArray, 7⟩) := by rfl
  have a0 : strAlloc 0 true ⟨twoInts.toArray, 3⟩ (.ok (.int 1), ⟨twoInts.toArray, 5⟩) = 0 := by rfl
  have a1 : strAlloc 0 true ⟨twoInts.toArray, 5⟩ (.ok (.int 2), ⟨twoInts.toArray, 7⟩) = 0 := by rfl
  unfold decMembersA
  simp only
  unfold decVarA
  simp only [hs, hl, hc, Bool.not_true, Bool.and_false, Bool.false_eq_true, if_false]
  unfold decElemsA decMembersA
  unfold decVarA decElemsA
  simp only [hz, e0, a0]
  unfold decVarA decElemsA
  simp only [hz, e1, a1]
  rfl

end Tars
