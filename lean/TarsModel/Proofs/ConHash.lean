/-
  Helper lemmas for C14: Go-map laws, sorting, binary search, the ring invariants and the lookup
  characterisation.  Core Lean only.
-/
import TarsModel.Model.ConHashSpec

namespace Tars.ConHash

variable {H : Type}

/-! ## Go-map laws -/

theorem mget_mset {α : Type} (m : List (Nat × α)) (k : Nat) (v : α) (k' : Nat) :
    mget (mset m k v) k' = if k = k' then some v else mget m k' := by
  induction m with
  | nil => simp [mset, mget]
  | cons kv m ih =>
    obtain ⟨a, b⟩ := kv
    by_cases h : a = k
    · subst h
      by_cases h2 : a = k' <;> simp [mset, mget, h2]
    · by_cases h2 : k = k'
      · subst h2; simp [mset, mget, h, ih]
      · by_cases h3 : a = k'
        · subst h3; simp [mset, mget, h, h2]
        · simp [mset, mget, h, h2, h3, ih]

theorem mget_mdel {α : Type} (m : List (Nat × α)) (k k' : Nat) :
    mget (mdel m k) k' = if k = k' then none else mget m k' := by
  induction m with
  | nil => simp [mdel, mget]
  | cons kv m ih =>
    obtain ⟨a, b⟩ := kv
    by_cases h : a = k
    · subst h
      by_cases h2 : a = k'
      · subst h2; simp [mdel, ih]
      · simp [mdel, mget, h2, ih]
    · by_cases h2 : k = k'
      · subst h2; simp [mdel, mget, h, ih]
      · by_cases h3 : a = k'
        · subst h3; simp [mdel, mget, h, h2]
        · simp [mdel, mget, h, h2, h3, ih]

theorem mem_mkeys {α : Type} (m : List (Nat × α)) (k : Nat) :
    k ∈ mkeys m ↔ (mget m k).isSome = true := by
  induction m with
  | nil => simp [mkeys, mget]
  | cons kv m ih =>
    obtain ⟨a, b⟩ := kv
    by_cases h : a = k
    · subst h; simp [mkeys, mget]
    · have h' : ¬ k = a := fun e => h e.symm
      simp only [mkeys] at ih
      simp [mkeys, mget, h, h', ih]

theorem mget_foldl_mset {α : Type} (ps : List Nat) (m : List (Nat × α)) (e : α) (k : Nat) :
    mget (ps.foldl (fun m p => mset m p e) m) k = if k ∈ ps then some e else mget m k := by
  induction ps generalizing m with
  | nil => simp
  | cons p ps ih =>
    simp only [List.foldl_cons, ih, mget_mset, List.mem_cons]
    by_cases h1 : k ∈ ps
    · simp [h1]
    · by_cases h2 : p = k
      · subst h2; simp [h1]
      · have h3 : ¬ k = p := fun e => h2 e.symm
        simp [h1, h2, h3]

theorem mget_foldl_mdel {α : Type} (ps : List Nat) (m : List (Nat × α)) (k : Nat) :
    mget (ps.foldl mdel m) k = if k ∈ ps then none else mget m k := by
  induction ps generalizing m with
  | nil => simp
  | cons p ps ih =>
    simp only [List.foldl_cons, ih, mget_mdel, List.mem_cons]
    by_cases h1 : k ∈ ps
    · simp [h1]
    · by_cases h2 : p = k
      · subst h2; simp [h1]
      · have h3 : ¬ k = p := fun e => h2 e.symm
        simp [h1, h2, h3]

/-! ## Sorting -/

/-- the array is sorted (non-strictly) -/
def SortedArr (a : Array Nat) : Prop :=
  ∀ x y (hx : x < a.size) (hy : y < a.size), x ≤ y → a[x] ≤ a[y]

theorem mem_sortKeys (a : Array Nat) (p : Nat) : p ∈ (sortKeys a).toList ↔ p ∈ a.toList := by
  simp [sortKeys, List.mem_mergeSort]

theorem sortedArr_sortKeys (a : Array Nat) : SortedArr (sortKeys a) := by
  have hp : List.Pairwise (fun x y => decide (x ≤ y) = true) (a.toList.mergeSort (fun x y => decide (x ≤ y))) :=
    List.pairwise_mergeSort (le := fun x y => decide (x ≤ y))
      (by intro a b c h1 h2; simp at *; omega) (by intro a b; simp; omega) _
  rw [List.pairwise_iff_getElem] at hp
  intro x y hx hy hxy
  by_cases hlt : x < y
  · have := hp x y (by simpa [sortKeys] using hx) (by simpa [sortKeys] using hy) hlt
    simpa [sortKeys] using this
  · have : x = y := by omega
    subst this; exact Nat.le_refl _

/-! ## Binary search -/

theorem search_spec (a : Array Nat) (key : Nat) (hs : SortedArr a) (i j : Nat) (hj : j ≤ a.size) (hij : i ≤ j) :
    i ≤ search a key i j hj ∧ search a key i j hj ≤ j ∧
    (∀ x (hx : x < a.size), i ≤ x → x < search a key i j hj → a[x] < key) ∧
    (∀ (hr : search a key i j hj < a.size), search a key i j hj < j → key ≤ a[search a key i j hj]) := by
  induction hd : j - i using Nat.strongRecOn generalizing i j with
  | _ d ih =>
    unfold search
    by_cases h : i < j
    · simp only [h, ↓reduceDIte]
      have hm : (i + j) / 2 < a.size := by omega
      by_cases hc : a[(i + j) / 2] ≥ key
      · simp only [hc, ↓reduceIte]
        obtain ⟨h1, h2, h3, h4⟩ := ih ((i + j) / 2 - i) (by omega) i ((i + j) / 2) (by omega) (by omega) rfl
        refine ⟨h1, by omega, h3, ?_⟩
        intro hr hlt
        by_cases hlt2 : search a key i ((i + j) / 2) (by omega) < (i + j) / 2
        · exact h4 hr hlt2
        · have heq : search a key i ((i + j) / 2) (by omega) = (i + j) / 2 := by omega
          simp only [heq]; exact hc
      · simp only [hc, ↓reduceIte]
        obtain ⟨h1, h2, h3, h4⟩ := ih (j - ((i + j) / 2 + 1)) (by omega) ((i + j) / 2 + 1) j hj (by omega) rfl
        refine ⟨by omega, h2, ?_, h4⟩
        intro x hx hix hxr
        by_cases hxm : x ≤ (i + j) / 2
        · have := hs x ((i + j) / 2) hx hm hxm
          omega
        · exact h3 x hx (by omega) hxr
    · simp only [h, ↓reduceDIte]
      refine ⟨Nat.le_refl _, hij, ?_, ?_⟩
      · intro x _ h1 h2; omega
      · intro _ h2; exact h2.elim

/-! ## Successor -/

theorem IsSucc.unique {P : Nat → Prop} {k p p' : Nat} (h : IsSucc P k p) (h' : IsSucc P k p') : p = p' := by
  obtain ⟨hp, h⟩ := h
  obtain ⟨hp', h'⟩ := h'
  rcases h with ⟨h1, h2⟩ | ⟨h1, h2⟩ <;> rcases h' with ⟨h1', h2'⟩ | ⟨h1', h2'⟩
  · have := h2 p' hp' h1'; have := h2' p hp h1; omega
  · have := h1' p hp; omega
  · have := h1 p' hp'; omega
  · have := h2 p' hp'; have := h2' p hp; omega

theorem IsSucc.congr {P Q : Nat → Prop} (hPQ : ∀ q, P q ↔ Q q) {k p : Nat} (h : IsSucc P k p) : IsSucc Q k p := by
  obtain ⟨hp, h⟩ := h
  refine ⟨(hPQ p).1 hp, ?_⟩
  rcases h with ⟨h1, h2⟩ | ⟨h1, h2⟩
  · exact Or.inl ⟨h1, fun q hq => h2 q ((hPQ q).2 hq)⟩
  · exact Or.inr ⟨fun q hq => h1 q ((hPQ q).2 hq), fun q hq => h2 q ((hPQ q).2 hq)⟩

/-- the successor among more points is still the successor among fewer, if it is one of them -/
theorem IsSucc.mono {P Q : Nat → Prop} (hQP : ∀ q, Q q → P q) {k p : Nat} (h : IsSucc P k p) (hq : Q p) : IsSucc Q k p := by
  obtain ⟨_, h⟩ := h
  refine ⟨hq, ?_⟩
  rcases h with ⟨h1, h2⟩ | ⟨h1, h2⟩
  · exact Or.inl ⟨h1, fun q hq => h2 q (hQP q hq)⟩
  · exact Or.inr ⟨fun q hq => h1 q (hQP q hq), fun q hq => h2 q (hQP q hq)⟩

/-- a least element of a non-empty list -/
theorem exists_min (l : List Nat) (hne : l ≠ []) : ∃ p, p ∈ l ∧ ∀ q, q ∈ l → p ≤ q := by
  induction l with
  | nil => exact absurd rfl hne
  | cons a l ih =>
    by_cases hl : l = []
    · subst hl; exact ⟨a, by simp, by intro q hq; simp at hq; omega⟩
    · obtain ⟨p, hp, hmin⟩ := ih hl
      by_cases hap : a ≤ p
      · refine ⟨a, by simp, ?_⟩
        intro q hq
        rcases List.mem_cons.1 hq with rfl | hq
        · exact Nat.le_refl _
        · have := hmin q hq; omega
      · refine ⟨p, List.mem_cons_of_mem _ hp, ?_⟩
        intro q hq
        rcases List.mem_cons.1 hq with rfl | hq
        · omega
        · exact hmin q hq

/-- every non-empty finite point set has a successor for every key -/
theorem exists_succ (l : List Nat) (hne : l ≠ []) (k : Nat) : ∃ p, IsSucc (fun q => q ∈ l) k p := by
  by_cases hge : (l.filter (fun q => decide (k ≤ q))) = []
  · obtain ⟨p, hp, hmin⟩ := exists_min l hne
    refine ⟨p, hp, Or.inr ⟨?_, hmin⟩⟩
    intro q hq
    by_cases hkq : k ≤ q
    · have : q ∈ l.filter (fun q => decide (k ≤ q)) := by simp [List.mem_filter, hq, hkq]
      rw [hge] at this; simp at this
    · omega
  · obtain ⟨p, hp, hmin⟩ := exists_min _ hge
    simp only [List.mem_filter, decide_eq_true_eq] at hp hmin
    exact ⟨p, hp.1, Or.inl ⟨hp.2, fun q hq hkq => hmin q ⟨hq, hkq⟩⟩⟩

/-! ## Lookup in a sorted ring -/

theorem findInt32_empty (r : Ring H) (k : Nat) (h : r.sortedKeys.size = 0) : findInt32 r k = .notFound := by
  unfold findInt32; simp [h]

/-- `FindInt32` reads `hashRing` at the clockwise successor of the key among `sortedKeys` -/
theorem findInt32_of_succ (r : Ring H) (hs : SortedArr r.sortedKeys) (k p : Nat)
    (hsucc : IsSucc (fun q => q ∈ r.sortedKeys.toList) k p) :
    findInt32 r k = (match mget r.hashRing p with | some e => .ep e | none => .zeroEp) := by
  have hne : r.sortedKeys.size ≠ 0 := by
    intro h0
    have : r.sortedKeys.toList = [] := by
      apply List.eq_nil_of_length_eq_zero; simpa using h0
    have hp := hsucc.1
    simp [this] at hp
  obtain ⟨h1, h2, h3, h4⟩ := search_spec r.sortedKeys k hs 0 r.sortedKeys.size (Nat.le_refl _) (Nat.zero_le _)
  unfold findInt32
  simp only [hne, ↓reduceDIte]
  -- the element read is a successor, hence equal to `p`
  suffices hq : ∀ idx (hidx : idx < r.sortedKeys.size),
      idx = (if search r.sortedKeys k 0 r.sortedKeys.size (Nat.le_refl _) ≥ r.sortedKeys.size then 0
             else search r.sortedKeys k 0 r.sortedKeys.size (Nat.le_refl _)) →
      r.sortedKeys[idx] = p by
    simp only [hq _ _ rfl]
    cases mget r.hashRing p <;> rfl
  intro idx hidx hdef
  apply IsSucc.unique (P := fun q => q ∈ r.sortedKeys.toList) (k := k) _ hsucc
  refine ⟨by simp [Array.mem_toList_iff], ?_⟩
  by_cases hge : search r.sortedKeys k 0 r.sortedKeys.size (Nat.le_refl _) ≥ r.sortedKeys.size
  · -- every key is below `k`: wrap to index 0, the least key
    simp only [hge, ↓reduceIte] at hdef
    subst hdef
    refine Or.inr ⟨?_, ?_⟩
    · intro q hq
      obtain ⟨x, hx, rfl⟩ := List.mem_iff_getElem.1 hq
      have hx' : x < r.sortedKeys.size := by simpa using hx
      have := h3 x hx' (Nat.zero_le _) (by omega)
      simpa using this
    · intro q hq
      obtain ⟨x, hx, rfl⟩ := List.mem_iff_getElem.1 hq
      have hx' : x < r.sortedKeys.size := by simpa using hx
      have := hs 0 x hidx hx' (Nat.zero_le _)
      simpa using this
  · simp only [hge, ↓reduceIte] at hdef
    subst hdef
    have hlt : search r.sortedKeys k 0 r.sortedKeys.size (Nat.le_refl _) < r.sortedKeys.size := by omega
    refine Or.inl ⟨h4 hlt hlt, ?_⟩
    intro q hq hkq
    obtain ⟨x, hx, rfl⟩ := List.mem_iff_getElem.1 hq
    have hx' : x < r.sortedKeys.size := by simpa using hx
    by_cases hxs : x < search r.sortedKeys k 0 r.sortedKeys.size (Nat.le_refl _)
    · have := h3 x hx' (Nat.zero_le _) hxs
      simp at hkq; omega
    · have := hs _ x hlt hx' (by omega)
      simpa using this

end Tars.ConHash
