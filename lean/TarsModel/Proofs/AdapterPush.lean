import TarsModel.Model.AdapterPush

/-! Helper lemmas for C11 (close notification): the invariant of the adapter-level model. -/
namespace Tars.AdapterPush

/-- every generation whose notification was processed is older than the current one, every pending
packet comes from a generation that exists, and every request went to a generation whose
notification had not been processed when it was sent -/
structure Inv (s : State) : Prop where
  noticedOld : ∀ g ∈ s.noticed, g < s.gen
  inboxLe : ∀ x ∈ s.inbox, x.1 ≤ s.gen
  sendsFresh : ∀ x ∈ s.sends, x.gen ∉ x.noticed

theorem inv_init : Inv init := by
  constructor <;> simp [init]

theorem inv_step {s s' : State} {a : Action} (hi : Inv s) (h : step .reconnectFirst s a = some s') :
    Inv s' := by
  cases a with
  | setCallback =>
    simp only [step, Option.some.injEq] at h; subst h
    exact ⟨hi.noticedOld, hi.inboxLe, hi.sendsFresh⟩
  | pNotify g =>
    simp only [step] at h
    split at h
    · rename_i hg
      cases h
      refine ⟨hi.noticedOld, ?_, hi.sendsFresh⟩
      intro x hx
      simp only [List.mem_append, List.mem_singleton] at hx
      rcases hx with hx | rfl
      · exact hi.inboxLe x hx
      · exact hg.1
    · cases h
  | pPush g d =>
    simp only [step] at h
    split at h
    · rename_i hg
      cases h
      refine ⟨hi.noticedOld, ?_, hi.sendsFresh⟩
      intro x hx
      simp only [List.mem_append, List.mem_singleton] at hx
      rcases hx with hx | rfl
      · exact hi.inboxLe x hx
      · exact hg.1
    · cases h
  | recv i =>
    simp only [step] at h
    split at h
    · rename_i g p hget
      cases h
      have hmem : (g, p) ∈ s.inbox := List.mem_of_getElem? hget
      have hg : g ≤ s.gen := hi.inboxLe _ hmem
      have hsub : ∀ x ∈ s.inbox.eraseIdx i, x.1 ≤ s.gen :=
        fun x hx => hi.inboxLe x (List.mem_of_mem_eraseIdx hx)
      cases p with
      | reconnect =>
        refine ⟨?_, ?_, hi.sendsFresh⟩
        · intro x hx
          simp only [onPush, List.mem_append, List.mem_singleton] at hx ⊢
          rcases hx with hx | rfl
          · have := hi.noticedOld x hx; omega
          · omega
        · intro x hx
          simp only [onPush] at hx ⊢
          have := hsub x hx; omega
      | data d =>
        simp only [onPush]
        split
        · exact ⟨hi.noticedOld, hsub, hi.sendsFresh⟩
        · exact ⟨hi.noticedOld, hsub, hi.sendsFresh⟩
    · cases h
  | graceDone j =>
    simp only [step] at h
    split at h
    · cases h
      exact ⟨hi.noticedOld, hi.inboxLe, hi.sendsFresh⟩
    · cases h
  | send id =>
    simp only [step, Option.some.injEq] at h; subst h
    refine ⟨hi.noticedOld, hi.inboxLe, ?_⟩
    intro x hx
    simp only [List.mem_append, List.mem_singleton] at hx
    rcases hx with hx | rfl
    · exact hi.sendsFresh x hx
    · intro hmem
      have := hi.noticedOld _ hmem
      simp at this

theorem inv_runFrom : ∀ (acts : List Action) (s s' : State), Inv s →
    runFrom .reconnectFirst s acts = some s' → Inv s'
  | [], s, s', hi, h => by simp only [runFrom] at h; cases h; exact hi
  | a :: as, s, s', hi, h => by
    simp only [runFrom] at h
    split at h
    · cases h
    · rename_i s1 hs1
      exact inv_runFrom as s1 s' (inv_step hi hs1) h

/-- a pending close notification can always be processed, and processing it switches the client —
whatever other `onPush` handlers are still waiting in `GraceClose` -/
theorem recv_reconnect_switches {s : State} {i g : Nat} (h : s.inbox[i]? = some (g, .reconnect)) :
    ∃ s', step .reconnectFirst s (.recv i) = some s' ∧ s'.gen = s.gen + 1 ∧ g ∈ s'.noticed ∧
      s'.handlers = s.handlers ++ [s.gen] ∧ s'.sends = s.sends := by
  have hs : step .reconnectFirst s (.recv i) =
      some (onPush .reconnectFirst { s with inbox := s.inbox.eraseIdx i } g .reconnect) := by
    simp only [step, h]
  exact ⟨_, hs, by simp [onPush], by simp [onPush], by simp [onPush], by simp [onPush]⟩

end Tars.AdapterPush
