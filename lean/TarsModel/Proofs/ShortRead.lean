import TarsModel.Proofs.TotalRead
import TarsModel.Model.WireAsFound

/-!
  C06 helper lemmas: what a successful primitive read consumed and returned (the repaired
  readers never extend past the end and return the value of exactly one complete field), the
  declared-type × wire-type matrix, and the relation to the as-found primitives.
-/
set_option linter.unusedSimpArgs false

namespace Tars
open Consts

/-! ### generic: a successful `ReadX` either did not find the field or ran its type switch -/

theorem readWith_ok {α : Type} {old : α} {tag : Nat} {req : Bool} {body : Nat → RM α} {r r' : Reader}
    {v : α} (h : readWith old tag req body r = (.ok v, r')) :
    (∃ ty, skipToNoCheck tag req r = (.ok (false, ty), r') ∧ v = old ∧ req = false) ∨
    (∃ ty r1, skipToNoCheck tag req r = (.ok (true, ty), r1) ∧ r.Lt r1 ∧ body ty r1 = (.ok v, r')) := by
  unfold readWith at h
  cases hb : skipToNoCheck tag req r with
  | mk res r1 =>
    obtain ⟨_, p2, p3⟩ := skipToNoCheck_pos hb
    rw [hb] at h
    cases res with
    | error e => simp at h
    | ok p =>
      obtain ⟨hv, ty⟩ := p
      cases hv with
      | false =>
        simp only [Prod.mk.injEq, Except.ok.injEq] at h
        obtain ⟨rfl, rfl⟩ := h
        exact .inl ⟨ty, rfl, rfl, p3 ty rfl⟩
      | true => exact .inr ⟨ty, r1, rfl, p2 ty rfl, h⟩

theorem readWith_found {α : Type} {old : α} {tag : Nat} {req : Bool} {body : Nat → RM α}
    {r r1 : Reader} {ty : Nat} (h : skipToNoCheck tag req r = (.ok (true, ty), r1)) :
    readWith old tag req body r = body ty r1 := by
  unfold readWith; rw [h]

/-! ### integers -/

/-- payload width (bytes) of wire type `ty` when read into an integer of at most `maxw` bytes;
    `none` = not admissible -/
def intWidth (maxw ty : Nat) : Option Nat :=
  if ty = tyZeroTag then some 0
  else if ty = tyBYTE then some 1
  else if ty = tySHORT ∧ 2 ≤ maxw then some 2
  else if ty = tyINT ∧ 4 ≤ maxw then some 4
  else if ty = tyLONG ∧ 8 ≤ maxw then some 8
  else none

/-- the integer determined by a complete payload of `w` bytes at `pos` -/
def fieldInt (data : Array Byte) (pos w : Nat) : Int :=
  if w = 0 then 0 else toS (8 * w) (beVal (takeFrom data pos w))

/-- the type switch of `ReadInt8/16/32/64` (`maxw` = 1, 2, 4, 8) -/
def intBody (maxw : Nat) (ty : Nat) : RM Int := fun r1 =>
  if ty = tyZeroTag then (.ok 0, r1)
  else if ty = tyBYTE then mapRes (toS 8) (bReadU8 r1)
  else if ty = tySHORT ∧ 2 ≤ maxw then mapRes (toS 16) (bReadU 2 r1)
  else if ty = tyINT ∧ 4 ≤ maxw then mapRes (toS 32) (bReadU 4 r1)
  else if ty = tyLONG ∧ 8 ≤ maxw then mapRes (toS 64) (bReadU 8 r1)
  else (.error .mismatch, r1)

theorem readInt8_body (old : Int) (tag : Nat) (req : Bool) :
    readInt8 old tag req = readWith old tag req (intBody 1) := by
  rw [readInt8_eq]; congr 1; funext ty r1; simp [intBody]
theorem readInt16_body (old : Int) (tag : Nat) (req : Bool) :
    readInt16 old tag req = readWith old tag req (intBody 2) := by
  rw [readInt16_eq]; congr 1; funext ty r1; simp [intBody]
theorem readInt32_body (old : Int) (tag : Nat) (req : Bool) :
    readInt32 old tag req = readWith old tag req (intBody 4) := by
  rw [readInt32_eq]; congr 1; funext ty r1; simp [intBody]
theorem readInt64_body (old : Int) (tag : Nat) (req : Bool) :
    readInt64 old tag req = readWith old tag req (intBody 8) := by
  rw [readInt64_eq]; congr 1; funext ty r1; simp [intBody]

theorem takeFrom_one {a : Array Byte} {i : Nat} {b : Byte} (h : a[i]? = some b) :
    takeFrom a i 1 = [b] := by
  simp [takeFrom, h]

theorem bReadU8_exact {r r' : Reader} {v : Nat} (h : bReadU8 r = (.ok v, r')) :
    r.pos + 1 ≤ r.data.size ∧ r' = ⟨r.data, r.pos + 1⟩ ∧ v = beVal (takeFrom r.data r.pos 1) := by
  obtain ⟨hr, hlt, b, hb, hv⟩ := bReadU8_ok h
  refine ⟨hlt, hr, ?_⟩
  rw [takeFrom_one hb, hv]; simp [beVal]

/-- a successful integer type switch consumed exactly one complete payload inside the input and
    returned its value -/
theorem intBody_ok {maxw ty : Nat} {r1 r' : Reader} {v : Int} (hpos : r1.pos ≤ r1.data.size)
    (h : intBody maxw ty r1 = (.ok v, r')) :
    ∃ w, intWidth maxw ty = some w ∧ r1.pos + w ≤ r1.data.size ∧ r' = ⟨r1.data, r1.pos + w⟩ ∧
      v = fieldInt r1.data r1.pos w := by
  unfold intBody at h
  unfold intWidth
  split at h
  · rename_i h0
    simp only [Prod.mk.injEq, Except.ok.injEq] at h
    exact ⟨0, by simp [h0], by omega, h.2.symm, by simp [fieldInt, h.1]⟩
  · rename_i h0
    split at h
    · rename_i h1
      obtain ⟨a, ha, hv⟩ := mapRes_ok h
      obtain ⟨e1, e2, e3⟩ := bReadU8_exact ha
      exact ⟨1, by simp [h1], e1, e2, by simp [fieldInt, hv, e3]⟩
    · rename_i h1
      split at h
      · rename_i h2
        obtain ⟨a, ha, hv⟩ := mapRes_ok h
        obtain ⟨e1, e2, e3, _⟩ := bReadU_ok (by decide) ha
        obtain ⟨rfl, hm⟩ := h2
        exact ⟨2, by simp [hm, tyZeroTag, tyBYTE, tySHORT], e1, e2, by simp [fieldInt, hv, e3]⟩
      · rename_i h2
        split at h
        · rename_i h3
          obtain ⟨a, ha, hv⟩ := mapRes_ok h
          obtain ⟨e1, e2, e3, _⟩ := bReadU_ok (by decide) ha
          obtain ⟨rfl, hm⟩ := h3
          exact ⟨4, by simp [hm, tyZeroTag, tyBYTE, tySHORT, tyINT], e1, e2, by simp [fieldInt, hv, e3]⟩
        · rename_i h3
          split at h
          · rename_i h4
            obtain ⟨a, ha, hv⟩ := mapRes_ok h
            obtain ⟨e1, e2, e3, _⟩ := bReadU_ok (by decide) ha
            obtain ⟨rfl, hm⟩ := h4
            exact ⟨8, by simp [hm, tyZeroTag, tyBYTE, tySHORT, tyINT, tyLONG], e1, e2, by simp [fieldInt, hv, e3]⟩
          · simp at h

/-- a wire type that is not admissible for the integer width is rejected -/
theorem intBody_mismatch {maxw ty : Nat} (h : intWidth maxw ty = none) (r1 : Reader) :
    intBody maxw ty r1 = (.error .mismatch, r1) := by
  unfold intWidth at h
  unfold intBody
  split at h; · simp at h
  rename_i h0
  split at h; · simp at h
  rename_i h1
  split at h; · simp at h
  rename_i h2
  split at h; · simp at h
  rename_i h3
  split at h; · simp at h
  rename_i h4
  simp only [h0, h1, h2, h3, h4, if_false]


/-- **Integers: no over-read, exact value.**  A successful `ReadIntN` either did not find the
    (optional) field and kept `old`, or found a head of an admissible wire type followed by its
    complete payload inside the input, consumed exactly that and returned its value. -/
theorem readWith_int_exact {maxw : Nat} {old : Int} {tag : Nat} {req : Bool} {r r' : Reader} {v : Int}
    (h : readWith old tag req (intBody maxw) r = (.ok v, r')) :
    (∃ ty, skipToNoCheck tag req r = (.ok (false, ty), r') ∧ v = old ∧ req = false) ∨
    (∃ ty r1 w, skipToNoCheck tag req r = (.ok (true, ty), r1) ∧ intWidth maxw ty = some w ∧
      r1.pos + w ≤ r.data.size ∧ r' = ⟨r.data, r1.pos + w⟩ ∧ v = fieldInt r.data r1.pos w) := by
  rcases readWith_ok h with h1 | ⟨ty, r1, hs, hlt, hb⟩
  · exact .inl h1
  · obtain ⟨w, hw, e1, e2, e3⟩ := intBody_ok hlt.2.2 hb
    rw [hlt.1] at e1 e2 e3
    exact .inr ⟨ty, r1, w, hs, hw, e1, e2, e3⟩

/-- **Integers: mistyped field.**  A found head whose wire type is not admissible is rejected. -/
theorem readWith_int_mismatch {maxw : Nat} {old : Int} {tag : Nat} {req : Bool} {r r1 : Reader} {ty : Nat}
    (hs : skipToNoCheck tag req r = (.ok (true, ty), r1)) (hw : intWidth maxw ty = none) :
    readWith old tag req (intBody maxw) r = (.error .mismatch, r1) := by
  rw [readWith_found hs, intBody_mismatch hw]

/-! ### floats -/

def f32Width (ty : Nat) : Option Nat :=
  if ty = tyZeroTag then some 0 else if ty = tyFLOAT then some 4 else none

def f64Width (ty : Nat) : Option Nat :=
  if ty = tyZeroTag then some 0 else if ty = tyFLOAT then some 4 else if ty = tyDOUBLE then some 8 else none

/-- bit pattern determined by a complete float payload read as float32 -/
def fieldF32 (data : Array Byte) (pos w : Nat) : Nat :=
  if w = 0 then 0 else beVal (takeFrom data pos w)

/-- bit pattern determined by a complete float payload read as float64 -/
def fieldF64 (data : Array Byte) (pos w : Nat) : Nat :=
  if w = 0 then 0 else if w = 4 then widenF32 (beVal (takeFrom data pos 4)) else beVal (takeFrom data pos w)

theorem readFloat32_exact {old : Nat} {tag : Nat} {req : Bool} {r r' : Reader} {v : Nat}
    (h : readFloat32 old tag req r = (.ok v, r')) :
    (∃ ty, skipToNoCheck tag req r = (.ok (false, ty), r') ∧ v = old ∧ req = false) ∨
    (∃ ty r1 w, skipToNoCheck tag req r = (.ok (true, ty), r1) ∧ f32Width ty = some w ∧
      r1.pos + w ≤ r.data.size ∧ r' = ⟨r.data, r1.pos + w⟩ ∧ v = fieldF32 r.data r1.pos w) := by
  rw [readFloat32_eq] at h
  rcases readWith_ok h with h1 | ⟨ty, r1, hs, hlt, hb⟩
  · exact .inl h1
  · right
    try simp only at hb
    split at hb
    · rename_i h0
      simp only [Prod.mk.injEq, Except.ok.injEq] at hb
      refine ⟨ty, r1, 0, hs, by simp [f32Width, h0, tyZeroTag, tyFLOAT], ?_, ?_, by simp [fieldF32, hb.1]⟩
      · have := hlt.2.2; rw [hlt.1] at this; omega
      · rw [← hb.2, ← hlt.1]; rfl
    · rename_i h0
      split at hb
      · rename_i h1
        obtain ⟨e1, e2, e3, _⟩ := bReadU_ok (by decide) hb
        rw [hlt.1] at e1 e2 e3
        exact ⟨ty, r1, 4, hs, by simp [f32Width, h0, h1, tyZeroTag, tyFLOAT], e1, e2, by simp [fieldF32, e3]⟩
      · simp at hb

theorem readFloat32_mismatch {old : Nat} {tag : Nat} {req : Bool} {r r1 : Reader} {ty : Nat}
    (hs : skipToNoCheck tag req r = (.ok (true, ty), r1)) (hw : f32Width ty = none) :
    readFloat32 old tag req r = (.error .mismatch, r1) := by
  rw [readFloat32_eq]; unfold readWith; rw [hs]; simp only
  unfold f32Width at hw
  split at hw; · simp at hw
  rename_i h0
  split at hw; · simp at hw
  rename_i h1
  simp only [h0, h1, if_false]

theorem readFloat64_exact {old : Nat} {tag : Nat} {req : Bool} {r r' : Reader} {v : Nat}
    (h : readFloat64 old tag req r = (.ok v, r')) :
    (∃ ty, skipToNoCheck tag req r = (.ok (false, ty), r') ∧ v = old ∧ req = false) ∨
    (∃ ty r1 w, skipToNoCheck tag req r = (.ok (true, ty), r1) ∧ f64Width ty = some w ∧
      r1.pos + w ≤ r.data.size ∧ r' = ⟨r.data, r1.pos + w⟩ ∧ v = fieldF64 r.data r1.pos w) := by
  rw [readFloat64_eq] at h
  rcases readWith_ok h with h1 | ⟨ty, r1, hs, hlt, hb⟩
  · exact .inl h1
  · right
    try simp only at hb
    split at hb
    · rename_i h0
      simp only [Prod.mk.injEq, Except.ok.injEq] at hb
      refine ⟨ty, r1, 0, hs, by simp [f64Width, h0, tyZeroTag, tyFLOAT, tyDOUBLE], ?_, ?_, by simp [fieldF64, hb.1]⟩
      · have := hlt.2.2; rw [hlt.1] at this; omega
      · rw [← hb.2, ← hlt.1]; rfl
    · rename_i h0
      split at hb
      · rename_i h1
        obtain ⟨a, ha, hv⟩ := mapRes_ok hb
        obtain ⟨e1, e2, e3, _⟩ := bReadU_ok (by decide) ha
        rw [hlt.1] at e1 e2 e3
        exact ⟨ty, r1, 4, hs, by simp [f64Width, h0, h1, tyZeroTag, tyFLOAT, tyDOUBLE], e1, e2, by simp [fieldF64, hv, e3]⟩
      · rename_i h1
        split at hb
        · rename_i h2
          obtain ⟨e1, e2, e3, _⟩ := bReadU_ok (by decide) hb
          rw [hlt.1] at e1 e2 e3
          exact ⟨ty, r1, 8, hs, by simp [f64Width, h0, h1, h2, tyZeroTag, tyFLOAT, tyDOUBLE], e1, e2, by simp [fieldF64, e3]⟩
        · simp at hb

theorem readFloat64_mismatch {old : Nat} {tag : Nat} {req : Bool} {r r1 : Reader} {ty : Nat}
    (hs : skipToNoCheck tag req r = (.ok (true, ty), r1)) (hw : f64Width ty = none) :
    readFloat64 old tag req r = (.error .mismatch, r1) := by
  rw [readFloat64_eq]; unfold readWith; rw [hs]; simp only
  unfold f64Width at hw
  split at hw; · simp at hw
  rename_i h0
  split at hw; · simp at hw
  rename_i h1
  split at hw; · simp at hw
  rename_i h2
  simp only [h0, h1, h2, if_false]

/-! ### strings -/

/-- width of the length prefix of a string wire type -/
def strLenWidth (ty : Nat) : Option Nat :=
  if ty = tySTRING4 then some 4 else if ty = tySTRING1 then some 1 else none

theorem nextExact_ok {l : Nat} {r r' : Reader} {s : Bytes} (hpos : r.pos ≤ r.data.size)
    (h : nextExact l r = (.ok s, r')) :
    r.pos + l ≤ r.data.size ∧ r' = ⟨r.data, r.pos + l⟩ ∧ s = takeFrom r.data r.pos l ∧ s.length = l := by
  unfold nextExact at h
  rw [next_spec] at h
  simp only [Int.toNat_natCast] at h
  split at h
  · simp at h
  · rename_i hlen
    simp only [Prod.mk.injEq, Except.ok.injEq] at h
    simp only [takeFrom_length, ne_eq, Decidable.not_not] at hlen
    have hmin : min r.pos r.data.size = r.pos := by omega
    have hle : r.pos + l ≤ r.data.size := by omega
    have hm2 : min l (r.data.size - r.pos) = l := by omega
    rw [hmin, hm2] at h
    refine ⟨hle, h.2.symm, h.1.symm, ?_⟩
    rw [← h.1, takeFrom_length]; omega

/-- **Strings: no over-read, exact value.**  A successful `ReadString` that found the field read
    a complete length prefix and exactly that many bytes, all inside the input. -/
theorem readString_exact {old : Bytes} {tag : Nat} {req : Bool} {r r' : Reader} {s : Bytes}
    (h : readString old tag req r = (.ok s, r')) :
    (∃ ty, skipToNoCheck tag req r = (.ok (false, ty), r') ∧ s = old ∧ req = false) ∨
    (∃ ty r1 w l, skipToNoCheck tag req r = (.ok (true, ty), r1) ∧ strLenWidth ty = some w ∧
      l = beVal (takeFrom r.data r1.pos w) ∧ r1.pos + w + l ≤ r.data.size ∧
      r' = ⟨r.data, r1.pos + w + l⟩ ∧ s = takeFrom r.data (r1.pos + w) l ∧ s.length = l) := by
  rw [readString_eq] at h
  rcases readWith_ok h with h1 | ⟨ty, r1, hs, hlt, hb⟩
  · exact .inl h1
  · right
    try simp only at hb
    split at hb
    · rename_i h0
      cases hc : bReadU 4 r1 with
      | mk res r2 =>
        rw [hc] at hb
        cases res with
        | error e => simp at hb
        | ok l =>
          try simp only at hb
          obtain ⟨e1, e2, e3, _⟩ := bReadU_ok (by decide) hc
          subst e2
          obtain ⟨n1, n2, n3, n4⟩ := nextExact_ok (by simpa using e1) hb
          simp only at n1 n2 n3
          rw [hlt.1] at e3 n1 n2 n3
          exact ⟨ty, r1, 4, l, hs, by simp [strLenWidth, h0, tySTRING1, tySTRING4], e3, n1, n2, n3, n4⟩
    · rename_i h0
      split at hb
      · rename_i h1
        cases hc : bReadU8 r1 with
        | mk res r2 =>
          rw [hc] at hb
          cases res with
          | error e => simp at hb
          | ok l =>
            try simp only at hb
            obtain ⟨e1, e2, e3⟩ := bReadU8_exact hc
            subst e2
            obtain ⟨n1, n2, n3, n4⟩ := nextExact_ok (by simpa using e1) hb
            simp only at n1 n2 n3
            rw [hlt.1] at e3 n1 n2 n3
            exact ⟨ty, r1, 1, l, hs, by simp [strLenWidth, h0, h1, tySTRING1, tySTRING4], e3, n1, n2, n3, n4⟩
      · simp at hb

theorem readString_mismatch {old : Bytes} {tag : Nat} {req : Bool} {r r1 : Reader} {ty : Nat}
    (hs : skipToNoCheck tag req r = (.ok (true, ty), r1)) (hw : strLenWidth ty = none) :
    readString old tag req r = (.error .mismatch, r1) := by
  rw [readString_eq]; unfold readWith; rw [hs]; simp only
  unfold strLenWidth at hw
  split at hw; · simp at hw
  rename_i h0
  split at hw; · simp at hw
  rename_i h1
  simp only [h0, h1, if_false]

/-! ### byte slices (`ReadSliceInt8/Uint8`, `ReadBytes`) -/

theorem readSlice8_exact {old : Bytes} {len : Int} {r r' : Reader} {bs : Bytes}
    (h : readSlice8 old len r = (.ok bs, r')) :
    (len ≤ 0 ∧ bs = [] ∧ r' = r) ∨
    (0 < len ∧ r.pos + len.toNat ≤ r.data.size ∧ r' = ⟨r.data, r.pos + len.toNat⟩ ∧
      bs = takeFrom r.data r.pos len.toNat ∧ bs.length = len.toNat) := by
  unfold readSlice8 at h
  split at h
  · rename_i h0
    simp only [Prod.mk.injEq, Except.ok.injEq] at h
    exact .inl ⟨h0, h.1.symm, h.2.symm⟩
  · rename_i h0
    cases hc : checkLength len r with
    | mk res0 r0 =>
      rw [hc] at h
      cases res0 with
      | error e => simp at h
      | ok u =>
        obtain ⟨rfl, _, _⟩ := checkLength_ok_inv hc
        simp only at h
        rcases readFull_ok h with ⟨hz, _, _⟩ | ⟨_, e1, e2, e3, e4⟩
        · omega
        · exact .inr ⟨by omega, e1, e4, e2, e3⟩

theorem readBytes_exact {len : Int} {r r' : Reader} {bs : Bytes}
    (h : readBytes len r = (.ok bs, r')) :
    0 ≤ len ∧ bs.length = len.toNat ∧ r'.data = r.data ∧ r'.pos = r.pos + len.toNat ∧
    (0 < len → r'.pos ≤ r.data.size ∧ bs = takeFrom r.data r.pos len.toNat) := by
  unfold readBytes at h
  cases hc : checkLength len r with
  | mk res0 r0 =>
    rw [hc] at h
    cases res0 with
    | error e => simp at h
    | ok u =>
      obtain ⟨rfl, h0, _⟩ := checkLength_ok_inv hc
      simp only at h
      rcases readFull_ok h with ⟨hz, e1, e2⟩ | ⟨_, e1, e2, e3, e4⟩
      · subst e1 e2; exact ⟨h0, by simp [hz], rfl, by omega, by omega⟩
      · subst e4; exact ⟨h0, e3, rfl, rfl, fun _ => ⟨e1, e2⟩⟩

/-- `ReadBytes` never panics any more: a negative or excessive length is an error -/
theorem readBytes_plain (len : Int) (r : Reader) : PlainRes (readBytes len r).1 := by
  unfold readBytes
  cases hc : checkLength len r with
  | mk res0 r0 =>
    cases res0 with
    | error e => rw [(checkLength_err hc).2.1]; simp
    | ok u =>
      simp only
      cases h : readFull len.toNat r0 with
      | mk res r' =>
        cases res with
        | error e => rw [(readFull_err h).1]; simp
        | ok v => simp

/-! ### relation to the primitives as found (defect D8) -/

/-- the short-read situation: some but fewer than `n` bytes remain -/
def ShortAt (r : Reader) (n : Nat) : Prop := 0 < r.remaining ∧ r.remaining < n

/-- outside the short-read situation the as-found and the repaired `bReadU` agree -/
theorem bReadU_asFound_agree {n : Nat} {r : Reader} (hn : 0 < n) (h : ¬ ShortAt r n) :
    AsFound.bReadU n r = bReadU n r := by
  unfold AsFound.bReadU AsFound.readBuf bReadU readFull ShortAt Reader.remaining at *
  have hn0 : ¬ n = 0 := by omega
  by_cases hp : r.pos ≥ r.data.size
  · simp [hp, hn0]
  · have hfull : n ≤ r.data.size - r.pos := by omega
    have hlen : (takeFrom r.data r.pos n).length = n := by rw [takeFrom_length]; omega
    simp [hp, hn0, hlen, zeros]

/-- in the short-read situation the as-found `bReadU` succeeds with a zero-padded value whereas
    the repaired one fails -/
theorem bReadU_asFound_short {n : Nat} {r : Reader} (h : ShortAt r n) :
    (∃ v r', AsFound.bReadU n r = (.ok v, r')) ∧ (bReadU n r).1 = .error .eof := by
  unfold AsFound.bReadU AsFound.readBuf bReadU readFull ShortAt Reader.remaining at *
  have hn0 : ¬ n = 0 := by omega
  have hp : ¬ r.pos ≥ r.data.size := by omega
  have hlen : (takeFrom r.data r.pos n).length < n := by rw [takeFrom_length]; omega
  simp [hp, hn0, hlen]

theorem readSlice8_asFound_agree {len : Nat} {r : Reader} (hn : 0 < len) (h : ¬ ShortAt r len) (old : Bytes) :
    AsFound.readSlice8 len r = readSlice8 old (len : Int) r := by
  have hi : ¬ ((len : Int) ≤ 0) := by omega
  unfold readSlice8
  rw [if_neg hi]
  unfold ShortAt at h
  by_cases hp : r.remaining = 0
  · rw [checkLength_of_gt (by omega)]
    unfold Reader.remaining at hp
    have hp' : r.pos ≥ r.data.size := by omega
    simp [AsFound.readSlice8, AsFound.readBuf, hp']
  · rw [checkLength_of_le (by omega) (by simp; omega)]
    unfold Reader.remaining at hp h
    have hp' : ¬ r.pos ≥ r.data.size := by omega
    have hn0 : ¬ len = 0 := by omega
    have hlen : (takeFrom r.data r.pos len).length = len := by rw [takeFrom_length]; omega
    simp [AsFound.readSlice8, AsFound.readBuf, readFull, hp', hn0, hlen, zeros]

/-- the as-found string tail agrees with the repaired one when `l` bytes remain -/
theorem readStringTail_asFound_agree {l : Nat} {r : Reader} (h : r.pos + l ≤ r.data.size) :
    AsFound.readStringTail l r = nextExact l r := by
  unfold AsFound.readStringTail nextExact
  rw [next_spec]
  simp only [Int.toNat_natCast, takeFrom_length]
  have : min (min l (r.data.size - r.pos)) (r.data.size - min r.pos r.data.size) = l := by omega
  simp [this]

end Tars
