/-
  `admits` is sound: a history it accepts is the visible history of a run of the LTS (helper lemmas
  for `Props/C11.lean`). Core Lean only.
-/
import TarsModel.Proofs.ClientConnLive

namespace Tars.ClientConn

/-- `Trace s h s'`: the LTS can go from `s` to `s'` performing exactly the visible events `h`
(and any internal steps in between) -/
inductive Trace (v : Variant) (cap : Nat) : State → List Event → State → Prop
  | nil (s : State) : Trace v cap s [] s
  | tau {s s' s'' : State} {h : List Event} (a : Action) : a.isTau = true →
      step v cap s a = some s' → Trace v cap s' h s'' → Trace v cap s h s''
  | vis {s s' s'' : State} {ev : Event} {h : List Event} :
      s' ∈ fire v cap s ev → Trace v cap s' h s'' → Trace v cap s (ev :: h) s''

theorem tauActions_isTau {s : State} {a : Action} (h : a ∈ tauActions s) : a.isTau = true := by
  simp only [tauActions, List.mem_append, List.mem_flatten, List.mem_map] at h
  rcases h with ⟨l, ⟨x, _, rfl⟩, ha⟩ | ⟨l, ⟨k, _, rfl⟩, ha⟩
  · simp only [List.mem_cons, List.not_mem_nil, or_false] at ha
    rcases ha with rfl | rfl | rfl | rfl <;> rfl
  · simp only [List.mem_cons, List.not_mem_nil, or_false] at ha
    rcases ha with rfl | rfl | rfl | rfl | rfl | rfl | rfl | rfl | rfl | rfl | rfl | rfl | rfl | rfl |
      rfl | rfl | rfl | rfl | rfl | rfl | rfl | rfl | rfl <;> rfl

/-- reachability by internal steps only -/
def TauReach (v : Variant) (cap : Nat) (s s' : State) : Prop := Trace v cap s [] s'

theorem TauReach.refl {v cap} (s : State) : TauReach v cap s s := Trace.nil s

theorem trace_append {v cap} {s1 s2 s3 : State} {h1 h2 : List Event}
    (t1 : Trace v cap s1 h1 s2) (t2 : Trace v cap s2 h2 s3) : Trace v cap s1 (h1 ++ h2) s3 := by
  induction t1 with
  | nil s => simpa using t2
  | tau a ha hs _ ih => exact Trace.tau a ha hs (ih t2)
  | vis hf _ ih => exact Trace.vis hf (ih t2)

theorem tauSucc_reach {v cap} {s x : State} (h : x ∈ tauSucc v cap s) : TauReach v cap s x := by
  simp only [tauSucc, List.mem_filterMap] at h
  obtain ⟨a, ha, hs⟩ := h
  exact Trace.tau a (tauActions_isTau ha) hs (Trace.nil x)

theorem mem_insertNew {seen : List State} {s x : State} (h : x ∈ insertNew seen s) :
    x ∈ seen ∨ x = s := by
  unfold insertNew at h
  split at h
  · exact Or.inl h
  · simp only [List.mem_cons] at h
    rcases h with h | h
    · exact Or.inr h
    · exact Or.inl h

theorem mem_foldl_insertNew {l : List State} {acc : List State} {x : State}
    (h : x ∈ l.foldl insertNew acc) : x ∈ acc ∨ x ∈ l := by
  induction l generalizing acc with
  | nil => exact Or.inl h
  | cons a l ih =>
    simp only [List.foldl_cons] at h
    rcases ih h with h | h
    · rcases mem_insertNew h with h | h
      · exact Or.inl h
      · exact Or.inr (h ▸ List.mem_cons_self)
    · exact Or.inr (List.mem_cons_of_mem _ h)

theorem mem_next {v cap} {frontier acc : List State} {x : State}
    (h : x ∈ frontier.foldl (fun acc s => (tauSucc v cap s).foldl insertNew acc) acc) :
    x ∈ acc ∨ ∃ s ∈ frontier, x ∈ tauSucc v cap s := by
  induction frontier generalizing acc with
  | nil => exact Or.inl h
  | cons a l ih =>
    simp only [List.foldl_cons] at h
    rcases ih h with h | ⟨s, hs, hx⟩
    · rcases mem_foldl_insertNew h with h | h
      · exact Or.inl h
      · exact Or.inr ⟨a, List.mem_cons_self, h⟩
    · exact Or.inr ⟨s, List.mem_cons_of_mem _ hs, hx⟩

theorem closure_sound {v cap} (ss : List State) :
    ∀ (fuel : Nat) (frontier seen : List State),
      (∀ x ∈ frontier, ∃ s ∈ ss, TauReach v cap s x) → (∀ x ∈ seen, ∃ s ∈ ss, TauReach v cap s x) →
      ∀ x ∈ closure v cap fuel frontier seen, ∃ s ∈ ss, TauReach v cap s x := by
  intro fuel
  induction fuel with
  | zero => intro frontier seen _ hs x hx; simp only [closure] at hx; exact hs x hx
  | succ n ih =>
    intro frontier seen hf hs x hx
    cases frontier with
    | nil => simp only [closure] at hx; exact hs x hx
    | cons f fs =>
      simp only [closure] at hx
      have hfresh : ∀ y ∈ (List.foldl (fun acc s => (tauSucc v cap s).foldl insertNew acc) [] (f :: fs)).filter
          (fun s => !seen.contains s), ∃ s ∈ ss, TauReach v cap s y := by
        intro y hy
        have hy' := (List.mem_filter.mp hy).1
        rcases mem_next hy' with h | ⟨s, hsf, hys⟩
        · simp at h
        · obtain ⟨s0, hs0, hr⟩ := hf s hsf
          exact ⟨s0, hs0, trace_append hr (tauSucc_reach hys)⟩
      apply ih _ _ hfresh _ x hx
      intro y hy
      rcases List.mem_append.mp hy with h | h
      · exact hfresh y h
      · exact hs y h

theorem closureOf_sound {v cap} (ss : List State) {x : State} (hx : x ∈ closureOf v cap ss) :
    ∃ s ∈ ss, TauReach v cap s x := by
  unfold closureOf at hx
  exact closure_sound ss _ ss ss (fun y hy => ⟨y, hy, TauReach.refl y⟩)
    (fun y hy => ⟨y, hy, TauReach.refl y⟩) x hx

theorem mem_fire_fold {v cap} {ev : Event} {cl acc : List State} {x : State}
    (h : x ∈ cl.foldl (fun acc s => (fire v cap s ev).foldl insertNew acc) acc) :
    x ∈ acc ∨ ∃ s ∈ cl, x ∈ fire v cap s ev := by
  induction cl generalizing acc with
  | nil => exact Or.inl h
  | cons a l ih =>
    simp only [List.foldl_cons] at h
    rcases ih h with h | ⟨s, hs, hx⟩
    · rcases mem_foldl_insertNew h with h | h
      · exact Or.inl h
      · exact Or.inr ⟨a, List.mem_cons_self, h⟩
    · exact Or.inr ⟨s, List.mem_cons_of_mem _ hs, hx⟩

theorem admitsFrom_sound {v cap} {limit : Nat} :
    ∀ (h : List Event) (ss : List State) (r : List State × Nat) (i mx : Nat),
      admitsFrom v cap limit ss h i mx = .ok r →
      (ss ≠ [] → r.1 ≠ []) ∧ ∀ x' ∈ r.1, ∃ x ∈ ss, Trace v cap x h x' := by
  intro h
  induction h with
  | nil =>
    intro ss r i mx hok
    simp only [admitsFrom, Except.ok.injEq] at hok
    subst hok
    exact ⟨id, fun x hx => ⟨x, hx, Trace.nil x⟩⟩
  | cons ev rest ih =>
    intro ss r i mx hok
    simp only [admitsFrom] at hok
    split at hok
    · contradiction
    · split at hok
      · contradiction
      · rename_i hne
        obtain ⟨hne', hall⟩ := ih _ r (i + 1) _ hok
        refine ⟨fun _ => hne' (by simpa using hne), ?_⟩
        intro x' hx'
        obtain ⟨y, hy, ht⟩ := hall x' hx'
        rcases mem_fire_fold hy with h | ⟨c, hc, hf⟩
        · simp at h
        · obtain ⟨x, hx, hr⟩ := closureOf_sound ss hc
          exact ⟨x, hx, trace_append hr (Trace.vis hf ht)⟩

/-- soundness of `admits` (any limit): an admitted history is the visible history of a run -/
theorem admits_sound {v cap} {idle : Bool} {h : List Event} {limit : Nat}
    (ha : admits v cap idle h limit = true) :
    ∃ s, Trace v cap (if idle then init else initNoIdle) h s := by
  unfold admits at ha
  split at ha
  · rename_i r hok
    obtain ⟨hne, hall⟩ := admitsFrom_sound h [if idle then init else initNoIdle] r 0 1 hok
    have : r.1 ≠ [] := hne (by simp)
    obtain ⟨x', hx'⟩ := List.exists_mem_of_ne_nil r.1 this
    obtain ⟨x, hx, ht⟩ := hall x' hx'
    simp only [List.mem_singleton] at hx
    exact ⟨x', hx ▸ ht⟩
  · contradiction

/-- a visible event is a step of the LTS or (a probe) leaves the state unchanged -/
theorem fire_step {v cap} {s s' : State} {ev : Event} (h : s' ∈ fire v cap s ev) :
    s' = s ∨ ∃ a, step v cap s a = some s' := by
  cases ev with
  | callBegin id => exact Or.inr ⟨_, by simpa [fire] using h⟩
  | callRet id => exact Or.inr ⟨_, by simpa [fire] using h⟩
  | callFail id => exact Or.inr ⟨_, by simpa [fire] using h⟩
  | reconnected =>
    simp only [fire, List.mem_filterMap] at h
    obtain ⟨x, _, hx⟩ := h
    exact Or.inr ⟨_, hx⟩
  | mark p k => exact Or.inr ⟨_, by simpa [fire] using h⟩
  | pClose k => exact Or.inr ⟨_, by simpa [fire] using h⟩
  | pReset k => exact Or.inr ⟨_, by simpa [fire] using h⟩
  | accept k => exact Or.inr ⟨_, by simpa [fire] using h⟩
  | recv k id => exact Or.inr ⟨_, by simpa [fire] using h⟩
  | probe c q f n =>
    simp only [fire] at h
    split at h
    · simp only [List.mem_singleton] at h; exact Or.inl h
    · simp at h

theorem trace_reachable {v cap} {s s' : State} {h : List Event} (t : Trace v cap s h s')
    (hr : Reachable v cap s) : Reachable v cap s' := by
  induction t with
  | nil s => exact hr
  | tau a _ hs _ ih => exact ih (Reachable.step a hr hs)
  | vis hf _ ih =>
    rcases fire_step hf with rfl | ⟨a, ha⟩
    · exact ih hr
    · exact ih (Reachable.step a hr ha)

/-- what a probe at the end of a history says about the state at its end -/
theorem trace_probe_last {v cap} {s s' : State} {h : List Event} {c : Bool} {q f n : Nat}
    (t : Trace v cap s (h ++ [.probe c q f n]) s') :
    ∃ s1, Trace v cap s h s1 ∧ s1.isClosed = c ∧ s1.conns.length = n ∧ optLen s1.failQ = f ∧
      s1.sendQ.length = q ∧ TauReach v cap s1 s' := by
  generalize hh : h ++ [Event.probe c q f n] = hh' at t
  induction t generalizing h with
  | nil s => simp at hh
  | tau a ha hs _ ih =>
    obtain ⟨s1, t1, r⟩ := ih hh
    exact ⟨s1, Trace.tau a ha hs t1, r⟩
  | @vis s0 s1 s2 ev rest hf t' ih =>
    cases h with
    | nil =>
      simp only [List.nil_append, List.cons.injEq] at hh
      obtain ⟨rfl, rfl⟩ := hh
      simp only [fire] at hf
      split at hf
      · rename_i hc
        simp only [List.mem_singleton] at hf
        subst hf
        exact ⟨s1, Trace.nil _, hc.1, hc.2.2.2, hc.2.2.1, hc.2.1, t'⟩
      · simp at hf
    | cons e h' =>
      simp only [List.cons_append, List.cons.injEq] at hh
      obtain ⟨rfl, hh⟩ := hh
      obtain ⟨s3, t3, r⟩ := ih hh
      exact ⟨s3, Trace.vis hf t3, r⟩

theorem reachable_start {v cap} (idle : Bool) : Reachable v cap (if idle then init else initNoIdle) := by
  cases idle
  · exact Reachable.initNoIdle
  · exact Reachable.init

end Tars.ClientConn
