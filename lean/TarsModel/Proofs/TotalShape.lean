import TarsModel.Proofs.TotalCls

/-!
  C05 helper lemmas, part 7: well-formed environments and well-shaped targets; for those the
  model's "ill-typed target" marker never occurs (so it is not a behaviour of the Go code, whose
  targets are well-typed by construction).
-/
namespace Tars
open Consts

mutual
/-- the target value has the shape the generated code's static types guarantee (as far as the
    decoder looks at it) -/
inductive Shape (env : Env) : Ty → Val → Prop
  | scalar {ty : Ty} {v : Val} : ScalarShape ty v → Shape env ty v
  | vec {e : Ty} {v : Val} : Shape env (.vec e) v
  | map {k v : Ty} {x : Val} : Shape env (.map k v) x
  | arr {n : Nat} {e : Ty} {vs : List Val} : ShapeAll env e vs → Shape env (.arr n e) (.list vs)
  | struct {name : String} {fs : List Field} {ovs : List Val} :
      env.find name = some fs → ShapeMembers env fs ovs → Shape env (.struct name) (.struct ovs)
inductive ShapeAll (env : Env) : Ty → List Val → Prop
  | nil {e : Ty} : ShapeAll env e []
  | cons {e : Ty} {v : Val} {vs : List Val} : Shape env e v → ShapeAll env e vs → ShapeAll env e (v :: vs)
inductive ShapeMembers (env : Env) : List Field → List Val → Prop
  | nilL {vs : List Val} : ShapeMembers env [] vs
  | nilR {fs : List Field} : ShapeMembers env fs []
  | cons {f : Field} {fs : List Field} {v : Val} {vs : List Val} :
      Shape env f.ty v → ShapeMembers env fs vs → ShapeMembers env (f :: fs) (v :: vs)
end

/-- every struct name the type mentions is defined -/
def TyClosed (env : Env) : Ty → Prop
  | .vec e => TyClosed env e
  | .arr _ e => TyClosed env e
  | .map k v => TyClosed env k ∧ TyClosed env v
  | .struct name => ∃ fs, env.find name = some fs
  | _ => True

/-- well-formed environment: member types mention only defined structs, explicit defaults have
    the shape of their member.  (No acyclicity is needed.) -/
structure EnvClosed (env : Env) : Prop where
  closed : ∀ name fs, env.find name = some fs → ∀ f, f ∈ fs → TyClosed env f.ty
  dflt : ∀ name fs, env.find name = some fs → ∀ f, f ∈ fs → ∀ d, f.dflt = some d → Shape env f.ty d

theorem shapeAll_replicate {env : Env} {e : Ty} {v : Val} (h : Shape env e v) (n : Nat) :
    ShapeAll env e (List.replicate n v) := by
  induction n with
  | zero => exact ShapeAll.nil
  | succ n ih => exact ShapeAll.cons h ih

theorem scalarShape_zero (ty : Ty) (h : Total.isAtom ty = true) (hne : ty ≠ .enum) :
    ScalarShape ty (scalarZero ty) := by
  cases ty <;> simp [Total.isAtom] at h <;> simp [scalarZero, ScalarShape] at hne ⊢

theorem shape_zeroVal {env : Env} (hwf : EnvClosed env) : ∀ (fuel : Nat) (ty : Ty), TyClosed env ty →
    Shape env ty (zeroVal env fuel ty) := by
  intro fuel
  induction fuel with
  | zero =>
    intro ty
    induction ty with
    | vec e _ => intro _; unfold zeroVal; exact Shape.vec
    | map k v _ _ => intro _; unfold zeroVal; exact Shape.map
    | arr n e ih => intro h; unfold zeroVal; exact Shape.arr (shapeAll_replicate (ih h) n)
    | struct name =>
      intro h; obtain ⟨fs, hfs⟩ := h
      unfold zeroVal; exact Shape.struct hfs ShapeMembers.nilR
    | enum => intro _; unfold zeroVal; exact Shape.scalar (by simp [ScalarShape])
    | _ => intro _; unfold zeroVal; exact Shape.scalar (by simp [ScalarShape, scalarZero])
  | succ fuel ihf =>
    intro ty
    induction ty with
    | vec e _ => intro _; unfold zeroVal; exact Shape.vec
    | map k v _ _ => intro _; unfold zeroVal; exact Shape.map
    | arr n e ih => intro h; unfold zeroVal; exact Shape.arr (shapeAll_replicate (ih h) n)
    | struct name =>
      intro h; obtain ⟨fs, hfs⟩ := h
      unfold zeroVal
      simp only [hfs]
      refine Shape.struct hfs ?_
      have hc := hwf.closed name fs hfs
      clear hfs
      induction fs with
      | nil => exact ShapeMembers.nilL
      | cons g gs ih =>
        simp only [List.map_cons]
        exact ShapeMembers.cons (ihf g.ty (hc g List.mem_cons_self))
          (ih (fun f hf => hc f (List.mem_cons_of_mem _ hf)))
    | enum => intro _; unfold zeroVal; exact Shape.scalar (by simp [ScalarShape])
    | _ => intro _; unfold zeroVal; exact Shape.scalar (by simp [ScalarShape, scalarZero])

theorem shape_zeroOf {env : Env} (hwf : EnvClosed env) {ty : Ty} (h : TyClosed env ty) :
    Shape env ty (zeroOf env ty) := shape_zeroVal hwf _ ty h


theorem shape_struct_inv {env : Env} {name : String} {v : Val} (h : Shape env (.struct name) v) :
    ∃ fs ovs, v = .struct ovs ∧ env.find name = some fs ∧ ShapeMembers env fs ovs := by
  cases h with
  | scalar hs => simp [ScalarShape] at hs
  | struct hfs hm => exact ⟨_, _, rfl, hfs, hm⟩

theorem rd_zero (env : Env) (fs : List Field) (vs : List Val) :
    resetDefault env 0 fs vs = vs := by
  unfold resetDefault; rfl

theorem rd_nil (env : Env) (fuel : Nat) (vs : List Val) :
    resetDefault env (fuel+1) [] vs = [] := by
  unfold resetDefault; rfl

theorem rd_nilR (env : Env) (fuel : Nat) (f : Field) (fs : List Field) :
    resetDefault env (fuel+1) (f :: fs) [] = [] := by
  unfold resetDefault; rfl

theorem rd_cons (env : Env) (fuel : Nat) (f : Field) (fs : List Field) (v : Val) (vs : List Val) :
    resetDefault env (fuel+1) (f :: fs) (v :: vs) =
      (match f.dflt with
       | some d => d
       | none =>
         match f.ty with
         | .struct _ =>
           (match f.ty, v with
            | .struct name, .struct inner =>
              match env.find name with
              | some ifs => Val.struct (resetDefault env fuel ifs inner)
              | none => v
            | _, _ => v)
         | .arr n (.struct s) =>
           (match env.find s with
            | some ifs =>
              Val.list (List.replicate n
                (Val.struct (resetDefault env fuel ifs (ifs.map fun g => zeroOf env g.ty))))
            | none => zeroOf env f.ty)
         | t => zeroOf env t) :: resetDefault env (fuel+1) fs vs := by
  conv => lhs; unfold resetDefault
  rfl

theorem shapeMembers_zero {env : Env} (hwf : EnvClosed env) : ∀ fs : List Field,
    (∀ f, f ∈ fs → TyClosed env f.ty) → ShapeMembers env fs (fs.map fun g => zeroOf env g.ty) := by
  intro fs
  induction fs with
  | nil => intro _; exact ShapeMembers.nilL
  | cons g gs ih =>
    intro hc
    simp only [List.map_cons]
    exact ShapeMembers.cons (shape_zeroOf hwf (hc g List.mem_cons_self))
      (ih (fun f hf => hc f (List.mem_cons_of_mem _ hf)))

/-- `ResetDefault` keeps a well-shaped target well-shaped: explicit defaults have the member's
    shape, nested structs are reset recursively, elements of an array of structs take the
    struct's defaults, every other member becomes its zero value -/
theorem shape_resetDefault {env : Env} (hwf : EnvClosed env) : ∀ (fuel : Nat) (fs : List Field) (vs : List Val),
    (∀ f, f ∈ fs → TyClosed env f.ty) →
    (∀ f, f ∈ fs → ∀ d, f.dflt = some d → Shape env f.ty d) → ShapeMembers env fs vs →
    ShapeMembers env fs (resetDefault env fuel fs vs) := by
  intro fuel
  induction fuel with
  | zero => intro fs vs _ _ h; rw [rd_zero]; exact h
  | succ fuel ihf =>
    intro fs
    induction fs with
    | nil => intro vs _ _ _; rw [rd_nil]; exact ShapeMembers.nilL
    | cons f fs ih =>
      intro vs hc hd hs
      cases vs with
      | nil => rw [rd_nilR]; exact ShapeMembers.nilR
      | cons v vs =>
        rw [rd_cons]
        cases hs with
        | cons hv hrest =>
          refine ShapeMembers.cons ?_ (ih vs (fun g hg => hc g (List.mem_cons_of_mem _ hg))
            (fun g hg => hd g (List.mem_cons_of_mem _ hg)) hrest)
          split
          · rename_i d hdf
            exact hd f List.mem_cons_self d hdf
          · split
            · split
              · rename_i name inner hty
                rw [hty] at hv
                obtain ⟨fs0, ovs, hv1, hfs0, hm⟩ := shape_struct_inv hv
                simp only [Val.struct.injEq] at hv1
                subst hv1
                simp only [hfs0]
                rw [hty]
                exact Shape.struct hfs0
                  (ihf fs0 _ (hwf.closed name fs0 hfs0) (hwf.dflt name fs0 hfs0) hm)
              · exact hv
            · rename_i n s hty
              split
              · rename_i ifs hfind
                rw [hty]
                exact Shape.arr (shapeAll_replicate
                  (Shape.struct hfind (ihf ifs _ (hwf.closed s ifs hfind) (hwf.dflt s ifs hfind)
                    (shapeMembers_zero hwf ifs (hwf.closed s ifs hfind)))) n)
              · exact shape_zeroOf hwf (hc f List.mem_cons_self)
            · exact shape_zeroOf hwf (hc f List.mem_cons_self)


/-- the outcome is not the model's ill-typed-target marker -/
def NotIll {α : Type} (x : Res α) : Prop := x.1 ≠ .error illTyped

theorem NotIll.of_plain {α : Type} {x : Res α} (h : PlainRes x.1) : NotIll x := h.ne_panic _

theorem NotIll.of_ok {α : Type} {a : α} {r : Reader} : NotIll ((.ok a, r) : Res α) := by
  simp [NotIll]

theorem NotIll.of_err {α : Type} {e : Err} {r : Reader} (h : e ≠ illTyped) :
    NotIll ((.error e, r) : Res α) := by
  simp only [NotIll, ne_eq, Except.error.injEq]; exact h

theorem NotIll.err_cast {α β : Type} {e : Err} {r : Reader} (h : NotIll ((.error e, r) : Res α)) :
    NotIll ((.error e, r) : Res β) := by
  simp only [NotIll, ne_eq, Except.error.injEq] at h ⊢; exact h

theorem fuel_ne_ill : Err.fuel ≠ illTyped := by simp [illTyped]
theorem makeslice_ne_ill : Err.panic "makeslice" ≠ illTyped := by simp [illTyped]
theorem index_ne_ill : Err.panic "index" ≠ illTyped := by simp [illTyped]

theorem arrOverflow_notIll (e : Ty) (r : Reader) : NotIll (arrOverflow e r) := by
  intro h
  rcases arrOverflow_cls e r _ h with h1 | h1 | h1
  · simp [illTyped] at h1
  · exact makeslice_ne_ill h1.symm
  · exact index_ne_ill h1.symm

theorem shapeAll_getD {env : Env} {e : Ty} {vs : List Val} {d : Val} (h : ShapeAll env e vs)
    (hd : Shape env e d) (j : Nat) : Shape env e (vs.getD j d) := by
  induction vs generalizing j with
  | nil => simpa using hd
  | cons v vs ih =>
    cases h with
    | cons hv hrest =>
      cases j with
      | zero => simpa using hv
      | succ j => simpa using ih hrest j

theorem getD_listSet_ne (cur : List Val) (i j : Nat) (v d : Val) (h : i ≠ j) :
    (listSet cur i v).getD j d = cur.getD j d := by
  unfold listSet
  simp [List.getD_eq_getElem?_getD, List.getElem?_set_ne h]

theorem shape_arr_inv {env : Env} {n : Nat} {e : Ty} {v : Val} (h : Shape env (.arr n e) v) :
    ∃ vs, v = .list vs ∧ ShapeAll env e vs := by
  cases h with
  | scalar hs => simp [ScalarShape] at hs
  | arr ha => exact ⟨_, rfl, ha⟩

theorem shape_atom_inv {env : Env} {ty : Ty} {v : Val} (hat : Total.isAtom ty = true)
    (h : Shape env ty v) : ScalarShape ty v := by
  cases h with
  | scalar hs => exact hs
  | _ => simp [Total.isAtom] at hat

/-- **No ill-typed targets.**  For a well-formed environment and a target of the right shape
    (in particular a fresh one, or the result of an earlier decode into the same struct) the
    model never reports its "ill-typed target" marker; any fuel. -/
theorem dec_notIll (env : Env) (hwf : EnvClosed env) : ∀ f : Nat,
    (∀ tag req ty old (r : Reader), TyClosed env ty → Shape env ty old →
      NotIll (decVar env f tag req ty old r)) ∧
    (∀ e n acc (r : Reader), TyClosed env e → NotIll (decElems env f e n acc r)) ∧
    (∀ e n i len cur (r : Reader), TyClosed env e →
      (∀ j, i ≤ j → Shape env e (cur.getD j (zeroOf env e))) →
      NotIll (decArr env f e n i len cur r)) ∧
    (∀ k v len acc (r : Reader), TyClosed env k → TyClosed env v →
      NotIll (decPairs env f k v len acc r)) ∧
    (∀ fs olds (r : Reader), (∀ g, g ∈ fs → TyClosed env g.ty) → ShapeMembers env fs olds →
      NotIll (decMembers env f fs olds r)) := by
  intro f
  induction f with
  | zero =>
    refine ⟨?_, ?_, ?_, ?_, ?_⟩ <;> intros <;>
      simp only [Total.decVar_zero, Total.decElems_zero, Total.decArr_zero, Total.decPairs_zero,
        Total.decMembers_zero] <;> exact NotIll.of_err fuel_ne_ill
  | succ f ih =>
    obtain ⟨ihV, ihE, ihA, ihP, ihM⟩ := ih
    refine ⟨?_, ?_, ?_, ?_, ?_⟩
    · intro tag req ty old r hcl hsh
      cases ty with
      | vec e =>
        rw [Total.decVar_vec]
        have hp := skipToNoCheck_nofuel tag req r
        cases hb : skipToNoCheck tag req r with
        | mk res r1 =>
          rw [hb] at hp
          cases res with
          | error er => exact NotIll.of_plain (by simpa using hp)
          | ok p =>
            obtain ⟨hv, tyCur⟩ := p
            simp only
            split
            · exact NotIll.of_ok
            · split
              · have hp2 := readLen_plain r1
                cases hd : readLen r1 with
                | mk res2 r2 =>
                  rw [hd] at hp2
                  cases res2 with
                  | error er => exact NotIll.of_plain (by simpa using hp2)
                  | ok len =>
                    simp only
                    have hp3 := checkLength_plain len r2
                    cases hc3 : checkLength len r2 with
                    | mk res3 r3 =>
                      rw [hc3] at hp3
                      cases res3 with
                      | error er => exact NotIll.of_plain (by simpa using hp3)
                      | ok u => exact ihE e _ _ r3 hcl
              · split
                · split
                  · have hp2 := skipTo_plain tyBYTE 0 true r1
                    cases hd : skipTo tyBYTE 0 true r1 with
                    | mk res2 r2 =>
                      rw [hd] at hp2
                      cases res2 with
                      | error er => exact NotIll.of_plain (by simpa using hp2)
                      | ok b =>
                        simp only
                        have hp3 := readLen_plain r2
                        cases he : readLen r2 with
                        | mk res3 r3 =>
                          rw [he] at hp3
                          cases res3 with
                          | error er => exact NotIll.of_plain (by simpa using hp3)
                          | ok len =>
                            simp only
                            cases hg : readSlice8 (Total.oldBytes old) len r3 with
                            | mk res4 r4 =>
                              have hp4 : PlainRes (res4, r4).1 := by
                                rw [← hg]; exact readSlice8_plain _ _ _
                              cases res4 with
                              | error er => exact NotIll.of_plain (by simpa using hp4)
                              | ok bs => exact NotIll.of_ok
                  · exact NotIll.of_plain (by simp)
                · exact NotIll.of_plain (by simp)
      | arr n e =>
        rw [Total.decVar_arr]
        have hp := skipToNoCheck_nofuel tag req r
        cases hb : skipToNoCheck tag req r with
        | mk res r1 =>
          rw [hb] at hp
          cases res with
          | error er => exact NotIll.of_plain (by simpa using hp)
          | ok p =>
            obtain ⟨hv, tyCur⟩ := p
            simp only
            split
            · exact NotIll.of_ok
            · split
              · have hp2 := readLen_plain r1
                cases hd : readLen r1 with
                | mk res2 r2 =>
                  rw [hd] at hp2
                  cases res2 with
                  | error er => exact NotIll.of_plain (by simpa using hp2)
                  | ok len =>
                    simp only
                    obtain ⟨vs, rfl, hall⟩ := shape_arr_inv hsh
                    split
                    · exact NotIll.of_plain (by simp)
                    · exact ihA e n 0 len vs r2 hcl
                        (fun j _ => shapeAll_getD hall (shape_zeroOf hwf hcl) j)
              · exact NotIll.of_plain (by simp)
      | map k v =>
        rw [Total.decVar_map]
        have hp := skipTo_plain tyMAP tag req r
        cases hb : skipTo tyMAP tag req r with
        | mk res r1 =>
          rw [hb] at hp
          cases res with
          | error er => exact NotIll.of_plain (by simpa using hp)
          | ok hv =>
            simp only
            split
            · exact NotIll.of_ok
            · have hp2 := readLen_plain r1
              cases hd : readLen r1 with
              | mk res2 r2 =>
                rw [hd] at hp2
                cases res2 with
                | error er => exact NotIll.of_plain (by simpa using hp2)
                | ok len =>
                  simp only
                  have hp3 := checkLength_plain len r2
                  cases hc3 : checkLength len r2 with
                  | mk res3 r3 =>
                    rw [hc3] at hp3
                    cases res3 with
                    | error er => exact NotIll.of_plain (by simpa using hp3)
                    | ok u => exact ihP k v len [] r3 hcl.1 hcl.2
      | struct name =>
        rw [Total.decVar_struct]
        obtain ⟨fs, ovs, rfl, hfs, hm⟩ := shape_struct_inv hsh
        simp only [hfs]
        unfold Total.structBody
        have hp := skipTo_plain tyStructBegin tag req r
        cases hb : skipTo tyStructBegin tag req r with
        | mk res r1 =>
          rw [hb] at hp
          cases res with
          | error er => exact NotIll.of_plain (by simpa using hp)
          | ok hv =>
            simp only
            split
            · split
              · exact NotIll.of_plain (by simp)
              · exact NotIll.of_ok
            · have hd1 := hwf.dflt name fs hfs
              have hM := ihM fs (resetDefault env f fs (resetDefault env f fs ovs)) r1
                (hwf.closed name fs hfs)
                (shape_resetDefault hwf f fs _ (hwf.closed name fs hfs) hd1
                  (shape_resetDefault hwf f fs _ (hwf.closed name fs hfs) hd1 hm))
              cases hd : decMembers env f fs (resetDefault env f fs (resetDefault env f fs ovs)) r1 with
              | mk res2 r2 =>
                rw [hd] at hM
                cases res2 with
                | error er => simp only; exact hM.err_cast
                | ok vs =>
                  simp only
                  have hp3 := skipToStructEnd_fuel_plain r2
                  cases he : skipToStructEnd r2.fuel r2 with
                  | mk res3 r3 =>
                    rw [he] at hp3
                    cases res3 with
                    | error er => exact NotIll.of_plain (by simpa using hp3)
                    | ok u => exact NotIll.of_ok
      | bool | i8 | u8 | i16 | u16 | i32 | u32 | i64 | f32 | f64 | str | enum =>
        rw [Total.decVar_atom _ _ _ _ _ _ _ rfl]
        exact NotIll.of_plain ((readScalar_spec _ old tag req r).2.1 (shape_atom_inv rfl hsh))
    · intro e n acc r hcl
      rw [Total.decElems_succ]
      cases n with
      | zero => exact NotIll.of_ok
      | succ n' =>
        simp only
        have hV := ihV 0 true e (zeroOf env e) r hcl (shape_zeroOf hwf hcl)
        cases hb : decVar env f 0 true e (zeroOf env e) r with
        | mk res r1 =>
          rw [hb] at hV
          cases res with
          | error er => exact hV
          | ok v => exact ihE e n' _ r1 hcl
    · intro e n i len cur r hcl hcur
      rw [Total.decArr_succ]
      split
      · exact NotIll.of_ok
      · split
        · exact arrOverflow_notIll e r
        · have hV := ihV 0 true e (cur.getD i (zeroOf env e)) r hcl (hcur i (Nat.le_refl _))
          cases hb : decVar env f 0 true e (cur.getD i (zeroOf env e)) r with
          | mk res r1 =>
            rw [hb] at hV
            cases res with
            | error er => exact hV
            | ok v =>
              refine ihA e n (i+1) len _ r1 hcl ?_
              intro j hj
              rw [getD_listSet_ne _ _ _ _ _ (by omega)]
              exact hcur j (by omega)
    · intro k v len acc r hk hv
      rw [Total.decPairs_succ]
      split
      · exact NotIll.of_ok
      · have hV := ihV 0 true k (zeroOf env k) r hk (shape_zeroOf hwf hk)
        cases hb : decVar env f 0 true k (zeroOf env k) r with
        | mk res r1 =>
          rw [hb] at hV
          cases res with
          | error er => exact hV
          | ok a =>
            simp only
            have hV2 := ihV 1 true v (zeroOf env v) r1 hv (shape_zeroOf hwf hv)
            cases hc : decVar env f 1 true v (zeroOf env v) r1 with
            | mk res2 r2 =>
              rw [hc] at hV2
              cases res2 with
              | error er => exact hV2
              | ok b => exact ihP k v _ _ r2 hk hv
    · intro fs olds r hcl hsh
      rw [Total.decMembers_succ]
      split
      · rename_i fld fs' o os
        cases hsh with
        | cons ho hrest =>
          have hV := ihV fld.tag fld.req fld.ty o r (hcl fld List.mem_cons_self) ho
          cases hb : decVar env f fld.tag fld.req fld.ty o r with
          | mk res r1 =>
            rw [hb] at hV
            cases res with
            | error er => simp only; exact hV.err_cast
            | ok v =>
              simp only
              have hM := ihM fs' os r1 (fun g hg => hcl g (List.mem_cons_of_mem _ hg)) hrest
              cases hc : decMembers env f fs' os r1 with
              | mk res2 r2 =>
                rw [hc] at hM
                cases res2 with
                | error er => exact hM
                | ok vs => exact NotIll.of_ok
      · exact NotIll.of_ok

end Tars
