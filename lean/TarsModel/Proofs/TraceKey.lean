import TarsModel.Model.TraceKey

/-! Helper lemmas for `Props/TraceProps.lean`: `strings.Index` returns a position inside the
    string, so the prefix slice `tid[:pos]` is in range; the clamped type lies in 0..15. -/
namespace Tars.TraceKey
open Tars

theorem indexByte_lt {c : Byte} : ∀ {s : Bytes} {p : Nat}, indexByte c s = some p → p < s.length := by
  intro s
  induction s with
  | nil => intro p h; simp [indexByte] at h
  | cons b bs ih =>
    intro p h
    simp only [indexByte] at h
    split at h
    · simp only [Option.some.injEq] at h; subst h; simp
    · cases hq : indexByte c bs with
      | none => simp [hq] at h
      | some q =>
        simp only [hq, Option.map_some, Option.some.injEq] at h
        subst h
        have := ih hq
        simp; omega

theorem slice_prefix_ok (s : Bytes) {p : Nat} (h : p ≤ s.length) : slice s 0 p = .ok (s.take p) := by
  unfold slice
  rw [if_pos ⟨Nat.zero_le _, h⟩]
  simp

theorem clampType_range (t : Int) : 0 ≤ clampType t ∧ clampType t ≤ 15 := by
  unfold clampType
  simp only [Consts.traceTypeMin, Consts.traceTypeMax]
  split <;> omega

end Tars.TraceKey
