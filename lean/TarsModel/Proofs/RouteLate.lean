/-
  Helper lemmas for C08 / C09: what the receiver-side and peer actions can touch.
-/
import TarsModel.Proofs.RouteInv

set_option linter.unusedVariables false

namespace Tars.Route

/-- the hand-over of a reply: receiver `r` offers the packet to the call whose channel it loaded,
    that call is waiting, and nothing but that call's record and the receiver changes -/
theorem deliver_spec {cfg : Cfg} {s s' : State} {r : Nat} (h : step cfg s (.deliver r) = some s') :
    ∃ (x : Rcv) (i : Nat) (c : Call), s.rcvs[r]? = some x ∧ x.pc = .offer i ∧ s.calls[i]? = some c ∧
      c.pc = .wait ∧
      s' = (s.setCall i { c with pc := .decQ (.reply x.pkt) }).setRcv r { x with pc := .delivered } := by
  simp only [step] at h
  split at h
  · next x hx =>
    split at h
    · next i hpc =>
      split at h
      · next c hc =>
        split at h
        · next hw =>
          injection h with h
          exact ⟨x, i, c, hx, hpc, hc, hw, h.symm⟩
        all_goals contradiction
      · contradiction
    all_goals contradiction
  · contradiction

/-- is `a` an action of a peer or of a `Recv` goroutine other than the hand-over? -/
def Action.isRecvSide : Action → Bool
  | .emit _ _ | .garbage _ | .lookup _ | .giveUp _ => true
  | _ => false

/-- arrival, decoding, table lookup and the receiver's give-up never touch a call, the table or a counter -/
theorem recvSide_frame {cfg : Cfg} {s s' : State} {a : Action} (ha : a.isRecvSide = true)
    (h : step cfg s a = some s') :
    s'.calls = s.calls ∧ s'.table = s.table ∧ s'.queueLens = s.queueLens ∧ s'.invokeNum = s.invokeNum ∧
      s'.gen = s.gen ∧ s'.conns = s.conns := by
  cases a <;> simp [Action.isRecvSide] at ha
  all_goals (
    simp only [step] at h
    repeat' (split at h)
    all_goals (try contradiction)
    all_goals (injection h with h; subst h; simp [State.setRcv]))

/-- a packet whose id is not registered on its adapter (the call has returned and deregistered, or the
    id was invented) is dropped at the lookup -/
theorem lookup_miss {cfg : Cfg} {s s' : State} {r : Nat} {x : Rcv} (hx : s.rcvs[r]? = some x)
    (hm : tLoad s.table x.adp x.pkt.id = none) (h : step cfg s (.lookup r) = some s') :
    ∃ pc, (pc = .dropped ∨ pc = .pushed) ∧ s' = s.setRcv r { x with pc := pc } := by
  simp only [step, hx] at h
  split at h
  · injection h with h
    refine ⟨lookupPc s.table x.adp x.pkt, ?_, h.symm⟩
    unfold lookupPc
    split
    · exact Or.inr rfl
    · split
      · exact Or.inl rfl
      · rw [hm]; exact Or.inl rfl
  · contradiction

end Tars.Route
