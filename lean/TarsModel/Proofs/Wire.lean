import TarsModel.Model.Wire
import TarsModel.Proofs.Bytes

namespace Tars
open Consts

/-- advance the read position -/
def Reader.adv (r : Reader) (n : Nat) : Reader := { r with pos := r.pos + n }

@[simp] theorem Reader.adv_data (r : Reader) (n : Nat) : (r.adv n).data = r.data := rfl
@[simp] theorem Reader.adv_pos (r : Reader) (n : Nat) : (r.adv n).pos = r.pos + n := rfl
@[simp] theorem Reader.adv_zero (r : Reader) : r.adv 0 = r := rfl
@[simp] theorem Reader.adv_adv (r : Reader) (a b : Nat) : (r.adv a).adv b = r.adv (a + b) := by
  simp [Reader.adv, Nat.add_assoc]

theorem Reader.rest_adv (r : Reader) (bs t : Bytes) (h : r.rest = bs ++ t) :
    (r.adv bs.length).rest = t := by
  unfold Reader.rest at *
  simp only [Reader.adv_data, Reader.adv_pos]
  rw [← List.drop_drop, h]
  simp

theorem Reader.rest_adv' (r : Reader) (bs t : Bytes) (n : Nat) (h : r.rest = bs ++ t)
    (hn : bs.length = n) : (r.adv n).rest = t := hn ▸ r.rest_adv bs t h

theorem takeFrom_eq (a : Array Byte) (i n : Nat) : takeFrom a i n = (a.toList.drop i).take n := by
  induction n generalizing i with
  | zero => simp [takeFrom]
  | succ n ih =>
    unfold takeFrom
    by_cases hi : i < a.size
    · have h1 : a[i]? = some a[i] := Array.getElem?_eq_getElem hi
      rw [h1]
      simp only
      rw [ih (i+1)]
      have hl : i < a.toList.length := by simpa using hi
      rw [List.drop_eq_getElem_cons hl]
      simp
    · have h1 : a[i]? = none := Array.getElem?_eq_none (by omega)
      rw [h1]
      have : a.toList.drop i = [] := List.drop_eq_nil_of_le (by simp; omega)
      simp [this]

theorem Reader.pos_lt_of_rest (r : Reader) (b : Byte) (t : Bytes) (h : r.rest = b :: t) :
    r.pos < r.data.size := by
  unfold Reader.rest at h
  by_cases hp : r.pos < r.data.size
  · exact hp
  · rw [List.drop_eq_nil_of_le (by simp; omega)] at h; cases h

theorem readByte_cons (r : Reader) (b : Byte) (t : Bytes) (h : r.rest = b :: t) :
    readByte r = (.ok b, r.adv 1) := by
  have hp := r.pos_lt_of_rest b t h
  unfold Reader.rest at h
  have hb : r.data[r.pos]? = some b := by
    have := List.getElem?_drop (xs := r.data.toList) (i := r.pos) (j := 0)
    rw [h] at this
    simpa using this.symm
  simp [readByte, hb, Reader.adv]

theorem bReadU8_cons (r : Reader) (b : Byte) (t : Bytes) (h : r.rest = b :: t) :
    bReadU8 r = (.ok b.val, r.adv 1) := by
  simp [bReadU8, readByte_cons r b t h]

theorem readFull_full (r : Reader) (bs t : Bytes) (h : r.rest = bs ++ t) (hne : bs ≠ []) :
    readFull bs.length r = (.ok bs, r.adv bs.length) := by
  obtain ⟨b, bs', rfl⟩ := List.exists_cons_of_ne_nil hne
  have hp := r.pos_lt_of_rest b (bs' ++ t) (by simpa using h)
  unfold Reader.rest at h
  unfold readFull
  have h0 : ¬ ((b :: bs').length = 0) := by simp
  have h1 : ¬ (r.pos ≥ r.data.size) := by omega
  simp only [h0, h1, if_false, takeFrom_eq, h]
  simp [Reader.adv]

theorem bReadU_be (r : Reader) (n x : Nat) (t : Bytes) (hn : 0 < n) (h : r.rest = be n x ++ t) :
    bReadU n r = (.ok (x % 256 ^ n), r.adv n) := by
  have hne : be n x ≠ [] := by
    intro h0; have := congrArg List.length h0; simp at this; omega
  have := readFull_full r (be n x) t h hne
  simp only [be_length] at this
  simp [bReadU, this, beVal_be]

/-- reading back a head written by `writeHead` -/
theorem readHead_writeHead (r : Reader) (ty tag : Nat) (t : Bytes) (hty : ty < 16) (htag : tag < 256)
    (h : r.rest = writeHead ty tag ++ t) :
    readHead r = (.ok (ty, tag), r.adv (writeHead ty tag).length) := by
  unfold writeHead at *
  by_cases hlt : tag < extTagThreshold
  · have hlt' : tag < 15 := hlt
    simp only [hlt, if_true] at h ⊢
    have hb := readByte_cons r _ t (by simpa using h)
    simp only [readHead, hb, byte_val]
    have h1 : (tag * 16 + ty) % 256 % 16 = ty := by omega
    have h2 : (tag * 16 + ty) % 256 / 16 = tag := by omega
    simp only [h1, h2]
    have : ¬ tag = extTagRead := by simp only [extTagRead]; omega
    simp [this]
  · simp only [hlt, if_false] at h ⊢
    have hb := readByte_cons r _ (byte tag :: t) (by simpa using h)
    have hr1 : (r.adv 1).rest = byte tag :: t := by
      have := r.rest_adv [byte (extTagMarker * 16 + ty)] (byte tag :: t) (by simpa using h)
      simpa using this
    have hb2 := readByte_cons (r.adv 1) _ t hr1
    simp only [readHead, hb, byte_val]
    have h1 : (extTagMarker * 16 + ty) % 256 % 16 = ty := by simp only [extTagMarker]; omega
    have h2 : (extTagMarker * 16 + ty) % 256 / 16 = extTagRead := by
      simp only [extTagMarker, extTagRead]; omega
    simp only [h1, h2, if_true, hb2, byte_val]
    have : tag % 256 = tag := Nat.mod_eq_of_lt htag
    simp [this]

theorem Reader.fuel_succ (r : Reader) : r.fuel = (2 * r.data.size + 7) + 1 := rfl

/-- `SkipToNoCheck` finds a field that is next in the input -/
theorem skipToNoCheck_hit (r : Reader) (ty tag : Nat) (req : Bool) (t : Bytes)
    (hty : ty < 16) (hne : ty ≠ tyStructEnd) (htag : tag < 256)
    (h : r.rest = writeHead ty tag ++ t) :
    skipToNoCheck tag req r = (.ok (true, ty), r.adv (writeHead ty tag).length) := by
  unfold skipToNoCheck
  rw [Reader.fuel_succ]
  unfold skipToNoCheckF
  simp only [readHead_writeHead r ty tag t hty htag h]
  simp [hne]

theorem writeHead_length_pos (ty tag : Nat) : 0 < (writeHead ty tag).length := by
  unfold writeHead; split <;> simp

end Tars
