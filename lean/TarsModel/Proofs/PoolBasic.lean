/-
  Helper lemmas for the pool model (C19): sums over the worker list under `List.set`,
  the inductive invariant `Inv` and its preservation by every action.
-/
import TarsModel.Model.Pool

namespace Tars.Pool

/-! ### sums over a list -/

def sumBy {α : Type} (f : α → Nat) : List α → Nat
  | [] => 0
  | x :: xs => f x + sumBy f xs

theorem sumBy_set {α : Type} (f : α → Nat) :
    ∀ (l : List α) (i : Nat) (old new : α), l[i]? = some old →
      sumBy f (l.set i new) + f old = sumBy f l + f new
  | [], i, old, new, h => by simp at h
  | x :: xs, 0, old, new, h => by
    simp at h; subst h; simp [sumBy]; omega
  | x :: xs, i + 1, old, new, h => by
    simp at h
    have := sumBy_set f xs i old new h
    simp [sumBy]; omega

theorem sumBy_le_length {α : Type} (f : α → Nat) (hf : ∀ x, f x ≤ 1) :
    ∀ l : List α, sumBy f l ≤ l.length
  | [] => by simp [sumBy]
  | x :: xs => by
    have := sumBy_le_length f hf xs
    have := hf x
    simp [sumBy]; omega

theorem sumBy_replicate {α : Type} (f : α → Nat) (x : α) : ∀ n, sumBy f (List.replicate n x) = n * f x
  | 0 => by simp [sumBy]
  | n + 1 => by
    simp [List.replicate_succ, sumBy, sumBy_replicate f x n, Nat.add_mul]; omega

/-- a positive sum has a positive summand -/
theorem exists_of_sumBy_pos {α : Type} (f : α → Nat) :
    ∀ l : List α, 0 < sumBy f l → ∃ (i : Nat) (x : α), l[i]? = some x ∧ 0 < f x
  | [], h => by simp [sumBy] at h
  | x :: xs, h => by
    by_cases hx : 0 < f x
    · exact ⟨0, x, by simp, hx⟩
    · have : 0 < sumBy f xs := by simp [sumBy] at h; omega
      obtain ⟨i, y, hi, hy⟩ := exists_of_sumBy_pos f xs this
      exact ⟨i + 1, y, by simpa using hi, hy⟩

/-- a 0/1-valued sum below the length leaves an element of value 0 -/
theorem exists_of_sumBy_lt {α : Type} (f : α → Nat) (hf : ∀ x, f x ≤ 1) :
    ∀ l : List α, sumBy f l < l.length → ∃ (i : Nat) (x : α), l[i]? = some x ∧ f x = 0
  | [], h => by simp at h
  | x :: xs, h => by
    by_cases hx : f x = 0
    · exact ⟨0, x, by simp, hx⟩
    · have h1 := hf x
      have : sumBy f xs < xs.length := by simp [sumBy] at h; omega
      obtain ⟨i, y, hi, hy⟩ := exists_of_sumBy_lt f hf xs this
      exact ⟨i + 1, y, by simpa using hi, hy⟩

theorem sumBy_eq_zero {α : Type} (f : α → Nat) :
    ∀ (l : List α), sumBy f l = 0 → ∀ (i : Nat) (x : α), l[i]? = some x → f x = 0
  | [], _, i, x, hx => by simp at hx
  | y :: ys, h, 0, x, hx => by simp at hx; subst hx; simp [sumBy] at h; omega
  | y :: ys, h, i + 1, x, hx => by
    simp at hx
    exact sumBy_eq_zero f ys (by simp [sumBy] at h; omega) i x hx

theorem sumBy_eq_length {α : Type} (f : α → Nat) (hf : ∀ x, f x ≤ 1) :
    ∀ (l : List α), sumBy f l = l.length → ∀ (i : Nat) (x : α), l[i]? = some x → f x = 1
  | [], _, i, x, hx => by simp at hx
  | y :: ys, h, 0, x, hx => by
    simp at hx; subst hx
    have := sumBy_le_length f hf ys
    have := hf y
    simp [sumBy] at h; omega
  | y :: ys, h, i + 1, x, hx => by
    simp at hx
    have := sumBy_le_length f hf ys
    have := hf y
    exact sumBy_eq_length f hf ys (by simp [sumBy] at h; omega) i x hx

theorem count_flatMap_eq_sumBy {α : Type} (f : α → List Job) (j : Job) :
    ∀ l : List α, (l.flatMap f).count j = sumBy (fun x => (f x).count j) l
  | [] => by simp [sumBy]
  | x :: xs => by simp [sumBy, List.count_append, count_flatMap_eq_sumBy f j xs]

/-! ### indicator functions on worker program counters -/

def WPc.isWait : WPc → Nat | .wait => 1 | _ => 0
def WPc.isDead : WPc → Nat | .dead => 1 | _ => 0
def WPc.isAck : WPc → Nat | .stopAck => 1 | _ => 0

theorem WPc.isWait_le (x : WPc) : x.isWait ≤ 1 := by cases x <;> simp [WPc.isWait]
theorem WPc.isDead_le (x : WPc) : x.isDead ≤ 1 := by cases x <;> simp [WPc.isDead]
theorem WPc.isAck_le (x : WPc) : x.isAck ≤ 1 := by cases x <;> simp [WPc.isAck]

/-- occurrences of job `j` inside workers -/
def wcount (j : Job) (ws : List WPc) : Nat := sumBy (fun x => x.jobs.count j) ws
/-- occurrences of job `j` among the running job bodies -/
def rcount (j : Job) (ws : List WPc) : Nat := sumBy (fun x => x.running.count j) ws

theorem workerJobs_count (s : State) (j : Job) : (workerJobs s).count j = wcount j s.ws :=
  count_flatMap_eq_sumBy _ j s.ws

theorem runningJobs_count (s : State) (j : Job) : (runningJobs s).count j = rcount j s.ws :=
  count_flatMap_eq_sumBy _ j s.ws

/-! ### the inductive invariant -/

/-- the worker the dispatcher has taken out of `WorkerQueue` and not yet synchronised with -/
def DPc.picked : DPc → List Wid
  | .give _ w => [w]
  | .stopSend _ w => [w]
  | _ => []

/-- number of workers the stop loop has finished with -/
def DPc.stopIdx (n : Nat) : DPc → Nat
  | .stop i => i
  | .stopSend i _ => i
  | .stopWait i _ => i
  | .done => n
  | _ => 0

def DPc.ackN : DPc → Nat
  | .stopWait _ _ => 1
  | _ => 0

/-- which dispatcher locations go with which `Release` locations -/
def phaseOk (n : Nat) : RPc → DPc → Prop
  | .idle, .sel | .idle, .hold _ | .idle, .give _ _ => True
  | .called, .sel | .called, .hold _ | .called, .give _ _ => True
  | .sent, .stop i => i ≤ n
  | .sent, .stopSend i _ => i < n
  | .sent, .stopWait i _ => i < n
  | .acked, .done => True
  | .returned, .done => True
  | _, _ => False

structure Inv (cfg : Cfg) (s : State) : Prop where
  len : s.ws.length = cfg.n
  qcap : s.jobQ.length ≤ cfg.q
  idleWait : ∀ w ∈ s.d.picked ++ s.idleQ, s.ws[w]? = some .wait
  idleNodup : (s.d.picked ++ s.idleQ).Nodup
  idleCount : (s.d.picked ++ s.idleQ).length = sumBy WPc.isWait s.ws
  phase : phaseOk cfg.n s.rel s.d
  deadCnt : sumBy WPc.isDead s.ws = s.d.stopIdx cfg.n
  ackCnt : sumBy WPc.isAck s.ws = s.d.ackN
  ackW : ∀ i w, s.d = .stopWait i w → s.ws[w]? = some .stopAck
  callFresh : ∀ j ∈ s.calling, j ∉ s.submitted
  retSub : ∀ j ∈ s.retq, j ∈ s.submitted
  subNodup : s.submitted.Nodup
  cons : ∀ j, s.jobQ.count j + s.d.jobs.count j + wcount j s.ws + s.done.count j = s.submitted.count j

theorem inv_init (cfg : Cfg) : Inv cfg (init cfg) := by
  refine ⟨?_, ?_, ?_, ?_, ?_, ?_, ?_, ?_, ?_, ?_, ?_, ?_, ?_⟩ <;>
    simp [init, DPc.picked, phaseOk, DPc.stopIdx, DPc.ackN, DPc.jobs, wcount, sumBy_replicate,
      WPc.isWait, WPc.isDead, WPc.isAck, WPc.jobs]

end Tars.Pool
