/-
  Invariants and lookup characterisation of the REPAIRED ring (`Model/ConHashFix.lean`):
  no collision hypothesis, no universe.
-/
import TarsModel.Proofs.ConHashInv
import TarsModel.Model.ConHashFix

namespace Tars.ConHashFix
open Tars.ConHash

variable {H : Type} [DecidableEq H]

/-! ## order facts -/

omit [DecidableEq H] in
theorem StrictTotal.asymm {hlt : H → H → Bool} (ho : StrictTotal hlt) {a b : H} (h : hlt a b = true) : hlt b a = false := by
  cases hba : hlt b a with
  | false => rfl
  | true => have := ho.trans a b a h hba; rw [ho.irrefl a] at this; cases this

/-! ## `setPointLocked` -/

/-- what one or several `setPointLocked(p, ep)` do to the owner of `p` -/
def settle (hlt : H → H → Bool) (ep : Ep H) : Option (Ep H) → Option (Ep H)
  | none => some ep
  | some o => if hlt o.host ep.host then some o else some ep

omit [DecidableEq H] in
theorem settle_idem {hlt : H → H → Bool} (ho : StrictTotal hlt) (ep : Ep H) (x : Option (Ep H)) :
    settle hlt ep (settle hlt ep x) = settle hlt ep x := by
  cases x with
  | none => simp [settle, ho.irrefl]
  | some o =>
    by_cases h : hlt o.host ep.host = true
    · simp [settle, h]
    · simp [settle, h, ho.irrefl]

omit [DecidableEq H] in
theorem mget_setPoint (hlt : H → H → Bool) (st : List (Nat × Ep H) × Array Nat) (p : Nat) (ep : Ep H) (q : Nat) :
    mget (setPoint hlt st p ep).1 q = if p = q then settle hlt ep (mget st.1 p) else mget st.1 q := by
  unfold setPoint
  cases hm : mget st.1 p with
  | none => simp only [mget_mset, settle]
  | some o =>
    by_cases h : hlt o.host ep.host = true
    · simp only [h, ↓reduceIte, settle]
      by_cases hpq : p = q
      · subst hpq; simp [hm]
      · simp [hpq]
    · simp only [h, Bool.false_eq_true, ↓reduceIte, mget_mset, settle]

omit [DecidableEq H] in
theorem mget_foldl_setPoint {hlt : H → H → Bool} (ho : StrictTotal hlt) (ps : List Nat) (ep : Ep H)
    (st : List (Nat × Ep H) × Array Nat) (q : Nat) :
    mget (ps.foldl (fun st p => setPoint hlt st p ep) st).1 q =
      if q ∈ ps then settle hlt ep (mget st.1 q) else mget st.1 q := by
  induction ps generalizing st with
  | nil => simp
  | cons p ps ih =>
    simp only [List.foldl_cons, ih, mget_setPoint, List.mem_cons]
    by_cases hpq : p = q
    · subst hpq
      by_cases hin : p ∈ ps
      · simp [hin, settle_idem ho]
      · simp [hin]
    · have hqp : ¬ q = p := fun h => hpq h.symm
      simp [hpq, hqp]

omit [DecidableEq H] in
/-- `sortedKeys` keeps exactly the keys of `hashRing` -/
theorem keys_setPoint (hlt : H → H → Bool) (st : List (Nat × Ep H) × Array Nat) (p : Nat) (ep : Ep H)
    (hk : ∀ q, q ∈ st.2.toList ↔ (mget st.1 q).isSome = true) :
    ∀ q, q ∈ (setPoint hlt st p ep).2.toList ↔ (mget (setPoint hlt st p ep).1 q).isSome = true := by
  intro q
  rw [mget_setPoint]
  unfold setPoint
  cases hm : mget st.1 p with
  | none =>
    simp only [Array.toList_push, List.mem_append, List.mem_singleton, settle, hk q]
    by_cases hpq : p = q
    · subst hpq; simp
    · have : ¬ q = p := fun h => hpq h.symm
      simp [hpq, this]
  | some o =>
    have hp : p ∈ st.2.toList := (hk p).2 (by rw [hm]; rfl)
    by_cases h : hlt o.host ep.host = true
    · simp only [h, ↓reduceIte, settle, hk q]
      by_cases hpq : p = q
      · subst hpq; simp [hm]
      · simp [hpq]
    · simp only [h, Bool.false_eq_true, ↓reduceIte, settle, hk q]
      by_cases hpq : p = q
      · subst hpq; simp [hm]
      · simp [hpq]

omit [DecidableEq H] in
theorem keys_foldl_setPoint (hlt : H → H → Bool) (ps : List Nat) (ep : Ep H) (st : List (Nat × Ep H) × Array Nat)
    (hk : ∀ q, q ∈ st.2.toList ↔ (mget st.1 q).isSome = true) :
    ∀ q, q ∈ (ps.foldl (fun st p => setPoint hlt st p ep) st).2.toList ↔
      (mget (ps.foldl (fun st p => setPoint hlt st p ep) st).1 q).isSome = true := by
  induction ps generalizing st with
  | nil => exact hk
  | cons p ps ih => exact ih _ (keys_setPoint hlt st p ep hk)

/-! ## field equations -/

theorem addLocked_some {hlt : H → H → Bool} {pts : H → Nat → List Nat} {r r' : RingF H} {ep : Ep H}
    (h : addLocked hlt pts r ep = some r') :
    ep.host ∉ r.mapValues.map (·.host) ∧ r'.cfg = r.cfg ∧ r'.mapValues = r.mapValues ++ [ep] ∧
    r'.hashRing = ((ptsOf r.cfg pts ep).foldl (fun st p => setPoint hlt st p ep) (r.hashRing, r.sortedKeys)).1 ∧
    r'.sortedKeys = ((ptsOf r.cfg pts ep).foldl (fun st p => setPoint hlt st p ep) (r.hashRing, r.sortedKeys)).2 := by
  unfold addLocked at h
  by_cases hm : ep.host ∈ r.mapValues.map (·.host)
  · simp [hm] at h
  · simp only [hm, ↓reduceIte, Option.some.injEq] at h
    subst h
    exact ⟨hm, rfl, rfl, rfl, rfl⟩

theorem addLocked_none {hlt : H → H → Bool} {pts : H → Nat → List Nat} {r : RingF H} {ep : Ep H} :
    addLocked hlt pts r ep = none ↔ ep.host ∈ r.mapValues.map (·.host) := by
  unfold addLocked
  by_cases hm : ep.host ∈ r.mapValues.map (·.host) <;> simp [hm]

/-! ## invariants -/

/-- `sortedKeys` is sorted and has exactly the keys of `hashRing` (as-found `InvK` on the shared fields) -/
def InvKF (r : RingF H) : Prop := InvK r.toRing

def KeysOKF (r : RingF H) : Prop := ∀ q, q ∈ r.sortedKeys.toList ↔ (mget r.hashRing q).isSome = true

/-- hosts are distinct and `hashRing` is the holder relation of the current set -/
def InvF (hlt : H → H → Bool) (cfg : Cfg) (pts : H → Nat → List Nat) (r : RingF H) : Prop :=
  r.cfg = cfg ∧ (r.mapValues.map (·.host)).Nodup ∧
  ∀ q, match mget r.hashRing q with
    | some o => Wins hlt cfg pts r.mapValues o q
    | none => ∀ e, e ∈ r.mapValues → q ∉ ptsOf cfg pts e

omit [DecidableEq H] in
theorem eq_of_host_eq {S : List (Ep H)} (hnd : (S.map (·.host)).Nodup) {e1 e2 : Ep H}
    (m1 : e1 ∈ S) (m2 : e2 ∈ S) (hh : e1.host = e2.host) : e1 = e2 := by
  induction S with
  | nil => cases m1
  | cons a S ih =>
    simp only [List.map_cons, List.nodup_cons] at hnd
    rcases List.mem_cons.1 m1 with rfl | h1 <;> rcases List.mem_cons.1 m2 with rfl | h2
    · rfl
    · exact absurd (hh ▸ List.mem_map_of_mem h2) hnd.1
    · exact absurd (hh ▸ List.mem_map_of_mem h1) hnd.1
    · exact ih hnd.2 h1 h2

omit [DecidableEq H] in
/-- two holders of one point are the same endpoint -/
theorem Wins.unique {hlt : H → H → Bool} (ho : StrictTotal hlt) {cfg : Cfg} {pts : H → Nat → List Nat} {S : List (Ep H)}
    (hnd : (S.map (·.host)).Nodup) {e1 e2 : Ep H} {p : Nat}
    (h1 : Wins hlt cfg pts S e1 p) (h2 : Wins hlt cfg pts S e2 p) : e1 = e2 := by
  obtain ⟨m1, c1, w1⟩ := h1
  obtain ⟨m2, c2, w2⟩ := h2
  have a := w1 e2 m2 c2
  have b := w2 e1 m1 c1
  have hh : e1.host = e2.host := by
    by_cases heq : e1.host = e2.host
    · exact heq
    · rcases ho.total _ _ heq with h | h
      · rw [h] at b; cases b
      · rw [h] at a; cases a
  exact eq_of_host_eq hnd m1 m2 hh

omit [DecidableEq H] in
theorem own_iff {hlt : H → H → Bool} (ho : StrictTotal hlt) {cfg : Cfg} {pts : H → Nat → List Nat} {r : RingF H}
    (hi : InvF hlt cfg pts r) (q : Nat) (e : Ep H) :
    mget r.hashRing q = some e ↔ Wins hlt cfg pts r.mapValues e q := by
  have h := hi.2.2 q
  constructor
  · intro hm; rw [hm] at h; exact h
  · intro hw
    cases hm : mget r.hashRing q with
    | none => rw [hm] at h; exact absurd hw.2.1 (h e hw.1)
    | some o => rw [hm] at h; rw [Wins.unique ho hi.2.1 h hw]

theorem InvF_addLocked {hlt : H → H → Bool} (ho : StrictTotal hlt) {cfg : Cfg} {pts : H → Nat → List Nat}
    {r r' : RingF H} {ep : Ep H} (hi : InvF hlt cfg pts r) (h : addLocked hlt pts r ep = some r') :
    InvF hlt cfg pts r' := by
  obtain ⟨hnot, hc, hm, hh, _⟩ := addLocked_some h
  obtain ⟨hcfg, hnd, hown⟩ := hi
  refine ⟨hc.trans hcfg, ?_, ?_⟩
  · rw [hm, List.map_append, List.nodup_append]
    refine ⟨hnd, by simp, ?_⟩
    intro a ha b hb
    simp only [List.map_cons, List.map_nil, List.mem_singleton] at hb
    subst hb
    intro heq; subst heq; exact hnot ha
  · intro q
    rw [hh, hm, mget_foldl_setPoint ho, hcfg]
    have hq := hown q
    have hne : ∀ e, e ∈ r.mapValues → e.host ≠ ep.host := by
      intro e he heq
      exact hnot (heq ▸ List.mem_map_of_mem he)
    by_cases hp : q ∈ ptsOf cfg pts ep
    · simp only [hp, ↓reduceIte]
      cases hmq : mget r.hashRing q with
      | none =>
        rw [hmq] at hq
        simp only [settle]
        refine ⟨by simp, hp, ?_⟩
        intro e' he' hc'
        rcases List.mem_append.1 he' with h1 | h1
        · exact absurd hc' (hq e' h1)
        · simp only [List.mem_singleton] at h1; subst h1; exact ho.irrefl _
      | some o =>
        rw [hmq] at hq
        obtain ⟨om, oc, ow⟩ := hq
        by_cases hlt' : hlt o.host ep.host = true
        · simp only [settle, hlt', ↓reduceIte]
          refine ⟨List.mem_append_left _ om, oc, ?_⟩
          intro e' he' hc'
          rcases List.mem_append.1 he' with h1 | h1
          · exact ow e' h1 hc'
          · simp only [List.mem_singleton] at h1; subst h1; exact ho.asymm hlt'
        · simp only [settle, hlt', Bool.false_eq_true, ↓reduceIte]
          have hgt : hlt ep.host o.host = true := by
            rcases ho.total _ _ (hne o om) with h1 | h1
            · exact absurd h1 hlt'
            · exact h1
          refine ⟨by simp, hp, ?_⟩
          intro e' he' hc'
          rcases List.mem_append.1 he' with h1 | h1
          · cases hx : hlt e'.host ep.host with
            | false => rfl
            | true =>
              have := ho.trans _ _ _ hx hgt
              rw [ow e' h1 hc'] at this; cases this
          · simp only [List.mem_singleton] at h1; subst h1; exact ho.irrefl _
    · simp only [hp, ↓reduceIte]
      cases hmq : mget r.hashRing q with
      | none =>
        rw [hmq] at hq
        intro e he
        rcases List.mem_append.1 he with h1 | h1
        · exact hq e h1
        · simp only [List.mem_singleton] at h1; subst h1; exact hp
      | some o =>
        rw [hmq] at hq
        obtain ⟨om, oc, ow⟩ := hq
        refine ⟨List.mem_append_left _ om, oc, ?_⟩
        intro e' he' hc'
        rcases List.mem_append.1 he' with h1 | h1
        · exact ow e' h1 hc'
        · simp only [List.mem_singleton] at h1; subst h1; exact absurd hc' hp

theorem KeysOKF_addLocked {hlt : H → H → Bool} {pts : H → Nat → List Nat} {r r' : RingF H} {ep : Ep H}
    (hk : KeysOKF r) (h : addLocked hlt pts r ep = some r') : KeysOKF r' := by
  obtain ⟨_, _, _, hh, hs⟩ := addLocked_some h
  intro q
  rw [hh, hs]
  exact keys_foldl_setPoint hlt _ ep (r.hashRing, r.sortedKeys) hk q

theorem cfg_refreshBody (hlt : H → H → Bool) (pts : H → Nat → List Nat) (r : RingF H) (ep : Ep H) :
    (refreshBody hlt pts r ep).cfg = r.cfg := by
  unfold refreshBody
  cases h : addLocked hlt pts r ep with
  | none => rfl
  | some r' => exact (addLocked_some h).2.1

theorem loop_spec {hlt : H → H → Bool} (ho : StrictTotal hlt) {cfg : Cfg} {pts : H → Nat → List Nat}
    (eps : List (Ep H)) {r : RingF H} (hi : InvF hlt cfg pts r) (hk : KeysOKF r) :
    InvF hlt cfg pts (eps.foldl (refreshBody hlt pts) r) ∧ KeysOKF (eps.foldl (refreshBody hlt pts) r) ∧
    (eps.foldl (refreshBody hlt pts) r).mapValues =
      eps.foldl (fun s e => if e.host ∈ s.map (·.host) then s else s ++ [e]) r.mapValues := by
  induction eps generalizing r with
  | nil => exact ⟨hi, hk, rfl⟩
  | cons e eps ih =>
    simp only [List.foldl_cons]
    cases ha : addLocked hlt pts r e with
    | none =>
      have hin := addLocked_none.1 ha
      have hb : refreshBody hlt pts r e = r := by unfold refreshBody; rw [ha]
      rw [hb]
      simp only [hin, ↓reduceIte]
      exact ih hi hk
    | some r' =>
      obtain ⟨hnot, _, hm, _, _⟩ := addLocked_some ha
      have hb : refreshBody hlt pts r e = r' := by unfold refreshBody; rw [ha]
      rw [hb]
      simp only [hnot, ↓reduceIte]
      rw [← hm]
      exact ih (InvF_addLocked ho hi ha) (KeysOKF_addLocked hk ha)

/-- `rebuild` (Refresh, and the tail of Remove): all invariants, and the installed set -/
theorem rebuild_spec {hlt : H → H → Bool} (ho : StrictTotal hlt) (pts : H → Nat → List Nat) (r : RingF H) (eps : List (Ep H)) :
    InvF hlt r.cfg pts (rebuild hlt pts r eps) ∧ InvKF (rebuild hlt pts r eps) ∧
    (rebuild hlt pts r eps).mapValues = eps.foldl (fun s e => if e.host ∈ s.map (·.host) then s else s ++ [e]) [] := by
  have h0 : InvF hlt r.cfg pts ({ r with mapValues := [], hashRing := [], sortedKeys := #[] } : RingF H) := by
    refine ⟨rfl, by simp, ?_⟩
    intro q; simp [mget]
  have k0 : KeysOKF ({ r with mapValues := [], hashRing := [], sortedKeys := #[] } : RingF H) := by
    intro q; simp [mget]
  obtain ⟨a, b, c⟩ := loop_spec ho eps h0 k0
  refine ⟨⟨a.1, a.2.1, a.2.2⟩, ?_, c⟩
  have := InvK_sort (r := (eps.foldl (refreshBody hlt pts) { r with mapValues := [], hashRing := [], sortedKeys := #[] }).toRing) b
  exact this

/-- a list with distinct hosts is installed as it is -/
theorem install_nodup (l : List (Ep H)) (s0 : List (Ep H))
    (hnd : ((s0 ++ l).map (·.host)).Nodup) :
    l.foldl (fun s e => if e.host ∈ s.map (·.host) then s else s ++ [e]) s0 = s0 ++ l := by
  induction l generalizing s0 with
  | nil => simp
  | cons e l ih =>
    simp only [List.foldl_cons]
    have hnot : e.host ∉ s0.map (·.host) := by
      intro hin
      rw [List.map_append, List.nodup_append] at hnd
      exact hnd.2.2 _ hin _ (by simp) rfl
    simp only [hnot, ↓reduceIte]
    rw [ih (s0 ++ [e]) (by simpa using hnd)]
    simp

theorem cfg_rebuild (hlt : H → H → Bool) (pts : H → Nat → List Nat) (r : RingF H) (eps : List (Ep H)) :
    (rebuild hlt pts r eps).cfg = r.cfg := by
  have : ∀ (l : List (Ep H)) (x : RingF H), (l.foldl (refreshBody hlt pts) x).cfg = x.cfg := by
    intro l
    induction l with
    | nil => intro x; rfl
    | cons e l ih => intro x; simp only [List.foldl_cons, ih, cfg_refreshBody]
  simp only [rebuild, this]

/-- one call: invariants are kept and `mapValues` follows the specification set -/
theorem step_spec {hlt : H → H → Bool} (ho : StrictTotal hlt) {cfg : Cfg} (pts : H → Nat → List Nat) {r : RingF H}
    (hi : InvF hlt cfg pts r) (hk : InvKF r) (op : Op H) :
    InvF hlt cfg pts (step hlt pts r op) ∧ InvKF (step hlt pts r op) ∧
    (step hlt pts r op).mapValues = epsStep r.mapValues op := by
  have hcfg := hi.1
  cases op with
  | refresh eps =>
    obtain ⟨a, b, c⟩ := rebuild_spec ho pts r eps
    rw [hcfg] at a
    exact ⟨a, b, c⟩
  | add ep =>
    simp only [step, add, epsStep]
    cases ha : addLocked hlt pts r ep with
    | none =>
      have hin := addLocked_none.1 ha
      simp only [Option.getD_none, hin, ↓reduceIte]
      exact ⟨hi, hk, trivial⟩
    | some r' =>
      obtain ⟨hnot, _, hm, _, _⟩ := addLocked_some ha
      have hi' := InvF_addLocked ho hi ha
      have hk' : KeysOKF r' := KeysOKF_addLocked hk.2 ha
      simp only [Option.getD_some, hnot, ↓reduceIte]
      refine ⟨⟨hi'.1, hi'.2.1, hi'.2.2⟩, ?_, hm⟩
      exact InvK_sort (r := r'.toRing) hk'
  | remove ep =>
    simp only [step, remove, epsStep]
    by_cases hin : ep.host ∈ r.mapValues.map (·.host)
    · simp only [hin, ↓reduceIte, Option.getD_some]
      obtain ⟨a, b, c⟩ := rebuild_spec ho pts r (r.mapValues.filter (fun e => e.host ≠ ep.host))
      rw [hcfg] at a
      refine ⟨a, b, ?_⟩
      rw [c]
      have := install_nodup (r.mapValues.filter (fun e => e.host ≠ ep.host)) []
        (by
          simp only [List.nil_append]
          exact List.Nodup.sublist (List.Sublist.map _ List.filter_sublist) hi.2.1)
      simpa using this
    · simp only [hin, ↓reduceIte, Option.getD_none]
      refine ⟨hi, hk, ?_⟩
      symm
      apply List.filter_eq_self.2
      intro a ha
      simp only [ne_eq, decide_not, Bool.not_eq_eq_eq_not, Bool.not_true, decide_eq_false_iff_not]
      intro heq
      exact hin (heq ▸ List.mem_map_of_mem ha)

omit [DecidableEq H] in
theorem inv_new (hlt : H → H → Bool) (ew : Bool) (pts : H → Nat → List Nat) :
    InvF hlt (RingF.new ew : RingF H).cfg pts (RingF.new ew) ∧ InvKF (RingF.new ew : RingF H) := by
  refine ⟨⟨rfl, by simp [RingF.new], ?_⟩, ?_⟩
  · intro q; simp [RingF.new, mget]
  · exact InvK_new ew

theorem run_spec {hlt : H → H → Bool} (ho : StrictTotal hlt) {cfg : Cfg} (pts : H → Nat → List Nat) (ops : List (Op H))
    {r : RingF H} (hi : InvF hlt cfg pts r) (hk : InvKF r) :
    InvF hlt cfg pts (run hlt pts r ops) ∧ InvKF (run hlt pts r ops) ∧
    (run hlt pts r ops).mapValues = epsAfter r.mapValues ops := by
  induction ops generalizing r with
  | nil => exact ⟨hi, hk, rfl⟩
  | cons op ops ih =>
    obtain ⟨a, b, c⟩ := step_spec ho pts hi hk op
    obtain ⟨a', b', c'⟩ := ih a b
    simp only [run, epsAfter, List.foldl_cons] at *
    exact ⟨a', b', by rw [c', c]⟩

/-! ## lookup characterisation -/

omit [DecidableEq H] in
theorem points_iffF {hlt : H → H → Bool} {cfg : Cfg} {pts : H → Nat → List Nat} {r : RingF H}
    (hi : InvF hlt cfg pts r) (hk : InvKF r) (q : Nat) :
    q ∈ r.sortedKeys.toList ↔ IsPointS cfg pts r.mapValues q := by
  have h := hi.2.2 q
  rw [show r.sortedKeys = r.toRing.sortedKeys from rfl, hk.2 q]
  show (mget r.hashRing q).isSome = true ↔ _
  cases hm : mget r.hashRing q with
  | none =>
    rw [hm] at h
    simp only [Option.isSome_none, Bool.false_eq_true, false_iff]
    rintro ⟨e, he, hc⟩; exact h e he hc
  | some o =>
    rw [hm] at h
    simp only [Option.isSome_some, true_iff]
    exact ⟨o, h.1, h.2.1⟩

omit [DecidableEq H] in
theorem findInt32_ownerF {hlt : H → H → Bool} (ho : StrictTotal hlt) {cfg : Cfg} {pts : H → Nat → List Nat} {r : RingF H}
    (hi : InvF hlt cfg pts r) (hk : InvKF r) (k : Nat) (e : Ep H)
    (h : OwnerF hlt cfg pts r.mapValues k e) : findInt32 r k = .ep e := by
  obtain ⟨p, hs, hw⟩ := h
  have hs' : IsSucc (fun q => q ∈ r.toRing.sortedKeys.toList) k p :=
    IsSucc.congr (fun q => (points_iffF hi hk q).symm) hs
  unfold findInt32
  rw [findInt32_of_succ r.toRing hk.1 k p hs']
  show (match mget r.hashRing p with | some e => Found.ep e | none => Found.zeroEp) = _
  rw [(own_iff ho hi p e).2 hw]

omit [DecidableEq H] in
theorem findInt32_noneF {hlt : H → H → Bool} {cfg : Cfg} {pts : H → Nat → List Nat} {r : RingF H}
    (hi : InvF hlt cfg pts r) (hk : InvKF r) (k : Nat)
    (h : ∀ p, ¬ IsPointS cfg pts r.mapValues p) : findInt32 r k = .notFound := by
  unfold findInt32
  apply findInt32_empty
  by_cases h0 : r.toRing.sortedKeys.size = 0
  · exact h0
  · exfalso
    have hlt' : 0 < r.sortedKeys.size := by
      have : r.toRing.sortedKeys = r.sortedKeys := rfl
      rw [this] at h0; omega
    have hmem : r.sortedKeys[0] ∈ r.sortedKeys.toList := by simp [Array.mem_toList_iff]
    exact h _ ((points_iffF hi hk _).1 hmem)

omit [DecidableEq H] in
/-- among the claimants of a point there is one with the least hash key -/
theorem exists_wins {hlt : H → H → Bool} (ho : StrictTotal hlt) (cfg : Cfg) (pts : H → Nat → List Nat)
    (S : List (Ep H)) (p : Nat) (h : IsPointS cfg pts S p) : ∃ e, Wins hlt cfg pts S e p := by
  induction S with
  | nil => obtain ⟨e, he, _⟩ := h; cases he
  | cons a S ih =>
    by_cases hS : IsPointS cfg pts S p
    · obtain ⟨w, wm, wc, ww⟩ := ih hS
      by_cases ha : p ∈ ptsOf cfg pts a
      · by_cases hlt' : hlt a.host w.host = true
        · refine ⟨a, by simp, ha, ?_⟩
          intro e' he' hc'
          rcases List.mem_cons.1 he' with rfl | h1
          · exact ho.irrefl _
          · cases hx : hlt e'.host a.host with
            | false => rfl
            | true =>
              have := ho.trans _ _ _ hx hlt'
              rw [ww e' h1 hc'] at this; cases this
        · refine ⟨w, List.mem_cons_of_mem _ wm, wc, ?_⟩
          intro e' he' hc'
          rcases List.mem_cons.1 he' with rfl | h1
          · simpa using hlt'
          · exact ww e' h1 hc'
      · refine ⟨w, List.mem_cons_of_mem _ wm, wc, ?_⟩
        intro e' he' hc'
        rcases List.mem_cons.1 he' with rfl | h1
        · exact absurd hc' ha
        · exact ww e' h1 hc'
    · obtain ⟨e, he, hc⟩ := h
      rcases List.mem_cons.1 he with rfl | h1
      · refine ⟨e, by simp, hc, ?_⟩
        intro e' he' hc'
        rcases List.mem_cons.1 he' with rfl | h2
        · exact ho.irrefl _
        · exact absurd ⟨e', h2, hc'⟩ hS
      · exact absurd ⟨e, h1, hc⟩ hS

omit [DecidableEq H] in
theorem owner_existsF {hlt : H → H → Bool} (ho : StrictTotal hlt) {cfg : Cfg} {pts : H → Nat → List Nat} {r : RingF H}
    (hi : InvF hlt cfg pts r) (hk : InvKF r) (k : Nat)
    (h : ∃ p, IsPointS cfg pts r.mapValues p) : ∃ e, OwnerF hlt cfg pts r.mapValues k e := by
  obtain ⟨p0, hp0⟩ := h
  have hne : r.sortedKeys.toList ≠ [] := by
    intro hnil
    have := (points_iffF hi hk p0).2 hp0
    simp [hnil] at this
  obtain ⟨p, hp⟩ := exists_succ r.sortedKeys.toList hne k
  have hp' : IsSucc (IsPointS cfg pts r.mapValues) k p := IsSucc.congr (fun q => points_iffF hi hk q) hp
  obtain ⟨e, he⟩ := exists_wins ho cfg pts r.mapValues p hp'.1
  exact ⟨e, p, hp', he⟩

omit [DecidableEq H] in
theorem owner_of_findInt32F {hlt : H → H → Bool} (ho : StrictTotal hlt) {cfg : Cfg} {pts : H → Nat → List Nat} {r : RingF H}
    (hi : InvF hlt cfg pts r) (hk : InvKF r) (k : Nat) (e : Ep H) (h : findInt32 r k = .ep e) :
    OwnerF hlt cfg pts r.mapValues k e := by
  by_cases hp : ∃ p, IsPointS cfg pts r.mapValues p
  · obtain ⟨e', he'⟩ := owner_existsF ho hi hk k hp
    have := findInt32_ownerF ho hi hk k e' he'
    rw [h] at this
    cases this; exact he'
  · have := findInt32_noneF hi hk k (fun p hp' => hp ⟨p, hp'⟩)
    rw [h] at this; cases this

omit [DecidableEq H] in
theorem IsPointS.sameEps {cfg : Cfg} {pts : H → Nat → List Nat} {S1 S2 : List (Ep H)} (hs : SameEps S1 S2) (p : Nat) :
    IsPointS cfg pts S1 p ↔ IsPointS cfg pts S2 p := by
  constructor
  · rintro ⟨e, a, b⟩; exact ⟨e, (hs e).1 a, b⟩
  · rintro ⟨e, a, b⟩; exact ⟨e, (hs e).2 a, b⟩

omit [DecidableEq H] in
theorem OwnerF.sameEps {hlt : H → H → Bool} {cfg : Cfg} {pts : H → Nat → List Nat} {S1 S2 : List (Ep H)} (hs : SameEps S1 S2)
    {k : Nat} {e : Ep H} (h : OwnerF hlt cfg pts S1 k e) : OwnerF hlt cfg pts S2 k e := by
  obtain ⟨p, hsucc, a, b, c⟩ := h
  exact ⟨p, IsSucc.congr (IsPointS.sameEps hs) hsucc, (hs e).1 a, b, fun e' he' => c e' ((hs e').2 he')⟩

omit [DecidableEq H] in
theorem pure_coreF {hlt : H → H → Bool} (ho : StrictTotal hlt) {cfg : Cfg} {pts : H → Nat → List Nat} {r1 r2 : RingF H}
    (hi1 : InvF hlt cfg pts r1) (hk1 : InvKF r1) (hi2 : InvF hlt cfg pts r2) (hk2 : InvKF r2)
    (hs : SameEps r1.mapValues r2.mapValues) (k : Nat) : findInt32 r1 k = findInt32 r2 k := by
  by_cases hp : ∃ p, IsPointS cfg pts r1.mapValues p
  · obtain ⟨e, he⟩ := owner_existsF ho hi1 hk1 k hp
    rw [findInt32_ownerF ho hi1 hk1 k e he, findInt32_ownerF ho hi2 hk2 k e (OwnerF.sameEps hs he)]
  · have h1 : ∀ p, ¬ IsPointS cfg pts r1.mapValues p := fun p h => hp ⟨p, h⟩
    have h2 : ∀ p, ¬ IsPointS cfg pts r2.mapValues p := fun p h => hp ⟨p, (IsPointS.sameEps hs p).2 h⟩
    rw [findInt32_noneF hi1 hk1 k h1, findInt32_noneF hi2 hk2 k h2]

omit [DecidableEq H] in
/-- a smaller set that still contains the holder of `k`'s successor routes `k` alike -/
theorem shrink_coreF {hlt : H → H → Bool} (ho : StrictTotal hlt) {cfg : Cfg} {pts : H → Nat → List Nat} {r r' : RingF H}
    (hi : InvF hlt cfg pts r) (hk : InvKF r) (hi' : InvF hlt cfg pts r') (hk' : InvKF r')
    (hsub : ∀ e, e ∈ r'.mapValues → e ∈ r.mapValues)
    (k : Nat) (e : Ep H) (h : findInt32 r k = .ep e) (hkeep : e ∈ r'.mapValues) :
    findInt32 r' k = .ep e := by
  obtain ⟨p, hs, _, hc, hw⟩ := owner_of_findInt32F ho hi hk k e h
  apply findInt32_ownerF ho hi' hk' k e
  refine ⟨p, IsSucc.mono ?_ hs ⟨e, hkeep, hc⟩, hkeep, hc, fun e' he' => hw e' (hsub e' he')⟩
  rintro q ⟨e', a, b⟩
  exact ⟨e', hsub _ a, b⟩

omit [DecidableEq H] in
/-- a set grown by one endpoint `ep` moves keys only onto `ep` -/
theorem grow_coreF {hlt : H → H → Bool} (ho : StrictTotal hlt) {cfg : Cfg} {pts : H → Nat → List Nat} {r r' : RingF H}
    (hi : InvF hlt cfg pts r) (hk : InvKF r) (hi' : InvF hlt cfg pts r') (hk' : InvKF r')
    (ep : Ep H)
    (hsub : ∀ e, e ∈ r.mapValues → e ∈ r'.mapValues)
    (hnew : ∀ e, e ∈ r'.mapValues → e ∈ r.mapValues ∨ e = ep)
    (k : Nat) : findInt32 r' k = findInt32 r k ∨ findInt32 r' k = .ep ep := by
  by_cases hp : ∃ p, IsPointS cfg pts r'.mapValues p
  · obtain ⟨e, he⟩ := owner_existsF ho hi' hk' k hp
    have hf' := findInt32_ownerF ho hi' hk' k e he
    obtain ⟨p, hs, hm, hc, hw⟩ := he
    rcases hnew _ hm with hold | hhe
    · left
      rw [hf']
      symm
      apply findInt32_ownerF ho hi hk k e
      refine ⟨p, IsSucc.mono ?_ hs ⟨e, hold, hc⟩, hold, hc, fun e' he' => hw e' (hsub e' he')⟩
      rintro q ⟨e', a, b⟩
      exact ⟨e', hsub _ a, b⟩
    · right
      rw [hf', hhe]
  · left
    have h1 : ∀ p, ¬ IsPointS cfg pts r'.mapValues p := fun p h => hp ⟨p, h⟩
    have h2 : ∀ p, ¬ IsPointS cfg pts r.mapValues p := by
      rintro p ⟨e, a, b⟩
      exact hp ⟨p, e, hsub _ a, b⟩
    rw [findInt32_noneF hi' hk' k h1, findInt32_noneF hi hk k h2]

/-! ## Go's string order on bytes is a strict total order -/

theorem bytesLt_irrefl : ∀ a, bytesLt a a = false
  | [] => rfl
  | x :: xs => by simp [bytesLt, bytesLt_irrefl xs]

theorem bytesLt_trans : ∀ a b c, bytesLt a b = true → bytesLt b c = true → bytesLt a c = true
  | [], [], _, h, _ => by simp [bytesLt] at h
  | [], _ :: _, [], _, h => by simp [bytesLt] at h
  | [], _ :: _, _ :: _, _, _ => by simp [bytesLt]
  | _ :: _, [], _, h, _ => by simp [bytesLt] at h
  | _ :: _, _ :: _, [], _, h => by simp [bytesLt] at h
  | x :: xs, y :: ys, z :: zs, h1, h2 => by
    simp only [bytesLt] at h1 h2 ⊢
    by_cases hxy : x < y
    · by_cases hyz : y < z
      · have : x < z := by omega
        simp [this]
      · simp only [hyz, ↓reduceIte] at h2
        by_cases hzy : z < y
        · simp [hzy] at h2
        · have : y = z := by omega
          subst this; simp [hxy]
    · simp only [hxy, ↓reduceIte] at h1
      by_cases hyx : y < x
      · simp [hyx] at h1
      · simp only [hyx, ↓reduceIte] at h1
        have hxy' : x = y := by omega
        subst hxy'
        by_cases hyz : x < z
        · simp [hyz]
        · simp only [hyz, ↓reduceIte] at h2 ⊢
          by_cases hzy : z < x
          · simp [hzy] at h2
          · simp only [hzy, ↓reduceIte] at h2 ⊢
            exact bytesLt_trans xs ys zs h1 h2

theorem bytesLt_total : ∀ a b, a ≠ b → bytesLt a b = true ∨ bytesLt b a = true
  | [], [], h => absurd rfl h
  | [], _ :: _, _ => Or.inl (by simp [bytesLt])
  | _ :: _, [], _ => Or.inr (by simp [bytesLt])
  | x :: xs, y :: ys, h => by
    simp only [bytesLt]
    by_cases hxy : x < y
    · simp [hxy]
    · by_cases hyx : y < x
      · simp [hxy, hyx]
      · have : x = y := by omega
        subst this
        simp only [hxy, ↓reduceIte]
        have hne : xs ≠ ys := by intro heq; subst heq; exact h rfl
        exact bytesLt_total xs ys hne

theorem bytesLt_strictTotal : StrictTotal bytesLt := ⟨bytesLt_irrefl, bytesLt_trans, bytesLt_total⟩

end Tars.ConHashFix
