import TarsModel.Proofs.CallPathRender

/-!
# A value whose encoding is shorter than 2^31 bytes has only small maps

`mapsSmall` (every nested map has fewer than 2^30 entries) is what `skipFieldMap`'s int32
arithmetic needs; it follows from the size of the encoding (every map entry occupies at least two
bytes), hence from the package length limit.
-/
namespace Tars
open Consts

def Small (env : Env) (v : Val) : Prop :=
  ∀ (tag : Nat) (req : Bool) (ty : Ty) (dflt : Option Val), WT env ty v →
    (encVar env tag req ty dflt v).length < 2 ^ 31 → mapsSmall v = true

theorem small_scalar (env : Env) (v : Val) (h : mapsSmall v = true) : Small env v :=
  fun _ _ _ _ _ _ => h

theorem WTs_i8_small (env : Env) : ∀ (vs : List Val), WTs env .i8 vs → mapsSmallL vs = true
  | [], _ => rfl
  | v :: vs, h => by
    simp only [WTs] at h
    have := WTs_i8_small env vs h.2
    cases v <;> simp only [WT, ScalarOK, false_and] at h
    simp [mapsSmallL, mapsSmall, this]

theorem elems_small (env : Env) (e : Ty) : ∀ (vs : List Val), (∀ v ∈ vs, Small env v) →
    WTs env e vs → (encElems env e vs).length < 2 ^ 31 → mapsSmallL vs = true
  | [], _, _, _ => rfl
  | v :: vs, ih, hwt, hl => by
    simp only [WTs] at hwt
    simp only [encElems, List.length_append] at hl
    have h1 := ih v (by simp) 0 true e none hwt.1 (by omega)
    have h2 := elems_small env e vs (fun w hw => ih w (by simp [hw])) hwt.2 (by omega)
    simp [mapsSmallL, h1, h2]

theorem pairs_small (env : Env) (k v : Ty) : ∀ (kvs : List (Val × Val)),
    (∀ p ∈ kvs, Small env p.1 ∧ Small env p.2) → WTp env k v kvs →
    (encPairs env k v kvs).length < 2 ^ 31 →
    mapsSmallP kvs = true ∧ 2 * kvs.length ≤ (encPairs env k v kvs).length
  | [], _, _, _ => ⟨rfl, by simp⟩
  | (a, b) :: rest, ih, hwt, hl => by
    simp only [WTp] at hwt
    simp only [encPairs, List.length_append] at hl ⊢
    have iab := ih (a, b) (by simp)
    simp only at iab
    have ha := iab.1 0 true k none hwt.1 (by omega)
    have hb := iab.2 1 true v none hwt.2.1 (by omega)
    have pa := encVar_req_pos env 0 k none a hwt.1
    have pb := encVar_req_pos env 1 v none b hwt.2.1
    obtain ⟨h1, h2⟩ := pairs_small env k v rest (fun p hp => ih p (by simp [hp])) hwt.2.2 (by omega)
    refine ⟨by simp [mapsSmallP, ha, hb, h1], ?_⟩
    simp only [List.length_cons]; omega

theorem members_small (env : Env) : ∀ (vs : List Val), (∀ v ∈ vs, Small env v) →
    ∀ (fs : List Field), WTm env fs vs → (encMembers env fs vs).length < 2 ^ 31 →
    mapsSmallL vs = true
  | [], _, _, _, _ => rfl
  | v :: vs, ih, fs, hwt, hl => by
    cases fs with
    | nil => simp [WTm] at hwt
    | cons g gs =>
      simp only [WTm] at hwt
      simp only [encMembers, List.length_append] at hl
      have h1 := ih v (by simp) g.tag g.req g.ty g.dflt hwt.1 (by omega)
      have h2 := members_small env vs (fun w hw => ih w (by simp [hw])) gs hwt.2 (by omega)
      simp [mapsSmallL, h1, h2]

theorem small_list (env : Env) (vs : List Val) (ih : ∀ v ∈ vs, Small env v) :
    Small env (.list vs) := by
  intro tag req ty dflt hwt hl
  simp only [mapsSmall]
  have key : ∀ e, WTs env e vs →
      (if (!req && vs.isEmpty) = true then ([] : Bytes)
        else if e = .i8 then
          writeHead tySimpleList tag ++ writeHead tyBYTE 0 ++ writeInt32 (wrapS 32 vs.length) 0
            ++ int8Bytes vs
        else writeHead tyLIST tag ++ writeInt32 (wrapS 32 vs.length) 0 ++ encElems env e vs).length
        < 2 ^ 31 → mapsSmallL vs = true := by
    intro e hw hl
    split at hl
    · rename_i hc
      simp only [Bool.and_eq_true, List.isEmpty_iff] at hc
      rw [hc.2]; rfl
    · split at hl
      · rename_i he; subst he; exact WTs_i8_small env vs hw
      · simp only [List.length_append] at hl
        exact elems_small env e vs ih hw (by omega)
  cases ty <;> simp only [WT] at hwt
  · rename_i e
    rw [encVar] at hl; exact key e hwt.2 hl
  · rename_i n e
    rw [encVar] at hl; exact key e hwt.2.2 hl

theorem small_map (env : Env) (kvs : List (Val × Val))
    (ih : ∀ p ∈ kvs, Small env p.1 ∧ Small env p.2) : Small env (.map kvs) := by
  intro tag req ty dflt hwt hl
  simp only [mapsSmall, Bool.and_eq_true, decide_eq_true_eq]
  cases ty <;> simp only [WT] at hwt
  rename_i k v
  rw [encVar] at hl
  split at hl
  · rename_i hc
    simp only [Bool.and_eq_true, List.isEmpty_iff] at hc
    rw [hc.2]; exact ⟨by decide, rfl⟩
  · simp only [List.length_append] at hl
    obtain ⟨h1, h2⟩ := pairs_small env k v kvs ih hwt.2.2 (by omega)
    exact ⟨by omega, h1⟩

theorem small_struct (env : Env) (vs : List Val) (ih : ∀ v ∈ vs, Small env v) :
    Small env (.struct vs) := by
  intro tag req ty dflt hwt hl
  simp only [mapsSmall]
  cases ty <;> simp only [WT] at hwt
  rename_i name
  rw [encVar] at hl
  cases hfs : env.find name with
  | none => simp [hfs] at hwt
  | some fs =>
    simp only [hfs] at hwt hl
    simp only [List.length_append] at hl
    exact members_small env vs ih fs hwt (by omega)

theorem small_all (env : Env) : ∀ v, Small env v :=
  Val.ind (fun _ => small_scalar env _ rfl) (fun _ => small_scalar env _ rfl)
    (fun _ => small_scalar env _ rfl) (fun _ => small_scalar env _ rfl)
    (fun _ => small_scalar env _ rfl)
    (small_list env) (small_map env) (small_struct env)

/-- the values of a member list whose encoding is shorter than 2^31 bytes have only small maps -/
theorem mapsSmallL_of_length (env : Env) (fs : List Field) (vs : List Val) (hwt : WTm env fs vs)
    (hl : (encMembers env fs vs).length < 2 ^ 31) : mapsSmallL vs = true :=
  members_small env vs (fun v _ => small_all env v) fs hwt hl

end Tars
