import TarsModel.Model.Ref
import TarsModel.Proofs.SchemaFuel

/-!
# Reference decoder, stage 0: arithmetic helpers, the TLV tree of a value (`tlvVar`), heads
-/
namespace Tars
open Consts
namespace Ref

/-! ## helpers -/

theorem beNat_foldl (bs : Bytes) (acc : Nat) :
    bs.foldl (fun a b => a * 256 + b.val) acc = acc * 256 ^ bs.length + beVal bs := by
  induction bs generalizing acc with
  | nil => simp [beVal]
  | cons b bs ih =>
    simp only [List.foldl_cons, ih, beVal, List.length_cons, Nat.pow_succ]
    rw [Nat.add_mul, Nat.mul_assoc, Nat.mul_comm 256]
    omega

theorem beNat_eq (bs : Bytes) : beNat bs = beVal bs := by
  unfold beNat; rw [beNat_foldl]; simp

theorem beNat_be (n x : Nat) : beNat (be n x) = x % 256 ^ n := by
  rw [beNat_eq, beVal_be]

theorem sext_eq_toS (bits u : Nat) (h : u < 2 ^ bits) : sext bits u = toS bits u := by
  unfold sext toS
  simp only [Nat.mod_eq_of_lt h]

theorem takeN_append (bs t : Bytes) : takeN bs.length (bs ++ t) = some (bs, t) := by
  simp [takeN]

theorem takeN_append' (n : Nat) (bs t : Bytes) (h : bs.length = n) :
    takeN n (bs ++ t) = some (bs, t) := h ▸ takeN_append bs t

/-- the reference parser reads back a canonical head -/
theorem parseHead_writeHead (ty tag : Nat) (t : Bytes) (hty : ty < 16) (htag : tag < 256) :
    parseHead (writeHead ty tag ++ t) = some (ty, tag, t) := by
  unfold writeHead
  by_cases hlt : tag < extTagThreshold
  · have hlt' : tag < 15 := hlt
    simp only [hlt, if_true, List.cons_append, List.nil_append, parseHead, byte_val]
    have h1 : (tag * 16 + ty) % 256 % 16 = ty := by omega
    have h2 : (tag * 16 + ty) % 256 / 16 = tag := by omega
    have h3 : ¬ tag = 15 := by omega
    simp [h1, h2, h3]
  · have hge : 15 ≤ tag := by simp only [extTagThreshold] at hlt; omega
    simp only [hlt, if_false, List.cons_append, List.nil_append, parseHead, byte_val]
    have h1 : (extTagMarker * 16 + ty) % 256 % 16 = ty := by simp only [extTagMarker]; omega
    have h2 : (extTagMarker * 16 + ty) % 256 / 16 = 15 := by simp only [extTagMarker]; omega
    have h3 : ¬ tag % 256 < 15 := by omega
    have h4 : tag % 256 = tag := Nat.mod_eq_of_lt htag
    simp [h1, h2, h4]
    omega

/-- the low nibble of the first byte of a head is its type -/
theorem writeHead_first (ty tag : Nat) (hty : ty < 16) :
    ∃ b rest, writeHead ty tag = b :: rest ∧ b.val % 16 = ty := by
  unfold writeHead
  split
  · rename_i h
    have : tag < 15 := h
    exact ⟨_, [], rfl, by simp only [byte_val]; omega⟩
  · exact ⟨_, _, rfl, by simp only [byte_val, extTagMarker]; omega⟩

theorem minWidth_eq (v : Int) : Ref.minWidth v = Tars.minWidth v := by
  unfold Ref.minWidth Tars.minWidth
  by_cases h0 : v = 0
  · rw [if_pos h0, if_pos h0]
  · rw [if_neg h0, if_neg h0]
    by_cases h1 : -128 ≤ v ∧ v ≤ 127
    · have e1 : -(2:Int)^7 ≤ v ∧ v < (2:Int)^7 := by omega
      rw [if_pos h1, if_pos e1]
    · have e1 : ¬ (-(2:Int)^7 ≤ v ∧ v < (2:Int)^7) := by omega
      rw [if_neg h1, if_neg e1]
      by_cases h2 : -32768 ≤ v ∧ v ≤ 32767
      · have e2 : -(2:Int)^15 ≤ v ∧ v < (2:Int)^15 := by omega
        rw [if_pos h2, if_pos e2]
      · have e2 : ¬ (-(2:Int)^15 ≤ v ∧ v < (2:Int)^15) := by omega
        rw [if_neg h2, if_neg e2]
        by_cases h3 : -2147483648 ≤ v ∧ v ≤ 2147483647
        · have e3 : -(2:Int)^31 ≤ v ∧ v < (2:Int)^31 := by omega
          rw [if_pos h3, if_pos e3]
        · have e3 : ¬ (-(2:Int)^31 ≤ v ∧ v < (2:Int)^31) := by omega
          rw [if_neg h3, if_neg e3]

/-! ## the parse tree of a value -/

/-- integer leaf: narrowest width and the matching wire type -/
def intTlv (tag : Nat) (i : Int) : Tlv :=
  Tlv.mk tag (intTy (Tars.minWidth i)) i (Tars.minWidth i) 0 [] []

def tlvScalar (ty : Ty) (v : Val) (tag : Nat) : Tlv :=
  match ty, v with
  | .bool, .bool b => intTlv tag (if b then 1 else 0)
  | .f32, .f32 b => Tlv.mk tag 4 0 0 b [] []
  | .f64, .f64 b => Tlv.mk tag 5 0 0 b [] []
  | .str, .str s => Tlv.mk tag (if s.length > 255 then 7 else 6) 0 0 0 s []
  | _, .int i => intTlv tag i
  | _, _ => default

mutual
/-- the tree the strict parser must produce for the encoding of `v` (when it is present) -/
def tlvVar (env : Env) (tag : Nat) (ty : Ty) : Val → Tlv
  | .list vs =>
    match ty with
    | .vec e | .arr _ e =>
      if e = .i8 then Tlv.mk tag 13 0 0 0 (int8Bytes vs) []
      else Tlv.mk tag 9 0 0 0 [] (tlvElems env e vs)
    | _ => default
  | .map kvs =>
    match ty with
    | .map k v => Tlv.mk tag 8 0 0 0 [] (tlvPairs env k v kvs)
    | _ => default
  | .struct vs =>
    match ty with
    | .struct name =>
      match env.find name with
      | some fs => Tlv.mk tag 10 0 0 0 [] (tlvMembers env fs vs)
      | none => default
    | _ => default
  | v => tlvScalar ty v tag
def tlvElems (env : Env) (e : Ty) : List Val → List Tlv
  | [] => []
  | v :: vs => tlvVar env 0 e v :: tlvElems env e vs
def tlvPairs (env : Env) (k v : Ty) : List (Val × Val) → List Tlv
  | [] => []
  | (a, b) :: rest => tlvVar env 0 k a :: tlvVar env 1 v b :: tlvPairs env k v rest
/-- present members only -/
def tlvMembers (env : Env) : List Field → List Val → List Tlv
  | f :: fs, v :: vs =>
    if encVar env f.tag f.req f.ty f.dflt v = [] then tlvMembers env fs vs
    else tlvVar env f.tag f.ty v :: tlvMembers env fs vs
  | _, _ => []
end

/-! ## integer writers all produce `specInt` -/

theorem writeScalar_int (ty : Ty) (i : Int) (tag : Nat) (h : ScalarOK ty (.int i)) :
    writeScalar ty (.int i) tag = specInt i tag := by
  cases ty <;> simp only [ScalarOK] at h
  all_goals simp only [writeScalar]
  · exact C02_wire_int8 i tag h
  · have := C02_wire_uint8 i.toNat tag (by omega)
    rwa [Int.toNat_of_nonneg h.1] at this
  · exact C02_wire_int16 i tag h
  · have := C02_wire_uint16 i.toNat tag (by omega)
    rwa [Int.toNat_of_nonneg h.1] at this
  · exact C02_wire_int32 i tag h
  · have := C02_wire_uint32 i.toNat tag (by omega)
    rwa [Int.toNat_of_nonneg h.1] at this
  · exact C02_wire_int64 i tag
  · exact C02_wire_int32 i tag h

theorem writeBool_spec (b : Bool) (tag : Nat) :
    writeBool b tag = specInt (if b then 1 else 0) tag := by
  unfold writeBool
  exact C02_wire_int8 _ tag (by cases b <;> simp)

end Ref
end Tars
