import TarsModel.Proofs.EvolveStruct

/-! Fresh targets (Go zero values) and `ResetDefault` at fuel 0 (C04). -/
namespace Tars
namespace Evolve
open Consts

/-- a fresh target: every member holds the Go zero value of its type -/
theorem freshStruct_eq (env : Env) (S : String) (fs : List Field) (h : env.find S = some fs) :
    freshStruct env S = .struct (fs.map fun f => zeroVal env env.length f.ty) := by
  unfold freshStruct zeroOf
  rw [zeroVal.eq_def]
  simp [h]

/-- the Go zero value of a non-struct type has that type -/
theorem targetOk_zeroVal (env : Env) (n : Nat) (ty : Ty) (h : isStructTy ty = false) :
    targetOk env ty (zeroVal env n ty) = true := by
  cases ty <;> first
    | (simp [isStructTy] at h; done)
    | (rw [zeroVal.eq_def]; simp [targetOk, scalarZero])

/-- the value `ResetDefault` assigns to a non-struct member has the member's type -/
theorem targetOk_defaultOf (env : Env) (F : Nat) (f : Field) (hty : isStructTy f.ty = false)
    (hd : ∀ d, f.dflt = some d → targetOk env f.ty d = true) :
    targetOk env f.ty (defaultOf env F f) = true := by
  cases hdf : f.dflt with
  | some d => rw [defaultOf_dflt env F f d hdf]; exact hd d hdf
  | none =>
    cases harr : isArrStructTy f.ty with
    | false => rw [defaultOf_plain env F f hdf harr]; exact targetOk_zeroVal env _ _ hty
    | true =>
      cases hft : f.ty <;> rw [hft] at harr <;> simp [isArrStructTy] at harr
      simp [targetOk]

theorem resetDefault_zero (env : Env) (fs : List Field) (vs : List Val) :
    resetDefault env 0 fs vs = vs := by
  rw [resetDefault.eq_def]

end Evolve
end Tars
