import TarsModel.Model.Filter

/-!
# Filters (C01): pass-through filters see the call once, in registration order, and do not change
  its outcome
-/
namespace Tars.Filter

variable {ε σ α : Type}

/-- a (legacy single) filter passes the call through: it records `b`, calls what it was handed
    exactly once, on the state it found, records `a`, and returns the call's result and state -/
def PassFlt (f : Flt ε σ α) (b a : List ε) : Prop :=
  ∀ (call : Comp ε σ α) (s : σ), f call s = (b ++ (call s).1 ++ a, (call s).2.1, (call s).2.2)

/-- a middleware passes the call through: the same around `next` -/
def PassMw (m : Mw ε σ α) (b a : List ε) : Prop :=
  ∀ (next : Flt ε σ α) (call : Comp ε σ α) (s : σ),
    m next call s = (b ++ (next call s).1 ++ a, (next call s).2.1, (next call s).2.2)

/-- a pre/post filter passes: it records `b`, returns nil, does not invoke, leaves the state -/
def PassSide (nil : α) (f : Flt ε σ α) (b : List ε) : Prop :=
  ∀ (call : Comp ε σ α) (s : σ), f call s = (b, nil, s)

theorem recFlt_pass (b a : List ε) : PassFlt (recFlt b a : Flt ε σ α) b a := by
  intro call s; simp [recFlt]

theorem recMw_pass (b a : List ε) : PassMw (recMw b a : Mw ε σ α) b a := by
  intro next call s; simp [recMw, recFlt]

theorem recSide_pass (nil : α) (b : List ε) : PassSide nil (recSide nil b : Flt ε σ α) b := by
  intro call s; rfl

theorem flatten_singletons {β γ : Type} (f : β → γ) : ∀ (l : List β),
    (l.map fun x => [f x]).flatten = l.map f
  | [] => rfl
  | x :: l => by simp [flatten_singletons f l]

/-! ## the middleware chain -/

/-- the chain built by the right fold over pass-through middlewares is itself a pass-through
    filter: the `before` events in registration order, then the call, then the `after` events in
    reverse registration order -/
theorem foldr_pass : ∀ (ms : List (Mw ε σ α × List ε × List ε)),
    (∀ x ∈ ms, PassMw x.1 x.2.1 x.2.2) →
    PassFlt ((ms.map (·.1)).foldr (fun m cf => m cf) baseFilter)
      (ms.map (·.2.1)).flatten (ms.reverse.map (·.2.2)).flatten
  | [], _ => by intro call s; simp [baseFilter]
  | x :: ms, h => by
    intro call s
    have ih := foldr_pass ms (fun y hy => h y (by simp [hy])) call s
    have hx := h x (by simp)
    simp only [List.map_cons, List.foldr_cons]
    rw [hx, ih]
    simp [List.append_assoc]

theorem getMiddlewareFilter_nil : getMiddlewareFilter ([] : List (Mw ε σ α)) = none := by
  simp [getMiddlewareFilter]

theorem getMiddlewareFilter_cons (m : Mw ε σ α) (ms : List (Mw ε σ α)) :
    getMiddlewareFilter (m :: ms) = some ((m :: ms).foldr (fun m cf => m cf) baseFilter) := by
  simp [getMiddlewareFilter]

/-! ## the pre / post loops -/

theorem runEach_pass (nil : α) : ∀ (fs : List (Flt ε σ α × List ε)),
    (∀ x ∈ fs, PassSide nil x.1 x.2) → ∀ (call : Comp ε σ α) (e0 : α) (s : σ),
    runEach (fs.map (·.1)) call e0 s
      = ((fs.map (·.2)).flatten, (if fs.isEmpty then e0 else nil), s)
  | [], _, call, e0, s => by simp [runEach]
  | x :: fs, h, call, e0, s => by
    have hx := h x (by simp) call s
    have ih := runEach_pass nil fs (fun y hy => h y (by simp [hy])) call nil s
    simp only [List.map_cons, runEach, hx, ih]
    cases fs <;> simp

/-! ## the three shapes of a registration -/

/-- shape 1: a legacy single filter is registered (it wins over everything else) -/
theorem runServer_single (v : Variant) (nil : α) (reg : Reg ε σ α) (f : Flt ε σ α) (b a : List ε)
    (hreg : reg.single = some f) (hf : PassFlt f b a) (call : Comp ε σ α) (s : σ) :
    runServer v nil reg call s = (b ++ (call s).1 ++ a, (call s).2.1, (call s).2.2) := by
  simp only [runServer, hreg]; exact hf call s

/-- shape 2: no single filter, at least one middleware (pre/post filters are then not run) -/
theorem runServer_mws (v : Variant) (nil : α) (reg : Reg ε σ α)
    (ms : List (Mw ε σ α × List ε × List ε)) (hs : reg.single = none)
    (hm : reg.mws = ms.map (·.1)) (hne : ms ≠ []) (hp : ∀ x ∈ ms, PassMw x.1 x.2.1 x.2.2)
    (call : Comp ε σ α) (s : σ) :
    runServer v nil reg call s
      = ((ms.map (·.2.1)).flatten ++ (call s).1 ++ (ms.reverse.map (·.2.2)).flatten,
          (call s).2.1, (call s).2.2) := by
  cases ms with
  | nil => exact absurd rfl hne
  | cons x ms =>
    simp only [runServer, hs, hm, List.map_cons, getMiddlewareFilter_cons]
    exact foldr_pass (x :: ms) hp call s

/-- shape 3: neither: pre filters, the call, post filters; `repaired` -/
theorem runServer_sides_repaired (nil : α) (reg : Reg ε σ α) (pre post : List (Flt ε σ α × List ε))
    (hs : reg.single = none) (hm : reg.mws = []) (hpre : reg.pre = pre.map (·.1))
    (hpost : reg.post = post.map (·.1)) (h1 : ∀ x ∈ pre, PassSide nil x.1 x.2)
    (h2 : ∀ x ∈ post, PassSide nil x.1 x.2) (call : Comp ε σ α) (s : σ) :
    runServer .repaired nil reg call s
      = ((pre.map (·.2)).flatten ++ (call s).1 ++ (post.map (·.2)).flatten,
          (call s).2.1, (call s).2.2) := by
  simp only [runServer, hs, hm, getMiddlewareFilter_nil, hpre, hpost,
    runEach_pass nil pre h1, runEach_pass nil post h2]

/-- shape 3, `asFound`: the outcome is the call's only if no post filter is registered; otherwise
    it is nil, whatever the call returned -/
theorem runServer_sides_asFound (nil : α) (reg : Reg ε σ α) (pre post : List (Flt ε σ α × List ε))
    (hs : reg.single = none) (hm : reg.mws = []) (hpre : reg.pre = pre.map (·.1))
    (hpost : reg.post = post.map (·.1)) (h1 : ∀ x ∈ pre, PassSide nil x.1 x.2)
    (h2 : ∀ x ∈ post, PassSide nil x.1 x.2) (call : Comp ε σ α) (s : σ) :
    runServer .asFound nil reg call s
      = ((pre.map (·.2)).flatten ++ (call s).1 ++ (post.map (·.2)).flatten,
          (if post.isEmpty then (call s).2.1 else nil), (call s).2.2) := by
  simp only [runServer, hs, hm, getMiddlewareFilter_nil, hpre, hpost,
    runEach_pass nil pre h1, runEach_pass nil post h2]

/-- the client composes exactly as the repaired server does -/
theorem runClient_eq_runServer (nil : α) (reg : Reg ε σ α) (call : Comp ε σ α) :
    runClient nil reg call = runServer .repaired nil reg call := by
  funext s
  simp only [runClient, runServer]

/-- with nothing registered the call is made directly -/
theorem runServer_empty (v : Variant) (nil : α) (call : Comp ε σ α) (s : σ) :
    runServer v nil ({} : Reg ε σ α) call s = call s := by
  cases v <;> simp [runServer, getMiddlewareFilter, runEach]

theorem runClient_empty (nil : α) (call : Comp ε σ α) (s : σ) :
    runClient nil ({} : Reg ε σ α) call s = call s := by
  rw [runClient_eq_runServer]; exact runServer_empty _ _ _ _

/-! ## Registration histories -/

theorem after_append (reg : Reg ε σ α) (xs ys : List (RegOp ε σ α)) :
    reg.after (xs ++ ys) = (reg.after xs).after ys := by
  simp [Reg.after, List.foldl_append]

theorem after_fields : ∀ (ops : List (RegOp ε σ α)) (reg : Reg ε σ α),
    (reg.after ops).mws = reg.mws ++ ops.flatMap RegOp.mwsOf ∧
    (reg.after ops).pre = reg.pre ++ ops.flatMap RegOp.preOf ∧
    (reg.after ops).post = reg.post ++ ops.flatMap RegOp.postOf ∧
    (reg.after ops).single = ((reg.single.toList ++ ops.flatMap RegOp.singleOf).getLast?)
  | [], reg => by
    cases h : reg.single <;> simp [Reg.after, h]
  | op :: ops, reg => by
    have ih := after_fields ops (reg.register op)
    have e : reg.after (op :: ops) = (reg.register op).after ops := rfl
    rw [e]
    obtain ⟨h1, h2, h3, h4⟩ := ih
    refine ⟨?_, ?_, ?_, ?_⟩
    · rw [h1]; cases op <;> simp [Reg.register, RegOp.mwsOf]
    · rw [h2]; cases op <;> simp [Reg.register, RegOp.preOf]
    · rw [h3]; cases op <;> simp [Reg.register, RegOp.postOf]
    · rw [h4]
      cases op with
      | single f =>
        cases h : reg.single <;> simp [Reg.register, RegOp.singleOf, List.getLast?_cons_cons]
        all_goals
          cases hl : (List.flatMap RegOp.singleOf ops).getLast? <;> simp [hl]
      | pre f => simp [Reg.register, RegOp.singleOf]
      | post f => simp [Reg.register, RegOp.singleOf]
      | useMw ms => simp [Reg.register, RegOp.singleOf]

theorem getMiddlewareFilter_chain (mws : List (Mw ε σ α)) (h : mws ≠ []) :
    getMiddlewareFilter mws = some (chainOf mws) := by
  cases mws with
  | nil => exact absurd rfl h
  | cons m ms => simp [getMiddlewareFilter, chainOf]

theorem runClient_chain (nil : α) (reg : Reg ε σ α) (call : Comp ε σ α)
    (hs : reg.single = none) (hm : reg.mws ≠ []) : runClient nil reg call = chainOf reg.mws call := by
  funext s
  simp [runClient, hs, getMiddlewareFilter_chain reg.mws hm]

theorem runServer_chain (v : Variant) (nil : α) (reg : Reg ε σ α) (call : Comp ε σ α)
    (hs : reg.single = none) (hm : reg.mws ≠ []) : runServer v nil reg call = chainOf reg.mws call := by
  funext s
  simp [runServer, hs, getMiddlewareFilter_chain reg.mws hm]

end Tars.Filter
