import TarsModel.Proofs.ShortDec
import TarsModel.Proofs.SchemaTop
import TarsModel.Proofs.EvolveFresh

/-!
  C06 helper lemmas: the scalar readers on a field whose payload is cut short.  Shape of every
  scalar encoding (head + payload of the width the head's wire type announces) and failure of the
  generated read whenever fewer payload bytes remain (`readScalar_short`).
-/
namespace Tars
open Consts

/-! ### integers: shape of the writers, failure of the readers on a short payload -/

/-- the integer writers emit a head of a type admissible for the width, then exactly the payload -/
theorem writeInt8_shape (v : Int) (tag : Nat) :
    ∃ hty payload, writeInt8 v tag = writeHead hty tag ++ payload ∧ hty < 16 ∧ hty ≠ tyStructEnd ∧
      intWidth 1 hty = some payload.length := by
  unfold writeInt8
  split
  · exact ⟨tyZeroTag, [], by simp, by decide, by decide, by decide⟩
  · exact ⟨tyBYTE, [byte (toU 8 v)], rfl, by decide, by decide, by simp [intWidth, tyBYTE, tyZeroTag]⟩

theorem intWidth_mono {a b hty w : Nat} (hab : a ≤ b) (h : intWidth a hty = some w) :
    intWidth b hty = some w := by
  unfold intWidth at *
  split at h
  · rename_i h0; rw [if_pos h0]; exact h
  rename_i h0
  split at h
  · rename_i h1; rw [if_neg h0, if_pos h1]; exact h
  rename_i h1
  split at h
  · rename_i h2; simp only [h0, h1, if_false]; rw [if_pos ⟨h2.1, by omega⟩]; exact h
  rename_i h2
  split at h
  · rename_i h3
    have : ¬ (hty = tySHORT ∧ 2 ≤ b) := by intro hh; rw [h3.1] at hh; simp [tyINT, tySHORT] at hh
    simp only [h0, h1, this, if_false]; rw [if_pos ⟨h3.1, by omega⟩]; exact h
  rename_i h3
  split at h
  · rename_i h4
    have n2 : ¬ (hty = tySHORT ∧ 2 ≤ b) := by intro hh; rw [h4.1] at hh; simp [tyLONG, tySHORT] at hh
    have n3 : ¬ (hty = tyINT ∧ 4 ≤ b) := by intro hh; rw [h4.1] at hh; simp [tyLONG, tyINT] at hh
    simp only [h0, h1, n2, n3, if_false]; rw [if_pos ⟨h4.1, by omega⟩]; exact h
  · simp at h

theorem writeInt16_shape (v : Int) (tag : Nat) :
    ∃ hty payload, writeInt16 v tag = writeHead hty tag ++ payload ∧ hty < 16 ∧ hty ≠ tyStructEnd ∧
      intWidth 2 hty = some payload.length := by
  unfold writeInt16
  split
  · obtain ⟨hty, pl, h1, h2, h3, h4⟩ := writeInt8_shape v tag
    exact ⟨hty, pl, h1, h2, h3, intWidth_mono (by omega) h4⟩
  · exact ⟨tySHORT, be 2 (toU 16 v), rfl, by decide, by decide, by simp; decide⟩

theorem writeInt32_shape (v : Int) (tag : Nat) :
    ∃ hty payload, writeInt32 v tag = writeHead hty tag ++ payload ∧ hty < 16 ∧ hty ≠ tyStructEnd ∧
      intWidth 4 hty = some payload.length := by
  unfold writeInt32
  split
  · obtain ⟨hty, pl, h1, h2, h3, h4⟩ := writeInt16_shape v tag
    exact ⟨hty, pl, h1, h2, h3, intWidth_mono (by omega) h4⟩
  · exact ⟨tyINT, be 4 (toU 32 v), rfl, by decide, by decide, by simp; decide⟩

theorem writeInt64_shape (v : Int) (tag : Nat) :
    ∃ hty payload, writeInt64 v tag = writeHead hty tag ++ payload ∧ hty < 16 ∧ hty ≠ tyStructEnd ∧
      intWidth 8 hty = some payload.length := by
  unfold writeInt64
  split
  · obtain ⟨hty, pl, h1, h2, h3, h4⟩ := writeInt32_shape v tag
    exact ⟨hty, pl, h1, h2, h3, intWidth_mono (by omega) h4⟩
  · exact ⟨tyLONG, be 8 (toU 64 v), rfl, by decide, by decide, by simp; decide⟩

theorem Reader.remaining_eq_rest (r : Reader) : r.remaining = r.rest.length := by
  simp [Reader.remaining, Reader.rest]

theorem bReadU_short {n : Nat} {r : Reader} (h : r.remaining < n) : (bReadU n r).1 = .error .eof := by
  unfold bReadU readFull Reader.remaining at *
  have hn : ¬ n = 0 := by omega
  rw [if_neg hn]
  by_cases hp : r.pos ≥ r.data.size
  · simp [hp]
  · have : (takeFrom r.data r.pos n).length < n := by rw [takeFrom_length]; omega
    simp [hp, this]

theorem bReadU8_short {r : Reader} (h : r.remaining < 1) : (bReadU8 r).1 = .error .eof := by
  have : r.data.size ≤ r.pos := by unfold Reader.remaining at h; omega
  simp [bReadU8, readByte_eof_of_ge this]

theorem mapRes_err_fst {α β : Type} (f : α → β) (x : Res α) {e : Err} (h : x.1 = .error e) :
    (mapRes f x).1 = .error e := by
  obtain ⟨res, r⟩ := x
  cases res with
  | error e' =>
    simp only [Except.error.injEq] at h
    simp [mapRes, h]
  | ok a => simp at h

/-- the integer type switch fails on a payload that is shorter than the wire type needs -/
theorem intBody_short {maxw hty w : Nat} {r1 : Reader} (hw : intWidth maxw hty = some w)
    (h : r1.remaining < w) : (intBody maxw hty r1).1 = .error .eof := by
  unfold intWidth at hw
  unfold intBody
  split at hw
  · simp only [Option.some.injEq] at hw; omega
  rename_i h0
  split at hw
  · rename_i h1
    simp only [Option.some.injEq] at hw
    rw [if_neg h0, if_pos h1]
    exact mapRes_err_fst _ _ (bReadU8_short (by omega))
  rename_i h1
  split at hw
  · rename_i h2
    simp only [Option.some.injEq] at hw
    rw [if_neg h0, if_neg h1, if_pos h2]
    exact mapRes_err_fst _ _ (bReadU_short (by omega))
  rename_i h2
  split at hw
  · rename_i h3
    simp only [Option.some.injEq] at hw
    rw [if_neg h0, if_neg h1, if_neg h2, if_pos h3]
    exact mapRes_err_fst _ _ (bReadU_short (by omega))
  rename_i h3
  split at hw
  · rename_i h4
    simp only [Option.some.injEq] at hw
    rw [if_neg h0, if_neg h1, if_neg h2, if_neg h3, if_pos h4]
    exact mapRes_err_fst _ _ (bReadU_short (by omega))
  · simp at hw


theorem writeHead_prefix_inj {a b tag : Nat} {x y : Bytes} (ha : a < 16) (hb : b < 16)
    (h : writeHead a tag ++ x <+: writeHead b tag ++ y) : a = b ∧ x <+: y := by
  unfold writeHead at h
  by_cases ht : tag < extTagThreshold
  · have ht' : tag < 15 := ht
    simp only [ht, if_true, List.cons_append, List.nil_append] at h
    obtain ⟨t, ht2⟩ := h
    simp only [List.cons_append, List.cons.injEq] at ht2
    have := congrArg Fin.val ht2.1
    simp only [byte_val] at this
    exact ⟨by omega, ⟨t, ht2.2⟩⟩
  · simp only [ht, if_false, List.cons_append, List.nil_append] at h
    obtain ⟨t, ht2⟩ := h
    simp only [List.cons_append, List.cons.injEq] at ht2
    have := congrArg Fin.val ht2.1
    simp only [byte_val, extTagMarker] at this
    exact ⟨by omega, ⟨t, ht2.2.2⟩⟩

theorem readWith_err_of_body {α : Type} {old : α} {tag : Nat} {req : Bool} {body : Nat → RM α}
    {r r1 : Reader} {hty : Nat} {e : Err}
    (hs : skipToNoCheck tag req r = (.ok (true, hty), r1)) (hb : (body hty r1).1 = .error e) :
    (readWith old tag req body r).1 = .error e := by
  unfold readWith; rw [hs]; exact hb

theorem nextExact_short {l : Nat} {r : Reader} (hpos : r.pos ≤ r.data.size) (h : r.remaining < l) :
    (nextExact l r).1 = .error .eof := by
  unfold nextExact
  rw [next_spec]
  simp only [Int.toNat_natCast]
  split
  · rfl
  · rename_i hc
    exfalso; apply hc
    rw [takeFrom_length]; unfold Reader.remaining at h; omega

theorem f32_short (old tag : Nat) (req : Bool) {r r1 : Reader}
    (hs : skipToNoCheck tag req r = (.ok (true, tyFLOAT), r1)) (h : r1.remaining < 4) :
    (readFloat32 old tag req r).1 = .error .eof := by
  rw [readFloat32_eq]
  refine readWith_err_of_body hs ?_
  simp only [tyFLOAT, tyZeroTag]
  exact bReadU_short h

theorem f64_short (old tag : Nat) (req : Bool) {r r1 : Reader}
    (hs : skipToNoCheck tag req r = (.ok (true, tyDOUBLE), r1)) (h : r1.remaining < 8) :
    (readFloat64 old tag req r).1 = .error .eof := by
  rw [readFloat64_eq]
  refine readWith_err_of_body hs ?_
  simp only [tyDOUBLE, tyZeroTag, tyFLOAT]
  exact bReadU_short h

theorem str1_short (old s : Bytes) (tag : Nat) (req : Bool) {r r1 : Reader} (hl : s.length ≤ 255)
    (hs : skipToNoCheck tag req r = (.ok (true, tySTRING1), r1))
    (hpre : ∃ pl, r1.rest = pl ∧ pl <+: ([byte s.length] ++ s)) (h : r1.remaining < 1 + s.length) :
    ∃ e, (readString old tag req r).1 = .error e := by
  rw [readString_eq]
  obtain ⟨pl, hr1, hpl⟩ := hpre
  cases hc : bReadU8 r1 with
  | mk res r2 =>
    cases res with
    | error e =>
      refine ⟨e, readWith_err_of_body hs ?_⟩
      simp only [tySTRING1, tySTRING4]
      simp [hc]
    | ok l =>
      refine ⟨.eof, readWith_err_of_body hs ?_⟩
      simp only [tySTRING1, tySTRING4]
      obtain ⟨rfl, hlt, b, hb, hv⟩ := bReadU8_ok hc
      -- the byte read is the announced length
      have hbyte : l = s.length := by
        have h0 : r1.rest[0]? = some b := by
          simp only [Reader.rest, List.getElem?_drop, Nat.add_zero]
          simpa using hb
        rw [hr1] at h0
        have h1 : pl[0]? = ([byte s.length] ++ s)[0]? := by
          obtain ⟨t, ht⟩ := hpl
          rw [← ht]
          cases pl with
          | nil => simp at h0
          | cons x xs => simp
        rw [h1] at h0
        simp only [List.cons_append, List.nil_append, List.getElem?_cons_zero, Option.some.injEq] at h0
        rw [hv, ← h0]; simp; omega
      simp only [hc]
      subst hbyte
      apply nextExact_short
      · show r1.pos + 1 ≤ r1.data.size; omega
      · unfold Reader.remaining at *; simp only; omega

theorem str4_short (old s : Bytes) (tag : Nat) (req : Bool) {r r1 : Reader} (hl : s.length < 2 ^ 32)
    (hs : skipToNoCheck tag req r = (.ok (true, tySTRING4), r1))
    (hpre : ∃ pl, r1.rest = pl ∧ pl <+: (be 4 s.length ++ s)) (h : r1.remaining < 4 + s.length) :
    ∃ e, (readString old tag req r).1 = .error e := by
  rw [readString_eq]
  obtain ⟨pl, hr1, hpl⟩ := hpre
  cases hc : bReadU 4 r1 with
  | mk res r2 =>
    cases res with
    | error e =>
      refine ⟨e, readWith_err_of_body hs ?_⟩
      simp only [tySTRING4]
      simp [hc]
    | ok l =>
      refine ⟨.eof, readWith_err_of_body hs ?_⟩
      simp only [tySTRING4]
      obtain ⟨hle, rfl, hv, hlen4⟩ := bReadU_ok (by decide) hc
      have hbyte : l = s.length := by
        -- the four bytes read are the length prefix
        have htk : takeFrom r1.data r1.pos 4 = r1.rest.take 4 := by rw [takeFrom_eq]; rfl
        have hpl4 : 4 ≤ pl.length := by
          rw [← hr1, ← Reader.remaining_eq_rest]; unfold Reader.remaining; omega
        have : pl.take 4 = be 4 s.length := by
          obtain ⟨t, ht⟩ := hpl
          have := congrArg (List.take 4) ht
          rw [List.take_append_of_le_length hpl4] at this
          rw [this, List.take_append_of_le_length (by simp)]
          exact List.take_of_length_le (by simp)
        rw [hv, htk, hr1, this, beVal_be]
        exact Nat.mod_eq_of_lt (by simpa using hl)
      simp only [hc]
      subst hbyte
      apply nextExact_short
      · show r1.pos + 4 ≤ r1.data.size; omega
      · unfold Reader.remaining at *; simp only; omega

/-- shape of every scalar encoding: a head under the member's tag, then a payload; and the
    generated read fails whenever the payload is cut short -/
theorem readScalar_short (ty : Ty) (v old : Val) (tag : Nat) (req : Bool) (hv : ScalarOK ty v) :
    ∃ hty payload, writeScalar ty v tag = writeHead hty tag ++ payload ∧ hty < 16 ∧
      hty ≠ tyStructEnd ∧
      ∀ (r r1 : Reader), skipToNoCheck tag req r = (.ok (true, hty), r1) →
        r1.rest <+: payload → r1.remaining < payload.length →
        ∃ e, (readScalar ty old tag req r).1 = .error e := by
  have int8 : ∀ x : Int, ∃ hty payload, writeInt8 x tag = writeHead hty tag ++ payload ∧ hty < 16 ∧
      hty ≠ tyStructEnd ∧ ∀ (r r1 : Reader), skipToNoCheck tag req r = (.ok (true, hty), r1) →
        r1.remaining < payload.length → ∀ o, (readInt8 o tag req r).1 = .error .eof := by
    intro x
    obtain ⟨hty, pl, h1, h2, h3, hw⟩ := writeInt8_shape x tag
    exact ⟨hty, pl, h1, h2, h3, fun r r1 hs hsh o => by
      rw [readInt8_body]; exact readWith_err_of_body hs (intBody_short hw hsh)⟩
  have int16 : ∀ x : Int, ∃ hty payload, writeInt16 x tag = writeHead hty tag ++ payload ∧ hty < 16 ∧
      hty ≠ tyStructEnd ∧ ∀ (r r1 : Reader), skipToNoCheck tag req r = (.ok (true, hty), r1) →
        r1.remaining < payload.length → ∀ o, (readInt16 o tag req r).1 = .error .eof := by
    intro x
    obtain ⟨hty, pl, h1, h2, h3, hw⟩ := writeInt16_shape x tag
    exact ⟨hty, pl, h1, h2, h3, fun r r1 hs hsh o => by
      rw [readInt16_body]; exact readWith_err_of_body hs (intBody_short hw hsh)⟩
  have int32 : ∀ x : Int, ∃ hty payload, writeInt32 x tag = writeHead hty tag ++ payload ∧ hty < 16 ∧
      hty ≠ tyStructEnd ∧ ∀ (r r1 : Reader), skipToNoCheck tag req r = (.ok (true, hty), r1) →
        r1.remaining < payload.length → ∀ o, (readInt32 o tag req r).1 = .error .eof := by
    intro x
    obtain ⟨hty, pl, h1, h2, h3, hw⟩ := writeInt32_shape x tag
    exact ⟨hty, pl, h1, h2, h3, fun r r1 hs hsh o => by
      rw [readInt32_body]; exact readWith_err_of_body hs (intBody_short hw hsh)⟩
  have int64 : ∀ x : Int, ∃ hty payload, writeInt64 x tag = writeHead hty tag ++ payload ∧ hty < 16 ∧
      hty ≠ tyStructEnd ∧ ∀ (r r1 : Reader), skipToNoCheck tag req r = (.ok (true, hty), r1) →
        r1.remaining < payload.length → ∀ o, (readInt64 o tag req r).1 = .error .eof := by
    intro x
    obtain ⟨hty, pl, h1, h2, h3, hw⟩ := writeInt64_shape x tag
    exact ⟨hty, pl, h1, h2, h3, fun r r1 hs hsh o => by
      rw [readInt64_body]; exact readWith_err_of_body hs (intBody_short hw hsh)⟩
  cases ty <;> cases v <;> simp only [ScalarOK] at hv
  case bool.bool b =>
    obtain ⟨hty, pl, h1, h2, h3, hk⟩ := int8 (if b then 1 else 0)
    refine ⟨hty, pl, by simpa [writeScalar, writeBool] using h1, h2, h3, fun r r1 hs _ hsh => ?_⟩
    cases old <;> first
      | exact ⟨_, mapRes_err_fst _ _ (mapRes_err_fst _ _ (hk r r1 hs hsh _))⟩
      | exact ⟨_, rfl⟩
  case i8.int i =>
    obtain ⟨hty, pl, h1, h2, h3, hk⟩ := int8 i
    refine ⟨hty, pl, h1, h2, h3, fun r r1 hs _ hsh => ?_⟩
    cases old <;> first
      | exact ⟨_, mapRes_err_fst _ _ (hk r r1 hs hsh _)⟩
      | exact ⟨_, rfl⟩
  case u8.int i =>
    obtain ⟨hty, pl, h1, h2, h3, hk⟩ := int16 (i.toNat : Int)
    refine ⟨hty, pl, h1, h2, h3, fun r r1 hs _ hsh => ?_⟩
    cases old <;> first
      | exact ⟨_, mapRes_err_fst _ _ (mapRes_err_fst _ _ (hk r r1 hs hsh _))⟩
      | exact ⟨_, rfl⟩
  case i16.int i =>
    obtain ⟨hty, pl, h1, h2, h3, hk⟩ := int16 i
    refine ⟨hty, pl, h1, h2, h3, fun r r1 hs _ hsh => ?_⟩
    cases old <;> first
      | exact ⟨_, mapRes_err_fst _ _ (hk r r1 hs hsh _)⟩
      | exact ⟨_, rfl⟩
  case u16.int i =>
    obtain ⟨hty, pl, h1, h2, h3, hk⟩ := int32 (i.toNat : Int)
    refine ⟨hty, pl, h1, h2, h3, fun r r1 hs _ hsh => ?_⟩
    cases old <;> first
      | exact ⟨_, mapRes_err_fst _ _ (mapRes_err_fst _ _ (hk r r1 hs hsh _))⟩
      | exact ⟨_, rfl⟩
  case i32.int i =>
    obtain ⟨hty, pl, h1, h2, h3, hk⟩ := int32 i
    refine ⟨hty, pl, h1, h2, h3, fun r r1 hs _ hsh => ?_⟩
    cases old <;> first
      | exact ⟨_, mapRes_err_fst _ _ (hk r r1 hs hsh _)⟩
      | exact ⟨_, rfl⟩
  case enum.int i =>
    obtain ⟨hty, pl, h1, h2, h3, hk⟩ := int32 i
    refine ⟨hty, pl, h1, h2, h3, fun r r1 hs _ hsh => ?_⟩
    cases old <;> first
      | exact ⟨_, mapRes_err_fst _ _ (hk r r1 hs hsh _)⟩
      | exact ⟨_, rfl⟩
  case u32.int i =>
    obtain ⟨hty, pl, h1, h2, h3, hk⟩ := int64 (i.toNat : Int)
    refine ⟨hty, pl, h1, h2, h3, fun r r1 hs _ hsh => ?_⟩
    cases old <;> first
      | exact ⟨_, mapRes_err_fst _ _ (mapRes_err_fst _ _ (hk r r1 hs hsh _))⟩
      | exact ⟨_, rfl⟩
  case i64.int i =>
    obtain ⟨hty, pl, h1, h2, h3, hk⟩ := int64 i
    refine ⟨hty, pl, h1, h2, h3, fun r r1 hs _ hsh => ?_⟩
    cases old <;> first
      | exact ⟨_, mapRes_err_fst _ _ (hk r r1 hs hsh _)⟩
      | exact ⟨_, rfl⟩
  case f32.f32 b =>
    refine ⟨tyFLOAT, be 4 b, rfl, by decide, by decide, fun r r1 hs _ hsh => ?_⟩
    cases old <;> first
      | exact ⟨_, mapRes_err_fst _ _ (f32_short _ tag req hs (by simpa using hsh))⟩
      | exact ⟨_, rfl⟩
  case f64.f64 b =>
    refine ⟨tyDOUBLE, be 8 b, rfl, by decide, by decide, fun r r1 hs _ hsh => ?_⟩
    cases old <;> first
      | exact ⟨_, mapRes_err_fst _ _ (f64_short _ tag req hs (by simpa using hsh))⟩
      | exact ⟨_, rfl⟩
  case str.str s =>
    by_cases hl : s.length > str1Max
    · refine ⟨tySTRING4, be 4 s.length ++ s, by simp [writeScalar, writeString, hl], by decide,
        by decide, fun r r1 hs hpre hsh => ?_⟩
      cases old <;> first
        | (obtain ⟨e, he⟩ := str4_short _ s tag req hv hs ⟨_, rfl, hpre⟩ (by simpa using hsh)
           exact ⟨e, mapRes_err_fst _ _ he⟩)
        | exact ⟨_, rfl⟩
    · refine ⟨tySTRING1, [byte s.length] ++ s, by simp [writeScalar, writeString, hl], by decide,
        by decide, fun r r1 hs hpre hsh => ?_⟩
      have hl' : s.length ≤ 255 := by simp only [str1Max] at hl; omega
      cases old <;> first
        | (obtain ⟨e, he⟩ := str1_short _ s tag req hl' hs ⟨_, rfl, hpre⟩
             (by simp at hsh; omega)
           exact ⟨e, mapRes_err_fst _ _ he⟩)
        | exact ⟨_, rfl⟩

end Tars
