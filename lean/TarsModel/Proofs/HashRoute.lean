/-
  Helper lemmas for the mod-hash part of C14: the selector's bookkeeping invariant
  (`mapValues` = hosts of `endpoints`, hosts distinct, cache rebuilt after every change) and the
  agreement of `endpoints` with the specification list `listAfter`.
-/
import TarsModel.Model.HashRoute

namespace Tars.HashRoute
open Tars.ConHash (Ep Found Op)

variable {H : Type} [DecidableEq H]

theorem eraseFirstHost_of_not_mem (h : H) (l : List (Ep H)) (hn : h ∉ l.map (·.host)) : eraseFirstHost h l = l := by
  induction l with
  | nil => rfl
  | cons e l ih =>
    simp only [List.map_cons, List.mem_cons, not_or] at hn
    have : ¬ e.host = h := fun x => hn.1 x.symm
    simp [eraseFirstHost, this, ih hn.2]

theorem mem_eraseFirstHost (h : H) (l : List (Ep H)) (hnd : (l.map (·.host)).Nodup) (x : H) :
    x ∈ (eraseFirstHost h l).map (·.host) ↔ (x ∈ l.map (·.host) ∧ x ≠ h) := by
  induction l with
  | nil => simp [eraseFirstHost]
  | cons e l ih =>
    simp only [List.map_cons, List.nodup_cons] at hnd
    by_cases he : e.host = h
    · subst he
      simp only [eraseFirstHost, ↓reduceIte, List.map_cons, List.mem_cons]
      constructor
      · intro hx; exact ⟨Or.inr hx, fun heq => hnd.1 (heq ▸ hx)⟩
      · rintro ⟨hx | hx, hne⟩
        · exact absurd hx hne
        · exact hx
    · simp only [eraseFirstHost, he, ↓reduceIte, List.map_cons, List.mem_cons, ih hnd.2]
      constructor
      · rintro (hx | ⟨hx, hne⟩)
        · exact ⟨Or.inl hx, hx ▸ he⟩
        · exact ⟨Or.inr hx, hne⟩
      · rintro ⟨hx | hx, hne⟩
        · exact Or.inl hx
        · exact Or.inr ⟨hx, hne⟩

theorem nodup_eraseFirstHost (h : H) (l : List (Ep H)) (hnd : (l.map (·.host)).Nodup) :
    ((eraseFirstHost h l).map (·.host)).Nodup := by
  induction l with
  | nil => simp [eraseFirstHost]
  | cons e l ih =>
    simp only [List.map_cons, List.nodup_cons] at hnd
    by_cases he : e.host = h
    · simp only [eraseFirstHost, he, ↓reduceIte]; exact hnd.2
    · simp only [eraseFirstHost, he, ↓reduceIte, List.map_cons, List.nodup_cons]
      refine ⟨?_, ih hnd.2⟩
      intro hmem
      exact hnd.1 ((mem_eraseFirstHost h l hnd.2 _).1 hmem).1

/-- bookkeeping invariant of the mod-hash selector -/
def MInv (build : List (Ep H) → List Nat) (m : ModHash H) : Prop :=
  (∀ h, h ∈ m.mapValues ↔ h ∈ m.endpoints.map (·.host)) ∧ (m.endpoints.map (·.host)).Nodup ∧
  m.cache = (if m.enableWeight then build m.endpoints else [])

omit [DecidableEq H] in
theorem MInv_new (build : List (Ep H) → List Nat) (ew : Bool) (hb : build [] = []) : MInv build (ModHash.new ew : ModHash H) := by
  refine ⟨by intro h; simp [ModHash.new], by simp [ModHash.new], ?_⟩
  cases ew <;> simp [ModHash.new, hb]

/-- membership and distinctness only (holds inside the `Refresh` loop, before the rebuild) -/
def MInv0 (m : ModHash H) : Prop :=
  (∀ h, h ∈ m.mapValues ↔ h ∈ m.endpoints.map (·.host)) ∧ (m.endpoints.map (·.host)).Nodup

theorem addLocked_spec {m : ModHash H} (hi : MInv0 m) (ep : Ep H) :
    (match m.addLocked ep with | some m' => m' | none => m).endpoints =
        (if ep.host ∈ m.endpoints.map (·.host) then m.endpoints else m.endpoints ++ [ep]) ∧
    MInv0 (match m.addLocked ep with | some m' => m' | none => m) ∧
    (match m.addLocked ep with | some m' => m' | none => m).enableWeight = m.enableWeight ∧
    ((m.addLocked ep).isNone ↔ ep.host ∈ m.endpoints.map (·.host)) := by
  unfold ModHash.addLocked
  by_cases hm : ep.host ∈ m.mapValues
  · have hm' := (hi.1 _).1 hm
    simp only [hm, ↓reduceIte, hm']
    exact ⟨by trivial, hi, by trivial, by simp⟩
  · have hm' : ep.host ∉ m.endpoints.map (·.host) := fun x => hm ((hi.1 _).2 x)
    simp only [hm, ↓reduceIte, hm']
    refine ⟨by trivial, ⟨?_, ?_⟩, by trivial, by simp⟩
    · intro h
      simp only [List.mem_append, List.mem_singleton, List.map_append, List.map_cons, List.map_nil, hi.1 h]
    · simp only [List.map_append, List.map_cons, List.map_nil]
      rw [List.nodup_append]
      refine ⟨hi.2, by simp, ?_⟩
      intro a ha b hb
      simp only [List.mem_singleton] at hb
      subst hb
      intro heq; subst heq; exact hm' ha

theorem refresh_loop_spec (eps : List (Ep H)) {m : ModHash H} (hi : MInv0 m) :
    (eps.foldl (fun m ep => match m.addLocked ep with | some m' => m' | none => m) m).endpoints =
        eps.foldl (fun l e => if e.host ∈ l.map (·.host) then l else l ++ [e]) m.endpoints ∧
    MInv0 (eps.foldl (fun m ep => match m.addLocked ep with | some m' => m' | none => m) m) ∧
    (eps.foldl (fun m ep => match m.addLocked ep with | some m' => m' | none => m) m).enableWeight = m.enableWeight := by
  induction eps generalizing m with
  | nil => exact ⟨rfl, hi, rfl⟩
  | cons e eps ih =>
    obtain ⟨h1, h2, h3, _⟩ := addLocked_spec hi e
    obtain ⟨g1, g2, g3⟩ := ih h2
    simp only [List.foldl_cons]
    exact ⟨by rw [g1, h1], g2, by rw [g3, h3]⟩

omit [DecidableEq H] in
theorem MInv_reBuild (build : List (Ep H) → List Nat) {m : ModHash H} (hi : MInv0 m) :
    MInv build (ModHash.reBuildLocked build m) := ⟨hi.1, hi.2, rfl⟩

/-- one selector call: `endpoints` follows the specification list, the invariant is kept and
    `enableWeight` is untouched -/
theorem step_spec (build : List (Ep H) → List Nat) {m : ModHash H} (hi : MInv build m) (op : Op H) :
    (m.step build op).endpoints = listStep m.endpoints op ∧ MInv build (m.step build op) ∧
    (m.step build op).enableWeight = m.enableWeight := by
  cases op with
  | refresh eps =>
    have h0 : MInv0 ({ m with mapValues := [], endpoints := [] } : ModHash H) := ⟨by intro h; simp, by simp⟩
    obtain ⟨g1, g2, g3⟩ := refresh_loop_spec eps h0
    simp only [ModHash.step, ModHash.refresh, listStep]
    exact ⟨g1, MInv_reBuild build g2, g3⟩
  | add ep =>
    obtain ⟨h1, h2, h3, h4⟩ := addLocked_spec ⟨hi.1, hi.2.1⟩ ep
    simp only [ModHash.step, ModHash.add, listStep]
    cases ha : m.addLocked ep with
    | none =>
      have : ep.host ∈ m.endpoints.map (·.host) := h4.1 (by simp [ha])
      simp only [Option.getD_none, this, ↓reduceIte]
      exact ⟨trivial, hi, trivial⟩
    | some m' =>
      simp only [ha] at h1 h2 h3
      simp only [Option.getD_some]
      exact ⟨h1, MInv_reBuild build h2, h3⟩
  | remove ep =>
    simp only [ModHash.step, ModHash.remove, listStep]
    by_cases hm : ep.host ∈ m.mapValues
    · simp only [hm, ↓reduceIte, Option.getD_some]
      refine ⟨rfl, MInv_reBuild build ⟨?_, nodup_eraseFirstHost _ _ hi.2.1⟩, rfl⟩
      intro h
      show h ∈ m.mapValues.filter (fun h => h ≠ ep.host) ↔ h ∈ (eraseFirstHost ep.host m.endpoints).map (·.host)
      rw [mem_eraseFirstHost _ _ hi.2.1]
      simp [List.mem_filter, hi.1 h]
    · simp only [hm, ↓reduceIte, Option.getD_none]
      have : ep.host ∉ m.endpoints.map (·.host) := fun x => hm ((hi.1 _).2 x)
      exact ⟨(eraseFirstHost_of_not_mem _ _ this).symm, hi, trivial⟩

theorem run_spec (build : List (Ep H) → List Nat) (ops : List (Op H)) {m : ModHash H} (hi : MInv build m) :
    (m.run build ops).endpoints = listAfter m.endpoints ops ∧ MInv build (m.run build ops) ∧
    (m.run build ops).enableWeight = m.enableWeight := by
  induction ops generalizing m with
  | nil => exact ⟨rfl, hi, rfl⟩
  | cons op ops ih =>
    obtain ⟨h1, h2, h3⟩ := step_spec build hi op
    obtain ⟨g1, g2, g3⟩ := ih h2
    simp only [ModHash.run, listAfter, List.foldl_cons] at *
    exact ⟨by rw [g1, h1], g2, by rw [g3, h3]⟩

end Tars.HashRoute
