import TarsModel.Proofs.CallPathClient
import TarsModel.Proofs.EvolveReset
import TarsModel.Props.C02

/-!
# D13 at call level: the generated proxy decodes an out parameter into the caller's variable

`void get(out S s)` with `struct S { 0 require int a; 1 optional string b; }`; the server sets
`s = {a: 5, b: ""}`, so `b` (at its default) is not transmitted.  Whatever string the caller's
variable held in `b` before the call is still there afterwards.
-/
namespace Tars.CallPath
open Tars Consts Evolve

namespace StaleEx

def sFields : List Field := [⟨0, true, .i32, none⟩, ⟨1, false, .str, none⟩]
def env : Env := [("S", sFields)]
def sigG : Sig := ⟨[⟨true, .struct "S"⟩], none⟩
def oldStr : Bytes := [byte 111, byte 108, byte 100]
def newS : Val := .struct [.int 5, .str []]
/-- the response buffer of `get` -/
def buf : Bytes := encMembers env (rspFields sigG) [newS]

theorem find_S : env.find "S" = some sFields := by simp [env, Env.find]

theorem buf_eq : buf = writeHead tyStructBegin 1 ++ (writeInt32 5 0 ++ (writeHead tyStructEnd 0 ++ [])) := by
  simp [buf, rspFields, retFields, sigG, outFields, outFieldsFrom, argField, argTag, cpArgTagOffset,
    encMembers, newS, encVar, find_S, sFields, Ty.isScalar, scalarNeDefault, scalarZero, writeScalar]

end StaleEx

open StaleEx in
/-- reading `get`'s response into a variable holding `{a: a0, b: b0}` leaves `b = b0` -/
theorem stale_out (a0 : Int) (b0 : Bytes) (resp : RspPacket) (hb : resp.sBuffer = buf) :
    proxyFinish env sigG [.struct [.int a0, .str b0]] [] resp
      = .returned none ⟨none, [.struct [.int 5, .str b0]], none, none⟩ := by
  have hfuel : argFuel env (Reader.mk0 buf) = 35 + 1 := by rw [buf_eq]; decide
  have hrest : (Reader.mk0 buf).rest = writeHead tyStructBegin 1 ++ (writeInt32 5 0 ++ (writeHead tyStructEnd 0 ++ [])) := by
    rw [← buf_eq]; simp [Reader.mk0, Reader.rest]
  -- ReadBlock: StructBegin at tag 1
  have h1 := skipTo_hit (Reader.mk0 buf) tyStructBegin 1 true _ (by decide) (by decide) (by decide) hrest
  have hr1 := (Reader.mk0 buf).rest_adv _ _ hrest
  -- member a
  have ha := C02_rt_int32 _ 5 0 a0 true _ (by decide) (by decide) hr1
  have hda : decVar env 33 0 true .i32 (.int a0) ((Reader.mk0 buf).adv (writeHead tyStructBegin 1).length)
      = (.ok (.int 5), ((Reader.mk0 buf).adv (writeHead tyStructBegin 1).length).adv (writeInt32 5 0).length) := by
    unfold decVar; simp [readScalar, ha, mapRes]
  have hr2 := Reader.rest_adv _ _ _ hr1
  -- member b: absent
  have hdb := decVar_absent_opt env 31 1 .str (.str b0) _ (by rfl)
    (.inr ⟨tyStructEnd, 0, [], by decide, by decide, .inl rfl, hr2⟩)
  have hm : decMembers env 34 sFields [.int a0, .str b0] ((Reader.mk0 buf).adv (writeHead tyStructBegin 1).length)
      = (.ok [.int 5, .str b0], ((Reader.mk0 buf).adv (writeHead tyStructBegin 1).length).adv (writeInt32 5 0).length) := by
    rw [sFields, decMembers_cons_ok _ 33 ⟨0, true, .i32, none⟩ _ _ _ _ _ _ hda,
      decMembers_cons_ok _ 32 ⟨1, false, .str, none⟩ _ _ _ _ _ _ hdb, Evolve.decMembers_nil]
    simp [Except.map, absentVal]
  have hend := skipToStructEnd_end _ [] hr2
  have hdv : decVar env 35 1 true (.struct "S") (.struct [.int a0, .str b0]) (Reader.mk0 buf)
      = (.ok (.struct [.int 5, .str b0]),
          (((Reader.mk0 buf).adv (writeHead tyStructBegin 1).length).adv (writeInt32 5 0).length).adv
            (writeHead tyStructEnd 0).length) := by
    rw [decVar_struct env 34 1 true "S" sFields _ _ find_S, h1]
    simp only [Bool.not_true, Bool.false_eq_true, if_false]
    have hreset : resetDefault env 34 sFields (resetDefault env 34 sFields [.int a0, .str b0])
        = [.int a0, .str b0] := by
      simp [sFields, Evolve.resetDefault_cons, resetDefault_nil_left, resetMember]
    rw [hreset, hm]
    simp only [hend]
  unfold proxyFinish
  simp only [hb, hfuel]
  have hfs : rspFields sigG = [⟨1, true, .struct "S", none⟩] := by
    simp [rspFields, retFields, sigG, outFields, outFieldsFrom, argField, argTag, cpArgTagOffset]
  have hol : (sigG.ret.map (zeroOf env)).toList ++ outVals sigG.params [Val.struct [.int a0, .str b0]]
      = [.struct [.int a0, .str b0]] := by simp [sigG, outVals]
  rw [hfs, hol, decMembers_cons_ok _ 35 ⟨1, true, .struct "S", none⟩ _ _ _ _ _ _ hdv,
    Evolve.decMembers_nil]
  simp [Except.map, sigG, copyBackAll, optsMaps]

open StaleEx in
theorem stale_out_reused (resp : RspPacket) (hb : resp.sBuffer = buf) :
    proxyFinish env sigG [.struct [.int 1, .str oldStr]] [] resp
      = .returned none ⟨none, [.struct [.int 5, .str oldStr]], none, none⟩ := stale_out 1 oldStr resp hb

open StaleEx in
theorem stale_out_fresh (resp : RspPacket) (hb : resp.sBuffer = buf) :
    proxyFinish env sigG [.struct [.int 0, .str []]] [] resp
      = .returned none ⟨none, [.struct [.int 5, .str []]], none, none⟩ := stale_out 0 [] resp hb

end Tars.CallPath
