import TarsModel.Proofs.EvolveReset
import TarsModel.Props.C02

/-! Instances of `Slot.SelfDelimiting`, unknown fields inside a nested struct (`ReadBlock`) and at
    the level of `ReadFrom` (C04). -/
namespace Tars
namespace Evolve
open Consts WFField Skip

/-- an absent member (no bytes) of a non-struct type is self-delimiting: optional ⇒ the target's
    value stays, required ⇒ error -/
theorem selfDelimiting_absent (env : Env) (s : Slot) (henc : s.enc = [])
    (hty : isStructTy s.f.ty = false) (hok : targetOk env s.f.ty s.old = true) :
    s.SelfDelimiting env 1 := by
  intro fuel fuel' hf hf' r r' t t' h h' haft haft'
  obtain ⟨F, rfl⟩ := exists_succ_of_pos (n := fuel) (by omega)
  obtain ⟨F', rfl⟩ := exists_succ_of_pos (n := fuel') (by omega)
  rw [henc, List.nil_append] at h h'
  rw [← h] at haft
  rw [← h'] at haft'
  cases hreq : s.f.req with
  | false =>
    rw [decVar_absent_opt env F _ _ _ r hok haft, decVar_absent_opt env F' _ _ _ r' hok haft']
    simp only [absentVal_plain env _ _ _ hty]
    exact ⟨trivial, fun _ _ => ⟨h, h'⟩⟩
  | true =>
    have h1 := decVar_missing_req env F _ _ _ r hok haft
    have h2 := decVar_missing_req env F' _ _ _ r' hok haft'
    rw [h1, h2]
    exact ⟨rfl, fun _ hv => by cases hv⟩

/-- a present `int` member written by `WriteInt32` is self-delimiting (from the C02 round trip) -/
theorem selfDelimiting_i32 (env : Env) (s : Slot) (v o : Int) (hty : s.f.ty = .i32)
    (hold : s.old = .int o) (htag : s.f.tag < 256) (hv : -(2:Int)^31 ≤ v ∧ v < (2:Int)^31)
    (henc : s.enc = writeInt32 v s.f.tag) : s.SelfDelimiting env 1 := by
  intro fuel fuel' hf hf' r r' t t' h h' _ _
  obtain ⟨F, rfl⟩ := exists_succ_of_pos (n := fuel) (by omega)
  obtain ⟨F', rfl⟩ := exists_succ_of_pos (n := fuel') (by omega)
  rw [henc] at h h'
  have e1 : decVar env (F+1) s.f.tag s.f.req s.f.ty s.old r
      = (.ok (.int v), r.adv (writeInt32 v s.f.tag).length) := by
    rw [hty, hold]; unfold decVar
    simp [readScalar, C02_rt_int32 r v s.f.tag o s.f.req t htag hv h, mapRes]
  have e2 : decVar env (F'+1) s.f.tag s.f.req s.f.ty s.old r'
      = (.ok (.int v), r'.adv (writeInt32 v s.f.tag).length) := by
    rw [hty, hold]; unfold decVar
    simp [readScalar, C02_rt_int32 r' v s.f.tag o s.f.req t' htag hv h', mapRes]
  rw [e1, e2]
  exact ⟨rfl, fun _ _ => ⟨r.rest_adv _ _ h, r'.rest_adv _ _ h'⟩⟩

theorem merged_tail (items : List (List WFField × Slot)) (tail : List WFField) :
    merged items tail = merged items [] ++ renderList tail := by
  induction items with
  | nil => simp [merged, renderList]
  | cons p rest ih =>
    obtain ⟨xs, s⟩ := p
    simp only [merged, List.append_assoc]
    rw [ih]

theorem admissible_tail (items : List (List WFField × Slot)) (tail : List WFField) (lo : Nat)
    (h : Admissible lo items tail) : ∀ x ∈ tail, x.wf = true := by
  induction items generalizing lo with
  | nil => exact fun x hx => (h x hx).1
  | cons p rest ih => exact ih _ h.2.2.2

theorem wfMembers_of (xs : List WFField) (h : ∀ x ∈ xs, x.wf = true) : wfMembers xs = true := by
  induction xs with
  | nil => simp [wfMembers]
  | cons x xs ih =>
    simp only [wfMembers, Bool.and_eq_true]
    exact ⟨h x (by simp), ih (fun y hy => h y (by simp [hy]))⟩

/-- `SkipToStructEnd` with the model's default fuel consumes trailing unknown members and the
    StructEnd exactly -/
theorem skipToStructEnd_tail (tail : List WFField) (hw : ∀ x ∈ tail, x.wf = true) (r : Reader)
    (t : Bytes) (h : r.rest = renderList tail ++ writeHead tyStructEnd 0 ++ t) :
    ∃ r2, skipToStructEnd r.fuel r = (.ok (), r2) ∧ r2.rest = t := by
  have hfuel : costList tail + 1 ≤ r.fuel := by
    have h1 := costList_le tail
    have h2 := rest_length_le r
    rw [h] at h2
    simp only [List.length_append] at h2
    unfold Reader.fuel; omega
  refine ⟨_, skipStruct_exact tail (wfMembers_of tail hw) r.fuel hfuel r t h, ?_⟩
  have := r.rest_adv (renderList tail ++ writeHead tyStructEnd 0) t h
  simpa using this

/-- **unknown fields inside a nested struct** (`ReadBlock`): same outcome as without them, and on
    success both readers have consumed their block exactly -/
theorem decVar_block_unknown_ignored (env : Env) (N : Nat) (name : String) (fs : List Field)
    (ovs : List Val) (items : List (List WFField × Slot)) (tail : List WFField)
    (tag : Nat) (req : Bool) (F : Nat)
    (hfind : env.find name = some fs) (hfs : fieldsOf items = fs)
    (holds : oldsOf items = resetDefault env F fs (resetDefault env F fs ovs))
    (hadm : Admissible 0 items tail) (hsl : ∀ p ∈ items, p.2.HeadOk ∧ p.2.SelfDelimiting env N)
    (htag : tag < 256) (hF : N + items.length < F) (r r' : Reader) (t t' : Bytes)
    (h : r.rest = writeHead tyStructBegin tag ++ merged items tail ++ writeHead tyStructEnd 0 ++ t)
    (h' : r'.rest = writeHead tyStructBegin tag ++ merged (strip items) [] ++ writeHead tyStructEnd 0 ++ t') :
    (decVar env (F+1) tag req (.struct name) (.struct ovs) r).1
      = (decVar env (F+1) tag req (.struct name) (.struct ovs) r').1 ∧
    ∀ v, (decVar env (F+1) tag req (.struct name) (.struct ovs) r).1 = .ok v →
      (decVar env (F+1) tag req (.struct name) (.struct ovs) r).2.rest = t ∧
      (decVar env (F+1) tag req (.struct name) (.struct ovs) r').2.rest = t' := by
  have h0 : r.rest = writeHead tyStructBegin tag ++ (merged items tail ++ (writeHead tyStructEnd 0 ++ t)) := by
    simpa using h
  have h0' : r'.rest = writeHead tyStructBegin tag ++ (merged (strip items) [] ++ (writeHead tyStructEnd 0 ++ t')) := by
    simpa using h'
  have hs := skipToNoCheck_hit r tyStructBegin tag req _ (by decide) (by decide) htag h0
  have hs' := skipToNoCheck_hit r' tyStructBegin tag req _ (by decide) (by decide) htag h0'
  have hr1 := r.rest_adv _ _ h0
  have hr1' := r'.rest_adv _ _ h0'
  obtain ⟨hA, hB⟩ := decMembers_unknown_ignored env N items tail 0 hadm hsl
    (writeHead tyStructEnd 0 ++ t) (writeHead tyStructEnd 0 ++ t') (.inr ⟨0, t, by decide, rfl⟩) (.inr ⟨0, t', by decide, rfl⟩)
    F F hF hF _ _ hr1 hr1'
  rw [hfs, holds] at hA hB
  unfold decVar
  simp only [hfind, skipTo, hs, hs']
  simp only [ne_eq, not_true_eq_false, and_false, if_false, Bool.not_true,
    Bool.false_eq_true]
  rcases hm : decMembers env F fs (resetDefault env F fs (resetDefault env F fs ovs))
      (r.adv (writeHead tyStructBegin tag).length) with ⟨e | vs, r2⟩
  · rw [hm] at hA
    rcases hm' : decMembers env F fs (resetDefault env F fs (resetDefault env F fs ovs))
        (r'.adv (writeHead tyStructBegin tag).length) with ⟨e' | vs', r2'⟩
    · rw [hm'] at hA; simp only [Except.error.injEq] at hA; subst hA
      exact ⟨rfl, fun _ hv => by cases hv⟩
    · rw [hm'] at hA; cases hA
  · rw [hm] at hA hB
    rcases hm' : decMembers env F fs (resetDefault env F fs (resetDefault env F fs ovs))
        (r'.adv (writeHead tyStructBegin tag).length) with ⟨e' | vs', r2'⟩
    · rw [hm'] at hA; cases hA
    · rw [hm'] at hA hB; simp only [Except.ok.injEq] at hA; subst hA
      obtain ⟨hb1, hb2⟩ := hB vs rfl
      simp only at hb1 hb2
      obtain ⟨r3, hk, hk2⟩ := skipToStructEnd_tail tail (admissible_tail items tail 0 hadm) r2 t
        (by simpa using hb1)
      obtain ⟨r3', hk', hk2'⟩ := skipToStructEnd_tail [] (fun _ hx => by cases hx) r2' t'
        (by simpa [renderList] using hb2)
      simp only [hk, hk']
      exact ⟨trivial, fun _ _ => ⟨hk2, hk2'⟩⟩

/-- **unknown fields at the level of `ReadFrom`**: same outcome (value or error) as without them.
    The two runs use different fuel (the model's `decFuel` grows with the input); `hstable` says
    the fuel is large enough for `ResetDefault` not to be cut short in either run (a model
    artefact; it holds as soon as the fuel exceeds the nesting depth of the schema). -/
theorem decStruct_unknown_ignored (env : Env) (N : Nat) (S : String) (fs : List Field)
    (ovs : List Val) (items : List (List WFField × Slot)) (tail : List WFField)
    (r r' : Reader) (t t' : Bytes)
    (hfind : env.find S = some fs) (hfs : fieldsOf items = fs)
    (holds : oldsOf items = resetDefault env (decFuel env r) fs ovs)
    (hstable : resetDefault env (decFuel env r') fs ovs = resetDefault env (decFuel env r) fs ovs)
    (hadm : Admissible 0 items tail) (hsl : ∀ p ∈ items, p.2.HeadOk ∧ p.2.SelfDelimiting env N)
    (hF : N + items.length < decFuel env r) (hF' : N + items.length < decFuel env r')
    (ht : Terminated t) (ht' : Terminated t')
    (h : r.rest = merged items tail ++ t) (h' : r'.rest = merged (strip items) [] ++ t') :
    (decStruct env S (.struct ovs) r).1 = (decStruct env S (.struct ovs) r').1 := by
  obtain ⟨hA, _⟩ := decMembers_unknown_ignored env N items tail 0 hadm hsl t t' ht ht'
    (decFuel env r) (decFuel env r') hF hF' r r' h h'
  rw [hfs, holds] at hA
  unfold decStruct
  simp only [hfind, hstable]
  rcases hm : decMembers env (decFuel env r) fs (resetDefault env (decFuel env r) fs ovs) r
    with ⟨e | vs, r2⟩ <;>
  rcases hm' : decMembers env (decFuel env r') fs (resetDefault env (decFuel env r) fs ovs) r'
    with ⟨e' | vs', r2'⟩ <;> rw [hm, hm'] at hA <;> simp_all

end Evolve
end Tars
