import TarsModel.Proofs.CallPathSpec
import TarsModel.Proofs.CallPathDec
import TarsModel.Proofs.CallPathSmall

/-!
# The server half of a call: from the request frame to the response frame
-/
namespace Tars.CallPath
open Tars Consts Filter

/-! ## sizes: a buffer is shorter than the frame that carries it -/

theorem encVar_bufVal_length (env : Env) (tag : Nat) (bs : Bytes) :
    bs.length ≤ (encVar env tag true (.vec .i8) none (bufVal bs)).length := by
  rw [bufVal, encVar]
  simp only [Bool.not_true, Bool.false_and, Bool.false_eq_true, if_false, if_true,
    List.length_append, int8Bytes_bytesToVals]
  omega

theorem reqBuffer_le_body (p : ReqPacket) :
    p.sBuffer.length ≤ (encStruct packetEnv reqPacketName p.toVal).length := by
  have h := encVar_bufVal_length packetEnv cpReqTagSBuffer p.sBuffer
  simp only [encStruct, find_req, ReqPacket.toVal, reqPacketFields, encMembers, List.length_append,
    cpReqReqSBuffer, decide_true] at h ⊢
  omega

theorem rspBuffer_le_body (p : RspPacket) :
    p.sBuffer.length ≤ (encStruct packetEnv rspPacketName p.toVal).length := by
  have h := encVar_bufVal_length packetEnv cpRspTagSBuffer p.sBuffer
  simp only [encStruct, find_rsp, RspPacket.toVal, rspPacketFields, encMembers, List.length_append,
    cpRspReqSBuffer, decide_true] at h ⊢
  omega

theorem reqBuffer_lt (p : ReqPacket) (maxLen : Int) (h1 : maxLen < 2 ^ 31)
    (h2 : ((requestPack p).length : Int) ≤ maxLen) : p.sBuffer.length < 2 ^ 31 := by
  have := reqBuffer_le_body p
  rw [requestPack_shape, frame_length] at h2
  omega

theorem rspBuffer_lt (p : RspPacket) (maxLen : Int) (h1 : maxLen < 2 ^ 31)
    (h2 : ((rsp2Byte p).length : Int) ≤ maxLen) : p.sBuffer.length < 2 ^ 31 := by
  have := rspBuffer_le_body p
  rw [rsp2Byte_shape, frame_length] at h2
  omega

/-! ## the request packet of a well-formed call -/

section
variable {env : Env} {rk : String → Nat} {cfg : Cfg} {fn : Bytes} {sig : Sig} {oneway : Bool}
  {args : List Val} {opts : List (Option StrMap)}

theorem proxyRequest_ok (h : CallOK env rk cfg fn sig oneway args opts) :
    ReqPacketOK (proxyRequest env cfg fn sig oneway args opts) := by
  have hb := reqBuffer_lt _ cfg.maxLen h.maxLen h.fits
  refine ⟨?_, ?_, ?_, h.reqId, h.servant, h.fnLen, hb, h.timeout, h.ctx, h.status⟩
  · simp only [proxyRequest, mkRequest, h.version, I16]; decide
  · simp only [proxyRequest, mkRequest, I8]; cases oneway <;> decide
  · simp only [proxyRequest, mkRequest, I32]; decide

theorem args_small (h : CallOK env rk cfg fn sig oneway args opts) : mapsSmallL args = true := by
  have hb := reqBuffer_lt _ cfg.maxLen h.maxLen h.fits
  exact mapsSmallL_of_length env (reqFields sig) args h.argsWT hb

end

theorem mapsSmallL_outVals : ∀ (ps : List Param) (args : List Val), mapsSmallL args = true →
    mapsSmallL (outVals ps args) = true
  | [], _, _ => by simp [outVals, mapsSmallL]
  | _ :: _, [], _ => by simp [outVals, mapsSmallL]
  | p :: ps, v :: vs, h => by
    simp only [mapsSmallL, Bool.and_eq_true] at h
    have ih := mapsSmallL_outVals ps vs h.2
    simp only [outVals]
    split <;> simp [mapsSmallL, h.1, ih]

/-! ## Dispatch -/

theorem reqFields_req (sig : Sig) : ∀ f ∈ reqFields sig, f.req = true := by
  have : ∀ (ps : List Param) (k : Nat), ∀ f ∈ reqFieldsFrom k ps, f.req = true := by
    intro ps
    induction ps with
    | nil => intro k f hf; simp [reqFieldsFrom] at hf
    | cons p ps ih =>
      intro k f hf
      simp only [reqFieldsFrom, List.mem_cons] at hf
      rcases hf with rfl | hf
      · rfl
      · exact ih (k+1) f hf
  exact this sig.params 0

/-- what the dispatcher reads from the request buffer the proxy wrote: the in values -/
theorem dispatchArgs_ok (env : Env) (rk : String → Nat) (hE : EnvWF env rk) (req : ReqPacket)
    (sig : Sig) (args : List Val) (hver : req.iVersion = cpTARSVERSION)
    (hbuf : req.sBuffer = encMembers env (reqFields sig) args)
    (hn : sig.params.length + cpArgTagOffset ≤ 256)
    (hty : ∀ p ∈ sig.params, TyOK env rk (env.length + 1) p.ty)
    (hwt : WTm env (reqFields sig) args) (hs : mapsSmallL args = true) :
    dispatchArgs env req sig = .ok (normMembers env (inFields sig) (inVals sig.params args)) := by
  unfold dispatchArgs
  by_cases hemp : (inFields sig).isEmpty = true
  · simp only [hemp, if_true]
    rw [List.isEmpty_iff] at hemp
    rw [hemp]; simp [normMembers]
  · have hfuel := needElems_le_argFuel env (reqFields sig) args
      (Reader.mk0 (encMembers env (reqFields sig) args)) [] (reqFields_req sig) hwt (mk0_rest _)
    have := decIns_rt env rk hE sig.params 0 args _ _ [] (by omega) hty hwt
      (mapsSmallL_outVals _ _ hs) hfuel (mk0_rest _)
    simp only [hemp, Bool.false_eq_true, if_false, hver, if_true, hbuf]
    simp only [inFields, reqFields] at this ⊢
    rw [this]

theorem dispatch_ok (env : Env) (rk : String → Nat) (hE : EnvWF env rk) (iface : Iface) (f : Func)
    (req : ReqPacket) (args : List Val) (hfind : iface.find req.sFuncName = some f)
    (hver : req.iVersion = cpTARSVERSION)
    (hbuf : req.sBuffer = encMembers env (reqFields f.sig) args)
    (hn : f.sig.params.length + cpArgTagOffset ≤ 256)
    (hty : ∀ p ∈ f.sig.params, TyOK env rk (env.length + 1) p.ty)
    (hwt : WTm env (reqFields f.sig) args) (hs : mapsSmallL args = true) (rsp : RspPacket) :
    dispatch env iface req rsp =
      ([Ev.impl f.name (normMembers env (inFields f.sig) (inVals f.sig.params args)) req.context req.status],
       (f.impl (normMembers env (inFields f.sig) (inVals f.sig.params args)) req.context req.status).err.map SrvErr.impl,
       match (f.impl (normMembers env (inFields f.sig) (inVals f.sig.params args)) req.context req.status).err with
       | none => dispatchRsp env req f.sig
            (f.impl (normMembers env (inFields f.sig) (inVals f.sig.params args)) req.context req.status)
       | some _ => rsp) := by
  unfold dispatch
  simp only [hfind, dispatchArgs_ok env rk hE req f.sig args hver hbuf hn hty hwt hs]
  cases (f.impl (normMembers env (inFields f.sig) (inVals f.sig.params args)) req.context req.status).err with
  | none => simp [hver]
  | some e => simp

/-! ## `Protocol.Invoke` and `handleConn` -/

/-- the server's handling of the request of a well-formed call, filters passing it through: the
    implementation runs once, on the normal forms of the in values and the request's context and
    status; the response frame carries `replyPacket` of what it produced (nothing is written for a
    one-way request) -/
theorem serverCore_ok (vs : Variants) (env : Env) (rk : String → Nat) (hE : EnvWF env rk)
    (sreg : ServerReg) (sb sa : List Ev)
    (hsreg : Transparent (runServer vs.postFilter none sreg) sb sa)
    (iface : Iface) (f : Func) (req : ReqPacket) (args : List Val)
    (hfind : iface.find req.sFuncName = some f) (hver : req.iVersion = cpTARSVERSION)
    (hbuf : req.sBuffer = encMembers env (reqFields f.sig) args)
    (hn : f.sig.params.length + cpArgTagOffset ≤ 256)
    (hty : ∀ p ∈ f.sig.params, TyOK env rk (env.length + 1) p.ty)
    (hwt : WTm env (reqFields f.sig) args) (hs : mapsSmallL args = true)
    (hping : req.sFuncName ≠ ascii "tars_ping") :
    serverCore vs env sreg iface req =
      if req.cPacketType = (cpTARSONEWAY : Int) then
        (sb ++ [Ev.impl f.name (normMembers env (inFields f.sig) (inVals f.sig.params args))
            req.context req.status] ++ sa, .silent)
      else
        (sb ++ [Ev.impl f.name (normMembers env (inFields f.sig) (inVals f.sig.params args))
            req.context req.status] ++ sa ++
          [Ev.reply (rsp2Byte (replyPacket vs.zeroCode env req f.sig
            (f.impl (normMembers env (inFields f.sig) (inVals f.sig.params args)) req.context req.status)))],
         .reply (rsp2Byte (replyPacket vs.zeroCode env req f.sig
            (f.impl (normMembers env (inFields f.sig) (inVals f.sig.params args)) req.context req.status)))) := by
  have hv3 : ¬ (req.iVersion = (cpTUPVERSION : Int)) := by rw [hver]; decide
  unfold serverCore
  have hrun : ∀ s, runServer vs.postFilter none sreg (dispatch env iface req) s = _ :=
    hsreg (dispatch env iface req)
  simp only [hping, ne_eq, not_false_eq_true, if_true, hrun,
    dispatch_ok env rk hE iface f req args hfind hver hbuf hn hty hwt hs]
  generalize f.impl (normMembers env (inFields f.sig) (inVals f.sig.params args)) req.context req.status = out
  cases hout : out.err with
  | none =>
    simp only [Option.map_none, replyPacket, hout, dispatchRsp, hv3, if_false]
  | some e =>
    simp only [Option.map_some, replyPacket, hout, SrvErr.toGo, RspPacket.zero, hv3, if_false]

end Tars.CallPath
