import TarsModel.Proofs.ShortTR

namespace Tars
open Consts

theorem cutRes_req_error {env : Env} {fuel tag : Nat} {ty : Ty} {old : Val} {r : Reader} {q : Bytes}
    (h : CutRes env fuel tag true ty old r q) :
    ∃ e r', decVar env fuel tag true ty old r = (.error e, r') := by
  rcases h with h | ⟨h, _⟩
  · exact h
  · cases h

/-! ### the element loops on a cut input -/

theorem decElems_cut (env : Env) (rk : String → Nat) (hE : EnvWF env rk) (e : Ty)
    (he : TyOK env rk (env.length + 1) e) :
    ∀ (vs : List Val), (∀ v ∈ vs, TR env rk v) → WTs env e vs →
      ∀ (fuel : Nat) (acc : List Val) (r : Reader) (q : Bytes), q <+: encElems env e vs →
        q.length < (encElems env e vs).length → (env.width + 3) * q.length + 2 ≤ fuel → r.rest = q →
        ∃ er r', decElems env fuel e vs.length acc r = (.error er, r')
  | [], _, _, _, _, _, q, _, hlt, _, _ => by simp [encElems] at hlt
  | v :: vs, ih, hwt, fuel, acc, r, q, hpre, hlt, hf, hr => by
    obtain ⟨f, rfl⟩ : ∃ f, fuel = f + 1 := ⟨fuel - 1, by omega⟩
    simp only [WTs] at hwt
    simp only [encElems] at hpre hlt
    simp only [List.length_cons]
    rw [decElems_succ]
    have hro := zeroOf_ready hE e he
    rcases prefix_append_cases q _ _ hpre with ⟨q', rfl, hq'⟩ | ⟨hl, hp⟩
    · have hpos := encVar_req_pos env 0 e none v hwt.1
      have hneed := (fuelOK_all env v 0 true e none hwt.1).2 hpos
      simp only [List.length_append, Nat.mul_add] at hf hlt
      have hv := decVar_present env rk hE v f 0 true e none (zeroOf env e) r q' (by decide) he trivial
        hwt.1 hro (by omega) (encVar_req_ne env 0 e none v hwt.1) hr
      rw [hv]
      simp only
      have hr' := r.rest_adv _ _ hr
      obtain ⟨er, r', h⟩ := decElems_cut env rk hE e he vs (fun w hw => ih w (by simp [hw])) hwt.2 f
        (normVar env true e none v :: acc) _ q' hq' (by omega) (by
          have : (env.width + 3) * 1 ≤ (env.width + 3) * (encVar env 0 true e none v).length :=
            Nat.mul_le_mul_left _ hpos
          omega) hr'
      exact ⟨er, r', by rw [h]⟩
    · obtain ⟨er, r', h⟩ := cutRes_req_error
        (ih v (by simp) f 0 true e none (zeroOf env e) r q (by decide) he trivial hwt.1 hro hp hl
          (by omega) hr)
      exact ⟨er, r', by rw [h]⟩

theorem decArr_cut (env : Env) (rk : String → Nat) (hE : EnvWF env rk) (e : Ty)
    (he : TyOK env rk (env.length + 1) e) :
    ∀ (vs : List Val), (∀ v ∈ vs, TR env rk v) → WTs env e vs →
      ∀ (fuel n i : Nat) (pre olds : List Val) (r : Reader) (q : Bytes),
        i = pre.length → n = i + vs.length → olds.length = vs.length → ReadyAll env e olds →
        q <+: encElems env e vs → q.length < (encElems env e vs).length →
        (env.width + 3) * q.length + 2 ≤ fuel → r.rest = q →
        ∃ er r', decArr env fuel e n i (n : Int) (pre ++ olds) r = (.error er, r')
  | [], _, _, _, _, _, _, _, _, q, _, _, _, _, _, hlt, _, _ => by simp [encElems] at hlt
  | v :: vs, ih, hwt, fuel, n, i, pre, olds, r, q, hi, hn, hol, hro, hpre, hlt, hf, hr => by
    obtain ⟨f, rfl⟩ : ∃ f, fuel = f + 1 := ⟨fuel - 1, by omega⟩
    obtain ⟨o, os, rfl⟩ : ∃ o os, olds = o :: os := by
      cases olds with
      | nil => simp at hol
      | cons o os => exact ⟨o, os, rfl⟩
    simp only [WTs] at hwt
    simp only [ReadyAll] at hro
    simp only [List.length_cons] at hn hol
    simp only [encElems] at hpre hlt
    rw [decArr_succ]
    have c1 : ¬ ((i : Int) ≥ (n : Int)) := by omega
    have c2 : ¬ (i ≥ n) := by omega
    simp only [c1, c2, if_false]
    have hget : (pre ++ o :: os).getD i (zeroOf env e) = o := by
      subst hi; simp [List.getD]
    rw [hget]
    rcases prefix_append_cases q _ _ hpre with ⟨q', rfl, hq'⟩ | ⟨hl, hp⟩
    · have hpos := encVar_req_pos env 0 e none v hwt.1
      have hneed := (fuelOK_all env v 0 true e none hwt.1).2 hpos
      simp only [List.length_append, Nat.mul_add] at hf hlt
      have hv := decVar_present env rk hE v f 0 true e none o r q' (by decide) he trivial
        hwt.1 hro.1 (by omega) (encVar_req_ne env 0 e none v hwt.1) hr
      rw [hv]
      simp only
      have hr' := r.rest_adv _ _ hr
      have hset : listSet (pre ++ o :: os) i (normVar env true e none v)
          = (pre ++ [normVar env true e none v]) ++ os := by
        subst hi; rw [listSet_mid]; simp
      rw [hset]
      obtain ⟨er, r', h⟩ := decArr_cut env rk hE e he vs (fun w hw => ih w (by simp [hw])) hwt.2 f n (i+1)
        (pre ++ [normVar env true e none v]) os _ q' (by simp [hi]) (by omega) (by omega) hro.2 hq'
        (by omega) (by
          have : (env.width + 3) * 1 ≤ (env.width + 3) * (encVar env 0 true e none v).length :=
            Nat.mul_le_mul_left _ hpos
          omega) hr'
      exact ⟨er, r', by rw [h]⟩
    · obtain ⟨er, r', h⟩ := cutRes_req_error
        (ih v (by simp) f 0 true e none o r q (by decide) he trivial hwt.1 hro.1 hp hl (by omega) hr)
      exact ⟨er, r', by rw [h]⟩

theorem decPairs_cut (env : Env) (rk : String → Nat) (hE : EnvWF env rk) (k v : Ty)
    (hk : TyOK env rk (env.length + 1) k) (hv : TyOK env rk (env.length + 1) v) :
    ∀ (kvs : List (Val × Val)), (∀ p ∈ kvs, TR env rk p.1 ∧ TR env rk p.2) → WTp env k v kvs →
      ∀ (fuel : Nat) (acc : List (Val × Val)) (r : Reader) (q : Bytes),
        q <+: encPairs env k v kvs → q.length < (encPairs env k v kvs).length →
        (env.width + 3) * q.length + 2 ≤ fuel → r.rest = q →
        ∃ er r', decPairs env fuel k v (kvs.length : Int) acc r = (.error er, r')
  | [], _, _, _, _, _, q, _, hlt, _, _ => by simp [encPairs] at hlt
  | (a, b) :: kvs, ih, hwt, fuel, acc, r, q, hpre, hlt, hf, hr => by
    obtain ⟨f, rfl⟩ : ∃ f, fuel = f + 1 := ⟨fuel - 1, by omega⟩
    simp only [WTp] at hwt
    simp only [encPairs] at hpre hlt
    rw [decPairs_succ]
    have c1 : ¬ ((((a, b) :: kvs).length : Int) ≤ 0) := by simp
    rw [if_neg c1]
    have hrk := zeroOf_ready hE k hk
    have hrv := zeroOf_ready hE v hv
    have hposa := encVar_req_pos env 0 k none a hwt.1
    have hposb := encVar_req_pos env 1 v none b hwt.2.1
    rw [List.append_assoc] at hpre
    rcases prefix_append_cases q _ _ hpre with ⟨q1, rfl, hq1⟩ | ⟨hl, hp⟩
    · -- the key is complete
      have hneeda := (fuelOK_all env a 0 true k none hwt.1).2 hposa
      simp only [List.length_append, Nat.mul_add] at hf hlt
      have hva := decVar_present env rk hE a f 0 true k none (zeroOf env k) r q1 (by decide) hk trivial
        hwt.1 hrk (by omega) (encVar_req_ne env 0 k none a hwt.1) hr
      rw [hva]
      simp only
      have hr1 := r.rest_adv _ _ hr
      have hKa : (env.width + 3) * 1 ≤ (env.width + 3) * (encVar env 0 true k none a).length :=
        Nat.mul_le_mul_left _ hposa
      rcases prefix_append_cases q1 _ _ hq1 with ⟨q2, rfl, hq2⟩ | ⟨hl2, hp2⟩
      · -- the value is complete
        have hneedb := (fuelOK_all env b 1 true v none hwt.2.1).2 hposb
        simp only [List.length_append, Nat.mul_add] at hf hlt
        have hvb := decVar_present env rk hE b f 1 true v none (zeroOf env v) _ q2 (by decide) hv trivial
          hwt.2.1 hrv (by omega) (encVar_req_ne env 1 v none b hwt.2.1) hr1
        rw [hvb]
        simp only
        have hr2 := Reader.rest_adv _ _ _ hr1
        have hlen : ((((a, b) :: kvs).length : Nat) : Int) - 1 = (kvs.length : Int) := by simp
        rw [hlen]
        obtain ⟨er, r', h⟩ := decPairs_cut env rk hE k v hk hv kvs (fun p hp => ih p (by simp [hp]))
          hwt.2.2 f _ _ q2 hq2 (by omega) (by omega) hr2
        exact ⟨er, r', by rw [h]⟩
      · obtain ⟨er, r', h⟩ := cutRes_req_error
          ((ih (a, b) (by simp)).2 f 1 true v none (zeroOf env v) _ q1 (by decide) hv trivial hwt.2.1 hrv
            hp2 hl2 (by omega) hr1)
        exact ⟨er, r', by rw [h]⟩
    · obtain ⟨er, r', h⟩ := cutRes_req_error
        ((ih (a, b) (by simp)).1 f 0 true k none (zeroOf env k) r q (by decide) hk trivial hwt.1 hrk
          hp hl (by omega) hr)
      exact ⟨er, r', by rw [h]⟩

end Tars
