/-
  Lemmas about the framing model (C07): `tarsRequest` is decided by the first four bytes and, for
  a complete packet, by whether its bytes are present; the parse loop commutes with appending.
-/
import TarsModel.Model.Frame
import TarsModel.Proofs.Bytes

namespace Tars.Frame
open Tars

/-! ### `tarsRequest` -/

theorem tarsRequest_short (m : Int) (b : Bytes) (h : b.length < 4) :
    tarsRequest m b = .ret 0 Consts.protoPackageLess := by
  unfold tarsRequest
  simp only [Consts.headerBytes]
  rw [if_pos h]

theorem tarsRequest_cons4 (m : Int) (b0 b1 b2 b3 : Byte) (t : Bytes) :
    tarsRequest m (b0 :: b1 :: b2 :: b3 :: t) =
      if beVal [b0, b1, b2, b3] < 4 ∨ (beVal [b0, b1, b2, b3] : Int) > m then
        .ret 0 Consts.protoPackageError
      else if t.length + 4 < beVal [b0, b1, b2, b3] then .ret 0 Consts.protoPackageLess
      else .ret (beVal [b0, b1, b2, b3]) Consts.protoPackageFull := by
  unfold tarsRequest
  simp only [Consts.headerBytes, Consts.minHeaderLen, List.length_cons]
  rw [if_neg (by omega)]

/-- the header of a buffer of at least four bytes -/
def hdrVal (b : Bytes) : Nat := beVal (b.take 4)

theorem tarsRequest_long (m : Int) (b : Bytes) (h : 4 ≤ b.length) :
    tarsRequest m b =
      if hdrVal b < 4 ∨ (hdrVal b : Int) > m then .ret 0 Consts.protoPackageError
      else if b.length < hdrVal b then .ret 0 Consts.protoPackageLess
      else .ret (hdrVal b) Consts.protoPackageFull := by
  match b, h with
  | b0 :: b1 :: b2 :: b3 :: t, _ =>
    rw [tarsRequest_cons4]
    simp only [hdrVal, List.take_succ_cons, List.take_zero, List.length_cons, Nat.add_assoc, Nat.reduceAdd]

theorem hdrVal_append (b c : Bytes) (h : 4 ≤ b.length) : hdrVal (b ++ c) = hdrVal b := by
  unfold hdrVal
  rw [List.take_append_of_le_length h]

/-- the three possible answers -/
inductive Verdict (m : Int) (b : Bytes) : Prop where
  | less (h : tarsRequest m b = .ret 0 Consts.protoPackageLess)
      (hl : b.length < 4 ∨ (4 ≤ hdrVal b ∧ (hdrVal b : Int) ≤ m ∧ b.length < hdrVal b))
  | full (n : Nat) (h : tarsRequest m b = .ret n Consts.protoPackageFull)
      (hn : n = hdrVal b) (h4 : 4 ≤ n) (hm : (n : Int) ≤ m) (hl : n ≤ b.length)
  | error (h : tarsRequest m b = .ret 0 Consts.protoPackageError) (h4 : 4 ≤ b.length)
      (hb : hdrVal b < 4 ∨ (hdrVal b : Int) > m)

theorem verdict (m : Int) (b : Bytes) : Verdict m b := by
  by_cases h : b.length < 4
  · exact .less (tarsRequest_short m b h) (Or.inl h)
  · have h4 : 4 ≤ b.length := by omega
    have e := tarsRequest_long m b h4
    by_cases hb : hdrVal b < 4 ∨ (hdrVal b : Int) > m
    · rw [if_pos hb] at e
      exact .error e h4 hb
    · rw [if_neg hb] at e
      by_cases hl : b.length < hdrVal b
      · rw [if_pos hl] at e
        exact .less e (Or.inr ⟨by omega, by omega, hl⟩)
      · rw [if_neg hl] at e
        exact .full (hdrVal b) e rfl (by omega) (by omega) (by omega)

theorem tarsRequest_ne_panic (m : Int) (b : Bytes) : tarsRequest m b ≠ .panic := by
  cases verdict m b with
  | less h _ => rw [h]; simp
  | full n h _ _ _ _ => rw [h]; simp
  | error h _ _ => rw [h]; simp

/-- a complete packet stays complete, with the same length, whatever is appended -/
theorem tarsRequest_full_append {m : Int} {b : Bytes} {n : Nat}
    (h : tarsRequest m b = .ret n Consts.protoPackageFull) (c : Bytes) :
    tarsRequest m (b ++ c) = .ret n Consts.protoPackageFull := by
  cases verdict m b with
  | less h' _ => rw [h'] at h; simp [Consts.protoPackageLess, Consts.protoPackageFull] at h
  | error h' _ _ => rw [h'] at h; simp [Consts.protoPackageError, Consts.protoPackageFull] at h
  | full n' h' hn h4 hm hl =>
    rw [h'] at h
    simp only [Parse.ret.injEq, and_true] at h
    subst h
    have hlen : 4 ≤ (b ++ c).length := by simp only [List.length_append]; omega
    rw [tarsRequest_long m _ hlen, hdrVal_append b c (by omega), ← hn]
    rw [if_neg (by omega), if_neg (by simp only [List.length_append]; omega)]

/-- an illegal length stays illegal whatever is appended -/
theorem tarsRequest_error_append {m : Int} {b : Bytes} {n : Nat}
    (h : tarsRequest m b = .ret n Consts.protoPackageError) (c : Bytes) :
    tarsRequest m (b ++ c) = .ret 0 Consts.protoPackageError := by
  cases verdict m b with
  | less h' _ => rw [h'] at h; simp [Consts.protoPackageLess, Consts.protoPackageError] at h
  | full n' h' _ _ _ _ => rw [h'] at h; simp [Consts.protoPackageError, Consts.protoPackageFull] at h
  | error h' h4 hb =>
    have hlen : 4 ≤ (b ++ c).length := by simp only [List.length_append]; omega
    rw [tarsRequest_long m _ hlen, hdrVal_append b c h4, if_pos hb]

/-! ### the inner loop -/

theorem drainServer_less {m : Int} {b : Bytes} {n : Nat}
    (h : tarsRequest m b = .ret n Consts.protoPackageLess) :
    drainServer m b = (b, [], .open) := by
  rw [drainServer]
  split
  · rename_i h'; rw [h] at h'; simp at h'
  · rename_i n' s' h'
    rw [h] at h'
    simp only [Parse.ret.injEq] at h'
    obtain ⟨_, rfl⟩ := h'
    simp [Consts.protoPackageLess, Consts.transportPackageLess]

theorem drainServer_error {m : Int} {b : Bytes} {n : Nat}
    (h : tarsRequest m b = .ret n Consts.protoPackageError) :
    drainServer m b = (b, [], .closed) := by
  rw [drainServer]
  split
  · rename_i h'; rw [h] at h'; simp at h'
  · rename_i n' s' h'
    rw [h] at h'
    simp only [Parse.ret.injEq] at h'
    obtain ⟨_, rfl⟩ := h'
    simp [Consts.protoPackageError, Consts.transportPackageLess, Consts.transportPackageFull]

theorem drainServer_full {m : Int} {b : Bytes} {n : Nat}
    (h : tarsRequest m b = .ret n Consts.protoPackageFull) (hl : n ≤ b.length) :
    drainServer m b =
      if 0 < (b.drop n).length then
        ((drainServer m (b.drop n)).1, b.take n :: (drainServer m (b.drop n)).2.1,
          (drainServer m (b.drop n)).2.2)
      else ([], [b.take n], .open) := by
  rw [drainServer]
  split
  · rename_i h'; rw [h] at h'; simp at h'
  · rename_i n' s' h'
    rw [h] at h'
    simp only [Parse.ret.injEq] at h'
    obtain ⟨rfl, rfl⟩ := h'
    simp [Consts.protoPackageFull, Consts.transportPackageLess, Consts.transportPackageFull, hl]

theorem drainClient_less {m : Int} {b : Bytes} {n : Nat}
    (h : tarsRequest m b = .ret n Consts.protoPackageLess) :
    drainClient m b = (b, [], .open) := by
  rw [drainClient]
  split
  · rename_i h'; rw [h] at h'; simp at h'
  · rename_i n' s' h'
    rw [h] at h'
    simp only [Parse.ret.injEq] at h'
    obtain ⟨_, rfl⟩ := h'
    simp [Consts.protoPackageLess, Consts.transportPackageLess]

theorem drainClient_error {m : Int} {b : Bytes} {n : Nat}
    (h : tarsRequest m b = .ret n Consts.protoPackageError) :
    drainClient m b = (b, [], .closed) := by
  rw [drainClient]
  split
  · rename_i h'; rw [h] at h'; simp at h'
  · rename_i n' s' h'
    rw [h] at h'
    simp only [Parse.ret.injEq] at h'
    obtain ⟨_, rfl⟩ := h'
    simp [Consts.protoPackageError, Consts.transportPackageLess, Consts.transportPackageFull]

theorem drainClient_full {m : Int} {b : Bytes} {n : Nat}
    (h : tarsRequest m b = .ret n Consts.protoPackageFull) (hl : n ≤ b.length) :
    drainClient m b =
      if 0 < (b.drop n).length then
        ((drainClient m (b.drop n)).1, b.take n :: (drainClient m (b.drop n)).2.1,
          (drainClient m (b.drop n)).2.2)
      else ([], [b.take n], .open) := by
  rw [drainClient]
  split
  · rename_i h'; rw [h] at h'; simp at h'
  · rename_i n' s' h'
    rw [h] at h'
    simp only [Parse.ret.injEq] at h'
    obtain ⟨rfl, rfl⟩ := h'
    simp [Consts.protoPackageFull, Consts.transportPackageLess, Consts.transportPackageFull, hl]

/-- the client loop handles its buffer exactly like the server loop -/
theorem drainClient_eq (m : Int) (b : Bytes) : drainClient m b = drainServer m b := by
  induction hk : b.length using Nat.strongRecOn generalizing b with
  | _ k ih =>
    cases verdict m b with
    | less h _ => rw [drainClient_less h, drainServer_less h]
    | error h _ _ => rw [drainClient_error h, drainServer_error h]
    | full n h hn h4 hm hl =>
      rw [drainClient_full h hl, drainServer_full h hl]
      by_cases hr : 0 < (b.drop n).length
      · rw [if_pos hr, if_pos hr]
        rw [ih (b.drop n).length (by simp only [List.length_drop]; omega) _ rfl]
      · rw [if_neg hr, if_neg hr]

theorem drain_eq (side : Side) (m : Int) (b : Bytes) : drain side m b = drainServer m b := by
  cases side with
  | server => rfl
  | client => exact drainClient_eq m b

end Tars.Frame
