/-
  Invariants of the log-queue LTS (`Model/Logger.lean`) and their consequences (helper lemmas for
  `Props/C20.lean`). Core Lean only.

  The inductive invariant is `logged = written ++ hand ++ queue` (conservation: every entry whose
  send completed is written, in the flusher's hand, or still queued — in that order), plus: the
  cut taken at the flush request is a prefix of `logged`, and — repaired variant only — the flusher
  reaches `asyncCancel()` only after it has observed an empty queue *after* the request, i.e. with
  the cut a prefix of `written`.
-/
import TarsModel.Model.Logger

namespace Tars.Logger

/-- the flusher has taken the `<-syncDone.Done()` case -/
def FPc.afterSync : FPc → Bool
  | .writing _ .drain => true
  | .drain => true
  | .ack => true
  | .exited => true
  | _ => false

theorem filter_erase_found (g0 g : Nat) (l : List Entry) (e : Entry)
    (hf : l.find? (fun x => x.g == g0) = some e) :
    [e].filter (fun x => x.g == g) ++ (l.erase e).filter (fun x => x.g == g)
      = l.filter (fun x => x.g == g) := by
  obtain ⟨hp, as, bs, hl, has⟩ := List.find?_eq_some_iff_append.mp hf
  have hnot : e ∉ as := by
    intro hm
    have := has e hm
    simp_all
  subst hl
  rw [List.erase_append_right _ hnot]
  simp only [List.erase_cons_head, List.filter_append, List.filter_cons, List.filter_nil]
  by_cases hg : g = g0
  · subst hg
    have : as.filter (fun x => x.g == g) = [] := by
      rw [List.filter_eq_nil_iff]
      intro a ha
      have := has a ha
      simpa using this
    have hp' : e.g = g := by simpa using hp
    simp [this, hp']
  · have he : (e.g == g) = false := by
      have : e.g = g0 := by simpa using hp
      simp [this, Ne.symm hg]
    simp [he]

structure Inv (v : Variant) (s : State) : Prop where
  callOrder : ∀ g, s.called.filter (fun x => x.g == g)
    = s.logged.filter (fun x => x.g == g) ++ s.inCall.filter (fun x => x.g == g)
  waitSync : s.flush = .waiting → s.syncReq = true
  exitedDone : s.fpc = .exited → s.asyncDone = true
  conserve : s.logged = s.written ++ s.fpc.hand ++ s.queue
  writesEq : s.writes = s.written.map Entry.call
  cutPrefix : ∀ c, s.cutLogged = some c → c <+: s.logged
  syncCut : s.syncReq = true → ∃ c, s.cutLogged = some c
  syncFlush : s.syncReq = true → s.flush ≠ .idle ∧ s.flush ≠ .called
  sentLogged : ∀ e ∈ s.sent, e ∈ s.logged
  retLogged : ∀ e ∈ s.returned, e ∈ s.logged
  cutRet : ∀ c, s.cutLogged = some c → ∀ e ∈ s.cutReturned, e ∈ c
  afterSync : s.fpc.afterSync = true → s.syncReq = true
  ackCut : v = .repaired → (s.fpc = .ack ∨ s.fpc = .exited) →
    ∃ c, s.cutLogged = some c ∧ c <+: s.written
  doneExited : s.asyncDone = true → s.fpc = .exited
  retDone : s.flush = .returned true → s.asyncDone = true

theorem inv_init (v : Variant) : Inv v init := by
  constructor <;> simp [init, FPc.hand, FPc.afterSync]

theorem step_inv {v : Variant} {cap : Nat} {s s' : State} {a : Action}
    (h : Inv v s) (hs : step v cap s a = some s') : Inv v s' := by
  cases a with
  | logCall e =>
    simp only [step] at hs
    split at hs
    · contradiction
    · simp only [Option.some.injEq] at hs; subst hs
      exact { h with
        callOrder := by
          intro g
          simp only [List.filter_append, h.callOrder g, List.append_assoc] }
  | enq g =>
    simp only [step] at hs
    split at hs
    · contradiction
    · rename_i e hf
      split at hs
      · simp only [Option.some.injEq] at hs; subst hs
        exact { h with
          callOrder := by
            intro g'
            simp only [List.filter_append, h.callOrder g', List.append_assoc]
            rw [filter_erase_found g g' s.inCall e hf]
          conserve := by simp [h.conserve]
          cutPrefix := fun c hc => (h.cutPrefix c hc).trans (List.prefix_append _ _)
          sentLogged := by
            intro x hx
            simp only [List.mem_append, List.mem_singleton] at hx ⊢
            rcases hx with hx | hx
            · exact Or.inl (h.sentLogged x hx)
            · exact Or.inr hx
          retLogged := fun x hx => List.mem_append_left _ (h.retLogged x hx) }
      · contradiction
  | logRet g =>
    simp only [step] at hs
    split at hs
    · contradiction
    · rename_i e hf
      simp only [Option.some.injEq] at hs; subst hs
      have he : e ∈ s.sent := List.mem_of_find?_eq_some hf
      exact { h with
        sentLogged := fun x hx => h.sentLogged x (List.mem_of_mem_erase hx)
        retLogged := by
          intro x hx
          simp only [List.mem_append, List.mem_singleton] at hx
          rcases hx with hx | hx
          · exact h.retLogged x hx
          · exact hx ▸ h.sentLogged e he }
  | fOuterRecv =>
    simp only [step] at hs
    split at hs
    · rename_i e q hp hq
      simp only [Option.some.injEq] at hs; subst hs
      have hc := h.conserve
      have ha := h.ackCut
      have hd := h.doneExited
      simp only [hp, hq, FPc.hand] at hc ha hd
      exact { h with
        conserve := by simp [hc, FPc.hand]
        afterSync := by simp [FPc.afterSync]
        ackCut := by simp
        exitedDone := by simp
        doneExited := by intro hx; simp at hd; exact absurd hx (by simp [hd]) }
    · contradiction
  | fOuterDefault =>
    simp only [step] at hs
    split at hs
    · rename_i hp hq
      simp only [Option.some.injEq] at hs; subst hs
      have hc := h.conserve
      have hd := h.doneExited
      simp only [hp, hq, FPc.hand] at hc hd
      exact { h with
        conserve := by simp [hc, hq, FPc.hand]
        afterSync := by simp [FPc.afterSync]
        ackCut := by simp
        exitedDone := by simp
        doneExited := by intro hx; simp at hd; exact absurd hx (by simp [hd]) }
    · contradiction
  | fInnerRecv =>
    simp only [step] at hs
    split at hs
    · rename_i e q hp hq
      simp only [Option.some.injEq] at hs; subst hs
      have hc := h.conserve
      have hd := h.doneExited
      simp only [hp, hq, FPc.hand] at hc hd
      exact { h with
        conserve := by simp [hc, FPc.hand]
        afterSync := by simp [FPc.afterSync]
        ackCut := by simp
        exitedDone := by simp
        doneExited := by intro hx; simp at hd; exact absurd hx (by simp [hd]) }
    · contradiction
  | fInnerSync =>
    simp only [step] at hs
    split at hs
    · rename_i hp
      split at hs
      · rename_i hsync
        simp only [Option.some.injEq] at hs; subst hs
        have hc := h.conserve
        have hd := h.doneExited
        simp only [hp, FPc.hand] at hc hd
        cases v with
        | asFound =>
          exact { h with
            conserve := by simp [hc, FPc.hand]
            afterSync := fun _ => hsync
            ackCut := by simp
            exitedDone := by simp
            doneExited := by intro hx; simp at hd; exact absurd hx (by simp [hd]) }
        | repaired =>
          exact { h with
            conserve := by simp [hc, FPc.hand]
            afterSync := fun _ => hsync
            ackCut := by simp
            exitedDone := by simp
            doneExited := by intro hx; simp at hd; exact absurd hx (by simp [hd]) }
      · contradiction
    · contradiction
  | fWrite =>
    simp only [step] at hs
    split at hs
    · rename_i e r hp
      simp only [Option.some.injEq] at hs; subst hs
      have hc := h.conserve
      have hd := h.doneExited
      have hy := h.afterSync
      simp only [hp, FPc.hand] at hc hd
      cases r with
      | loop =>
        exact { h with
          conserve := by simp [hc, FPc.hand]
          writesEq := by simp [h.writesEq]
          afterSync := by simp [FPc.afterSync]
          ackCut := by simp
          exitedDone := by simp
          doneExited := by intro hx; simp at hd; exact absurd hx (by simp [hd]) }
      | drain =>
        exact { h with
          conserve := by simp [hc, FPc.hand]
          writesEq := by simp [h.writesEq]
          afterSync := fun _ => hy (by simp [hp, FPc.afterSync])
          ackCut := by simp
          exitedDone := by simp
          doneExited := by intro hx; simp at hd; exact absurd hx (by simp [hd]) }
    · contradiction
  | fDrainRecv =>
    simp only [step] at hs
    split at hs
    · rename_i e q hp hq
      simp only [Option.some.injEq] at hs; subst hs
      have hc := h.conserve
      have hd := h.doneExited
      have hy := h.afterSync
      simp only [hp, hq, FPc.hand] at hc hd
      exact { h with
        conserve := by simp [hc, FPc.hand]
        afterSync := fun _ => hy (by simp [hp, FPc.afterSync])
        ackCut := by simp
        exitedDone := by simp
        doneExited := by intro hx; simp at hd; exact absurd hx (by simp [hd]) }
    · contradiction
  | fDrainDefault =>
    simp only [step] at hs
    split at hs
    · rename_i hp hq
      simp only [Option.some.injEq] at hs; subst hs
      have hc := h.conserve
      have hd := h.doneExited
      have hy := h.afterSync
      simp only [hp, hq, FPc.hand, List.append_nil] at hc hd
      have hsync : s.syncReq = true := hy (by simp [hp, FPc.afterSync])
      exact { h with
        conserve := by simp [hc, hq, FPc.hand]
        afterSync := fun _ => hsync
        ackCut := by
          intro _ _
          obtain ⟨c, hcut⟩ := h.syncCut hsync
          exact ⟨c, hcut, hc ▸ h.cutPrefix c hcut⟩
        exitedDone := by simp
        doneExited := by intro hx; simp at hd; exact absurd hx (by simp [hd]) }
    · contradiction
  | fAck =>
    simp only [step] at hs
    split at hs
    · rename_i hp
      simp only [Option.some.injEq] at hs; subst hs
      have hc := h.conserve
      have hy := h.afterSync
      simp only [hp, FPc.hand] at hc
      exact { h with
        conserve := by simp [hc, FPc.hand]
        afterSync := fun _ => hy (by simp [hp, FPc.afterSync])
        ackCut := fun hv _ => h.ackCut hv (Or.inl hp)
        doneExited := fun _ => rfl
        exitedDone := fun _ => rfl
        retDone := fun _ => rfl }
    · contradiction
  | flushCall =>
    simp only [step] at hs
    split at hs
    · rename_i hp
      simp only [Option.some.injEq] at hs; subst hs
      exact { h with
        syncFlush := fun hx => absurd hp (h.syncFlush hx).1
        waitSync := by simp
        retDone := by simp }
    · contradiction
  | flushSync =>
    simp only [step] at hs
    split at hs
    · rename_i hp
      simp only [Option.some.injEq] at hs; subst hs
      have hns : ¬ s.syncReq = true := fun hx => absurd hp (h.syncFlush hx).2
      exact { h with
        cutPrefix := by
          intro c hc
          simp only [Option.some.injEq] at hc
          exact hc ▸ List.prefix_refl _
        syncCut := fun _ => ⟨_, rfl⟩
        waitSync := fun _ => rfl
        syncFlush := by simp
        cutRet := by
          intro c hc x hx
          simp only [Option.some.injEq] at hc
          exact hc ▸ h.retLogged x hx
        afterSync := fun _ => rfl
        ackCut := by
          intro _ hx
          have : s.fpc.afterSync = true := by
            rcases hx with hx | hx <;> (simp only at hx; simp [hx, FPc.afterSync])
          exact absurd (h.afterSync this) hns
        retDone := by simp }
    · contradiction
  | flushDone =>
    simp only [step] at hs
    split at hs
    · rename_i hp
      split at hs
      · rename_i hdone
        simp only [Option.some.injEq] at hs; subst hs
        exact { h with
          syncFlush := by simp
          waitSync := by simp
          retDone := fun _ => hdone }
      · contradiction
    · contradiction
  | flushTimeout =>
    simp only [step] at hs
    split at hs
    · rename_i hp
      simp only [Option.some.injEq] at hs; subst hs
      exact { h with
        syncFlush := by simp
        waitSync := by simp
        retDone := by simp }
    · contradiction

theorem reachable_inv {v : Variant} {cap : Nat} {s : State} (h : Reachable v cap s) : Inv v s := by
  induction h with
  | init => exact inv_init v
  | step a _ hs ih => exact step_inv ih hs

theorem runFrom_reachable {v : Variant} {cap : Nat} :
    ∀ (acts : List Action) (s s' : State), Reachable v cap s → runFrom v cap s acts = some s' →
      Reachable v cap s' := by
  intro acts
  induction acts with
  | nil => intro s s' hr h; simp only [runFrom, Option.some.injEq] at h; exact h ▸ hr
  | cons a as ih =>
    intro s s' hr h
    simp only [runFrom] at h
    split at h
    · contradiction
    · rename_i s1 hs1
      exact ih s1 s' (Reachable.step a hr hs1) h

theorem run_reachable {v : Variant} {cap : Nat} {acts : List Action} {s : State}
    (h : run v cap acts = some s) : Reachable v cap s :=
  runFrom_reachable acts init s Reachable.init h

/-- every reachable state is the end of a schedule (so `Reachable` and `run` say the same) -/
theorem reachable_run {v : Variant} {cap : Nat} {s : State} (h : Reachable v cap s) :
    ∃ acts, run v cap acts = some s := by
  have append : ∀ (acts : List Action) (s0 s1 s2 : State) (a : Action),
      runFrom v cap s0 acts = some s1 → step v cap s1 a = some s2 →
      runFrom v cap s0 (acts ++ [a]) = some s2 := by
    intro acts
    induction acts with
    | nil =>
      intro s0 s1 s2 a h1 h2
      simp only [runFrom, Option.some.injEq] at h1
      subst h1
      simp [runFrom, h2]
    | cons b bs ih =>
      intro s0 s1 s2 a h1 h2
      simp only [runFrom, List.cons_append] at h1 ⊢
      split at h1
      · contradiction
      · rename_i sb hb
        exact ih sb s1 s2 a h1 h2
  induction h with
  | init => exact ⟨[], rfl⟩
  | step a _ hs ih =>
    obtain ⟨acts, hacts⟩ := ih
    exact ⟨acts ++ [a], append acts init _ _ a hacts hs⟩

/-! ### consequences used by the property theorems -/

theorem written_prefix_logged {v : Variant} {s : State} (h : Inv v s) : s.written <+: s.logged := by
  rw [h.conserve, List.append_assoc]
  exact List.prefix_append _ _

theorem prefix_filter {α : Type} (p : α → Bool) {l₁ l₂ : List α} (h : l₁ <+: l₂) :
    l₁.filter p <+: l₂.filter p := by
  obtain ⟨t, rfl⟩ := h
  rw [List.filter_append]
  exact List.prefix_append _ _

theorem prefix_count_le {α : Type} [BEq α] [LawfulBEq α] (a : α) {l₁ l₂ : List α} (h : l₁ <+: l₂) :
    l₁.count a ≤ l₂.count a := by
  obtain ⟨t, rfl⟩ := h
  rw [List.count_append]
  exact Nat.le_add_right _ _

theorem prefix_nodup {α : Type} {l₁ l₂ : List α} (h : l₁ <+: l₂) (hn : l₂.Nodup) : l₁.Nodup := by
  obtain ⟨t, rfl⟩ := h
  exact (List.nodup_append.mp hn).1

theorem prefix_mem {α : Type} {l₁ l₂ : List α} (h : l₁ <+: l₂) {a : α} (ha : a ∈ l₁) : a ∈ l₂ := by
  obtain ⟨t, rfl⟩ := h
  exact List.mem_append_left _ ha

/-- completion (repaired): the cut is a prefix of what was written -/
theorem completed_cut {cap : Nat} {s : State} (h : Reachable .repaired cap s)
    (hf : s.flush = .returned true) :
    ∃ c, s.cutLogged = some c ∧ c <+: s.written := by
  have hi := reachable_inv h
  exact hi.ackCut rfl (Or.inr (hi.doneExited (hi.retDone hf)))

/-- a goroutine's sends complete in the order of its calls -/
theorem logged_filter_prefix_called {v : Variant} {s : State} (h : Inv v s) (g : Nat) :
    s.logged.filter (fun x => x.g == g) <+: s.called.filter (fun x => x.g == g) := by
  rw [h.callOrder g]
  exact List.prefix_append _ _

theorem count_logged_le_called {v : Variant} {s : State} (h : Inv v s) (e : Entry) :
    s.logged.count e ≤ s.called.count e := by
  have hp : (fun x : Entry => x.g == e.g) e = true := by simp
  have h1 : s.logged.count e = (s.logged.filter (fun x => x.g == e.g)).count e :=
    (List.count_filter (p := fun x : Entry => x.g == e.g) (a := e) hp).symm
  have h2 : s.called.count e = (s.called.filter (fun x => x.g == e.g)).count e :=
    (List.count_filter (p := fun x : Entry => x.g == e.g) (a := e) hp).symm
  rw [h1, h2]
  exact prefix_count_le e (logged_filter_prefix_called h e.g)

/-- the statements of `flushLog` -/
def flusherActions : List Action :=
  [.fOuterRecv, .fOuterDefault, .fInnerRecv, .fInnerSync, .fWrite, .fDrainRecv, .fDrainDefault, .fAck]

/-- while a flush is waiting for completion the flusher always has an enabled statement -/
theorem flusher_progress {v : Variant} {cap : Nat} {s : State} (h : Inv v s)
    (hw : s.flush = .waiting) (hd : s.asyncDone = false) :
    ∃ a ∈ flusherActions, (step v cap s a).isSome = true := by
  have hsync := h.waitSync hw
  cases hp : s.fpc with
  | outer =>
    cases hq : s.queue with
    | nil => exact ⟨.fOuterDefault, by simp [flusherActions], by simp [step, hp, hq]⟩
    | cons e q => exact ⟨.fOuterRecv, by simp [flusherActions], by simp [step, hp, hq]⟩
  | inner => exact ⟨.fInnerSync, by simp [flusherActions], by simp [step, hp, hsync]⟩
  | writing e r => exact ⟨.fWrite, by simp [flusherActions], by simp [step, hp]⟩
  | drain =>
    cases hq : s.queue with
    | nil => exact ⟨.fDrainDefault, by simp [flusherActions], by simp [step, hp, hq]⟩
    | cons e q => exact ⟨.fDrainRecv, by simp [flusherActions], by simp [step, hp, hq]⟩
  | ack => exact ⟨.fAck, by simp [flusherActions], by simp [step, hp]⟩
  | exited =>
    have := h.exitedDone hp
    simp [this] at hd

end Tars.Logger
