import TarsModel.Proofs.ServerConnEarly

/-!
Helper lemmas for C12, part 10: the order of the close message and the deferred close.
With the kick-only `CloseIdles` only a connection's own deferred drain closes it, and that drain tests
`numInvoke` only after a tick of a ticker created when the receive loop returned. If that was after
`Shutdown` had created its ticker, the poller's first call (which sends the close message) comes first.
-/
namespace Tars.ServerConn

/-- a transition of one connection record that does not touch what the notification order depends on -/
def NKeep (f : Conn → Option Conn) : Prop :=
  ∀ k k', f k = some k' →
    k'.tickAfterPoll = k.tickAfterPoll ∧ k'.missedClosed = k.missedClosed ∧ k'.lateReg = k.lateReg ∧
    k'.sawNotify = k.sawNotify ∧ (k.notified = true → k'.notified = true) ∧
    ((k'.rpc = .draining ∨ k'.rpc = .closed) → (k.rpc = .draining ∨ k.rpc = .closed)) ∧
    (k.srvClosed = true → k'.srvClosed = true)

set_option hygiene false in
macro "nk" : tactic => `(tactic| (
  try (split at h <;> try contradiction)
  all_goals try (split at h <;> try contradiction)
  all_goals try (split at h <;> try contradiction)
  all_goals try (split at h <;> try contradiction)
  all_goals (simp only [Option.some.injEq] at h; subst h; exact ⟨rfl, rfl, rfl, rfl, id, by simp_all, by simp_all⟩)))

theorem nk_cSend (nr : Bool) (r : Rid) : NKeep (cSend nr r) := by intro k k' h; unfold cSend at h; nk
theorem nk_cAccept : NKeep cAccept := by intro k k' h; unfold cAccept at h; nk
theorem nk_cRegister : NKeep cRegister := by intro k k' h; unfold cRegister at h; nk
theorem nk_cStamp : NKeep cStamp := by intro k k' h; unfold cStamp at h; nk
theorem nk_cRead (n : Nat) : NKeep (cRead n) := by intro k k' h; unfold cRead at h; nk
theorem nk_cAge : NKeep cAge := by intro k k' h; unfold cAge at h; nk
theorem nk_cDispatch (p : Bool) : NKeep (cDispatch p) := by intro k k' h; unfold cDispatch at h; nk
theorem nk_cStart (i : Nat) : NKeep (cStart i) := by intro k k' h; unfold cStart cSetSt at h; nk
theorem nk_cHand (i : Nat) : NKeep (cHand i) := by intro k k' h; unfold cHand cSetSt at h; nk
theorem nk_cStartP (i : Nat) : NKeep (cStartP i) := by intro k k' h; unfold cStartP cSetSt at h; nk
theorem nk_cFin (i : Nat) : NKeep (cFin i) := by intro k k' h; unfold cFin cSetSt at h; nk
theorem nk_cFinEarly (i : Nat) : NKeep (cFinEarly i) := by intro k k' h; unfold cFinEarly at h; nk
theorem nk_cLateWrite (i : Nat) : NKeep (cLateWrite i) := by intro k k' h; unfold cLateWrite at h; nk
theorem nk_cWrite (i : Nat) : NKeep (cWrite i) := by intro k k' h; unfold cWrite cSetSt at h; nk
theorem nk_cSkip (d : Bool) (i : Nat) : NKeep (cSkip d i) := by intro k k' h; unfold cSkip cSetSt at h; nk
theorem nk_cDec (i : Nat) : NKeep (cDec i) := by intro k k' h; unfold cDec at h; nk
theorem nk_cDrainClose : NKeep cDrainClose := by intro k k' h; unfold cDrainClose at h; nk
theorem nk_cRecvRsp (i : Nat) : NKeep (cRecvRsp i) := by intro k k' h; unfold cRecvRsp at h; nk
theorem nk_cRecvMsg : NKeep cRecvMsg := by intro k k' h; unfold cRecvMsg at h; nk
theorem nk_cRecvEof : NKeep cRecvEof := by intro k k' h; unfold cRecvEof at h; nk
theorem nk_cEnqueued' : NKeep cEnqueued' := by
  intro k k' h; unfold cEnqueued' cEnqueued at h; split at h <;> simp at h
  subst h; refine ⟨rfl, rfl, rfl, rfl, id, ?_, id⟩
  simp only; split <;> simp

/-- the notification-order facts about one connection, relative to the globals `firstPoll`,
`fpNotified`, `listenClosed` -/
structure NConn (fp fpn : Bool) (lc : Nat) (k : Conn) : Prop where
  p1 : k.tickAfterPoll = true → (k.rpc = .draining ∨ k.rpc = .closed) → fp = true
  p2 : k.sawNotify = true → k.notified = true ∨ k.missedClosed = true ∨ k.lateReg = true
  p3 : k.missedClosed = true → k.tickAfterPoll = true → fpn = false
  p5 : lc = 2 → k.rpc ≠ .backlog → k.sawNotify = true
  p6 : k.missedClosed = true → k.srvClosed = true

structure NInv (s : State) : Prop where
  g1 : s.firstPoll = true → s.fpNotified = true → s.listenClosed = 2
  g5 : s.listenClosed ≠ 0 → s.apc ≠ .accepting
  conns : ∀ (c : Nat) (k : Conn), s.conns[c]? = some k → NConn s.firstPoll s.fpNotified s.listenClosed k

theorem nconn_keep {f : Conn → Option Conn} {fp fpn : Bool} {lc : Nat} {k k' : Conn} (hk : NKeep f)
    (hs : lc ≠ 2 ∨ (k.rpc = .backlog → k'.rpc = .backlog)) (hf : f k = some k') (hn : NConn fp fpn lc k) :
    NConn fp fpn lc k' := by
  obtain ⟨h1, h2, h3, h4, h5, h6, h7⟩ := hk k k' hf
  refine ⟨?_, ?_, ?_, ?_, ?_⟩
  · intro ht hr; rw [h1] at ht; exact hn.p1 ht (h6 hr)
  · intro hsn; rw [h4] at hsn
    rcases hn.p2 hsn with h | h | h
    · exact Or.inl (h5 h)
    · exact Or.inr (Or.inl (by rw [h2]; exact h))
    · exact Or.inr (Or.inr (by rw [h3]; exact h))
  · intro hm ht; rw [h2] at hm; rw [h1] at ht; exact hn.p3 hm ht
  · intro hl hb
    rw [h4]
    rcases hs with hs | hs
    · exact absurd hl hs
    · exact hn.p5 hl (fun hkb => hb (hs hkb))
  · intro hm; rw [h2] at hm; exact h7 (hn.p6 hm)

theorem ninv_set {s s' : State} {c : Cid} {k k' : Conn} (hN : NInv s) (hk : s.conns[c]? = some k)
    (hk' : NConn s.firstPoll s.fpNotified s.listenClosed k')
    (hc : s'.conns = s.conns.set c k') (h1 : s'.firstPoll = s.firstPoll) (h2 : s'.fpNotified = s.fpNotified)
    (h3 : s'.listenClosed = s.listenClosed) (h4 : s'.apc = s.apc) : NInv s' := by
  refine ⟨by rw [h1, h2, h3]; exact hN.g1, by rw [h3, h4]; exact hN.g5, ?_⟩
  intro c' x hx
  rw [h1, h2, h3]
  rw [hc] at hx
  rcases getElem?_set_cases hk hx with ⟨_, rfl⟩ | ⟨_, hx'⟩
  · exact hk'
  · exact hN.conns c' x hx'

theorem ninv_updConn {s s' : State} {c : Cid} {f : Conn → Option Conn} (hk : NKeep f) (hs : Stay f)
    (hN : NInv s) (h : updConn s c f = some s') : NInv s' := by
  obtain ⟨k, k', hk0, hf, rfl⟩ := updConn_some h
  exact ninv_set hN hk0 (nconn_keep hk (Or.inr (hs k k' hf)) hf (hN.conns c k hk0)) rfl rfl rfl rfl rfl

theorem ninv_globals {s s' : State} (hN : NInv s) (hc : s'.conns = s.conns) (h1 : s'.firstPoll = s.firstPoll)
    (h2 : s'.fpNotified = s.fpNotified) (h3 : s'.listenClosed = s.listenClosed)
    (h4 : s'.apc = s.apc ∨ s'.apc ≠ .accepting) : NInv s' := by
  refine ⟨by rw [h1, h2, h3]; exact hN.g1, ?_, by rw [hc, h1, h2, h3]; exact hN.conns⟩
  intro hl
  rw [h3] at hl
  rcases h4 with h4 | h4
  · rw [h4]; exact hN.g5 hl
  · exact h4

/-- `sendCloseMsg` on one table entry: what the ghosts record -/
theorem cNotify_cases (k : Conn) :
    (cNotify k).tickAfterPoll = k.tickAfterPoll ∧ (cNotify k).rpc = k.rpc ∧ (cNotify k).srvClosed = k.srvClosed ∧
    (cNotify k).sawNotify = true ∧ (k.lateReg = true → (cNotify k).lateReg = true) ∧
    ((cNotify k).notified = true ∨ (cNotify k).missedClosed = true ∨ (cNotify k).lateReg = true) ∧
    ((cNotify k).missedClosed = true → k.missedClosed = true ∨ k.srvClosed = true) := by
  unfold cNotify
  split
  · exact ⟨rfl, rfl, rfl, rfl, id, Or.inl rfl, fun h => Or.inl h⟩
  · split
    · rename_i hc
      exact ⟨rfl, rfl, rfl, rfl, id, Or.inr (Or.inl rfl), fun _ => Or.inr hc⟩
    · exact ⟨rfl, rfl, rfl, rfl, fun _ => rfl, Or.inr (Or.inr rfl), fun h => Or.inl h⟩

/-- the table after `sendCloseMsg`, for any new values of `firstPoll` / `fpNotified` that respect the
order argument (`hnew`) -/
theorem nconn_notify {s : State} {fp' fpn' : Bool} {k : Conn} (hK : KInv k)
    (hn : NConn s.firstPoll s.fpNotified s.listenClosed k)
    (hfp : s.firstPoll = true → fp' = true)
    (hnew : k.tickAfterPoll = true → k.rpc = .closed → fpn' = false)
    (hold : k.missedClosed = true → k.tickAfterPoll = true → fpn' = false) :
    NConn fp' fpn' 2 (cNotify k) := by
  obtain ⟨h1, h2, h3, h4, _, h6, h7⟩ := cNotify_cases k
  refine ⟨?_, fun _ => h6, ?_, fun _ _ => h4, ?_⟩
  · intro ht hr; rw [h1] at ht; rw [h2] at hr; exact hfp (hn.p1 ht hr)
  · intro hm ht
    rw [h1] at ht
    rcases h7 hm with h | h
    · exact hold h ht
    · exact hnew ht (hK.closedPc h)
  · intro hm
    rw [h3]
    rcases h7 hm with h | h
    · exact hn.p6 h
    · exact h

theorem ninv_notifyAll {s : State} (hK : KAll s) (hN : NInv s) (hl : s.listenClosed = 1) :
    NInv (notifyAll s) := by
  have hnf : ¬ (s.firstPoll = true ∧ s.fpNotified = true) := by
    intro ⟨a, b⟩; have := hN.g1 a b; omega
  refine ⟨fun _ _ => rfl, fun _ => hN.g5 (by rw [hl]; simp), ?_⟩
  intro c x hx
  obtain ⟨k, hk, rfl⟩ := map_notify_get hx
  have hn := hN.conns c k hk
  refine nconn_notify (hK c k hk) hn id ?_ (fun hm ht => hn.p3 hm ht)
  intro ht hr
  have hfp := hn.p1 ht (Or.inr hr)
  cases hb : s.fpNotified with
  | false => exact hb
  | true => exact absurd ⟨hfp, hb⟩ hnf

theorem ninv_init : NInv init := by
  refine ⟨by simp [init], by simp [init], ?_⟩
  intro c k h; simp [init] at h

/-- With the kick-only `CloseIdles` and the drain loop that tests after a tick, every action preserves
the notification-order invariant. -/
theorem ninv_step {cfg : Cfg} (hci : cfg.ci = .kickOnly) (hdt : cfg.drainFirstTick = true) {s s' : State}
    (a : Action) (hI : GInv cfg s) (hK : KAll s) (hN : NInv s) (h : step cfg s a = some s') : NInv s' := by
  cases a with
  | connect =>
    simp only [step, Option.some.injEq] at h; subst h
    refine ⟨hN.g1, hN.g5, ?_⟩
    intro c x hx
    by_cases hlt : c < s.conns.length
    · rw [List.getElem?_append_left hlt] at hx; exact hN.conns c x hx
    · rw [List.getElem?_append_right (Nat.le_of_not_lt hlt)] at hx
      cases hcl : c - s.conns.length with
      | zero =>
        rw [hcl] at hx; simp at hx; subst hx
        refine ⟨?_, ?_, ?_, ?_, ?_⟩ <;> simp [Conn.new]
      | succ n => rw [hcl] at hx; simp at hx
  | send c r => exact ninv_updConn (nk_cSend false r) (stay_cSend false r) hN h
  | sendNR c r => exact ninv_updConn (nk_cSend true r) (stay_cSend true r) hN h
  | accept c =>
    simp only [step] at h
    split at h <;> try contradiction
    rename_i ha
    obtain ⟨k, k', hk0, hf, rfl⟩ := updConn_some h
    have hl0 : s.listenClosed = 0 := by
      cases hl : s.listenClosed with
      | zero => rfl
      | succ n => exact absurd ha (hN.g5 (by rw [hl]; simp))
    exact ninv_set hN hk0 (nconn_keep nk_cAccept (Or.inl (by rw [hl0]; simp)) hf (hN.conns c k hk0))
      rfl rfl rfl rfl rfl
  | register c => exact ninv_updConn nk_cRegister stay_cRegister hN h
  | stamp c => exact ninv_updConn nk_cStamp stay_cStamp hN h
  | read c n => exact ninv_updConn (nk_cRead n) (stay_cRead n) hN h
  | readErr c f =>
    obtain ⟨k, k', hk0, hf, rfl⟩ := updConn_some h
    have hn := hN.conns c k hk0
    have hKk := hK c k hk0
    unfold cReadErr at hf
    split at hf <;> try contradiction
    rename_i hpc
    have hnm : k.missedClosed = false := by
      cases hm : k.missedClosed with
      | false => rfl
      | true => have := hKk.closedPc (hn.p6 hm); rw [hpc] at this; contradiction
    split at hf <;> (simp only [Option.some.injEq] at hf; subst hf)
    · refine ninv_set (k' := { k with rpc := .drainWait, tickAfterPoll :=
          (s.spc == .polling || s.spc == .returned true || s.spc == .returned false) }) hN hk0
          ⟨?_, hn.p2, ?_, ?_, hn.p6⟩ rfl rfl rfl rfl rfl
      · intro _ hr; simp at hr
      · intro hm; simp only at hm; rw [hnm] at hm; contradiction
      · intro hl _; exact hn.p5 hl (by rw [hpc]; simp)
    · refine ninv_set (k' := { k with rpc := .top }) hN hk0 ⟨?_, hn.p2, hn.p3, ?_, hn.p6⟩ rfl rfl rfl rfl rfl
      · intro _ hr; simp at hr
      · intro hl _; exact hn.p5 hl (by rw [hpc]; simp)
  | age c => exact ninv_updConn nk_cAge stay_cAge hN h
  | dispatch c => exact ninv_updConn (nk_cDispatch _) (stay_cDispatch _) hN h
  | enqueue c =>
    simp only [step] at h
    split at h <;> try contradiction
    rename_i n q k hp hk
    split at h <;> try contradiction
    rename_i k' i hce
    have hce' : cEnqueued' k = some k' := by simp [cEnqueued', hce]
    have hk' := nconn_keep nk_cEnqueued' (Or.inr (stay_cEnqueued' k k' hce')) hce' (hN.conns c k hk)
    split at h
    · simp only [Option.some.injEq] at h; subst h
      exact ninv_set hN hk hk' rfl rfl rfl rfl rfl
    · split at h <;> try contradiction
      simp only [Option.some.injEq] at h; subst h
      exact ninv_set hN hk hk' rfl rfl rfl rfl rfl
  | pTake =>
    simp only [step] at h
    split at h <;> try contradiction
    split at h <;> try contradiction
    simp only [Option.some.injEq] at h; subst h
    exact ninv_globals hN rfl rfl rfl rfl (Or.inl rfl)
  | pGive =>
    simp only [step] at h
    split at h <;> try contradiction
    rename_i n q c i hp hh
    split at h <;> try contradiction
    cases hu : updConn s c (cHand i) with
    | none => rw [hu] at h; contradiction
    | some s1 =>
      rw [hu] at h
      simp only [Option.map_some, Option.some.injEq] at h; subst h
      have h1 := ninv_updConn (nk_cHand i) (stay_cHand i) hN hu
      exact ninv_globals h1 rfl rfl rfl rfl (Or.inl rfl)
  | start c i =>
    simp only [step] at h
    split at h
    · exact ninv_updConn (nk_cStartP i) (stay_cStartP i) hN h
    · exact ninv_updConn (nk_cStart i) (stay_cStart i) hN h
  | fin c i =>
    simp only [step] at h
    split at h
    · contradiction
    · exact ninv_updConn (nk_cFin i) (stay_cFin i) hN h
  | finEarly c i =>
    simp only [step] at h
    split at h
    · exact ninv_updConn (nk_cFinEarly i) (stay_cFinEarly i) hN h
    · contradiction
  | lateWrite c i => exact ninv_updConn (nk_cLateWrite i) (stay_cLateWrite i) hN h
  | write c i => exact ninv_updConn (nk_cWrite i) (stay_cWrite i) hN h
  | skip c i => exact ninv_updConn (nk_cSkip _ i) (stay_cSkip _ i) hN h
  | dec c i => exact ninv_updConn (nk_cDec i) (stay_cDec i) hN h
  | drainTick c =>
    simp only [step] at h
    split at h <;> try contradiction
    rename_i k hk
    split at h <;> try contradiction
    rename_i hg
    obtain ⟨k0, k', hk0, hf, rfl⟩ := updConn_some h
    rw [hk] at hk0; cases hk0
    have hn := hN.conns c k hk
    unfold cDrainTick at hf
    split at hf <;> try contradiction
    rename_i hpc
    simp only [Option.some.injEq] at hf; subst hf
    refine ninv_set (k' := { k with rpc := .draining }) hN hk ⟨?_, hn.p2, hn.p3, ?_, hn.p6⟩ rfl rfl rfl rfl rfl
    · intro ht _
      simp only at ht
      cases hfp : s.firstPoll with
      | true => rfl
      | false => exact absurd ⟨hdt, ht, hfp⟩ hg
    · intro hl _; exact hn.p5 hl (by rw [hpc]; simp)
  | drainClose c => exact ninv_updConn nk_cDrainClose stay_cDrainClose hN h
  | shutdownCall =>
    simp only [step] at h
    split at h <;> try contradiction
    simp only [Option.some.injEq] at h; subst h
    exact ninv_globals hN rfl rfl rfl rfl (Or.inl rfl)
  | setClosed =>
    simp only [step] at h
    split at h <;> try contradiction
    simp only [Option.some.injEq] at h; subst h
    exact ninv_globals hN rfl rfl rfl rfl (Or.inl rfl)
  | acceptExit =>
    simp only [step] at h
    split at h <;> try contradiction
    rename_i hg
    simp only [Option.some.injEq] at h; subst h
    have hl0 : s.listenClosed = 0 := by
      cases hl : s.listenClosed with
      | zero => rfl
      | succ n => exact absurd hg.1 (hN.g5 (by rw [hl]; simp))
    refine ⟨?_, ?_, ?_⟩
    · intro a b; have := hN.g1 a b; omega
    · intro _; simp only; split <;> simp
    · intro c k hk
      have hn := hN.conns c k hk
      exact ⟨hn.p1, hn.p2, hn.p3, fun hl => by simp at hl, hn.p6⟩
  | relCall =>
    simp only [step] at h
    split at h <;> try contradiction
    simp only [Option.some.injEq] at h; subst h
    exact ninv_globals hN rfl rfl rfl rfl (Or.inr (by simp))
  | pStop =>
    simp only [step] at h
    split at h <;> try contradiction
    simp only [Option.some.injEq] at h; subst h
    exact ninv_globals hN rfl rfl rfl rfl (Or.inl rfl)
  | relRet =>
    simp only [step] at h
    split at h <;> try contradiction
    simp only [Option.some.injEq] at h; subst h
    exact ninv_globals hN rfl rfl rfl rfl (Or.inr (by simp))
  | closeMsg =>
    simp only [step] at h
    split at h <;> try contradiction
    split at h <;> try contradiction
    rename_i hl
    simp only [Option.some.injEq] at h; subst h
    exact ninv_notifyAll hK hN hl
  | onShutdownRet =>
    simp only [step] at h
    split at h <;> try contradiction
    simp only [Option.some.injEq] at h; subst h
    exact ninv_globals hN rfl rfl rfl rfl (Or.inl rfl)
  | ciBegin =>
    simp only [step] at h
    split at h <;> try contradiction
    simp only [Option.some.injEq] at h; subst h
    by_cases hl : s.listenClosed = 1
    · -- this call sends the close message
      simp only [hl, if_true]
      have hnf : ¬ (s.firstPoll = true ∧ s.fpNotified = true) := by
        intro ⟨a, b⟩; have := hN.g1 a b; omega
      refine ⟨fun _ _ => rfl, fun _ => hN.g5 (by rw [hl]; simp), ?_⟩
      intro c x hx
      obtain ⟨k, hk, rfl⟩ := map_notify_get hx
      have hn := hN.conns c k hk
      have hclosed : k.tickAfterPoll = true → k.rpc = .closed → s.firstPoll = true :=
        fun ht hr => hn.p1 ht (Or.inr hr)
      refine nconn_notify (hK c k hk) hn (fun _ => rfl) ?_ ?_
      · intro ht hr
        have hfp := hclosed ht hr
        simp only [hfp, if_true]
        cases hb : s.fpNotified with
        | false => rfl
        | true => exact absurd ⟨hfp, hb⟩ hnf
      · intro hm ht
        have hfp := hclosed ht (hK c k hk |>.closedPc (hn.p6 hm))
        simp only [hfp, if_true]
        exact hn.p3 hm ht
    · simp only [hl, if_false]
      refine ⟨?_, hN.g5, ?_⟩
      · intro _ hb
        simp only at hb
        cases hfp : s.firstPoll with
        | true => rw [hfp] at hb; simp at hb; exact hN.g1 hfp hb
        | false => rw [hfp] at hb; simpa using hb
      · intro c k hk
        have hn := hN.conns c k hk
        refine ⟨fun _ _ => rfl, hn.p2, ?_, hn.p5, hn.p6⟩
        intro hm ht
        have hfp := hn.p1 ht (Or.inr (hK c k hk |>.closedPc (hn.p6 hm)))
        simp only [hfp, if_true]
        exact hn.p3 hm ht
  | ciVisit c =>
    simp only [step, hci] at h
    split at h <;> try contradiction
    split at h <;> try contradiction
    split at h <;> try contradiction
    split at h
    · simp only [Option.some.injEq] at h; subst h; exact ninv_globals hN rfl rfl rfl rfl (Or.inl rfl)
    · split at h
      · simp only [Option.some.injEq] at h; subst h; exact ninv_globals hN rfl rfl rfl rfl (Or.inl rfl)
      · simp only [Option.some.injEq] at h; subst h; exact ninv_globals hN rfl rfl rfl rfl (Or.inl rfl)
  | ciClose =>
    simp only [step] at h
    split at h <;> try contradiction
    rename_i p hp
    split at h <;> try contradiction
    rename_i c hh
    have := hI.noHold (by rw [hci]; simp) p hp
    rw [hh] at this; contradiction
  | ciEnd =>
    simp only [step] at h
    split at h <;> try contradiction
    split at h <;> try contradiction
    simp only [Option.some.injEq] at h; subst h
    exact ninv_globals hN rfl rfl rfl rfl (Or.inl rfl)
  | ctxExpire =>
    simp only [step] at h
    split at h <;> try contradiction
    simp only [Option.some.injEq] at h; subst h
    exact ninv_globals hN rfl rfl rfl rfl (Or.inl rfl)
  | recvRsp c i => exact ninv_updConn (nk_cRecvRsp i) (stay_cRecvRsp i) hN h
  | recvMsg c => exact ninv_updConn nk_cRecvMsg stay_cRecvMsg hN h
  | recvEof c => exact ninv_updConn nk_cRecvEof stay_cRecvEof hN h

theorem ninv_reachable {cfg : Cfg} (hci : cfg.ci = .kickOnly) (hdt : cfg.drainFirstTick = true) {s : State}
    (hr : Reachable cfg s) : NInv s := by
  induction hr with
  | init => exact ninv_init
  | step a hr' hs ih => exact ninv_step hci hdt a (ginv_reachable hr') (kick_reachable hci hr') ih hs

end Tars.ServerConn
