import TarsModel.Proofs.SchemaRT2

/-!
# Round trip, stage 3: maps, nested structs (ReadBlock), the member loop, and the knot
-/
namespace Tars
open Consts

/-! ## maps -/

theorem mapInsert_fresh (b : Val) : ∀ (acc : List (Val × Val)) (a : Val),
    (∀ p ∈ acc, keyEq p.1 a = false) → mapInsert acc a b keyEq = acc ++ [(a, b)]
  | [], a, _ => rfl
  | (x, y) :: acc, a, h => by
    have hx : keyEq x a = false := h (x, y) (by simp)
    simp only [mapInsert, hx, List.cons_append]
    rw [mapInsert_fresh b acc a (fun p hp => h p (by simp [hp]))]
    simp

theorem normVar_key_shape (env : Env) (k : Ty) (a : Val) :
    (normVar env true k none a = a) ∨
    (∀ c, keyEq (normVar env true k none a) c = false ∧ keyEq a c = false ∧
          keyEq c (normVar env true k none a) = false ∧ keyEq c a = false) := by
  cases a with
  | list vs =>
    right; intro c
    have : ∃ ws, normVar env true k none (.list vs) = .list ws := by
      simp only [normVar]; split <;> exact ⟨_, rfl⟩
    obtain ⟨ws, hws⟩ := this
    rw [hws]; cases c <;> simp [keyEq]
  | map kvs =>
    right; intro c
    have : ∃ ws, normVar env true k none (.map kvs) = .map ws := by
      simp only [normVar]; split <;> exact ⟨_, rfl⟩
    obtain ⟨ws, hws⟩ := this
    rw [hws]; cases c <;> simp [keyEq]
  | struct vs =>
    right; intro c
    have : ∃ ws, normVar env true k none (.struct vs) = .struct ws := by
      simp only [normVar]
      split
      · split <;> exact ⟨_, rfl⟩
      · exact ⟨_, rfl⟩
    obtain ⟨ws, hws⟩ := this
    rw [hws]; cases c <;> simp [keyEq]
  | _ => left; simp [normVar]

theorem keyEq_norm_left (env : Env) (k : Ty) (a c : Val) :
    keyEq (normVar env true k none a) c = keyEq a c := by
  rcases normVar_key_shape env k a with h | h
  · rw [h]
  · rw [(h c).1, (h c).2.1]

theorem keyEq_norm_right (env : Env) (k : Ty) (a c : Val) :
    keyEq c (normVar env true k none a) = keyEq c a := by
  rcases normVar_key_shape env k a with h | h
  · rw [h]
  · rw [(h c).2.2.1, (h c).2.2.2]

theorem decPairs_rt (env : Env) (rk : String → Nat) (hE : EnvWF env rk) (k v : Ty)
    (hk : TyOK env rk (env.length + 1) k) (hv : TyOK env rk (env.length + 1) v) :
    ∀ (kvs : List (Val × Val)), (∀ p ∈ kvs, RT env rk p.1 ∧ RT env rk p.2) → WTp env k v kvs →
      KeysDistinct kvs →
      ∀ (fuel : Nat) (acc : List (Val × Val)) (r : Reader) (t : Bytes),
        (∀ p ∈ acc, ∀ q ∈ kvs, keyEq p.1 q.1 = false) → needPairs kvs ≤ fuel →
        r.rest = encPairs env k v kvs ++ t →
        decPairs env fuel k v (kvs.length : Int) acc r
          = (.ok (.map (acc ++ normPairs env k v kvs)), r.adv (encPairs env k v kvs).length)
  | [], _, _, _, fuel, acc, r, t, _, hf, _ => by
    obtain ⟨f, rfl⟩ : ∃ f, fuel = f + 1 := ⟨fuel - 1, by simp [needPairs] at hf; omega⟩
    simp [decPairs_succ, normPairs, encPairs]
  | (a, b) :: kvs, ih, hwt, hdist, fuel, acc, r, t, hacc, hf, h => by
    simp only [needPairs] at hf
    obtain ⟨f, rfl⟩ : ∃ f, fuel = f + 1 := ⟨fuel - 1, by omega⟩
    simp only [WTp] at hwt
    simp only [encPairs, List.append_assoc] at h
    rw [decPairs_succ]
    have c1 : ¬ ((((a, b) :: kvs).length : Int) ≤ 0) := by simp
    rw [if_neg c1]
    have iha := (ih (a, b) (by simp)).1 f 0 true k none (zeroOf env k) r _
      (by decide) hk trivial hwt.1 (zeroOf_ready hE k hk) (by intro h; cases h)
      (by show needVar a ≤ f; omega) h
    rw [iha]
    simp only
    have hr1 := r.rest_adv _ _ h
    have ihb := (ih (a, b) (by simp)).2 f 1 true v none (zeroOf env v) _ _
      (by decide) hv trivial hwt.2.1 (zeroOf_ready hE v hv) (by intro h; cases h)
      (by show needVar b ≤ f; omega) hr1
    rw [ihb]
    simp only
    have hr2 := Reader.rest_adv _ _ _ hr1
    have hfresh : ∀ p ∈ acc, keyEq p.1 (normVar env true k none a) = false := by
      intro p hp
      rw [keyEq_norm_right]
      exact hacc p hp (a, b) (by simp)
    rw [mapInsert_fresh _ acc _ hfresh]
    have hlen : ((((a, b) :: kvs).length : Nat) : Int) - 1 = (kvs.length : Int) := by
      simp
    rw [hlen]
    have hd := List.pairwise_cons.mp hdist
    have := decPairs_rt env rk hE k v hk hv kvs (fun p hp => ih p (by simp [hp])) hwt.2.2 hd.2 f
      (acc ++ [(normVar env true k none a, normVar env true v none b)]) _ t
      (by
        intro p hp q hq
        rcases List.mem_append.mp hp with hp | hp
        · exact hacc p hp q (by simp [hq])
        · simp only [List.mem_singleton] at hp
          subst hp
          simp only
          rw [keyEq_norm_left]
          exact hd.1 q hq)
      (by omega) hr2
    rw [this]
    simp [normPairs, encPairs, Reader.adv_adv, Nat.add_assoc]

theorem ready_map {env : Env} {k v : Ty} {o : Val} (h : Ready env (.map k v) o) : o = .map [] := by
  cases o <;> simp [Ready, Ty.isAtom, Ty.isScalar] at h
  rw [h]

theorem rt_map (env : Env) (rk : String → Nat) (hE : EnvWF env rk) (kvs : List (Val × Val))
    (ih : ∀ p ∈ kvs, RT env rk p.1 ∧ RT env rk p.2) : RT env rk (.map kvs) := by
  intro fuel tag req ty dflt old r t htag hty hd hwt ho hnt hfuel h
  simp only [needVar] at hfuel
  obtain ⟨f, rfl⟩ : ∃ f, fuel = f + 1 := ⟨fuel - 1, by omega⟩
  cases ty <;> simp only [WT] at hwt
  rename_i k v
  have := dflt_none_of_nonatom hd (by rfl)
  subst this
  simp only [TyOK] at hty
  have hold := ready_map ho
  subst hold
  rw [decVar_map]
  rw [encVar] at h ⊢
  simp only [normVar]
  by_cases c1 : (!req && kvs.isEmpty) = true
  · have hreq : req = false := by cases req <;> simp_all
    have hvs : kvs = [] := by cases kvs <;> simp_all
    subst hreq; subst hvs
    rw [if_pos c1] at h ⊢
    simp only [List.nil_append, List.length_nil, Reader.adv_zero] at h ⊢
    rw [skipTo_miss r tyMAP tag (h ▸ hnt rfl)]
    simp [normPairs]
  · rw [if_neg c1] at h ⊢
    simp only [List.append_assoc] at h ⊢
    rw [skipTo_hit r tyMAP tag req _ (by decide) (by decide) htag h]
    have hr1 := r.rest_adv _ _ h
    have c3 : (!req && !true) = false := by simp
    simp only [c3]
    simp +decide only [if_false]
    rw [readLen_len _ kvs.length _ hwt.1 hr1]
    have hr2 := Reader.rest_adv _ _ _ hr1
    simp only
    rw [checkLength_ok _ kvs.length _ hr2
      (by have := encPairs_length_ge env k v kvs hwt.2.2; simp only [List.length_append]; omega)]
    simp only
    rw [decPairs_rt env rk hE k v hty.1 hty.2 kvs ih hwt.2.2 hwt.2.1 f [] _ t
      (by intro p hp; cases hp) (by omega) hr2]
    simp [Reader.adv_adv, Nat.add_assoc]

/-! ## the member loop of `ReadFrom` -/

theorem decMembers_rt (env : Env) (rk : String → Nat) (b : Nat) (hb : b ≤ env.length) :
    ∀ (vs : List Val), (∀ v ∈ vs, RT env rk v) →
      ∀ (fs : List Field) (fuel : Nat) (olds : List Val) (r : Reader) (t : Bytes),
        (∀ f ∈ fs, FieldOK env rk b f) → TagsAsc fs → WTm env fs vs → OldOKs env fs olds →
        Terminated t → needElems vs ≤ fuel → r.rest = encMembers env fs vs ++ t →
        decMembers env fuel fs olds r
          = (.ok (normMembers env fs vs), r.adv (encMembers env fs vs).length)
  | [], _, fs, fuel, olds, r, t, _, _, hwt, _, _, hf, _ => by
    obtain ⟨f, rfl⟩ : ∃ f, fuel = f + 1 := ⟨fuel - 1, by simp [needElems] at hf; omega⟩
    cases fs with
    | nil => simp [decMembers_nil, normMembers, encMembers]
    | cons g gs => simp [WTm] at hwt
  | v :: vs, ih, fs, fuel, olds, r, t, hfs, hasc, hwt, hold, ht, hf, h => by
    simp only [needElems] at hf
    obtain ⟨f, rfl⟩ : ∃ f, fuel = f + 1 := ⟨fuel - 1, by omega⟩
    cases fs with
    | nil => simp [WTm] at hwt
    | cons g gs =>
      cases olds with
      | nil => simp [OldOKs] at hold
      | cons o os =>
        simp only [WTm] at hwt
        simp only [OldOKs] at hold
        simp only [encMembers, List.append_assoc] at h
        have hg := hfs g (by simp)
        have hasc' := List.pairwise_cons.mp hasc
        rw [decMembers_cons]
        have hnt : NextTagGt g.tag (encMembers env gs vs ++ t) :=
          encMembers_nextTagGt env g.tag t ht gs vs
            (fun f' hf' => ⟨hasc'.1 f' hf', (hfs f' (by simp [hf'])).1⟩)
        have hv := ih v (by simp) f g.tag g.req g.ty g.dflt o r (encMembers env gs vs ++ t)
          (by have := hg.1; omega) (TyOK.mono (by omega) hg.2.1) hg.dfltOK hwt.1 hold.1
          (fun _ => hnt) (by omega) h
        rw [hv]
        simp only
        have hr := r.rest_adv _ _ h
        have := decMembers_rt env rk b hb vs (fun w hw => ih w (by simp [hw])) gs f os _ t
          (fun f' hf' => hfs f' (by simp [hf'])) hasc'.2 hwt.2 hold.2 ht (by omega) hr
        rw [this]
        simp [normMembers, encMembers, Reader.adv_adv]

theorem ready_struct {env : Env} {name : String} {fs : List Field} {o : Val}
    (hfs : env.find name = some fs) (h : Ready env (.struct name) o) :
    ∃ os, o = .struct os ∧ ReadyMembers env fs os := by
  cases o <;> simp [Ready, Ty.isAtom, Ty.isScalar, hfs] at h
  exact ⟨_, rfl, h⟩

/-- `WriteBlock` / `ReadBlock` of a nested struct at any tag; nothing is assumed about the bytes
    `t` that follow (a struct is always written, also as an optional member) -/
theorem decVar_struct_rt (env : Env) (rk : String → Nat) (hE : EnvWF env rk) (vs : List Val)
    (ih : ∀ v ∈ vs, RT env rk v) (name : String) (fuel tag : Nat) (req : Bool) (old : Val)
    (r : Reader) (t : Bytes) (htag : tag < 256) (hwt : WT env (.struct name) (.struct vs))
    (ho : Ready env (.struct name) old) (hfuel : needVar (.struct vs) ≤ fuel)
    (h : r.rest = encVar env tag req (.struct name) none (.struct vs) ++ t) :
    decVar env fuel tag req (.struct name) old r
      = (.ok (normVar env req (.struct name) none (.struct vs)),
          r.adv (encVar env tag req (.struct name) none (.struct vs)).length) := by
  simp only [needVar] at hfuel
  have hpos := needElems_pos vs
  obtain ⟨f, rfl⟩ : ∃ f, fuel = f + 2 := ⟨fuel - 2, by omega⟩
  simp only [WT] at hwt
  cases hfs : env.find name with
  | none => simp [hfs] at hwt
  | some fs =>
    simp only [hfs] at hwt
    obtain ⟨os, rfl, hos⟩ := ready_struct hfs ho
    obtain ⟨hrk, hasc, hfok⟩ := hE name fs hfs
    rw [decVar_struct env (f+1) tag req name fs os r hfs]
    rw [encVar] at h ⊢
    simp only [hfs, normVar, List.append_assoc] at h ⊢
    rw [skipTo_hit r tyStructBegin tag req _ (by decide) (by decide) htag h]
    have hr1 := r.rest_adv _ _ h
    simp only [Bool.not_true, Bool.false_eq_true, if_false]
    have htys : ∀ g ∈ fs, TyOK env rk (env.length + 1) g.ty :=
      fun g hg => TyOK.mono (by omega) (hfok g hg).2.1
    have hold := resetDefault_twice_oldOK hE f fs os htys hos
    rw [decMembers_rt env rk (rk name) hrk vs ih fs (f+1) _ _ (writeHead tyStructEnd 0 ++ t) hfok
      hasc hwt hold (Or.inr ⟨0, t, by decide, rfl⟩) (by omega) hr1]
    have hr2 := Reader.rest_adv _ _ _ hr1
    simp only
    rw [skipToStructEnd_end _ t hr2]
    simp [Reader.adv_adv, Nat.add_assoc]

theorem rt_struct (env : Env) (rk : String → Nat) (hE : EnvWF env rk) (vs : List Val)
    (ih : ∀ v ∈ vs, RT env rk v) : RT env rk (.struct vs) := by
  intro fuel tag req ty dflt old r t htag hty hd hwt ho hnt hfuel h
  cases ty <;> try (simp only [WT] at hwt; done)
  rename_i name
  have := dflt_none_of_nonatom hd (by rfl)
  subst this
  exact decVar_struct_rt env rk hE vs ih name fuel tag req old r t htag hwt ho hfuel h

/-- the knot: every Go value round-trips through the code emitted for any type it inhabits -/
theorem rt_all (env : Env) (rk : String → Nat) (hE : EnvWF env rk) : ∀ v, RT env rk v :=
  Val.ind
    (fun b => rt_scalar env rk _ (fun ty h => by simpa only [WT] using h))
    (fun i => rt_scalar env rk _ (fun ty h => by simpa only [WT] using h))
    (fun b => rt_scalar env rk _ (fun ty h => by simpa only [WT] using h))
    (fun b => rt_scalar env rk _ (fun ty h => by simpa only [WT] using h))
    (fun s => rt_scalar env rk _ (fun ty h => by simpa only [WT] using h))
    (fun vs ih => rt_list env rk hE vs ih)
    (fun kvs ih => rt_map env rk hE kvs ih)
    (fun vs ih => rt_struct env rk hE vs ih)

end Tars
