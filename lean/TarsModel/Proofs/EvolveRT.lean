import TarsModel.Proofs.EvolveEnc
import TarsModel.Proofs.SchemaRT3
import TarsModel.Proofs.SchemaFuel

/-! Bridge from the C03 member round trip (`rt_all`, Proofs/SchemaRT3.lean) to the per-member
    assumptions of the C04 slot theorems: the `encVar` of a well-typed value is `HeadOk` and
    `SelfDelimiting`.  Kept in its own file so that C04 does not depend on the C03 development. -/
namespace Tars
namespace Evolve
open Consts WFField

theorem after_nextTagGt {tag : Nat} {t : Bytes} (h : After tag t) : NextTagGt tag t := h

/-- the encoding of a well-typed member value is self-delimiting (C03 round trip) -/
theorem selfDelimiting_of_rt (env : Env) (rk : String → Nat) (hE : EnvWF env rk) (s : Slot) (v : Val)
    (N : Nat) (htag : s.f.tag < 256) (hty : TyOK env rk (env.length + 1) s.f.ty)
    (hd : DfltOK s.f.ty s.f.dflt) (hwt : WT env s.f.ty v) (hold : OldOK env s.f.ty s.f.dflt s.old)
    (hN : needVar v ≤ N) (henc : s.enc = encVar env s.f.tag s.f.req s.f.ty s.f.dflt v) :
    s.SelfDelimiting env N := by
  intro fuel fuel' hf hf' r r' t t' h h' haft haft'
  rw [henc] at h h'
  have e1 := rt_all env rk hE v fuel s.f.tag s.f.req s.f.ty s.f.dflt s.old r t htag hty hd hwt hold
    (fun _ => after_nextTagGt haft) (by omega) h
  have e2 := rt_all env rk hE v fuel' s.f.tag s.f.req s.f.ty s.f.dflt s.old r' t' htag hty hd hwt hold
    (fun _ => after_nextTagGt haft') (by omega) h'
  rw [e1, e2]
  exact ⟨rfl, fun _ _ => ⟨r.rest_adv _ _ h, r'.rest_adv _ _ h'⟩⟩

theorem headOk_encVar (env : Env) (s : Slot) (v : Val)
    (henc : s.enc = encVar env s.f.tag s.f.req s.f.ty s.f.dflt v) : s.HeadOk := by
  rcases encVar_headAt env s.f.tag s.f.req s.f.ty s.f.dflt v with h | ⟨hty, rest, h1, _, h3⟩
  · exact .inl (henc.trans h)
  · exact .inr ⟨hty, rest, h1, henc.trans h3⟩

/-- member-wise typing of schema, value and target (the per-member hypotheses of `RT`) -/
def MembersOK (env : Env) (rk : String → Nat) (N : Nat) : List Field → List Val → List Val → Prop
  | f :: fs, o :: os, v :: vs =>
    (f.tag < 256 ∧ TyOK env rk (env.length + 1) f.ty ∧ DfltOK f.ty f.dflt ∧ WT env f.ty v ∧
      OldOK env f.ty f.dflt o ∧ needVar v ≤ N) ∧ MembersOK env rk N fs os vs
  | [], [], [] => True
  | _, _, _ => False

theorem encSlots_ok (env : Env) (rk : String → Nat) (hE : EnvWF env rk) (N : Nat) :
    ∀ (fs : List Field) (os vs : List Val), MembersOK env rk N fs os vs →
    ∀ s ∈ encSlots env fs os vs, s.HeadOk ∧ s.SelfDelimiting env N
  | [], [], [], _ => by intro s hs; simp [encSlots] at hs
  | f :: fs, o :: os, v :: vs, h => by
    obtain ⟨⟨h1, h2, h3, h4, h5, h6⟩, hrest⟩ := h
    intro s hs
    simp only [encSlots, List.mem_cons] at hs
    rcases hs with rfl | hs
    · exact ⟨headOk_encVar env _ v rfl, selfDelimiting_of_rt env rk hE _ v N h1 h2 h3 h4 h5 h6 rfl⟩
    · exact encSlots_ok env rk hE N fs os vs hrest s hs
  | [], _ :: _, _, h => by simp [MembersOK] at h
  | [], [], _ :: _, h => by simp [MembersOK] at h
  | _ :: _, [], _, h => by simp [MembersOK] at h
  | _ :: _, _ :: _, [], h => by simp [MembersOK] at h

/-- member-wise typing of schema, value and target, without a fuel bound -/
def MembersTyped (env : Env) (rk : String → Nat) : List Field → List Val → List Val → Prop
  | f :: fs, o :: os, v :: vs =>
    (f.tag < 256 ∧ TyOK env rk (env.length + 1) f.ty ∧ DfltOK f.ty f.dflt ∧ WT env f.ty v ∧
      OldOK env f.ty f.dflt o) ∧ MembersTyped env rk fs os vs
  | [], [], [] => True
  | _, _, _ => False

theorem needVar_le_needElems : ∀ (vs : List Val) (v : Val), v ∈ vs → needVar v ≤ needElems vs
  | [], _, h => by cases h
  | w :: ws, v, h => by
    simp only [needElems]
    rcases List.mem_cons.mp h with rfl | h
    · omega
    · have := needVar_le_needElems ws v h; omega

theorem membersOK_of_typed (env : Env) (rk : String → Nat) (N : Nat) :
    ∀ (fs : List Field) (os vs : List Val), (∀ v ∈ vs, needVar v ≤ N) →
      MembersTyped env rk fs os vs → MembersOK env rk N fs os vs
  | [], [], [], _, _ => trivial
  | f :: fs, o :: os, v :: vs, hN, h => by
    obtain ⟨⟨h1, h2, h3, h4, h5⟩, hrest⟩ := h
    exact ⟨⟨h1, h2, h3, h4, h5, hN v (by simp)⟩,
      membersOK_of_typed env rk N fs os vs (fun w hw => hN w (by simp [hw])) hrest⟩
  | [], _ :: _, _, _, h => by simp [MembersTyped] at h
  | [], [], _ :: _, _, h => by simp [MembersTyped] at h
  | _ :: _, [], _, _, h => by simp [MembersTyped] at h
  | _ :: _, _ :: _, [], _, h => by simp [MembersTyped] at h

theorem membersTyped_WTm (env : Env) (rk : String → Nat) :
    ∀ (fs : List Field) (os vs : List Val), MembersTyped env rk fs os vs → WTm env fs vs
  | [], [], [], _ => by simp [WTm]
  | f :: fs, o :: os, v :: vs, h => by
    simp only [WTm]
    exact ⟨h.1.2.2.2.1, membersTyped_WTm env rk fs os vs h.2⟩
  | [], _ :: _, _, h => by simp [MembersTyped] at h
  | [], [], _ :: _, h => by simp [MembersTyped] at h
  | _ :: _, [], _, h => by simp [MembersTyped] at h
  | _ :: _, _ :: _, [], h => by simp [MembersTyped] at h

/-- the message with the unknown fields is at least as long as the one without -/
theorem merged_length_ge (items : List (List WFField × Slot)) (tail : List WFField) :
    (merged (strip items) []).length ≤ (merged items tail).length := by
  induction items with
  | nil => simp [strip, merged, renderList]
  | cons p rest ih =>
    obtain ⟨xs, s⟩ := p
    simp only [strip, List.map_cons, merged, renderList, List.nil_append, List.length_append] at ih ⊢
    omega

/-- a well-formed schema in the sense of C03 (`EnvWF`: ranked by-value nesting) is acyclic in the
    sense of C04 -/
theorem envAcyclic_of_envWF {env : Env} {rk : String → Nat} (hE : EnvWF env rk) :
    EnvAcyclic env rk := by
  intro s ifs hfind
  obtain ⟨hle, _, hf⟩ := hE s ifs hfind
  refine ⟨hle, fun g hg s' ifs' href _ => ?_⟩
  have hty : TyOK env rk (rk s) g.ty := (hf g hg).2.1
  rcases href with h | ⟨n, h⟩
  · rw [h] at hty; simp only [TyOK] at hty; exact hty.2
  · rw [h] at hty; simp only [TyOK] at hty; exact hty.2.2.2

end Evolve
end Tars
