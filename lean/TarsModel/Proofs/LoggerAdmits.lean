/-
  `admits` is sound: a history it accepts is the visible history of a run of the LTS; and what the
  visible history says about the state at its end (helper lemmas for `Props/C20.lean`).
  Core Lean only.
-/
import TarsModel.Proofs.Logger

namespace Tars.Logger

/-- `Trace s h s'`: the LTS can go from `s` to `s'` performing exactly the visible events `h`
(and any internal steps in between) -/
inductive Trace (v : Variant) (cap : Nat) : State → List Event → State → Prop
  | nil (s : State) : Trace v cap s [] s
  | tau {s s' s'' : State} {h : List Event} (a : Action) : a.isTau = true →
      step v cap s a = some s' → Trace v cap s' h s'' → Trace v cap s h s''
  | vis {s s' s'' : State} {ev : Event} {h : List Event} :
      fire v cap s ev = some s' → Trace v cap s' h s'' → Trace v cap s (ev :: h) s''

theorem tauActions_isTau {s : State} {a : Action} (h : a ∈ tauActions s) : a.isTau = true := by
  simp only [tauActions, List.mem_append, List.mem_map, List.mem_cons, List.not_mem_nil, or_false] at h
  rcases h with ⟨e, _, rfl⟩ | h
  · rfl
  · rcases h with rfl | rfl | rfl | rfl | rfl | rfl | rfl | rfl <;> rfl

/-- reachability by internal steps only -/
def TauReach (v : Variant) (cap : Nat) (s s' : State) : Prop := Trace v cap s [] s'

theorem TauReach.refl {v cap} (s : State) : TauReach v cap s s := Trace.nil s

theorem trace_append {v cap} {s1 s2 s3 : State} {h1 h2 : List Event}
    (t1 : Trace v cap s1 h1 s2) (t2 : Trace v cap s2 h2 s3) : Trace v cap s1 (h1 ++ h2) s3 := by
  induction t1 with
  | nil s => simpa using t2
  | tau a ha hs _ ih => exact Trace.tau a ha hs (ih t2)
  | vis hf _ ih => exact Trace.vis hf (ih t2)

theorem tauSucc_reach {v cap} {guide : Guide} {s x : State} (h : x ∈ tauSucc v cap guide s) : TauReach v cap s x := by
  simp only [tauSucc, List.mem_filterMap, List.mem_filter] at h
  obtain ⟨a, ⟨ha, _⟩, hs⟩ := h
  exact Trace.tau a (tauActions_isTau ha) hs (Trace.nil x)

theorem mem_insertNew {seen : List State} {s x : State} (h : x ∈ insertNew seen s) :
    x ∈ seen ∨ x = s := by
  unfold insertNew at h
  split at h
  · exact Or.inl h
  · simp only [List.mem_cons] at h
    rcases h with h | h
    · exact Or.inr h
    · exact Or.inl h

theorem mem_foldl_insertNew {l : List State} {acc : List State} {x : State}
    (h : x ∈ l.foldl insertNew acc) : x ∈ acc ∨ x ∈ l := by
  induction l generalizing acc with
  | nil => exact Or.inl h
  | cons a l ih =>
    simp only [List.foldl_cons] at h
    rcases ih h with h | h
    · rcases mem_insertNew h with h | h
      · exact Or.inl h
      · exact Or.inr (h ▸ List.mem_cons_self)
    · exact Or.inr (List.mem_cons_of_mem _ h)

theorem mem_next {v cap} {guide : Guide} {frontier acc : List State} {x : State}
    (h : x ∈ frontier.foldl (fun acc s => (tauSucc v cap guide s).foldl insertNew acc) acc) :
    x ∈ acc ∨ ∃ s ∈ frontier, x ∈ tauSucc v cap guide s := by
  induction frontier generalizing acc with
  | nil => exact Or.inl h
  | cons a l ih =>
    simp only [List.foldl_cons] at h
    rcases ih h with h | ⟨s, hs, hx⟩
    · rcases mem_foldl_insertNew h with h | h
      · exact Or.inl h
      · exact Or.inr ⟨a, List.mem_cons_self, h⟩
    · exact Or.inr ⟨s, List.mem_cons_of_mem _ hs, hx⟩

theorem closure_sound {v cap} {guide : Guide} (ss : List State) :
    ∀ (fuel : Nat) (frontier seen : List State),
      (∀ x ∈ frontier, ∃ s ∈ ss, TauReach v cap s x) → (∀ x ∈ seen, ∃ s ∈ ss, TauReach v cap s x) →
      ∀ x ∈ closure v cap guide fuel frontier seen, ∃ s ∈ ss, TauReach v cap s x := by
  intro fuel
  induction fuel with
  | zero => intro frontier seen _ hs x hx; simp only [closure] at hx; exact hs x hx
  | succ n ih =>
    intro frontier seen hf hs x hx
    cases frontier with
    | nil => simp only [closure] at hx; exact hs x hx
    | cons f fs =>
      simp only [closure] at hx
      have hfresh : ∀ y ∈ (List.foldl (fun acc s => (tauSucc v cap guide s).foldl insertNew acc) [] (f :: fs)).filter
          (fun s => !known seen s), ∃ s ∈ ss, TauReach v cap s y := by
        intro y hy
        have hy' := (List.mem_filter.mp hy).1
        rcases mem_next hy' with h | ⟨s, hsf, hys⟩
        · simp at h
        · obtain ⟨s0, hs0, hr⟩ := hf s hsf
          exact ⟨s0, hs0, trace_append hr (tauSucc_reach hys)⟩
      apply ih _ _ hfresh _ x hx
      intro y hy
      rcases List.mem_append.mp hy with h | h
      · exact hfresh y h
      · exact hs y h

theorem closureOf_sound {v cap} {guide : Guide} (ss : List State) {x : State} (hx : x ∈ closureOf v cap guide ss) :
    ∃ s ∈ ss, TauReach v cap s x := by
  unfold closureOf at hx
  exact closure_sound ss _ ss ss (fun y hy => ⟨y, hy, TauReach.refl y⟩)
    (fun y hy => ⟨y, hy, TauReach.refl y⟩) x hx

theorem mem_fire_fold {v cap} {ev : Event} {cl acc : List State} {x : State}
    (h : x ∈ cl.foldl (fun acc s => match fire v cap s ev with
                                     | some s' => insertNew acc s'
                                     | none => acc) acc) :
    x ∈ acc ∨ ∃ s ∈ cl, fire v cap s ev = some x := by
  induction cl generalizing acc with
  | nil => exact Or.inl h
  | cons a l ih =>
    simp only [List.foldl_cons] at h
    rcases ih h with h | ⟨s, hs, hx⟩
    · split at h
      · rename_i s' hf
        rcases mem_insertNew h with h | h
        · exact Or.inl h
        · exact Or.inr ⟨a, List.mem_cons_self, h ▸ hf⟩
      · exact Or.inl h
    · exact Or.inr ⟨s, List.mem_cons_of_mem _ hs, hx⟩

theorem admitsFrom_sound {v cap} {guide : Guide} {limit : Nat} :
    ∀ (h : List Event) (ss : List State) (r : List State × Nat) (i mx : Nat),
      admitsFrom v cap guide limit ss h i mx = .ok r →
      (ss ≠ [] → r.1 ≠ []) ∧ ∀ x' ∈ r.1, ∃ x ∈ ss, Trace v cap x h x' := by
  intro h
  induction h with
  | nil =>
    intro ss r i mx hok
    simp only [admitsFrom, Except.ok.injEq] at hok
    subst hok
    exact ⟨id, fun x hx => ⟨x, hx, Trace.nil x⟩⟩
  | cons ev rest ih =>
    intro ss r i mx hok
    simp only [admitsFrom] at hok
    split at hok
    · contradiction
    · split at hok
      · contradiction
      · rename_i hne
        obtain ⟨hne', hall⟩ := ih _ r (i + 1) _ hok
        refine ⟨fun _ => hne' (by simpa using hne), ?_⟩
        intro x' hx'
        obtain ⟨y, hy, ht⟩ := hall x' hx'
        rcases mem_fire_fold hy with h | ⟨c, hc, hf⟩
        · simp at h
        · obtain ⟨x, hx, hr⟩ := closureOf_sound ss hc
          exact ⟨x, hx, trace_append hr (Trace.vis hf ht)⟩

theorem admitsFrom_init_sound {v cap} {guide : Guide} {limit : Nat} {h : List Event}
    {r : List State × Nat} (hok : admitsFrom v cap guide limit [init] h 0 1 = .ok r) :
    ∃ s, Trace v cap init h s := by
  obtain ⟨hne, hall⟩ := admitsFrom_sound h [init] r 0 1 hok
  have : r.1 ≠ [] := hne (by simp)
  obtain ⟨x', hx'⟩ := List.exists_mem_of_ne_nil r.1 this
  obtain ⟨x, hx, ht⟩ := hall x' hx'
  simp only [List.mem_singleton] at hx
  exact ⟨x', hx ▸ ht⟩

/-- soundness of `admits` (guided or not, any limit): an admitted history is the visible history
of a run of the LTS -/
theorem admits_sound {v cap} {h : List Event} {limit : Nat} (ha : admits v cap h limit = true) :
    ∃ s, Trace v cap init h s := by
  unfold admits admitsSearch at ha
  split at ha
  · rename_i r hok
    split at hok
    · rename_i r' hok'
      exact admitsFrom_init_sound hok'
    · exact admitsFrom_init_sound hok
  · contradiction

/-! ### from traces to states -/

theorem fire_step {v cap} {s s' : State} {ev : Event} (h : fire v cap s ev = some s') :
    ∃ a, step v cap s a = some s' := by
  cases ev with
  | logCall e => exact ⟨.logCall e, h⟩
  | logRet e =>
    simp only [fire] at h
    split at h
    · split at h
      · exact ⟨_, h⟩
      · contradiction
    · contradiction
  | write c =>
    simp only [fire] at h
    split at h
    · split at h
      · exact ⟨_, h⟩
      · contradiction
    · contradiction
  | flushCall => exact ⟨.flushCall, h⟩
  | flushRet b =>
    cases b with
    | true => exact ⟨.flushDone, h⟩
    | false => exact ⟨.flushTimeout, h⟩

theorem trace_reachable {v cap} {s s' : State} {h : List Event} (t : Trace v cap s h s')
    (hr : Reachable v cap s) : Reachable v cap s' := by
  induction t with
  | nil s => exact hr
  | tau a _ hs _ ih => exact ih (Reachable.step a hr hs)
  | vis hf _ ih =>
    obtain ⟨a, ha⟩ := fire_step hf
    exact ih (Reachable.step a hr ha)

theorem trace_split {v cap} {s s' : State} {h1 h2 : List Event}
    (t : Trace v cap s (h1 ++ h2) s') : ∃ m, Trace v cap s h1 m ∧ Trace v cap m h2 s' := by
  generalize hh : h1 ++ h2 = h at t
  induction t generalizing h1 with
  | nil s =>
    have h1nil : h1 = [] := (List.append_eq_nil_iff.mp hh).1
    have h2nil : h2 = [] := (List.append_eq_nil_iff.mp hh).2
    subst h1nil h2nil
    exact ⟨s, Trace.nil s, Trace.nil s⟩
  | tau a ha hs _ ih =>
    obtain ⟨m, t1, t2⟩ := ih hh
    exact ⟨m, Trace.tau a ha hs t1, t2⟩
  | @vis s0 s1 s2 ev h hf tr ih =>
    cases h1 with
    | nil =>
      simp only [List.nil_append] at hh
      subst hh
      exact ⟨s0, Trace.nil s0, Trace.vis hf tr⟩
    | cons e1 h1' =>
      simp only [List.cons_append, List.cons.injEq] at hh
      obtain ⟨he, hh'⟩ := hh
      subst he
      obtain ⟨m, t1, t2⟩ := ih hh'
      exact ⟨m, Trace.vis hf t1, t2⟩

/-- a τ-step changes neither the returned calls nor the `Write` calls nor the `FlushLogger` pc,
except `flushSync` (`called → waiting`) -/
theorem tau_preserves {v cap} {s s' : State} {a : Action} (ha : a.isTau = true)
    (hs : step v cap s a = some s') : s'.returned = s.returned ∧ s'.writes = s.writes := by
  cases a <;> simp only [Action.isTau] at ha <;> simp only [step] at hs <;>
    (repeat' split at hs) <;> simp_all <;> (subst hs; simp)

/-- what a trace appends to the observable parts of the state -/
theorem trace_obs {v cap} {s s' : State} {h : List Event} (t : Trace v cap s h s') :
    s'.returned = s.returned ++ retsOf h ∧ s'.writes = s.writes ++ writesOf h := by
  induction t with
  | nil s => simp [retsOf, writesOf]
  | tau a ha hs _ ih =>
    obtain ⟨h1, h2⟩ := tau_preserves ha hs
    rw [ih.1, ih.2, h1, h2]
    exact ⟨rfl, rfl⟩
  | @vis s0 s1 s2 ev h hf _ ih =>
    cases ev with
    | logCall e =>
      simp only [fire, step] at hf
      split at hf
      · contradiction
      · simp only [Option.some.injEq] at hf; subst hf
        simpa [retsOf, writesOf] using ih
    | logRet e =>
      simp only [fire] at hf
      split at hf
      · rename_i e' hfind
        split at hf
        · rename_i heq
          simp only [step] at hf
          have hfind' : s0.sent.find? (fun x => x.g == e.g) = some e := heq ▸ hfind
          simp only [hfind', Option.some.injEq] at hf
          subst hf
          simpa [retsOf, writesOf, List.append_assoc] using ih
        · contradiction
      · contradiction
    | write c =>
      simp only [fire] at hf
      split at hf
      · rename_i e r hp
        split at hf
        · rename_i hc
          simp only [step, hp, Option.some.injEq] at hf
          subst hf
          simpa [retsOf, writesOf, List.append_assoc, hc] using ih
        · contradiction
      · contradiction
    | flushCall =>
      simp only [fire, step] at hf
      split at hf
      · simp only [Option.some.injEq] at hf; subst hf
        simpa [retsOf, writesOf] using ih
      · contradiction
    | flushRet b =>
      cases b with
      | true =>
        simp only [fire, step] at hf
        split at hf
        · split at hf
          · simp only [Option.some.injEq] at hf; subst hf
            simpa [retsOf, writesOf] using ih
          · contradiction
        · contradiction
      | false =>
        simp only [fire, step] at hf
        split at hf
        · simp only [Option.some.injEq] at hf; subst hf
          simpa [retsOf, writesOf] using ih
        · contradiction

/-- once `FlushLogger` has been entered with the calls `R` returned, `R` stays contained in
`returned` until the flush request and in `cutReturned` from then on -/
structure AfterCall (R : List Entry) (s : State) : Prop where
  notIdle : s.flush ≠ .idle
  called : s.flush = .called → ∀ e ∈ R, e ∈ s.returned
  later : s.flush ≠ .called → ∀ e ∈ R, e ∈ s.cutReturned

theorem step_afterCall {v cap} {R : List Entry} {s s' : State} {a : Action}
    (h : AfterCall R s) (hs : step v cap s a = some s') : AfterCall R s' := by
  obtain ⟨h1, h2, h3⟩ := h
  cases a <;> simp only [step] at hs <;> (repeat' split at hs) <;>
    simp only [Option.some.injEq, reduceCtorEq] at hs <;> subst hs <;>
    first
    | exact ⟨h1, h2, h3⟩
    | (constructor <;> simp_all)

theorem trace_afterCall {v cap} {R : List Entry} {s s' : State} {h : List Event}
    (t : Trace v cap s h s') (ha : AfterCall R s) : AfterCall R s' := by
  induction t with
  | nil s => exact ha
  | tau a _ hs _ ih => exact ih (step_afterCall ha hs)
  | vis hf _ ih =>
    obtain ⟨a, hstep⟩ := fire_step hf
    exact ih (step_afterCall ha hstep)

theorem trace_single {v cap} {s s' : State} {ev : Event} (t : Trace v cap s [ev] s') :
    ∃ a b, Trace v cap s [] a ∧ fire v cap a ev = some b ∧ Trace v cap b [] s' := by
  generalize hh : [ev] = h at t
  induction t with
  | nil s => simp at hh
  | tau x hx hs _ ih =>
    obtain ⟨a, b, t1, hf, t2⟩ := ih hh
    exact ⟨a, b, Trace.tau x hx hs t1, hf, t2⟩
  | @vis s0 s1 s2 e h hf tr _ =>
    simp only [List.cons.injEq] at hh
    obtain ⟨he, hn⟩ := hh
    subst he; subst hn
    exact ⟨s0, s1, Trace.nil s0, hf, tr⟩

theorem writesOf_append (h1 h2 : List Event) : writesOf (h1 ++ h2) = writesOf h1 ++ writesOf h2 := by
  induction h1 with
  | nil => rfl
  | cons e h ih => cases e <;> simp [writesOf, ih]

theorem fire_flushCall {v cap} {a b : State} (h : fire v cap a .flushCall = some b) :
    b.flush = .called ∧ b.returned = a.returned := by
  simp only [fire, step] at h
  split at h
  · simp only [Option.some.injEq] at h; subst h; exact ⟨rfl, rfl⟩
  · contradiction

theorem fire_flushDone {v cap} {a b : State} (h : fire v cap a (.flushRet true) = some b) :
    b.flush = .returned true := by
  simp only [fire, step] at h
  split at h
  · split at h
    · simp only [Option.some.injEq] at h; subst h; rfl
    · contradiction
  · contradiction

/-- In a run of the repaired LTS with visible history `pre ++ [flushCall] ++ mid ++ [flushRet true]`
every entry whose call returned in `pre` is the argument of a `Write` call in `pre ++ mid`. -/
theorem history_complete {cap : Nat} {pre mid post : List Event} {s : State}
    (t : Trace .repaired cap init (pre ++ [.flushCall] ++ mid ++ [.flushRet true] ++ post) s) :
    ∀ e ∈ retsOf pre, e.call ∈ writesOf (pre ++ mid) := by
  intro e he
  obtain ⟨m4, t14, _⟩ := trace_split t
  obtain ⟨m3, t13, t34⟩ := trace_split t14
  obtain ⟨m2, t12, t23⟩ := trace_split t13
  obtain ⟨m1, t01, t1F⟩ := trace_split t12
  obtain ⟨a, b, t1a, hF, tb2⟩ := trace_single t1F
  obtain ⟨a', b', t3a, hD, _⟩ := trace_single t34
  -- at b: FlushLogger has just been entered
  have hret1 : m1.returned = retsOf pre := by simpa [init] using (trace_obs t01).1
  have hreta : a.returned = m1.returned := by simpa [retsOf] using (trace_obs t1a).1
  obtain ⟨hbf, hbr⟩ := fire_flushCall hF
  have hab : AfterCall (retsOf pre) b :=
    { notIdle := by simp [hbf]
      called := fun _ x hx => by rw [hbr, hreta, hret1]; exact hx
      later := fun hne => absurd hbf hne }
  -- carry it to b', where FlushLogger has just returned through asyncDone
  have ha' : AfterCall (retsOf pre) a' :=
    trace_afterCall t3a (trace_afterCall t23 (trace_afterCall tb2 hab))
  obtain ⟨x, hx⟩ := fire_step hD
  have hb' : AfterCall (retsOf pre) b' := step_afterCall ha' hx
  have hfl : b'.flush = .returned true := fire_flushDone hD
  have hcut : e ∈ b'.cutReturned := hb'.later (by simp [hfl]) e he
  -- b' is reachable, so the invariants apply
  have tall : Trace .repaired cap init (pre ++ [.flushCall] ++ mid ++ [.flushRet true]) b' :=
    trace_append (trace_append (trace_append t01 (trace_append t1a (Trace.vis hF tb2))) t23)
      (trace_append t3a (Trace.vis hD (Trace.nil b')))
  have hr : Reachable .repaired cap b' := trace_reachable tall Reachable.init
  have hi := reachable_inv hr
  obtain ⟨c, hc, hcw⟩ := completed_cut hr hfl
  have hw : e ∈ b'.written := prefix_mem hcw (hi.cutRet c hc e hcut)
  have hcall : e.call ∈ b'.writes := by rw [hi.writesEq]; exact List.mem_map_of_mem hw
  have hobs : b'.writes = writesOf (pre ++ [.flushCall] ++ mid ++ [.flushRet true]) := by
    simpa [init] using (trace_obs tall).2
  rw [hobs] at hcall
  simpa [writesOf_append, writesOf] using hcall

end Tars.Logger
