import TarsModel.Proofs.RefInterp3
import TarsModel.Proofs.SchemaTop

/-!
# Reference decoder: the strict decoder accepts every encoding and returns the normal form
-/
namespace Tars
open Consts
namespace Ref

/-- the schema-free parse of an encoded struct body is the list of trees of its present members -/
theorem parseTop_encStruct (env : Env) (rk : String → Nat) (hE : EnvWF env rk) (S : String)
    (fs : List Field) (vs : List Val) (hfs : env.find S = some fs) (hwm : WTm env fs vs) :
    parseTop (encMembers env fs vs).length ((encMembers env fs vs).length + 2) (encMembers env fs vs)
      = some (tlvMembers env fs vs) := by
  obtain ⟨_, _, hfok⟩ := hE S fs hfs
  exact parseTop_enc env vs (fun v _ => pr_all env rk hE v) fs hwm (fun g hg => (hfok g hg).1) _ _
    (Nat.le_refl _) (Nat.le_refl _)

theorem decRef_enc (env : Env) (rk : String → Nat) (S : String) (v : Val)
    (hW : WellTyped env rk S v) : decRef env S (encStruct env S v) = some (norm env S v) := by
  obtain ⟨hE, hwt⟩ := hW
  obtain ⟨fs, vs, hfs, rfl, hwm⟩ := WT_struct_inv hwt
  obtain ⟨hrk, hasc, hfok⟩ := hE S fs hfs
  unfold decRef
  simp only [encStruct, hfs]
  rw [parseTop_encStruct env rk hE S fs vs hfs hwm]
  simp only
  rw [ascending_members env fs vs (-1) hwm hasc (fun f _ => by omega)]
  simp only [Bool.not_true, Bool.false_eq_true, if_false]
  have hfuel : needElems vs ≤ refFuel env (encMembers env fs vs).length := by
    have hb := fuelOK_members env vs (fun v _ => fuelOK_all env v) fs hwm
    have hl := WTm_length hwm
    have hw := find_width env S fs hfs
    unfold refFuel
    rw [Nat.mul_add]
    omega
  rw [interpFields_enc env rk (rk S) hrk vs (fun v _ => ir_all env rk hE v) fs _ hfok hasc hwm hfuel]
  simp only [norm, normVar, hfs]

end Ref
end Tars
