/-
  Helper lemmas for C08 / C09: the inductive invariant of the call-path LTS `Tars.Route.step`.

  `Summary` collects, for one step of the caller goroutine of call `i`, every fact the invariants
  need (how the call record, the counters, the table and the id counter change); it is established
  once per action (`callStep_summary`, `deliver_summary`) and the invariant is then preserved by a
  single argument (`inv_of_summary`).
-/
import TarsModel.Model.Route
import TarsModel.Proofs.RouteGen

set_option linter.unusedVariables false

namespace Tars.Route

def qd (pc : Pc) : Int := if pc.inQueue then 1 else 0
def nd (pc : Pc) : Int := if pc.inInvoke then 1 else 0

/-! ### small facts about program counters, lists, the table -/

theorem Pc.stored_of_registered {pc : Pc} (h : pc.registered = true) : pc.stored = true := by
  cases pc <;> simp_all [Pc.registered, Pc.stored]

theorem Pc.hasId_of_stored {pc : Pc} (h : pc.stored = true) : pc.hasId = true := by
  cases pc <;> simp_all [Pc.hasId, Pc.stored]

theorem Pc.hasId_of_outcome {pc : Pc} {o : Outcome} (h : pc.outcome? = some o) : pc.hasId = true := by
  cases pc <;> simp_all [Pc.hasId, Pc.outcome?]

theorem Pc.ne_select_of_hasId_post {pc : Pc} (h : pc.stored = true) : pc ≠ .select := by
  cases pc <;> simp_all [Pc.stored]

theorem Pc.ne_select_of_outcome {pc : Pc} {o : Outcome} (h : pc.outcome? = some o) : pc ≠ .select := by
  cases pc <;> simp_all [Pc.outcome?]

theorem set_self {α} {l : List α} {i : Nat} {c : α} (h : l[i]? = some c) : l.set i c = l := by
  apply List.ext_getElem?
  intro j
  rw [List.getElem?_set]
  split
  · next hij => subst hij; simp [h]; exact (List.getElem?_eq_some_iff.mp h).1
  · rfl

theorem lt_of_getElem? {α} {l : List α} {i : Nat} {c : α} (h : l[i]? = some c) : i < l.length :=
  (List.getElem?_eq_some_iff.mp h).1

theorem countP_set_int {α} (p : α → Bool) {l : List α} {i : Nat} {c c' : α} (h : l[i]? = some c) :
    ((l.set i c').countP p : Int) = (l.countP p : Int) - (if p c then 1 else 0) + (if p c' then 1 else 0) := by
  induction l generalizing i with
  | nil => simp at h
  | cons x xs ih =>
    cases i with
    | zero =>
      simp at h; subst h
      simp only [List.set_cons_zero, List.countP_cons]
      split <;> split <;> simp_all <;> omega
    | succ k =>
      simp at h
      simp only [List.set_cons_succ, List.countP_cons]
      have := ih h
      omega

theorem mem_tDelete {t : List Entry} {a : Nat} {id : Int} {e : Entry} :
    e ∈ tDelete t a id ↔ e ∈ t ∧ e.is a id = false := by
  simp [tDelete, List.mem_filter]

theorem tLoad_some {t : List Entry} {a : Nat} {id : Int} {i : Nat} (h : tLoad t a id = some i) :
    ∃ e, e ∈ t ∧ e.adp = a ∧ e.id = id ∧ e.call = i := by
  unfold tLoad at h
  split at h
  · next e he =>
    injection h with h
    have h1 := List.find?_some he
    have h2 := List.mem_of_find?_eq_some he
    simp [Entry.is] at h1
    exact ⟨e, h2, h1.1, h1.2, h⟩
  · contradiction

theorem tLoad_store_same (t : List Entry) (a : Nat) (id : Int) (i : Nat) :
    tLoad (tStore t a id i) a id = some i := by
  simp [tLoad, tStore, Entry.is]

theorem find_delete_other {t : List Entry} {a a' : Nat} {id id' : Int} (h : ¬ (a' = a ∧ id' = id)) :
    (tDelete t a id).find? (fun e => e.is a' id') = t.find? (fun e => e.is a' id') := by
  induction t with
  | nil => simp [tDelete]
  | cons x xs ih =>
    simp only [tDelete, List.filter_cons] at *
    by_cases hx : x.is a id = true
    · simp only [hx, Bool.not_true, Bool.false_eq_true, ↓reduceIte, List.find?_cons]
      have : x.is a' id' = false := by
        simp only [Entry.is, Bool.and_eq_true, beq_iff_eq] at hx
        simp only [Entry.is, Bool.and_eq_false_iff, beq_eq_false_iff_ne, ne_eq]
        rcases hx with ⟨h1, h2⟩
        by_cases ha : a' = a
        · right; intro hid; exact h ⟨ha, by rw [← hid, h2]⟩
        · left; rw [h1]; exact fun h' => ha h'.symm
      rw [this]; exact ih
    · simp only [hx, Bool.not_false, ↓reduceIte, List.find?_cons]
      split
      · rfl
      · exact ih

theorem tLoad_delete_other {t : List Entry} {a a' : Nat} {id id' : Int} (h : ¬ (a' = a ∧ id' = id)) :
    tLoad (tDelete t a id) a' id' = tLoad t a' id' := by
  unfold tLoad; rw [find_delete_other h]

theorem tLoad_store_other {t : List Entry} {a a' : Nat} {id id' : Int} {i : Nat} (h : ¬ (a' = a ∧ id' = id)) :
    tLoad (tStore t a id i) a' id' = tLoad t a' id' := by
  have hne : (Entry.is ⟨a, id, i⟩ a' id') = false := by
    simp only [Entry.is, Bool.and_eq_false_iff, beq_eq_false_iff_ne, ne_eq]
    by_cases ha : a' = a
    · right; intro hid; exact h ⟨ha, hid.symm⟩
    · left; exact fun h' => ha h'.symm
  unfold tLoad tStore
  rw [List.find?_cons, hne, find_delete_other h]

/-! ### the per-proxy counters -/

theorem qGet_qAdd {l : List Int} {p' p : Nat} {d : Int} (h : p' < l.length) :
    qGet (qAdd l p' d) p = qGet l p + (if p' = p then d else 0) := by
  unfold qAdd qGet
  rw [List.getElem?_set]
  by_cases hp : p' = p
  · subst hp; simp [h]
  · simp [hp]

theorem qAdd_length (l : List Int) (p : Nat) (d : Int) : (qAdd l p d).length = l.length := by
  simp [qAdd]

theorem qGet_qPad (l : List Int) (k p : Nat) : qGet (qPad l k) p = qGet l p := by
  unfold qGet qPad
  by_cases hp : p < l.length
  · rw [List.getElem?_append_left hp]
  · rw [List.getElem?_append_right (by omega)]
    have h1 : l[p]? = none := by simp; omega
    rw [h1]
    by_cases hq : p - l.length < k + 1 - l.length
    · simp [hq]
    · have : (List.replicate (k + 1 - l.length) (0 : Int))[p - l.length]? = none := by simp; omega
      rw [this]

theorem qPad_length_gt (l : List Int) (k : Nat) : k < (qPad l k).length := by
  simp [qPad]; omega

theorem qPad_length_ge (l : List Int) (k : Nat) : l.length ≤ (qPad l k).length := by
  simp [qPad]

/-! ### what one step of a caller goroutine does -/

structure Summary (s : State) (i : Nat) (c : Call) (s' : State) (c' : Call) : Prop where
  calls : s'.calls = s.calls.set i c'
  emitted : s'.emitted = s.emitted
  par : c'.par = c.par
  ka : s'.kaHeld = s.kaHeld
  ql : c.par.proxy < s.queueLens.length → ∀ p : Nat,
         qGet s'.queueLens p = qGet s.queueLens p + (if c.par.proxy = p then qd c'.pc - qd c.pc else 0)
  qlen : s'.queueLens.length = s.queueLens.length
  inv : s'.invokeNum = s.invokeNum - nd c.pc + nd c'.pc
  table : (c.pc = .store ∧ c'.pc = .lock ∧ s'.table = tStore s.table c.adp c.id i) ∨
          (∃ o, c.pc = .del o ∧ c'.pc = .post o ∧ s'.table = tDelete s.table c.adp c.id) ∨
          (s'.table = s.table ∧ c'.pc.registered = c.pc.registered)
  ident : c.pc.hasId = true → c'.pc.hasId = true ∧ c'.id = c.id ∧ c'.seq = c.seq
  stored : c.pc.stored = true → c'.pc.stored = true
  adp : c.pc ≠ .select → c'.adp = c.adp
  gen : (s'.gen = s.gen ∧ c'.pc.hasId = c.pc.hasId) ∨
        (s'.gen = s.gen.cas ∧ c.pc.hasId = false ∧ c'.pc.hasId = false) ∨
        (s'.gen = s.gen.add ∧ c.pc.hasId = false ∧
          ((c' = c ∧ issues (addStep s.gen.ctr) = false) ∨
           (c'.pc.hasId = true ∧ issues (addStep s.gen.ctr) = true ∧ c'.id = addStep s.gen.ctr ∧
            c'.seq = s.gen.issued.length)))
  reply : ∀ p : Pkt, c'.pc.outcome? = some (Outcome.reply p) → c.pc.outcome? = some (Outcome.reply p) ∨
            (c.pc = .wait ∧ p.id = c.id ∧ (c.adp, p) ∈ s.emitted ∧ p.id ≠ 0 ∧ p.oneway = false)
  adpOk : c'.pc.needsAdp = true → (c.pc.needsAdp = true ∧ c.pc ≠ .select) ∨ c'.adp < s.conns.length
  clen : s'.conns.length = s.conns.length

theorem callStep_summary {cfg : Cfg} {s s' : State} {i : Nat} {c : Call} {a : CallAct}
    (hc : s.calls[i]? = some c) (h : callStep cfg s i c a = some s') :
    ∃ c', Summary s i c s' c' ∧ s'.rcvs = s.rcvs := by
  cases a <;> simp only [callStep] at h
  case add =>
    split at h <;> try contradiction
    rename_i hpc
    split at h
    · injection h with h; subst h
      refine ⟨_, ⟨rfl, rfl, rfl, rfl, ?_, ?_, ?_, ?_, ?_, ?_, ?_, ?_, ?_, ?_, ?_⟩, rfl⟩ <;>
        simp_all [State.setCall, qd, nd, Pc.inQueue, Pc.inInvoke, Pc.registered, Pc.hasId, Pc.stored, Pc.outcome?, Pc.needsAdp]
    · injection h with h; subst h
      refine ⟨c, ⟨(set_self hc).symm, rfl, rfl, rfl, ?_, ?_, ?_, ?_, ?_, ?_, ?_, ?_, ?_, ?_, ?_⟩, rfl⟩ <;>
        simp_all [qd, nd, Pc.inQueue, Pc.inInvoke, Pc.registered, Pc.hasId, Pc.stored, Pc.outcome?, Pc.needsAdp]
  all_goals (
    repeat' (split at h)
    all_goals (try contradiction)
    all_goals (
      injection h with h; subst h
      refine ⟨_, ⟨rfl, rfl, rfl, rfl, ?_, ?_, ?_, ?_, ?_, ?_, ?_, ?_, ?_, ?_, ?_⟩, rfl⟩ <;>
        simp_all [State.setCall, State.setConn, qd, nd, Pc.inQueue, Pc.inInvoke, Pc.registered, Pc.hasId,
          Pc.stored, Pc.outcome?, Pc.needsAdp, Consts.callQueueLenInc, Consts.callInvokeNumInc, qGet_qAdd, qAdd_length]))

/-! ### the invariant -/

structure Inv (s : State) : Prop where
  ql : ∀ p : Nat, qGet s.queueLens p =
         (s.calls.countP (fun c => c.pc.inQueue && c.par.proxy == p) : Nat) + (s.kaHeld.count p : Nat)
  kax : ∀ p ∈ s.kaHeld, p < s.queueLens.length
  qpx : ∀ (i : Nat) (c : Call), s.calls[i]? = some c → c.par.proxy < s.queueLens.length
  inv : s.invokeNum = (s.calls.countP (fun c => c.pc.inInvoke) : Nat)
  tbl : ∀ e ∈ s.table, ∃ c, s.calls[e.call]? = some c ∧ c.id = e.id ∧ c.adp = e.adp ∧ c.pc.registered = true
  off : ∀ (r : Nat) (x : Rcv) (i : Nat), s.rcvs[r]? = some x → x.pc = .offer i →
          (∃ c, s.calls[i]? = some c ∧ c.id = x.pkt.id ∧ c.adp = x.adp ∧ c.pc.stored = true) ∧
          x.pkt.id ≠ 0 ∧ x.pkt.oneway = false
  emi : ∀ (r : Nat) (x : Rcv), s.rcvs[r]? = some x → (x.adp, x.pkt) ∈ s.emitted
  rep : ∀ (i : Nat) (c : Call) (p : Pkt), s.calls[i]? = some c → c.pc.outcome? = some (Outcome.reply p) →
          p.id = c.id ∧ (c.adp, p) ∈ s.emitted ∧ p.id ≠ 0 ∧ p.oneway = false
  idl : ∀ (i : Nat) (c : Call), s.calls[i]? = some c → c.pc.hasId = true → c.id ≠ 0 ∧ s.gen.issued.reverse[c.seq]? = some c.id
  sqd : ∀ (i j : Nat) (ci cj : Call), s.calls[i]? = some ci → s.calls[j]? = some cj → i ≠ j →
          ci.pc.hasId = true → cj.pc.hasId = true → ci.seq ≠ cj.seq
  own : ∀ (i : Nat) (c : Call), s.calls[i]? = some c → c.pc.registered = true →
          tLoad s.table c.adp c.id = some i ∨
          ∃ (j : Nat) (c' : Call), j ≠ i ∧ s.calls[j]? = some c' ∧ c'.pc.stored = true ∧ c'.id = c.id ∧ c'.adp = c.adp
  adpv : ∀ (i : Nat) (c : Call), s.calls[i]? = some c → c.pc.needsAdp = true → c.adp < s.conns.length

theorem inv_init (cfg : Cfg) (ctr : Int) : Inv (init cfg ctr) := by
  constructor <;> simp [init, qGet]

/-- the issued log only grows at its recent end -/
theorem issued_mono {s s' : State} {i : Nat} {c c' : Call} (hs : Summary s i c s' c') {k : Nat} {v : Int}
    (h : s.gen.issued.reverse[k]? = some v) : s'.gen.issued.reverse[k]? = some v := by
  rcases hs.gen with ⟨hg, _⟩ | ⟨hg, _⟩ | ⟨hg, _⟩
  · rw [hg]; exact h
  · rw [hg]; exact h
  · rw [hg]
    simp only [Gen.add]
    split
    · rw [List.reverse_cons, List.getElem?_append_left]
      · exact h
      · have := lt_of_getElem? h; simpa using this
    · exact h

theorem inv_of_summary {s s' : State} {i : Nat} {c c' : Call} (hI : Inv s) (hc : s.calls[i]? = some c)
    (hs : Summary s i c s' c')
    (hr : ∀ (r : Nat) (x : Rcv), s'.rcvs[r]? = some x → ∃ x0 : Rcv, s.rcvs[r]? = some x0 ∧ x0.adp = x.adp ∧ x0.pkt = x.pkt ∧
            (∀ j, x.pc = RPc.offer j → x0.pc = RPc.offer j)) : Inv s' := by
  have hil := lt_of_getElem? hc
  -- the call records of s'
  have hget : ∀ j, s'.calls[j]? = if i = j then some c' else s.calls[j]? := by
    intro j; rw [hs.calls, List.getElem?_set]; split <;> simp
  have hsame : ∀ j, j ≠ i → s'.calls[j]? = s.calls[j]? := by
    intro j hj; rw [hget]; simp [Ne.symm hj]
  have hself : s'.calls[i]? = some c' := by rw [hget]; simp
  -- facts about c' when c is stored
  have hst : c.pc.stored = true → c'.pc.stored = true ∧ c'.id = c.id ∧ c'.adp = c.adp := by
    intro h
    exact ⟨hs.stored h, (hs.ident (Pc.hasId_of_stored h)).2.1, hs.adp (Pc.ne_select_of_hasId_post h)⟩
  constructor
  · -- ql
    intro p
    rw [hs.ql (hI.qpx i c hc) p, hs.calls, hI.ql p, hs.ka]
    have := countP_set_int (fun c : Call => c.pc.inQueue && c.par.proxy == p) (c' := c') hc
    rw [this, hs.par]
    by_cases hp : c.par.proxy = p
    · simp [hp, qd]; omega
    · simp [hp]
  · -- kax
    rw [hs.ka, hs.qlen]; exact hI.kax
  · -- qpx
    intro j cj hj
    rw [hs.qlen]
    by_cases hji : j = i
    · rw [hji, hself] at hj; injection hj with hj; subst hj
      rw [hs.par]; exact hI.qpx i c hc
    · rw [hsame _ hji] at hj; exact hI.qpx j cj hj
  · rw [hs.inv, hs.calls, hI.inv]
    have := countP_set_int (fun c : Call => c.pc.inInvoke) (c' := c') hc
    simp only [nd]; rw [this]
  · -- tbl
    intro e he
    rcases hs.table with ⟨hpc, hpc', ht⟩ | ⟨o, hpc, hpc', ht⟩ | ⟨ht, hreg⟩
    · rw [ht, tStore] at he
      rcases List.mem_cons.mp he with rfl | he
      · have hid := hs.ident (by simp [hpc, Pc.hasId])
        exact ⟨c', hself, hid.2.1, hs.adp (by simp [hpc]), by simp [hpc', Pc.registered]⟩
      · have he' := (mem_tDelete.mp he).1
        obtain ⟨c0, h0, h1, h2, h3⟩ := hI.tbl e he'
        by_cases hei : e.call = i
        · rw [hei, hc] at h0; injection h0 with h0; subst h0
          simp [hpc, Pc.registered] at h3
        · exact ⟨c0, by rw [hsame _ hei]; exact h0, h1, h2, h3⟩
    · rw [ht] at he
      obtain ⟨he', hne⟩ := mem_tDelete.mp he
      obtain ⟨c0, h0, h1, h2, h3⟩ := hI.tbl e he'
      by_cases hei : e.call = i
      · rw [hei, hc] at h0; injection h0 with h0; subst h0
        simp [Entry.is, h1, h2] at hne
      · exact ⟨c0, by rw [hsame _ hei]; exact h0, h1, h2, h3⟩
    · rw [ht] at he
      obtain ⟨c0, h0, h1, h2, h3⟩ := hI.tbl e he
      by_cases hei : e.call = i
      · rw [hei, hc] at h0; injection h0 with h0; subst h0
        have := hst (Pc.stored_of_registered h3)
        exact ⟨c', by rw [hei]; exact hself, by rw [this.2.1]; exact h1, by rw [this.2.2]; exact h2, by rw [hreg]; exact h3⟩
      · exact ⟨c0, by rw [hsame _ hei]; exact h0, h1, h2, h3⟩
  · -- off
    intro r x j hx hpc
    obtain ⟨x0, hx0, ha, hp, ho⟩ := hr r x hx
    obtain ⟨⟨c0, h0, h1, h2, h3⟩, h4, h5⟩ := hI.off r x0 j hx0 (ho j hpc)
    rw [hp] at h1 h4 h5; rw [ha] at h2
    refine ⟨?_, h4, h5⟩
    by_cases hji : j = i
    · rw [hji, hc] at h0; injection h0 with h0; subst h0
      have := hst h3
      exact ⟨c', by rw [hji]; exact hself, by rw [this.2.1]; exact h1, by rw [this.2.2]; exact h2, this.1⟩
    · exact ⟨c0, by rw [hsame _ hji]; exact h0, h1, h2, h3⟩
  · -- emi
    intro r x hx
    obtain ⟨x0, hx0, ha, hp, _⟩ := hr r x hx
    rw [hs.emitted, ← ha, ← hp]; exact hI.emi r x0 hx0
  · -- rep
    intro j cj p hj ho
    rw [hs.emitted]
    by_cases hji : j = i
    · rw [hji, hself] at hj; injection hj with hj; subst hj
      rcases hs.reply p ho with h | ⟨hw, h1, h2, h3, h4⟩
      · have := hI.rep i c p hc h
        have hid := hs.ident (Pc.hasId_of_outcome h)
        have had := hs.adp (Pc.ne_select_of_outcome h)
        rw [hid.2.1, had]; exact this
      · have hid := hs.ident (by simp [hw, Pc.hasId])
        have had := hs.adp (by simp [hw])
        rw [hid.2.1, had]; exact ⟨h1, h2, h3, h4⟩
    · rw [hsame _ hji] at hj; exact hI.rep j cj p hj ho
  · -- idl
    intro j cj hj hid
    by_cases hji : j = i
    · rw [hji, hself] at hj; injection hj with hj; subst hj
      rcases hs.gen with ⟨hg, hh⟩ | ⟨hg, _, hh⟩ | ⟨hg, hn, hh⟩
      · rw [hh] at hid
        have := hI.idl i c hc hid
        have hid' := hs.ident hid
        rw [hid'.2.1, hid'.2.2, hg]; exact this
      · rw [hh] at hid; contradiction
      · rcases hh with ⟨rfl, _⟩ | ⟨_, hiss, hv, hsq⟩
        · rw [hn] at hid; contradiction
        · rw [hg, hv, hsq]
          refine ⟨by simpa [issues, Consts.callZeroSkip] using hiss, ?_⟩
          simp only [Gen.add, hiss, ↓reduceIte, List.reverse_cons]
          rw [List.getElem?_append_right (by simp)]
          simp
    · rw [hsame _ hji] at hj
      have := hI.idl j cj hj hid
      exact ⟨this.1, issued_mono hs this.2⟩
  · -- sqd
    intro j k cj ck hj hk hjk hidj hidk
    -- a call that has just obtained its id has the largest sequence number
    have fresh : ∀ (m : Nat) (cm : Call), m ≠ i → s.calls[m]? = some cm → cm.pc.hasId = true →
        c.pc.hasId = false → c'.pc.hasId = true → cm.seq ≠ c'.seq := by
      intro m cm hm hcm hidm hn hy
      rcases hs.gen with ⟨_, hh⟩ | ⟨_, _, hh⟩ | ⟨_, _, hh⟩
      · rw [hh, hn] at hy; contradiction
      · rw [hh] at hy; contradiction
      · rcases hh with ⟨rfl, _⟩ | ⟨_, _, _, hsq⟩
        · rw [hn] at hy; contradiction
        · have := lt_of_getElem? (hI.idl m cm hcm hidm).2
          simp at this; omega
    by_cases hji : j = i
    · have hki : k ≠ i := fun h => hjk (by rw [hji, h])
      rw [hji, hself] at hj; injection hj with hj; subst hj
      rw [hsame _ hki] at hk
      by_cases hci : c.pc.hasId = true
      · have := hs.ident hci
        rw [this.2.2]; exact hI.sqd i k c ck hc hk (by rw [← hji]; exact hjk) hci hidk
      · exact (fresh k ck hki hk hidk (by simpa using hci) hidj).symm
    · rw [hsame _ hji] at hj
      by_cases hki : k = i
      · rw [hki, hself] at hk; injection hk with hk; subst hk
        by_cases hci : c.pc.hasId = true
        · have := hs.ident hci
          rw [this.2.2]; exact hI.sqd j i cj c hj hc hji hidj hci
        · exact fresh j cj hji hj hidj (by simpa using hci) hidk
      · rw [hsame _ hki] at hk
        exact hI.sqd j k cj ck hj hk hjk hidj hidk
  · -- own
    intro j cj hj hreg
    -- a collision witness of s stays one in s'
    have wit : ∀ (a : Nat) (id : Int) (m : Nat), (∃ (k : Nat) (ck : Call), k ≠ m ∧ s.calls[k]? = some ck ∧ ck.pc.stored = true ∧ ck.id = id ∧ ck.adp = a) →
        ∃ (k : Nat) (ck : Call), k ≠ m ∧ s'.calls[k]? = some ck ∧ ck.pc.stored = true ∧ ck.id = id ∧ ck.adp = a := by
      intro a id m ⟨k, ck, hkm, hk, h1, h2, h3⟩
      by_cases hki : k = i
      · rw [hki, hc] at hk; injection hk with hk; subst hk
        have := hst h1
        exact ⟨i, c', by rw [← hki]; exact hkm, hself, this.1, by rw [this.2.1]; exact h2, by rw [this.2.2]; exact h3⟩
      · exact ⟨k, ck, hkm, by rw [hsame _ hki]; exact hk, h1, h2, h3⟩
    rcases hs.table with ⟨hpc, hpc', ht⟩ | ⟨o, hpc, hpc', ht⟩ | ⟨ht, hreg'⟩
    · -- store by call i
      have hid := hs.ident (by simp [hpc, Pc.hasId])
      have had := hs.adp (by simp [hpc])
      by_cases hji : j = i
      · rw [hji, hself] at hj; injection hj with hj; subst hj
        left; rw [ht, hid.2.1, had, hji]; exact tLoad_store_same _ _ _ _
      · rw [hsame _ hji] at hj
        by_cases hkey : cj.adp = c.adp ∧ cj.id = c.id
        · right
          exact ⟨i, c', fun h => hji h.symm, hself, by simp [hpc', Pc.stored], by rw [hid.2.1]; exact hkey.2.symm,
            by rw [had]; exact hkey.1.symm⟩
        · rcases hI.own j cj hj hreg with h | h
          · left; rw [ht, tLoad_store_other hkey]; exact h
          · right; exact wit _ _ _ h
    · -- delete by call i
      have hpcs : c.pc.stored = true := by simp [hpc, Pc.stored]
      have := hst hpcs
      by_cases hji : j = i
      · rw [hji, hself] at hj; injection hj with hj; subst hj
        simp [hpc', Pc.registered] at hreg
      · rw [hsame _ hji] at hj
        by_cases hkey : cj.adp = c.adp ∧ cj.id = c.id
        · right
          exact ⟨i, c', fun h => hji h.symm, hself, this.1, by rw [this.2.1]; exact hkey.2.symm,
            by rw [this.2.2]; exact hkey.1.symm⟩
        · rcases hI.own j cj hj hreg with h | h
          · left; rw [ht, tLoad_delete_other hkey]; exact h
          · right; exact wit _ _ _ h
    · by_cases hji : j = i
      · rw [hji, hself] at hj; injection hj with hj; subst hj
        rw [hreg'] at hreg
        have := hst (Pc.stored_of_registered hreg)
        rw [ht, this.2.1, this.2.2, hji]
        rcases hI.own i c hc hreg with h | h
        · left; exact h
        · right; exact wit _ _ _ h
      · rw [hsame _ hji] at hj
        rw [ht]
        rcases hI.own j cj hj hreg with h | h
        · left; exact h
        · right; exact wit _ _ _ h
  · -- adpv
    intro j cj hj hn
    rw [hs.clen]
    by_cases hji : j = i
    · rw [hji, hself] at hj; injection hj with hj; subst hj
      rcases hs.adpOk hn with ⟨h1, h2⟩ | h
      · rw [hs.adp h2]; exact hI.adpv i c hc h1
      · exact h
    · rw [hsame _ hji] at hj; exact hI.adpv j cj hj hn

/-- steps that leave calls, table, counters and the id counter alone -/
theorem inv_of_frame {s s' : State} (hI : Inv s) (hg : s'.gen = s.gen) (hc : s'.calls = s.calls)
    (ht : s'.table = s.table) (hq : s'.queueLens = s.queueLens) (hn : s'.invokeNum = s.invokeNum)
    (hk : s'.kaHeld = s.kaHeld)
    (he : ∀ x, x ∈ s.emitted → x ∈ s'.emitted) (hl : s'.conns.length = s.conns.length)
    (hr : ∀ (r : Nat) (x : Rcv), s'.rcvs[r]? = some x → (x.adp, x.pkt) ∈ s'.emitted ∧
      ∀ j, x.pc = RPc.offer j →
        ((∃ c : Call, s.calls[j]? = some c ∧ c.id = x.pkt.id ∧ c.adp = x.adp ∧ c.pc.stored = true) ∧
          x.pkt.id ≠ 0 ∧ x.pkt.oneway = false)) : Inv s' := by
  constructor
  · rw [hq, hc, hk]; exact hI.ql
  · rw [hq, hk]; exact hI.kax
  · rw [hq, hc]; exact hI.qpx
  · rw [hn, hc]; exact hI.inv
  · rw [ht, hc]; exact hI.tbl
  · intro r x j hx hpc; rw [hc]; exact (hr r x hx).2 j hpc
  · intro r x hx; exact (hr r x hx).1
  · intro i c p h1 h2; rw [hc] at h1
    have := hI.rep i c p h1 h2
    exact ⟨this.1, he _ this.2.1, this.2.2⟩
  · rw [hc, hg]; exact hI.idl
  · rw [hc]; exact hI.sqd
  · rw [hc, ht]; exact hI.own
  · rw [hc, hl]; exact hI.adpv

theorem lookupPc_offer {t : List Entry} {a : Nat} {p : Pkt} {j : Nat} (h : lookupPc t a p = .offer j) :
    tLoad t a p.id = some j ∧ p.id ≠ 0 ∧ p.oneway = false := by
  unfold lookupPc at h
  split at h
  · contradiction
  · split at h
    · contradiction
    · split at h
      · next i hi =>
        injection h with h; subst h
        refine ⟨hi, ?_, ?_⟩
        · simp_all [Consts.callPushId]
        · simp_all
      · contradiction

theorem getElem?_set_cases {α} {l : List α} {i j : Nat} {a x : α} (h : (l.set i a)[j]? = some x) :
    (j = i ∧ x = a) ∨ (j ≠ i ∧ l[j]? = some x) := by
  rw [List.getElem?_set] at h
  split at h
  · next hij =>
    split at h
    · injection h with h; exact Or.inl ⟨hij.symm, h.symm⟩
    · contradiction
  · next hij => exact Or.inr ⟨fun h' => hij h'.symm, h⟩

theorem getElem?_append_one_cases {α} {l : List α} {j : Nat} {a x : α} (h : (l ++ [a])[j]? = some x) :
    (j = l.length ∧ x = a) ∨ (j < l.length ∧ l[j]? = some x) := by
  by_cases hj : j < l.length
  · rw [List.getElem?_append_left hj] at h; exact Or.inr ⟨hj, h⟩
  · rw [List.getElem?_append_right (by omega)] at h
    have : j - l.length = 0 := by
      cases hk : j - l.length with
      | zero => rfl
      | succ k => rw [hk] at h; simp at h
    rw [this] at h; simp at h
    exact Or.inl ⟨by omega, h.symm⟩

theorem inv_step {cfg : Cfg} {s s' : State} {a : Action} (hI : Inv s) (h : step cfg s a = some s') : Inv s' := by
  cases a with
  | spawn par =>
    simp only [step] at h; injection h with h; subst h
    have hnew : ∀ (j : Nat) (x : Call), (s.calls ++ [⟨par, .idle, 0, 0, 0⟩])[j]? = some x →
        (x.pc = .idle) ∨ (s.calls[j]? = some x) := by
      intro j x hx
      rcases getElem?_append_one_cases hx with ⟨_, rfl⟩ | ⟨_, h⟩
      · exact Or.inl rfl
      · exact Or.inr h
    have hold : ∀ (j : Nat) (x : Call), s.calls[j]? = some x → (s.calls ++ [⟨par, .idle, 0, 0, 0⟩])[j]? = some x := by
      intro j x hx; rw [List.getElem?_append_left (lt_of_getElem? hx)]; exact hx
    constructor
    · intro p
      rw [qGet_qPad]
      simp only [List.countP_append]; simp [Pc.inQueue]; exact hI.ql p
    · intro p hp
      exact Nat.lt_of_lt_of_le (hI.kax p hp) (qPad_length_ge _ _)
    · intro j x hx
      rcases getElem?_append_one_cases hx with ⟨_, rfl⟩ | ⟨_, h⟩
      · exact qPad_length_gt _ _
      · exact Nat.lt_of_lt_of_le (hI.qpx j x h) (qPad_length_ge _ _)
    · simp only [List.countP_append]; simp [Pc.inInvoke]; exact hI.inv
    · intro e he
      obtain ⟨c, h0, h1⟩ := hI.tbl e he
      exact ⟨c, hold _ _ h0, h1⟩
    · intro r x j hx hpc
      obtain ⟨⟨c, h0, h1⟩, h2⟩ := hI.off r x j hx hpc
      exact ⟨⟨c, hold _ _ h0, h1⟩, h2⟩
    · exact hI.emi
    · intro i c p hc ho
      rcases hnew i c hc with hp | hc'
      · rw [hp] at ho; simp [Pc.outcome?] at ho
      · exact hI.rep i c p hc' ho
    · intro i c hc hid
      rcases hnew i c hc with hp | hc'
      · rw [hp] at hid; simp [Pc.hasId] at hid
      · exact hI.idl i c hc' hid
    · intro i j ci cj hi hj hij h1 h2
      rcases hnew i ci hi with hp | hi'
      · rw [hp] at h1; simp [Pc.hasId] at h1
      · rcases hnew j cj hj with hp | hj'
        · rw [hp] at h2; simp [Pc.hasId] at h2
        · exact hI.sqd i j ci cj hi' hj' hij h1 h2
    · intro i c hc hreg
      rcases hnew i c hc with hp | hc'
      · rw [hp] at hreg; simp [Pc.registered] at hreg
      · rcases hI.own i c hc' hreg with h | ⟨j, c', h1, h2, h3⟩
        · exact Or.inl h
        · exact Or.inr ⟨j, c', h1, hold _ _ h2, h3⟩
    · intro i c hc hn
      rcases hnew i c hc with hp | hc'
      · rw [hp] at hn; simp [Pc.needsAdp] at hn
      · exact hI.adpv i c hc' hn
  | call i ca =>
    simp only [step] at h
    split at h
    · next c hc =>
      obtain ⟨c', hs, hr⟩ := callStep_summary hc h
      exact inv_of_summary hI hc hs (by intro r x hx; rw [hr] at hx; exact ⟨x, hx, rfl, rfl, fun _ h => h⟩)
    · contradiction
  | emit a p =>
    simp only [step] at h
    split at h
    · injection h with h; subst h
      refine inv_of_frame hI rfl rfl rfl rfl rfl rfl (fun x hx => List.mem_cons_of_mem _ hx) rfl ?_
      intro r x hx
      rcases getElem?_append_one_cases hx with ⟨_, rfl⟩ | ⟨_, hx'⟩
      · exact ⟨List.mem_cons_self, by intro j hj; simp at hj⟩
      · exact ⟨List.mem_cons_of_mem _ (hI.emi r x hx'), fun j hj => hI.off r x j hx' hj⟩
    · contradiction
  | garbage a =>
    simp only [step] at h
    split at h
    · injection h with h; subst h; exact hI
    · contradiction
  | lookup r =>
    simp only [step] at h
    split at h
    · next x hx =>
      split at h
      · next hpc =>
        injection h with h; subst h
        refine inv_of_frame hI rfl rfl rfl rfl rfl rfl (fun x hx => hx) rfl ?_
        intro r' y hy
        rcases getElem?_set_cases hy with ⟨_, rfl⟩ | ⟨_, hy'⟩
        · refine ⟨hI.emi r x hx, ?_⟩
          intro j hj
          obtain ⟨hl, hz, ho⟩ := lookupPc_offer hj
          obtain ⟨e, he, h1, h2, h3⟩ := tLoad_some hl
          obtain ⟨c, hc0, hc1, hc2, hc3⟩ := hI.tbl e he
          exact ⟨⟨c, by rw [← h3]; exact hc0, by rw [hc1]; exact h2, by rw [hc2]; exact h1,
            Pc.stored_of_registered hc3⟩, hz, ho⟩
        · exact ⟨hI.emi r' y hy', fun j hj => hI.off r' y j hy' hj⟩
      · contradiction
    · contradiction
  | deliver r =>
    simp only [step] at h
    split at h
    · next x hx =>
      split at h
      · next i hpc =>
        split at h
        · next c hc =>
          split at h
          · next hw =>
            injection h with h; subst h
            obtain ⟨⟨c0, h0, h1, h2, h3⟩, h4, h5⟩ := hI.off r x i hx hpc
            rw [hc] at h0; injection h0 with h0; subst h0
            have hs : Summary s i c ((s.setCall i { c with pc := .decQ (.reply x.pkt) }).setRcv r { x with pc := .delivered })
                { c with pc := .decQ (.reply x.pkt) } := by
              refine ⟨rfl, rfl, rfl, rfl, ?_, ?_, ?_, ?_, ?_, ?_, ?_, ?_, ?_, ?_, ?_⟩ <;>
                simp_all [State.setCall, State.setRcv, qd, nd, Pc.inQueue, Pc.inInvoke, Pc.registered, Pc.hasId,
                  Pc.stored, Pc.outcome?, Pc.needsAdp]
              have := hI.emi r x hx
              first | (rw [h2]; exact this) | (rw [← h2]; exact this) | exact this
            refine inv_of_summary hI hc hs ?_
            intro r' y hy
            rcases getElem?_set_cases hy with ⟨rfl, rfl⟩ | ⟨_, hy'⟩
            · exact ⟨x, hx, rfl, rfl, by intro j hj; simp at hj⟩
            · exact ⟨y, hy', rfl, rfl, fun _ h => h⟩
          all_goals contradiction
        · contradiction
      all_goals contradiction
    · contradiction
  | giveUp r =>
    simp only [step] at h
    split at h
    · next x hx =>
      split at h
      · injection h with h; subst h
        refine inv_of_frame hI rfl rfl rfl rfl rfl rfl (fun x hx => hx) rfl ?_
        intro r' y hy
        rcases getElem?_set_cases hy with ⟨_, rfl⟩ | ⟨_, hy'⟩
        · exact ⟨hI.emi r x hx, by intro j hj; simp at hj⟩
        · exact ⟨hI.emi r' y hy', fun j hj => hI.off r' y j hy' hj⟩
      · contradiction
    · contradiction
  | drain a =>
    simp only [step] at h
    split at h
    · split at h
      · injection h with h; subst h
        exact inv_of_frame hI rfl rfl rfl rfl rfl rfl (fun x hx => hx) (by simp [State.setConn])
          (fun r x hx => ⟨hI.emi r x hx, fun j hj => hI.off r x j hx hj⟩)
      · contradiction
    · contradiction
  | connClose a =>
    simp only [step] at h
    split at h
    · split at h
      · contradiction
      · injection h with h; subst h
        exact inv_of_frame hI rfl rfl rfl rfl rfl rfl (fun x hx => hx) (by simp [State.setConn])
          (fun r x hx => ⟨hI.emi r x hx, fun j hj => hI.off r x j hx hj⟩)
    · contradiction

  | kaCas =>
    simp only [step] at h; injection h with h; subst h
    exact ⟨hI.ql, hI.kax, hI.qpx, hI.inv, hI.tbl, hI.off, hI.emi, hI.rep, hI.idl, hI.sqd, hI.own, hI.adpv⟩
  | kaAdd =>
    simp only [step] at h; injection h with h; subst h
    refine ⟨hI.ql, hI.kax, hI.qpx, hI.inv, hI.tbl, hI.off, hI.emi, hI.rep, ?_, hI.sqd, hI.own, hI.adpv⟩
    intro i c hc hid
    obtain ⟨h1, h2⟩ := hI.idl i c hc hid
    refine ⟨h1, ?_⟩
    simp only [Gen.add]
    split
    · rw [List.reverse_cons, List.getElem?_append_left]
      · exact h2
      · have := lt_of_getElem? h2; simpa using this
    · exact h2
  | kaTake p =>
    simp only [step] at h
    split at h
    · next hp =>
      injection h with h; subst h
      refine ⟨?_, ?_, ?_, hI.inv, hI.tbl, hI.off, hI.emi, hI.rep, hI.idl, hI.sqd, hI.own, hI.adpv⟩
      · intro q
        simp only [qGet_qAdd hp, List.count_cons, hI.ql q, Consts.callQueueLenInc]
        by_cases hq : p = q <;> simp [hq] <;> omega
      · intro q hq
        rw [qAdd_length]
        rcases List.mem_cons.mp hq with rfl | hq'
        · exact hp
        · exact hI.kax q hq'
      · intro i c hc; rw [qAdd_length]; exact hI.qpx i c hc
    · contradiction
  | kaRelease p =>
    simp only [step] at h
    split at h
    · next hm =>
      injection h with h; subst h
      have hp := hI.kax p hm
      refine ⟨?_, ?_, ?_, hI.inv, hI.tbl, hI.off, hI.emi, hI.rep, hI.idl, hI.sqd, hI.own, hI.adpv⟩
      · intro q
        simp only [qGet_qAdd hp, List.count_erase, hI.ql q, Consts.callQueueLenInc]
        by_cases hq : p = q
        · subst hq
          have := List.count_pos_iff.mpr hm
          simp; omega
        · simp [hq]
      · intro q hq
        rw [qAdd_length]
        exact hI.kax q (List.mem_of_mem_erase hq)
      · intro i c hc; rw [qAdd_length]; exact hI.qpx i c hc
    · contradiction

theorem inv_reachable {cfg : Cfg} {ctr : Int} {s : State} (h : Reachable cfg ctr s) : Inv s := by
  induction h with
  | init => exact inv_init cfg ctr
  | step a _ hs ih => exact inv_step ih hs

/-- the id counter only moves by the two atomic steps of `genRequestID` -/
theorem step_gen {cfg : Cfg} {s s' : State} {a : Action} (h : step cfg s a = some s') :
    s'.gen = s.gen ∨ s'.gen = s.gen.cas ∨ s'.gen = s.gen.add := by
  cases a with
  | call i ca =>
    simp only [step] at h
    split at h
    · next c hc =>
      obtain ⟨c', hs, _⟩ := callStep_summary hc h
      rcases hs.gen with ⟨hg, _⟩ | ⟨hg, _⟩ | ⟨hg, _⟩
      · exact Or.inl hg
      · exact Or.inr (Or.inl hg)
      · exact Or.inr (Or.inr hg)
    · contradiction
  | spawn par => simp only [step] at h; injection h with h; subst h; exact Or.inl rfl
  | kaCas => simp only [step] at h; injection h with h; subst h; exact Or.inr (Or.inl rfl)
  | kaAdd => simp only [step] at h; injection h with h; subst h; exact Or.inr (Or.inr rfl)
  | _ =>
    simp only [step] at h
    repeat' (split at h)
    all_goals (try contradiction)
    all_goals (injection h with h; subst h; exact Or.inl rfl)

theorem genInv_reachable {cfg : Cfg} {ctr : Int} {s : State} (hr : InRange ctr) (h : Reachable cfg ctr s) :
    GenInv s.gen := by
  induction h with
  | init => exact genInv_start hr
  | step a _ hs ih =>
    rcases step_gen hs with hg | hg | hg <;> rw [hg]
    · exact ih
    · exact genInv_cas ih
    · exact genInv_add ih

end Tars.Route
