/-
  Trace-level consequences of invariant, progress and variant for the pool model (C19).
-/
import TarsModel.Proofs.PoolProgress

namespace Tars.Pool

/-- is the action "worker calls `job_j()`" -/
def Action.isStartOf (j : Job) : Action → Bool
  | .start _ k => k == j
  | _ => false

/-- number of times `job_j()` is called in a schedule -/
def startsOf (j : Job) (as : List Action) : Nat := as.countP (Action.isStartOf j)

/-- started-ness of job `j`: its body is executing or has returned -/
def startedN (s : State) (j : Job) : Nat := rcount j s.ws + s.done.count j

theorem rcount_set (j : Job) (ws : List WPc) (w : Wid) (old new : WPc) (h : ws[w]? = some old) :
    rcount j (ws.set w new) + old.running.count j = rcount j ws + new.running.count j :=
  sumBy_set (fun x => x.running.count j) ws w old new h

/-- one step changes `startedN j` exactly when it is a start of `j` -/
theorem startedN_step {cfg : Cfg} {s s' : State} {a : Action} (j : Job)
    (h : step cfg s a = some s') :
    startedN s' j = startedN s j + (if a.isStartOf j then 1 else 0) := by
  cases a <;> simp only [step] at h
  case subCall k => unfold stepSubCall at h; split at h <;> cases h; simp [startedN, Action.isStartOf]
  case subSend k =>
    unfold stepSubSend at h
    split at h
    · split at h
      · cases h; simp [startedN, Action.isStartOf]
      · split at h <;> cases h; simp [startedN, Action.isStartOf]
    · cases h
  case subRet k => unfold stepSubRet at h; split at h <;> cases h; simp [startedN, Action.isStartOf]
  case wReg w =>
    unfold stepWReg at h
    split at h
    · rename_i hc
      have := rcount_set j s.ws w .reg .wait hc.1
      cases h; simp [startedN, Action.isStartOf, WPc.running] at this ⊢; omega
    · cases h
  case dTake => unfold stepDTake at h; split at h <;> cases h; simp [startedN, Action.isStartOf]
  case dPick => unfold stepDPick at h; split at h <;> cases h; simp [startedN, Action.isStartOf]
  case dGive =>
    unfold stepDGive at h
    split at h
    · split at h
      · rename_i k w hd hget
        have := rcount_set j s.ws w .wait (.got k) hget
        cases h; simp [startedN, Action.isStartOf, WPc.running] at this ⊢; omega
      · cases h
    · cases h
  case start w k =>
    unfold stepStart at h
    split at h
    · rename_i hget
      have := rcount_set j s.ws w (.got k) (.run k) hget
      cases h
      by_cases hk : k = j <;> simp [startedN, Action.isStartOf, WPc.running, hk] at this ⊢ <;> omega
    · cases h
  case fin w k =>
    unfold stepFin at h
    split at h
    · rename_i hget
      have := rcount_set j s.ws w (.run k) .reg hget
      cases h
      by_cases hk : k = j <;>
        simp [startedN, Action.isStartOf, WPc.running, hk] at this ⊢ <;> omega
    · cases h
  case relCall => unfold stepRelCall at h; split at h <;> cases h; simp [startedN, Action.isStartOf]
  case relSend => unfold stepRelSend at h; split at h <;> cases h; simp [startedN, Action.isStartOf]
  case sTake =>
    unfold stepSTake at h
    split at h
    · split at h <;> cases h; simp [startedN, Action.isStartOf]
    · cases h
  case sSend =>
    unfold stepSSend at h
    split at h
    · split at h
      · rename_i i w hd hget
        have := rcount_set j s.ws w .wait .stopAck hget
        cases h; simp [startedN, Action.isStartOf, WPc.running] at this ⊢; omega
      · cases h
    · cases h
  case sAck =>
    unfold stepSAck at h
    split at h
    · split at h
      · rename_i i w hd hget
        have := rcount_set j s.ws w .stopAck .dead hget
        cases h; simp [startedN, Action.isStartOf, WPc.running] at this ⊢; omega
      · cases h
    · cases h
  case dAck =>
    unfold stepDAck at h
    split at h
    · split at h <;> cases h; simp [startedN, Action.isStartOf]
    · cases h
  case relRet => unfold stepRelRet at h; split at h <;> cases h; simp [startedN, Action.isStartOf]

theorem startedN_run {cfg : Cfg} (j : Job) : ∀ (as : List Action) {s s' : State},
    run cfg s as = some s' → startedN s' j = startedN s j + startsOf j as
  | [], s, s', h => by simp [run] at h; subst h; simp [startsOf]
  | a :: as, s, s', h => by
    simp only [run] at h
    split at h
    · rename_i s1 hs
      have h1 := startedN_step j hs
      have h2 := startedN_run j as h
      by_cases ha : a.isStartOf j <;> simp [startsOf, ha] at h1 h2 ⊢ <;> omega
    · cases h

theorem rcount_le_wcount (j : Job) : ∀ ws : List WPc, rcount j ws ≤ wcount j ws
  | [] => by simp [rcount, wcount, sumBy]
  | x :: xs => by
    have := rcount_le_wcount j xs
    cases x <;> simp [rcount, wcount, sumBy, WPc.running, WPc.jobs] at this ⊢ <;> omega

theorem startedN_init (cfg : Cfg) (j : Job) : startedN (init cfg) j = 0 := by
  simp [startedN, init, rcount, sumBy_replicate, WPc.running]

/-- in a reachable state each job is in at most one place -/
theorem startedN_le_one {cfg : Cfg} {s : State} (hi : Inv cfg s) (j : Job) : startedN s j ≤ 1 := by
  have h1 := hi.cons j
  have h2 := rcount_le_wcount j s.ws
  have h3 : s.submitted.count j ≤ 1 := List.nodup_iff_count.mp hi.subNodup j
  simp [startedN]; omega

theorem length_flatMap_le {α β : Type} (f : α → List β) (hf : ∀ x, (f x).length ≤ 1) :
    ∀ l : List α, (l.flatMap f).length ≤ l.length
  | [] => by simp
  | x :: xs => by
    have := length_flatMap_le f hf xs
    have := hf x
    simp only [List.flatMap_cons, List.length_append, List.length_cons]; omega

/-! ### bounded non-environment runs, and existence of completing runs -/

theorem run_bounded {cfg : Cfg} : ∀ (as : List Action) {s s' : State}, Inv cfg s →
    run cfg s as = some s' → (∀ a ∈ as, a.isEnv = false) → as.length + mu cfg s' ≤ mu cfg s
  | [], s, s', _, h, _ => by simp [run] at h; subst h; simp
  | a :: as, s, s', hi, h, hne => by
    simp only [run] at h
    split at h
    · rename_i s1 hs
      have h1 := variant hi hs (hne a (by simp))
      have h2 := run_bounded as (inv_step a hi hs) h (fun b hb => hne b (by simp [hb]))
      simp; omega
    · cases h

theorem run_append {cfg : Cfg} : ∀ (as bs : List Action) {s s1 s2 : State},
    run cfg s as = some s1 → run cfg s1 bs = some s2 → run cfg s (as ++ bs) = some s2
  | [], bs, s, s1, s2, h1, h2 => by simp [run] at h1; subst h1; simpa using h2
  | a :: as, bs, s, s1, s2, h1, h2 => by
    simp only [run, List.cons_append] at h1 ⊢
    split at h1
    · rename_i s' hs
      exact run_append as bs h1 h2
    · cases h1

/-- a non-environment step neither calls `Release` nor submits -/
theorem nonenv_keeps {cfg : Cfg} {s s' : State} {a : Action} (h : step cfg s a = some s')
    (ha : a.isEnv = false) :
    s'.submitted = s.submitted ∧ (s.rel = .idle → s'.rel = .idle) ∧ (s.rel ≠ .idle → s'.rel ≠ .idle) := by
  cases a <;> simp only [step, Action.isEnv] at h ha
  case subCall => cases ha
  case subSend => cases ha
  case relCall => cases ha
  case subRet k => unfold stepSubRet at h; split at h <;> cases h; simp
  case wReg w => unfold stepWReg at h; split at h <;> cases h; simp
  case dTake => unfold stepDTake at h; split at h <;> cases h; simp
  case dPick => unfold stepDPick at h; split at h <;> cases h; simp
  case dGive =>
    unfold stepDGive at h
    split at h
    · split at h <;> cases h; simp
    · cases h
  case start w k => unfold stepStart at h; split at h <;> cases h; simp
  case fin w k => unfold stepFin at h; split at h <;> cases h; simp
  case relSend =>
    unfold stepRelSend at h
    split at h
    · rename_i hc; cases h; simp [hc.1]
    · cases h
  case sTake =>
    unfold stepSTake at h
    split at h
    · split at h <;> cases h; simp
    · cases h
  case sSend =>
    unfold stepSSend at h
    split at h
    · split at h <;> cases h; simp
    · cases h
  case sAck =>
    unfold stepSAck at h
    split at h
    · split at h <;> cases h; simp
    · cases h
  case dAck =>
    unfold stepDAck at h
    split at h
    · split at h
      · rename_i hc; cases h; simp [hc.2]
      · cases h
    · cases h
  case relRet =>
    unfold stepRelRet at h
    split at h
    · rename_i hc; cases h; simp [hc]
    · cases h

/-- once `Release` was called, the pool's own steps bring it to `returned` (no new work assumed) -/
theorem release_completes_aux {cfg : Cfg} (hn : 1 ≤ cfg.n) : ∀ (m : Nat) (s : State), mu cfg s ≤ m →
    Inv cfg s → s.rel ≠ .idle →
    ∃ (as : List Action) (s' : State), (∀ a ∈ as, a.isEnv = false) ∧ run cfg s as = some s' ∧
      s'.rel = .returned
  | 0, s, hm, hi, hr => by
    by_cases hret : s.rel = .returned
    · exact ⟨[], s, by simp, rfl, hret⟩
    · obtain ⟨a, ha, hs⟩ := progress hi hn (fun h => absurd h hr) hret
      obtain ⟨s1, hs1⟩ := Option.isSome_iff_exists.mp hs
      have := variant hi hs1 ha
      omega
  | m + 1, s, hm, hi, hr => by
    by_cases hret : s.rel = .returned
    · exact ⟨[], s, by simp, rfl, hret⟩
    · obtain ⟨a, ha, hs⟩ := progress hi hn (fun h => absurd h hr) hret
      obtain ⟨s1, hs1⟩ := Option.isSome_iff_exists.mp hs
      have hv := variant hi hs1 ha
      obtain ⟨as, s', hne, hrun, hfin⟩ := release_completes_aux hn m s1 (by omega) (inv_step a hi hs1)
        ((nonenv_keeps hs1 ha).2.2 hr)
      refine ⟨a :: as, s', ?_, ?_, hfin⟩
      · intro b hb
        cases hb with
        | head => exact ha
        | tail _ hb => exact hne b hb
      · simp [run, hs1, hrun]

/-- without a `Release` call and without new submissions, the pool's own steps finish every
    submitted job -/
theorem drain_aux {cfg : Cfg} (hn : 1 ≤ cfg.n) : ∀ (m : Nat) (s : State), mu cfg s ≤ m →
    Inv cfg s → s.rel = .idle →
    ∃ (as : List Action) (s' : State), (∀ a ∈ as, a.isEnv = false) ∧ run cfg s as = some s' ∧
      s'.submitted = s.submitted ∧ s'.rel = .idle ∧ ∀ j ∈ s'.submitted, j ∈ s'.done
  | 0, s, hm, hi, hr => by
    by_cases hall : ∀ j ∈ s.submitted, j ∈ s.done
    · exact ⟨[], s, by simp, rfl, rfl, hr, hall⟩
    · have hex : ∃ j, j ∈ s.submitted ∧ j ∉ s.done := by
        apply Classical.byContradiction
        intro hne
        apply hall
        intro j hj
        apply Classical.byContradiction
        intro hjd
        exact hne ⟨j, hj, hjd⟩
      obtain ⟨a, ha, hs⟩ := progress hi hn (fun _ => hex) (by simp [hr])
      obtain ⟨s1, hs1⟩ := Option.isSome_iff_exists.mp hs
      have := variant hi hs1 ha
      omega
  | m + 1, s, hm, hi, hr => by
    by_cases hall : ∀ j ∈ s.submitted, j ∈ s.done
    · exact ⟨[], s, by simp, rfl, rfl, hr, hall⟩
    · have hex : ∃ j, j ∈ s.submitted ∧ j ∉ s.done := by
        apply Classical.byContradiction
        intro hne
        apply hall
        intro j hj
        apply Classical.byContradiction
        intro hjd
        exact hne ⟨j, hj, hjd⟩
      obtain ⟨a, ha, hs⟩ := progress hi hn (fun _ => hex) (by simp [hr])
      obtain ⟨s1, hs1⟩ := Option.isSome_iff_exists.mp hs
      have hv := variant hi hs1 ha
      have hk := nonenv_keeps hs1 ha
      obtain ⟨as, s', hne, hrun, hsub, hrel, hfin⟩ := drain_aux hn m s1 (by omega) (inv_step a hi hs1)
        (hk.2.1 hr)
      refine ⟨a :: as, s', ?_, ?_, by rw [hsub, hk.1], hrel, hfin⟩
      · intro b hb
        cases hb with
        | head => exact ha
        | tail _ hb => exact hne b hb
      · simp [run, hs1, hrun]

/-! ### after `Release` returned -/

theorem all_dead_of_returned {cfg : Cfg} {s : State} (hi : Inv cfg s) (hr : s.rel = .returned) :
    s.d = .done ∧ ∀ (w : Wid) (x : WPc), s.ws[w]? = some x → x = .dead := by
  have hph := hi.phase
  have hd : s.d = .done := by
    cases hd : s.d <;> simp [hr, hd, phaseOk] at hph ⊢
  refine ⟨hd, ?_⟩
  intro w x hx
  have hD := hi.deadCnt
  simp [hd, DPc.stopIdx] at hD
  have := sumBy_eq_length WPc.isDead WPc.isDead_le s.ws (by rw [hD, hi.len]) w x hx
  cases x <;> simp [WPc.isDead] at this ⊢

/-- after `Release` returned only submitter actions are possible; they keep `returned`, never start
    a job, and never remove anything from the job queue -/
theorem after_returned_step {cfg : Cfg} {s s' : State} {a : Action} (hi : Inv cfg s)
    (hr : s.rel = .returned) (h : step cfg s a = some s') :
    s'.rel = .returned ∧ a.isStart = false ∧ (∀ j ∈ s.jobQ, j ∈ s'.jobQ) ∧ s'.done = s.done := by
  obtain ⟨hd, hdead⟩ := all_dead_of_returned hi hr
  cases a <;> simp only [step] at h
  case subCall k => unfold stepSubCall at h; split at h <;> cases h; simp [hr, Action.isStart]
  case subSend k =>
    unfold stepSubSend at h
    split at h
    · split at h
      · cases h; simp [hr, Action.isStart]; intro j hj; exact Or.inl hj
      · split at h
        · rename_i hc; simp [hd] at hc
        · cases h
    · cases h
  case subRet k => unfold stepSubRet at h; split at h <;> cases h; simp [hr, Action.isStart]
  case wReg w =>
    unfold stepWReg at h
    split at h
    · rename_i hc; have := hdead w _ hc.1; cases this
    · cases h
  case dTake => unfold stepDTake at h; split at h <;> simp_all
  case dPick => unfold stepDPick at h; split at h <;> simp_all
  case dGive => unfold stepDGive at h; split at h <;> simp_all
  case start w k =>
    unfold stepStart at h
    split at h
    · rename_i hc; have := hdead w _ hc; cases this
    · cases h
  case fin w k =>
    unfold stepFin at h
    split at h
    · rename_i hc; have := hdead w _ hc; cases this
    · cases h
  case relCall => unfold stepRelCall at h; split at h <;> simp_all
  case relSend => unfold stepRelSend at h; split at h <;> simp_all
  case sTake => unfold stepSTake at h; split at h <;> simp_all
  case sSend => unfold stepSSend at h; split at h <;> simp_all
  case sAck => unfold stepSAck at h; split at h <;> simp_all
  case dAck => unfold stepDAck at h; split at h <;> simp_all
  case relRet => unfold stepRelRet at h; split at h <;> simp_all

theorem after_returned_run {cfg : Cfg} : ∀ (as : List Action) {s s' : State}, Inv cfg s →
    s.rel = .returned → run cfg s as = some s' →
    s'.rel = .returned ∧ (∀ a ∈ as, a.isStart = false) ∧ (∀ j ∈ s.jobQ, j ∈ s'.jobQ) ∧ s'.done = s.done
  | [], s, s', _, hr, h => by simp [run] at h; subst h; simp [hr]
  | a :: as, s, s', hi, hr, h => by
    simp only [run] at h
    split at h
    · rename_i s1 hs
      obtain ⟨h1, h2, h3, h4⟩ := after_returned_step hi hr hs
      obtain ⟨g1, g2, g3, g4⟩ := after_returned_run as (inv_step a hi hs) h1 h
      refine ⟨g1, ?_, fun j hj => g3 j (h3 j hj), by rw [g4, h4]⟩
      intro b hb
      cases hb with
      | head => exact h2
      | tail _ hb => exact g2 b hb
    · cases h

end Tars.Pool
