import TarsModel.Proofs.ServerConnBasic

/-!
Helper lemmas for C12, part 2: the global invariant of the shutdown LTS and its preservation by every
action (any configuration, any interleaving).
-/
namespace Tars.ServerConn

def ConnsInv (l : List Conn) : Prop := ∀ (c : Nat) (k : Conn), l[c]? = some k → ConnInv k
def ConnsSafe (l : List Conn) : Prop := ∀ (c : Nat) (k : Conn), l[c]? = some k → ConnSafe k
def ConnsMono (l l' : List Conn) : Prop :=
  ∀ (c : Nat) (k : Conn), l[c]? = some k → ∃ k', l'[c]? = some k' ∧ ConnMono k k'
def ClosedAt (l : List Conn) (c : Cid) : Prop := ∃ k, l[c]? = some k ∧ k.srvClosed = true
def StartedAt (l : List Conn) (c : Cid) : Prop := ∃ k, l[c]? = some k ∧ k.started
/-- every accepted connection's goroutine has returned -/
def AllGone (l : List Conn) : Prop := ∀ (c : Nat) (k : Conn), l[c]? = some k → k.rpc = .closed ∨ k.rpc = .backlog

structure GInv (cfg : Cfg) (s : State) : Prop where
  conns : ConnsInv s.conns
  safe : cfg.ci ≠ .asFound → ConnsSafe s.conns
  noHold : cfg.ci ≠ .asFound → ∀ p, s.pass = some p → p.holding = none
  lastStarted : ∀ c ∈ s.lastPass, StartedAt s.conns c
  passInv : ∀ p, s.pass = some p → s.spc = .polling ∧
    (p.all = true → ∀ c ∈ s.lastPass, c ∈ p.todo ∨ p.holding = some c ∨ ClosedAt s.conns c)
  retInv : s.spc = .returned true → ∀ c ∈ s.lastPass, ClosedAt s.conns c
  poolInv : cfg.releaseAfterDrain = true → s.pst ≠ .live → s.apc ≠ .accepting ∧ AllGone s.conns

theorem ConnsMono.refl (l : List Conn) : ConnsMono l l := fun _ k h => ⟨k, h, ConnMono.refl k⟩

theorem ConnsMono.trans {a b c : List Conn} (h1 : ConnsMono a b) (h2 : ConnsMono b c) : ConnsMono a c := by
  intro i k hk
  obtain ⟨k1, hk1, m1⟩ := h1 i k hk
  obtain ⟨k2, hk2, m2⟩ := h2 i k1 hk1
  exact ⟨k2, hk2, m1.trans m2⟩

theorem ClosedAt.mono {l l' : List Conn} (hm : ConnsMono l l') {c : Cid} (h : ClosedAt l c) : ClosedAt l' c := by
  obtain ⟨k, hk, hc⟩ := h
  obtain ⟨k', hk', m⟩ := hm c k hk
  exact ⟨k', hk', m.closedM hc⟩

theorem StartedAt.mono {l l' : List Conn} (hm : ConnsMono l l') {c : Cid} (h : StartedAt l c) : StartedAt l' c := by
  obtain ⟨k, hk, hc⟩ := h
  obtain ⟨k', hk', m⟩ := hm c k hk
  exact ⟨k', hk', m.startedM hc⟩

theorem getElem?_set_cases {l : List Conn} {c c' : Nat} {k k' x : Conn} (hk : l[c]? = some k)
    (h : (l.set c k')[c']? = some x) : (c' = c ∧ x = k') ∨ (c' ≠ c ∧ l[c']? = some x) := by
  by_cases hcc : c = c'
  · subst hcc
    have hlt : c < l.length := by
      have := List.getElem?_eq_some_iff.mp hk
      exact this.1
    rw [List.getElem?_set_self hlt] at h
    left; exact ⟨rfl, (Option.some.inj h).symm⟩
  · rw [List.getElem?_set_ne hcc] at h
    right; exact ⟨fun e => hcc e.symm, h⟩

theorem getElem?_set_self' {l : List Conn} {c : Nat} {k k' : Conn} (hk : l[c]? = some k) :
    (l.set c k')[c]? = some k' := by
  have hlt : c < l.length := (List.getElem?_eq_some_iff.mp hk).1
  exact List.getElem?_set_self hlt

theorem connsMono_set {l : List Conn} {c : Nat} {k k' : Conn} (hk : l[c]? = some k) (hm : ConnMono k k') :
    ConnsMono l (l.set c k') := by
  intro c' x hx
  by_cases hcc : c = c'
  · subst hcc
    rw [hk] at hx
    cases hx
    exact ⟨k', getElem?_set_self' hk, hm⟩
  · exact ⟨x, by rw [List.getElem?_set_ne hcc]; exact hx, ConnMono.refl x⟩

theorem connsInv_set {l : List Conn} {c : Nat} {k k' : Conn} (hl : ConnsInv l) (hk : l[c]? = some k)
    (hi : ConnInv k') : ConnsInv (l.set c k') := by
  intro c' x hx
  rcases getElem?_set_cases hk hx with ⟨_, rfl⟩ | ⟨_, h⟩
  · exact hi
  · exact hl c' x h

theorem connsSafe_set {l : List Conn} {c : Nat} {k k' : Conn} (hl : ConnsSafe l) (hk : l[c]? = some k)
    (hi : ConnSafe k') : ConnsSafe (l.set c k') := by
  intro c' x hx
  rcases getElem?_set_cases hk hx with ⟨_, rfl⟩ | ⟨_, h⟩
  · exact hi
  · exact hl c' x h

theorem allGone_set {l : List Conn} {c : Nat} {k k' : Conn} (hl : AllGone l) (hk : l[c]? = some k)
    (hm : ConnMono k k') (hs : k.rpc = .backlog → k'.rpc = .backlog) : AllGone (l.set c k') := by
  intro c' x hx
  rcases getElem?_set_cases hk hx with ⟨_, rfl⟩ | ⟨_, h⟩
  · rcases hl c k hk with h | h
    · exact Or.inl (hm.pcClosedM h)
    · exact Or.inr (hs h)
  · exact hl c' x h

/-- replacing one connection record by a `Good` successor preserves the global invariant, provided a
connection in the backlog stays there (or the accept loop is still running) and — where the safety
clause is claimed — the successor is safe -/
theorem ginv_set {cfg : Cfg} {s : State} {c : Cid} {k k' : Conn} (hI : GInv cfg s)
    (hk : s.conns[c]? = some k) (hi : ConnInv k') (hm : ConnMono k k')
    (hsafe : cfg.ci ≠ .asFound → ConnSafe k → ConnSafe k')
    (hstay : (k.rpc = .backlog → k'.rpc = .backlog) ∨ s.apc = .accepting)
    {s' : State} (hc : s'.conns = s.conns.set c k') (hp : s'.pass = s.pass) (hl : s'.lastPass = s.lastPass)
    (hspc : s'.spc = s.spc) (hpst : s'.pst = s.pst) (hapc : s'.apc = s.apc) : GInv cfg s' := by
  have hmono : ConnsMono s.conns s'.conns := by rw [hc]; exact connsMono_set hk hm
  refine ⟨?_, ?_, ?_, ?_, ?_, ?_, ?_⟩
  · rw [hc]; exact connsInv_set hI.conns hk hi
  · intro hci; rw [hc]; exact connsSafe_set (hI.safe hci) hk (hsafe hci (hI.safe hci c k hk))
  · intro hci p h; rw [hp] at h; exact hI.noHold hci p h
  · intro c' hc'; rw [hl] at hc'; exact (hI.lastStarted c' hc').mono hmono
  · intro p h
    rw [hp] at h
    obtain ⟨h1, h2⟩ := hI.passInv p h
    refine ⟨by rw [hspc]; exact h1, ?_⟩
    intro ha c' hc'
    rw [hl] at hc'
    rcases h2 ha c' hc' with h | h | h
    · exact Or.inl h
    · exact Or.inr (Or.inl h)
    · exact Or.inr (Or.inr (h.mono hmono))
  · intro hr c' hc'
    rw [hspc] at hr; rw [hl] at hc'
    exact (hI.retInv hr c' hc').mono hmono
  · intro hra hne
    rw [hpst] at hne
    obtain ⟨ha, hg⟩ := hI.poolInv hra hne
    refine ⟨by rw [hapc]; exact ha, ?_⟩
    rw [hc]
    rcases hstay with hs | hs
    · exact allGone_set hg hk hm hs
    · exact absurd hs ha

theorem updConn_some {s s' : State} {c : Cid} {f : Conn → Option Conn} (h : updConn s c f = some s') :
    ∃ k k', s.conns[c]? = some k ∧ f k = some k' ∧ s' = { s with conns := s.conns.set c k' } := by
  unfold updConn at h
  split at h <;> try contradiction
  rename_i k hk
  split at h <;> try contradiction
  rename_i k' hf
  exact ⟨k, k', hk, hf, (Option.some.inj h).symm⟩

theorem ginv_updConn {cfg : Cfg} {s s' : State} {c : Cid} {f : Conn → Option Conn} (hg : Good f)
    (hst : Stay f ∨ s.apc = .accepting) (hI : GInv cfg s) (h : updConn s c f = some s') : GInv cfg s' := by
  obtain ⟨k, k', hk, hf, rfl⟩ := updConn_some h
  refine ginv_set hI hk (hg.inv k k' hf (hI.conns c k hk)) (hg.mono k k' hf)
    (fun _ hs => hg.safe k k' hf (hI.conns c k hk) hs) ?_ rfl rfl rfl rfl rfl rfl
  rcases hst with hs | hs
  · exact Or.inl (hs k k' hf)
  · exact Or.inr hs

/-- changing only fields the invariant does not look at -/
theorem ginv_globals {cfg : Cfg} {s s' : State} (hI : GInv cfg s) (hc : s'.conns = s.conns)
    (hp : s'.pass = s.pass) (hl : s'.lastPass = s.lastPass)
    (hspc : s'.spc = s.spc ∨ ((s.pass = none ∨ s.spc ≠ .polling) ∧ s'.spc ≠ .returned true))
    (hpool : cfg.releaseAfterDrain = true → s'.pst ≠ .live → s'.apc ≠ .accepting ∧ AllGone s.conns) :
    GInv cfg s' := by
  refine ⟨by rw [hc]; exact hI.conns, by rw [hc]; exact hI.safe, ?_, by rw [hc, hl]; exact hI.lastStarted,
    ?_, ?_, by rw [hc]; exact hpool⟩
  · intro hci p h; rw [hp] at h; exact hI.noHold hci p h
  · intro p h
    rw [hp] at h
    rw [hc, hl]
    rcases hspc with hs | hs
    · rw [hs]; exact hI.passInv p h
    · rcases hs.1 with h1 | h1
      · rw [h1] at h; contradiction
      · exact absurd (hI.passInv p h).1 h1
  · intro hr
    rw [hc, hl]
    rcases hspc with hs | hs
    · rw [hs] at hr; exact hI.retInv hr
    · exact absurd hr hs.2

theorem mem_registeredIds {s : State} {c : Cid} (h : c ∈ registeredIds s) :
    ∃ k, s.conns[c]? = some k ∧ k.registered = true := by
  unfold registeredIds at h
  rw [List.mem_filter] at h
  obtain ⟨_, h2⟩ := h
  split at h2
  · rename_i k hk; exact ⟨k, hk, h2⟩
  · contradiction

theorem started_of_registered {k : Conn} (hi : ConnInv k) (hr : k.registered = true) : k.started := by
  constructor <;> intro hpc
  · have := (hi.fresh (Or.inl hpc)).2; rw [hr] at this; contradiction
  · have := (hi.fresh (Or.inr hpc)).2; rw [hr] at this; contradiction

theorem closed_of_unregistered_started {k : Conn} (hi : ConnInv k) (hr : k.registered = false)
    (hs : k.started) : k.srvClosed = true := by
  rcases hi.regPc hr with h | h | h
  · exact absurd h hs.1
  · exact absurd h hs.2
  · exact (hi.closedPc h).1

/-! ### `sendCloseMsg` over the whole table -/

theorem connsMono_map_notify (l : List Conn) : ConnsMono l (l.map cNotify) := by
  intro c k hk
  exact ⟨cNotify k, by simp [List.getElem?_map, hk], connMono_cNotify k⟩

theorem map_notify_get {l : List Conn} {c : Nat} {x : Conn} (h : (l.map cNotify)[c]? = some x) :
    ∃ k, l[c]? = some k ∧ x = cNotify k := by
  rw [List.getElem?_map] at h
  cases hk : l[c]? with
  | none => rw [hk] at h; contradiction
  | some k => rw [hk] at h; exact ⟨k, rfl, (Option.some.inj h).symm⟩

theorem ginv_notifyAll {cfg : Cfg} {s : State} (hI : GInv cfg s) : GInv cfg (notifyAll s) := by
  have hmono : ConnsMono s.conns (notifyAll s).conns := connsMono_map_notify s.conns
  refine ⟨?_, ?_, hI.noHold, ?_, ?_, ?_, ?_⟩
  · intro c x hx
    obtain ⟨k, hk, rfl⟩ := map_notify_get hx
    exact connInv_cNotify (hI.conns c k hk)
  · intro hci c x hx
    obtain ⟨k, hk, rfl⟩ := map_notify_get hx
    exact connSafe_cNotify (hI.safe hci c k hk)
  · intro c hc; exact (hI.lastStarted c hc).mono hmono
  · intro p h
    obtain ⟨h1, h2⟩ := hI.passInv p h
    refine ⟨h1, ?_⟩
    intro ha c hc
    rcases h2 ha c hc with h | h | h
    · exact Or.inl h
    · exact Or.inr (Or.inl h)
    · exact Or.inr (Or.inr (h.mono hmono))
  · intro hr c hc; exact (hI.retInv hr c hc).mono hmono
  · intro hra hne
    obtain ⟨ha, hg⟩ := hI.poolInv hra hne
    refine ⟨ha, ?_⟩
    intro c x hx
    obtain ⟨k, hk, rfl⟩ := map_notify_get hx
    rw [cNotify_rpc]; exact hg c k hk

/-! ### every action preserves the invariant -/

theorem allGone_of_check {s : State} (h : allConnGoroutinesDone s = true) : AllGone s.conns := by
  intro c k hk
  unfold allConnGoroutinesDone at h
  rw [List.all_eq_true] at h
  have := h k (mem_of_getElem? hk)
  simp at this
  exact this

theorem allGone_append_new {l : List Conn} (h : AllGone l) : AllGone (l ++ [Conn.new]) := by
  intro c k hk
  by_cases hlt : c < l.length
  · rw [List.getElem?_append_left hlt] at hk; exact h c k hk
  · rw [List.getElem?_append_right (Nat.le_of_not_lt hlt)] at hk
    cases hcl : c - l.length with
    | zero => rw [hcl] at hk; simp at hk; subst hk; right; rfl
    | succ n => rw [hcl] at hk; simp at hk

theorem connsMono_append (l : List Conn) (x : Conn) : ConnsMono l (l ++ [x]) := by
  intro c k hk
  have hlt : c < l.length := (List.getElem?_eq_some_iff.mp hk).1
  exact ⟨k, by rw [List.getElem?_append_left hlt]; exact hk, ConnMono.refl k⟩

theorem ginv_connect {cfg : Cfg} {s : State} (hI : GInv cfg s) :
    GInv cfg { s with conns := s.conns ++ [Conn.new] } := by
  have hmono : ConnsMono s.conns (s.conns ++ [Conn.new]) := connsMono_append _ _
  have hget : ∀ (c : Nat) (x : Conn), (s.conns ++ [Conn.new])[c]? = some x → s.conns[c]? = some x ∨ x = Conn.new := by
    intro c x hx
    by_cases hlt : c < s.conns.length
    · rw [List.getElem?_append_left hlt] at hx; exact Or.inl hx
    · rw [List.getElem?_append_right (Nat.le_of_not_lt hlt)] at hx
      cases hcl : c - s.conns.length with
      | zero => rw [hcl] at hx; simp at hx; exact Or.inr hx.symm
      | succ n => rw [hcl] at hx; simp at hx
  refine ⟨?_, ?_, hI.noHold, ?_, ?_, ?_, ?_⟩
  · intro c x hx
    rcases hget c x hx with h | h
    · exact hI.conns c x h
    · subst h; exact connInv_new
  · intro hci c x hx
    rcases hget c x hx with h | h
    · exact hI.safe hci c x h
    · subst h; intro hcl; simp [Conn.new] at hcl
  · intro c hc; exact (hI.lastStarted c hc).mono hmono
  · intro p h
    obtain ⟨h1, h2⟩ := hI.passInv p h
    refine ⟨h1, ?_⟩
    intro ha c hc
    rcases h2 ha c hc with h | h | h
    · exact Or.inl h
    · exact Or.inr (Or.inl h)
    · exact Or.inr (Or.inr (h.mono hmono))
  · intro hr c hc; exact (hI.retInv hr c hc).mono hmono
  · intro hra hne
    obtain ⟨ha, hg⟩ := hI.poolInv hra hne
    exact ⟨ha, allGone_append_new hg⟩

theorem ginv_init (cfg : Cfg) : GInv cfg init := by
  refine ⟨?_, ?_, ?_, ?_, ?_, ?_, ?_⟩ <;> simp [init, ConnsInv, ConnsSafe]

end Tars.ServerConn
