import TarsModel.Model.SchemaAsFound
import TarsModel.Proofs.EvolveFresh

/-! The as-found `ResetDefault` (before the D13 repair): lemmas for the counterexample statements. -/
namespace Tars
namespace Evolve
open Consts

/-- what the as-found `ResetDefault` leaves in one member: the explicit default if there is one;
    otherwise the previous value (a nested struct is reset recursively) -/
def asFoundResetMember (env : Env) (fuel : Nat) (f : Field) (v : Val) : Val :=
  match f.dflt with
  | some d => d
  | none =>
    match f.ty, v with
    | .struct name, .struct inner =>
      match env.find name with
      | some ifs => .struct (AsFound.resetDefault env fuel ifs inner)
      | none => v
    | _, _ => v

theorem asFound_resetDefault_cons (env : Env) (F : Nat) (f : Field) (fs : List Field) (v : Val)
    (vs : List Val) :
    AsFound.resetDefault env (F+1) (f :: fs) (v :: vs)
      = asFoundResetMember env F f v :: AsFound.resetDefault env (F+1) fs vs := by
  rw [AsFound.resetDefault.eq_def]
  simp only
  unfold asFoundResetMember
  rfl

theorem asFound_resetDefault_nil_left (env : Env) (F : Nat) (vs : List Val) :
    AsFound.resetDefault env (F+1) [] vs = [] := by
  rw [AsFound.resetDefault.eq_def]

theorem asFound_resetDefault_getElem? (env : Env) (F : Nat) (fs : List Field) (vs : List Val)
    (i : Nat) (f : Field) (v : Val) (hf : fs[i]? = some f) (hv : vs[i]? = some v) :
    (AsFound.resetDefault env (F+1) fs vs)[i]? = some (asFoundResetMember env F f v) := by
  induction fs generalizing vs i with
  | nil => simp at hf
  | cons f0 fs ih =>
    cases vs with
    | nil => simp at hv
    | cons v0 vs =>
      rw [asFound_resetDefault_cons]
      cases i with
      | zero => simp at hf hv; subst hf hv; simp
      | succ i => simp at hf hv ⊢; exact ih vs i hf hv

/-- the as-found `ResetDefault` keeps the value of a non-struct member without explicit default -/
theorem asFoundResetMember_plain (env : Env) (F : Nat) (f : Field) (v : Val) (h : f.dflt = none)
    (hty : isStructTy f.ty = false) : asFoundResetMember env F f v = v := by
  unfold asFoundResetMember
  rw [h]
  simp only
  split
  · simp_all [isStructTy]
  · rfl

/-- the reader when member `i`'s turn comes in the as-found `ReadFrom` -/
def asFoundReaderBefore (env : Env) (S : String) (old : Val) (r : Reader) (i : Nat) : Reader :=
  match env.find S, old with
  | some fs, .struct ovs =>
    readerAt env (decFuel env r) fs (AsFound.resetDefault env (decFuel env r) fs ovs) r i
  | _, _ => r

/-- as-found `ReadFrom`: an absent optional member yields `absentVal` of what the as-found
    `ResetDefault` left in it -/
theorem asFound_decStruct_absent_opt (env : Env) (S : String) (fs : List Field) (ovs vs : List Val)
    (r r' : Reader) (hS : env.find S = some fs)
    (h : AsFound.decStruct env S (.struct ovs) r = (.ok (.struct vs), r'))
    (i : Nat) (f : Field) (o : Val) (hf : fs[i]? = some f) (ho : ovs[i]? = some o)
    (hopt : f.req = false)
    (hok : targetOk env f.ty (asFoundResetMember env (decFuel env r - 1) f o) = true)
    (habs : After f.tag (asFoundReaderBefore env S (.struct ovs) r i).rest) :
    vs[i]? = some (absentVal env (decFuel env r - 1 - i - 1) f.ty
      (asFoundResetMember env (decFuel env r - 1) f o)) := by
  unfold AsFound.decStruct at h
  simp only [hS] at h
  rcases hm : decMembers env (decFuel env r) fs (AsFound.resetDefault env (decFuel env r) fs ovs) r
    with ⟨e | vs', r1⟩
  · rw [hm] at h; cases h
  · rw [hm] at h
    simp only [Prod.mk.injEq, Except.ok.injEq, Val.struct.injEq] at h
    obtain ⟨rfl, rfl⟩ := h
    have ho' : (AsFound.resetDefault env (decFuel env r) fs ovs)[i]?
        = some (asFoundResetMember env (decFuel env r - 1) f o) := by
      rw [decFuel_pos]
      exact asFound_resetDefault_getElem? env _ fs ovs i f o hf ho
    have habs' : After f.tag
        (readerAt env (decFuel env r) fs (AsFound.resetDefault env (decFuel env r) fs ovs) r i).rest := by
      simpa [asFoundReaderBefore, hS] using habs
    exact decMembers_absent_opt env _ fs _ r r1 vs' hm i f _ hf ho' hopt hok habs'

end Evolve
end Tars
