import TarsModel.Proofs.TupRT

/-!
  TUP attribute set, helper lemmas part 3: an input that ends inside an entry.  `q` is what is
  left of the input, a proper prefix of the encoding of an entry: the iteration reports an error,
  except when nothing is left or exactly the key is left — then it stores nothing and reports
  nothing (`SkipToNoCheck(1, false)` at the end of the input) — it never stores a partial entry.
-/
namespace Tars.Tup
open Tars Consts

theorem eof_of_rest_nil {r : Reader} (h : r.rest = []) : r.data.size ≤ r.pos := by
  have := rest_length r
  rw [h] at this
  unfold Reader.remaining at this
  simp at this; omega

theorem remaining_of_rest {r : Reader} {q : Bytes} (h : r.rest = q) : r.remaining = q.length := by
  rw [← rest_length, h]

/-- where a proper prefix of `A ++ B` ends -/
theorem split_prefix {q s A B : Bytes} (h : q ++ s = A ++ B) :
    (∃ a, a ≠ [] ∧ A = q ++ a) ∨ (∃ q', q = A ++ q' ∧ q' ++ s = B) := by
  rcases List.append_eq_append_iff.mp h with ⟨a', h1, h2⟩ | ⟨c', h1, h2⟩
  · by_cases ha : a' = []
    · subst ha; exact .inr ⟨[], by simpa using h1.symm, by simpa using h2⟩
    · exact .inl ⟨a', ha, h1⟩
  · exact .inr ⟨c', h1, h2.symm⟩

/-! ### short primitives -/

theorem readByte_eof {r : Reader} (h : r.rest = []) : readByte r = (.error .eof, r) :=
  readByte_eof_of_ge (eof_of_rest_nil h)

theorem bReadU8_eof {r : Reader} (h : r.rest = []) : bReadU8 r = (.error .eof, r) := by
  simp [bReadU8, readByte_eof h]

theorem readFull_short {n : Nat} {r : Reader} (h : r.remaining < n) :
    ∃ r', readFull n r = (.error .eof, r') := by
  unfold readFull
  have hn : ¬ n = 0 := by omega
  rw [if_neg hn]
  by_cases hp : r.pos ≥ r.data.size
  · rw [if_pos hp]; exact ⟨_, rfl⟩
  · rw [if_neg hp, if_pos]
    · exact ⟨_, rfl⟩
    · rw [takeFrom_length]; unfold Reader.remaining at h; omega

theorem bReadU_short {n : Nat} {r : Reader} (h : r.remaining < n) :
    ∃ r', bReadU n r = (.error .eof, r') := by
  obtain ⟨r', e⟩ := readFull_short h
  exact ⟨r', by simp [bReadU, e]⟩

theorem nextExact_short {l : Nat} {r : Reader} (h : r.remaining < l) :
    ∃ r', nextExact l r = (.error .eof, r') := by
  unfold nextExact
  rw [next_spec]
  simp only [Int.toNat_natCast, takeFrom_length]
  rw [if_pos]
  · exact ⟨_, rfl⟩
  · unfold Reader.remaining at h; omega

theorem skipToNoCheck_eof_req (tag : Nat) {r : Reader} (h : r.rest = []) :
    skipToNoCheck tag true r = (.error .require, r) := by
  unfold skipToNoCheck
  rw [Reader.fuel_succ]
  unfold skipToNoCheckF
  simp [readHead, readByte_eof h]

theorem head0 (ty : Nat) : writeHead ty 0 = [byte ty] := by
  simp [writeHead, extTagThreshold]

theorem head1 (ty : Nat) : writeHead ty 1 = [byte (16 + ty)] := by
  simp [writeHead, extTagThreshold]

/-! ### the key cut short -/

/-- `q` is a non-empty proper prefix of the key field: `ReadString` fails -/
theorem readString_truncated (r : Reader) (k q a : Bytes) (hk : k.length < 2 ^ 32) (hr : r.rest = q)
    (hq : writeString k 0 = q ++ a) (ha : a ≠ []) (hne : q ≠ []) :
    ∃ e r', readString [] 0 false r = (.error e, r') := by
  obtain ⟨b, q1, rfl⟩ := List.exists_cons_of_ne_nil hne
  unfold writeString at hq
  split at hq
  · -- STRING4
    rename_i hl
    rw [head0] at hq
    simp only [List.cons_append, List.nil_append, List.cons.injEq] at hq
    obtain ⟨rfl, hq⟩ := hq
    have hh : r.rest = writeHead tySTRING4 0 ++ q1 := by rw [hr, head0]; rfl
    have e0 := skipToNoCheck_hit r tySTRING4 0 false q1 (by decide) (by decide) (by decide) hh
    have r1 := r.rest_adv _ _ hh
    unfold readString
    rw [e0]
    simp only [if_true]
    rcases split_prefix hq.symm with ⟨a', ha', h1⟩ | ⟨q2, h1, h2⟩
    · -- inside the 4 length bytes
      have : (r.adv (writeHead tySTRING4 0).length).remaining < 4 := by
        rw [remaining_of_rest r1]
        have := congrArg List.length h1
        simp only [be_length, List.length_append] at this
        have := List.length_pos_iff.mpr ha'
        omega
      obtain ⟨r', e1⟩ := bReadU_short this
      rw [e1]; exact ⟨_, _, rfl⟩
    · subst h1
      have e1 := bReadU_be _ 4 k.length q2 (by decide) r1
      rw [e1]
      simp only
      have hmod : k.length % 256 ^ 4 = k.length := Nat.mod_eq_of_lt (by simpa using hk)
      rw [hmod]
      have r2 := Reader.rest_adv' _ _ _ 4 r1 (by simp)
      have : ((r.adv (writeHead tySTRING4 0).length).adv 4).remaining < k.length := by
        rw [remaining_of_rest r2]
        have := congrArg List.length h2
        simp only [List.length_append] at this
        have := List.length_pos_iff.mpr ha
        omega
      obtain ⟨r', e2⟩ := nextExact_short this
      rw [e2]; exact ⟨_, _, rfl⟩
  · -- STRING1
    rename_i hl
    have hl' : k.length < 256 := by simp only [str1Max] at hl; omega
    rw [head0] at hq
    simp only [List.cons_append, List.nil_append, List.cons.injEq] at hq
    obtain ⟨rfl, hq⟩ := hq
    have hh : r.rest = writeHead tySTRING1 0 ++ q1 := by rw [hr, head0]; rfl
    have e0 := skipToNoCheck_hit r tySTRING1 0 false q1 (by decide) (by decide) (by decide) hh
    have r1 := r.rest_adv _ _ hh
    unfold readString
    rw [e0]
    simp only [show ¬ tySTRING1 = tySTRING4 by decide, if_false, if_true]
    cases q1 with
    | nil =>
      rw [bReadU8_eof r1]; exact ⟨_, _, rfl⟩
    | cons c q2 =>
      simp only [List.cons_append, List.cons.injEq] at hq
      obtain ⟨rfl, hq⟩ := hq
      rw [bReadU8_cons _ _ q2 r1]
      simp only [byte_val, Nat.mod_eq_of_lt hl']
      have r2 := Reader.rest_adv _ [byte k.length] q2 (by simpa using r1)
      have : ((r.adv (writeHead tySTRING1 0).length).adv 1).remaining < k.length := by
        rw [remaining_of_rest (by simpa using r2)]
        have := congrArg List.length hq
        simp only [List.length_append] at this
        have := List.length_pos_iff.mpr ha
        omega
      obtain ⟨r', e2⟩ := nextExact_short this
      rw [e2]; exact ⟨_, _, rfl⟩

/-! ### the length of the value cut short -/

/-- `q` is a proper prefix of the length field written by `WriteInt32(int32(n), 0)`: the required
    `ReadInt32` fails -/
theorem readInt32_truncated (r : Reader) (n : Nat) (_hn : n < 2 ^ 31) (q a : Bytes) (hr : r.rest = q)
    (hq : writeInt32 (n : Int) 0 = q ++ a) (ha : a ≠ []) :
    ∃ e r', readInt32 0 0 true r = (.error e, r') := by
  have hapos := List.length_pos_iff.mpr ha
  cases q with
  | nil =>
    unfold readInt32
    rw [skipToNoCheck_eof_req 0 hr]
    exact ⟨_, _, rfl⟩
  | cons b q1 =>
    -- the head is there, the payload is short
    have key : ∀ (ty w : Nat) (pl : Bytes), ty < 16 → ty ≠ tyStructEnd → pl.length = w →
        writeInt32 (n : Int) 0 = writeHead ty 0 ++ pl →
        (ty = tyBYTE ∧ w = 1) ∨ (ty = tySHORT ∧ w = 2) ∨ (ty = tyINT ∧ w = 4) ∨ (ty = tyZeroTag ∧ w = 0) →
        ∃ e r', readInt32 0 0 true r = (.error e, r') := by
      intro ty w pl hty hse hw hsh hcase
      rw [hsh, head0] at hq
      simp only [List.cons_append, List.nil_append, List.cons.injEq] at hq
      obtain ⟨rfl, hq⟩ := hq
      have hh : r.rest = writeHead ty 0 ++ q1 := by rw [hr, head0]; rfl
      have e0 := skipToNoCheck_hit r ty 0 true q1 hty hse (by decide) hh
      have r1 := r.rest_adv _ _ hh
      have hshort : (r.adv (writeHead ty 0).length).remaining < w := by
        rw [remaining_of_rest r1]
        have := congrArg List.length hq
        simp only [List.length_append] at this
        omega
      unfold readInt32
      rw [e0]
      rcases hcase with ⟨rfl, rfl⟩ | ⟨rfl, rfl⟩ | ⟨rfl, rfl⟩ | ⟨rfl, rfl⟩
      · have : (r.adv (writeHead tyBYTE 0).length).rest = [] := by
          rw [r1]; exact List.eq_nil_of_length_eq_zero (by rw [remaining_of_rest r1] at hshort; omega)
        simp only [show ¬ tyBYTE = tyZeroTag by decide, if_false, if_true]
        rw [bReadU8_eof this]
        exact ⟨_, _, rfl⟩
      · obtain ⟨r', e1⟩ := bReadU_short hshort
        simp only [show ¬ tySHORT = tyZeroTag by decide, show ¬ tySHORT = tyBYTE by decide, if_false, if_true]
        rw [e1]; exact ⟨_, _, rfl⟩
      · obtain ⟨r', e1⟩ := bReadU_short hshort
        simp only [show ¬ tyINT = tyZeroTag by decide, show ¬ tyINT = tyBYTE by decide,
          show ¬ tyINT = tySHORT by decide, if_false, if_true]
        rw [e1]; exact ⟨_, _, rfl⟩
      · omega
    -- the four shapes of `writeInt32`
    unfold writeInt32 at hq
    by_cases a2 : -32768 ≤ (n : Int) ∧ (n : Int) ≤ 32767
    · unfold writeInt16 at hq
      by_cases a3 : -128 ≤ (n : Int) ∧ (n : Int) ≤ 127
      · unfold writeInt8 at hq
        by_cases a4 : (n : Int) = 0
        · -- a single head byte: a proper prefix of it is empty
          rw [if_pos a2, if_pos a3, if_pos a4, head0] at hq
          have := congrArg List.length hq
          simp only [List.length_cons, List.length_nil, List.length_append] at this
          omega
        · exact key tyBYTE 1 [byte (toU 8 n)] (by decide) (by decide) rfl
            (by unfold writeInt32 writeInt16 writeInt8; rw [if_pos a2, if_pos a3, if_neg a4]) (.inl ⟨rfl, rfl⟩)
      · exact key tySHORT 2 (be 2 (toU 16 n)) (by decide) (by decide) (by simp)
          (by unfold writeInt32 writeInt16; rw [if_pos a2, if_neg a3]) (.inr (.inl ⟨rfl, rfl⟩))
    · exact key tyINT 4 (be 4 (toU 32 n)) (by decide) (by decide) (by simp)
        (by unfold writeInt32; rw [if_neg a2]) (.inr (.inr (.inl ⟨rfl, rfl⟩)))

/-! ### one iteration on an input that ends inside the entry -/

/-- `q` (all that is left of the input) is a proper prefix of the encoding of `(k, v)`:
    the iteration never stores anything; it reports an error unless nothing or exactly the key is
    left, in which case it ends at the end of the input without an error. -/
theorem decodeEntry_truncated (r : Reader) (k v q s : Bytes) (hk : k.length < 2 ^ 32) (hv : v.length < 2 ^ 31)
    (hr : r.rest = q) (hq : q ++ s = encodeEntry k v) (hs : s ≠ []) :
    ((q = [] ∨ q = writeString k 0) ∧ (decodeEntry r).res = .ok none ∧
        (decodeEntry r).rd.data.size ≤ (decodeEntry r).rd.pos) ∨
    (q ≠ [] ∧ q ≠ writeString k 0 ∧ ∃ e, (decodeEntry r).res = .error e) := by
  by_cases hq0 : q = []
  · subst hq0
    have := eof_of_rest_nil hr
    rw [decodeEntry_eof r this]
    exact .inl ⟨.inl rfl, rfl, this⟩
  unfold encodeEntry at hq
  rw [wrapLen _ hv] at hq
  simp only [List.append_assoc] at hq
  rcases split_prefix hq with ⟨a, ha, h1⟩ | ⟨q', h1, h2⟩
  · -- inside the key
    right
    obtain ⟨e, r', he⟩ := readString_truncated r k q a hk hr h1 ha hq0
    refine ⟨hq0, ?_, e, ?_⟩
    · intro h; rw [h] at h1
      have := congrArg List.length h1
      simp only [List.length_append] at this
      have := List.length_pos_iff.mpr ha
      omega
    · unfold decodeEntry; rw [he]
  · subst h1
    have hr' : r.rest = writeString k 0 ++ q' := hr
    have e1 := C02_rt_string r k 0 [] false q' (by decide) hk hr'
    have r1 := r.rest_adv _ _ hr'
    by_cases hq1 : q' = []
    · -- exactly the key is left
      subst hq1
      left
      have heof := eof_of_rest_nil r1
      refine ⟨.inr (by simp), ?_, ?_⟩
      · unfold decodeEntry; rw [e1]; simp only
        rw [skipToNoCheck_eof 1 _ heof]
      · unfold decodeEntry; rw [e1]; simp only
        rw [skipToNoCheck_eof 1 _ heof]
        exact heof
    · right
      refine ⟨hq0, by intro h; exact hq1 (by simpa using h), ?_⟩
      -- the SimpleList head is there
      rw [head1, head0] at h2
      obtain ⟨b, q2, rfl⟩ := List.exists_cons_of_ne_nil hq1
      simp only [List.cons_append, List.nil_append, List.cons.injEq] at h2
      obtain ⟨rfl, h2⟩ := h2
      have r1' : (r.adv (writeString k 0).length).rest = writeHead tySimpleList 1 ++ q2 := by
        rw [r1, head1]; rfl
      have e2 := skipToNoCheck_hit _ tySimpleList 1 false q2 (by decide) (by decide) (by decide) r1'
      have r2 := Reader.rest_adv _ _ _ r1'
      unfold decodeEntry
      rw [e1]; simp only
      rw [e2]; simp only [if_true]
      cases q2 with
      | nil =>
        -- nothing after the SimpleList head
        have : ∃ r', skipTo tyBYTE 0 true ((r.adv (writeString k 0).length).adv (writeHead tySimpleList 1).length)
            = (.error .require, r') := by
          unfold skipTo; rw [skipToNoCheck_eof_req 0 r2]; exact ⟨_, rfl⟩
        obtain ⟨r', this⟩ := this
        rw [this]; exact ⟨_, rfl⟩
      | cons c q3 =>
        simp only [List.cons_append, List.cons.injEq] at h2
        obtain ⟨rfl, h2⟩ := h2
        have r2' : ((r.adv (writeString k 0).length).adv (writeHead tySimpleList 1).length).rest
            = writeHead tyBYTE 0 ++ q3 := by rw [r2, head0]; rfl
        have e3 : skipTo tyBYTE 0 true ((r.adv (writeString k 0).length).adv (writeHead tySimpleList 1).length)
            = (.ok true, ((r.adv (writeString k 0).length).adv (writeHead tySimpleList 1).length).adv
                (writeHead tyBYTE 0).length) := by
          unfold skipTo
          rw [skipToNoCheck_hit _ tyBYTE 0 true q3 (by decide) (by decide) (by decide) r2']
          simp
        have r3 := Reader.rest_adv _ _ _ r2'
        rw [e3]; simp only
        rcases split_prefix h2 with ⟨a, ha, h3⟩ | ⟨q4, h3, h4⟩
        · -- inside the length field
          obtain ⟨e, r', he⟩ := readInt32_truncated _ v.length hv q3 a r3 h3 ha
          rw [he]; exact ⟨_, rfl⟩
        · -- inside the value bytes
          subst h3
          have e4 := C02_rt_int32 _ (v.length : Int) 0 0 true q4 (by decide) (by omega) r3
          have r4 := Reader.rest_adv _ _ _ r3
          rw [e4]; simp only
          have hshort : q4.length < v.length := by
            have := congrArg List.length h4
            simp only [List.length_append] at this
            have := List.length_pos_iff.mpr hs
            omega
          have hc : checkLength (v.length : Int) ((((r.adv (writeString k 0).length).adv
              (writeHead tySimpleList 1).length).adv (writeHead tyBYTE 0).length).adv
              (writeInt32 (v.length : Int) 0).length) = (.error .eof, (((r.adv (writeString k 0).length).adv
              (writeHead tySimpleList 1).length).adv (writeHead tyBYTE 0).length).adv
              (writeInt32 (v.length : Int) 0).length) :=
            checkLength_of_gt (.inr (by rw [remaining_of_rest r4]; omega))
          unfold readBytes
          rw [hc]
          exact ⟨_, rfl⟩

/-! ### lifts to the whole of `Decode` -/

/-- header announcing `es.length + (n' + 1)` entries, the complete entries `es`, then `rest`:
    `Decode` arrives at `rest` with `es` stored and `n' + 1` iterations to go -/
theorem decodeV_prefix (chk : Bool) (r : Reader) (es : TupMap) (rest : Bytes) (n' : Nat)
    (hs : Sized es) (hn : es.length + (n' + 1) < 2 ^ 31)
    (h : r.rest = writeHead tyMAP 0 ++ writeInt32 (wrapS 32 ((es.length + (n' + 1) : Nat) : Int)) 0
          ++ (encodeEntries es ++ rest))
    (hc : chk = true → es.length + (n' + 1) ≤ (encodeEntries es ++ rest).length) :
    ∃ r', r'.rest = rest ∧ r'.data = r.data ∧
      decodeV chk [] r = decodeLoop (n' + 1) (putAll [] es) es.length (dataBytes es) r' := by
  have h1 := decodeV_header chk [] r _ hn _ h hc
  have r1 : (r.adv ((writeHead tyMAP 0).length +
      (writeInt32 (wrapS 32 ((es.length + (n' + 1) : Nat) : Int)) 0).length)).rest = encodeEntries es ++ rest := by
    have := r.rest_adv (writeHead tyMAP 0 ++ writeInt32 (wrapS 32 ((es.length + (n' + 1) : Nat) : Int)) 0) _ h
    simpa using this
  have h2 := decodeLoop_entries es hs (n' + 1) [] 0 0 _ rest r1
  have r2 := Reader.rest_adv _ _ _ r1
  refine ⟨_, r2, rfl, ?_⟩
  rw [h1, h2]
  simp

/-- an input that ends inside an entry: the complete entries before it are stored, and `Decode`
    reports an error unless the cut falls at an entry boundary or right after a key -/
theorem decodeV_truncated (chk : Bool) (r : Reader) (es : TupMap) (k v q s : Bytes) (n' : Nat)
    (hs : Sized es) (hk : k.length < 2 ^ 32) (hv : v.length < 2 ^ 31)
    (hq : q ++ s = encodeEntry k v) (hsne : s ≠ []) (hn : es.length + (n' + 1) < 2 ^ 31)
    (h : r.rest = writeHead tyMAP 0 ++ writeInt32 (wrapS 32 ((es.length + (n' + 1) : Nat) : Int)) 0
          ++ (encodeEntries es ++ q))
    (hc : chk = true → es.length + (n' + 1) ≤ (encodeEntries es ++ q).length) :
    (decodeV chk [] r).data = putAll [] es ∧
    ((decodeV chk [] r).err = none ↔ (q = [] ∨ q = writeString k 0)) := by
  obtain ⟨r', hr', _, he⟩ := decodeV_prefix chk r es q n' hs hn h hc
  rw [he]
  rcases decodeEntry_truncated r' k v q s hk hv hr' hq hsne with ⟨hcase, hres, heof⟩ | ⟨h0, h1, e, hres⟩
  · simp only [decodeLoop]
    cases hd : decodeEntry r' with
    | mk res a rd =>
      rw [hd] at hres heof
      simp only at hres heof
      subst hres
      simp only
      rw [decodeLoop_eof _ _ _ _ _ heof]
      exact ⟨rfl, by simp [hcase]⟩
  · obtain ⟨a, b, _⟩ := decodeLoop_err n' (putAll [] es) es.length (dataBytes es) r' e hres
    refine ⟨b, ?_⟩
    rw [a]
    constructor
    · intro h; cases h
    · rintro (h | h)
      · exact absurd h h0
      · exact absurd h h1

/-- an entry on which the iteration fails: `Decode` returns that error, the complete entries
    before it stay stored -/
theorem decodeV_bad_entry (chk : Bool) (r : Reader) (es : TupMap) (bad : Bytes) (n' : Nat) (e : Err)
    (hs : Sized es) (hn : es.length + (n' + 1) < 2 ^ 31)
    (hbad : ∀ r' : Reader, r'.rest = bad → (decodeEntry r').res = .error e)
    (h : r.rest = writeHead tyMAP 0 ++ writeInt32 (wrapS 32 ((es.length + (n' + 1) : Nat) : Int)) 0
          ++ (encodeEntries es ++ bad))
    (hc : chk = true → es.length + (n' + 1) ≤ (encodeEntries es ++ bad).length) :
    (decodeV chk [] r).err = some e ∧ (decodeV chk [] r).data = putAll [] es := by
  obtain ⟨r', hr', _, he⟩ := decodeV_prefix chk r es bad n' hs hn h hc
  rw [he]
  obtain ⟨a, b, _⟩ := decodeLoop_err n' (putAll [] es) es.length (dataBytes es) r' e (hbad r' hr')
  exact ⟨a, b⟩

/-- the validated variant rejects a count that is negative or exceeds the bytes left, before the
    loop starts -/
theorem decodeV_count_rejected (m0 : TupMap) (r : Reader) (c : Int) (body : Bytes)
    (hc : -(2 : Int) ^ 31 ≤ c ∧ c < (2 : Int) ^ 31)
    (h : r.rest = writeHead tyMAP 0 ++ writeInt32 c 0 ++ body)
    (hbad : c < 0 ∨ (body.length : Int) < c) :
    (decodeV true m0 r).err = some .eof ∧ (decodeV true m0 r).data = m0 ∧ (decodeV true m0 r).iters = 0 := by
  have h' : r.rest = writeHead tyMAP 0 ++ (writeInt32 c 0 ++ body) := by simpa using h
  have h1 : skipTo tyMAP 0 false r = (.ok true, r.adv (writeHead tyMAP 0).length) := by
    unfold skipTo
    rw [skipToNoCheck_hit r tyMAP 0 false _ (by decide) (by decide) (by decide) h']
    simp
  have r1 := r.rest_adv _ _ h'
  have h2 := C02_rt_int32 _ c 0 0 true body (by decide) hc r1
  have r2 := Reader.rest_adv _ _ _ r1
  unfold decodeV
  rw [h1]; simp only
  rw [h2]; simp only [if_true]
  rw [checkLength_of_gt (by rw [remaining_of_rest r2]; exact hbad)]
  simp

/-- the as-found variant runs the announced number of iterations over an exhausted input -/
theorem decodeV_asFound_spin (n : Nat) (hn : n < 2 ^ 31) :
    decodeV false [] (Reader.mk0 (writeHead tyMAP 0 ++ writeInt32 (wrapS 32 (n : Int)) 0)) =
      ⟨none, [], (Reader.mk0 (writeHead tyMAP 0 ++ writeInt32 (wrapS 32 (n : Int)) 0)).adv
        ((writeHead tyMAP 0).length + (writeInt32 (wrapS 32 (n : Int)) 0).length), n, 0⟩ := by
  rw [decodeV_header false [] _ n hn [] (by rw [rest_mk0]; simp) (by simp)]
  rw [decodeLoop_eof]
  · simp
  · simp [Reader.mk0, Reader.adv]

end Tars.Tup
