/-
  Helper lemmas for C13: `BuildStaticWeightList` as a whole (scan loop, scaling loop, result).
-/
import TarsModel.Proofs.Weight

namespace Tars.Sel
open Consts

/-! ### first loop -/

def sumWeights : List Ep → Int
  | [] => 0
  | e :: es => e.weight + sumWeights es

theorem sumWeights_nonneg : ∀ (eps : List Ep), (∀ e ∈ eps, 0 < e.weight) → 0 ≤ sumWeights eps
  | [], _ => by simp [sumWeights]
  | a :: l, h => by
    have h1 := h a (by simp)
    have h2 := sumWeights_nonneg l (fun e he => h e (by simp [he]))
    simp only [sumWeights]; omega

/-- every endpoint carries `WeightType == EStaticWeight` -/
def AllStatic (eps : List Ep) : Prop := ∀ e ∈ eps, e.weightType = 1

/-- `M` is the greatest weight of a (non-empty) list -/
def IsMaxWeight (eps : List Ep) (M : Int) : Prop := (∀ e ∈ eps, e.weight ≤ M) ∧ ∃ e ∈ eps, e.weight = M

/-- `m` is the least weight of a (non-empty) list -/
def IsMinWeight (eps : List Ep) (m : Int) : Prop := (∀ e ∈ eps, m ≤ e.weight) ∧ ∃ e ∈ eps, e.weight = m

theorem scan_nonstatic : ∀ (eps : List Ep) (mx mn tc : Int), (∃ e ∈ eps, e.weightType ≠ 1) →
    scan eps mx mn tc = none
  | [], _, _, _, h => by simp at h
  | e :: es, mx, mn, tc, h => by
    by_cases he : e.weightType = 1
    · have : ∃ e ∈ es, e.weightType ≠ 1 := by
        obtain ⟨x, hx, hx'⟩ := h
        simp only [List.mem_cons] at hx
        rcases hx with hx | hx
        · subst hx; exact absurd he hx'
        · exact ⟨x, hx, hx'⟩
      simp only [scan, epEStaticWeight, he]
      simpa using scan_nonstatic es _ _ _ this
    · simp only [scan, epEStaticWeight]
      simp [he]

theorem scan_static : ∀ (eps : List Ep) (mx mn tc : Int), AllStatic eps →
    ∃ mx' mn', scan eps mx mn tc = some (mx', mn', tc + sumWeights eps) ∧
      mx ≤ mx' ∧ (∀ e ∈ eps, e.weight ≤ mx') ∧ (mx' = mx ∨ ∃ e ∈ eps, e.weight = mx') ∧
      mn' ≤ mn ∧ (∀ e ∈ eps, mn' ≤ e.weight) ∧ (mn' = mn ∨ ∃ e ∈ eps, e.weight = mn')
  | [], mx, mn, tc, _ => ⟨mx, mn, by simp [scan, sumWeights]⟩
  | e :: es, mx, mn, tc, h => by
    have he : e.weightType = 1 := h e (by simp)
    have hes : AllStatic es := fun x hx => h x (by simp [hx])
    obtain ⟨mx', mn', h1, h2, h3, h4, h5, h6, h7⟩ :=
      scan_static es (if mx < e.weight then e.weight else mx) (if mn > e.weight then e.weight else mn)
        (tc + e.weight) hes
    refine ⟨mx', mn', ?_, ?_, ?_, ?_, ?_, ?_, ?_⟩
    · simp only [scan, epEStaticWeight, he]
      simp only [Nat.cast_one, ne_eq, not_true_eq_false, ↓reduceIte]
      rw [h1]; simp [sumWeights]; omega
    · split at h2 <;> omega
    · intro x hx
      simp only [List.mem_cons] at hx
      rcases hx with hx | hx
      · subst hx; split at h2 <;> omega
      · exact h3 x hx
    · rcases h4 with h4 | ⟨x, hx, hx'⟩
      · split at h4
        · exact Or.inr ⟨e, by simp, h4.symm⟩
        · exact Or.inl h4
      · exact Or.inr ⟨x, by simp [hx], hx'⟩
    · split at h5 <;> omega
    · intro x hx
      simp only [List.mem_cons] at hx
      rcases hx with hx | hx
      · subst hx; split at h5 <;> omega
      · exact h6 x hx
    · rcases h7 with h7 | ⟨x, hx, hx'⟩
      · split at h7
        · exact Or.inr ⟨e, by simp, h7.symm⟩
        · exact Or.inl h7
      · exact Or.inr ⟨x, by simp [hx], hx'⟩

/-- the first loop computes the maximum, the minimum and the sum (weights are `int32`) -/
theorem scan_spec {eps : List Ep} {M m : Int} (hst : AllStatic eps) (hM : IsMaxWeight eps M)
    (hm : IsMinWeight eps m) (hlo : minInt32 ≤ M) (hhi : m ≤ maxInt32) :
    scan eps minInt32 maxInt32 0 = some (M, m, sumWeights eps) := by
  obtain ⟨mx', mn', h1, h2, h3, h4, h5, h6, h7⟩ := scan_static eps minInt32 maxInt32 0 hst
  obtain ⟨hM1, eM, heM, heM'⟩ := hM
  obtain ⟨hm1, em, hem, hem'⟩ := hm
  have e1 : mx' = M := by
    have a := h3 eM heM
    rcases h4 with h4 | ⟨x, hx, hx'⟩
    · omega
    · have := hM1 x hx; omega
  have e2 : mn' = m := by
    have a := h6 em hem
    rcases h7 with h7 | ⟨x, hx, hx'⟩
    · omega
    · have := hm1 x hx; omega
  rw [h1, e1, e2]; simp

/-! ### the range -/

/-- `R = min(100, max(10, ⌊M/m⌋))` -/
def specRange (M m : Int) : Int := min 100 (max 10 (M / m))

theorem rangeOf_pos {M m : Int} (hm : 0 < m) (hM : 0 ≤ M) : rangeOf M m = (specRange M m, 0) := by
  simp only [rangeOf, selMinWeightPositiveBound, selMinStaticWeightLimit, selMaxStaticWeightLimit, specRange,
    Int.tdiv_eq_ediv_of_nonneg hM]
  have : (((0 : Nat) : Int) < m) := by simpa using hm
  simp only [gt_iff_lt, this, ↓reduceIte, Nat.cast_ofNat]
  generalize M / m = q
  simp only [Prod.mk.injEq, and_true]
  split <;> split <;> omega

theorem rangeOf_nonpos {M m : Int} (hm : m ≤ 0) : rangeOf M m = (1, 1) := by
  have : ¬ (0 < m) := by omega
  simp [rangeOf, selMinWeightPositiveBound, selDegenerateRange, selDegenerateTotal, this]

theorem rangeOf_bounds (M m : Int) : 1 ≤ (rangeOf M m).1 ∧ (rangeOf M m).1 ≤ 100 ∧ 0 ≤ (rangeOf M m).2 := by
  by_cases hm : 0 < m
  · simp only [rangeOf, selMinWeightPositiveBound, selMinStaticWeightLimit, selMaxStaticWeightLimit]
    have : (((0 : Nat) : Int) < m) := by simpa using hm
    simp only [gt_iff_lt, this, ↓reduceIte, Nat.cast_ofNat]
    generalize M.tdiv m = q
    refine ⟨?_, ?_, ?_⟩ <;> (try split) <;> (try split) <;> omega
  · rw [rangeOf_nonpos (by omega)]; simp

theorem specRange_bounds (M m : Int) : 10 ≤ specRange M m ∧ specRange M m ≤ 100 := by
  unfold specRange; omega

/-! ### second loop -/

theorem split_spec (r mx : Int) : ∀ (es : List Ep) (b : Nat),
    (∀ x ∈ (split r mx es b).1, b ≤ x ∧ x < b + es.length) ∧
    (∀ sl ∈ (split r mx es b).2, b ≤ sl.idx ∧ sl.idx < b + es.length ∧ sl.cur = sl.w ∧ 0 < sl.w) ∧
    ((split r mx es b).2.map (·.idx)).Nodup ∧
    (∀ j (hj : j < es.length),
      (0 < scaled r mx es[j].weight →
        (split r mx es b).1.count (b + j) = 0 ∧
        ∃ sl ∈ (split r mx es b).2, sl.idx = b + j ∧ sl.w = scaled r mx es[j].weight) ∧
      (¬ 0 < scaled r mx es[j].weight →
        (split r mx es b).1.count (b + j) = 1 ∧ ∀ sl ∈ (split r mx es b).2, sl.idx ≠ b + j))
  | [], b => by simp [split]
  | e :: es, b => by
    obtain ⟨ih1, ih2, ih3, ih4⟩ := split_spec r mx es (b + 1)
    cases hsp : split r mx es (b + 1) with
    | mk z s =>
    rw [hsp] at ih1 ih2 ih3 ih4
    simp only at ih1 ih2 ih3 ih4
    have hbz : b ∉ z := fun h => by have := ih1 b h; omega
    have hbs : ∀ sl ∈ s, sl.idx ≠ b := fun sl h => by have := ih2 sl h; omega
    by_cases hw : 0 < scaled r mx e.weight
    · have hsplit : split r mx (e :: es) b
          = (z, ⟨scaled r mx e.weight, b, scaled r mx e.weight, e.str⟩ :: s) := by
        simp [split, hsp, selScaledWeightBound, hw]
      rw [hsplit]
      refine ⟨?_, ?_, ?_, ?_⟩
      · intro x hx; have := ih1 x hx; simp only [List.length_cons]; omega
      · intro sl hsl
        simp only [List.mem_cons] at hsl
        rcases hsl with hsl | hsl
        · subst hsl; simp only [List.length_cons]; exact ⟨by omega, by omega, trivial, hw⟩
        · have := ih2 sl hsl; simp only [List.length_cons]; omega
      · simp only [List.map_cons, List.nodup_cons, List.mem_map, not_exists, not_and]
        exact ⟨fun sl h => hbs sl h, ih3⟩
      · intro j hj
        cases j with
        | zero =>
          simp only [List.getElem_cons_zero, Nat.add_zero]
          exact ⟨fun _ => ⟨List.count_eq_zero.2 hbz, ⟨scaled r mx e.weight, b, scaled r mx e.weight, e.str⟩,
            by simp, rfl, rfl⟩, fun h => absurd hw h⟩
        | succ j =>
          have hj' : j < es.length := by simpa using hj
          obtain ⟨a1, a2⟩ := ih4 j hj'
          simp only [List.getElem_cons_succ]
          have e : b + (j + 1) = b + 1 + j := by omega
          rw [e]
          refine ⟨fun h => ?_, fun h => ?_⟩
          · obtain ⟨c1, sl, hsl, c2⟩ := a1 h
            exact ⟨c1, sl, by simp [hsl], c2⟩
          · obtain ⟨c1, c2⟩ := a2 h
            refine ⟨c1, ?_⟩
            intro sl hsl
            simp only [List.mem_cons] at hsl
            rcases hsl with hsl | hsl
            · subst hsl; simp; omega
            · exact c2 sl hsl
    · have hsplit : split r mx (e :: es) b = (b :: z, s) := by
        simp [split, hsp, selScaledWeightBound, hw]
      rw [hsplit]
      refine ⟨?_, ?_, ?_, ?_⟩
      · intro x hx
        simp only [List.mem_cons] at hx
        simp only [List.length_cons]
        rcases hx with hx | hx
        · omega
        · have := ih1 x hx; omega
      · intro sl hsl; have := ih2 sl hsl; simp only [List.length_cons]; omega
      · exact ih3
      · intro j hj
        cases j with
        | zero =>
          simp only [List.getElem_cons_zero, Nat.add_zero]
          refine ⟨fun h => absurd h hw, fun _ => ⟨?_, fun sl h => hbs sl h⟩⟩
          rw [List.count_cons_self, List.count_eq_zero.2 hbz]
        | succ j =>
          have hj' : j < es.length := by simpa using hj
          obtain ⟨a1, a2⟩ := ih4 j hj'
          simp only [List.getElem_cons_succ]
          have e : b + (j + 1) = b + 1 + j := by omega
          rw [e]
          have hc : List.count (b + 1 + j) (b :: z) = List.count (b + 1 + j) z := by
            rw [List.count_cons]
            have : ¬ b = b + 1 + j := by omega
            simp [this]
          rw [hc]
          exact ⟨a1, a2⟩

/-- the length of the list that is built, in the weights: `Σ max(1, wᵢ)` when no scaled weight is negative -/
theorem split_sum (r mx : Int) : ∀ (es : List Ep) (b : Nat), (∀ e ∈ es, 0 ≤ scaled r mx e.weight) →
    (es.map fun e => max 1 (scaled r mx e.weight)).sum
      = ((split r mx es b).1.length : Int) + sumW (split r mx es b).2
  | [], _, _ => by simp [split, sumW]
  | e :: es, b, h => by
    have ih := split_sum r mx es (b + 1) (fun x hx => h x (by simp [hx]))
    have he := h e (by simp)
    cases hsp : split r mx es (b + 1) with
    | mk z s =>
    rw [hsp] at ih
    simp only at ih
    by_cases hw : 0 < scaled r mx e.weight
    · have hsplit : split r mx (e :: es) b
          = (z, ⟨scaled r mx e.weight, b, scaled r mx e.weight, e.str⟩ :: s) := by
        simp [split, hsp, selScaledWeightBound, hw]
      rw [hsplit]
      simp only [List.map_cons, List.sum_cons, ih, sumW]
      omega
    · have hsplit : split r mx (e :: es) b = (b :: z, s) := by
        simp [split, hsp, selScaledWeightBound, hw]
      rw [hsplit]
      simp only [List.map_cons, List.sum_cons, ih, List.length_cons]
      push_cast
      omega

theorem split_length (r mx : Int) : ∀ (es : List Ep) (b : Nat),
    (split r mx es b).1.length + (split r mx es b).2.length = es.length
  | [], _ => by simp [split]
  | e :: es, b => by
    have ih := split_length r mx es (b + 1)
    cases hsp : split r mx es (b + 1) with
    | mk z s =>
    rw [hsp] at ih
    simp only [split, hsp]
    split <;> simp at ih ⊢ <;> omega

/-! ### the rounds, in general (any start values) -/

theorem rounds_mem (t : Int) : ∀ (n : Nat) (l : List Slot) (acc : List Nat),
    ∀ i ∈ rounds t n l acc, i ∈ acc ∨ i ∈ l.map (·.idx)
  | 0, _, _ => by intro i hi; exact Or.inl (by simpa [rounds] using hi)
  | n + 1, l, acc => by
    intro i hi
    cases hsort : sortDesc l with
    | nil =>
      simp only [rounds, hsort] at hi
      rcases rounds_mem t n [] acc i hi with h | h
      · exact Or.inl h
      · simp at h
    | cons p rest =>
      rw [rounds_succ_cons t n l acc p rest hsort] at hi
      have hperm : (p :: rest).Perm l := hsort ▸ sortDesc_perm l
      have hidx : (roundStep t p rest).map (·.idx) = (p :: rest).map (·.idx) := by
        simp [roundStep, bump]
      rcases rounds_mem t n _ _ i hi with h | h
      · simp only [List.mem_cons] at h
        rcases h with h | h
        · subst h
          exact Or.inr (((hperm.map (·.idx)).mem_iff).1 (by simp))
        · exact Or.inl h
      · rw [hidx] at h
        exact Or.inr (((hperm.map (·.idx)).mem_iff).1 h)

theorem rounds_length_le (t : Int) : ∀ (n : Nat) (l : List Slot) (acc : List Nat),
    (rounds t n l acc).length ≤ acc.length + n
  | 0, _, _ => by simp [rounds]
  | n + 1, l, acc => by
    cases hsort : sortDesc l with
    | nil =>
      simp only [rounds, hsort]
      have := rounds_length_le t n [] acc; omega
    | cons p rest =>
      rw [rounds_succ_cons t n l acc p rest hsort]
      have := rounds_length_le t n (roundStep t p rest) (p.idx :: acc)
      simp only [List.length_cons] at this; omega

/-! ### the function as a whole -/

/-- the function after its first loop -/
theorem build_of_scan {v : Variant} {eps : List Ep} {mx mn tc : Int}
    (h : scan eps minInt32 maxInt32 0 = some (mx, mn, tc)) :
    buildStaticWeightList v eps =
      if v = .repaired ∧ mx ≤ 0 then .nil
      else if capOf v eps.length (rangeOf mx mn).1 tc < 0 then .panic "makeslice: cap out of range"
      else if eps ≠ [] ∧ mx = 0 then .panic "integer divide by zero"
      else .ok (capOf v eps.length (rangeOf mx mn).1 tc)
        ((split (rangeOf mx mn).1 mx eps 0).1 ++
          (rounds ((rangeOf mx mn).2 + sumW (split (rangeOf mx mn).1 mx eps 0).2)
            ((rangeOf mx mn).2 + sumW (split (rangeOf mx mn).1 mx eps 0).2).toNat
            (split (rangeOf mx mn).1 mx eps 0).2 []).reverse) := by
  simp only [buildStaticWeightList, h]

theorem build_of_scan_none {v : Variant} {eps : List Ep} (h : scan eps minInt32 maxInt32 0 = none) :
    buildStaticWeightList v eps = .nil := by
  simp only [buildStaticWeightList, h]

/-- every element of the returned list indexes the argument -/
theorem build_ok_mem {v : Variant} {eps : List Ep} {cap : Int} {l : List Nat}
    (h : buildStaticWeightList v eps = .ok cap l) : ∀ i ∈ l, i < eps.length := by
  cases hs : scan eps minInt32 maxInt32 0 with
  | none => rw [build_of_scan_none hs] at h; cases h
  | some x =>
    obtain ⟨mx, mn, tc⟩ := x
    rw [build_of_scan hs] at h
    split at h
    · cases h
    · split at h
      · cases h
      · split at h
        · cases h
        · simp only [Out.ok.injEq] at h
          obtain ⟨_, rfl⟩ := h
          obtain ⟨s1, s2, _, _⟩ := split_spec (rangeOf mx mn).1 mx eps 0
          intro i hi
          simp only [List.mem_append, List.mem_reverse] at hi
          rcases hi with hi | hi
          · have := s1 i hi; omega
          · rcases rounds_mem _ _ _ _ i hi with h | h
            · simp at h
            · obtain ⟨sl, hsl, e⟩ := List.mem_map.1 h
              have := s2 sl hsl
              omega

/-- the capacity that was requested when the function returns a list -/
theorem build_ok_cap {v : Variant} {eps : List Ep} {cap : Int} {l : List Nat}
    (h : buildStaticWeightList v eps = .ok cap l) :
    ∃ mx mn tc, scan eps minInt32 maxInt32 0 = some (mx, mn, tc) ∧
      cap = capOf v eps.length (rangeOf mx mn).1 tc := by
  cases hs : scan eps minInt32 maxInt32 0 with
  | none => rw [build_of_scan_none hs] at h; cases h
  | some x =>
    obtain ⟨mx, mn, tc⟩ := x
    rw [build_of_scan hs] at h
    refine ⟨mx, mn, tc, rfl, ?_⟩
    split at h
    · cases h
    · split at h
      · cases h
      · split at h
        · cases h
        · simp only [Out.ok.injEq] at h
          exact h.1.symm

theorem capOf_repaired_bounds (n : Nat) (mx mn tc : Int) :
    0 < capOf .repaired n (rangeOf mx mn).1 tc ∧ capOf .repaired n (rangeOf mx mn).1 tc ≤ 100 * n + 1 := by
  have hb := rangeOf_bounds mx mn
  simp only [capOf]
  have h1 : 0 ≤ (n : Int) * (rangeOf mx mn).1 := Int.mul_nonneg (by omega) (by omega)
  have h2 : (n : Int) * (rangeOf mx mn).1 ≤ (n : Int) * 100 :=
    Int.mul_le_mul_of_nonneg_left hb.2.1 (by omega)
  omega

/-- with the proposed guard the function does not panic, whatever the weights -/
theorem build_repaired_no_panic (eps : List Ep) (site : String) :
    buildStaticWeightList .repaired eps ≠ .panic site := by
  cases hs : scan eps minInt32 maxInt32 0 with
  | none => rw [build_of_scan_none hs]; simp
  | some x =>
    obtain ⟨mx, mn, tc⟩ := x
    rw [build_of_scan hs]
    have hc := capOf_repaired_bounds eps.length mx mn tc
    split
    · simp
    · rename_i hg
      have hmx : 0 < mx := by
        by_contra hc
        exact hg ⟨rfl, by omega⟩
      split
      · omega
      · split
        · omega
        · simp

/-- the capacity requested by the repaired function is bounded by the number of endpoints -/
theorem build_repaired_cap {eps : List Ep} {cap : Int} {l : List Nat}
    (h : buildStaticWeightList .repaired eps = .ok cap l) : 0 < cap ∧ cap ≤ 100 * eps.length + 1 := by
  cases hs : scan eps minInt32 maxInt32 0 with
  | none => rw [build_of_scan_none hs] at h; cases h
  | some x =>
    obtain ⟨mx, mn, tc⟩ := x
    rw [build_of_scan hs] at h
    have hc := capOf_repaired_bounds eps.length mx mn tc
    split at h
    · cases h
    · split at h
      · cases h
      · split at h
        · cases h
        · simp only [Out.ok.injEq] at h
          obtain ⟨rfl, _⟩ := h
          exact hc

/-- exact characterisation of the panics of the function as found -/
theorem build_asFound_panic_iff (eps : List Ep) :
    (∃ site, buildStaticWeightList .asFound eps = .panic site) ↔
      AllStatic eps ∧ (sumWeights eps + 100 < 0 ∨
        (eps ≠ [] ∧ (∀ e ∈ eps, e.weight ≤ 0) ∧ ∃ e ∈ eps, e.weight = 0)) := by
  by_cases hst : AllStatic eps
  · obtain ⟨mx, mn, h1, h2, h3, h4, -, -, -⟩ := scan_static eps minInt32 maxInt32 0 hst
    have hmx0 : eps ≠ [] → (mx = 0 ↔ ((∀ e ∈ eps, e.weight ≤ 0) ∧ ∃ e ∈ eps, e.weight = 0)) := by
      intro hne
      constructor
      · intro e0
        subst e0
        refine ⟨h3, ?_⟩
        rcases h4 with h4 | h4
        · simp [minInt32] at h4
        · exact h4
      · rintro ⟨a, x, hx, hx0⟩
        have := h3 x hx
        rcases h4 with h4 | ⟨y, hy, hy'⟩
        · simp only [minInt32] at h2 h4; omega
        · have := a y hy; omega
    rw [build_of_scan h1]
    have hng : ¬ (Variant.asFound = Variant.repaired ∧ mx ≤ 0) := by simp
    simp only [hng, ↓reduceIte, capOf, Int.zero_add]
    by_cases hcap : sumWeights eps + 100 < 0
    · simp [hcap, hst]
    · simp only [hcap, ↓reduceIte, false_or, hst, true_and]
      by_cases hne : eps = []
      · subst hne; simp
      · by_cases hz : mx = 0
        · have := (hmx0 hne).1 hz
          have hc : eps ≠ [] ∧ mx = 0 := ⟨hne, hz⟩
          simp only [hc, and_self, ↓reduceIte, Out.panic.injEq, exists_eq', ne_eq, not_false_eq_true,
            true_and, true_iff]
          exact this
        · have hn : ¬ ((∀ e ∈ eps, e.weight ≤ 0) ∧ ∃ e ∈ eps, e.weight = 0) := fun h => hz ((hmx0 hne).2 h)
          have : ¬ (eps ≠ [] ∧ mx = 0) := by simp [hz]
          simp only [this, ↓reduceIte, reduceCtorEq, exists_false, false_iff]
          intro h; exact hn h.2
  · have : ∃ e ∈ eps, e.weightType ≠ 1 := by
      unfold AllStatic at hst
      push Not at hst
      exact hst
    rw [build_of_scan_none (scan_nonstatic eps _ _ _ this)]
    simp [hst]

/-! ### the list never outgrows the capacity requested by the repaired function -/

theorem scaled_le {r mx w : Int} (hmx : 0 < mx) (hw : w ≤ mx) (hr : 0 ≤ r) : scaled r mx w ≤ r := by
  unfold scaled
  by_cases h : 0 ≤ w * r
  · rw [Int.tdiv_eq_ediv_of_nonneg h]
    have h1 : w * r ≤ mx * r := Int.mul_le_mul_of_nonneg_right hw hr
    have h2 := Int.ediv_le_ediv hmx h1
    rwa [Int.mul_ediv_cancel_left r (by omega : mx ≠ 0)] at h2
  · have h1 : (-(w * r)).tdiv mx = -((w * r).tdiv mx) := Int.neg_tdiv ..
    have h2 := Int.tdiv_nonneg (a := -(w * r)) (b := mx) (by omega) (by omega)
    omega

theorem split_w (r mx : Int) : ∀ (es : List Ep) (b : Nat),
    ∀ sl ∈ (split r mx es b).2, ∃ e ∈ es, sl.w = scaled r mx e.weight
  | [], _ => by simp [split]
  | e :: es, b => by
    have ih := split_w r mx es (b + 1)
    cases hsp : split r mx es (b + 1) with
    | mk z s =>
    rw [hsp] at ih
    simp only [split, hsp]
    split
    · intro sl hsl
      simp only [List.mem_cons] at hsl
      rcases hsl with hsl | hsl
      · subst hsl; exact ⟨e, by simp, rfl⟩
      · obtain ⟨x, hx, hx'⟩ := ih sl hsl
        exact ⟨x, by simp [hx], hx'⟩
    · intro sl hsl
      obtain ⟨x, hx, hx'⟩ := ih sl hsl
      exact ⟨x, by simp [hx], hx'⟩

theorem sumW_le {l : List Slot} {r : Int} (h : ∀ sl ∈ l, sl.w ≤ r) : sumW l ≤ r * l.length := by
  induction l with
  | nil => simp [sumW]
  | cons a l ih =>
    have h1 := h a (by simp)
    have h2 := ih (fun sl hsl => h sl (by simp [hsl]))
    simp only [sumW, List.length_cons]
    push_cast
    have : r * ((l.length : Int) + 1) = r * l.length + r := by ring
    omega

theorem scan_some_static : ∀ (eps : List Ep) (mx mn tc : Int) (x : Int × Int × Int),
    scan eps mx mn tc = some x → AllStatic eps := by
  intro eps mx mn tc x h
  by_contra hc
  have : ∃ e ∈ eps, e.weightType ≠ 1 := by
    unfold AllStatic at hc
    push Not at hc
    exact hc
  rw [scan_nonstatic eps _ _ _ this] at h
  cases h

/-- the repaired function appends at most as many indices as it asked `make` for -/
theorem build_repaired_len {eps : List Ep} {cap : Int} {l : List Nat}
    (h : buildStaticWeightList .repaired eps = .ok cap l) : (l.length : Int) ≤ cap := by
  cases hs : scan eps minInt32 maxInt32 0 with
  | none => rw [build_of_scan_none hs] at h; cases h
  | some x =>
    obtain ⟨mx, mn, tc⟩ := x
    have hst := scan_some_static _ _ _ _ _ hs
    obtain ⟨mx', mn', h1, _, h3, _, _, _, _⟩ := scan_static eps minInt32 maxInt32 0 hst
    rw [hs] at h1
    simp only [Option.some.injEq, Prod.mk.injEq] at h1
    obtain ⟨rfl, rfl, _⟩ := h1
    rw [build_of_scan hs] at h
    split at h
    · cases h
    · rename_i hg
      have hmx : 0 < mx := by
        by_contra hc
        exact hg ⟨rfl, by omega⟩
      split at h
      · cases h
      · split at h
        · cases h
        · simp only [Out.ok.injEq] at h
          obtain ⟨rfl, rfl⟩ := h
          have hb := rangeOf_bounds mx mn
          have htw : (rangeOf mx mn).2 ≤ 1 := by
            by_cases hm : 0 < mn
            · rw [rangeOf_pos hm (by omega)]; simp
            · rw [rangeOf_nonpos (by omega)]
          generalize (rangeOf mx mn).1 = r at *
          generalize (rangeOf mx mn).2 = tw0 at *
          have hlen := split_length r mx eps 0
          have hw : ∀ sl ∈ (split r mx eps 0).2, sl.w ≤ r := by
            intro sl hsl
            obtain ⟨e, he, hw⟩ := split_w r mx eps 0 sl hsl
            rw [hw]
            exact scaled_le hmx (h3 e he) (by omega)
          have hsum := sumW_le hw
          have hsn : 0 ≤ sumW (split r mx eps 0).2 :=
            sumW_nonneg (fun sl hsl => ((split_spec r mx eps 0).2.1 sl hsl).2.2.2)
          have hr := rounds_length_le (tw0 + sumW (split r mx eps 0).2)
            (tw0 + sumW (split r mx eps 0).2).toNat (split r mx eps 0).2 []
          simp only [List.length_append, List.length_reverse, capOf]
          simp only [List.length_nil, Nat.zero_add] at hr
          have htn : ((tw0 + sumW (split r mx eps 0).2).toNat : Int) = tw0 + sumW (split r mx eps 0).2 :=
            Int.toNat_of_nonneg (by omega)
          have hz : (0 : Int) ≤ ((split r mx eps 0).1.length : Int) := by omega
          have e1 : (eps.length : Int) = ((split r mx eps 0).1.length : Int) + ((split r mx eps 0).2.length : Int) := by
            rw [← hlen]; push_cast; rfl
          have e2 : (eps.length : Int) * r = r * ((split r mx eps 0).1.length : Int) + r * ((split r mx eps 0).2.length : Int) := by
            rw [e1]; ring
          have e3 : ((split r mx eps 0).1.length : Int) ≤ r * ((split r mx eps 0).1.length : Int) := by
            have := Int.mul_le_mul_of_nonneg_right hb.1 hz
            simpa using this
          push_cast
          have hr' : ((rounds (tw0 + sumW (split r mx eps 0).2) (tw0 + sumW (split r mx eps 0).2).toNat
              (split r mx eps 0).2 []).length : Int) ≤ tw0 + sumW (split r mx eps 0).2 := by
            have : ((rounds (tw0 + sumW (split r mx eps 0).2) (tw0 + sumW (split r mx eps 0).2).toNat
              (split r mx eps 0).2 []).length : Int) ≤ ((tw0 + sumW (split r mx eps 0).2).toNat : Int) := by
              exact_mod_cast hr
            omega
          omega

/-- Integer facts about the scaled weight for positive weights: `tdiv` is the floor. -/
theorem scaled_pos_eq {r mx w : Int} (hr : 0 ≤ r) (hw : 0 ≤ w) : scaled r mx w = w * r / mx := by
  unfold scaled
  exact Int.tdiv_eq_ediv_of_nonneg (Int.mul_nonneg hw hr)

/-- **`BuildStaticWeightList` on positive static weights.**  `M` is the greatest and `m` the least
weight, `R = min(100, max(10, ⌊M/m⌋))`: the function returns a list in which index `i` occurs exactly
`max(1, ⌊Wᵢ·R/M⌋)` times, which contains nothing else, and whose length is the sum of these numbers. -/
theorem build_positive (v : Variant) {eps : List Ep} {M m : Int} (hst : AllStatic eps)
    (hM : IsMaxWeight eps M) (hm : IsMinWeight eps m) (hmpos : 0 < m)
    (h32 : ∀ e ∈ eps, e.weight ≤ maxInt32) :
    ∃ cap l, buildStaticWeightList v eps = .ok cap l ∧
      (∀ i (hi : i < eps.length), (l.count i : Int) = max 1 (eps[i].weight * specRange M m / M)) ∧
      (∀ i ∈ l, i < eps.length) ∧
      (l.length : Int) = (eps.map fun e => max 1 (e.weight * specRange M m / M)).sum := by
  obtain ⟨hM1, eM, heM, heM'⟩ := hM
  obtain ⟨hm1, em, hem, hem'⟩ := hm
  have hMm : m ≤ M := by have := hM1 em hem; omega
  have hMpos : 0 < M := by omega
  have hpos : ∀ e ∈ eps, 0 < e.weight := fun e he => by have := hm1 e he; omega
  have hscan : scan eps minInt32 maxInt32 0 = some (M, m, sumWeights eps) :=
    scan_spec hst ⟨hM1, eM, heM, heM'⟩ ⟨hm1, em, hem, hem'⟩ (by simp only [minInt32]; omega)
      (by have := h32 em hem; omega)
  have hsum : 0 ≤ sumWeights eps := by
    clear hscan heM hem hst h32 hM1 hm1
    induction eps with
    | nil => simp [sumWeights]
    | cons a l ih =>
      have := hpos a (by simp)
      have := ih (fun e he => hpos e (by simp [he]))
      simp [sumWeights]; omega
  have hR := specRange_bounds M m
  generalize hRdef : specRange M m = R at hR
  have hrange : rangeOf M m = (R, 0) := by rw [rangeOf_pos hmpos (by omega), hRdef]
  have hne : eps ≠ [] := by intro h; subst h; simp at heM
  cases hsp : split R M eps 0 with
  | mk zeros slots =>
  obtain ⟨s1, s2, s3, s4⟩ := split_spec R M eps 0
  rw [hsp] at s1 s2 s3 s4
  simp only at s1 s2 s3 s4
  obtain ⟨c1, c2, c3⟩ := rounds_count slots (fun s hs => (s2 s hs).2.2.1) (fun s hs => (s2 s hs).2.2.2) s3
  have hcapA : ¬ (sumWeights eps + 100 < 0) := by omega
  have hcapR : ¬ ((eps.length : Int) * R + 1 < 0) := by
    have : 0 ≤ (eps.length : Int) * R := Int.mul_nonneg (by omega) (by omega)
    omega
  have hdiv : ¬ (eps ≠ [] ∧ M = 0) := by omega
  have hguard : ¬ (v = Variant.repaired ∧ M ≤ 0) := by omega
  have hbuild : ∃ cap, buildStaticWeightList v eps
      = .ok cap (zeros ++ (rounds (sumW slots) (sumW slots).toNat slots []).reverse) := by
    rw [build_of_scan hscan, hrange]
    have hcap : ¬ (capOf v eps.length R (sumWeights eps) < 0) := by
      cases v <;> simp only [capOf] <;> omega
    simp only [hguard, ↓reduceIte, hcap, hdiv, hsp, Int.zero_add]
    exact ⟨_, rfl⟩
  obtain ⟨cap, hb⟩ := hbuild
  have hsc : ∀ e ∈ eps, scaled R M e.weight = e.weight * R / M := fun e he =>
    scaled_pos_eq (by omega) (by have := hpos e he; omega)
  have hsc0 : ∀ e ∈ eps, 0 ≤ scaled R M e.weight := by
    intro e he
    rw [hsc e he]
    have : 0 ≤ e.weight * R := Int.mul_nonneg (by have := hpos e he; omega) (by omega)
    exact Int.ediv_nonneg this (by omega)
  refine ⟨cap, _, hb, ?_, build_ok_mem hb, ?_⟩
  · intro i hi
    obtain ⟨a1, a2⟩ := s4 i hi
    simp only [Nat.zero_add] at a1 a2
    rw [List.count_append, List.count_reverse, ← hsc _ (List.getElem_mem hi)]
    by_cases hw : 0 < scaled R M eps[i].weight
    · obtain ⟨z0, sl, hsl, e1, e2⟩ := a1 hw
      have := c1 sl hsl
      rw [e1, e2] at this
      push_cast
      rw [z0, this]
      omega
    · obtain ⟨z1, hno⟩ := a2 hw
      have : (rounds (sumW slots) (sumW slots).toNat slots []).count i = 0 := by
        rw [List.count_eq_zero]
        intro hmem
        obtain ⟨sl, hsl, e⟩ := List.mem_map.1 (c2 i hmem)
        exact hno sl hsl e
      push_cast
      rw [z1, this]
      omega
  · have := split_sum R M eps 0 hsc0
    rw [hsp] at this
    simp only at this
    have hmap : (eps.map fun e => max 1 (e.weight * R / M)) = eps.map fun e => max 1 (scaled R M e.weight) := by
      apply List.map_congr_left
      intro e he
      rw [hsc e he]
    rw [hmap, this, List.length_append, List.length_reverse]
    push_cast
    rw [c3]

end Tars.Sel
