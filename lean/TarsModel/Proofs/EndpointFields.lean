/-
  Lemmas about the `strings.Fields` model on rendered endpoint descriptions (ASCII path).
-/
import TarsModel.Model.Endpoint

namespace Tars.Endpoint
open Tars

/-- a run of ASCII blanks (`\t \n \v \f \r` or space) -/
def Blank (s : Bytes) : Prop := ∀ b ∈ s, isAsciiSpace b = true

/-- a non-empty ASCII token without blank space -/
def Tok (t : Bytes) : Prop := t ≠ [] ∧ ∀ b ∈ t, isAsciiSpace b = false ∧ b.val < 128

theorem isAsciiSpace_lt {b : Byte} (h : isAsciiSpace b = true) : b.val < 128 := by
  unfold isAsciiSpace at h
  simp only [Bool.or_eq_true, Bool.and_eq_true, decide_eq_true_eq] at h
  omega

theorem Blank.nil : Blank [] := by intro b hb; cases hb

theorem Blank.cons (c : Byte) (s : Bytes) (hc : isAsciiSpace c = true) (hs : Blank s) : Blank (c :: s) := by
  intro b hb
  rw [List.mem_cons] at hb
  rcases hb with hb | hb
  · subst hb; exact hc
  · exact hs b hb

theorem Blank.ascii {s : Bytes} (h : Blank s) : allAscii s = true := by
  unfold allAscii
  rw [List.all_eq_true]
  intro b hb
  simp only [decide_eq_true_eq]
  exact isAsciiSpace_lt (h b hb)

theorem Tok.ascii {t : Bytes} (h : Tok t) : allAscii t = true := by
  unfold allAscii
  rw [List.all_eq_true]
  intro b hb
  simp only [decide_eq_true_eq]
  exact (h.2 b hb).2

theorem allAscii_append (a b : Bytes) : allAscii (a ++ b) = (allAscii a && allAscii b) := by
  unfold allAscii; exact List.all_append

theorem fieldsAux_tok (t r cur : Bytes) (h : ∀ b ∈ t, isAsciiSpace b = false) :
    fieldsAux (t ++ r) cur = fieldsAux r (cur ++ t) := by
  induction t generalizing cur with
  | nil => simp
  | cons b t ih =>
    have hb : isAsciiSpace b = false := h b (by simp)
    have ht : ∀ x ∈ t, isAsciiSpace x = false := fun x hx => h x (by simp [hx])
    simp only [List.cons_append, fieldsAux, hb, Bool.false_eq_true, if_false]
    rw [ih _ ht]
    simp

theorem fieldsAux_blank_nil (s r : Bytes) (h : Blank s) : fieldsAux (s ++ r) [] = fieldsAux r [] := by
  induction s with
  | nil => simp
  | cons b s ih =>
    have hb : isAsciiSpace b = true := h b (by simp)
    have hs : Blank s := fun x hx => h x (by simp [hx])
    simp only [List.cons_append, fieldsAux, hb, if_true]
    exact ih hs

theorem fieldsAux_blank (s r cur : Bytes) (h : Blank s) (hs : s ≠ []) (hc : cur ≠ []) :
    fieldsAux (s ++ r) cur = cur :: fieldsAux r [] := by
  cases s with
  | nil => exact absurd rfl hs
  | cons b s =>
    have hb : isAsciiSpace b = true := h b (by simp)
    have hs' : Blank s := fun x hx => h x (by simp [hx])
    simp only [List.cons_append, fieldsAux, hb, if_true, hc, if_false]
    rw [fieldsAux_blank_nil s r hs']

/-- trailing blanks end the last field -/
theorem fieldsAux_trail (trail cur : Bytes) (h : Blank trail) (hc : cur ≠ []) :
    fieldsAux trail cur = [cur] := by
  cases trail with
  | nil => simp [fieldsAux, hc]
  | cons b s =>
    have := fieldsAux_blank (b :: s) [] cur h (by simp) hc
    simpa [fieldsAux] using this

/-- blank-separated tokens are exactly the fields -/
theorem fieldsAux_pairs (ps : List (Bytes × Bytes)) (trail cur : Bytes)
    (hps : ∀ p ∈ ps, Blank p.1 ∧ p.1 ≠ [] ∧ Tok p.2) (ht : Blank trail) (hc : cur ≠ []) :
    fieldsAux (renderPairs ps ++ trail) cur = cur :: ps.map (·.2) := by
  induction ps generalizing cur with
  | nil => simpa [renderPairs] using fieldsAux_trail trail cur ht hc
  | cons p ps ih =>
    obtain ⟨hb, hne, htok⟩ := hps p (by simp)
    have hps' : ∀ q ∈ ps, Blank q.1 ∧ q.1 ≠ [] ∧ Tok q.2 := fun q hq => hps q (by simp [hq])
    have e : renderPairs (p :: ps) ++ trail = p.1 ++ (p.2 ++ (renderPairs ps ++ trail)) := by
      simp [renderPairs, List.append_assoc]
    rw [e, fieldsAux_blank _ _ _ hb hne hc, fieldsAux_tok _ _ _ (fun b hb => (htok.2 b hb).1)]
    rw [List.nil_append, ih p.2 hps' htok.1]
    simp

theorem allAscii_renderPairs (ps : List (Bytes × Bytes))
    (hps : ∀ p ∈ ps, Blank p.1 ∧ p.1 ≠ [] ∧ Tok p.2) : allAscii (renderPairs ps) = true := by
  induction ps with
  | nil => rfl
  | cons p ps ih =>
    obtain ⟨hb, _, htok⟩ := hps p (by simp)
    have hps' : ∀ q ∈ ps, Blank q.1 ∧ q.1 ≠ [] ∧ Tok q.2 := fun q hq => hps q (by simp [hq])
    have e : renderPairs (p :: ps) = p.1 ++ (p.2 ++ renderPairs ps) := by
      simp [renderPairs, List.append_assoc]
    rw [e, allAscii_append, allAscii_append, hb.ascii, htok.ascii, ih hps']
    rfl

/-- `strings.Fields` of a token followed by blank-separated tokens -/
theorem fields_pairs (first : Bytes) (ps : List (Bytes × Bytes)) (trail : Bytes)
    (hf : Tok first) (hps : ∀ p ∈ ps, Blank p.1 ∧ p.1 ≠ [] ∧ Tok p.2) (ht : Blank trail) :
    fields (first ++ renderPairs ps ++ trail) = first :: ps.map (·.2) := by
  have ha : allAscii (first ++ renderPairs ps ++ trail) = true := by
    rw [allAscii_append, allAscii_append, hf.ascii, allAscii_renderPairs ps hps, ht.ascii]; rfl
  unfold fields
  rw [if_pos ha]
  unfold fieldsAscii
  rw [List.append_assoc, fieldsAux_tok _ _ _ (fun b hb => (hf.2 b hb).1), List.nil_append]
  exact fieldsAux_pairs ps trail first hps ht hf.1

/-! totality-related: a string that starts with a non-blank ASCII byte has a field -/

theorem fieldsAux_ne_nil (s cur : Bytes) (hc : cur ≠ []) : fieldsAux s cur ≠ [] := by
  induction s generalizing cur with
  | nil => simp [fieldsAux, hc]
  | cons b s ih =>
    unfold fieldsAux
    by_cases hb : isAsciiSpace b = true
    · simp [hb, hc]
    · simp only [hb, Bool.false_eq_true, if_false]
      exact ih _ (by simp)

theorem fieldsUniAux_ne_nil (s cur : Bytes) (hc : cur ≠ []) : fieldsUniAux s cur ≠ [] := by
  induction h : s.length using Nat.strongRecOn generalizing s cur with
  | _ n ih =>
    cases s with
    | nil => unfold fieldsUniAux; simp [hc]
    | cons b rest =>
      unfold fieldsUniAux
      by_cases hsp : isSpaceRune (decodeRune b rest).1 = true
      · simp [hsp, hc]
      · simp only [hsp, Bool.false_eq_true, if_false]
        refine ih _ ?_ _ _ (by simp) rfl
        subst h
        simp only [List.length_drop, List.length_cons]
        omega

/-- first byte ASCII and not blank ⇒ `strings.Fields` returns at least one field -/
theorem fields_ne_nil (c : Byte) (r : Bytes) (hc : isAsciiSpace c = false) (hlt : c.val < 128) :
    fields (c :: r) ≠ [] := by
  unfold fields
  split
  · unfold fieldsAscii fieldsAux
    simp only [hc, Bool.false_eq_true, if_false]
    exact fieldsAux_ne_nil _ _ (by simp)
  · unfold fieldsUnicode fieldsUniAux
    have hd : decodeRune c r = (c.val, 0) := by unfold decodeRune; simp [hlt]
    have hs : isSpaceRune c.val = false := by
      unfold isAsciiSpace at hc
      unfold isSpaceRune
      simp only [Bool.or_eq_false_iff, Bool.and_eq_false_iff, decide_eq_false_iff_not] at hc ⊢
      omega
    simp only [hd, hs, Bool.false_eq_true, if_false]
    exact fieldsUniAux_ne_nil _ _ (by simp)

end Tars.Endpoint
