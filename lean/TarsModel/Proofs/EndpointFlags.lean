/-
  The `flag.FlagSet.Parse` model on the tokens of a rendered description.
-/
import TarsModel.Proofs.EndpointInt

namespace Tars.Endpoint
open Tars

/-- integer option values are Go `int`s (64 bit) -/
def Opt.IntOk : Opt → Prop
  | .h _ => True
  | .b _ => True
  | .p x => -(2 : Int) ^ 63 ≤ x ∧ x < (2 : Int) ^ 63
  | .t x => -(2 : Int) ^ 63 ≤ x ∧ x < (2 : Int) ^ 63
  | .g x => -(2 : Int) ^ 63 ≤ x ∧ x < (2 : Int) ^ 63
  | .q x => -(2 : Int) ^ 63 ≤ x ∧ x < (2 : Int) ^ 63
  | .w x => -(2 : Int) ^ 63 ≤ x ∧ x < (2 : Int) ^ 63
  | .v x => -(2 : Int) ^ 63 ≤ x ∧ x < (2 : Int) ^ 63
  | .e x => -(2 : Int) ^ 63 ≤ x ∧ x < (2 : Int) ^ 63

/-- `Value.Set` on the rendered value of an option succeeds and assigns that value -/
theorem set_opt (o : Opt) (st : Flags) (h : o.IntOk) : o.flag.set st o.text = (st.apply o, true) := by
  cases o
  case h x => simp [Opt.flag, Flag.set, Opt.text, Flags.apply]
  case b x => simp [Opt.flag, Flag.set, Opt.text, Flags.apply]
  all_goals
    simp only [Opt.IntOk] at h
    simp [Opt.flag, Flag.set, Opt.text, Flags.apply, parseInt_fmtInt _ h.1 h.2]

/-- what `parseOne` does once it has found flag `fl` with value `v` -/
def afterSet (fl : Flag) (st : Flags) (v : Bytes) (more : List Bytes) : Flags × Stop :=
  if (fl.set st v).2 then parseArgs more (fl.set st v).1 else ((fl.set st v).1, .invalidValue)

theorem letter_val (fl : Flag) : fl.letter.val ≠ 45 ∧ fl.letter.val ≠ 61 := by
  cases fl <;> decide

theorem lookup_letter (fl : Flag) : lookup [fl.letter] = some fl := by
  cases fl <;> decide

theorem parseArgs_plain (fl : Flag) (v : Bytes) (more : List Bytes) (st : Flags) :
    parseArgs ([B 45, fl.letter] :: v :: more) st = afterSet fl st v more := by
  have hl := letter_val fl
  rw [parseArgs]
  simp [hl.1, hl.2, splitEq, splitEqAux, lookup_letter, afterSet]

theorem parseArgs_dd (fl : Flag) (v : Bytes) (more : List Bytes) (st : Flags) :
    parseArgs ([B 45, B 45, fl.letter] :: v :: more) st = afterSet fl st v more := by
  have hl := letter_val fl
  rw [parseArgs]
  simp [hl.1, hl.2, splitEq, splitEqAux, lookup_letter, afterSet]

theorem parseArgs_eq (fl : Flag) (v : Bytes) (more : List Bytes) (st : Flags) :
    parseArgs ((B 45 :: fl.letter :: B 61 :: v) :: more) st = afterSet fl st v more := by
  have hl := letter_val fl
  rw [parseArgs]
  simp [hl.1, hl.2, splitEq, splitEqAux, lookup_letter, afterSet]

theorem parseArgs_ddeq (fl : Flag) (v : Bytes) (more : List Bytes) (st : Flags) :
    parseArgs ((B 45 :: B 45 :: fl.letter :: B 61 :: v) :: more) st = afterSet fl st v more := by
  have hl := letter_val fl
  rw [parseArgs]
  simp [hl.1, hl.2, splitEq, splitEqAux, lookup_letter, afterSet]

/-- the tokens of one written option are consumed and perform its assignment -/
theorem parseArgs_item (it : Item) (more : List Bytes) (st : Flags) (h : it.opt.IntOk) :
    parseArgs (it.pairs.map (·.2) ++ more) st = parseArgs more (st.apply it.opt) := by
  have hs := set_opt it.opt st h
  cases hf : it.form <;>
    simp only [Item.pairs, hf, Form.dashes, List.map_cons, List.map_nil, List.cons_append, List.nil_append]
  · rw [parseArgs_plain]; simp [afterSet, hs]
  · rw [parseArgs_dd]; simp [afterSet, hs]
  · rw [parseArgs_eq]; simp [afterSet, hs]
  · rw [parseArgs_ddeq]; simp [afterSet, hs]

/-- all options of a description are applied from left to right; parsing ends at the end of the arguments -/
theorem parseArgs_items (items : List Item) (st : Flags) (h : ∀ it ∈ items, it.opt.IntOk) :
    parseArgs ((items.flatMap Item.pairs).map (·.2)) st =
      (items.foldl (fun s it => s.apply it.opt) st, .endOfArgs) := by
  induction items generalizing st with
  | nil => simp [parseArgs]
  | cons it items ih =>
    have h1 := h it (by simp)
    have h2 : ∀ x ∈ items, x.opt.IntOk := fun x hx => h x (by simp [hx])
    rw [List.flatMap_cons, List.map_append, parseArgs_item it _ st h1, ih _ h2]
    rfl

end Tars.Endpoint
