/-
  Preservation of the pool invariant by every action (C19).
-/
import TarsModel.Proofs.PoolBasic

namespace Tars.Pool

/-- the four sums after updating worker `w` from `old` to `new` -/
theorem ws_set_sums (ws : List WPc) (w : Wid) (old new : WPc) (h : ws[w]? = some old) :
    (sumBy WPc.isWait (ws.set w new) + old.isWait = sumBy WPc.isWait ws + new.isWait) ∧
    (sumBy WPc.isDead (ws.set w new) + old.isDead = sumBy WPc.isDead ws + new.isDead) ∧
    (sumBy WPc.isAck (ws.set w new) + old.isAck = sumBy WPc.isAck ws + new.isAck) ∧
    (∀ j, wcount j (ws.set w new) + old.jobs.count j = wcount j ws + new.jobs.count j) :=
  ⟨sumBy_set _ ws w old new h, sumBy_set _ ws w old new h, sumBy_set _ ws w old new h,
   fun j => sumBy_set (fun x => x.jobs.count j) ws w old new h⟩

/-- split the invariant, then close every field of the new invariant -/
macro "pool_close" hi:ident : tactic => `(tactic| (
  obtain ⟨len, qcap, idleWait, idleNodup, idleCount, phase, deadCnt, ackCnt, ackW, callFresh,
    retSub, subNodup, cons⟩ := $hi
  refine ⟨?_, ?_, ?_, ?_, ?_, ?_, ?_, ?_, ?_, ?_, ?_, ?_, ?_⟩ <;>
    simp_all [DPc.picked, DPc.stopIdx, DPc.ackN, DPc.jobs, phaseOk, List.count_cons,
      List.count_append, List.count_singleton] <;>
    first
      | omega
      | grind [List.nodup_append, List.nodup_cons]))

/-- worker-update facts, simplified -/
macro "pool_ws" hget:ident old:term:max new:term:max : tactic => `(tactic| (
  obtain ⟨hW, hD, hA, hJ⟩ := ws_set_sums _ _ $old $new $hget
  simp [WPc.isWait, WPc.isDead, WPc.isAck, WPc.jobs] at hW hD hA hJ))

theorem inv_subCall {cfg : Cfg} {s s' : State} {j : Job} (hi : Inv cfg s)
    (h : stepSubCall s j = some s') : Inv cfg s' := by
  unfold stepSubCall at h
  split at h
  · cases h; pool_close hi
  · cases h

theorem inv_subSend {cfg : Cfg} {s s' : State} {j : Job} (hi : Inv cfg s)
    (h : stepSubSend cfg s j = some s') : Inv cfg s' := by
  unfold stepSubSend at h
  split at h
  · split at h
    · cases h; pool_close hi
    · split at h
      · cases h; pool_close hi
      · cases h
  · cases h

theorem inv_subRet {cfg : Cfg} {s s' : State} {j : Job} (hi : Inv cfg s)
    (h : stepSubRet s j = some s') : Inv cfg s' := by
  unfold stepSubRet at h
  split at h
  · cases h; pool_close hi
  · cases h

theorem inv_wReg {cfg : Cfg} {s s' : State} {w : Wid} (hi : Inv cfg s)
    (h : stepWReg cfg s w = some s') : Inv cfg s' := by
  unfold stepWReg at h
  split at h
  · rename_i hc
    obtain ⟨hget, hlen⟩ := hc
    pool_ws hget .reg .wait
    cases h
    pool_close hi
  · cases h

theorem inv_dTake {cfg : Cfg} {s s' : State} (hi : Inv cfg s)
    (h : stepDTake s = some s') : Inv cfg s' := by
  unfold stepDTake at h
  split at h
  · cases h; pool_close hi
  · cases h

theorem inv_dPick {cfg : Cfg} {s s' : State} (hi : Inv cfg s)
    (h : stepDPick s = some s') : Inv cfg s' := by
  unfold stepDPick at h
  split at h
  · cases h; pool_close hi
  · cases h

theorem inv_dGive {cfg : Cfg} {s s' : State} (hi : Inv cfg s)
    (h : stepDGive s = some s') : Inv cfg s' := by
  unfold stepDGive at h
  split at h
  · split at h
    · rename_i j w hd hget
      pool_ws hget .wait (.got j)
      cases h
      pool_close hi
    · cases h
  · cases h

theorem inv_start {cfg : Cfg} {s s' : State} {w : Wid} {j : Job} (hi : Inv cfg s)
    (h : stepStart s w j = some s') : Inv cfg s' := by
  unfold stepStart at h
  split at h
  · rename_i hget
    pool_ws hget (.got j) (.run j)
    cases h
    pool_close hi
  · cases h

theorem inv_fin {cfg : Cfg} {s s' : State} {w : Wid} {j : Job} (hi : Inv cfg s)
    (h : stepFin s w j = some s') : Inv cfg s' := by
  unfold stepFin at h
  split at h
  · rename_i hget
    pool_ws hget (.run j) .reg
    cases h
    pool_close hi
  · cases h

theorem inv_relCall {cfg : Cfg} {s s' : State} (hi : Inv cfg s)
    (h : stepRelCall s = some s') : Inv cfg s' := by
  unfold stepRelCall at h
  split at h
  · cases h; pool_close hi
  · cases h

theorem inv_relSend {cfg : Cfg} {s s' : State} (hi : Inv cfg s)
    (h : stepRelSend s = some s') : Inv cfg s' := by
  unfold stepRelSend at h
  split at h
  · cases h; pool_close hi
  · cases h

theorem inv_sTake {cfg : Cfg} {s s' : State} (hi : Inv cfg s)
    (h : stepSTake cfg s = some s') : Inv cfg s' := by
  unfold stepSTake at h
  split at h
  · split at h
    · cases h; pool_close hi
    · cases h
  · cases h

theorem inv_sSend {cfg : Cfg} {s s' : State} (hi : Inv cfg s)
    (h : stepSSend s = some s') : Inv cfg s' := by
  unfold stepSSend at h
  split at h
  · split at h
    · rename_i i w hd hget
      pool_ws hget .wait .stopAck
      cases h
      pool_close hi
    · cases h
  · cases h

theorem inv_sAck {cfg : Cfg} {s s' : State} (hi : Inv cfg s)
    (h : stepSAck s = some s') : Inv cfg s' := by
  unfold stepSAck at h
  split at h
  · split at h
    · rename_i i w hd hget
      pool_ws hget .stopAck .dead
      cases h
      pool_close hi
    · cases h
  · cases h

theorem inv_dAck {cfg : Cfg} {s s' : State} (hi : Inv cfg s)
    (h : stepDAck cfg s = some s') : Inv cfg s' := by
  unfold stepDAck at h
  split at h
  · split at h
    · cases h; pool_close hi
    · cases h
  · cases h

theorem inv_relRet {cfg : Cfg} {s s' : State} (hi : Inv cfg s)
    (h : stepRelRet s = some s') : Inv cfg s' := by
  unfold stepRelRet at h
  split at h
  · cases h; pool_close hi
  · cases h

theorem inv_step {cfg : Cfg} {s s' : State} (a : Action) (hi : Inv cfg s)
    (h : step cfg s a = some s') : Inv cfg s' := by
  cases a <;> simp only [step] at h
  · exact inv_subCall hi h
  · exact inv_subSend hi h
  · exact inv_subRet hi h
  · exact inv_wReg hi h
  · exact inv_dTake hi h
  · exact inv_dPick hi h
  · exact inv_dGive hi h
  · exact inv_start hi h
  · exact inv_fin hi h
  · exact inv_relCall hi h
  · exact inv_relSend hi h
  · exact inv_sTake hi h
  · exact inv_sSend hi h
  · exact inv_sAck hi h
  · exact inv_dAck hi h
  · exact inv_relRet hi h

theorem inv_reach {cfg : Cfg} {s : State} (h : Reach cfg s) : Inv cfg s := by
  induction h with
  | init => exact inv_init cfg
  | step a _ hs ih => exact inv_step a ih hs

theorem inv_run {cfg : Cfg} : ∀ (as : List Action) {s s' : State}, Inv cfg s →
    run cfg s as = some s' → Inv cfg s'
  | [], s, s', hi, h => by simp [run] at h; subst h; exact hi
  | a :: as, s, s', hi, h => by
    simp only [run] at h
    split at h
    · rename_i s1 hs
      exact inv_run as (inv_step a hi hs) h
    · cases h

theorem reach_run {cfg : Cfg} : ∀ (as : List Action) {s s' : State}, Reach cfg s →
    run cfg s as = some s' → Reach cfg s'
  | [], s, s', hi, h => by simp [run] at h; subst h; exact hi
  | a :: as, s, s', hi, h => by
    simp only [run] at h
    split at h
    · rename_i s1 hs
      exact reach_run as (Reach.step a hi hs) h
    · cases h

end Tars.Pool
