/-
  C17 helper lemmas: `analysisPath` on the path strings `/n1/…/nk` and `/n1/…/nk<key>`.
-/
import TarsModel.Proofs.ConfBasic

namespace Tars.Conf
open Tars

theorem split_noSep (sep : Byte) (a rest cur : Txt) (acc : List Txt) (h : sep ∉ a) :
    splitInitLast sep (a ++ rest) cur acc = splitInitLast sep rest (a.reverse ++ cur) acc := by
  induction a generalizing cur with
  | nil => rfl
  | cons c a ih =>
    have hc : c ≠ sep := fun e => h (e ▸ List.mem_cons_self)
    have ha : sep ∉ a := fun m => h (List.mem_cons_of_mem _ m)
    rw [List.cons_append, splitInitLast, if_neg hc, ih _ ha]
    simp

theorem split_end (sep : Byte) (a cur : Txt) (acc : List Txt) (h : sep ∉ a) :
    splitInitLast sep a cur acc = (acc.reverse, cur.reverse ++ a) := by
  have := split_noSep sep a [] cur acc h
  rw [List.append_nil] at this
  rw [this, splitInitLast]
  simp

/-- items before the last, and the last item, of `c :: p` -/
def initOf (c : Txt) : List Txt → List Txt
  | [] => []
  | n :: p => c :: initOf n p
def lastOf (c : Txt) : List Txt → Txt
  | [] => c
  | n :: p => lastOf n p

theorem initOf_lastOf (c : Txt) (p : List Txt) : initOf c p ++ [lastOf c p] = c :: p := by
  induction p generalizing c with
  | nil => rfl
  | cons n p ih => simp [initOf, lastOf, ih]

theorem lastOf_mem (c : Txt) (p : List Txt) : lastOf c p = c ∨ lastOf c p ∈ p := by
  induction p generalizing c with
  | nil => left; rfl
  | cons n p ih =>
    right
    rcases ih n with h | h
    · simp [lastOf, h]
    · simp [lastOf, h]

theorem split_domPath (p : List Txt) (z cur : Txt) (acc : List Txt)
    (hp : ∀ n ∈ p, slashCh ∉ n) (hz : slashCh ∉ z) :
    splitInitLast slashCh (domPath p ++ z) cur acc
      = (acc.reverse ++ initOf cur.reverse p, lastOf cur.reverse p ++ z) := by
  induction p generalizing cur acc with
  | nil => simpa [domPath, initOf, lastOf] using split_end slashCh z cur acc hz
  | cons n p ih =>
    have hn : slashCh ∉ n := hp n (by simp)
    have e : domPath (n :: p) ++ z = slashCh :: (n ++ (domPath p ++ z)) := by simp [domPath]
    rw [e, splitInitLast, if_pos rfl, split_noSep _ _ _ _ _ hn, ih _ _ (fun x hx => hp x (by simp [hx]))]
    simp [initOf, lastOf]

theorem pathName_spec (n : Txt) (h : pathName n = true) : n ≠ [] ∧ slashCh ∉ n ∧ ltCh ∉ n := by
  simp only [pathName, Bool.and_eq_true, Bool.not_eq_true'] at h
  refine ⟨?_, by simpa using h.1.2, by simpa using h.2⟩
  intro e; subst e; simp at h

theorem filter_nonempty (p : List Txt) (h : ∀ n ∈ p, n ≠ []) : p.filter (fun item => !item.isEmpty) = p := by
  apply List.filter_eq_self.mpr
  intro n hn
  have := h n hn
  cases n with
  | nil => exact absurd rfl this
  | cons _ _ => rfl

/-- `/n1/…/nk` addresses the domain `[n1, …, nk]` -/
theorem analysisPath_domPath (p : List Txt) (hp : ∀ n ∈ p, pathName n = true) :
    analysisPath (domPath p) = p := by
  have hs : ∀ n ∈ p, slashCh ∉ n := fun n hn => (pathName_spec n (hp n hn)).2.1
  have hl : ltCh ∉ lastOf [] p := by
    rcases lastOf_mem [] p with h | h
    · rw [h]; simp
    · exact (pathName_spec _ (hp _ h)).2.2
  have h1 := split_domPath p [] [] [] hs (by simp)
  simp only [List.append_nil, List.reverse_nil, List.nil_append] at h1
  have h2 := split_end ltCh (lastOf [] p) [] [] hl
  simp only [List.reverse_nil, List.nil_append] at h2
  unfold analysisPath
  simp only [h1, h2, initOf_lastOf]
  rw [List.filter_cons]
  simp only [List.isEmpty_nil, Bool.not_true, Bool.false_eq_true, if_false]
  exact filter_nonempty p (fun n hn => (pathName_spec n (hp n hn)).1)

/-- `/n1/…/nk<key>` addresses the key `key` of the domain `[n1, …, nk]` -/
theorem analysisPath_keyPath (p : List Txt) (k : Txt) (hp : ∀ n ∈ p, pathName n = true) (hk : pathKey k = true) :
    analysisPath (keyPath p k) = p ++ [k] := by
  simp only [pathKey, Bool.and_eq_true] at hk
  obtain ⟨hkn, hke⟩ := hk
  obtain ⟨hkne, hks, hkl⟩ := pathName_spec k hkn
  have hs : ∀ n ∈ p, slashCh ∉ n := fun n hn => (pathName_spec n (hp n hn)).2.1
  have hl : ltCh ∉ lastOf [] p := by
    rcases lastOf_mem [] p with h | h
    · rw [h]; simp
    · exact (pathName_spec _ (hp _ h)).2.2
  have e1 : slashCh ≠ ltCh := by decide
  have e2 : slashCh ≠ gtCh := by decide
  have e3 : ltCh ≠ gtCh := by decide
  have hz : slashCh ∉ ltCh :: (k ++ [gtCh]) := by
    simp only [List.mem_cons, List.mem_append, List.not_mem_nil, or_false, not_or]
    exact ⟨e1, hks, e2⟩
  have h1 := split_domPath p (ltCh :: (k ++ [gtCh])) [] [] hs hz
  simp only [List.reverse_nil, List.nil_append] at h1
  have hk2 : ltCh ∉ k ++ [gtCh] := by
    simp only [List.mem_append, List.mem_cons, List.not_mem_nil, or_false, not_or]
    exact ⟨hkl, e3⟩
  have h2 : splitInitLast ltCh (lastOf [] p ++ (ltCh :: (k ++ [gtCh]))) [] [] = ([lastOf [] p], k ++ [gtCh]) := by
    rw [split_noSep _ _ _ _ _ hl, splitInitLast, if_pos rfl]
    have := split_end ltCh (k ++ [gtCh]) [] [(lastOf [] p).reverse.reverse] hk2
    simpa using this
  have h3 : trim [gtCh] (k ++ [gtCh]) = k := by
    have := trim_core [gtCh] [] k [gtCh] (by intro b hb; simp at hb)
      (by intro b hb; simp at hb; subst hb; decide) hkne hke
    simpa using this
  have ek : keyPath p k = domPath p ++ (ltCh :: (k ++ [gtCh])) := by simp [keyPath]
  rw [ek]
  unfold analysisPath
  simp only [h1, h2, h3]
  have : initOf [] p ++ [lastOf [] p, k] = ([] : Txt) :: (p ++ [k]) := by
    have := initOf_lastOf [] p
    calc initOf [] p ++ [lastOf [] p, k] = (initOf [] p ++ [lastOf [] p]) ++ [k] := by simp
      _ = ([] : Txt) :: (p ++ [k]) := by rw [this]; rfl
  rw [this, List.filter_cons]
  simp only [List.isEmpty_nil, Bool.not_true, Bool.false_eq_true, if_false]
  apply filter_nonempty
  intro n hn
  rcases List.mem_append.mp hn with h | h
  · exact (pathName_spec n (hp n h)).1
  · simp at h; subst h; exact hkne

end Tars.Conf
