import TarsModel.Proofs.ShortMembers

namespace Tars
open Consts

theorem writeHead_append_inj {a b tag : Nat} {x y : Bytes} (ha : a < 16) (hb : b < 16)
    (h : writeHead a tag ++ x = writeHead b tag ++ y) : a = b ∧ x = y := by
  obtain ⟨h1, h2⟩ := writeHead_prefix_inj ha hb (⟨[], by simpa using h⟩ : writeHead a tag ++ x <+: writeHead b tag ++ y)
  subst h1
  exact ⟨rfl, List.append_cancel_left h⟩

theorem skipToStructEnd_eof (r : Reader) (h : r.rest = []) :
    skipToStructEnd r.fuel r = (.error .eof, r) := by
  rw [Reader.fuel_succ]
  unfold skipToStructEnd
  rw [readHead_nil r h]

theorem prefix_snoc_strict {α : Type} (q a : List α) (x : α) (h : q <+: a ++ [x])
    (hl : q.length < (a ++ [x]).length) : q <+: a := by
  rcases prefix_append_cases q a [x] h with ⟨p', rfl, hp'⟩ | ⟨_, hp⟩
  · have : p' = [] := by
      cases p' with
      | nil => rfl
      | cons y ys => simp at hl
    subst this; simp
  · exact hp

/-! ### the cut statement, kind by kind -/

theorem tr_scalar (env : Env) (rk : String → Nat) (v : Val)
    (hsc : ∀ ty, WT env ty v → ScalarOK ty v) : TR env rk v := by
  intro fuel tag req ty dflt old r q htag _ hd hwt ho hpre hlt hfuel hr
  have hv := hsc ty hwt
  have hat := scalarOK_isAtom hv
  obtain ⟨F, rfl⟩ : ∃ F, fuel = F + 1 := ⟨fuel - 1, by omega⟩
  have hok := targetOk_of_oldOK hd ho
  rcases encVar_headAt env tag req ty dflt v with h0 | ⟨hty, rest, h16, hne, hh⟩
  · rw [h0] at hlt; simp at hlt
  · exact cut_front env F tag req ty old r q _ hty rest h16 hh hpre hr hok (fun q1 hq _ =>
      decVar_atom_cut env F tag req ty dflt v old r q hat hv htag hlt hpre ⟨hty, q1, h16, hq⟩ hr)

theorem tr_list (env : Env) (rk : String → Nat) (hE : EnvWF env rk) (vs : List Val)
    (ih : ∀ v ∈ vs, TR env rk v) : TR env rk (.list vs) := by
  intro fuel tag req ty dflt old r q htag hty hd hwt ho hpre hlt hfuel hr
  obtain ⟨F, rfl⟩ : ∃ F, fuel = F + 1 := ⟨fuel - 1, by omega⟩
  have hok := targetOk_of_oldOK hd ho
  have c3 : (!req && !true) = false := by simp
  cases ty <;> simp only [WT] at hwt
  case vec e =>
    have := dflt_none_of_nonatom hd (by rfl)
    subst this
    simp only [TyOK] at hty
    have hold := ready_vec ho
    subst hold
    rw [encVar] at hpre hlt
    by_cases c1 : (!req && vs.isEmpty) = true
    · rw [if_pos c1] at hlt; simp at hlt
    rw [if_neg c1] at hpre hlt
    by_cases c2 : e = .i8
    · -- SimpleList
      subst c2
      simp only [if_true, List.append_assoc] at hpre hlt
      refine cut_front env F tag req _ _ r q _ tySimpleList _ (by decide) rfl hpre hr hok ?_
      intro q1 hq hq1
      subst hq
      have hs := skipToNoCheck_hit r tySimpleList tag req q1 (by decide) (by decide) htag hr
      have hr1 := r.rest_adv _ _ hr
      rw [decVar_vec, hs]
      simp only [c3]
      simp +decide only [if_false, if_true]
      have hb0 : writeHead tyBYTE 0 = [byte 0] := by decide
      rw [hb0] at hq1 hlt
      by_cases hq1e : q1 = []
      · subst hq1e
        obtain ⟨r', hm⟩ := Evolve.skipToNoCheck_missing 0 _ (Or.inl hr1)
        exact ⟨.require, r', by simp [skipTo, hm]⟩
      · rcases prefix_append_cases q1 _ _ hq1 with ⟨q2, rfl, hq2⟩ | ⟨hl1, _⟩
        · rw [skipTo_hit _ tyBYTE 0 true q2 (by decide) (by decide) (by decide) (by rw [hr1, hb0])]
          have hr2 := Reader.rest_adv _ _ _ (by rw [hr1, hb0] : (r.adv (writeHead tySimpleList tag).length).rest = writeHead tyBYTE 0 ++ q2)
          simp only
          obtain ⟨hb1, hb2, hb3⟩ := int8_roundtrip env vs hwt.2
          rcases prefix_append_cases q2 _ _ hq2 with ⟨q3, rfl, hq3⟩ | ⟨hl2, hp2⟩
          · rw [readLen_len _ vs.length _ hwt.1 hr2]
            have hr3 := Reader.rest_adv _ _ _ hr2
            simp only
            have hq3l : q3.length < vs.length := by
              simp only [List.length_append, List.length_cons, List.length_nil] at hlt
              rw [hb3] at hlt; omega
            unfold readSlice8
            have hpos : ¬ ((vs.length : Int) ≤ 0) := by omega
            rw [if_neg hpos, checkLength_of_gt (by
              right; rw [Reader.remaining_eq_rest, hr3]; omega)]
            exact ⟨_, _, rfl⟩
          · obtain ⟨er, r', he⟩ := readLen_cut _ _ q2 hp2 hl2 hr2
            rw [he]; exact ⟨er, r', rfl⟩
        · cases q1 with
          | nil => exact absurd rfl hq1e
          | cons x xs => simp at hl1
    · -- LIST
      simp only [c2, if_false, List.append_assoc] at hpre hlt
      refine cut_front env F tag req _ _ r q _ tyLIST _ (by decide) rfl hpre hr hok ?_
      intro q1 hq hq1
      subst hq
      have hs := skipToNoCheck_hit r tyLIST tag req q1 (by decide) (by decide) htag hr
      have hr1 := r.rest_adv _ _ hr
      rw [decVar_vec, hs]
      simp only [c3]
      simp +decide only [if_false, if_true]
      rcases prefix_append_cases q1 _ _ hq1 with ⟨q2, rfl, hq2⟩ | ⟨hl1, hp1⟩
      · rw [readLen_len _ vs.length _ hwt.1 hr1]
        have hr2 := Reader.rest_adv _ _ _ hr1
        simp only
        have hq2l : q2.length < (encElems env e vs).length := by
          simp only [List.length_append] at hlt; omega
        by_cases hc : vs.length ≤ q2.length
        · rw [checkLength_ok _ vs.length _ hr2 hc]
          simp only [Int.toNat_natCast]
          have hlen : (writeHead tyLIST tag ++ (writeInt32 (wrapS 32 ↑vs.length) 0 ++ q2)).length
              ≥ q2.length + 2 := by
            have h1 := writeHead_length_pos tyLIST tag
            have h2 : 0 < (writeInt32 (wrapS 32 ↑vs.length) 0).length := by
              obtain ⟨hty', pl, hsx, _, _, _⟩ := writeInt32_shape (wrapS 32 ↑vs.length) 0
              rw [hsx]; have := writeHead_length_pos hty' 0; simp; omega
            simp only [List.length_append]; omega
          have hK : (env.width + 3) * (q2.length + 2)
              ≤ (env.width + 3) * (writeHead tyLIST tag ++ (writeInt32 (wrapS 32 ↑vs.length) 0 ++ q2)).length :=
            Nat.mul_le_mul_left _ hlen
          rw [Nat.mul_add] at hK
          exact decElems_cut env rk hE e hty vs ih hwt.2 F [] _ q2 hq2 hq2l (by omega) hr2
        · rw [checkLength_of_gt (by right; rw [Reader.remaining_eq_rest, hr2]; omega)]
          exact ⟨_, _, rfl⟩
      · obtain ⟨er, r', he⟩ := readLen_cut _ _ q1 hp1 hl1 hr1
        rw [he]; exact ⟨er, r', rfl⟩
  case arr n e =>
    have := dflt_none_of_nonatom hd (by rfl)
    subst this
    simp only [TyOK] at hty
    obtain ⟨hvn, hn31, hwts⟩ := hwt
    subst hvn
    obtain ⟨os, rfl, hos, hro⟩ := ready_arr ho
    rw [encVar] at hpre hlt
    by_cases c1 : (!req && vs.isEmpty) = true
    · rw [if_pos c1] at hlt; simp at hlt
    rw [if_neg c1] at hpre hlt
    simp only [hty.1, if_false, List.append_assoc] at hpre hlt
    refine cut_front env F tag req _ _ r q _ tyLIST _ (by decide) rfl hpre hr hok ?_
    intro q1 hq hq1
    subst hq
    have hs := skipToNoCheck_hit r tyLIST tag req q1 (by decide) (by decide) htag hr
    have hr1 := r.rest_adv _ _ hr
    rw [decVar_arr, hs]
    simp only [c3]
    simp +decide only [if_false, if_true]
    rcases prefix_append_cases q1 _ _ hq1 with ⟨q2, rfl, hq2⟩ | ⟨hl1, hp1⟩
    · rw [readLen_len _ vs.length _ hn31 hr1]
      have hr2 := Reader.rest_adv _ _ _ hr1
      simp only
      have c4 : ¬ ((vs.length : Int) > (vs.length : Int)) := by omega
      rw [if_neg c4]
      have hq2l : q2.length < (encElems env e vs).length := by
        simp only [List.length_append] at hlt; omega
      have hlen : (writeHead tyLIST tag ++ (writeInt32 (wrapS 32 ↑vs.length) 0 ++ q2)).length
          ≥ q2.length + 2 := by
        have h1 := writeHead_length_pos tyLIST tag
        have h2 : 0 < (writeInt32 (wrapS 32 ↑vs.length) 0).length := by
          obtain ⟨hty', pl, hsx, _, _, _⟩ := writeInt32_shape (wrapS 32 ↑vs.length) 0
          rw [hsx]; have := writeHead_length_pos hty' 0; simp; omega
        simp only [List.length_append]; omega
      have hK : (env.width + 3) * (q2.length + 2)
          ≤ (env.width + 3) * (writeHead tyLIST tag ++ (writeInt32 (wrapS 32 ↑vs.length) 0 ++ q2)).length :=
        Nat.mul_le_mul_left _ hlen
      rw [Nat.mul_add] at hK
      have := decArr_cut env rk hE e hty.2.2 vs ih hwts F vs.length 0 [] os _ q2 rfl (by omega) (by omega)
        hro hq2 hq2l (by omega) hr2
      simpa using this
    · obtain ⟨er, r', he⟩ := readLen_cut _ _ q1 hp1 hl1 hr1
      rw [he]; exact ⟨er, r', rfl⟩

theorem tr_map (env : Env) (rk : String → Nat) (hE : EnvWF env rk) (kvs : List (Val × Val))
    (ih : ∀ p ∈ kvs, TR env rk p.1 ∧ TR env rk p.2) : TR env rk (.map kvs) := by
  intro fuel tag req ty dflt old r q htag hty hd hwt ho hpre hlt hfuel hr
  obtain ⟨F, rfl⟩ : ∃ F, fuel = F + 1 := ⟨fuel - 1, by omega⟩
  have hok := targetOk_of_oldOK hd ho
  cases ty <;> simp only [WT] at hwt
  rename_i k v
  have := dflt_none_of_nonatom hd (by rfl)
  subst this
  simp only [TyOK] at hty
  have hold := ready_map ho
  subst hold
  rw [encVar] at hpre hlt
  by_cases c1 : (!req && kvs.isEmpty) = true
  · rw [if_pos c1] at hlt; simp at hlt
  rw [if_neg c1] at hpre hlt
  simp only [List.append_assoc] at hpre hlt
  refine cut_front env F tag req _ _ r q _ tyMAP _ (by decide) rfl hpre hr hok ?_
  intro q1 hq hq1
  subst hq
  have hr1 := r.rest_adv _ _ hr
  rw [decVar_map, skipTo_hit r tyMAP tag req q1 (by decide) (by decide) htag hr]
  have c3 : (!req && !true) = false := by simp
  simp only [c3]
  simp +decide only [if_false]
  rcases prefix_append_cases q1 _ _ hq1 with ⟨q2, rfl, hq2⟩ | ⟨hl1, hp1⟩
  · rw [readLen_len _ kvs.length _ hwt.1 hr1]
    have hr2 := Reader.rest_adv _ _ _ hr1
    simp only
    have hq2l : q2.length < (encPairs env k v kvs).length := by
      simp only [List.length_append] at hlt; omega
    by_cases hc : kvs.length ≤ q2.length
    · rw [checkLength_ok _ kvs.length _ hr2 hc]
      simp only
      have hlen : (writeHead tyMAP tag ++ (writeInt32 (wrapS 32 ↑kvs.length) 0 ++ q2)).length
          ≥ q2.length + 2 := by
        have h1 := writeHead_length_pos tyMAP tag
        have h2 : 0 < (writeInt32 (wrapS 32 ↑kvs.length) 0).length := by
          obtain ⟨hty', pl, hsx, _, _, _⟩ := writeInt32_shape (wrapS 32 ↑kvs.length) 0
          rw [hsx]; have := writeHead_length_pos hty' 0; simp; omega
        simp only [List.length_append]; omega
      have hK : (env.width + 3) * (q2.length + 2)
          ≤ (env.width + 3) * (writeHead tyMAP tag ++ (writeInt32 (wrapS 32 ↑kvs.length) 0 ++ q2)).length :=
        Nat.mul_le_mul_left _ hlen
      rw [Nat.mul_add] at hK
      exact decPairs_cut env rk hE k v hty.1 hty.2 kvs ih hwt.2.2 F [] _ q2 hq2 hq2l (by omega) hr2
    · rw [checkLength_of_gt (by right; rw [Reader.remaining_eq_rest, hr2]; omega)]
      exact ⟨_, _, rfl⟩
  · obtain ⟨er, r', he⟩ := readLen_cut _ _ q1 hp1 hl1 hr1
    rw [he]; exact ⟨er, r', rfl⟩

theorem tr_struct (env : Env) (rk : String → Nat) (hE : EnvWF env rk) (vs : List Val)
    (ih : ∀ v ∈ vs, TR env rk v) : TR env rk (.struct vs) := by
  intro fuel tag req ty dflt old r q htag hty hd hwt ho hpre hlt hfuel hr
  obtain ⟨F, rfl⟩ : ∃ F, fuel = F + 1 := ⟨fuel - 1, by omega⟩
  have hok := targetOk_of_oldOK hd ho
  cases ty <;> try (simp only [WT] at hwt; done)
  rename_i name
  have := dflt_none_of_nonatom hd (by rfl)
  subst this
  simp only [WT] at hwt
  cases hfs : env.find name with
  | none => simp [hfs] at hwt
  | some fs =>
    simp only [hfs] at hwt
    obtain ⟨os, rfl, hos⟩ := ready_struct hfs ho
    obtain ⟨hrk, hasc, hfok⟩ := hE name fs hfs
    rw [encVar] at hpre hlt
    simp only [hfs, List.append_assoc] at hpre hlt
    refine cut_front env F tag req _ _ r q _ tyStructBegin _ (by decide) rfl hpre hr hok ?_
    intro q1 hq hq1
    subst hq
    have hr1 := r.rest_adv _ _ hr
    obtain ⟨G, rfl⟩ : ∃ G, F = G + 1 := ⟨F - 1, by
      have := writeHead_length_pos tyStructBegin tag
      simp only [List.length_append] at hfuel
      have : (env.width + 3) * 1 ≤ (env.width + 3) * ((writeHead tyStructBegin tag).length + q1.length) :=
        Nat.mul_le_mul_left _ (by omega)
      omega⟩
    rw [decVar_struct env (G+1) tag req name fs os r hfs,
      skipTo_hit r tyStructBegin tag req q1 (by decide) (by decide) htag hr]
    simp only [Bool.not_true, Bool.false_eq_true, if_false]
    have hse : writeHead tyStructEnd 0 = [byte 11] := by decide
    rw [hse] at hq1 hlt
    have hq1' : q1 <+: encMembers env fs vs := by
      apply prefix_snoc_strict q1 _ (byte 11) hq1
      simp only [List.length_append, List.length_cons, List.length_nil] at hlt ⊢
      omega
    have htys : ∀ g ∈ fs, TyOK env rk (env.length + 1) g.ty :=
      fun g hg => TyOK.mono (by omega) (hfok g hg).2.1
    have hold := resetDefault_twice_oldOK hE G fs os htys hos
    have hw := find_width env name fs hfs
    have hfu : (env.width + 3) * q1.length + fs.length + 2 ≤ G + 1 := by
      have := writeHead_length_pos tyStructBegin tag
      simp only [List.length_append, Nat.mul_add] at hfuel
      have : (env.width + 3) * 1 ≤ (env.width + 3) * (writeHead tyStructBegin tag).length :=
        Nat.mul_le_mul_left _ (by omega)
      omega
    rcases decMembers_prefix env rk hE (rk name) hrk vs ih fs _ (G+1) _ q1 hfok hasc hwt hold hq1' hfu hr1
      with ⟨e, r', he⟩ | ⟨k, r', _, _, _, hrest, hdec⟩
    · rw [he]; exact ⟨e, r', rfl⟩
    · rw [hdec]
      simp only
      rw [skipToStructEnd_eof r' hrest]
      exact ⟨_, _, rfl⟩

/-- **the knot**: for every Go value, the generated read of a member/element holding it fails on
    every strict prefix of its field (or, for an optional member whose head is not complete,
    treats it as absent) -/
theorem tr_all (env : Env) (rk : String → Nat) (hE : EnvWF env rk) : ∀ v, TR env rk v :=
  Val.ind
    (fun b => tr_scalar env rk _ (fun ty h => by simpa only [WT] using h))
    (fun i => tr_scalar env rk _ (fun ty h => by simpa only [WT] using h))
    (fun b => tr_scalar env rk _ (fun ty h => by simpa only [WT] using h))
    (fun b => tr_scalar env rk _ (fun ty h => by simpa only [WT] using h))
    (fun s => tr_scalar env rk _ (fun ty h => by simpa only [WT] using h))
    (fun vs ih => tr_list env rk hE vs ih)
    (fun kvs ih => tr_map env rk hE kvs ih)
    (fun vs ih => tr_struct env rk hE vs ih)

end Tars
