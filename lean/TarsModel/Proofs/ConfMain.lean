/-
  C17 helper lemmas: the packaged facts the property theorems are stated from.
-/
import TarsModel.Proofs.ConfGet
import TarsModel.Proofs.ConfPath
import TarsModel.Proofs.ConfTotal

namespace Tars.Conf
open Tars

theorem newRoot_ok : newRoot.ok = true := rfl

/-- the repaired parser accepts every grammar document and computes `semItems` -/
theorem parsed_repaired (d : Doc) (hwf : wfL d = true) :
    initFromTokens .repaired ⟨tokensL d, false⟩ = .ok (semItems d newRoot) :=
  initFrom_tokens .repaired d hwf (itemsBound_repaired d) newRoot newRoot_ok

/-- so does the as-found parser when every line is shorter than the scanner's default limit -/
theorem parsed_asFound (d : Doc) (hwf : wfL d = true) (hb : itemsBound .asFound d) :
    initFromTokens .asFound ⟨tokensL d, false⟩ = .ok (semItems d newRoot) :=
  initFrom_tokens .asFound d hwf hb newRoot newRoot_ok

theorem node_at (d : Doc) (hc : NoClash d) (p : List Txt) (b : List Item) (hd : descend d p = some b) :
    ∃ base, Fresh base ∧ getElem (semItems d newRoot) p = some (semItems b base) :=
  getElem_descend p d newRoot b fresh_newRoot hc hd

theorem noClash_at (d : Doc) (hc : NoClash d) (p : List Txt) (b : List Item) (hd : descend d p = some b) :
    ∀ n, n ∈ keysOf b → n ∉ domsOf b := hc p b hd

theorem value_at (d : Doc) (hc : NoClash d) (p : List Txt) (b : List Item) (hd : descend d p = some b)
    (k v : Txt) (hv : lastVal (entriesOf b) k = some v) :
    getElem (semItems d newRoot) (p ++ [k]) = some (newLeaf k v) := by
  obtain ⟨base, hf, hg⟩ := node_at d hc p b hd
  have hk : k ∈ keysOf b := (mem_keysOf_iff b k).mpr ⟨v, hv⟩
  have hnd := noClash_at d hc p b hd k hk
  rw [getElem_append, hg]
  simp only [getElem]
  rw [semItems_find_key b base k hnd, hv]

theorem absent_at (d : Doc) (hc : NoClash d) (p : List Txt) (b : List Item) (hd : descend d p = some b)
    (k : Txt) (hk : k ∉ keysOf b) (hnd : k ∉ domsOf b) :
    getElem (semItems d newRoot) (p ++ [k]) = none := by
  obtain ⟨base, hf, hg⟩ := node_at d hc p b hd
  rw [getElem_append, hg]
  simp only [getElem]
  rw [semItems_find_key b base k hnd, (lastVal_none_iff _ _).mpr hk, fresh_find base hf]

theorem keys_at (d : Doc) (hc : NoClash d) (p : List Txt) (b : List Item) (hd : descend d p = some b) :
    ∃ ks, getDomainKeyV (semItems d newRoot) p = some ks ∧ ks.Nodup ∧ ∀ x, x ∈ ks ↔ x ∈ keysOf b := by
  obtain ⟨base, hf, hg⟩ := node_at d hc p b hd
  refine ⟨_, by simp only [getDomainKeyV, hg, Option.map_some], ?_, node_keys b base hf (noClash_at d hc p b hd)⟩
  exact node_listing_nodup _ (semItems_ok b base (fresh_ok base hf)) (semItems_nodup b base (fresh_nodup base hf)) _

theorem doms_at (d : Doc) (hc : NoClash d) (p : List Txt) (b : List Item) (hd : descend d p = some b) :
    ∃ ds, getDomainV (semItems d newRoot) p = some ds ∧ ds.Nodup ∧ ∀ x, x ∈ ds ↔ x ∈ domsOf b := by
  obtain ⟨base, hf, hg⟩ := node_at d hc p b hd
  refine ⟨_, by simp only [getDomainV, hg, Option.map_some], ?_, node_doms b base hf (noClash_at d hc p b hd)⟩
  exact node_listing_nodup _ (semItems_ok b base (fresh_ok base hf)) (semItems_nodup b base (fresh_nodup base hf)) _

theorem lines_at (d : Doc) (hc : NoClash d) (p : List Txt) (b : List Item) (hd : descend d p = some b) :
    getDomainLineV (semItems d newRoot) p = some (linesOf b) := by
  obtain ⟨base, hf, hg⟩ := node_at d hc p b hd
  simp only [getDomainLineV, hg, Option.map_some, semItems_line, hf.2.1, List.nil_append]

theorem map_at (d : Doc) (hc : NoClash d) (p : List Txt) (b : List Item) (hd : descend d p = some b) :
    ∃ m, getMapV (semItems d newRoot) p = some m ∧ (m.map Prod.fst).Nodup ∧
      ∀ k v, (k, v) ∈ m ↔ lastVal (entriesOf b) k = some v := by
  obtain ⟨base, hf, hg⟩ := node_at d hc p b hd
  refine ⟨_, by simp only [getMapV, hg, Option.map_some], ?_, node_map b base hf (noClash_at d hc p b hd)⟩
  exact node_map_nodup _ (semItems_ok b base (fresh_ok base hf)) (semItems_nodup b base (fresh_nodup base hf)) _

/-- a path that is not a domain of the document: every listing is empty -/
theorem nodomain_at (d : Doc) (hc : NoClash d) (p : List Txt) (hd : descend d p = none) :
    (getDomainV (semItems d newRoot) p).getD [] = [] ∧ (getDomainKeyV (semItems d newRoot) p).getD [] = [] ∧
    (getDomainLineV (semItems d newRoot) p).getD [] = [] ∧ (getMapV (semItems d newRoot) p).getD [] = [] := by
  rcases getElem_no_descend p d newRoot fresh_newRoot hc hd with h | ⟨k, v, h⟩
  · simp [getDomainV, getDomainKeyV, getDomainLineV, getMapV, h]
  · simp [getDomainV, getDomainKeyV, getDomainLineV, getMapV, h, children_newLeaf, line_newLeaf]

theorem lastVal_iff_decomp (es : List (Txt × Txt)) (k v : Txt) :
    lastVal es k = some v ↔ ∃ es1 es2, es = es1 ++ (k, v) :: es2 ∧ k ∉ es2.map Prod.fst :=
  ⟨lastVal_some_decomp es k v, fun ⟨e1, e2, he, hn⟩ => by rw [he]; exact lastVal_decomp e1 e2 k v hn⟩

end Tars.Conf

namespace Tars.Conf
open Tars

theorem value_addLine (e : Elem) (l : Txt) : (e.addLine l).value = e.value := by cases e; rfl
theorem value_addChild (e : Elem) (n : Txt) (c : Elem) : (e.addChild n c).value = e.value := by cases e; rfl

theorem semLine_value (cur : Elem) (l : Line) : (semLine cur l).value = cur.value := by
  unfold semLine; split <;> simp [value_addChild, value_addLine]

theorem foldl_semLine_value (ls : List Line) (cur : Elem) : (ls.foldl semLine cur).value = cur.value := by
  induction ls generalizing cur with
  | nil => rfl
  | cons l ls ih => simp [List.foldl_cons, ih, semLine_value]

theorem semItems_value (d : List Item) (cur : Elem) : (semItems d cur).value = cur.value := by
  induction d generalizing cur with
  | nil => simp [semItems_nil]
  | cons i is ih =>
    rw [semItems_cons, ih]
    cases i with
    | text t => rw [semItem_text, foldl_semLine_value]
    | dom n body => rw [semItem_dom, value_addChild]

/-- the two-item document "key `n`, then sub-domain `n`" -/
theorem clash_key_first (n v : Txt) (body : List Item) :
    semItems [.text ⟨[.kv [] n [] (some ([], v)) []], []⟩, .dom n body] newRoot
      = ((newRoot.addLine (n ++ eqCh :: (if v.isEmpty then [] else v))).addChild n (newLeaf n v)).addChild n
          (semItems body (newLeaf n v)) := by
  rw [semItems_cons, semItems_cons, semItems_nil, semItem_dom, semItem_text]
  simp only [List.foldl_cons, List.foldl_nil, semLine, Line.listed, Line.entry, List.nil_append]
  simp [baseOf, findChild_addChild_same]

/-- the two-item document "sub-domain `n`, then key `n`" -/
theorem clash_dom_first (n v : Txt) (body : List Item) :
    (semItems [.dom n body, .text ⟨[.kv [] n [] (some ([], v)) []], []⟩] newRoot).findChild n = some (newLeaf n v) := by
  rw [semItems_cons, semItems_cons, semItems_nil, semItem_text]
  simp only [List.foldl_cons, List.foldl_nil, semLine, Line.listed, Line.entry]
  exact findChild_addChild_same _ _ _

end Tars.Conf

namespace Tars.Conf
open Tars

mutual
theorem wellNested_item : ∀ (i : Item) (ts : List Token) (n : Nat),
    wellNested (i.tokens ++ ts) n = wellNested ts n
  | .text t, ts, n => by
    by_cases he : t.render.isEmpty = true
    · simp [Item.tokens, he]
    · simp [Item.tokens, he, wellNested]
  | .dom m body, ts, n => by
    have e : (Item.dom m body).tokens ++ ts = .start m :: (tokensL body ++ (.fin m :: ts)) := by
      simp [Item.tokens]
    rw [e, wellNested, wellNested_items body (.fin m :: ts) (n + 1), wellNested]
theorem wellNested_items : ∀ (is : List Item) (ts : List Token) (n : Nat),
    wellNested (tokensL is ++ ts) n = wellNested ts n
  | [], ts, n => by simp [tokensL]
  | i :: is, ts, n => by
    rw [tokensL, List.append_assoc, wellNested_item i _ n, wellNested_items is ts n]
end

end Tars.Conf
