import TarsModel.Model.ClientConn

/-! Helper lemmas for C11: the inductive invariant of the client-connection LTS. -/
namespace Tars.ClientConn

def SPc.hand : SPc → Option Msg
  | .atGot m | .got m | .ready m | .failed m | .handback m => some m
  | _ => none

def InFlight (s : State) (m : Msg) : Prop :=
  m ∈ s.sendQ ∨ s.failQ = some m ∨ (∃ pc, (m, pc) ∈ s.calls) ∨
    ∃ (k : Nat) (c : Conn), s.conns[k]? = some c ∧ c.spc.hand = some m

structure Inv (v : Variant) (s : State) : Prop where
  closedKnown : s.isClosed = true → ∀ (k : Nat) (c : Conn), s.conns[k]? = some c → k + 1 = s.conns.length → c.known = true
  knownClosed : ∀ (k : Nat) (c : Conn), s.conns[k]? = some c → k + 1 = s.conns.length → c.known = true → s.isClosed = true
  oldKnown : ∀ (k : Nat) (c : Conn), s.conns[k]? = some c → k + 1 < s.conns.length → c.known = true
  doneKnown : ∀ (k : Nat) (c : Conn), s.conns[k]? = some c →
    (c.connDone = true ∨ c.rpc = .signalling ∨ c.rpc = .done ∨ c.spc = .exited) → c.known = true
  failedDead : ∀ (k : Nat) (c : Conn), s.conns[k]? = some c → ((∃ m, c.spc = .failed m) ∨ c.spc = .failClosing) →
    c.alive = false ∨ c.known = true
  handbackKnown : ∀ (k : Nat) (c : Conn) (m : Msg), s.conns[k]? = some c → c.spc = .handback m → c.known = true
  deadKnown : ∀ m, InFlight s m → ∀ j ∈ m.dead, knownAt s j = true
  readyFresh : ∀ (k : Nat) (c : Conn) (m : Msg), s.conns[k]? = some c →
    (c.spc = .ready m ∨ c.spc = .atGot m) → k ∉ m.dead
  attemptsFresh : ∀ m k, (m, k) ∈ s.attempts → k ∉ m.dead
  locked : s.unlockedDial = false

def good (v : Variant) (s : State) (a : Action) : Prop := v = .repaired ∨ timely s a = true



theorem findCall_mem {s : State} {id : Nat} {m : Msg} {pc : CallPc} (h : findCall s id = some (m, pc)) :
    (m, pc) ∈ s.calls := List.mem_of_find?_eq_some h

theorem mem_setCall {s : State} {m x : Msg} {pc pc' : CallPc} (h : (x, pc') ∈ (setCall s m pc).calls) :
    x = m ∨ ∃ pc'', (x, pc'') ∈ s.calls := by
  simp only [setCall, List.mem_map] at h
  obtain ⟨y, hy, he⟩ := h
  split at he
  · left; cases he; rfl
  · right; exact ⟨pc', he ▸ hy⟩

theorem mem_dropCall {s : State} {id : Nat} {x : Msg} {pc' : CallPc} (h : (x, pc') ∈ (dropCall s id).calls) :
    (x, pc') ∈ s.calls := by
  simp only [dropCall, List.mem_filter] at h
  exact h.1

theorem mem_knownList {s : State} {j : Nat} (h : j ∈ knownList s) : knownAt s j = true := by
  simp only [knownList, List.mem_filter] at h
  exact h.2

@[simp] theorem setCall_isClosed (s : State) (m pc) : (setCall s m pc).isClosed = s.isClosed := rfl
@[simp] theorem setCall_conns (s : State) (m pc) : (setCall s m pc).conns = s.conns := rfl
@[simp] theorem setCall_sendQ (s : State) (m pc) : (setCall s m pc).sendQ = s.sendQ := rfl
@[simp] theorem setCall_failQ (s : State) (m pc) : (setCall s m pc).failQ = s.failQ := rfl
@[simp] theorem setCall_attempts (s : State) (m pc) : (setCall s m pc).attempts = s.attempts := rfl
@[simp] theorem dropCall_isClosed (s : State) (id) : (dropCall s id).isClosed = s.isClosed := rfl
@[simp] theorem dropCall_conns (s : State) (id) : (dropCall s id).conns = s.conns := rfl
@[simp] theorem dropCall_sendQ (s : State) (id) : (dropCall s id).sendQ = s.sendQ := rfl
@[simp] theorem dropCall_failQ (s : State) (id) : (dropCall s id).failQ = s.failQ := rfl
@[simp] theorem dropCall_attempts (s : State) (id) : (dropCall s id).attempts = s.attempts := rfl

/-- a state with the same connections, flag and attempts, whose in-flight requests all were in
flight before, inherits the invariant -/
theorem inv_of_same {v : Variant} {s s' : State} (hi : Inv v s) (hc : s'.conns = s.conns)
    (hf : s'.isClosed = s.isClosed) (ha : s'.attempts = s.attempts)
    (hm : ∀ m, InFlight s' m → InFlight s m ∨ m.dead = knownList s)
    (hu : s'.unlockedDial = s.unlockedDial := by rfl) : Inv v s' := by
  have hk : ∀ j, knownAt s' j = knownAt s j := by intro j; simp only [knownAt, hc]
  constructor
  · rw [hc, hf]; exact hi.closedKnown
  · rw [hc, hf]; exact hi.knownClosed
  · rw [hc]; exact hi.oldKnown
  · rw [hc]; exact hi.doneKnown
  · rw [hc]; exact hi.failedDead
  · rw [hc]; exact hi.handbackKnown
  · intro m hm' j hj
    rw [hk]
    rcases hm m hm' with h | h
    · exact hi.deadKnown m h j hj
    · exact mem_knownList (h ▸ hj)
  · rw [hc]; exact hi.readyFresh
  · rw [ha]; exact hi.attemptsFresh
  · rw [hu]; exact hi.locked
macro "inv_case" h:ident : tactic => `(tactic|
  (simp only [step] at $h:ident
   repeat' (split at $h:ident)
   all_goals first
     | (cases $h:ident; done)
     | (cases $h:ident
        constructor
        all_goals simp only [setConn, closeConn, knownAt, InFlight, List.getElem?_set, List.length_set, isCur, afterDequeue]
        all_goals grind [Inv, InFlight, knownAt, SPc.hand, good, timely, isCur, afterDequeue])))



theorem inv_callBegin {v cap s s' id} (hi : Inv v s) (h : step v cap s (.callBegin id) = some s') : Inv v s' := by
  simp only [step] at h
  split at h
  · cases h
  · cases h
    refine inv_of_same hi rfl rfl rfl ?_
    intro m hm
    simp only [InFlight, List.mem_append, List.mem_singleton] at hm ⊢
    grind

theorem inv_markReconnected {v cap s s' id} (hi : Inv v s) (h : step v cap s (.markReconnected id) = some s') : Inv v s' := by
  simp only [step] at h
  split at h
  · cases h
    rename_i m hf
    refine inv_of_same hi rfl rfl rfl ?_
    intro x hx
    left
    simp only [InFlight, setCall_sendQ, setCall_failQ, setCall_conns] at hx ⊢
    rcases hx with h1 | h1 | ⟨pc, h1⟩ | h1
    · exact Or.inl h1
    · exact Or.inr (Or.inl h1)
    · right; right; left
      rcases mem_setCall h1 with rfl | h2
      · exact ⟨_, findCall_mem hf⟩
      · exact h2
    · exact Or.inr (Or.inr (Or.inr h1))
  · cases h

theorem inFlight_setCall {s : State} {id : Nat} {m x : Msg} {pc0 pc : CallPc}
    (hf : findCall s id = some (m, pc0)) (hx : InFlight (setCall s m pc) x) : InFlight s x := by
  simp only [InFlight, setCall_sendQ, setCall_failQ, setCall_conns] at hx ⊢
  rcases hx with h1 | h1 | ⟨pc', h1⟩ | h1
  · exact Or.inl h1
  · exact Or.inr (Or.inl h1)
  · right; right; left
    rcases mem_setCall h1 with rfl | h2
    · exact ⟨_, findCall_mem hf⟩
    · exact h2
  · exact Or.inr (Or.inr (Or.inr h1))

theorem inFlight_dropCall {s : State} {id : Nat} {x : Msg} (hx : InFlight (dropCall s id) x) :
    InFlight s x := by
  simp only [InFlight, dropCall_sendQ, dropCall_failQ, dropCall_conns] at hx ⊢
  rcases hx with h1 | h1 | ⟨pc', h1⟩ | h1
  · exact Or.inl h1
  · exact Or.inr (Or.inl h1)
  · exact Or.inr (Or.inr (Or.inl ⟨pc', mem_dropCall h1⟩))
  · exact Or.inr (Or.inr (Or.inr h1))

theorem inv_callRet {v cap s s' id} (hi : Inv v s) (h : step v cap s (.callRet id) = some s') : Inv v s' := by
  simp only [step] at h
  split at h
  · cases h
    exact inv_of_same hi rfl rfl rfl (fun m hm => Or.inl (inFlight_dropCall hm))
  · cases h

theorem inv_callFail {v cap s s' id} (hi : Inv v s) (h : step v cap s (.callFail id) = some s') : Inv v s' := by
  simp only [step] at h
  split at h
  · split at h
    · cases h
    · cases h
      exact inv_of_same hi rfl rfl rfl (fun m hm => Or.inl (inFlight_dropCall hm))
  · cases h

theorem inv_callEnq {v cap s s' id} (hi : Inv v s) (h : step v cap s (.callEnq id) = some s') : Inv v s' := by
  simp only [step] at h
  split at h
  · rename_i m hf
    split at h
    · cases h
      refine inv_of_same hi rfl rfl rfl ?_
      intro x hx
      left
      have hm : InFlight s m := Or.inr (Or.inr (Or.inl ⟨_, findCall_mem hf⟩))
      simp only [InFlight, List.mem_append, List.mem_singleton] at hx
      rcases hx with (h1 | rfl) | h1 | h1 | h1
      · exact inFlight_setCall (pc := .queued) hf (Or.inl h1)
      · exact hm
      · exact inFlight_setCall (pc := .queued) hf (Or.inr (Or.inl h1))
      · exact inFlight_setCall (pc := .queued) hf (Or.inr (Or.inr (Or.inl h1)))
      · exact inFlight_setCall (pc := .queued) hf (Or.inr (Or.inr (Or.inr h1)))
    · cases h
  · cases h

theorem inv_obsRecv {v cap s s' k id} (hi : Inv v s) (h : step v cap s (.obsRecv k id) = some s') : Inv v s' := by
  simp only [step] at h
  split at h
  · cases h
    exact inv_of_same hi rfl rfl rfl (fun m hm => Or.inl hm)
  · cases h

theorem inv_obsAccept {v cap s s' k} (hi : Inv v s) (h : step v cap s (.obsAccept k) = some s') : Inv v s' := by
  simp only [step] at h
  split at h
  · cases h
    exact inv_of_same hi rfl rfl rfl (fun m hm => Or.inl hm)
  · cases h

theorem inv_callReconnect {v cap s s' id} (hi : Inv v s) (h : step v cap s (.callReconnect id) = some s') : Inv v s' := by
  simp only [step] at h
  split at h
  · rename_i m hf
    split at h
    · cases h
      rename_i hcl
      have hlen : ∀ k, k + 1 = s.conns.length → k < s.conns.length := by omega
      have hknown : ∀ j, knownAt s j = true →
          knownAt { setCall s m .atConnected with conns := s.conns ++ [{}], isClosed := false } j = true := by
        intro j hj
        simp only [knownAt] at hj ⊢
        split at hj
        · rename_i c hc
          have : j < s.conns.length := (List.getElem?_eq_some_iff.mp hc).1
          rw [List.getElem?_append_left this, hc]; exact hj
        · cases hj
      constructor
      · intro h0; cases h0
      · intro k c hk hl hkn
        simp only [List.length_append, List.length_singleton] at hl
        have : k = s.conns.length := by omega
        subst this
        simp at hk
        subst hk
        cases hkn
      · intro k c hk hl
        simp only [List.length_append, List.length_singleton] at hl
        have hk' : k < s.conns.length := by omega
        rw [List.getElem?_append_left hk'] at hk
        by_cases he : k + 1 = s.conns.length
        · exact hi.closedKnown hcl k c hk he
        · exact hi.oldKnown k c hk (by omega)
      · intro k c hk hd
        by_cases hk' : k < s.conns.length
        · rw [List.getElem?_append_left hk'] at hk
          exact hi.doneKnown k c hk hd
        · have : k = s.conns.length := by
            have := (List.getElem?_eq_some_iff.mp hk).1
            simp only [List.length_append, List.length_singleton] at this
            omega
          subst this
          simp at hk
          subst hk
          simp at hd
      · intro k c hk hd
        by_cases hk' : k < s.conns.length
        · rw [List.getElem?_append_left hk'] at hk
          exact hi.failedDead k c hk hd
        · have : k = s.conns.length := by
            have := (List.getElem?_eq_some_iff.mp hk).1
            simp only [List.length_append, List.length_singleton] at this
            omega
          subst this
          simp at hk
          subst hk
          simp at hd
      · intro k c m' hk hd
        by_cases hk' : k < s.conns.length
        · rw [List.getElem?_append_left hk'] at hk
          exact hi.handbackKnown k c m' hk hd
        · have : k = s.conns.length := by
            have := (List.getElem?_eq_some_iff.mp hk).1
            simp only [List.length_append, List.length_singleton] at this
            omega
          subst this
          simp at hk
          subst hk
          simp at hd
      · intro x hx j hj
        apply hknown
        refine hi.deadKnown x ?_ j hj
        refine inFlight_setCall (pc := .atConnected) hf ?_
        simp only [InFlight] at hx ⊢
        rcases hx with h1 | h1 | h1 | ⟨k, c, hk, hh⟩
        · exact Or.inl h1
        · exact Or.inr (Or.inl h1)
        · exact Or.inr (Or.inr (Or.inl h1))
        · right; right; right
          by_cases hk' : k < s.conns.length
          · rw [List.getElem?_append_left hk'] at hk
            exact ⟨k, c, hk, hh⟩
          · have : k = s.conns.length := by
              have := (List.getElem?_eq_some_iff.mp hk).1
              simp only [List.length_append, List.length_singleton] at this
              omega
            subst this
            simp at hk
            subst hk
            simp [SPc.hand] at hh
      · intro k c m' hk hd
        by_cases hk' : k < s.conns.length
        · rw [List.getElem?_append_left hk'] at hk
          exact hi.readyFresh k c m' hk hd
        · have : k = s.conns.length := by
            have := (List.getElem?_eq_some_iff.mp hk).1
            simp only [List.length_append, List.length_singleton] at this
            omega
          subst this
          simp at hk
          subst hk
          simp at hd
      · exact hi.attemptsFresh
      · exact hi.locked
    · cases h
      exact inv_of_same hi rfl rfl rfl (fun x hx => Or.inl (inFlight_setCall hf hx))
  · cases h

theorem inv_mark {v cap s s' p k} (hi : Inv v s) (h : step v cap s (.mark p k) = some s') : Inv v s' := by
  inv_case h

theorem inv_pClose {v cap s s' k} (hi : Inv v s) (_hg : good v s (.pClose k)) (h : step v cap s (.pClose k) = some s') : Inv v s' := by
  inv_case h

theorem inv_rEof {v cap s s' k} (hi : Inv v s) (_hg : good v s (.rEof k)) (h : step v cap s (.rEof k) = some s') : Inv v s' := by
  inv_case h

theorem inv_rErr {v cap s s' k} (hi : Inv v s) (_hg : good v s (.rErr k)) (h : step v cap s (.rErr k) = some s') : Inv v s' := by
  inv_case h

theorem inv_pReset {v cap s s' k} (hi : Inv v s) (_hg : good v s (.pReset k)) (h : step v cap s (.pReset k) = some s') : Inv v s' := by
  inv_case h

theorem inv_rClose {v cap s s' k} (hi : Inv v s) (_hg : good v s (.rClose k)) (h : step v cap s (.rClose k) = some s') : Inv v s' := by
  inv_case h

theorem inv_rSignal {v cap s s' k} (hi : Inv v s) (_hg : good v s (.rSignal k)) (h : step v cap s (.rSignal k) = some s') : Inv v s' := by
  inv_case h

theorem inv_sTopDone {v cap s s' k} (hi : Inv v s) (_hg : good v s (.sTopDone k)) (h : step v cap s (.sTopDone k) = some s') : Inv v s' := by
  inv_case h

theorem inv_sTopGo {v cap s s' k} (hi : Inv v s) (_hg : good v s (.sTopGo k)) (h : step v cap s (.sTopGo k) = some s') : Inv v s' := by
  inv_case h

theorem inv_sTakeFail {v cap s s' k} (hi : Inv v s) (_hg : good v s (.sTakeFail k)) (h : step v cap s (.sTakeFail k) = some s') : Inv v s' := by
  cases v <;> inv_case h

theorem inv_sNoFail {v cap s s' k} (hi : Inv v s) (_hg : good v s (.sNoFail k)) (h : step v cap s (.sNoFail k) = some s') : Inv v s' := by
  inv_case h

theorem inv_sTakeQ {v cap s s' k} (hi : Inv v s) (_hg : good v s (.sTakeQ k)) (h : step v cap s (.sTakeQ k) = some s') : Inv v s' := by
  cases v <;> inv_case h

theorem inv_sTickClosed {v cap s s' k} (hi : Inv v s) (_hg : good v s (.sTickClosed k)) (h : step v cap s (.sTickClosed k) = some s') : Inv v s' := by
  inv_case h

theorem inv_sTickIdle {v cap s s' k} (hi : Inv v s) (_hg : good v s (.sTickIdle k)) (h : step v cap s (.sTickIdle k) = some s') : Inv v s' := by
  inv_case h

theorem inv_sTickCont {v cap s s' k} (hi : Inv v s) (_hg : good v s (.sTickCont k)) (h : step v cap s (.sTickCont k) = some s') : Inv v s' := by
  inv_case h

theorem inv_sIdleClose {v cap s s' k} (hi : Inv v s) (_hg : good v s (.sIdleClose k)) (h : step v cap s (.sIdleClose k) = some s') : Inv v s' := by
  inv_case h

theorem inv_sInnerFail {v cap s s' k} (hi : Inv v s) (_hg : good v s (.sInnerFail k)) (h : step v cap s (.sInnerFail k) = some s') : Inv v s' := by
  cases v <;> inv_case h

theorem inv_sInnerDone {v cap s s' k} (hi : Inv v s) (_hg : good v s (.sInnerDone k)) (h : step v cap s (.sInnerDone k) = some s') : Inv v s' := by
  inv_case h

theorem inv_sCheckOk {v cap s s' k} (hi : Inv v s) (_hg : good v s (.sCheckOk k)) (h : step v cap s (.sCheckOk k) = some s') : Inv v s' := by
  inv_case h

theorem inv_sCheckLost {v cap s s' k} (hi : Inv v s) (_hg : good v s (.sCheckLost k)) (h : step v cap s (.sCheckLost k) = some s') : Inv v s' := by
  inv_case h

theorem inv_sHandback {v cap s s' k} (hi : Inv v s) (_hg : good v s (.sHandback k)) (h : step v cap s (.sHandback k) = some s') : Inv v s' := by
  inv_case h

theorem inv_sWriteOk {v cap s s' k} (hi : Inv v s) (_hg : good v s (.sWriteOk k)) (h : step v cap s (.sWriteOk k) = some s') : Inv v s' := by
  inv_case h

theorem inv_sWriteLost {v cap s s' k} (hi : Inv v s) (_hg : good v s (.sWriteLost k)) (h : step v cap s (.sWriteLost k) = some s') : Inv v s' := by
  inv_case h

theorem inv_sWriteFail {v cap s s' k} (hi : Inv v s) (_hg : good v s (.sWriteFail k)) (h : step v cap s (.sWriteFail k) = some s') : Inv v s' := by
  inv_case h

theorem inv_sRequeue {v cap s s' k} (hi : Inv v s) (_hg : good v s (.sRequeue k)) (h : step v cap s (.sRequeue k) = some s') : Inv v s' := by
  inv_case h

theorem inv_sFailClose {v cap s s' k} (hi : Inv v s) (_hg : good v s (.sFailClose k)) (h : step v cap s (.sFailClose k) = some s') : Inv v s' := by
  inv_case h

theorem inv_callCheckClosed {v cap s s' id} (hi : Inv v s)
    (h : step v cap s (.callCheckClosed id) = some s') : Inv v s' := by
  simp only [step] at h
  split at h
  · rename_i hu; rw [hi.locked] at hu; cases hu
  · cases h

theorem inv_callInstall {v cap s s' id} (hi : Inv v s)
    (h : step v cap s (.callInstall id) = some s') : Inv v s' := by
  simp only [step] at h
  split at h
  · rename_i hu; rw [hi.locked] at hu; cases hu
  · cases h

/-- the invariant is preserved by every step that is timely (as found) / by every step (repaired) -/
theorem inv_step {v cap s s' a} (hi : Inv v s) (hg : good v s a) (h : step v cap s a = some s') : Inv v s' := by
  cases a with
  | callBegin id => exact inv_callBegin hi h
  | callReconnect id => exact inv_callReconnect hi h
  | callCheckClosed id => exact inv_callCheckClosed hi h
  | callInstall id => exact inv_callInstall hi h
  | markReconnected id => exact inv_markReconnected hi h
  | callEnq id => exact inv_callEnq hi h
  | callFail id => exact inv_callFail hi h
  | callRet id => exact inv_callRet hi h
  | mark p k => exact inv_mark hi h
  | obsAccept k => exact inv_obsAccept hi h
  | obsRecv k id => exact inv_obsRecv hi h
  | pClose k => exact inv_pClose hi hg h
  | rEof k => exact inv_rEof hi hg h
  | rErr k => exact inv_rErr hi hg h
  | pReset k => exact inv_pReset hi hg h
  | rClose k => exact inv_rClose hi hg h
  | rSignal k => exact inv_rSignal hi hg h
  | sTopDone k => exact inv_sTopDone hi hg h
  | sTopGo k => exact inv_sTopGo hi hg h
  | sTakeFail k => exact inv_sTakeFail hi hg h
  | sNoFail k => exact inv_sNoFail hi hg h
  | sTakeQ k => exact inv_sTakeQ hi hg h
  | sTickClosed k => exact inv_sTickClosed hi hg h
  | sTickIdle k => exact inv_sTickIdle hi hg h
  | sTickCont k => exact inv_sTickCont hi hg h
  | sIdleClose k => exact inv_sIdleClose hi hg h
  | sInnerFail k => exact inv_sInnerFail hi hg h
  | sInnerDone k => exact inv_sInnerDone hi hg h
  | sCheckOk k => exact inv_sCheckOk hi hg h
  | sCheckLost k => exact inv_sCheckLost hi hg h
  | sHandback k => exact inv_sHandback hi hg h
  | sWriteOk k => exact inv_sWriteOk hi hg h
  | sWriteLost k => exact inv_sWriteLost hi hg h
  | sWriteFail k => exact inv_sWriteFail hi hg h
  | sRequeue k => exact inv_sRequeue hi hg h
  | sFailClose k => exact inv_sFailClose hi hg h

theorem inv_init (v : Variant) : Inv v init := by
  constructor <;> simp [init, InFlight, knownAt]

theorem inv_initNoIdle (v : Variant) : Inv v initNoIdle := by
  constructor <;> simp [initNoIdle, InFlight, knownAt]

/-- schedules on which the invariant is maintained: all schedules of the repaired code, the timely
schedules of the code as found -/
def GoodFrom (v : Variant) (cap : Nat) (s : State) (acts : List Action) : Prop :=
  v = .repaired ∨ TimelyFrom v cap s acts

theorem inv_runFrom {v cap} : ∀ (acts : List Action) (s s' : State), Inv v s → GoodFrom v cap s acts →
    runFrom v cap s acts = some s' → Inv v s'
  | [], s, s', hi, _, h => by simp only [runFrom] at h; cases h; exact hi
  | a :: as, s, s', hi, hg, h => by
    simp only [runFrom] at h
    split at h
    · cases h
    · rename_i s1 hs1
      have hga : good v s a := by
        rcases hg with hg | hg
        · exact Or.inl hg
        · exact Or.inr hg.1
      have hgr : GoodFrom v cap s1 as := by
        rcases hg with hg | hg
        · exact Or.inl hg
        · right
          have := hg.2
          rw [hs1] at this
          exact this
      exact inv_runFrom as s1 s' (inv_step hi hga hs1) hgr h

theorem inv_run {v cap acts s} (hg : GoodFrom v cap init acts) (h : run v cap acts = some s) : Inv v s :=
  inv_runFrom acts init s (inv_init v) hg h

theorem run_reachable {v cap} : ∀ (acts : List Action) (s s' : State), Reachable v cap s →
    runFrom v cap s acts = some s' → Reachable v cap s'
  | [], s, s', hr, h => by simp only [runFrom] at h; cases h; exact hr
  | a :: as, s, s', hr, h => by
    simp only [runFrom] at h
    split at h
    · cases h
    · rename_i s1 hs1
      exact run_reachable as s1 s' (Reachable.step a hr hs1) h

/-- every reachable state of the repaired code satisfies the invariant -/
theorem reachable_inv_repaired {cap s} (h : Reachable .repaired cap s) : Inv .repaired s := by
  induction h with
  | init => exact inv_init _
  | initNoIdle => exact inv_initNoIdle _
  | step a _ hs ih => exact inv_step ih (Or.inl rfl) hs

end Tars.ClientConn
