import TarsModel.Proofs.SchemaTop
import TarsModel.Proofs.Evolve

/-!
# What `genWriteVar` emits for a well-typed value is one well-formed wire field

Bridge between the schema encoder (`encVar`, C03) and the grammar of well-formed fields
(`WFField`, C04): the bytes written for a member/parameter are either nothing (an optional member
at its default) or the rendering of exactly one `WFField` carrying the member's tag.  Consequence
(`decVar_skips`): the generated read of a member with a higher tag passes over them exactly — this
is how the dispatcher reads its in parameters from a buffer that also holds the out parameters.

Side condition `mapsSmall`: every map inside the value has fewer than 2^30 entries
(`skipFieldMap` computes `length*2` in int32).
-/
namespace Tars
open Consts WFField Skip

mutual
/-- every map nested in the value has fewer than 2^30 entries -/
def mapsSmall : Val → Bool
  | .list vs => mapsSmallL vs
  | .map kvs => decide (2 * kvs.length < 2 ^ 31) && mapsSmallP kvs
  | .struct vs => mapsSmallL vs
  | _ => true
def mapsSmallL : List Val → Bool
  | [] => true
  | v :: vs => mapsSmall v && mapsSmallL vs
def mapsSmallP : List (Val × Val) → Bool
  | [] => true
  | (a, b) :: rest => mapsSmall a && mapsSmall b && mapsSmallP rest
end

/-- the bytes are nothing, or one well-formed field with this tag -/
def IsField (tag : Nat) (bs : Bytes) : Prop :=
  bs = [] ∨ ∃ f : WFField, f.wf = true ∧ f.tag = tag ∧ render f = bs

/-- the statement for one value: whatever member it is written as -/
def Rend (env : Env) (v : Val) : Prop :=
  ∀ (tag : Nat) (req : Bool) (ty : Ty) (dflt : Option Val), tag < 256 → WT env ty v →
    mapsSmall v = true → IsField tag (encVar env tag req ty dflt v)

/-! ## integers -/

theorem writeInt8_field (v : Int) (tag : Nat) (h : tag < 256) : IsField tag (writeInt8 v tag) := by
  unfold writeInt8
  split
  · exact .inr ⟨.zero tag, by simp [wf, h], rfl, by simp [render, WFField.ty, WFField.tag, body]⟩
  · exact .inr ⟨.byte tag (byte (toU 8 v)), by simp [wf, h], rfl,
      by simp [render, WFField.ty, WFField.tag, body]⟩

theorem writeInt16_field (v : Int) (tag : Nat) (h : tag < 256) : IsField tag (writeInt16 v tag) := by
  unfold writeInt16
  split
  · exact writeInt8_field v tag h
  · exact .inr ⟨.short tag (toU 16 v), by simp [wf, h], rfl,
      by simp [render, WFField.ty, WFField.tag, body]⟩

theorem writeInt32_field (v : Int) (tag : Nat) (h : tag < 256) : IsField tag (writeInt32 v tag) := by
  unfold writeInt32
  split
  · exact writeInt16_field v tag h
  · exact .inr ⟨.int tag (toU 32 v), by simp [wf, h], rfl,
      by simp [render, WFField.ty, WFField.tag, body]⟩

theorem writeInt64_field (v : Int) (tag : Nat) (h : tag < 256) : IsField tag (writeInt64 v tag) := by
  unfold writeInt64
  split
  · exact writeInt32_field v tag h
  · exact .inr ⟨.long tag (toU 64 v), by simp [wf, h], rfl,
      by simp [render, WFField.ty, WFField.tag, body]⟩

theorem writeString_field (s : Bytes) (tag : Nat) (h : tag < 256) (hs : s.length < 2 ^ 32) :
    IsField tag (writeString s tag) := by
  unfold writeString
  split
  · exact .inr ⟨.string4 tag s, by simp [wf, h, hs], rfl,
      by simp [render, WFField.ty, WFField.tag, body]⟩
  · rename_i hl
    simp only [str1Max] at hl
    exact .inr ⟨.string1 tag s, by simp [wf, h]; omega, rfl,
      by simp [render, WFField.ty, WFField.tag, body]⟩

theorem writeScalar_field (ty : Ty) (v : Val) (tag : Nat) (h : tag < 256) (hv : ScalarOK ty v) :
    IsField tag (writeScalar ty v tag) := by
  cases v <;> cases ty <;> simp only [ScalarOK] at hv <;> simp only [writeScalar]
  · unfold writeBool; exact writeInt8_field _ tag h
  · exact writeInt8_field _ tag h
  · unfold writeUint8; exact writeInt16_field _ tag h
  · exact writeInt16_field _ tag h
  · unfold writeUint16; exact writeInt32_field _ tag h
  · exact writeInt32_field _ tag h
  · unfold writeUint32; exact writeInt64_field _ tag h
  · exact writeInt64_field _ tag h
  · exact writeInt32_field _ tag h
  · rename_i b
    exact .inr ⟨.float tag b, by simp [wf, h], rfl,
      by simp [render, WFField.ty, WFField.tag, body, writeFloat32]⟩
  · rename_i b
    exact .inr ⟨.double tag b, by simp [wf, h], rfl,
      by simp [render, WFField.ty, WFField.tag, body, writeFloat64]⟩
  · exact writeString_field _ tag h hv

theorem rend_scalar (env : Env) (v : Val) (hsc : ∀ ty, WT env ty v → ScalarOK ty v) : Rend env v := by
  intro tag req ty dflt htag hwt _
  have hv := hsc ty hwt
  rw [encVar_scalarVal env tag req ty dflt v hv]
  split
  · exact writeScalar_field ty v tag htag hv
  · split
    · exact .inl rfl
    · exact writeScalar_field ty v tag htag hv

/-! ## containers -/

/-- a required member is always written: it is a field -/
theorem Rend.field {env : Env} {v : Val} (h : Rend env v) (tag : Nat) (ty : Ty) (dflt : Option Val)
    (htag : tag < 256) (hwt : WT env ty v) (hs : mapsSmall v = true) :
    ∃ f : WFField, f.wf = true ∧ f.tag = tag ∧ render f = encVar env tag true ty dflt v := by
  rcases h tag true ty dflt htag hwt hs with h0 | h1
  · exact absurd h0 (encVar_req_ne env tag ty dflt v hwt)
  · exact h1

theorem elems_render (env : Env) (e : Ty) : ∀ (vs : List Val), (∀ v ∈ vs, Rend env v) →
    WTs env e vs → mapsSmallL vs = true →
    ∃ es : List WFField, wfElems es = true ∧ es.length = vs.length ∧
      renderList es = encElems env e vs
  | [], _, _, _ => ⟨[], rfl, rfl, by simp [renderList, encElems]⟩
  | v :: vs, ih, hwt, hs => by
    simp only [WTs] at hwt
    simp only [mapsSmallL, Bool.and_eq_true] at hs
    obtain ⟨f, hf1, hf2, hf3⟩ := (ih v (by simp)).field 0 e none (by decide) hwt.1 hs.1
    obtain ⟨es, h1, h2, h3⟩ := elems_render env e vs (fun w hw => ih w (by simp [hw])) hwt.2 hs.2
    refine ⟨f :: es, by simp [wfElems, hf1, hf2, h1], by simp [h2], ?_⟩
    rw [renderList_cons, hf3, h3, encElems]

theorem pairs_render (env : Env) (k v : Ty) : ∀ (kvs : List (Val × Val)),
    (∀ p ∈ kvs, Rend env p.1 ∧ Rend env p.2) → WTp env k v kvs → mapsSmallP kvs = true →
    ∃ ps : List (WFField × WFField), wfPairs ps = true ∧ ps.length = kvs.length ∧
      renderPairs ps = encPairs env k v kvs
  | [], _, _, _ => ⟨[], rfl, rfl, by simp [renderPairs, encPairs]⟩
  | (a, b) :: rest, ih, hwt, hs => by
    simp only [WTp] at hwt
    simp only [mapsSmallP, Bool.and_eq_true] at hs
    obtain ⟨fa, ha1, ha2, ha3⟩ := (ih (a, b) (by simp)).1.field 0 k none (by decide) hwt.1 hs.1.1
    obtain ⟨fb, hb1, hb2, hb3⟩ := (ih (a, b) (by simp)).2.field 1 v none (by decide) hwt.2.1 hs.1.2
    obtain ⟨ps, h1, h2, h3⟩ :=
      pairs_render env k v rest (fun p hp => ih p (by simp [hp])) hwt.2.2 hs.2
    refine ⟨(fa, fb) :: ps, by simp [wfPairs, ha1, ha2, hb1, hb2, h1], by simp [h2], ?_⟩
    rw [renderPairs_cons, ha3, hb3, h3, encPairs]

theorem lenField_eq (n : Nat) (h : n < 2 ^ 31) : writeInt32 (wrapS 32 (n : Int)) 0 = lenField n := by
  rw [wrapS32_len n h]; rfl

theorem rend_list (env : Env) (vs : List Val) (ih : ∀ v ∈ vs, Rend env v) : Rend env (.list vs) := by
  intro tag req ty dflt htag hwt hs
  simp only [mapsSmall] at hs
  have key : ∀ e, vs.length < 2 ^ 31 → WTs env e vs →
      IsField tag (if (!req && vs.isEmpty) = true then []
        else if e = .i8 then
          writeHead tySimpleList tag ++ writeHead tyBYTE 0 ++ writeInt32 (wrapS 32 vs.length) 0
            ++ int8Bytes vs
        else writeHead tyLIST tag ++ writeInt32 (wrapS 32 vs.length) 0 ++ encElems env e vs) := by
    intro e hlen hw
    split
    · exact .inl rfl
    · split
      · rename_i he
        subst he
        have hl := (int8_roundtrip env vs hw).2.2
        refine .inr ⟨.simpleList tag (int8Bytes vs), by simp [wf, htag, hl, hlen], rfl, ?_⟩
        simp only [render, WFField.ty, WFField.tag, body, hl, lenField_eq _ hlen,
          List.append_assoc]
      · obtain ⟨es, h1, h2, h3⟩ := elems_render env e vs ih hw hs
        refine .inr ⟨.list tag es, by simp [wf, htag, h1, h2, hlen], rfl, ?_⟩
        simp only [render, WFField.ty, WFField.tag, body, h2, h3, lenField_eq _ hlen,
          List.append_assoc]
  cases ty <;> simp only [WT] at hwt
  · rename_i e
    rw [encVar]; exact key e hwt.1 hwt.2
  · rename_i n e
    rw [encVar]; exact key e (by omega) hwt.2.2

theorem rend_map (env : Env) (kvs : List (Val × Val))
    (ih : ∀ p ∈ kvs, Rend env p.1 ∧ Rend env p.2) : Rend env (.map kvs) := by
  intro tag req ty dflt htag hwt hs
  simp only [mapsSmall, Bool.and_eq_true, decide_eq_true_eq] at hs
  cases ty <;> simp only [WT] at hwt
  rename_i k v
  rw [encVar]
  split
  · exact .inl rfl
  · obtain ⟨ps, h1, h2, h3⟩ := pairs_render env k v kvs ih hwt.2.2 hs.2
    refine .inr ⟨.map tag ps, by simp [wf, htag, h1, h2]; omega, rfl, ?_⟩
    simp only [render, WFField.ty, WFField.tag, body, h2, h3, lenField_eq _ hwt.1,
      List.append_assoc]

theorem members_render (env : Env) : ∀ (vs : List Val), (∀ v ∈ vs, Rend env v) →
    ∀ (fs : List Field), (∀ f ∈ fs, f.tag < 256) → WTm env fs vs → mapsSmallL vs = true →
    ∃ ms : List WFField, wfMembers ms = true ∧ renderList ms = encMembers env fs vs
  | [], _, fs, _, hwt, _ => by
    cases fs with
    | nil => exact ⟨[], rfl, by simp [renderList, encMembers]⟩
    | cons g gs => simp [WTm] at hwt
  | v :: vs, ih, fs, htags, hwt, hs => by
    cases fs with
    | nil => simp [WTm] at hwt
    | cons g gs =>
      simp only [WTm] at hwt
      simp only [mapsSmallL, Bool.and_eq_true] at hs
      obtain ⟨ms, h1, h2⟩ := members_render env vs (fun w hw => ih w (by simp [hw])) gs
        (fun f hf => htags f (by simp [hf])) hwt.2 hs.2
      rcases ih v (by simp) g.tag g.req g.ty g.dflt (htags g (by simp)) hwt.1 hs.1 with h0 | ⟨f, hf1, _, hf3⟩
      · exact ⟨ms, h1, by rw [encMembers, h0, h2]; rfl⟩
      · exact ⟨f :: ms, by simp [wfMembers, hf1, h1], by rw [renderList_cons, hf3, h2, encMembers]⟩

theorem rend_struct (env : Env) (rk : String → Nat) (hE : EnvWF env rk) (vs : List Val)
    (ih : ∀ v ∈ vs, Rend env v) : Rend env (.struct vs) := by
  intro tag req ty dflt htag hwt hs
  simp only [mapsSmall] at hs
  cases ty <;> simp only [WT] at hwt
  rename_i name
  rw [encVar]
  cases hfs : env.find name with
  | none => simp [hfs] at hwt
  | some fs =>
    simp only [hfs] at hwt ⊢
    obtain ⟨_, _, hfok⟩ := hE name fs hfs
    obtain ⟨ms, h1, h2⟩ := members_render env vs ih fs
      (fun f hf => by have := (hfok f hf).1; omega) hwt hs
    refine .inr ⟨.struct tag ms, by simp [wf, htag, h1], rfl, ?_⟩
    simp only [render, WFField.ty, WFField.tag, body, h2, List.append_assoc]

/-- every well-typed value is written as at most one well-formed field -/
theorem rend_all (env : Env) (rk : String → Nat) (hE : EnvWF env rk) : ∀ v, Rend env v :=
  Val.ind
    (fun _ => rend_scalar env _ (fun ty h => by simpa only [WT] using h))
    (fun _ => rend_scalar env _ (fun ty h => by simpa only [WT] using h))
    (fun _ => rend_scalar env _ (fun ty h => by simpa only [WT] using h))
    (fun _ => rend_scalar env _ (fun ty h => by simpa only [WT] using h))
    (fun _ => rend_scalar env _ (fun ty h => by simpa only [WT] using h))
    (rend_list env) (rend_map env) (rend_struct env rk hE)

/-- **the generated read of a member passes over a written member with a lower tag**: outcome, and
    on success the reader, are as if the reading started right behind it -/
theorem decVar_skips (env : Env) (rk : String → Nat) (hE : EnvWF env rk) (v : Val) (tg : Nat)
    (tyv : Ty) (htg : tg < 256) (hwt : WT env tyv v) (hs : mapsSmall v = true)
    (fuel tag : Nat) (req : Bool) (ty : Ty) (old : Val) (hlt : tg < tag) (r : Reader) (t : Bytes)
    (h : r.rest = encVar env tg true tyv none v ++ t) :
    Evolve.ResEq (decVar env fuel tag req ty old r)
      (decVar env fuel tag req ty old (r.adv (encVar env tg true tyv none v).length)) := by
  obtain ⟨f, hf1, hf2, hf3⟩ := (rend_all env rk hE v).field tg tyv none htg hwt hs
  have hrl : renderList [f] = encVar env tg true tyv none v := by
    rw [renderList_cons, hf3]; simp [renderList]
  have := Evolve.decVar_passes env fuel tag req ty old r [f]
    (fun x hx => by simp at hx; subst hx; exact ⟨hf1, by omega⟩) t (by rw [hrl]; exact h)
  rw [hrl] at this
  exact this

end Tars
