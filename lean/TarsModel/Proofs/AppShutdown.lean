import TarsModel.Proofs.ServerConnLeak
import TarsModel.Model.AppShutdown

/-!
Helper lemmas for C12, part 8: the application-level composition.
-/
namespace Tars.ServerConn

theorem spc_updConn {s s' : State} {c : Cid} {f : Conn → Option Conn} (h : updConn s c f = some s') :
    s'.spc = s.spc := by
  obtain ⟨_, _, _, _, rfl⟩ := updConn_some h
  rfl

/-- only `shutdownCall` takes a server out of the state "Shutdown not called" -/
theorem step_spc {cfg : Cfg} {s s' : State} (a : Action) (h : step cfg s a = some s') :
    s'.spc = s.spc ∨ s.spc ≠ .idle ∨ a = .shutdownCall := by
  cases a with
  | connect =>
    simp only [step, Option.some.injEq] at h; subst h; exact Or.inl rfl
  | send c r => exact Or.inl (spc_updConn h)
  | sendNR c r => exact Or.inl (spc_updConn h)
  | accept c =>
    simp only [step] at h
    split at h
    · exact Or.inl (spc_updConn h)
    · contradiction
  | register c => exact Or.inl (spc_updConn h)
  | stamp c => exact Or.inl (spc_updConn h)
  | read c n => exact Or.inl (spc_updConn h)
  | readErr c f => exact Or.inl (spc_updConn h)
  | age c =>
    have h' : updConn s c cAge = some s' := h
    exact Or.inl (spc_updConn h')
  | dispatch c => exact Or.inl (spc_updConn h)
  | enqueue c =>
    simp only [step] at h
    split at h <;> try contradiction
    rename_i n q k hp hk
    split at h <;> try contradiction
    rename_i k' i hce
    have hce' : cEnqueued' k = some k' := by simp [cEnqueued', hce]
    split at h
    · simp only [Option.some.injEq] at h; subst h
      exact Or.inl rfl
    · split at h <;> try contradiction
      simp only [Option.some.injEq] at h; subst h
      exact Or.inl rfl
  | pTake =>
    simp only [step] at h
    split at h <;> try contradiction
    split at h <;> try contradiction
    simp only [Option.some.injEq] at h; subst h; first | exact Or.inl rfl | exact Or.inr (Or.inr rfl) | exact Or.inr (Or.inl (by simp_all))
  | pGive =>
    simp only [step] at h
    split at h <;> try contradiction
    rename_i n q c i hp hh
    split at h <;> try contradiction
    cases hu : updConn s c (cHand i) with
    | none => rw [hu] at h; contradiction
    | some s1 =>
      rw [hu] at h
      simp only [Option.map_some, Option.some.injEq] at h; subst h
      have hh := spc_updConn hu
      exact Or.inl hh
  | start c i =>
    simp only [step] at h
    split at h
    · exact Or.inl (spc_updConn h)
    · exact Or.inl (spc_updConn h)
  | fin c i =>
    simp only [step] at h
    split at h
    · contradiction
    · exact Or.inl (spc_updConn h)
  | finEarly c i =>
    simp only [step] at h
    split at h
    · exact Or.inl (spc_updConn h)
    · contradiction
  | lateWrite c i => exact Or.inl (spc_updConn h)
  | write c i => exact Or.inl (spc_updConn h)
  | skip c i => exact Or.inl (spc_updConn h)
  | dec c i => exact Or.inl (spc_updConn h)
  | drainTick c =>
    simp only [step] at h
    split at h <;> try contradiction
    split at h <;> try contradiction
    exact Or.inl (spc_updConn h)
  | drainClose c => exact Or.inl (spc_updConn h)
  | shutdownCall =>
    simp only [step] at h
    split at h <;> try contradiction
    simp only [Option.some.injEq] at h; subst h; first | exact Or.inl rfl | exact Or.inr (Or.inr rfl) | exact Or.inr (Or.inl (by simp_all))
  | setClosed =>
    simp only [step] at h
    split at h <;> try contradiction
    simp only [Option.some.injEq] at h; subst h; first | exact Or.inl rfl | exact Or.inr (Or.inr rfl) | exact Or.inr (Or.inl (by simp_all))
  | acceptExit =>
    simp only [step] at h
    split at h <;> try contradiction
    simp only [Option.some.injEq] at h; subst h; first | exact Or.inl rfl | exact Or.inr (Or.inr rfl) | exact Or.inr (Or.inl (by simp_all))
  | relCall =>
    simp only [step] at h
    split at h <;> try contradiction
    simp only [Option.some.injEq] at h; subst h; first | exact Or.inl rfl | exact Or.inr (Or.inr rfl) | exact Or.inr (Or.inl (by simp_all))
  | pStop =>
    simp only [step] at h
    split at h <;> try contradiction
    simp only [Option.some.injEq] at h; subst h; first | exact Or.inl rfl | exact Or.inr (Or.inr rfl) | exact Or.inr (Or.inl (by simp_all))
  | relRet =>
    simp only [step] at h
    split at h <;> try contradiction
    simp only [Option.some.injEq] at h; subst h; first | exact Or.inl rfl | exact Or.inr (Or.inr rfl) | exact Or.inr (Or.inl (by simp_all))
  | closeMsg =>
    simp only [step] at h
    split at h <;> try contradiction
    split at h <;> try contradiction
    simp only [Option.some.injEq] at h; subst h; exact Or.inl rfl
  | onShutdownRet =>
    simp only [step] at h
    split at h <;> try contradiction
    simp only [Option.some.injEq] at h; subst h; first | exact Or.inl rfl | exact Or.inr (Or.inr rfl) | exact Or.inr (Or.inl (by simp_all))
  | ciBegin =>
    simp only [step] at h
    split at h <;> try contradiction
    simp only [Option.some.injEq] at h; subst h
    by_cases hl : s.listenClosed = 1
    · simp only [hl, if_true]; exact Or.inl rfl
    · simp only [hl, if_false]; first | exact Or.inl rfl | exact Or.inr (Or.inr rfl) | exact Or.inr (Or.inl (by simp_all))
  | ciVisit c =>
    simp only [step] at h
    split at h <;> try contradiction
    split at h <;> try contradiction
    split at h <;> try contradiction
    rename_i k hk
    split at h
    · simp only [Option.some.injEq] at h; subst h; first | exact Or.inl rfl | exact Or.inr (Or.inr rfl) | exact Or.inr (Or.inl (by simp_all))
    · split at h
      · simp only [Option.some.injEq] at h; subst h; first | exact Or.inl rfl | exact Or.inr (Or.inr rfl) | exact Or.inr (Or.inl (by simp_all))
      · split at h
        · simp only [Option.some.injEq] at h; subst h; first | exact Or.inl rfl | exact Or.inr (Or.inr rfl) | exact Or.inr (Or.inl (by simp_all))
        · simp only [Option.some.injEq] at h; subst h
          exact Or.inl rfl
        · simp only [Option.some.injEq] at h; subst h; first | exact Or.inl rfl | exact Or.inr (Or.inr rfl) | exact Or.inr (Or.inl (by simp_all))
  | ciClose =>
    simp only [step] at h
    split at h <;> try contradiction
    split at h <;> try contradiction
    split at h <;> try contradiction
    rename_i k hk
    simp only [Option.some.injEq] at h; subst h
    exact Or.inl rfl
  | ciEnd =>
    simp only [step] at h
    split at h <;> try contradiction
    split at h <;> try contradiction
    simp only [Option.some.injEq] at h; subst h; first | exact Or.inl rfl | exact Or.inr (Or.inr rfl) | exact Or.inr (Or.inl (by simp_all))
  | ctxExpire =>
    simp only [step] at h
    split at h <;> try contradiction
    simp only [Option.some.injEq] at h; subst h; first | exact Or.inl rfl | exact Or.inr (Or.inr rfl) | exact Or.inr (Or.inl (by simp_all))
  | recvRsp c i => exact Or.inl (spc_updConn h)
  | recvMsg c => exact Or.inl (spc_updConn h)
  | recvEof c => exact Or.inl (spc_updConn h)


end Tars.ServerConn

namespace Tars.AppShutdown
open Tars.ServerConn

structure AInv (cfg : Cfg) (s : AState) : Prop where
  len : s.gos.length = s.i
  le : s.i ≤ s.servers.length
  reach : ∀ (k : Nat) (st : State), s.servers[k]? = some st → Reachable cfg st

/-- the argument-passing variant: goroutine j is bound to adapter j -/
structure ArgInv (s : AState) : Prop where
  bound : ∀ (j : Nat) (g : GoR), s.gos[j]? = some g →
    g.arg = some j ∧ (g.target = none ∨ g.target = some j) ∧ (g.target = some j → j ∈ s.shutdownOn)

theorem getElem?_set_cases' {α : Type} {l : List α} {c c' : Nat} {k' x : α}
    (h : (l.set c k')[c']? = some x) : (c' = c ∧ x = k') ∨ (c' ≠ c ∧ l[c']? = some x) := by
  by_cases hcc : c = c'
  · subst hcc
    by_cases hlt : c < l.length
    · rw [List.getElem?_set_self hlt] at h
      left; exact ⟨rfl, (Option.some.inj h).symm⟩
    · rw [List.getElem?_eq_none (by simp; omega)] at h; contradiction
  · rw [List.getElem?_set_ne hcc] at h
    right; exact ⟨fun e => hcc e.symm, h⟩

theorem ainv_init (cfg : Cfg) (n : Nat) : AInv cfg (init n) := by
  refine ⟨rfl, Nat.zero_le _, ?_⟩
  intro k st h
  simp [init, List.getElem?_replicate] at h
  rw [← h.2]; exact Reachable.init

theorem ainv_step {v : Capture} {cfg : Cfg} {s s' : AState} (a : AAction) (hI : AInv cfg s)
    (h : astep v cfg s a = some s') : AInv cfg s' := by
  cases a with
  | iter =>
    simp only [astep] at h
    split at h <;> try contradiction
    rename_i hlt
    simp only [Option.some.injEq] at h; subst h
    exact ⟨by simp [hI.len], hlt, hI.reach⟩
  | call j =>
    simp only [astep] at h
    split at h <;> try contradiction
    rename_i g hg
    split at h <;> try contradiction
    rename_i t ht1 ht2
    split at h <;> try contradiction
    rename_i st hst
    simp only [Option.some.injEq] at h; subst h
    refine ⟨by simp [hI.len], by simp [hI.le], ?_⟩
    intro k x hx
    simp only at hx
    rcases getElem?_set_cases' hx with ⟨_, rfl⟩ | ⟨_, hx'⟩
    · cases hsc : step cfg st .shutdownCall with
      | none => simp; exact hI.reach t st hst
      | some y => simp; exact Reachable.step _ (hI.reach t st hst) hsc
    · exact hI.reach k x hx'
  | srv k a =>
    simp only [astep] at h
    split at h <;> try contradiction
    split at h <;> try contradiction
    rename_i st hst
    cases hs : step cfg st a with
    | none => rw [hs] at h; contradiction
    | some y =>
      rw [hs] at h
      simp only [Option.map_some, Option.some.injEq] at h; subst h
      refine ⟨hI.len, by simp [hI.le], ?_⟩
      intro k' x hx
      simp only at hx
      rcases getElem?_set_cases' hx with ⟨_, rfl⟩ | ⟨_, hx'⟩
      · exact Reachable.step _ (hI.reach k st hst) hs
      · exact hI.reach k' x hx'

theorem arginv_init (n : Nat) : ArgInv (init n) := ⟨by intro j g h; simp [init] at h⟩

theorem arginv_step {cfg : Cfg} {s s' : AState} (a : AAction) (hA : AInv cfg s) (hI : ArgInv s)
    (h : astep .argument cfg s a = some s') : ArgInv s' := by
  cases a with
  | iter =>
    simp only [astep] at h
    split at h <;> try contradiction
    simp only [Option.some.injEq] at h; subst h
    refine ⟨?_⟩
    intro j g hg
    simp only at hg
    by_cases hlt : j < s.gos.length
    · rw [List.getElem?_append_left hlt] at hg; exact hI.bound j g hg
    · rw [List.getElem?_append_right (Nat.le_of_not_lt hlt)] at hg
      cases hjl : j - s.gos.length with
      | zero =>
        rw [hjl] at hg; simp at hg; subst hg
        have : j = s.i := by have := hA.len; omega
        subst this
        exact ⟨rfl, Or.inl rfl, fun h => by simp at h⟩
      | succ m => rw [hjl] at hg; simp at hg
  | call j =>
    simp only [astep] at h
    split at h <;> try contradiction
    rename_i g hg
    split at h <;> try contradiction
    rename_i t ht1 ht2
    split at h <;> try contradiction
    simp only [Option.some.injEq] at h; subst h
    obtain ⟨harg, _, _⟩ := hI.bound j g hg
    have htj : t = j := by rw [harg] at ht2; simp at ht2; exact ht2.symm
    subst htj
    refine ⟨?_⟩
    intro j' g' hg'
    simp only at hg'
    rcases getElem?_set_cases' hg' with ⟨rfl, rfl⟩ | ⟨_, hx'⟩
    · exact ⟨harg, Or.inr rfl, fun _ => by simp⟩
    · obtain ⟨h1, h2, h3⟩ := hI.bound j' g' hx'
      exact ⟨h1, h2, fun ht => by simp [h3 ht]⟩
  | srv k a =>
    simp only [astep] at h
    split at h <;> try contradiction
    split at h <;> try contradiction
    rename_i st hst
    cases hs : step cfg st a with
    | none => rw [hs] at h; contradiction
    | some y =>
      rw [hs] at h
      simp only [Option.map_some, Option.some.injEq] at h; subst h
      exact ⟨hI.bound⟩

theorem arun_inv {cfg : Cfg} {acts : List AAction} : ∀ {s s' : AState}, AInv cfg s → ArgInv s →
    arunFrom .argument cfg s acts = some s' → AInv cfg s' ∧ ArgInv s' := by
  induction acts with
  | nil => intro s s' h1 h2 h; simp [arunFrom] at h; subst h; exact ⟨h1, h2⟩
  | cons a as ih =>
    intro s s' h1 h2 h
    simp only [arunFrom] at h
    split at h <;> try contradiction
    rename_i s1 hs1
    exact ih (ainv_step a h1 hs1) (arginv_step a h1 h2 hs1) h

theorem arun_ainv {v : Capture} {cfg : Cfg} {acts : List AAction} : ∀ {s s' : AState}, AInv cfg s →
    arunFrom v cfg s acts = some s' → AInv cfg s' := by
  induction acts with
  | nil => intro s s' h1 h; simp [arunFrom] at h; subst h; exact h1
  | cons a as ih =>
    intro s s' h1 h
    simp only [arunFrom] at h
    split at h <;> try contradiction
    rename_i s1 hs1
    exact ih (ainv_step a h1 hs1) h

/-- an adapter whose goroutines are all gone and on which `Shutdown` was never called stays so -/
structure Skipped (s : AState) (k : Nat) : Prop where
  loopOver : s.i = s.servers.length
  allCalled : ∀ g ∈ s.gos, g.target ≠ none
  idle : ∃ st, s.servers[k]? = some st ∧ st.spc = .idle

theorem skipped_step {v : Capture} {cfg : Cfg} {s s' : AState} {k : Nat} (a : AAction) (_hI : AInv cfg s)
    (hs : Skipped s k) (h : astep v cfg s a = some s') : Skipped s' k := by
  cases a with
  | iter =>
    simp only [astep] at h
    split at h <;> try contradiction
    rename_i hlt
    have := hs.loopOver; omega
  | call j =>
    simp only [astep] at h
    split at h <;> try contradiction
    rename_i g hg
    split at h <;> try contradiction
    rename_i t ht1 ht2
    exact absurd ht1 (hs.allCalled g (List.mem_of_getElem? hg))
  | srv k' a =>
    simp only [astep] at h
    split at h <;> try contradiction
    rename_i hne
    split at h <;> try contradiction
    rename_i st hst
    cases hst' : step cfg st a with
    | none => rw [hst'] at h; contradiction
    | some y =>
      rw [hst'] at h
      simp only [Option.map_some, Option.some.injEq] at h; subst h
      obtain ⟨st0, hk, hidle⟩ := hs.idle
      refine ⟨by simp [hs.loopOver], hs.allCalled, ?_⟩
      by_cases hkk : k' = k
      · subst hkk
        rw [hst] at hk; cases hk
        refine ⟨y, by simp [List.getElem?_set_self (List.getElem?_eq_some_iff.mp hst).1], ?_⟩
        rcases step_spc a hst' with h1 | h1 | h1
        · rw [h1]; exact hidle
        · exact absurd hidle h1
        · exact absurd h1 hne
      · exact ⟨st0, by simp [List.getElem?_set_ne hkk, hk], hidle⟩

theorem skipped_run {v : Capture} {cfg : Cfg} {k : Nat} {acts : List AAction} : ∀ {s s' : AState},
    AInv cfg s → Skipped s k → arunFrom v cfg s acts = some s' → Skipped s' k := by
  induction acts with
  | nil => intro s s' _ hs h; simp [arunFrom] at h; subst h; exact hs
  | cons a as ih =>
    intro s s' hI hs h
    simp only [arunFrom] at h
    split at h <;> try contradiction
    rename_i s1 hs1
    exact ih (ainv_step a hI hs1) (skipped_step a hI hs hs1) h

end Tars.AppShutdown
