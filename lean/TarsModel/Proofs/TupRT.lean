import TarsModel.Props.C02
import TarsModel.Proofs.TupBasic

/-!
  TUP attribute set, helper lemmas part 2: what `UniAttribute.Decode` does on inputs of a known
  shape — the encoding of an entry list (round trip, duplicates), an exhausted input (the spin of
  the as-found loop), a value or element head of the wrong wire type.
-/
namespace Tars.Tup
open Tars Consts

theorem wrapLen (n : Nat) (h : n < 2 ^ 31) : wrapS 32 (n : Int) = (n : Int) := by
  unfold wrapS
  exact toS_toU 32 (by decide) _ (by simp) (by simp; omega)

theorem rest_length (r : Reader) : r.rest.length = r.remaining := by
  unfold Reader.rest Reader.remaining; simp

theorem rest_mk0 (bs : Bytes) : (Reader.mk0 bs).rest = bs := by
  simp [Reader.rest, Reader.mk0]

/-! ### `readBytes` on a complete value -/

theorem readBytes_full (r : Reader) (v t : Bytes) (h : r.rest = v ++ t) :
    readBytes (v.length : Int) r = (.ok v, r.adv v.length) ∧ bytesAlloc (v.length : Int) r = v.length := by
  have hrem : v.length ≤ r.remaining := by
    rw [← rest_length, h]; simp
  have hc : checkLength (v.length : Int) r = (.ok (), r) :=
    checkLength_of_le (by omega) (by simpa using hrem)
  have hb : readBytes (v.length : Int) r = (.ok v, r.adv v.length) := by
    unfold readBytes
    rw [hc]
    simp only [Int.toNat_natCast]
    by_cases hv : v = []
    · subst hv; simp [readFull]
    · exact readFull_full r v t h hv
  exact ⟨hb, by rw [bytesAlloc_of_ok hb]⟩

/-! ### one complete entry -/

theorem encodeEntry_length_pos (k v : Bytes) : 0 < (encodeEntry k v).length := by
  unfold encodeEntry writeString
  split <;> simp [List.length_append] <;> omega

/-- an iteration positioned at a complete entry stores exactly that entry and stops right after it -/
theorem decodeEntry_rt (r : Reader) (k v t : Bytes) (hk : k.length < 2 ^ 32) (hv : v.length < 2 ^ 31)
    (h : r.rest = encodeEntry k v ++ t) :
    decodeEntry r = ⟨.ok (some (k, v)), k.length + v.length, r.adv (encodeEntry k v).length⟩ := by
  unfold encodeEntry at h
  rw [wrapLen _ hv] at h
  -- the five pieces
  have h1 := C02_rt_string r k 0 [] false
    (writeHead tySimpleList 1 ++ (writeHead tyBYTE 0 ++ (writeInt32 (v.length : Int) 0 ++ (v ++ t))))
    (by decide) hk (by simpa [List.append_assoc] using h)
  have r1 := r.rest_adv (writeString k 0) _ (by simpa [List.append_assoc] using h)
  have h2 := skipToNoCheck_hit (r.adv (writeString k 0).length) tySimpleList 1 false _
    (by decide) (by decide) (by decide) r1
  have r2 := Reader.rest_adv _ _ _ r1
  have h3 : skipTo tyBYTE 0 true ((r.adv (writeString k 0).length).adv (writeHead tySimpleList 1).length)
      = (.ok true, ((r.adv (writeString k 0).length).adv (writeHead tySimpleList 1).length).adv
          (writeHead tyBYTE 0).length) := by
    unfold skipTo
    rw [skipToNoCheck_hit _ tyBYTE 0 true _ (by decide) (by decide) (by decide) r2]
    simp
  have r3 := Reader.rest_adv _ _ _ r2
  have h4 := C02_rt_int32 _ (v.length : Int) 0 0 true (v ++ t) (by decide) (by omega) r3
  have r4 := Reader.rest_adv _ _ _ r3
  obtain ⟨h5, h6⟩ := readBytes_full _ v t r4
  unfold decodeEntry
  simp only [Reader.adv_adv] at h1 h2 h3 h4 h5 h6 ⊢
  rw [h1]; simp only
  rw [h2]; simp only [if_true]
  rw [h3]; simp only
  rw [h4]; simp only
  rw [h5, h6]
  simp only [encodeEntry, wrapLen _ hv, List.length_append, Nat.add_assoc]

/-! ### `put`, `get`, many entries -/

/-- `u.data[p.1] = p.2` for the entries in order -/
def putAll (m : TupMap) (es : TupMap) : TupMap := es.foldl (fun m p => put m p.1 p.2) m

@[simp] theorem putAll_nil (m : TupMap) : putAll m [] = m := rfl
@[simp] theorem putAll_cons (m : TupMap) (p : Bytes × Bytes) (es : TupMap) :
    putAll m (p :: es) = putAll (put m p.1 p.2) es := rfl

/-- map assignment and lookup: the last assignment to a key is what a lookup sees -/
theorem get_put (m : TupMap) (k v k' : Bytes) :
    get (put m k v) k' = if k' = k then some v else get m k' := by
  unfold get put
  by_cases hk : k' = k
  · subst hk; simp [List.lookup]
  · rw [if_neg hk]
    have hne : (k' == k) = false := by simpa using hk
    simp only [List.lookup, hne]
    induction m with
    | nil => simp
    | cons p rest ih =>
      obtain ⟨a, b⟩ := p
      simp only [List.filter_cons]
      by_cases ha : a = k
      · subst ha
        have : (k' == a) = false := hne
        simp [List.lookup, this, ih]
      · have : (a == k) = false := by simpa using ha
        simp only [this, Bool.not_false, if_true]
        simp only [List.lookup]
        split
        · rfl
        · exact ih

/-- later duplicates win: a lookup after the assignments sees the LAST entry with that key -/
theorem get_putAll (es : TupMap) : ∀ (m : TupMap) (k : Bytes),
    get (putAll m es) k = (es.reverse.lookup k).or (get m k) := by
  induction es with
  | nil => intro m k; simp
  | cons p rest ih =>
    intro m k
    obtain ⟨a, b⟩ := p
    rw [putAll_cons, ih, get_put]
    simp only [List.reverse_cons]
    -- lookup in `rest.reverse ++ [(a, b)]`
    have hl : ∀ (l : TupMap), (l ++ [(a, b)]).lookup k = (l.lookup k).or (if k = a then some b else none) := by
      intro l
      induction l with
      | nil =>
        by_cases hk : k = a
        · subst hk; simp [List.lookup]
        · have : (k == a) = false := by simpa using hk
          simp [List.lookup, this, hk]
      | cons q l ihl =>
        obtain ⟨c, d⟩ := q
        simp only [List.cons_append, List.lookup]
        split
        · simp
        · exact ihl
    rw [hl]
    cases rest.reverse.lookup k with
    | some x => simp
    | none =>
      by_cases hk : k = a
      · simp [hk]
      · simp [hk]

/-- with distinct keys nothing is overwritten: the map holds the entries in reverse order of storing -/
theorem putAll_nodup : ∀ (es m : TupMap), (es.map (·.1)).Nodup →
    (∀ p ∈ es, ∀ q ∈ m, q.1 ≠ p.1) → putAll m es = es.reverse ++ m := by
  intro es
  induction es with
  | nil => intro m _ _; simp
  | cons p rest ih =>
    intro m hnd hdis
    obtain ⟨a, b⟩ := p
    simp only [List.map_cons, List.nodup_cons] at hnd
    have hput : put m a b = (a, b) :: m := by
      unfold put
      congr 1
      apply List.filter_eq_self.mpr
      intro q hq
      have := hdis (a, b) (by simp) q hq
      simpa using this
    rw [putAll_cons, hput, ih _ hnd.2]
    · simp
    · intro p hp q hq
      rcases List.mem_cons.mp hq with rfl | hq
      · intro heq
        apply hnd.1
        simp only at heq
        rw [heq]
        exact List.mem_map_of_mem hp
      · exact hdis p (List.mem_cons_of_mem _ hp) q hq

/-- lookup in a list with distinct keys -/
theorem lookup_nodup : ∀ (l : TupMap), (l.map (·.1)).Nodup → ∀ k v, l.lookup k = some v ↔ (k, v) ∈ l := by
  intro l
  induction l with
  | nil => intro _ k v; simp
  | cons p rest ih =>
    intro hnd k v
    obtain ⟨a, b⟩ := p
    simp only [List.map_cons, List.nodup_cons] at hnd
    by_cases hk : k = a
    · subst hk
      simp only [List.lookup, BEq.rfl, Option.some.injEq, List.mem_cons, Prod.mk.injEq, true_and]
      constructor
      · intro h; exact .inl h.symm
      · rintro (h | h)
        · exact h.symm
        · exact absurd (List.mem_map_of_mem (f := (·.1)) h) hnd.1
    · have : (k == a) = false := by simpa using hk
      simp only [List.lookup, this, List.mem_cons, Prod.mk.injEq, hk, false_and, false_or]
      exact ih hnd.2 k v

/-! ### many complete entries -/

theorem dataBytes_eq (es : TupMap) : dataBytes es = (es.map fun p => p.1.length + p.2.length).sum := by
  induction es with
  | nil => rfl
  | cons p rest ih => obtain ⟨k, v⟩ := p; simp [dataBytes, ih]

theorem encodeEntries_length_ge (es : TupMap) : es.length ≤ (encodeEntries es).length := by
  induction es with
  | nil => simp [encodeEntries]
  | cons p rest ih =>
    obtain ⟨k, v⟩ := p
    have := encodeEntry_length_pos k v
    simp only [encodeEntries, List.length_cons, List.length_append]
    omega

/-- sizes the Go conversions `uint32(len(k))` / `int32(len(v))` represent exactly -/
def Sized (es : TupMap) : Prop := ∀ p ∈ es, p.1.length < 2 ^ 32 ∧ p.2.length < 2 ^ 31

/-- the loop positioned at the encodings of `es` runs one iteration per entry, stores each, and
    continues behind them with the remaining count -/
theorem decodeLoop_entries : ∀ (es : TupMap), Sized es → ∀ (n : Nat) (m : TupMap) (it al : Nat) (r : Reader) (t : Bytes),
    r.rest = encodeEntries es ++ t →
    decodeLoop (es.length + n) m it al r =
      decodeLoop n (putAll m es) (it + es.length) (al + dataBytes es) (r.adv (encodeEntries es).length) := by
  intro es
  induction es with
  | nil => intro _ n m it al r t _; simp [encodeEntries, dataBytes]
  | cons p rest ih =>
    intro hs n m it al r t h
    obtain ⟨k, v⟩ := p
    obtain ⟨hk, hv⟩ := hs (k, v) (by simp)
    simp only [encodeEntries, List.append_assoc] at h
    have he := decodeEntry_rt r k v _ hk hv h
    have hr := r.rest_adv _ _ h
    have : (((k, v) :: rest).length + n) = (rest.length + n) + 1 := by simp; omega
    rw [this]
    simp only [decodeLoop, he]
    rw [ih (fun p hp => hs p (List.mem_cons_of_mem _ hp)) n _ _ _ _ t hr]
    simp only [putAll_cons, Reader.adv_adv, encodeEntries, dataBytes, List.length_cons, List.length_append]
    congr 1 <;> omega

/-! ### the head of `Decode` -/

theorem decodeV_header (chk : Bool) (m0 : TupMap) (r : Reader) (n : Nat) (hn : n < 2 ^ 31) (body : Bytes)
    (h : r.rest = writeHead tyMAP 0 ++ writeInt32 (wrapS 32 (n : Int)) 0 ++ body)
    (hc : chk = true → n ≤ body.length) :
    decodeV chk m0 r = decodeLoop n m0 0 0
      (r.adv ((writeHead tyMAP 0).length + (writeInt32 (wrapS 32 (n : Int)) 0).length)) := by
  rw [wrapLen n hn] at h ⊢
  have h' : r.rest = writeHead tyMAP 0 ++ (writeInt32 (n : Int) 0 ++ body) := by simpa using h
  have h1 : skipTo tyMAP 0 false r = (.ok true, r.adv (writeHead tyMAP 0).length) := by
    unfold skipTo
    rw [skipToNoCheck_hit r tyMAP 0 false _ (by decide) (by decide) (by decide) h']
    simp
  have r1 := r.rest_adv _ _ h'
  have h2 := C02_rt_int32 _ (n : Int) 0 0 true body (by decide) (by omega) r1
  have r2 := Reader.rest_adv _ _ _ r1
  unfold decodeV
  rw [h1]; simp only
  rw [h2]; simp only [Int.toNat_natCast, Reader.adv_adv]
  cases chk with
  | false => simp
  | true =>
    simp only [if_true]
    have : n ≤ (r.adv ((writeHead tyMAP 0).length + (writeInt32 (n : Int) 0).length)).remaining := by
      rw [← rest_length]
      simp only [Reader.adv_adv] at r2
      rw [r2]; exact hc rfl
    rw [checkLength_of_le (by omega) (by simpa using this)]

/-! ### an exhausted input: iterations that do nothing -/

theorem skipToNoCheck_eof (tag : Nat) (r : Reader) (h : r.data.size ≤ r.pos) :
    skipToNoCheck tag false r = (.ok (false, 0), r) := by
  unfold skipToNoCheck
  rw [Reader.fuel_succ]
  unfold skipToNoCheckF
  simp [readHead, readByte_eof_of_ge h]

/-- at the end of the input an iteration reads nothing, stores nothing and reports no error -/
theorem decodeEntry_eof (r : Reader) (h : r.data.size ≤ r.pos) : decodeEntry r = ⟨.ok none, 0, r⟩ := by
  unfold decodeEntry readString
  rw [skipToNoCheck_eof 0 r h]
  simp only
  rw [skipToNoCheck_eof 1 r h]
  simp

theorem decodeLoop_eof : ∀ (n : Nat) (m : TupMap) (it al : Nat) (r : Reader), r.data.size ≤ r.pos →
    decodeLoop n m it al r = ⟨none, m, r, it + n, al⟩ := by
  intro n
  induction n with
  | zero => intro m it al r _; simp [decodeLoop]
  | succ n ih =>
    intro m it al r h
    simp only [decodeLoop, decodeEntry_eof r h]
    rw [ih _ _ _ _ h]
    simp only [Out.mk.injEq, true_and]
    omega

/-! ### errors inside the loop -/

theorem decodeLoop_err (n : Nat) (m : TupMap) (it al : Nat) (r : Reader) (e : Err)
    (h : (decodeEntry r).res = .error e) :
    (decodeLoop (n + 1) m it al r).err = some e ∧ (decodeLoop (n + 1) m it al r).data = m ∧
    (decodeLoop (n + 1) m it al r).iters = it + 1 := by
  simp only [decodeLoop]
  cases hd : decodeEntry r with
  | mk res a r' =>
    rw [hd] at h
    simp only at h
    subst h
    simp

/-! ### wrong wire types -/

/-- the value head (tag 1) is there but is not a SimpleList: "require vector, but not" -/
theorem decodeEntry_value_wrong_type (r : Reader) (k t : Bytes) (ty : Nat) (hk : k.length < 2 ^ 32)
    (hty : ty < 16) (h1 : ty ≠ tySimpleList) (h2 : ty ≠ tyStructEnd)
    (h : r.rest = writeString k 0 ++ writeHead ty 1 ++ t) :
    (decodeEntry r).res = .error .mismatch := by
  have h' : r.rest = writeString k 0 ++ (writeHead ty 1 ++ t) := by simpa using h
  have e1 := C02_rt_string r k 0 [] false _ (by decide) hk h'
  have r1 := r.rest_adv _ _ h'
  have e2 := skipToNoCheck_hit _ ty 1 false t hty h2 (by decide) r1
  unfold decodeEntry
  rw [e1]; simp only
  rw [e2]; simp only [if_neg h1]

/-- a StructEnd head where the value is expected: `SkipToNoCheck(1, false)` reports "not there",
    nothing is stored and there is no error -/
theorem decodeEntry_value_structEnd (r : Reader) (k t : Bytes) (hk : k.length < 2 ^ 32)
    (h : r.rest = writeString k 0 ++ writeHead tyStructEnd 1 ++ t) :
    (decodeEntry r).res = .ok none := by
  have h' : r.rest = writeString k 0 ++ (writeHead tyStructEnd 1 ++ t) := by simpa using h
  have e1 := C02_rt_string r k 0 [] false _ (by decide) hk h'
  have r1 := r.rest_adv _ _ h'
  have e2 : ∃ r2, skipToNoCheck 1 false (r.adv (writeString k 0).length) = (.ok (false, tyStructEnd), r2) := by
    unfold skipToNoCheck
    rw [Reader.fuel_succ]
    unfold skipToNoCheckF
    rw [readHead_writeHead _ tyStructEnd 1 t (by decide) (by decide) r1]
    simp
  obtain ⟨r2, e2⟩ := e2
  unfold decodeEntry
  rw [e1]; simp only
  rw [e2]

/-- a SimpleList whose element head is not `BYTE` at tag 0 is an error -/
theorem decodeEntry_elem_wrong_type (r : Reader) (k t : Bytes) (ty tg : Nat) (hk : k.length < 2 ^ 32)
    (hty : ty < 16) (htg : tg < 256) (hne : ¬ (ty = tyBYTE ∧ tg = 0))
    (h : r.rest = writeString k 0 ++ writeHead tySimpleList 1 ++ writeHead ty tg ++ t) :
    (decodeEntry r).res = .error (if ty = tyStructEnd ∨ tg > 0 then .require else .mismatch) := by
  have h' : r.rest = writeString k 0 ++ (writeHead tySimpleList 1 ++ (writeHead ty tg ++ t)) := by
    simpa using h
  have e1 := C02_rt_string r k 0 [] false _ (by decide) hk h'
  have r1 := r.rest_adv _ _ h'
  have e2 := skipToNoCheck_hit _ tySimpleList 1 false _ (by decide) (by decide) (by decide) r1
  have r2 := Reader.rest_adv _ _ _ r1
  have e3 : ∃ r3, skipTo tyBYTE 0 true ((r.adv (writeString k 0).length).adv (writeHead tySimpleList 1).length)
      = (.error (if ty = tyStructEnd ∨ tg > 0 then .require else .mismatch), r3) := by
    unfold skipTo skipToNoCheck
    rw [Reader.fuel_succ]
    unfold skipToNoCheckF
    rw [readHead_writeHead _ ty tg t hty htg r2]
    by_cases hc : ty = tyStructEnd ∨ tg > 0
    · simp [hc]
    · have htg0 : tg = 0 := by omega
      have hty' : ty ≠ tyBYTE := fun h => hne ⟨h, htg0⟩
      have : ¬ tyBYTE = ty := fun h => hty' h.symm
      have hse : ¬ ty = tyStructEnd := fun h => hc (.inl h)
      subst htg0
      simp [hse, this]
  obtain ⟨r3, e3⟩ := e3
  unfold decodeEntry
  rw [e1]; simp only
  rw [e2]; simp only [if_true]
  rw [e3]

/-- the key head (tag 0) is there but is not a string: "need string" -/
theorem decodeEntry_key_wrong_type (r : Reader) (t : Bytes) (ty : Nat)
    (hty : ty < 16) (h1 : ty ≠ tySTRING1) (h4 : ty ≠ tySTRING4) (h2 : ty ≠ tyStructEnd)
    (h : r.rest = writeHead ty 0 ++ t) :
    (decodeEntry r).res = .error .mismatch := by
  have e0 := skipToNoCheck_hit r ty 0 false t hty h2 (by decide) h
  have e1 := readString_mismatch (old := []) e0 (by simp [strLenWidth, h1, h4])
  unfold decodeEntry
  rw [e1]

end Tars.Tup
