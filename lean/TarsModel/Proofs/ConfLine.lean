/-
  C17 helper lemmas: the line scanner on rendered text, `procLine` on the lines of the grammar.
-/
import TarsModel.Proofs.ConfBasic

namespace Tars.Conf
open Tars

/-! ## the line scanner -/

theorem scan_noNl (max : Nat) (l rest cur : Txt) (acc : List Txt) (h : nlCh ∉ l) :
    scanLines max (l ++ rest) cur acc = scanLines max rest (l.reverse ++ cur) acc := by
  induction l generalizing cur with
  | nil => rfl
  | cons c l ih =>
    have hc : c ≠ nlCh := fun e => h (e ▸ List.mem_cons_self)
    have hl : nlCh ∉ l := fun m => h (List.mem_cons_of_mem _ m)
    rw [List.cons_append, scanLines, if_neg hc, ih _ hl]
    simp

theorem lineOfRev_reverse (l : Txt) (h : crCh ∉ l) : lineOfRev l.reverse = l := by
  cases hr : l.reverse with
  | nil =>
    have : l = [] := by simpa using hr
    subst this; rfl
  | cons c r =>
    have hl : l = r.reverse ++ [c] := by
      have := congrArg List.reverse hr; simpa using this
    have hc : c ≠ crCh := by
      intro e; apply h; rw [hl, e]; simp
    simp [lineOfRev, hc, hl]

theorem scan_line (max : Nat) (l rest : Txt) (acc : List Txt) (hnl : nlCh ∉ l) (hcr : crCh ∉ l)
    (hlen : l.length < max) :
    scanLines max (l ++ nlCh :: rest) [] acc = scanLines max rest [] (l :: acc) := by
  rw [scan_noNl _ _ _ _ _ hnl, scanLines, if_pos rfl, if_neg (by simp; omega)]
  simp [lineOfRev_reverse l hcr]

theorem scan_tail (max : Nat) (tail : Txt) (acc : List Txt) (hnl : nlCh ∉ tail) (hcr : crCh ∉ tail)
    (hlen : tail.length < max) :
    scanLines max tail [] acc = (acc.reverse ++ (if tail = [] then [] else [tail]), false) := by
  have := scan_noNl max tail [] [] acc hnl
  rw [List.append_nil] at this
  rw [this, scanLines]
  by_cases ht : tail = []
  · subst ht; simp
  · have h1 : (tail.reverse ++ ([] : Txt)).isEmpty = false := by simp [ht]
    rw [h1]
    simp only [Bool.false_eq_true, if_false]
    rw [if_neg (by simp; omega)]
    simp [lineOfRev_reverse tail hcr, ht]

/-- scanning a rendered text: exactly its lines, then the unterminated tail, never `ErrTooLong`
    when every line is shorter than the buffer limit -/
theorem scan_text (max : Nat) (ls : List Txt) (tail : Txt) (acc : List Txt)
    (h : ∀ l ∈ ls, nlCh ∉ l ∧ crCh ∉ l ∧ l.length < max)
    (ht : nlCh ∉ tail ∧ crCh ∉ tail ∧ tail.length < max) :
    scanLines max ((ls.map (fun l => l ++ [nlCh])).flatten ++ tail) [] acc
      = (acc.reverse ++ ls ++ (if tail = [] then [] else [tail]), false) := by
  induction ls generalizing acc with
  | nil => simpa using scan_tail max tail acc ht.1 ht.2.1 ht.2.2
  | cons l ls ih =>
    obtain ⟨h1, h2, h3⟩ := h l (by simp)
    have : ((l :: ls).map (fun l => l ++ [nlCh])).flatten ++ tail
        = l ++ nlCh :: ((ls.map (fun l => l ++ [nlCh])).flatten ++ tail) := by simp
    rw [this, scan_line _ _ _ _ h1 h2 h3, ih _ (fun x hx => h x (by simp [hx]))]
    simp

/-! ## `procLine` -/

/-- `procLine` once the trimmed line, its split at the first `=` and the trimmed key are known -/
theorem procLine_of_trim (text : Txt) (cur : Elem) (c : Byte) (r k0 rest k : Txt)
    (ht : trim trimSet text = c :: r) (hc : c ≠ hashCh)
    (hs : ((c :: r).takeWhile (fun b => b != eqCh), (c :: r).dropWhile (fun b => b != eqCh)) = (k0, rest))
    (hk : trim trimSet k0 = k) (hkne : k ≠ []) :
    procLine text cur = (cur.addLine (c :: r)).addChild k
      (newLeaf k (valueOf rest)) := by
  have hke : k.isEmpty = false := by cases k with | nil => exact absurd rfl hkne | cons _ _ => rfl
  cases hs
  subst hk
  unfold procLine
  simp only [ht, if_neg hc, hke, Bool.false_eq_true, if_false]

theorem procLine_skip_empty (text : Txt) (cur : Elem) (ht : trim trimSet text = []) :
    procLine text cur = cur := by
  unfold procLine; simp only [ht]

theorem procLine_skip_hash (text : Txt) (cur : Elem) (r : Txt) (ht : trim trimSet text = hashCh :: r) :
    procLine text cur = cur := by
  unfold procLine; simp only [ht, if_true]

/-- a line whose first non-blank byte is `#` is ignored, whatever follows -/
theorem procLine_comment (pre t : Txt) (cur : Elem) (hpre : allIn trimSet pre) :
    procLine (pre ++ hashCh :: t) cur = cur := by
  apply procLine_skip_hash _ _ (trimRight trimSet t)
  unfold trim
  rw [trimRight_stop _ _ _ _ hash_notin_trim, trimLeft_allIn_append _ _ _ hpre,
    trimLeft_stop _ _ _ hash_notin_trim]

/-- a line of blanks is ignored -/
theorem procLine_blank (w : Txt) (cur : Elem) (h : allIn trimSet w) : procLine w cur = cur :=
  procLine_skip_empty _ _ (trim_allIn _ _ h)

theorem getLast?_append_ne (a b : Txt) (h : b ≠ []) : (a ++ b).getLast? = b.getLast? := by
  rw [List.getLast?_append]
  cases hb : b.getLast? with
  | none => exact absurd (List.getLast?_eq_none_iff.mp hb) h
  | some z => rfl

theorem noEdge_iff (cut t : Txt) :
    noEdge cut t = true ↔
      (∀ c, t.head? = some c → inSet cut c = false) ∧ (∀ z, t.getLast? = some z → inSet cut z = false) := by
  unfold noEdge
  rw [List.getLast?_eq_head?_reverse]
  cases t with
  | nil => simp
  | cons c t =>
    cases hr : (c :: t).reverse with
    | nil => simp at hr
    | cons z r => simp

/-- the general key/value line: blanks around the key, around the value and around the line are
    removed, the line splits at the first `=` (the value may contain further `=`) -/
theorem procLine_kv_val (pre key mid w v post : Txt) (cur : Elem)
    (hpre : isWs pre = true) (hmid : isWs mid = true) (hw : isWs w = true) (hpost : isWs post = true)
    (hkne : key ≠ []) (hkeq : eqCh ∉ key) (hke : noEdge trimSet key = true)
    (hkh : key.head? ≠ some hashCh) (hve : noEdge trimSet v = true) :
    procLine (pre ++ key ++ mid ++ eqCh :: (w ++ v) ++ post) cur
      = (cur.addLine (key ++ mid ++ eqCh :: (if v.isEmpty then [] else w ++ v))).addChild key (newLeaf key v) := by
  cases key with
  | nil => exact absurd rfl hkne
  | cons c kt =>
    have hch : c ≠ hashCh := by intro e; apply hkh; simp [e]
    have hkc := ((noEdge_iff _ _).mp hke).1 c (by simp)
    have hmideq : eqCh ∉ mid := isWs_no mid hmid eqCh (by decide)
    have hsplit : eqCh ∉ (c :: kt) ++ mid := by
      intro hm; rcases List.mem_append.mp hm with h | h
      · exact hkeq h
      · exact hmideq h
    have hk : trim trimSet ((c :: kt) ++ mid) = c :: kt := by
      have := trim_core trimSet [] (c :: kt) mid (by intro b hb; simp at hb) (isWs_allIn _ hmid) (by simp) hke
      simpa using this
    by_cases hv : v = []
    · subst hv
      have hcore : noEdge trimSet ((c :: kt) ++ mid ++ [eqCh]) = true := by
        rw [noEdge_iff]; constructor
        · intro x hx; simp at hx; subst hx; exact hkc
        · intro z hz
          rw [getLast?_append_ne _ [eqCh] (by simp)] at hz
          simp at hz; subst hz; exact eq_notin_trim
      have ht : trim trimSet (pre ++ (c :: kt) ++ mid ++ eqCh :: (w ++ []) ++ post) = c :: (kt ++ mid ++ [eqCh]) := by
        have := trim_core trimSet pre ((c :: kt) ++ mid ++ [eqCh]) (w ++ post) (isWs_allIn _ hpre)
          (allIn_append (isWs_allIn _ hw) (isWs_allIn _ hpost)) (by simp) hcore
        simpa using this
      have hs := span_first ((c :: kt) ++ mid) eqCh [] hsplit
      rw [procLine_of_trim _ cur c (kt ++ mid ++ [eqCh]) ((c :: kt) ++ mid) [eqCh] (c :: kt) ht hch
        (by simpa using hs) hk (by simp)]
      simp [valueOf, trim_allIn trimSet [] (by intro b hb; simp at hb)]
    · have hcore : noEdge trimSet ((c :: kt) ++ mid ++ eqCh :: (w ++ v)) = true := by
        rw [noEdge_iff]; constructor
        · intro x hx; simp at hx; subst hx; exact hkc
        · intro z hz
          have : v.getLast? = some z := by
            have e : (c :: kt) ++ mid ++ eqCh :: (w ++ v) = ((c :: kt) ++ mid ++ eqCh :: w) ++ v := by simp
            rw [e, getLast?_append_ne _ v hv] at hz
            exact hz
          exact ((noEdge_iff _ _).mp hve).2 z this
      have ht : trim trimSet (pre ++ (c :: kt) ++ mid ++ eqCh :: (w ++ v) ++ post) = c :: (kt ++ mid ++ eqCh :: (w ++ v)) := by
        have := trim_core trimSet pre ((c :: kt) ++ mid ++ eqCh :: (w ++ v)) post (isWs_allIn _ hpre)
          (isWs_allIn _ hpost) (by simp) hcore
        simpa using this
      have hs := span_first ((c :: kt) ++ mid) eqCh (w ++ v) hsplit
      have hvt : trim trimSet (w ++ v) = v := by
        have := trim_core trimSet w v [] (isWs_allIn _ hw) (by intro b hb; simp at hb) hv hve
        simpa using this
      rw [procLine_of_trim _ cur c (kt ++ mid ++ eqCh :: (w ++ v)) ((c :: kt) ++ mid) (eqCh :: (w ++ v)) (c :: kt) ht hch
        (by simpa using hs) hk (by simp)]
      have : v.isEmpty = false := by cases v with | nil => exact absurd rfl hv | cons _ _ => rfl
      simp [valueOf, hvt, this]

/-- a key without `=`: the value is empty -/
theorem procLine_kv_noval (pre key mid post : Txt) (cur : Elem)
    (hpre : isWs pre = true) (hmid : isWs mid = true) (hpost : isWs post = true)
    (hkne : key ≠ []) (hkeq : eqCh ∉ key) (hke : noEdge trimSet key = true)
    (hkh : key.head? ≠ some hashCh) :
    procLine (pre ++ key ++ mid ++ post) cur = (cur.addLine key).addChild key (newLeaf key []) := by
  cases key with
  | nil => exact absurd rfl hkne
  | cons c kt =>
    have hch : c ≠ hashCh := by intro e; apply hkh; simp [e]
    have ht : trim trimSet (pre ++ (c :: kt) ++ mid ++ post) = c :: kt := by
      have := trim_core trimSet pre (c :: kt) (mid ++ post) (isWs_allIn _ hpre)
        (allIn_append (isWs_allIn _ hmid) (isWs_allIn _ hpost)) (by simp) hke
      simpa using this
    have hk : trim trimSet (c :: kt) = c :: kt := by
      have := trim_core trimSet [] (c :: kt) [] (by intro b hb; simp at hb) (by intro b hb; simp at hb) (by simp) hke
      simpa using this
    have hs := span_no (c :: kt) eqCh hkeq
    rw [procLine_of_trim _ cur c kt (c :: kt) [] (c :: kt) ht hch hs hk (by simp)]
    rfl

end Tars.Conf
