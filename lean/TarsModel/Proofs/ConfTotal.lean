/-
  C17 helper lemmas: no panic on well-nested token streams; the line scanner on arbitrary text
  (nothing is dropped below the limit; everything after an over-long line is dropped at the limit).
-/
import TarsModel.Proofs.ConfLine

namespace Tars.Conf
open Tars

/-! ## no panic -/

theorem run_no_panic (v : Variant) : ∀ (ts : List Token) (cur : Frame) (rest : List Frame),
    wellNested ts rest.length = true → run v ts (cur :: rest) ≠ .panic := by
  intro ts
  induction ts with
  | nil => intro cur rest _; simp only [run]; intro h; cases h
  | cons t ts ih =>
    intro cur rest h
    cases t with
    | chardata text =>
      simp only [run]
      split
      · intro h; cases h
      · exact ih _ rest (by simpa [wellNested] using h)
    | start n =>
      have h' : wellNested ts (cur :: rest).length = true := by simpa [wellNested] using h
      simp only [run]
      cases cur.node.findChild n with
      | some child => exact ih _ (cur :: rest) h'
      | none => exact ih _ (_ :: rest) (by simpa using h')
    | fin n =>
      cases rest with
      | nil => simp [wellNested] at h
      | cons parent rest' =>
        simp only [run]
        split
        · intro h; cases h
        · exact ih _ rest' (by simpa [wellNested] using h)
    | other => simp only [run]; exact ih cur rest (by simpa [wellNested] using h)

/-! ## the scanner on arbitrary text -/

/-- empty, or ending with a line terminator -/
def atLineStart (a : Txt) : Prop := a = [] ∨ ∃ a0, a = a0 ++ [nlCh]

/-- below the limit the scanner only appends lines and never reports `ErrTooLong` -/
theorem scan_mono (max : Nat) : ∀ (t cur : Txt) (acc : List Txt), cur.length + t.length < max →
    ∃ ls, scanLines max t cur acc = (acc.reverse ++ ls, false) := by
  intro t
  induction t with
  | nil =>
    intro cur acc h
    rw [scanLines]
    by_cases hc : cur.isEmpty = true
    · exact ⟨[], by simp [hc]⟩
    · refine ⟨[lineOfRev cur], ?_⟩
      simp only [hc, Bool.false_eq_true, if_false]
      rw [if_neg (by simp at h; omega)]
      simp
  | cons c t ih =>
    intro cur acc h
    rw [scanLines]
    simp only [List.length_cons] at h
    by_cases hc : c = nlCh
    · rw [if_pos hc, if_neg (by omega)]
      obtain ⟨ls, hls⟩ := ih [] (lineOfRev cur :: acc) (by simp; omega)
      exact ⟨lineOfRev cur :: ls, by rw [hls]; simp⟩
    · rw [if_neg hc]
      obtain ⟨ls, hls⟩ := ih (c :: cur) acc (by simp; omega)
      exact ⟨ls, hls⟩

/-- scanning a prefix that ends at a line boundary leaves the scanner at the start of a line,
    whatever follows -/
theorem scan_prefix (max : Nat) : ∀ (a cur : Txt) (acc : List Txt), nlCh ∉ cur → cur.length + a.length < max →
    (cur = [] ∧ a = [] ∨ ∃ a0, a = a0 ++ [nlCh]) →
    ∃ acc', ∀ rest, scanLines max (a ++ rest) cur acc = scanLines max rest [] acc' := by
  intro a
  induction a with
  | nil =>
    intro cur acc _ _ h
    rcases h with ⟨hc, _⟩ | ⟨a0, ha⟩
    · subst hc; exact ⟨acc, fun rest => rfl⟩
    · have := congrArg List.length ha; simp at this
  | cons c a ih =>
    intro cur acc hcur hlen h
    simp only [List.length_cons] at hlen
    rcases h with ⟨_, h⟩ | ⟨a0, ha⟩
    · cases h
    · by_cases hc : c = nlCh
      · have hnext : ([] : Txt) = [] ∧ a = [] ∨ ∃ a1, a = a1 ++ [nlCh] := by
          cases a0 with
          | nil => left; simp at ha; exact ⟨rfl, ha.2⟩
          | cons x a1 => right; simp at ha; exact ⟨a1, ha.2⟩
        obtain ⟨acc', h'⟩ := ih [] (lineOfRev cur :: acc) (by simp) (by simp; omega) hnext
        refine ⟨acc', fun rest => ?_⟩
        rw [List.cons_append, scanLines, if_pos hc, if_neg (by omega)]
        exact h' rest
      · have hnext : (c :: cur = [] ∧ a = []) ∨ ∃ a1, a = a1 ++ [nlCh] := by
          cases a0 with
          | nil => simp at ha; exact absurd ha.1 hc
          | cons x a1 => right; simp at ha; exact ⟨a1, ha.2⟩
        obtain ⟨acc', h'⟩ := ih (c :: cur) acc (by
            intro hm; rcases List.mem_cons.mp hm with e | e
            · exact hc e.symm
            · exact hcur e) (by simp; omega) hnext
        refine ⟨acc', fun rest => ?_⟩
        rw [List.cons_append, scanLines, if_neg hc]
        exact h' rest

theorem scan_prefix0 (max : Nat) (a : Txt) (acc : List Txt) (hlen : a.length < max) (h : atLineStart a) :
    ∃ acc', ∀ rest, scanLines max (a ++ rest) [] acc = scanLines max rest [] acc' := by
  apply scan_prefix max a [] acc (by simp) (by simpa using hlen)
  rcases h with h | ⟨a0, h⟩
  · left; exact ⟨rfl, h⟩
  · right; exact ⟨a0, h⟩

/-- with a buffer larger than the text no line is dropped: every complete line of the text is
    among the scanned lines, and the scanner does not fail -/
theorem scan_complete (max : Nat) (a l b : Txt) (hmax : (a ++ l ++ nlCh :: b).length < max)
    (ha : atLineStart a) (hnl : nlCh ∉ l) (hcr : crCh ∉ l) :
    (scanLines max (a ++ l ++ nlCh :: b) [] []).2 = false ∧ l ∈ (scanLines max (a ++ l ++ nlCh :: b) [] []).1 := by
  simp only [List.length_append, List.length_cons] at hmax
  obtain ⟨acc', h'⟩ := scan_prefix0 max a [] (by omega) ha
  rw [List.append_assoc, h' (l ++ nlCh :: b), scan_line max l b acc' hnl hcr (by omega)]
  obtain ⟨ls, hls⟩ := scan_mono max b [] (l :: acc') (by simp; omega)
  rw [hls]
  simp

/-- at the limit: a line of `max` or more bytes ends the scan with `ErrTooLong`; the result is the
    lines before it — the long line and everything after it are not scanned -/
theorem scan_too_long (max : Nat) (a l b : Txt) (halen : a.length < max) (ha : atLineStart a)
    (hnl : nlCh ∉ l) (hlen : max ≤ l.length) :
    scanLines max (a ++ l ++ nlCh :: b) [] [] = ((scanLines max a [] []).1, true) := by
  obtain ⟨acc', h'⟩ := scan_prefix0 max a [] halen ha
  have h0 := h' []
  rw [List.append_nil] at h0
  have hA : (scanLines max a [] []).1 = acc'.reverse := by rw [h0]; simp [scanLines]
  rw [hA, List.append_assoc, h' (l ++ nlCh :: b), scan_noNl _ _ _ _ _ hnl, scanLines, if_pos rfl,
    if_pos (by simp; omega)]

end Tars.Conf
