import TarsModel.Model.CallPath
import TarsModel.Proofs.CallPathPacket
import TarsModel.Proofs.Filter

/-!
# Specification vocabulary for C01 (end-to-end call transparency)

Explicit hypotheses of the call-path theorems: what a well-formed call is (`CallOK`), what a
well-typed result of the implementation is (`ImplOK`), the response packet the server sends
(`replyPacket`), what it means for a registration of filters to pass calls through
(`Transparent`).  Definitions only.
-/
namespace Tars.CallPath
open Tars Consts Filter

/-- the request side of a call is well-formed: schema, signature, argument values, proxy
    configuration, caller-supplied maps, and the request frame is within the package limit -/
structure CallOK (env : Env) (rk : String → Nat) (cfg : Cfg) (fn : Bytes) (sig : Sig)
    (oneway : Bool) (args : List Val) (opts : List (Option StrMap)) : Prop where
  /-- the IDL schema is well-formed (C03) -/
  envWF   : EnvWF env rk
  /-- parameter tags `k+1` fit the tag byte -/
  nparams : sig.params.length + cpArgTagOffset ≤ 256
  /-- parameter and return types are of the supported language -/
  tys     : ∀ p ∈ sig.params, TyOK env rk (env.length + 1) p.ty
  retTy   : ∀ t, sig.ret = some t → TyOK env rk (env.length + 1) t
  /-- the values of all parameters (for out parameters: the caller's variables) are Go values of
      the parameter types -/
  argsWT  : WTm env (reqFields sig) args
  /-- the proxy speaks the TARS version (TUP / JSON are outside the model) -/
  version : cfg.version = cpTARSVERSION
  /-- the request id is an int32 and not 0 (`genRequestID` never returns 0) -/
  reqId   : I32 cfg.reqId
  reqIdNZ : cfg.reqId ≠ 0
  timeout : I32 cfg.timeout
  servant : cfg.servant.length < 2 ^ 32
  fnLen   : fn.length < 2 ^ 32
  /-- `Invoke` does not dispatch a function of this name -/
  notPing : fn ≠ ascii "tars_ping"
  /-- the context / status maps passed in `opts` are maps of strings below the codec's limits -/
  ctx     : MapOK ((optsMaps opts).1.getD [])
  status  : MapOK ((optsMaps opts).2.getD [])
  /-- the package limit is below 2^31 (default: 10 MiB), and the request frame is within it -/
  maxLen  : cfg.maxLen < 2 ^ 31
  fits    : ((requestPack (proxyRequest env cfg fn sig oneway args opts)).length : Int) ≤ cfg.maxLen

/-- the response packet `Protocol.Invoke` hands to `rsp2Byte` for the result `out` of the
    implementation -/
def replyPacket (zeroCode : Variant) (env : Env) (req : ReqPacket) (sig : Sig) (out : ImplOut) :
    RspPacket :=
  match out.err with
  | none => { dispatchRsp env req sig out with cPacketType := req.cPacketType }
  | some e =>
    { RspPacket.zero with
      iVersion := req.iVersion, iRequestId := req.iRequestId, iRet := (serverErr zeroCode e).1,
      sResultDesc := (serverErr zeroCode e).2, cPacketType := req.cPacketType }

/-- what the implementation produced is well-typed, and the response frame is within the limit -/
structure ImplOK (zeroCode : Variant) (env : Env) (cfg : Cfg) (req : ReqPacket) (sig : Sig)
    (out : ImplOut) : Prop where
  /-- on success: a return value iff the function has one; return value and out parameters are Go
      values of their types; the response context / status are maps of strings below the codec's
      limits -/
  shape  : out.err = none → out.ret.isSome = sig.ret.isSome
  vals   : out.err = none → WTm env (rspFields sig) (out.ret.toList ++ out.outs)
  ctx    : MapOK (out.rspCtx.getD [])
  status : MapOK (out.rspStatus.getD [])
  /-- on failure: the code is an int32, the message shorter than 2^32 bytes -/
  code   : ∀ c m, out.err = some (.tars c m) → I32 c
  msg    : ∀ e, out.err = some e → e.msg.length < 2 ^ 32
  fits   : ((rsp2Byte (replyPacket zeroCode env req sig out)).length : Int) ≤ cfg.maxLen

/-- what the caller's `opts` maps hold after the proxy's copy-back of the response context `rctx` and
    status `rst`: one map given → it holds the response context; two → context and status; none (or
    more than two) → nothing is copied.  A nil map stays nil (current code: it is skipped). -/
def copiedMaps (opts : List (Option StrMap)) (rctx rst : StrMap) : Option StrMap × Option StrMap :=
  match opts with
  | [c] => (c.map fun _ => rctx, none)
  | [c, s] => (c.map fun _ => rctx, s.map fun _ => rst)
  | _ => optsMaps opts

/-- the round-trip normal form (C03 `normVar`) of a return value / of the out values -/
def normRet (env : Env) (sig : Sig) (r : Option Val) : Option Val :=
  match sig.ret, r with
  | some t, some v => some (normVar env true t none v)
  | _, _ => none

def normOuts (env : Env) (sig : Sig) (outs : List Val) : List Val :=
  normMembers env (outFields sig) outs

def normIns (env : Env) (sig : Sig) (args : List Val) : List Val :=
  normMembers env (inFields sig) (inVals sig.params args)

/-- the description `doInvoke` uses: the server's, or the synthetic one if that is empty -/
def descOr (iret : Int) (m : Bytes) : Bytes := if m = [] then synthDesc iret else m

/-- what the caller gets (current code) when the implementation returned the error `e` -/
def arrives : GoErr → GoErr
  | .plain m => .plain (descOr cpPlainErrRet m)
  | .tars c m =>
    if c ≠ cpCodeLo ∧ c ≠ cpCodeHi then .tars c (descOr c m) else .plain (descOr cpPlainErrRet m)

/-- a way of running a computation (a registration of filters applied to it) that passes it
    through: records `b`, runs it once on the state found, records `a`, returns its result -/
def Transparent {ε σ α : Type} (run : Comp ε σ α → Comp ε σ α) (b a : List ε) : Prop :=
  ∀ (d : Comp ε σ α) (s : σ), run d s = (b ++ (d s).1 ++ a, (d s).2.1, (d s).2.2)

/-- the three shapes of a registration of pass-through filters, with the events it records before
    and after the call -/
inductive PassReg {ε σ α : Type} (nil : α) : Reg ε σ α → List ε → List ε → Prop where
  | single (reg : Reg ε σ α) (f : Flt ε σ α) (b a : List ε) :
      reg.single = some f → PassFlt f b a → PassReg nil reg b a
  | mws (reg : Reg ε σ α) (ms : List (Mw ε σ α × List ε × List ε)) :
      reg.single = none → reg.mws = ms.map (·.1) → ms ≠ [] → (∀ x ∈ ms, PassMw x.1 x.2.1 x.2.2) →
      PassReg nil reg (ms.map (·.2.1)).flatten (ms.reverse.map (·.2.2)).flatten
  | sides (reg : Reg ε σ α) (pre post : List (Flt ε σ α × List ε)) :
      reg.single = none → reg.mws = [] → reg.pre = pre.map (·.1) → reg.post = post.map (·.1) →
      (∀ x ∈ pre, PassSide nil x.1 x.2) → (∀ x ∈ post, PassSide nil x.1 x.2) →
      PassReg nil reg (pre.map (·.2)).flatten (post.map (·.2)).flatten

end Tars.CallPath
