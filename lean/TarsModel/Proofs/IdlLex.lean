/-
  The lexer on rendered token sequences: `tokens (lead ++ renderToks l) = l.map fst` for every list
  of lexable tokens with well-formed separators.
-/
import TarsModel.Model.Idl

namespace Tars.Idl

/-- the lexer state in front of the bytes `l` -/
def stOf : Bytes → LexState
  | [] => ⟨0, []⟩
  | b :: r => ⟨b, r⟩

theorem next_mk (b : Byte) (r : Bytes) : (LexState.mk b r).next = stOf r := by
  cases r <;> rfl

/-! ### one-step unfoldings of `lLex` -/

theorem lLex_eof (s : LexState) (h : s.cur = 0) : lLex s = some (.eof, s) := by
  rw [lLex, dif_pos h]

theorem lLex_blank4 (s : LexState) (h : s.cur = 32 ∨ s.cur = 9 ∨ s.cur = 12 ∨ s.cur = 11) :
    lLex s = lLex s.next := by
  have h0 : s.cur ≠ 0 := by rcases h with h | h | h | h <;> rw [h] <;> decide
  have hb : (s.cur = 32 || s.cur = 9 || s.cur = 12 || s.cur = 11) = true := by
    rcases h with h | h | h | h <;> simp [h]
  rw [lLex, dif_neg h0, if_pos hb]

theorem isNewLine_ne0 {c : Byte} (h : isNewLine c = true) : c ≠ 0 := by
  intro h0; subst h0; revert h; decide

theorem isNewLine_not_blank4 {c : Byte} (h : isNewLine c = true) :
    (c = 32 || c = 9 || c = 12 || c = 11) = false := by
  simp only [isNewLine, Bool.or_eq_true, decide_eq_true_eq] at h
  rcases h with h | h <;> subst h <;> decide

theorem lLex_nl (s : LexState) (h : isNewLine s.cur = true) : lLex s = lLex (incLine s) := by
  rw [lLex, dif_neg (isNewLine_ne0 h)]
  simp only [isNewLine_not_blank4 h, Bool.false_eq_true, if_false, h, if_true]

/-- a line-end character is skipped like a blank (`incLine` may take a second, different line-end
character with it; that one would be skipped next anyway) -/
theorem lLex_newline (n : Nat) : ∀ s : LexState, s.size ≤ n → isNewLine s.cur = true →
    lLex s = lLex s.next := by
  induction n with
  | zero =>
    intro s hs h
    have := s.next_size (isNewLine_ne0 h)
    omega
  | succ n ih =>
    intro s hs h
    rw [lLex_nl s h]
    unfold incLine
    simp only
    split
    · rename_i hc
      simp only [Bool.and_eq_true] at hc
      have h1 := s.next_size (isNewLine_ne0 h)
      exact (ih s.next (by omega) hc.1).symm
    · rfl

theorem lLex_blank (b : Byte) (r : Bytes) (h : isBlank b = true) : lLex ⟨b, r⟩ = lLex (stOf r) := by
  rw [← next_mk b r]
  simp only [isBlank, Bool.or_eq_true, decide_eq_true_eq] at h
  rcases h with ((((h | h) | h) | h) | h) | h
  · exact lLex_blank4 _ (Or.inl h)
  · exact lLex_blank4 _ (Or.inr (Or.inl h))
  · exact lLex_blank4 _ (Or.inr (Or.inr (Or.inl h)))
  · exact lLex_blank4 _ (Or.inr (Or.inr (Or.inr h)))
  · exact lLex_newline _ _ (Nat.le_refl _) (by simp [isNewLine, h])
  · exact lLex_newline _ _ (Nat.le_refl _) (by simp [isNewLine, h])

/-! ### comments -/

theorem skipLine_body (c : Byte) (body : Bytes) (nl : Byte) (rest : Bytes)
    (hc : isNewLine c = false ∧ c ≠ 0)
    (hb : body.all (fun b => !isNewLine b && b ≠ 0) = true) (hn : isNewLine nl = true) :
    skipLine c (body ++ nl :: rest) = ⟨nl, rest⟩ := by
  induction body generalizing c with
  | nil =>
    simp only [List.nil_append]
    rw [skipLine.eq_def]
    simp only [hc.1, hc.2, Bool.false_or, decide_false, Bool.false_eq_true, if_false]
    rw [skipLine.eq_def]
    simp [hn]
  | cons b bs ih =>
    simp only [List.all_cons, Bool.and_eq_true, Bool.not_eq_true', decide_eq_true_eq] at hb
    simp only [List.cons_append]
    rw [skipLine.eq_def]
    simp only [hc.1, hc.2, Bool.false_or, decide_false, Bool.false_eq_true, if_false]
    exact ih b ⟨hb.1.1, hb.1.2⟩ (by simpa using hb.2)

theorem lLex_slash2 (r : Bytes) : lLex ⟨47, 47 :: r⟩ = lLex (skipLine 47 r) := by
  rw [lLex, dif_neg (by simp), if_neg (by simp), if_neg (by simp [isNewLine]), if_pos rfl]
  simp [LexState.next]

theorem lLex_slashstar (r : Bytes) (s3 : LexState) (h : longComment (stOf r) = some s3) :
    lLex ⟨47, 42 :: r⟩ = lLex s3 := by
  have hlc : longComment (LexState.mk 47 (42 :: r)).next.next = some s3 := by
    show longComment (LexState.mk 42 r).next = some s3
    rw [next_mk]; exact h
  rw [lLex, dif_neg (by simp), if_neg (by simp), if_neg (by simp [isNewLine]), if_pos rfl]
  rw [if_neg (by simp [LexState.next]), if_pos (by simp [LexState.next])]
  split
  · rename_i heq; rw [hlc] at heq; cases heq
  · rename_i s4 heq; rw [hlc] at heq; cases heq; rfl

theorem lLex_lineComment (body : Bytes) (nl : Byte) (rest : Bytes)
    (hb : body.all (fun b => !isNewLine b && b ≠ 0) = true) (hn : isNewLine nl = true) :
    lLex (stOf ([47, 47] ++ body ++ [nl] ++ rest)) = lLex (stOf rest) := by
  show lLex ⟨47, 47 :: (body ++ [nl] ++ rest)⟩ = _
  rw [lLex_slash2]
  rw [show body ++ [nl] ++ rest = body ++ nl :: rest by simp]
  rw [skipLine_body 47 body nl rest (by decide) hb hn]
  exact lLex_blank nl rest (by
    simp only [isNewLine, Bool.or_eq_true, decide_eq_true_eq] at hn
    rcases hn with h | h <;> subst h <;> decide)

theorem longComment_nl (s : LexState) (h : isNewLine s.cur = true) :
    longComment s = longComment (incLine s) := by
  rw [longComment, dif_neg (isNewLine_ne0 h), if_pos h]

theorem longComment_newline (n : Nat) : ∀ s : LexState, s.size ≤ n → isNewLine s.cur = true →
    longComment s = longComment s.next := by
  induction n with
  | zero =>
    intro s hs h
    have := s.next_size (isNewLine_ne0 h)
    omega
  | succ n ih =>
    intro s hs h
    rw [longComment_nl s h]
    unfold incLine
    simp only
    split
    · rename_i hc
      simp only [Bool.and_eq_true] at hc
      have h1 := s.next_size (isNewLine_ne0 h)
      exact (ih s.next (by omega) hc.1).symm
    · rfl

theorem longComment_step (b : Byte) (r : Bytes) (h : b ≠ 42 ∧ b ≠ 0) :
    longComment ⟨b, r⟩ = longComment (stOf r) := by
  rw [← next_mk b r]
  by_cases hn : isNewLine b = true
  · exact longComment_newline _ _ (Nat.le_refl _) hn
  · rw [longComment, dif_neg h.2, if_neg hn, if_neg h.1]

theorem longComment_body (body : Bytes) (rest : Bytes)
    (hb : body.all (fun b => b ≠ 42 && b ≠ 0) = true) :
    longComment (stOf (body ++ 42 :: 47 :: rest)) = some (stOf rest) := by
  induction body with
  | nil =>
    show longComment ⟨42, 47 :: rest⟩ = _
    rw [longComment, dif_neg (by simp), if_neg (by simp [isNewLine]), if_pos rfl]
    simp only [LexState.next, if_true]
    cases rest <;> rfl
  | cons b bs ih =>
    simp only [List.all_cons, Bool.and_eq_true, decide_eq_true_eq] at hb
    show longComment ⟨b, bs ++ 42 :: 47 :: rest⟩ = _
    rw [longComment_step b _ ⟨hb.1.1, hb.1.2⟩]
    exact ih (by simpa using hb.2)

theorem lLex_blockComment (body : Bytes) (rest : Bytes)
    (hb : body.all (fun b => b ≠ 42 && b ≠ 0) = true) :
    lLex (stOf ([47, 42] ++ body ++ [42, 47] ++ rest)) = lLex (stOf rest) := by
  show lLex ⟨47, 42 :: (body ++ [42, 47] ++ rest)⟩ = _
  rw [show body ++ [42, 47] ++ rest = body ++ 42 :: 47 :: rest by simp]
  exact lLex_slashstar _ _ (longComment_body body rest hb)

/-- a well-formed trivia item is skipped -/
theorem lLex_trivia (t : Trivia) (h : t.WF = true) (rest : Bytes) :
    lLex (stOf (t.bytes ++ rest)) = lLex (stOf rest) := by
  cases t with
  | blank b => exact lLex_blank b rest h
  | line body nl =>
    simp only [Trivia.WF, Bool.and_eq_true] at h
    exact lLex_lineComment body nl rest h.2 h.1
  | block body => exact lLex_blockComment body rest h

theorem lLex_sep (s : Sep) (h : s.all Trivia.WF = true) (rest : Bytes) :
    lLex (stOf (s.bytes ++ rest)) = lLex (stOf rest) := by
  induction s with
  | nil => rfl
  | cons t ts ih =>
    simp only [List.all_cons, Bool.and_eq_true] at h
    simp only [Sep.bytes, List.flatMap_cons, List.append_assoc]
    rw [lLex_trivia t h.1]
    exact ih h.2

/-! ### tokens -/

/-- what may follow a word-like token: nothing, or a byte that ends identifiers and numbers -/
def stopOK : Bytes → Bool
  | [] => true
  | b :: _ => !isLetter b && !isNumber b && b ≠ 58 && b ≠ 46

theorem lLex_tok (c : Byte) (r : Bytes) (h0 : c ≠ 0) (hb : isBlank c = false) (h47 : c ≠ 47) :
    lLex ⟨c, r⟩ = lexToken ⟨c, r⟩ := by
  have hb4 : (c = 32 || c = 9 || c = 12 || c = 11) = false := by
    simp only [isBlank, Bool.or_eq_false_iff] at hb
    simp [hb.1.1.1.1.1, hb.1.1.1.1.2, hb.1.1.1.2, hb.1.1.2]
  have hn : isNewLine c = false := by
    simp only [isBlank, Bool.or_eq_false_iff] at hb
    simp [isNewLine, hb.1.2, hb.2]
  rw [lLex, dif_neg h0]
  simp only [hb4, hn, Bool.false_eq_true, if_false, h47]

theorem word_ne58 {c : Byte} (h : (isLetter c || isDigit' c) = true) : c ≠ 58 := by
  intro h0; subst h0; revert h; decide

theorem identLoop_accept (last c : Byte) (cs rest : Bytes) (hl : last ≠ 58)
    (hc : (isLetter c || isDigit' c) = true)
    (hcs : cs.all (fun b => isLetter b || isDigit' b) = true) (hs : stopOK rest = true) :
    identLoop last c (cs ++ rest) = some (c :: cs, stOf rest) := by
  have hcond : (isLetter c || isNumber c || c = 58) = true := by
    simp only [Bool.or_eq_true] at hc ⊢
    rcases hc with h | h
    · exact Or.inl (Or.inl h)
    · refine Or.inl (Or.inr ?_)
      simp only [isDigit', isNumber] at h ⊢
      simp [h]
  have hno : (isNumber c && last = 58) = false := by simp [hl]
  induction cs generalizing last c with
  | nil =>
    simp only [List.nil_append]
    rw [identLoop.eq_def]
    simp only [hcond, if_true, hno, Bool.false_eq_true, if_false]
    cases rest with
    | nil => rfl
    | cons b r =>
      simp only
      have hb : (isLetter b || isNumber b || b = 58) = false := by
        simp only [stopOK, Bool.and_eq_true, Bool.not_eq_true', decide_eq_true_eq] at hs
        simp [hs.1.1.1, hs.1.1.2, hs.1.2]
      rw [identLoop.eq_def]
      simp [hb, stOf]
  | cons b bs ih =>
    simp only [List.all_cons, Bool.and_eq_true] at hcs
    simp only [List.cons_append]
    rw [identLoop.eq_def]
    simp only [hcond, if_true, hno, Bool.false_eq_true, if_false]
    have hb : (isLetter b || isNumber b || b = 58) = true := by
      have := hcs.1
      simp only [Bool.or_eq_true] at this ⊢
      rcases this with h | h
      · exact Or.inl (Or.inl h)
      · refine Or.inl (Or.inr ?_)
        simp only [isDigit', isNumber] at h ⊢
        simp [h]
    rw [ih c b (word_ne58 hc) hcs.1 hcs.2 hb (by simp [word_ne58 hc])]
    rfl

theorem count58_zero (cs : Bytes) (h : cs.all (fun b => isLetter b || isDigit' b) = true) :
    countColon cs = 0 := by
  unfold countColon
  rw [List.count_eq_zero]
  intro hm
  have := List.all_eq_true.mp h 58 hm
  revert this; decide

theorem letter_facts : ∀ c : Byte, isLetter c = true →
    punct c = none ∧ c ≠ 34 ∧ c ≠ 35 ∧ isNumber c = false ∧ c ≠ 0 ∧ isBlank c = false ∧ c ≠ 47 := by
  decide +kernel

theorem lexToken_letter (c : Byte) (r : Bytes) (h : isLetter c = true) :
    lexToken ⟨c, r⟩ = readIdent ⟨c, r⟩ := by
  obtain ⟨hp, h34, h35, hnum, _, _, _⟩ := letter_facts c h
  unfold lexToken
  simp only
  rw [hp]
  simp only
  rw [if_neg h34, if_neg h35]
  unfold llexDefault
  simp only
  rw [hnum, h]
  simp

/-- an identifier-shaped word (name or keyword) followed by a stop byte -/
theorem lex_word (n : Bytes) (hid : identOK n = true) (rest : Bytes) (hs : stopOK rest = true) :
    lLex (stOf (n ++ rest)) = some (lookupKw n kwTable, stOf rest) := by
  cases n with
  | nil => simp [identOK] at hid
  | cons c cs =>
    simp only [identOK, Bool.and_eq_true] at hid
    obtain ⟨_, _, _, _, h0, hblank, h47⟩ := letter_facts c hid.1
    show lLex ⟨c, cs ++ rest⟩ = _
    rw [lLex_tok c _ h0 hblank h47, lexToken_letter c _ hid.1]
    unfold readIdent
    have hall : (c :: cs).all (fun b => isLetter b || isDigit' b) = true := by
      simp only [List.all_cons, Bool.and_eq_true]
      exact ⟨by simp [hid.1], hid.2⟩
    simp only
    rw [identLoop_accept 0 c cs rest (by decide) (by simp [hid.1]) hid.2 hs]
    simp only
    unfold normIdent
    rw [count58_zero _ hall]
    simp

theorem number_facts : ∀ c : Byte, isNumber c = true →
    punct c = none ∧ c ≠ 34 ∧ c ≠ 35 ∧ c ≠ 0 ∧ isBlank c = false ∧ c ≠ 47 ∧ c ≠ 120 ∧ c ≠ 88 := by
  decide +kernel

theorem numchar_facts : ∀ c : Byte, (isNumber c || c = 46) = true → c ≠ 120 ∧ c ≠ 88 := by
  decide +kernel

theorem numberLoop_stop (hx : Bool) (c : Byte) (r : Bytes)
    (h : (isNumber c || c = 46 || c = 120 || c = 88 || (hx && isHexNumber c)) = false) :
    numberLoop hx c r = ([], ⟨c, r⟩) := by
  rw [numberLoop.eq_def]
  simp only
  rw [if_neg (by rw [h]; decide)]

theorem numberLoop_accept (c : Byte) (cs rest : Bytes)
    (hc : (isNumber c || c = 46) = true)
    (hcs : cs.all (fun b => isNumber b || b = 46) = true) (hs : stopOK rest = true) :
    numberLoop false c (cs ++ rest) = (c :: cs, stOf rest) := by
  induction cs generalizing c with
  | nil =>
    have hcond : (isNumber c || c = 46 || c = 120 || c = 88 || (false && isHexNumber c)) = true := by
      simp only [Bool.or_eq_true] at hc ⊢
      rcases hc with h | h
      · exact Or.inl (Or.inl (Or.inl (Or.inl h)))
      · exact Or.inl (Or.inl (Or.inl (Or.inr h)))
    simp only [List.nil_append]
    rw [numberLoop.eq_def]
    simp only [hcond, if_true]
    cases rest with
    | nil => rfl
    | cons b r =>
      simp only
      obtain ⟨h120, h88⟩ := numchar_facts c hc
      have hx : (false || decide (c = 120) || decide (c = 88)) = false := by simp [h120, h88]
      rw [hx]
      have hb : (isNumber b || b = 46 || b = 120 || b = 88 || (false && isHexNumber b)) = false := by
        simp only [stopOK, Bool.and_eq_true, Bool.not_eq_true', decide_eq_true_eq] at hs
        have hl := hs.1.1.1
        have h1 : b ≠ 120 := by intro h; subst h; revert hl; decide
        have h2 : b ≠ 88 := by intro h; subst h; revert hl; decide
        simp [hs.1.1.2, hs.2, h1, h2]
      rw [numberLoop_stop false b r hb]
      rfl
  | cons b bs ih =>
    have hcond : (isNumber c || c = 46 || c = 120 || c = 88 || (false && isHexNumber c)) = true := by
      simp only [Bool.or_eq_true] at hc ⊢
      rcases hc with h | h
      · exact Or.inl (Or.inl (Or.inl (Or.inl h)))
      · exact Or.inl (Or.inl (Or.inl (Or.inr h)))
    simp only [List.all_cons, Bool.and_eq_true] at hcs
    simp only [List.cons_append]
    rw [numberLoop.eq_def]
    simp only [hcond, if_true]
    obtain ⟨h120, h88⟩ := numchar_facts c hc
    have hx : (false || decide (c = 120) || decide (c = 88)) = false := by simp [h120, h88]
    rw [hx, ih b hcs.1 hcs.2]

theorem lexToken_number (c : Byte) (r : Bytes) (h : isNumber c = true) :
    lexToken ⟨c, r⟩ = readNumber ⟨c, r⟩ := by
  obtain ⟨hp, h34, h35, _, _, _, _, _⟩ := number_facts c h
  unfold lexToken
  simp only
  rw [hp]
  simp only
  rw [if_neg h34, if_neg h35]
  unfold llexDefault
  simp only
  rw [h]
  simp

theorem lex_number (t : Bytes) (hn : numCharsOK t = true) (rest : Bytes) (hs : stopOK rest = true) :
    lLex (stOf (t ++ rest)) =
      (if t.contains 46 then (if floatOk t then some (Tok.float t, stOf rest) else none)
       else match parseInt0 t with
         | some v => some (Tok.int t v, stOf rest)
         | none => none) := by
  cases t with
  | nil => simp [numCharsOK] at hn
  | cons c cs =>
    simp only [numCharsOK, Bool.and_eq_true] at hn
    obtain ⟨_, _, _, h0, hblank, h47, _, _⟩ := number_facts c hn.1
    show lLex ⟨c, cs ++ rest⟩ = _
    rw [lLex_tok c _ h0 hblank h47, lexToken_number c _ hn.1]
    unfold readNumber
    simp only
    rw [numberLoop_accept c cs rest (by simp [hn.1]) hn.2 hs]
    rfl

theorem stringLoop_accept (c : Byte) (bs rest : Bytes)
    (hc : c ≠ 34 ∧ c ≠ 0) (hbs : bs.all (fun b => b ≠ 34 && b ≠ 0) = true) :
    stringLoop c (bs ++ 34 :: rest) = some (c :: bs, stOf rest) := by
  induction bs generalizing c with
  | nil =>
    simp only [List.nil_append]
    rw [stringLoop.eq_def]
    simp only [hc.1, hc.2, if_false]
    rw [stringLoop.eq_def]
    simp [LexState.next, stOf]
    cases rest <;> rfl
  | cons b bs ih =>
    simp only [List.all_cons, Bool.and_eq_true, decide_eq_true_eq] at hbs
    simp only [List.cons_append]
    rw [stringLoop.eq_def]
    simp only [hc.1, hc.2, if_false]
    rw [ih b hbs.1 hbs.2]
    rfl

theorem lex_string (s : Bytes) (h : s.all (fun b => b ≠ 34 && b ≠ 0) = true) (rest : Bytes) :
    lLex (stOf ([34] ++ s ++ [34] ++ rest)) = some (.str s, stOf rest) := by
  show lLex ⟨34, s ++ [34] ++ rest⟩ = _
  rw [lLex_tok 34 _ (by decide) (by decide) (by decide)]
  unfold lexToken
  simp only
  rw [show punct 34 = none from by decide]
  simp only [if_true]
  unfold readString
  simp only
  rw [show s ++ [34] ++ rest = s ++ 34 :: rest by simp]
  cases s with
  | nil =>
    simp only [List.nil_append, LexState.next]
    rw [stringLoop.eq_def]
    simp [LexState.next, stOf]
    cases rest <;> rfl
  | cons b bs =>
    simp only [List.all_cons, Bool.and_eq_true, decide_eq_true_eq] at h
    simp only [List.cons_append, LexState.next]
    rw [stringLoop_accept b bs rest h.1 h.2]
    rfl

theorem letterLoop_accept (c : Byte) (cs rest : Bytes) (hc : isLetter c = true)
    (hcs : cs.all isLetter = true) (hs : stopOK rest = true) :
    letterLoop c (cs ++ rest) = (c :: cs, stOf rest) := by
  induction cs generalizing c with
  | nil =>
    simp only [List.nil_append]
    rw [letterLoop.eq_def]
    simp only [hc, if_true]
    cases rest with
    | nil => rfl
    | cons b r =>
      simp only
      have hb : isLetter b = false := by
        simp only [stopOK, Bool.and_eq_true, Bool.not_eq_true', decide_eq_true_eq] at hs
        exact hs.1.1.1
      rw [letterLoop.eq_def]
      simp [hb, stOf]
  | cons b bs ih =>
    simp only [List.all_cons, Bool.and_eq_true] at hcs
    simp only [List.cons_append]
    rw [letterLoop.eq_def]
    simp only [hc, if_true]
    rw [ih b hcs.1 hcs.2]

theorem asc_include : asc "#include" = [35, 105, 110, 99, 108, 117, 100, 101] := by decide +kernel
theorem asc_include' : asc "include" = [105, 110, 99, 108, 117, 100, 101] := by decide +kernel

theorem lex_include (rest : Bytes) (hs : stopOK rest = true) :
    lLex (stOf (asc "#include" ++ rest)) = some (.kinclude, stOf rest) := by
  rw [asc_include]
  show lLex ⟨35, [105, 110, 99, 108, 117, 100, 101] ++ rest⟩ = _
  rw [lLex_tok 35 _ (by decide) (by decide) (by decide)]
  unfold lexToken
  simp only
  rw [show punct 35 = none from by decide]
  simp only [show (35 : Byte) ≠ 34 from by decide, if_false, if_true]
  unfold readSharp
  simp only
  have hl := letterLoop_accept 105 [110, 99, 108, 117, 100, 101] rest (by decide) (by decide) hs
  show (match letterLoop 105 ([110, 99, 108, 117, 100, 101] ++ rest) with
    | (text, s') => if text = asc "include" then some (Tok.kinclude, s') else none) = _
  rw [hl, asc_include']
  simp

theorem lex_punct (c : Byte) (t : Tok) (h : punct c = some t) (rest : Bytes) :
    lLex (stOf ([c] ++ rest)) = some (t, stOf rest) := by
  have hf : ∀ c : Byte, ∀ t, punct c = some t → c ≠ 0 ∧ isBlank c = false ∧ c ≠ 47 := by
    intro c t h
    have : ∀ c : Byte, (punct c).isSome = true → c ≠ 0 ∧ isBlank c = false ∧ c ≠ 47 := by decide +kernel
    exact this c (by rw [h]; rfl)
  obtain ⟨h0, hb, h47⟩ := hf c t h
  show lLex ⟨c, rest⟩ = _
  rw [lLex_tok c _ h0 hb h47]
  unfold lexToken
  simp only
  rw [h]
  simp only
  rw [next_mk]

/-! ### every lexable token -/

theorem kw_lookup :
    lookupKw (asc "module") kwTable = .kmodule ∧ lookupKw (asc "enum") kwTable = .kenum ∧
    lookupKw (asc "struct") kwTable = .kstruct ∧ lookupKw (asc "interface") kwTable = .kinterface ∧
    lookupKw (asc "require") kwTable = .krequire ∧ lookupKw (asc "optional") kwTable = .koptional ∧
    lookupKw (asc "const") kwTable = .kconst ∧ lookupKw (asc "unsigned") kwTable = .kunsigned ∧
    lookupKw (asc "void") kwTable = .kvoid ∧ lookupKw (asc "out") kwTable = .kout ∧
    lookupKw (asc "key") kwTable = .kkey ∧ lookupKw (asc "true") kwTable = .ktrue ∧
    lookupKw (asc "false") kwTable = .kfalse ∧ lookupKw (asc "vector") kwTable = .tvector ∧
    lookupKw (asc "map") kwTable = .tmap ∧ lookupKw (asc "array") kwTable = .tarray ∧
    (∀ p : Prim, lookupKw p.text kwTable = .tprim p) := by
  refine ⟨?_, ?_, ?_, ?_, ?_, ?_, ?_, ?_, ?_, ?_, ?_, ?_, ?_, ?_, ?_, ?_, ?_⟩
  all_goals first | decide +kernel | (intro p; cases p <;> decide +kernel)

theorem kw_ident :
    identOK (asc "module") = true ∧ identOK (asc "enum") = true ∧ identOK (asc "struct") = true ∧
    identOK (asc "interface") = true ∧ identOK (asc "require") = true ∧ identOK (asc "optional") = true ∧
    identOK (asc "const") = true ∧ identOK (asc "unsigned") = true ∧ identOK (asc "void") = true ∧
    identOK (asc "out") = true ∧ identOK (asc "key") = true ∧ identOK (asc "true") = true ∧
    identOK (asc "false") = true ∧ identOK (asc "vector") = true ∧ identOK (asc "map") = true ∧
    identOK (asc "array") = true ∧ (∀ p : Prim, identOK p.text = true) := by
  refine ⟨?_, ?_, ?_, ?_, ?_, ?_, ?_, ?_, ?_, ?_, ?_, ?_, ?_, ?_, ?_, ?_, ?_⟩
  all_goals first | decide +kernel | (intro p; cases p <;> decide +kernel)

/-- lexing the text of a lexable token gives the token back and stops right after it -/
theorem lex_tok (t : Tok) (h : t.lexOK = true) (rest : Bytes)
    (hs : t.wordLike = true → stopOK rest = true) :
    lLex (stOf (t.text ++ rest)) = some (t, stOf rest) := by
  obtain ⟨k1, k2, k3, k4, k5, k6, k7, k8, k9, k10, k11, k12, k13, k14, k15, k16, k17⟩ := kw_lookup
  obtain ⟨i1, i2, i3, i4, i5, i6, i7, i8, i9, i10, i11, i12, i13, i14, i15, i16, i17⟩ := kw_ident
  cases t with
  | eof => simp [Tok.lexOK] at h
  | bad => simp [Tok.lexOK] at h
  | braceL => exact lex_punct 123 _ (by decide) rest
  | braceR => exact lex_punct 125 _ (by decide) rest
  | semi => exact lex_punct 59 _ (by decide) rest
  | eq => exact lex_punct 61 _ (by decide) rest
  | shl => exact lex_punct 60 _ (by decide) rest
  | shr => exact lex_punct 62 _ (by decide) rest
  | comma => exact lex_punct 44 _ (by decide) rest
  | ptl => exact lex_punct 40 _ (by decide) rest
  | ptr => exact lex_punct 41 _ (by decide) rest
  | sqL => exact lex_punct 91 _ (by decide) rest
  | sqR => exact lex_punct 93 _ (by decide) rest
  | kinclude => exact lex_include rest (hs rfl)
  | kmodule => have := lex_word _ i1 rest (hs rfl); rw [k1] at this; exact this
  | kenum => have := lex_word _ i2 rest (hs rfl); rw [k2] at this; exact this
  | kstruct => have := lex_word _ i3 rest (hs rfl); rw [k3] at this; exact this
  | kinterface => have := lex_word _ i4 rest (hs rfl); rw [k4] at this; exact this
  | krequire => have := lex_word _ i5 rest (hs rfl); rw [k5] at this; exact this
  | koptional => have := lex_word _ i6 rest (hs rfl); rw [k6] at this; exact this
  | kconst => have := lex_word _ i7 rest (hs rfl); rw [k7] at this; exact this
  | kunsigned => have := lex_word _ i8 rest (hs rfl); rw [k8] at this; exact this
  | kvoid => have := lex_word _ i9 rest (hs rfl); rw [k9] at this; exact this
  | kout => have := lex_word _ i10 rest (hs rfl); rw [k10] at this; exact this
  | kkey => have := lex_word _ i11 rest (hs rfl); rw [k11] at this; exact this
  | ktrue => have := lex_word _ i12 rest (hs rfl); rw [k12] at this; exact this
  | kfalse => have := lex_word _ i13 rest (hs rfl); rw [k13] at this; exact this
  | tvector => have := lex_word _ i14 rest (hs rfl); rw [k14] at this; exact this
  | tmap => have := lex_word _ i15 rest (hs rfl); rw [k15] at this; exact this
  | tarray => have := lex_word _ i16 rest (hs rfl); rw [k16] at this; exact this
  | tprim p => have := lex_word _ (i17 p) rest (hs rfl); rw [k17 p] at this; exact this
  | name n =>
    simp only [Tok.lexOK, Bool.and_eq_true, decide_eq_true_eq] at h
    have := lex_word n h.1 rest (hs rfl)
    rw [h.2] at this
    exact this
  | str s =>
    have := lex_string s h rest
    simpa [Tok.text] using this
  | int t v =>
    simp only [Tok.lexOK, Bool.and_eq_true, Bool.not_eq_true', decide_eq_true_eq] at h
    have := lex_number t h.1.1 rest (hs rfl)
    rw [h.1.2] at this
    simp only [Bool.false_eq_true, if_false, h.2] at this
    exact this
  | float t =>
    simp only [Tok.lexOK, Bool.and_eq_true] at h
    have := lex_number t h.1.1 rest (hs rfl)
    rw [h.1.2, h.2] at this
    simp only [if_true] at this
    exact this

/-! ### token sequences -/

theorem lexAll_none (s : LexState) (h : lLex s = none) : lexAll s = [.bad] := by
  rw [lexAll]
  split
  · rfl
  · rename_i heq; rw [h] at heq; cases heq

theorem lexAll_eof (s s' : LexState) (h : lLex s = some (.eof, s')) : lexAll s = [] := by
  rw [lexAll]
  split
  · rename_i heq; rw [h] at heq; cases heq
  · rename_i t s2 heq
    rw [h] at heq; cases heq
    simp

theorem lexAll_step (s s' : LexState) (t : Tok) (h : lLex s = some (t, s')) (ht : t ≠ .eof) :
    lexAll s = t :: lexAll s' := by
  rw [lexAll]
  split
  · rename_i heq; rw [h] at heq; cases heq
  · rename_i t2 s2 heq
    rw [h] at heq; cases heq
    simp [ht]

theorem lexAll_congr (s s2 : LexState) (h : lLex s = lLex s2) : lexAll s = lexAll s2 := by
  cases hq : lLex s2 with
  | none => rw [lexAll_none s (h.trans hq), lexAll_none s2 hq]
  | some p =>
    obtain ⟨t, s'⟩ := p
    by_cases ht : t = .eof
    · subst ht
      rw [lexAll_eof s s' (h.trans hq), lexAll_eof s2 s' hq]
    · rw [lexAll_step s s' t (h.trans hq) ht, lexAll_step s2 s' t hq ht]

theorem blank_stop : ∀ b : Byte, isBlank b = true → stopOK [b] = true := by decide +kernel

/-- a non-empty well-formed separator begins with a byte that ends words -/
theorem sep_stop (s : Sep) (h : s.all Trivia.WF = true) (hne : s.isEmpty = false) (x : Bytes) :
    stopOK (s.bytes ++ x) = true := by
  cases s with
  | nil => simp at hne
  | cons t ts =>
    simp only [List.all_cons, Bool.and_eq_true] at h
    simp only [Sep.bytes, List.flatMap_cons, List.append_assoc]
    cases t with
    | blank b => exact blank_stop b h.1
    | line body nl => rfl
    | block body => rfl

theorem lexOK_ne_eof (t : Tok) (h : t.lexOK = true) : t ≠ .eof := by
  intro h0; subst h0; simp [Tok.lexOK] at h

/-- **the lexer on rendered token sequences** -/
theorem lexAll_render (l : List (Tok × Sep)) (h : renderOK l = true) :
    lexAll (stOf (renderToks l)) = l.map Prod.fst := by
  induction l with
  | nil =>
    show lexAll ⟨0, []⟩ = []
    exact lexAll_eof _ _ (lLex_eof _ rfl)
  | cons x l ih =>
    obtain ⟨t, s⟩ := x
    simp only [renderOK, List.all_cons, Bool.and_eq_true, Bool.or_eq_true, Bool.not_eq_true'] at h
    obtain ⟨⟨⟨hlex, hsep⟩, hword⟩, hrest⟩ := h
    have hstop : t.wordLike = true → stopOK (s.bytes ++ renderToks l) = true := by
      intro hw
      rcases hword with h1 | h1
      · rw [hw] at h1; cases h1
      · exact sep_stop s hsep h1 _
    simp only [renderToks, List.map_cons]
    rw [lexAll_step _ _ t (lex_tok t hlex _ hstop) (lexOK_ne_eof t hlex)]
    rw [lexAll_congr _ _ (lLex_sep s hsep (renderToks l))]
    rw [ih (by simpa [renderOK] using hrest)]

/-- the token sequence of a text that consists of a separator and rendered tokens -/
theorem tokens_render (lead : Sep) (hl : lead.all Trivia.WF = true) (l : List (Tok × Sep))
    (h : renderOK l = true) : tokens (lead.bytes ++ renderToks l) = l.map Prod.fst := by
  unfold tokens LexState.init
  rw [lexAll_congr _ _ (lLex_blank 32 _ (by decide))]
  rw [lexAll_congr _ _ (lLex_sep lead hl (renderToks l))]
  exact lexAll_render l h

end Tars.Idl
