/-
  Helper lemmas for C13: the order used by `sort.Slice`, the scan/split loops and the smooth
  weighted round robin counting argument of `BuildStaticWeightList`.
-/
import TarsModel.Model.Weight
import Mathlib.Tactic.Linarith
import Mathlib.Tactic.Ring
import Mathlib.Tactic.LinearCombination

namespace Tars.Sel

/-! ### byte-wise string order -/

theorem lexLe_total : ∀ a b : List Nat, (lexLe a b || lexLe b a) = true
  | [], _ => by simp [lexLe]
  | _ :: _, [] => by simp [lexLe]
  | a :: as, b :: bs => by
    have ih := lexLe_total as bs
    simp only [lexLe, Bool.or_eq_true, Bool.and_eq_true, decide_eq_true_eq, beq_iff_eq] at ih ⊢
    rcases Nat.lt_trichotomy a b with h | h | h
    · exact Or.inl (Or.inl h)
    · subst h
      rcases ih with h | h
      · exact Or.inl (Or.inr ⟨rfl, h⟩)
      · exact Or.inr (Or.inr ⟨rfl, h⟩)
    · exact Or.inr (Or.inl h)

theorem lexLe_trans : ∀ a b c : List Nat, lexLe a b = true → lexLe b c = true → lexLe a c = true
  | [], _, _ => by simp [lexLe]
  | _ :: _, [], _ => by simp [lexLe]
  | _ :: _, _ :: _, [] => by simp [lexLe]
  | a :: as, b :: bs, c :: cs => by
    have ih := lexLe_trans as bs cs
    simp only [lexLe, Bool.or_eq_true, Bool.and_eq_true, decide_eq_true_eq, beq_iff_eq] at ih ⊢
    intro h1 h2
    rcases h1 with h1 | ⟨h1, h1'⟩ <;> rcases h2 with h2 | ⟨h2, h2'⟩
    · exact Or.inl (by omega)
    · exact Or.inl (by omega)
    · exact Or.inl (by omega)
    · exact Or.inr ⟨by omega, ih h1' h2'⟩

/-! ### the order of `sort.Slice` -/

theorem slotLe_iff (a b : Slot) :
    slotLe a b = true ↔ (a.cur < b.cur ∨ (a.cur = b.cur ∧ lexLe a.key b.key = true)) := by
  unfold slotLe slotLess lexLt
  by_cases h : b.cur = a.cur
  · simp [h]
  · have h' : ¬ a.cur = b.cur := fun e => h e.symm
    simp [h, h']
    omega

theorem slotLe_total (a b : Slot) : (slotLe a b || slotLe b a) = true := by
  simp only [Bool.or_eq_true, slotLe_iff]
  have := lexLe_total a.key b.key
  simp only [Bool.or_eq_true] at this
  rcases Int.lt_trichotomy a.cur b.cur with h | h | h
  · exact Or.inl (Or.inl h)
  · rcases this with t | t
    · exact Or.inl (Or.inr ⟨h, t⟩)
    · exact Or.inr (Or.inr ⟨h.symm, t⟩)
  · exact Or.inr (Or.inl h)

theorem slotLe_trans (a b c : Slot) : slotLe a b = true → slotLe b c = true → slotLe a c = true := by
  simp only [slotLe_iff]
  intro h1 h2
  rcases h1 with h1 | ⟨h1, h1'⟩ <;> rcases h2 with h2 | ⟨h2, h2'⟩
  · exact Or.inl (by omega)
  · exact Or.inl (by omega)
  · exact Or.inl (by omega)
  · exact Or.inr ⟨by omega, lexLe_trans _ _ _ h1' h2'⟩

theorem slotLe_cur {a b : Slot} (h : slotLe a b = true) : a.cur ≤ b.cur := by
  rw [slotLe_iff] at h
  omega

theorem sortDesc_perm (l : List Slot) : (sortDesc l).Perm l :=
  (List.reverse_perm _).trans (List.mergeSort_perm l slotLe)

/-- the slot the loop picks (the last of the ascending order) has the greatest running weight -/
theorem sortDesc_head_max {l : List Slot} {p : Slot} {rest : List Slot} (h : sortDesc l = p :: rest) :
    ∀ q ∈ rest, q.cur ≤ p.cur := by
  have hs := List.pairwise_mergeSort slotLe_trans slotLe_total l
  have hr : List.Pairwise (fun a b => slotLe b a = true) (sortDesc l) := by
    unfold sortDesc
    rw [List.pairwise_reverse]
    exact hs
  rw [h, List.pairwise_cons] at hr
  intro q hq
  exact slotLe_cur (hr.1 q hq)

/-! ### sums over slots -/

def sumCur : List Slot → Int
  | [] => 0
  | s :: l => s.cur + sumCur l

theorem sumCur_perm {l₁ l₂ : List Slot} (h : l₁.Perm l₂) : sumCur l₁ = sumCur l₂ := by
  induction h with
  | nil => rfl
  | cons x _ ih => simp [sumCur, ih]
  | swap x y l => simp [sumCur]; omega
  | trans _ _ ih1 ih2 => exact ih1.trans ih2

theorem sumW_perm {l₁ l₂ : List Slot} (h : l₁.Perm l₂) : sumW l₁ = sumW l₂ := by
  induction h with
  | nil => rfl
  | cons x _ ih => simp [sumW, ih]
  | swap x y l => simp [sumW]; omega
  | trans _ _ ih1 ih2 => exact ih1.trans ih2

/-- what one iteration does to the slots that were not picked -/
def bump (q : Slot) : Slot := { q with cur := q.cur + q.w }

theorem sumCur_map_bump (l : List Slot) : sumCur (l.map bump) = sumCur l + sumW l := by
  induction l with
  | nil => rfl
  | cons s l ih => simp [sumCur, sumW, bump, ih]; omega

theorem sumW_map_bump (l : List Slot) : sumW (l.map bump) = sumW l := by
  induction l with
  | nil => rfl
  | cons s l ih => simp [sumW, bump, ih]

theorem map_idx_bump (l : List Slot) : (l.map bump).map (·.idx) = l.map (·.idx) := by
  induction l with
  | nil => rfl
  | cons s l ih => simp [bump]

theorem map_proj_bump (l : List Slot) :
    (l.map bump).map (fun s => (s.idx, s.w)) = l.map (fun s => (s.idx, s.w)) := by
  induction l with
  | nil => rfl
  | cons s l ih => simp [bump]

theorem sumW_nonneg {l : List Slot} (h : ∀ s ∈ l, 0 < s.w) : 0 ≤ sumW l := by
  induction l with
  | nil => simp [sumW]
  | cons s l ih =>
    have := h s (by simp)
    have := ih (fun q hq => h q (by simp [hq]))
    simp [sumW]; omega

theorem sumW_pos_of_mem {l : List Slot} (h : ∀ s ∈ l, 0 < s.w) {s : Slot} (hs : s ∈ l) : 0 < sumW l := by
  induction l with
  | nil => simp at hs
  | cons a l ih =>
    have ha := h a (by simp)
    have hl := sumW_nonneg (l := l) (fun q hq => h q (by simp [hq]))
    simp [sumW]; omega

/-- if every slot has at least its weight and the totals agree, every slot has exactly its weight -/
theorem cur_eq_w_of_sums {l : List Slot} (hle : ∀ s ∈ l, s.w ≤ s.cur) (hsum : sumCur l = sumW l) :
    ∀ s ∈ l, s.cur = s.w := by
  induction l with
  | nil => simp
  | cons a l ih =>
    have ha := hle a (by simp)
    have hl : sumW l ≤ sumCur l := by
      clear ih hsum
      induction l with
      | nil => simp [sumW, sumCur]
      | cons b l ih2 =>
        have hb := hle b (by simp)
        have := ih2 (fun s hs => hle s (by
          simp only [List.mem_cons] at hs ⊢
          rcases hs with hs | hs
          · exact Or.inl hs
          · exact Or.inr (Or.inr hs)))
        simp [sumW, sumCur]; omega
    simp only [sumCur, sumW] at hsum
    intro s hs
    simp only [List.mem_cons] at hs
    rcases hs with hs | hs
    · subst hs; omega
    · exact ih (fun q hq => hle q (by simp [hq])) (by omega) s hs

/-! ### the smooth weighted round robin -/

/-- one iteration of the loop, on the already sorted (descending) slots -/
def roundStep (t : Int) (p : Slot) (rest : List Slot) : List Slot :=
  { p with cur := p.cur - t + p.w } :: rest.map bump

theorem rounds_succ_cons (t : Int) (n : Nat) (l : List Slot) (acc : List Nat) (p : Slot) (rest : List Slot)
    (h : sortDesc l = p :: rest) :
    rounds t (n + 1) l acc = rounds t n (roundStep t p rest) (p.idx :: acc) := by
  simp only [rounds, h, roundStep]
  rfl

theorem rounds_nil (t : Int) (n : Nat) (acc : List Nat) : rounds t n [] acc = acc := by
  induction n with
  | zero => rfl
  | succ n ih =>
    have : sortDesc [] = [] := by simp [sortDesc]
    simp only [rounds, this]
    exact ih

/-- Invariant of the loop after `k` iterations (`acc`: picks so far, newest first).
`curEq` is the closed form `curᵢ(k) = (k+1)·wᵢ − T·picksᵢ(k)`. -/
structure LoopInv (t : Int) (l0 : List Slot) (k : Nat) (l : List Slot) (acc : List Nat) : Prop where
  curEq : ∀ s ∈ l, s.cur = ((k : Int) + 1) * s.w - t * (acc.count s.idx : Int)
  nodup : (l.map (·.idx)).Nodup
  sumCurEq : sumCur l = t
  sumWEq : sumW l = t
  wpos : ∀ s ∈ l, 0 < s.w
  cntLe : ∀ s ∈ l, (acc.count s.idx : Int) ≤ s.w
  proj : (l.map fun s => (s.idx, s.w)).Perm (l0.map fun s => (s.idx, s.w))
  accMem : ∀ i ∈ acc, i ∈ l.map (·.idx)
  accLen : acc.length = k

theorem LoopInv.init (l0 : List Slot) (hcur : ∀ s ∈ l0, s.cur = s.w) (hpos : ∀ s ∈ l0, 0 < s.w)
    (hnd : (l0.map (·.idx)).Nodup) : LoopInv (sumW l0) l0 0 l0 [] where
  curEq := by intro s hs; simp [hcur s hs]
  nodup := hnd
  sumCurEq := by
    clear hpos hnd
    induction l0 with
    | nil => rfl
    | cons a l ih =>
      simp only [sumCur, sumW]
      rw [hcur a (by simp), ih (fun s hs => hcur s (by simp [hs]))]
  sumWEq := rfl
  wpos := hpos
  cntLe := by intro s hs; have := hpos s hs; simp; omega
  proj := List.Perm.refl _
  accMem := by simp
  accLen := rfl

/-- a list whose elements are all ≤ 0 has a sum ≤ 0 -/
theorem sumCur_nonpos {l : List Slot} (h : ∀ s ∈ l, s.cur ≤ 0) : sumCur l ≤ 0 := by
  induction l with
  | nil => simp [sumCur]
  | cons a l ih =>
    have := h a (by simp)
    have := ih (fun s hs => h s (by simp [hs]))
    simp [sumCur]; omega

theorem LoopInv.step {t : Int} {l0 : List Slot} {k : Nat} {l : List Slot} {acc : List Nat}
    (inv : LoopInv t l0 k l acc) (hk : (k : Int) + 1 ≤ t) {p : Slot} {rest : List Slot}
    (hsort : sortDesc l = p :: rest) :
    LoopInv t l0 (k + 1) (roundStep t p rest) (p.idx :: acc) := by
  have hperm : (p :: rest).Perm l := hsort ▸ sortDesc_perm l
  have hmem : ∀ s, s ∈ p :: rest ↔ s ∈ l := fun s => hperm.mem_iff
  have hpl : p ∈ l := (hmem p).1 (by simp)
  have hrl : ∀ q ∈ rest, q ∈ l := fun q hq => (hmem q).1 (by simp [hq])
  have hnd : ((p :: rest).map (·.idx)).Nodup := (hperm.map (·.idx)).nodup_iff.2 inv.nodup
  have hnd' := hnd
  simp only [List.map_cons, List.nodup_cons, List.mem_map, not_exists, not_and] at hnd'
  have hne : ∀ q ∈ rest, q.idx ≠ p.idx := fun q hq => hnd'.1 q hq
  have hsc : sumCur (p :: rest) = t := (sumCur_perm hperm).trans inv.sumCurEq
  have hsw : sumW (p :: rest) = t := (sumW_perm hperm).trans inv.sumWEq
  have htpos : 0 < t := by omega
  -- the picked running weight is positive
  have hppos : 0 < p.cur := by
    by_contra hcon
    have hle : ∀ s ∈ p :: rest, s.cur ≤ 0 := by
      intro s hs
      simp only [List.mem_cons] at hs
      rcases hs with hs | hs
      · subst hs; omega
      · have := sortDesc_head_max hsort s hs; omega
    have := sumCur_nonpos hle
    omega
  have hpw := inv.wpos p hpl
  have hpc := inv.curEq p hpl
  -- hence it was picked fewer than `w` times so far
  have hplt : (acc.count p.idx : Int) + 1 ≤ p.w := by
    by_contra hcon
    have h1 : p.w ≤ (acc.count p.idx : Int) := by omega
    have h2 : t * p.w ≤ t * (acc.count p.idx : Int) := Int.mul_le_mul_of_nonneg_left h1 (by omega)
    have h3 : ((k : Int) + 1) * p.w ≤ t * p.w := Int.mul_le_mul_of_nonneg_right hk (by omega)
    rw [hpc] at hppos
    omega
  refine
    { curEq := ?_, nodup := ?_, sumCurEq := ?_, sumWEq := ?_, wpos := ?_, cntLe := ?_, proj := ?_,
      accMem := ?_, accLen := ?_ }
  · intro s hs
    simp only [roundStep, List.mem_cons, List.mem_map] at hs
    rcases hs with hs | ⟨q, hq, hs⟩
    · subst hs
      simp only [List.count_cons_self]
      push_cast
      rw [hpc]
      ring
    · subst hs
      have hqc := inv.curEq q (hrl q hq)
      have : List.count q.idx (p.idx :: acc) = List.count q.idx acc := by
        rw [List.count_cons]
        have : ¬ p.idx = q.idx := fun e => hne q hq e.symm
        simp [this]
      simp only [bump, this]
      push_cast
      rw [hqc]
      ring
  · show ((roundStep t p rest).map (·.idx)).Nodup
    have : (roundStep t p rest).map (·.idx) = (p :: rest).map (·.idx) := by
      simp [roundStep, bump]
    rw [this]; exact hnd
  · simp only [roundStep, sumCur, sumCur_map_bump]
    simp only [sumCur, sumW] at hsc hsw
    omega
  · simp only [roundStep, sumW, sumW_map_bump]
    simpa [sumW] using hsw
  · intro s hs
    simp only [roundStep, List.mem_cons, List.mem_map] at hs
    rcases hs with hs | ⟨q, hq, hs⟩
    · subst hs; exact hpw
    · subst hs; exact inv.wpos q (hrl q hq)
  · intro s hs
    simp only [roundStep, List.mem_cons, List.mem_map] at hs
    rcases hs with hs | ⟨q, hq, hs⟩
    · subst hs
      simp only [List.count_cons_self]
      push_cast
      exact hplt
    · subst hs
      have : List.count q.idx (p.idx :: acc) = List.count q.idx acc := by
        rw [List.count_cons]
        have : ¬ p.idx = q.idx := fun e => hne q hq e.symm
        simp [this]
      simp only [bump, this]
      exact inv.cntLe q (hrl q hq)
  · have : (roundStep t p rest).map (fun s => (s.idx, s.w)) = (p :: rest).map (fun s => (s.idx, s.w)) := by
      simp [roundStep, bump]
    rw [this]
    exact (hperm.map _).trans inv.proj
  · have hidx : (roundStep t p rest).map (·.idx) = (p :: rest).map (·.idx) := by
      simp [roundStep, bump]
    intro i hi
    rw [hidx]
    simp only [List.mem_cons] at hi
    rcases hi with hi | hi
    · subst hi; simp
    · have := inv.accMem i hi
      exact ((hperm.map (·.idx)).mem_iff).2 this
  · simp [inv.accLen]

/-- the loop invariant holds at the end of the loop -/
theorem LoopInv.run {t : Int} {l0 : List Slot} :
    ∀ (n k : Nat) (l : List Slot) (acc : List Nat), LoopInv t l0 k l acc → (k : Int) + n = t →
      ∃ l', LoopInv t l0 (k + n) l' (rounds t n l acc)
  | 0, k, l, acc, inv, _ => ⟨l, by simpa [rounds] using inv⟩
  | n + 1, k, l, acc, inv, hk => by
    have htpos : 0 < t := by omega
    -- the list is not empty
    cases hsort : sortDesc l with
    | nil =>
      have hl : l = [] := by
        have := (sortDesc_perm l).length_eq
        rw [hsort] at this
        exact List.eq_nil_of_length_eq_zero this.symm
      have := inv.sumWEq
      rw [hl] at this
      simp [sumW] at this
      omega
    | cons p rest =>
      rw [rounds_succ_cons t n l acc p rest hsort]
      have inv' := inv.step (by omega) hsort
      obtain ⟨l', h⟩ := LoopInv.run n (k + 1) _ _ inv' (by push_cast; omega)
      exact ⟨l', by rwa [Nat.add_assoc, Nat.add_comm 1 n] at h⟩

/-- **Smooth weighted round robin, counting argument.**  Slots with pairwise different indices,
positive weights `w`, started at `cur = w`: after `T = Σ w` iterations slot `s` has been picked exactly
`s.w` times, nothing else has been picked, and `T` picks were made. -/
theorem rounds_count (l0 : List Slot) (hcur : ∀ s ∈ l0, s.cur = s.w) (hpos : ∀ s ∈ l0, 0 < s.w)
    (hnd : (l0.map (·.idx)).Nodup) :
    (∀ s ∈ l0, ((rounds (sumW l0) (sumW l0).toNat l0 []).count s.idx : Int) = s.w) ∧
      (∀ i ∈ rounds (sumW l0) (sumW l0).toNat l0 [], i ∈ l0.map (·.idx)) ∧
      ((rounds (sumW l0) (sumW l0).toNat l0 []).length : Int) = sumW l0 := by
  have hT := sumW_nonneg hpos
  obtain ⟨l', inv⟩ := LoopInv.run (t := sumW l0) (sumW l0).toNat 0 l0 [] (LoopInv.init l0 hcur hpos hnd)
    (by simp [Int.toNat_of_nonneg hT])
  simp only [Nat.zero_add] at inv
  have hTn : ((sumW l0).toNat : Int) = sumW l0 := Int.toNat_of_nonneg hT
  generalize rounds (sumW l0) (sumW l0).toNat l0 [] = picks at inv ⊢
  generalize hTT : sumW l0 = T at *
  -- at the end every running weight is at least the weight …
  have hge : ∀ s ∈ l', s.w ≤ s.cur := by
    intro s hs
    have h1 := inv.curEq s hs
    have h2 := inv.cntLe s hs
    rw [hTn] at h1
    generalize (picks.count s.idx : Int) = c at h1 h2
    have h3 : T * c ≤ T * s.w := Int.mul_le_mul_of_nonneg_left h2 hT
    have e : (T + 1) * s.w = T * s.w + s.w := by ring
    rw [h1, e]
    omega
  -- … and the totals agree, so they are equal
  have heq := cur_eq_w_of_sums hge (inv.sumCurEq.trans inv.sumWEq.symm)
  have hcnt' : ∀ s ∈ l', (picks.count s.idx : Int) = s.w := by
    intro s hs
    have h1 := inv.curEq s hs
    have h3 := heq s hs
    have hTpos : 0 < T := by
      rw [← inv.sumWEq]; exact sumW_pos_of_mem inv.wpos hs
    rw [hTn] at h1
    generalize (picks.count s.idx : Int) = c at h1 ⊢
    have e : T * (s.w - c) = 0 := by linear_combination h3 - h1
    rcases Int.mul_eq_zero.1 e with h | h
    · omega
    · omega
  refine ⟨?_, ?_, ?_⟩
  · intro s hs
    have : (s.idx, s.w) ∈ l'.map (fun s => (s.idx, s.w)) :=
      (inv.proj.mem_iff).2 (List.mem_map.2 ⟨s, hs, rfl⟩)
    obtain ⟨s', hs', e⟩ := List.mem_map.1 this
    simp only [Prod.mk.injEq] at e
    rw [← e.1, ← e.2]
    exact hcnt' s' hs'
  · intro i hi
    have := inv.accMem i hi
    have hp : (l'.map (·.idx)).Perm (l0.map (·.idx)) := by
      have := inv.proj.map Prod.fst
      simpa [List.map_map, Function.comp_def] using this
    exact hp.mem_iff.1 this
  · rw [inv.accLen, hTn]

end Tars.Sel
