import TarsModel.Proofs.CallPathServer

/-!
# The client half of a call, and the whole call
-/
namespace Tars.CallPath
open Tars Consts Filter

/-! ## the request frame reaches `serverCore` -/

theorem serverHandle_pack (vs : Variants) (env : Env) (sreg : ServerReg) (iface : Iface)
    (req : ReqPacket) (h : ReqPacketOK req) :
    serverHandle vs env sreg iface (requestPack req) = serverCore vs env sreg iface req := by
  unfold serverHandle
  rw [requestPack_shape]
  have hl : ¬ ((be 4 (4 + (encStruct packetEnv reqPacketName req.toVal).length)
      ++ encStruct packetEnv reqPacketName req.toVal).length < cpInvokeHeaderSkip) := by
    rw [frame_length]; simp only [cpInvokeHeaderSkip]; omega
  simp only [hl, if_false, cpInvokeHeaderSkip, drop4_frame, decode_reqPacket req h,
    reqPacket_ofVal]

theorem recvFirst_requestPack (maxLen : Int) (req : ReqPacket) (h1 : maxLen < 2 ^ 31)
    (h2 : ((requestPack req).length : Int) ≤ maxLen) :
    recvFirst maxLen (requestPack req) = .pkg (requestPack req) := by
  rw [requestPack_shape] at h2 ⊢
  rw [frame_length] at h2
  exact recvFirst_frame maxLen _ _ rfl h2 (by omega)

theorem recvFirst_rsp2Byte (maxLen : Int) (p : RspPacket) (h1 : maxLen < 2 ^ 31)
    (h2 : ((rsp2Byte p).length : Int) ≤ maxLen) :
    recvFirst maxLen (rsp2Byte p) = .pkg (rsp2Byte p) := by
  rw [rsp2Byte_shape] at h2 ⊢
  rw [frame_length] at h2
  exact recvFirst_frame maxLen _ _ rfl h2 (by omega)

/-! ## the response packet -/

theorem mapOK_nil : MapOK [] := ⟨by decide, List.Pairwise.nil, fun _ h => by cases h⟩

theorem serverErr_code_ok (v : Variant) (e : GoErr) (h : ∀ c m, e = .tars c m → I32 c) :
    I32 (serverErr v e).1 := by
  cases e with
  | plain m => simp only [serverErr, cpPlainErrRet, I32]; decide
  | tars c m =>
    have hc := h c m rfl
    cases v with
    | asFound => exact hc
    | repaired =>
      simp only [serverErr]
      split
      · exact hc
      · simp only [cpPlainErrRet, I32]; decide

theorem serverErr_msg (v : Variant) (e : GoErr) : (serverErr v e).2 = e.msg := by
  cases e with
  | plain m => rfl
  | tars c m => cases v <;> simp only [serverErr, GoErr.msg] <;> split <;> rfl

theorem replyPacket_ok (zc : Variant) (env : Env) (cfg : Cfg) (req : ReqPacket) (sig : Sig)
    (out : ImplOut) (hreq : ReqPacketOK req) (himpl : ImplOK zc env cfg req sig out)
    (hmax : cfg.maxLen < 2 ^ 31) : RspPacketOK (replyPacket zc env req sig out) := by
  have hb := rspBuffer_lt _ cfg.maxLen hmax himpl.fits
  cases hout : out.err with
  | none =>
    simp only [replyPacket, hout, dispatchRsp] at hb ⊢
    exact ⟨hreq.ver, hreq.pt, hreq.id, by simp only [I32, cpDispatchMessageType]; decide,
      by simp only [I32, cpDispatchRet]; decide, hb, himpl.status, by simp, himpl.ctx⟩
  | some e =>
    simp only [replyPacket, hout, RspPacket.zero] at hb ⊢
    refine ⟨hreq.ver, hreq.pt, hreq.id, by simp only [I32]; decide, ?_, hb, mapOK_nil, ?_, mapOK_nil⟩
    · exact serverErr_code_ok zc e (fun c m hcm => himpl.code c m (by rw [hout, hcm]))
    · rw [serverErr_msg]; exact himpl.msg e hout

theorem clientRecv_rsp2Byte (reqId : Int) (p : RspPacket) (h : RspPacketOK p)
    (hid : p.iRequestId = reqId) (hnz : reqId ≠ 0) (hpt : p.cPacketType ≠ (cpTARSONEWAY : Int)) :
    clientRecv reqId (rsp2Byte p) = .ok p := by
  unfold clientRecv
  rw [rsp2Byte_shape]
  have hl : ¬ ((be 4 (4 + (encStruct packetEnv rspPacketName p.toVal).length)
      ++ encStruct packetEnv rspPacketName p.toVal).length < cpUnpackHeaderSkip) := by
    rw [frame_length]; simp only [cpUnpackHeaderSkip]; omega
  simp only [hl, if_false, cpUnpackHeaderSkip, drop4_frame, decode_rspPacket p h, rspPacket_ofVal,
    hpt, hid, if_true]
  simp only [hnz, if_false]

/-! ## `doInvoke` -/

/-- `doInvoke` for the request of a well-formed call against a server whose filters pass the call
    through: the trace is the server's; a one-way call returns nil at once and leaves `msg.Resp`
    alone; otherwise `msg.Resp` becomes exactly the packet the server built and the returned error
    is `clientErr` of its `(IRet, SResultDesc)` -/
theorem doInvoke_ok (vs : Variants) (env : Env) (rk : String → Nat) (cfg : Cfg)
    (sreg : ServerReg) (sb sa : List Ev)
    (hsreg : Transparent (runServer vs.postFilter none sreg) sb sa)
    (iface : Iface) (f : Func) (oneway : Bool) (args : List Val) (opts : List (Option StrMap))
    (hcall : CallOK env rk cfg f.name f.sig oneway args opts)
    (hfind : iface.find f.name = some f)
    (himpl : oneway = false → ImplOK vs.zeroCode env cfg (proxyRequest env cfg f.name f.sig oneway args opts) f.sig
      (f.impl (normMembers env (inFields f.sig) (inVals f.sig.params args))
        ((optsMaps opts).1.getD []) ((optsMaps opts).2.getD [])))
    (resp : RspPacket) :
    doInvoke vs env cfg sreg iface (proxyRequest env cfg f.name f.sig oneway args opts) resp =
      if oneway then
        (sb ++ [Ev.impl f.name (normMembers env (inFields f.sig) (inVals f.sig.params args))
            ((optsMaps opts).1.getD []) ((optsMaps opts).2.getD [])] ++ sa, .nil, resp)
      else
        (sb ++ [Ev.impl f.name (normMembers env (inFields f.sig) (inVals f.sig.params args))
            ((optsMaps opts).1.getD []) ((optsMaps opts).2.getD [])] ++ sa ++
          [Ev.reply (rsp2Byte (replyPacket vs.zeroCode env
            (proxyRequest env cfg f.name f.sig oneway args opts) f.sig
            (f.impl (normMembers env (inFields f.sig) (inVals f.sig.params args))
              ((optsMaps opts).1.getD []) ((optsMaps opts).2.getD []))))],
         (match clientErr vs.emptyDesc
            (replyPacket vs.zeroCode env (proxyRequest env cfg f.name f.sig oneway args opts) f.sig
              (f.impl (normMembers env (inFields f.sig) (inVals f.sig.params args))
                ((optsMaps opts).1.getD []) ((optsMaps opts).2.getD []))).iRet
            (replyPacket vs.zeroCode env (proxyRequest env cfg f.name f.sig oneway args opts) f.sig
              (f.impl (normMembers env (inFields f.sig) (inVals f.sig.params args))
                ((optsMaps opts).1.getD []) ((optsMaps opts).2.getD []))).sResultDesc with
          | some e => DoRes.err e
          | none => DoRes.nil),
         replyPacket vs.zeroCode env (proxyRequest env cfg f.name f.sig oneway args opts) f.sig
            (f.impl (normMembers env (inFields f.sig) (inVals f.sig.params args))
              ((optsMaps opts).1.getD []) ((optsMaps opts).2.getD []))) := by
  have hreq := proxyRequest_ok hcall
  have hcore := serverCore_ok vs env rk hcall.envWF sreg sb sa hsreg iface f
    (proxyRequest env cfg f.name f.sig oneway args opts) args
    (by simpa [proxyRequest, mkRequest] using hfind)
    (by simp [proxyRequest, mkRequest, hcall.version])
    (by simp [proxyRequest, mkRequest]) hcall.nparams hcall.tys hcall.argsWT (args_small hcall)
    (by simpa [proxyRequest, mkRequest] using hcall.notPing)
  have e0 : doInvoke vs env cfg sreg iface (proxyRequest env cfg f.name f.sig oneway args opts) resp
      = afterSend vs env cfg sreg iface (proxyRequest env cfg f.name f.sig oneway args opts) resp
          (recvFirst cfg.maxLen (requestPack (proxyRequest env cfg f.name f.sig oneway args opts))) := rfl
  rw [e0, recvFirst_requestPack cfg.maxLen _ hcall.maxLen hcall.fits]
  simp only [afterSend, serverHandle_pack vs env sreg iface _ hreq, hcore]
  cases oneway with
  | true =>
    simp [afterServer, proxyRequest, mkRequest, cpProxyOnewayType, cpTARSONEWAY]
  | false =>
    have himpl' := himpl rfl
    have hpt : (proxyRequest env cfg f.name f.sig false args opts).cPacketType ≠ (cpTARSONEWAY : Int) := by
      simp [proxyRequest, mkRequest, cpProxyNormalType, cpTARSONEWAY]
    have hrsp := replyPacket_ok vs.zeroCode env cfg _ f.sig _ hreq himpl' hcall.maxLen
    have hid : (replyPacket vs.zeroCode env (proxyRequest env cfg f.name f.sig false args opts) f.sig
        (f.impl (normMembers env (inFields f.sig) (inVals f.sig.params args))
          ((optsMaps opts).1.getD []) ((optsMaps opts).2.getD []))).iRequestId
        = (proxyRequest env cfg f.name f.sig false args opts).iRequestId := by
      unfold replyPacket; split <;> simp [dispatchRsp]
    have hpt2 : (replyPacket vs.zeroCode env (proxyRequest env cfg f.name f.sig false args opts) f.sig
        (f.impl (normMembers env (inFields f.sig) (inVals f.sig.params args))
          ((optsMaps opts).1.getD []) ((optsMaps opts).2.getD []))).cPacketType ≠ (cpTARSONEWAY : Int) := by
      have : (replyPacket vs.zeroCode env (proxyRequest env cfg f.name f.sig false args opts) f.sig
        (f.impl (normMembers env (inFields f.sig) (inVals f.sig.params args))
          ((optsMaps opts).1.getD []) ((optsMaps opts).2.getD []))).cPacketType
          = (proxyRequest env cfg f.name f.sig false args opts).cPacketType := by
        unfold replyPacket; split <;> simp
      rw [this]; exact hpt
    have hctx : (proxyRequest env cfg f.name f.sig false args opts).context = (optsMaps opts).1.getD [] := rfl
    have hst : (proxyRequest env cfg f.name f.sig false args opts).status = (optsMaps opts).2.getD [] := rfl
    simp only [hctx, hst] at hcore ⊢
    simp only [hpt, if_false, Bool.false_eq_true, afterServer]
    rw [recvFirst_rsp2Byte cfg.maxLen _ hcall.maxLen himpl'.fits]
    simp only [awaitReply]
    rw [clientRecv_rsp2Byte _ _ hrsp hid hcall.reqIdNZ hpt2]
    simp only [deliver]
    cases clientErr vs.emptyDesc
      (replyPacket vs.zeroCode env (proxyRequest env cfg f.name f.sig false args opts) f.sig
        (f.impl (normMembers env (inFields f.sig) (inVals f.sig.params args))
          ((optsMaps opts).1.getD []) ((optsMaps opts).2.getD []))).iRet
      (replyPacket vs.zeroCode env (proxyRequest env cfg f.name f.sig false args opts) f.sig
        (f.impl (normMembers env (inFields f.sig) (inVals f.sig.params args))
          ((optsMaps opts).1.getD []) ((optsMaps opts).2.getD []))).sResultDesc <;> rfl

/-! ## the proxy's reading of the response -/

theorem proxyFinish_ok (v : Variant) (env : Env) (rk : String → Nat) (hE : EnvWF env rk) (sig : Sig)
    (args : List Val) (opts : List (Option StrMap)) (resp : RspPacket) (ret : Option Val)
    (outs : List Val)
    (hbuf : resp.sBuffer = encMembers env (rspFields sig) (ret.toList ++ outs))
    (hwt : WTm env (rspFields sig) (ret.toList ++ outs))
    (hshape : ret.isSome = sig.ret.isSome)
    (hn : sig.params.length + cpArgTagOffset ≤ 256)
    (hty : ∀ p ∈ sig.params, TyOK env rk (env.length + 1) p.ty)
    (hretTy : ∀ t, sig.ret = some t → TyOK env rk (env.length + 1) t)
    (houts : WTm env (outFields sig) (outVals sig.params args)) :
    proxyFinish v env sig args opts resp =
      match copyBackAll v opts resp.context resp.status with
      | .error site => .panicked site
      | .ok (c, s) => .returned none ⟨normRet env sig ret, normOuts env sig outs, c, s⟩ := by
  have hout := outFieldsFrom_ok env rk sig.params 0 (by omega) hty
  have hfields : ∀ f ∈ rspFields sig, ArgFieldOK env rk f := by
    intro f hf
    simp only [rspFields, List.mem_append] at hf
    rcases hf with hf | hf
    · unfold retFields at hf
      cases hsr : sig.ret with
      | none => simp [hsr] at hf
      | some t =>
        simp only [hsr, List.mem_singleton] at hf
        subst hf
        exact ⟨by simp only [cpRetTag]; decide, rfl, rfl, hretTy t hsr⟩
    · exact hout f hf
  have holds : ArgOlds env (rspFields sig) ((sig.ret.map (zeroOf env)).toList ++ outVals sig.params args) := by
    apply argOlds_append _ _ _ _ _ _ (argOlds_of_WTm env _ _ houts)
    unfold retFields
    cases hsr : sig.ret with
    | none => simp [ArgOlds]
    | some t =>
      simp only [Option.map_some, Option.toList_some, ArgOlds, ArgOld, OldOK, and_true]
      exact .inl (zeroOf_ready hE t (hretTy t hsr))
  have hreq : ∀ f ∈ rspFields sig, f.req = true := fun f hf => (hfields f hf).2.1
  have hfuel := needElems_le_argFuel env (rspFields sig) (ret.toList ++ outs)
    (Reader.mk0 (encMembers env (rspFields sig) (ret.toList ++ outs))) [] hreq hwt (mk0_rest _)
  have hdec := decMembers_req_rt env rk hE (ret.toList ++ outs) (rspFields sig) _ _ _ []
    hfields hwt holds hfuel (mk0_rest _)
  unfold proxyFinish
  simp only [hbuf, hdec]
  -- the values read: return value first (if any), then the out parameters
  have hvals : (if sig.ret.isSome then (normMembers env (rspFields sig) (ret.toList ++ outs)).head? else none)
        = normRet env sig ret ∧
      (if sig.ret.isSome then (normMembers env (rspFields sig) (ret.toList ++ outs)).drop 1
        else normMembers env (rspFields sig) (ret.toList ++ outs)) = normOuts env sig outs := by
    cases hsr : sig.ret with
    | none =>
      cases ret with
      | some v => simp [hsr] at hshape
      | none => simp [rspFields, retFields, hsr, normRet, normOuts]
    | some t =>
      cases ret with
      | none => simp [hsr] at hshape
      | some v => simp [rspFields, retFields, hsr, normRet, normOuts, normMembers]
  rw [hvals.1, hvals.2]
  cases copyBackAll v opts resp.context resp.status with
  | error site => rfl
  | ok p => rfl

/-- as found: copy-back into non-nil maps succeeds -/
theorem copyBackAll_nonnil (opts : List (Option StrMap)) (rctx rst : StrMap)
    (hnil : ∀ m ∈ opts, m ≠ none) :
    copyBackAll .asFound opts rctx rst = .ok (copiedMaps opts rctx rst) := by
  match opts, hnil with
  | [], _ => simp [copyBackAll, copiedMaps]
  | [none], h => exact absurd rfl (h none (by simp))
  | [some c], _ => simp [copyBackAll, copiedMaps, copyBack]
  | [none, _], h => exact absurd rfl (h none (by simp))
  | [some _, none], h => exact absurd rfl (h none (by simp))
  | [some c, some s], _ => simp [copyBackAll, copiedMaps, copyBack]
  | _ :: _ :: _ :: _, _ => simp [copyBackAll, copiedMaps]

/-- current code: copy-back always succeeds; nil maps are left alone -/
theorem copyBackAll_repaired (opts : List (Option StrMap)) (rctx rst : StrMap) :
    copyBackAll .repaired opts rctx rst = .ok (copiedMaps opts rctx rst) := by
  match opts with
  | [] => simp [copyBackAll, copiedMaps, optsMaps]
  | [c] => cases c <;> simp [copyBackAll, copiedMaps, optsMaps]
  | [c, s] => cases c <;> cases s <;> simp [copyBackAll, copiedMaps, optsMaps]
  | _ :: _ :: _ :: _ => simp [copyBackAll, copiedMaps, optsMaps]

end Tars.CallPath
