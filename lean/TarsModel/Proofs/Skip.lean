import TarsModel.Model.WireField
import TarsModel.Proofs.Wire

/-! `skipField` consumes the body of every well-formed field exactly (C04, first clause). -/
namespace Tars
namespace Skip
open Consts WFField

/-! ### small facts about `WFField` -/

theorem ty_lt (f : WFField) : f.ty < 16 := by cases f <;> simp +decide [ty]

theorem ty_ne_structEnd (f : WFField) : f.ty ≠ tyStructEnd := by cases f <;> simp +decide [ty]

theorem tag_lt (f : WFField) (h : f.wf = true) : f.tag < 256 := by
  cases f <;> simp [wf] at h <;> simp [tag] <;> omega

theorem render_length (f : WFField) :
    (render f).length = (writeHead f.ty f.tag).length + (body f).length := by
  simp [render]

theorem renderList_cons (f : WFField) (fs : List WFField) :
    renderList (f :: fs) = render f ++ renderList fs := by
  simp [renderList, render]

theorem renderPairs_cons (k v : WFField) (rest : List (WFField × WFField)) :
    renderPairs ((k, v) :: rest) = render k ++ render v ++ renderPairs rest := by
  simp [renderPairs, render]

/-! ### primitives -/

theorem skip_nat (n : Nat) (r : Reader) : skip (n : Int) r = (.ok (), r.adv n) := by
  unfold skip
  by_cases h : (n : Int) ≤ 0
  · have : n = 0 := by omega
    subst this; simp
  · simp only [if_neg h, seekCur, Int.toNat_natCast, Reader.adv]

/-- the length prefix written by `WriteInt32(int32(n), 0)` is read back by the `ReadInt32(&length, 0, true)`
    of the skip family -/
theorem readLen_lenField (r : Reader) (n : Nat) (hn : n < 2 ^ 31) (t : Bytes)
    (h : r.rest = lenField n ++ t) :
    readLen r = (.ok (n : Int), r.adv (lenField n).length) := by
  unfold lenField writeInt32 at h ⊢
  by_cases a2 : -32768 ≤ (n : Int) ∧ (n : Int) ≤ 32767
  · rw [if_pos a2] at h ⊢
    unfold writeInt16 at h ⊢
    by_cases a3 : -128 ≤ (n : Int) ∧ (n : Int) ≤ 127
    · rw [if_pos a3] at h ⊢
      unfold writeInt8 at h ⊢
      by_cases a4 : (n : Int) = 0
      · rw [if_pos a4] at h ⊢
        unfold readLen
        rw [readHead_writeHead r tyZeroTag 0 t (by decide) (by decide) h]
        simp [a4]
      · rw [if_neg a4] at h ⊢
        have h' : r.rest = writeHead tyBYTE 0 ++ (byte (toU 8 n) :: t) := by simpa using h
        unfold readLen
        rw [readHead_writeHead r tyBYTE 0 _ (by decide) (by decide) h']
        have hr := r.rest_adv _ _ h'
        have hu : toU 8 (n : Int) = n := toU_ofNat 8 n (by omega)
        have hs : toS 8 n = (n : Int) := by
          have := toS_toU 8 (by decide) (n : Int) (by simp <;> omega) (by simp <;> omega)
          rwa [hu] at this
        have hm : n % 256 = n := by omega
        simp +decide [bReadU8_cons _ _ _ hr, hu, hm, hs, Nat.add_comm]
    · rw [if_neg a3] at h ⊢
      have h' : r.rest = writeHead tySHORT 0 ++ (be 2 (toU 16 n) ++ t) := by simpa using h
      unfold readLen
      rw [readHead_writeHead r tySHORT 0 _ (by decide) (by decide) h']
      have hr := r.rest_adv _ _ h'
      have hu : toU 16 (n : Int) = n := toU_ofNat 16 n (by omega)
      have hs : toS 16 n = (n : Int) := by
        have := toS_toU 16 (by decide) (n : Int) (by simp <;> omega) (by simp <;> omega)
        rwa [hu] at this
      have hm : n % 256 ^ 2 = n := Nat.mod_eq_of_lt (by omega)
      simp +decide [bReadU_be _ 2 _ t (by decide) hr, hu, hm, hs]
  · rw [if_neg a2] at h ⊢
    have h' : r.rest = writeHead tyINT 0 ++ (be 4 (toU 32 n) ++ t) := by simpa using h
    unfold readLen
    rw [readHead_writeHead r tyINT 0 _ (by decide) (by decide) h']
    have hr := r.rest_adv _ _ h'
    have hu : toU 32 (n : Int) = n := toU_ofNat 32 n (by omega)
    have hs : toS 32 n = (n : Int) := by
      have := toS_toU 32 (by decide) (n : Int) (by simp <;> omega) (by simp <;> omega)
      rwa [hu] at this
    have hm : n % 256 ^ 4 = n := Nat.mod_eq_of_lt (by omega)
    simp +decide [bReadU_be _ 4 _ t (by decide) hr, hu, hm, hs]

theorem lenField_length_pos (n : Nat) : 0 < (lenField n).length := by
  unfold lenField writeInt32 writeInt16 writeInt8
  have := writeHead_length_pos
  repeat' split
  all_goals simp [List.length_append]
  all_goals first | exact writeHead_length_pos _ _ | omega

/-! ### one unfolding lemma per wire type -/

section unfold
variable (F : Nat) (r : Reader)
theorem skipField_byte : skipField (F+1) tyBYTE r = skip 1 r := by simp [skipField]
theorem skipField_short : skipField (F+1) tySHORT r = skip 2 r := by simp +decide [skipField]
theorem skipField_int : skipField (F+1) tyINT r = skip 4 r := by simp +decide [skipField]
theorem skipField_long : skipField (F+1) tyLONG r = skip 8 r := by simp +decide [skipField]
theorem skipField_float : skipField (F+1) tyFLOAT r = skip 4 r := by simp +decide [skipField]
theorem skipField_double : skipField (F+1) tyDOUBLE r = skip 8 r := by simp +decide [skipField]
theorem skipField_string1 (d : Byte) (r1 : Reader) (h : readByte r = (.ok d, r1)) :
    skipField (F+1) tySTRING1 r = skip (d.val : Int) r1 := by simp +decide [skipField, h]
theorem skipField_string4 (l : Nat) (r1 : Reader) (h : bReadU 4 r = (.ok l, r1)) :
    skipField (F+1) tySTRING4 r = skip (l : Int) r1 := by simp +decide [skipField, h]
theorem skipField_map (len : Int) (r1 : Reader) (h : readLen r = (.ok len, r1)) :
    skipField (F+1) tyMAP r = skipElems F (wrapS 32 (len * 2)) r1 := by
  simp +decide [skipField, h]
theorem skipField_list (len : Int) (r1 : Reader) (h : readLen r = (.ok len, r1)) :
    skipField (F+1) tyLIST r = skipElems F len r1 := by simp +decide [skipField, h]
theorem skipField_simpleList (tg : Nat) (len : Int) (r1 r2 : Reader)
    (h1 : readHead r = (.ok (tyBYTE, tg), r1)) (h2 : readLen r1 = (.ok len, r2)) :
    skipField (F+1) tySimpleList r = skip len r2 := by simp +decide [skipField, h1, h2]
theorem skipField_structBegin : skipField (F+1) tyStructBegin r = skipToStructEnd F r := by
  simp +decide [skipField]
theorem skipField_structEnd : skipField (F+1) tyStructEnd r = (.ok (), r) := by
  simp +decide [skipField]
theorem skipField_zero : skipField (F+1) tyZeroTag r = (.ok (), r) := by
  simp +decide [skipField]
end unfold

theorem exists_succ_of_pos {n : Nat} (h : 0 < n) : ∃ m, n = m + 1 := ⟨n - 1, by omega⟩

theorem skipElems_done (F : Nat) (n : Int) (r : Reader) (h : n ≤ 0) :
    skipElems (F+1) n r = (.ok (), r) := by simp [skipElems, h]

theorem skipElems_step (F : Nat) (n : Int) (r r1 : Reader) (ty tg : Nat) (h : 0 < n)
    (h1 : readHead r = (.ok (ty, tg), r1)) :
    skipElems (F+1) n r = skipElems F (n - 1) (skipField F ty r1).2 := by
  have : ¬ n ≤ 0 := by omega
  simp [skipElems, this, h1]

theorem skipToStructEnd_step (F : Nat) (r r1 r2 : Reader) (ty tg : Nat)
    (h1 : readHead r = (.ok (ty, tg), r1)) (h2 : skipField F ty r1 = (.ok (), r2)) :
    skipToStructEnd (F+1) r = if ty = tyStructEnd then (.ok (), r2) else skipToStructEnd F r2 := by
  simp [skipToStructEnd, h1, h2]

/-- reading the head of a rendered field -/
theorem readHead_render (r : Reader) (f : WFField) (hf : f.wf = true) (t : Bytes)
    (h : r.rest = render f ++ t) :
    readHead r = (.ok (f.ty, f.tag), r.adv (writeHead f.ty f.tag).length) ∧
    (r.adv (writeHead f.ty f.tag).length).rest = body f ++ t := by
  have h' : r.rest = writeHead f.ty f.tag ++ (body f ++ t) := by simpa [render] using h
  exact ⟨readHead_writeHead r f.ty f.tag _ (ty_lt f) (tag_lt f hf) h', r.rest_adv _ _ h'⟩

/-! ### exactness: mutual structural recursion over the nested inductive -/

mutual
/-- `skipField` on the body of a well-formed field consumes exactly the body -/
theorem skipField_exact (f : WFField) (hf : f.wf = true) (fuel : Nat) (hfuel : cost f ≤ fuel)
    (r : Reader) (t : Bytes) (h : r.rest = body f ++ t) :
    skipField fuel f.ty r = (.ok (), r.adv (body f).length) := by
  obtain ⟨F, rfl⟩ := exists_succ_of_pos (n := fuel) (by cases f <;> simp [cost] at hfuel <;> omega)
  cases f with
  | byte tg b =>
    rw [show (WFField.byte tg b).ty = tyBYTE from rfl, skipField_byte]
    simpa [body] using skip_nat 1 r
  | short tg x =>
    rw [show (WFField.short tg x).ty = tySHORT from rfl, skipField_short]
    simpa [body] using skip_nat 2 r
  | int tg x =>
    rw [show (WFField.int tg x).ty = tyINT from rfl, skipField_int]
    simpa [body] using skip_nat 4 r
  | long tg x =>
    rw [show (WFField.long tg x).ty = tyLONG from rfl, skipField_long]
    simpa [body] using skip_nat 8 r
  | float tg x =>
    rw [show (WFField.float tg x).ty = tyFLOAT from rfl, skipField_float]
    simpa [body] using skip_nat 4 r
  | double tg x =>
    rw [show (WFField.double tg x).ty = tyDOUBLE from rfl, skipField_double]
    simpa [body] using skip_nat 8 r
  | string1 tg s =>
    simp [wf] at hf
    simp only [body] at h ⊢
    have hb := readByte_cons r _ _ (by simpa using h)
    simp only [WFField.ty]
    rw [skipField_string1 F r _ _ hb, byte_val, Nat.mod_eq_of_lt (by omega), skip_nat]
    simp [Nat.add_comm]
  | string4 tg s =>
    simp [wf] at hf
    simp only [body] at h ⊢
    have hb := bReadU_be r 4 s.length (s ++ t) (by decide) (by simpa using h)
    simp only [WFField.ty]
    rw [skipField_string4 F r _ _ hb, Nat.mod_eq_of_lt (by omega), skip_nat]
    simp
  | zero tg => simp [WFField.ty, skipField_zero, body]
  | map tg kvs =>
    simp [wf] at hf
    obtain ⟨⟨_, hn⟩, hw⟩ := hf
    simp only [body] at h ⊢
    simp only [cost] at hfuel
    have hl := readLen_lenField r kvs.length (by omega) (renderPairs kvs ++ t) (by simpa using h)
    have hr := r.rest_adv _ _ (show r.rest = lenField kvs.length ++ (renderPairs kvs ++ t) by simpa using h)
    simp only [WFField.ty]
    rw [skipField_map F r _ _ hl]
    have hwrap : wrapS 32 ((kvs.length : Int) * 2) = ((2 * kvs.length : Nat) : Int) := by
      have := toS_toU 32 (by decide) ((2 * kvs.length : Nat) : Int) (by simp <;> omega) (by simp <;> omega)
      unfold wrapS
      rw [show (kvs.length : Int) * 2 = ((2 * kvs.length : Nat) : Int) by omega]
      exact this
    rw [hwrap, skipPairs_exact kvs hw F (by omega) _ t _ rfl hr]
    simp
  | list tg es =>
    simp [wf] at hf
    obtain ⟨⟨_, hn⟩, hw⟩ := hf
    simp only [body] at h ⊢
    simp only [cost] at hfuel
    have hl := readLen_lenField r es.length hn (renderList es ++ t) (by simpa using h)
    have hr := r.rest_adv _ _ (show r.rest = lenField es.length ++ (renderList es ++ t) by simpa using h)
    simp only [WFField.ty]
    rw [skipField_list F r _ _ hl, skipElems_exact es hw F (by omega) _ t _ rfl hr]
    simp
  | simpleList tg bs =>
    simp [wf] at hf
    simp only [body] at h ⊢
    have h' : r.rest = writeHead tyBYTE 0 ++ (lenField bs.length ++ (bs ++ t)) := by simpa using h
    have h1 := readHead_writeHead r tyBYTE 0 _ (by decide) (by decide) h'
    have hr1 := r.rest_adv _ _ h'
    have h2 := readLen_lenField _ bs.length hf.2 (bs ++ t) hr1
    simp only [WFField.ty]
    rw [skipField_simpleList F r _ _ _ _ h1 h2, skip_nat]
    simp [Nat.add_assoc]
  | struct tg ms =>
    simp [wf] at hf
    simp only [body] at h ⊢
    simp only [cost] at hfuel
    simp only [WFField.ty]
    rw [skipField_structBegin, skipStruct_exact ms hf.2 F (by omega) r t (by simpa using h)]
    simp

/-- the element loop of `skipFieldList` on the rendered elements -/
theorem skipElems_exact (es : List WFField) (hw : wfElems es = true) (fuel : Nat)
    (hfuel : costList es ≤ fuel) (r : Reader) (t : Bytes) (n : Int) (hn : n = es.length)
    (h : r.rest = renderList es ++ t) :
    skipElems fuel n r = (.ok (), r.adv (renderList es).length) := by
  obtain ⟨F, rfl⟩ := exists_succ_of_pos (n := fuel) (by cases es <;> simp [costList] at hfuel <;> omega)
  cases es with
  | nil => subst hn; simp [skipElems_done, renderList]
  | cons e es =>
    simp [wfElems] at hw
    obtain ⟨⟨_, he⟩, hw⟩ := hw
    simp only [costList] at hfuel
    rw [renderList_cons] at h ⊢
    obtain ⟨h1, hr1⟩ := readHead_render r e he (renderList es ++ t) (by simpa using h)
    have hpos : 0 < n := by subst hn; simp only [List.length_cons]; omega
    rw [skipElems_step F n r _ _ _ hpos h1, skipField_exact e he F (by omega) _ _ hr1]
    have hr2 := Reader.rest_adv _ _ _ hr1
    simp only [Reader.adv_adv] at hr2 ⊢
    rw [skipElems_exact es hw F (by omega) _ t (n - 1) (by subst hn; simp only [List.length_cons]; omega) hr2]
    simp [render, Nat.add_assoc]

/-- the key/value loop of `skipFieldMap` -/
theorem skipPairs_exact (kvs : List (WFField × WFField)) (hw : wfPairs kvs = true) (fuel : Nat)
    (hfuel : costPairs kvs ≤ fuel) (r : Reader) (t : Bytes) (n : Int) (hn : n = (2 * kvs.length : Nat))
    (h : r.rest = renderPairs kvs ++ t) :
    skipElems fuel n r = (.ok (), r.adv (renderPairs kvs).length) := by
  obtain ⟨F, rfl⟩ := exists_succ_of_pos (n := fuel) (by cases kvs <;> simp [costPairs] at hfuel <;> omega)
  cases kvs with
  | nil => subst hn; simp [skipElems_done, renderPairs]
  | cons p kvs =>
    obtain ⟨k, v⟩ := p
    simp [wfPairs] at hw
    obtain ⟨⟨⟨⟨_, _⟩, hk⟩, hv⟩, hw⟩ := hw
    simp only [costPairs] at hfuel
    obtain ⟨F', rfl⟩ := exists_succ_of_pos (n := F) (by omega)
    rw [renderPairs_cons] at h ⊢
    obtain ⟨h1, hr1⟩ := readHead_render r k hk (render v ++ renderPairs kvs ++ t) (by simpa using h)
    have hpos : 0 < n := by subst hn; simp only [List.length_cons]; omega
    rw [skipElems_step (F'+1) n r _ _ _ hpos h1, skipField_exact k hk (F'+1) (by omega) _ _ hr1]
    have hr2 := Reader.rest_adv _ _ _ hr1
    simp only [Reader.adv_adv] at hr2 ⊢
    obtain ⟨h3, hr3⟩ := readHead_render _ v hv (renderPairs kvs ++ t) (by simpa using hr2)
    have hpos' : 0 < n - 1 := by subst hn; simp only [List.length_cons]; omega
    rw [skipElems_step F' (n-1) _ _ _ _ hpos' h3, skipField_exact v hv F' (by omega) _ _ hr3]
    have hr4 := Reader.rest_adv _ _ _ hr3
    simp only [Reader.adv_adv] at hr4 ⊢
    rw [skipPairs_exact kvs hw F' (by omega) _ t (n - 1 - 1) (by subst hn; simp only [List.length_cons]; omega) hr4]
    simp [render, Nat.add_assoc]

/-- `SkipToStructEnd` on rendered members followed by the StructEnd head -/
theorem skipStruct_exact (ms : List WFField) (hw : wfMembers ms = true) (fuel : Nat)
    (hfuel : costList ms + 1 ≤ fuel) (r : Reader) (t : Bytes)
    (h : r.rest = renderList ms ++ writeHead tyStructEnd 0 ++ t) :
    skipToStructEnd fuel r = (.ok (), r.adv ((renderList ms).length + (writeHead tyStructEnd 0).length)) := by
  obtain ⟨F, rfl⟩ := exists_succ_of_pos (n := fuel) (by omega)
  cases ms with
  | nil =>
    simp only [costList] at hfuel
    obtain ⟨F', rfl⟩ := exists_succ_of_pos (n := F) (by omega)
    have h1 := readHead_writeHead r tyStructEnd 0 t (by decide) (by decide) (by simpa [renderList] using h)
    rw [skipToStructEnd_step (F'+1) r _ _ _ _ h1 (skipField_structEnd F' _)]
    simp [renderList]
  | cons m ms =>
    simp [wfMembers] at hw
    obtain ⟨hm, hw⟩ := hw
    simp only [costList] at hfuel
    rw [renderList_cons] at h ⊢
    obtain ⟨h1, hr1⟩ := readHead_render r m hm (renderList ms ++ writeHead tyStructEnd 0 ++ t)
      (by simpa using h)
    have h2 := skipField_exact m hm F (by omega) _ _ hr1
    rw [skipToStructEnd_step F r _ _ _ _ h1 h2, if_neg (ty_ne_structEnd m)]
    have hr2 := Reader.rest_adv _ _ _ hr1
    simp only [Reader.adv_adv] at hr2 ⊢
    rw [skipStruct_exact ms hw F (by omega) _ t hr2]
    simp [render, Nat.add_assoc]
end

/-! ### a sufficient fuel in terms of the size of the field -/

mutual
theorem cost_le (f : WFField) : cost f ≤ 2 * (body f).length + 1 := by
  cases f with
  | map tg kvs =>
    have := costPairs_le kvs
    have := lenField_length_pos kvs.length
    simp only [cost, body, List.length_append]; omega
  | list tg es =>
    have := costList_le es
    have := lenField_length_pos es.length
    simp only [cost, body, List.length_append]; omega
  | struct tg ms =>
    have := costList_le ms
    have := writeHead_length_pos tyStructEnd 0
    simp only [cost, body, List.length_append]; omega
  | _ => simp only [cost]; omega
theorem costList_le (fs : List WFField) : costList fs ≤ 2 * (renderList fs).length + 1 := by
  cases fs with
  | nil => simp [costList]
  | cons f fs =>
    have := cost_le f
    have := costList_le fs
    have := writeHead_length_pos f.ty f.tag
    simp only [costList, renderList, List.length_append]; omega
theorem costPairs_le (kvs : List (WFField × WFField)) :
    costPairs kvs ≤ 2 * (renderPairs kvs).length + 1 := by
  cases kvs with
  | nil => simp [costPairs]
  | cons p kvs =>
    obtain ⟨k, v⟩ := p
    have := cost_le k
    have := cost_le v
    have := costPairs_le kvs
    have := writeHead_length_pos k.ty k.tag
    have := writeHead_length_pos v.ty v.tag
    simp only [costPairs, renderPairs, List.length_append]; omega
end

theorem rest_length_le (r : Reader) : r.rest.length ≤ r.data.size := by
  simp [Reader.rest]

/-- the fuel `Reader.fuel` that `SkipToNoCheck` passes in the model is sufficient for every
    well-formed field that lies inside the reader's data -/
theorem cost_le_fuel (f : WFField) (r : Reader) (t : Bytes) (h : r.rest = body f ++ t) :
    cost f ≤ r.fuel := by
  have h1 := cost_le f
  have h2 := rest_length_le r
  rw [h, List.length_append] at h2
  unfold Reader.fuel; omega

end Skip
end Tars
