import TarsModel.Proofs.SchemaDec

/-!
# Round trip, stage 1: the statement `RT`, induction principle for `Val`, scalar members
-/
namespace Tars
open Consts

/-- structural induction over the nested inductive `Val` -/
theorem Val.ind {P : Val → Prop}
    (hb : ∀ b, P (.bool b)) (hi : ∀ i, P (.int i)) (hf : ∀ b, P (.f32 b)) (hd : ∀ b, P (.f64 b))
    (hs : ∀ s, P (.str s))
    (hl : ∀ vs, (∀ v ∈ vs, P v) → P (.list vs))
    (hm : ∀ kvs : List (Val × Val), (∀ p ∈ kvs, P p.1 ∧ P p.2) → P (.map kvs))
    (ht : ∀ vs, (∀ v ∈ vs, P v) → P (.struct vs)) : ∀ v, P v := by
  intro v
  refine Val.rec (motive_1 := P) (motive_2 := fun vs => ∀ v ∈ vs, P v)
    (motive_3 := fun kvs => ∀ p ∈ kvs, P p.1 ∧ P p.2) (motive_4 := fun p => P p.1 ∧ P p.2)
    hb hi hf hd hs hl hm ht ?_ ?_ ?_ ?_ ?_ v
  · intro v hv; cases hv
  · intro h t ih1 ih2 v hv
    rcases List.mem_cons.mp hv with rfl | hv
    · exact ih1
    · exact ih2 v hv
  · intro p hp; cases hp
  · intro h t ih1 ih2 p hp
    rcases List.mem_cons.mp hp with rfl | hp
    · exact ih1
    · exact ih2 p hp
  · intro a b ha hb; exact ⟨ha, hb⟩

/-- an explicit default is admissible for the member's type -/
def DfltOK (ty : Ty) (dflt : Option Val) : Prop :=
  match dflt with
  | none => True
  | some d => ty.isAtom = true ∧ ScalarOK ty d

theorem FieldOK.dfltOK {env : Env} {rk : String → Nat} {b : Nat} {f : Field}
    (h : FieldOK env rk b f) : DfltOK f.ty f.dflt := h.2.2

/-- The round-trip statement for one member/element holding `v`: whatever the member's tag,
    optionality, type and default, the previous target value `old` (as left by `ResetDefault`), the
    read position and the bytes `t` after the member's encoding (for an optional member: not
    starting with a head of this or a smaller tag) — `genReadVar`'s code returns the normal form
    of `v` and stops exactly behind the encoding. -/
def RT (env : Env) (rk : String → Nat) (v : Val) : Prop :=
  ∀ (fuel tag : Nat) (req : Bool) (ty : Ty) (dflt : Option Val) (old : Val) (r : Reader) (t : Bytes),
    tag < 256 → TyOK env rk (env.length + 1) ty → DfltOK ty dflt → WT env ty v →
    OldOK env ty dflt old → (req = false → NextTagGt tag t) → needVar v ≤ fuel →
    r.rest = encVar env tag req ty dflt v ++ t →
    decVar env fuel tag req ty old r
      = (.ok (normVar env req ty dflt v), r.adv (encVar env tag req ty dflt v).length)

/-! ## scalars -/

theorem scalarOK_isAtom {ty : Ty} {v : Val} (h : ScalarOK ty v) : ty.isAtom = true := by
  cases ty <;> first | rfl | (cases v <;> simp [ScalarOK] at h)

theorem scalarOK_zero {ty : Ty} (h : ty.isAtom = true) : ScalarOK ty (scalarZero ty) := by
  cases ty <;> first | (simp [ScalarOK, scalarZero]; done) | simp [Ty.isAtom, Ty.isScalar] at h

theorem ready_atom {env : Env} {ty : Ty} {o : Val} (h : ty.isAtom = true) (hr : Ready env ty o) :
    o = scalarZero ty := by
  cases o <;> first
    | exact (by simpa [Ready] using hr : _ ∧ _).2
    | (cases ty <;> first | (simp [Ready] at hr; done) | (simp [Ty.isAtom, Ty.isScalar] at h; done))

/-- the target of a scalar member is its default (explicit or zero) and in range -/
theorem oldOK_atom {env : Env} {ty : Ty} {dflt : Option Val} {old : Val} (h : ty.isAtom = true)
    (hd : DfltOK ty dflt) (ho : OldOK env ty dflt old) :
    old = dflt.getD (scalarZero ty) ∧ ScalarOK ty old := by
  unfold OldOK at ho; unfold DfltOK at hd
  cases dflt with
  | none =>
    simp only at ho
    have := ready_atom h ho
    subst this
    exact ⟨rfl, scalarOK_zero h⟩
  | some d =>
    simp only at ho hd
    subst ho
    exact ⟨rfl, hd.2⟩

/-- `genWriteVar` on a scalar Go value -/
theorem encVar_scalarVal (env : Env) (tag : Nat) (req : Bool) (ty : Ty) (dflt : Option Val) (v : Val)
    (hv : ScalarOK ty v) :
    encVar env tag req ty dflt v =
      if ty = .enum then writeScalar ty v tag
      else if !req && !scalarNeDefault ty dflt v then [] else writeScalar ty v tag := by
  have hat := scalarOK_isAtom hv
  cases v <;> first
    | (cases ty <;> simp [ScalarOK] at hv; done)
    | (simp only [encVar]
       by_cases he : ty = .enum
       · simp [he]
       · have : ty.isScalar = true := by
           cases ty <;> first | rfl | (simp at he; done) | (simp [Ty.isAtom, Ty.isScalar] at hat; done)
         simp [he, this])

/-- present scalar: the normal form is the value itself -/
theorem normVar_present (env : Env) (req : Bool) (ty : Ty) (dflt : Option Val) (v : Val)
    (hv : ScalarOK ty v)
    (hp : ty = .enum ∨ ¬ ((!req && !scalarNeDefault ty dflt v) = true)) :
    normVar env req ty dflt v = v := by
  cases v <;> cases ty <;> simp only [ScalarOK] at hv
  all_goals first
    | (simp [normVar]; done)
    | (simp only [normVar]
       rcases hp with hp | hp
       · cases hp
       · simp only [scalarNeDefault, scalarZero] at hp
         split
         · rename_i d hd
           rw [hd] at hp
           simp only [Bool.not_not] at hp
           simp [hp]
         · rfl)

/-- absent optional scalar: the normal form is the default -/
theorem normVar_absent (env : Env) (ty : Ty) (dflt : Option Val) (v : Val)
    (hv : ScalarOK ty v) (hp : scalarNeDefault ty dflt v = false) :
    normVar env false ty dflt v = dflt.getD (scalarZero ty) := by
  cases v <;> cases ty <;> simp only [ScalarOK] at hv
  all_goals
    simp only [scalarNeDefault, scalarZero] at hp ⊢
    simp only [normVar]
    split at hp <;> simp_all

theorem rt_scalar (env : Env) (rk : String → Nat) (v : Val)
    (hsc : ∀ ty, WT env ty v → ScalarOK ty v) : RT env rk v := by
  intro fuel tag req ty dflt old r t htag _ hd hwt ho hnt hfuel h
  have hv := hsc ty hwt
  have hat := scalarOK_isAtom hv
  obtain ⟨ho1, ho2⟩ := oldOK_atom hat hd ho
  obtain ⟨f, rfl⟩ : ∃ f, fuel = f + 1 := ⟨fuel - 1, by have := needVar_pos v; omega⟩
  rw [decVar_atom env f tag req ty old r hat]
  rw [encVar_scalarVal env tag req ty dflt v hv] at h ⊢
  by_cases hp : ty = .enum ∨ ¬ ((!req && !scalarNeDefault ty dflt v) = true)
  · have henc : (if ty = .enum then writeScalar ty v tag
        else if (!req && !scalarNeDefault ty dflt v) = true then [] else writeScalar ty v tag)
        = writeScalar ty v tag := by
      rcases hp with hp | hp
      · simp [hp]
      · simp [hp]
    rw [henc] at h ⊢
    rw [normVar_present env req ty dflt v hv hp]
    exact readScalar_present ty v old tag req r t htag hv ho2 h
  · have hp' : ty ≠ .enum ∧ (!req && !scalarNeDefault ty dflt v) = true := by
      constructor
      · intro h'; exact hp (Or.inl h')
      · exact Decidable.not_not.mp (fun h' => hp (Or.inr h'))
    have hreq : req = false := by
      have := hp'.2; cases req <;> simp_all
    have hne : scalarNeDefault ty dflt v = false := by
      have := hp'.2; subst hreq; simpa using this
    subst hreq
    simp only [hp'.1, hp'.2, if_false, if_true, List.nil_append, List.length_nil,
      Reader.adv_zero] at h ⊢
    rw [normVar_absent env ty dflt v hv hne, ← ho1]
    exact readScalar_absent r tag (h ▸ hnt rfl) ty old ho2

/-! ## required members and elements occupy at least one byte -/

theorem HeadAt.ne_nil {tag : Nat} {bs : Bytes} (h : HeadAt tag bs) : bs ≠ [] := by
  obtain ⟨hty, rest, _, _, rfl⟩ := h
  intro h0
  have h1 : writeHead hty tag = [] := (List.append_eq_nil_iff.mp h0).1
  have hp := writeHead_length_pos hty tag
  rw [h1] at hp
  simp at hp

theorem writeScalar_ne (ty : Ty) (v : Val) (tag : Nat) (h : ScalarOK ty v) :
    writeScalar ty v tag ≠ [] := by
  cases ty <;> cases v <;> simp only [ScalarOK] at h
  all_goals simp only [writeScalar]
  all_goals first
    | exact (writeInt8_headAt _ _).ne_nil
    | exact (writeInt16_headAt _ _).ne_nil
    | exact (writeInt32_headAt _ _).ne_nil
    | exact (writeInt64_headAt _ _).ne_nil
    | exact (writeString_headAt _ _).ne_nil
    | exact (HeadAt.mk' (by decide) (by decide)).ne_nil

/-- a required member / an element always occupies at least one byte -/
theorem encVar_req_ne (env : Env) (tag : Nat) (ty : Ty) (dflt : Option Val) (v : Val)
    (h : WT env ty v) : encVar env tag true ty dflt v ≠ [] := by
  cases v with
  | list vs =>
    cases ty <;> simp only [WT] at h
    all_goals
      rw [encVar]
      simp only [Bool.not_true, Bool.false_and, Bool.false_eq_true, if_false]
      split
      · exact (HeadAt.ne_nil ⟨tySimpleList, _, by decide, by decide, by (simp only [List.append_assoc]; rfl)⟩)
      · exact (HeadAt.ne_nil ⟨tyLIST, _, by decide, by decide, by (simp only [List.append_assoc]; rfl)⟩)
  | map kvs =>
    cases ty <;> simp only [WT] at h
    rw [encVar]
    simp only [Bool.not_true, Bool.false_and, Bool.false_eq_true, if_false]
    exact (HeadAt.ne_nil ⟨tyMAP, _, by decide, by decide, by (simp only [List.append_assoc]; rfl)⟩)
  | struct vs =>
    cases ty <;> simp only [WT] at h
    rename_i name
    rw [encVar]
    cases hfs : env.find name with
    | none => simp [hfs] at h
    | some fs =>
      simp only
      exact (HeadAt.ne_nil ⟨tyStructBegin, _, by decide, by decide, by (simp only [List.append_assoc]; rfl)⟩)
  | bool b =>
    have hs : ScalarOK ty (.bool b) := by simpa only [WT] using h
    rw [encVar_scalarVal env tag true ty dflt _ hs]
    split
    · exact writeScalar_ne _ _ _ hs
    · simp only [Bool.not_true, Bool.false_and, Bool.false_eq_true, if_false]
      exact writeScalar_ne _ _ _ hs
  | int b =>
    have hs : ScalarOK ty (.int b) := by simpa only [WT] using h
    rw [encVar_scalarVal env tag true ty dflt _ hs]
    split
    · exact writeScalar_ne _ _ _ hs
    · simp only [Bool.not_true, Bool.false_and, Bool.false_eq_true, if_false]
      exact writeScalar_ne _ _ _ hs
  | f32 b =>
    have hs : ScalarOK ty (.f32 b) := by simpa only [WT] using h
    rw [encVar_scalarVal env tag true ty dflt _ hs]
    split
    · exact writeScalar_ne _ _ _ hs
    · simp only [Bool.not_true, Bool.false_and, Bool.false_eq_true, if_false]
      exact writeScalar_ne _ _ _ hs
  | f64 b =>
    have hs : ScalarOK ty (.f64 b) := by simpa only [WT] using h
    rw [encVar_scalarVal env tag true ty dflt _ hs]
    split
    · exact writeScalar_ne _ _ _ hs
    · simp only [Bool.not_true, Bool.false_and, Bool.false_eq_true, if_false]
      exact writeScalar_ne _ _ _ hs
  | str b =>
    have hs : ScalarOK ty (.str b) := by simpa only [WT] using h
    rw [encVar_scalarVal env tag true ty dflt _ hs]
    split
    · exact writeScalar_ne _ _ _ hs
    · simp only [Bool.not_true, Bool.false_and, Bool.false_eq_true, if_false]
      exact writeScalar_ne _ _ _ hs

theorem encVar_req_pos (env : Env) (tag : Nat) (ty : Ty) (dflt : Option Val) (v : Val)
    (h : WT env ty v) : 0 < (encVar env tag true ty dflt v).length :=
  List.length_pos_iff.mpr (encVar_req_ne env tag ty dflt v h)

theorem encElems_length_ge (env : Env) (e : Ty) : ∀ (vs : List Val), WTs env e vs →
    vs.length ≤ (encElems env e vs).length
  | [], _ => by simp
  | v :: vs, h => by
    simp only [WTs] at h
    have := encVar_req_pos env 0 e none v h.1
    have := encElems_length_ge env e vs h.2
    simp only [encElems, List.length_append, List.length_cons]; omega

theorem encPairs_length_ge (env : Env) (k v : Ty) : ∀ (kvs : List (Val × Val)), WTp env k v kvs →
    kvs.length ≤ (encPairs env k v kvs).length
  | [], _ => by simp
  | (a, b) :: kvs, h => by
    simp only [WTp] at h
    have := encVar_req_pos env 0 k none a h.1
    have := encPairs_length_ge env k v kvs h.2.2
    simp only [encPairs, List.length_append, List.length_cons]; omega

end Tars
