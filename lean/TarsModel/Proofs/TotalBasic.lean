import TarsModel.Model.Schema
import TarsModel.Proofs.Wire

/-!
  C05/C06 helper lemmas, part 1: how the primitive reader operations move the read position.

  * the input (`data`) is never changed;
  * the position never moves backwards, except by `unreadHead`, which gives back at most what the
    preceding `readHead` consumed;
  * a successful `readHead`/`readByte`/`bReadU`/`readLen` consumed at least one byte that exists
    (`pos' ≤ data.size`) — this is what makes the unbounded Go recursion terminate.
-/
namespace Tars
open Consts

/-- `r'` is a later state of the same reader: same input, position not smaller -/
def Reader.Le (r r' : Reader) : Prop := r'.data = r.data ∧ r.pos ≤ r'.pos

theorem Reader.Le.refl (r : Reader) : r.Le r := ⟨rfl, Nat.le_refl _⟩
theorem Reader.Le.trans {a b c : Reader} (h1 : a.Le b) (h2 : b.Le c) : a.Le c :=
  ⟨h2.1.trans h1.1, Nat.le_trans h1.2 h2.2⟩

theorem Reader.Le.remaining {r r' : Reader} (h : r.Le r') : r'.remaining ≤ r.remaining := by
  unfold Reader.remaining; rw [h.1]; have := h.2; omega

/-- a successful step that consumed at least one existing byte -/
def Reader.Lt (r r' : Reader) : Prop :=
  r'.data = r.data ∧ r.pos + 1 ≤ r'.pos ∧ r'.pos ≤ r'.data.size

theorem Reader.Lt.le {r r' : Reader} (h : r.Lt r') : r.Le r' := ⟨h.1, by have := h.2.1; omega⟩
theorem Reader.Lt.remaining {r r' : Reader} (h : r.Lt r') : r'.remaining + 1 ≤ r.remaining := by
  unfold Reader.remaining; rw [h.1]; have := h.2.1; have := h.2.2; rw [h.1] at this; omega
theorem Reader.Lt.trans_le {a b c : Reader} (h1 : a.Lt b) (h2 : b.Le c) (h3 : c.pos ≤ c.data.size) :
    a.Lt c := ⟨h2.1.trans h1.1, by have := h1.2.1; have := h2.2; omega, h3⟩
theorem Reader.Le.trans_lt {a b c : Reader} (h1 : a.Le b) (h2 : b.Lt c) : a.Lt c :=
  ⟨h2.1.trans h1.1, by have := h1.2; have := h2.2.1; omega, h2.2.2⟩
theorem Reader.Lt.trans {a b c : Reader} (h1 : a.Lt b) (h2 : b.Lt c) : a.Lt c :=
  h1.le.trans_lt h2

/-! ### readByte / readHead -/

theorem readByte_ok {r r' : Reader} {b : Byte} (h : readByte r = (.ok b, r')) :
    r' = ⟨r.data, r.pos + 1⟩ ∧ r.pos < r.data.size ∧ r.data[r.pos]? = some b := by
  unfold readByte at h
  split at h
  · rename_i b' hb
    simp only [Prod.mk.injEq, Except.ok.injEq] at h
    obtain ⟨rfl, rfl⟩ := h
    refine ⟨rfl, ?_, hb⟩
    by_cases hp : r.pos < r.data.size
    · exact hp
    · rw [Array.getElem?_eq_none (by omega)] at hb; cases hb
  · simp at h

theorem readByte_err {r r' : Reader} {e : Err} (h : readByte r = (.error e, r')) :
    r' = r ∧ e = .eof ∧ r.data.size ≤ r.pos := by
  unfold readByte at h
  split at h
  · simp at h
  · rename_i hb
    simp only [Prod.mk.injEq, Except.error.injEq] at h
    obtain ⟨rfl, rfl⟩ := h
    refine ⟨rfl, rfl, ?_⟩
    by_cases hp : r.pos < r.data.size
    · rw [Array.getElem?_eq_getElem hp] at hb; cases hb
    · omega

theorem readByte_lt {r r' : Reader} {b : Byte} (h : readByte r = (.ok b, r')) : r.Lt r' := by
  obtain ⟨rfl, hlt, _⟩ := readByte_ok h
  exact ⟨rfl, Nat.le_refl _, hlt⟩

theorem readByte_le (r : Reader) : r.Le (readByte r).2 := by
  cases h : readByte r with
  | mk res r' =>
    cases res with
    | error e => rw [(readByte_err h).1]; exact Reader.Le.refl _
    | ok b => exact (readByte_lt h).le

/-- transport a `Le` fact about `(f r).2` along an equation for `f r` -/
theorem res_le_of {α : Type} {r : Reader} {x : Res α} (h : r.Le x.2) {res : Except Err α} {r' : Reader}
    (hx : x = (res, r')) : r.Le r' := by rw [hx] at h; exact h

theorem readByte_eof_of_ge {r : Reader} (h : r.data.size ≤ r.pos) : readByte r = (.error .eof, r) := by
  unfold readByte; rw [Array.getElem?_eq_none (by omega)]

theorem readHead_ok {r r' : Reader} {p : Nat × Nat} (h : readHead r = (.ok p, r')) :
    r.Lt r' ∧ r'.pos ≤ r.pos + 2 := by
  unfold readHead at h
  cases h1 : readByte r with
  | mk res r1 =>
    cases res with
    | error e => simp [h1] at h
    | ok d =>
      obtain ⟨rfl, hlt, _⟩ := readByte_ok h1
      simp only [h1] at h
      split at h
      · cases h2 : readByte ⟨r.data, r.pos + 1⟩ with
        | mk res2 r2 =>
          cases res2 with
          | error e => simp [h2] at h
          | ok d2 =>
            obtain ⟨rfl, hlt2, _⟩ := readByte_ok h2
            simp only [h2, Prod.mk.injEq, Except.ok.injEq] at h
            obtain ⟨_, rfl⟩ := h
            have hlt2' : r.pos + 1 < r.data.size := hlt2
            exact ⟨⟨rfl, by simp, by show r.pos + 1 + 1 ≤ r.data.size; omega⟩, by simp⟩
      · simp only [Prod.mk.injEq, Except.ok.injEq] at h
        obtain ⟨_, rfl⟩ := h
        exact ⟨⟨rfl, by simp, by show r.pos + 1 ≤ r.data.size; omega⟩, by simp⟩

theorem readHead_err {r r' : Reader} {e : Err} (h : readHead r = (.error e, r')) :
    r.Le r' ∧ r'.pos ≤ r.pos + 1 ∧ e = .eof ∧ r'.data.size ≤ r'.pos := by
  unfold readHead at h
  cases h1 : readByte r with
  | mk res r1 =>
    cases res with
    | error e1 =>
      obtain ⟨rfl, rfl, hge⟩ := readByte_err h1
      simp only [h1, Prod.mk.injEq, Except.error.injEq] at h
      obtain ⟨rfl, rfl⟩ := h
      exact ⟨Reader.Le.refl _, by omega, rfl, hge⟩
    | ok d =>
      obtain ⟨rfl, hlt, _⟩ := readByte_ok h1
      simp only [h1] at h
      split at h
      · cases h2 : readByte ⟨r.data, r.pos + 1⟩ with
        | mk res2 r2 =>
          cases res2 with
          | error e2 =>
            obtain ⟨rfl, rfl, hge⟩ := readByte_err h2
            simp only [h2, Prod.mk.injEq, Except.error.injEq] at h
            obtain ⟨rfl, rfl⟩ := h
            exact ⟨⟨rfl, by simp⟩, by simp, rfl, hge⟩
          | ok d2 => simp [h2] at h
      · simp at h

theorem readHead_le (r : Reader) : r.Le (readHead r).2 := by
  cases h : readHead r with
  | mk res r' =>
    cases res with
    | error e => exact (readHead_err h).1
    | ok p => exact (readHead_ok h).1.le

/-! ### unreadByte / unreadHead / seek / skip -/

theorem unreadByte_spec (r : Reader) :
    (unreadByte r).1 = .ok () ∧ (unreadByte r).2.data = r.data ∧
    (unreadByte r).2.pos ≤ r.pos ∧ r.pos ≤ (unreadByte r).2.pos + 1 := by
  unfold unreadByte
  split
  · simp
  · refine ⟨rfl, rfl, ?_, ?_⟩ <;> simp <;> omega

theorem unreadHead_spec (t : Nat) (r : Reader) :
    (unreadHead t r).1 = .ok () ∧ (unreadHead t r).2.data = r.data ∧
    (unreadHead t r).2.pos ≤ r.pos ∧
    r.pos ≤ (unreadHead t r).2.pos + (if t ≥ extTagUnread then 2 else 1) := by
  have e : unreadHead t r = (if t ≥ extTagUnread then unreadByte (unreadByte r).2
      else (.ok (), (unreadByte r).2)) := rfl
  rw [e]
  obtain ⟨a1, a2, a3, a4⟩ := unreadByte_spec r
  obtain ⟨b1, b2, b3, b4⟩ := unreadByte_spec (unreadByte r).2
  split
  · exact ⟨b1, b2.trans a2, by omega, by omega⟩
  · exact ⟨rfl, a2, a3, a4⟩

theorem skip_spec (n : Int) (r : Reader) :
    skip n r = (.ok (), ⟨r.data, r.pos + n.toNat⟩) := by
  unfold skip seekCur
  split
  · rename_i h
    have : n.toNat = 0 := by omega
    simp [this]
  · rfl

theorem skip_le (n : Int) (r : Reader) : r.Le (skip n r).2 := by
  rw [skip_spec]; exact ⟨rfl, by simp⟩

/-! ### readBuf / bReadU / bReadU8 / readLen / next -/

theorem takeFrom_length (a : Array Byte) (i n : Nat) :
    (takeFrom a i n).length = min n (a.size - i) := by
  rw [takeFrom_eq]; simp

theorem readFull_ok {n : Nat} {r r' : Reader} {buf : Bytes} (h : readFull n r = (.ok buf, r')) :
    (n = 0 ∧ buf = [] ∧ r' = r) ∨
    (0 < n ∧ r.pos + n ≤ r.data.size ∧ buf = takeFrom r.data r.pos n ∧ buf.length = n ∧
      r' = ⟨r.data, r.pos + n⟩) := by
  unfold readFull at h
  split at h
  · rename_i h0
    simp only [Prod.mk.injEq, Except.ok.injEq] at h
    exact .inl ⟨h0, h.1.symm, h.2.symm⟩
  · rename_i h0
    split at h
    · simp at h
    · rename_i h1
      simp only [takeFrom_length] at h
      split at h
      · simp at h
      · rename_i h2
        simp only [Prod.mk.injEq, Except.ok.injEq] at h
        have hm : min n (r.data.size - r.pos) = n := by omega
        rw [hm] at h
        refine .inr ⟨by omega, by omega, h.1.symm, ?_, h.2.symm⟩
        rw [← h.1, takeFrom_length]; exact hm

theorem readFull_err {n : Nat} {r r' : Reader} {e : Err} (h : readFull n r = (.error e, r')) :
    e = .eof ∧ r.Le r' ∧ r.remaining < n := by
  unfold readFull at h
  split at h
  · simp at h
  · rename_i h0
    split at h
    · rename_i h1
      simp only [Prod.mk.injEq, Except.error.injEq] at h
      refine ⟨h.1.symm, by rw [← h.2]; exact Reader.Le.refl _, ?_⟩
      unfold Reader.remaining; omega
    · simp only [takeFrom_length] at h
      split at h
      · rename_i h2
        simp only [Prod.mk.injEq, Except.error.injEq] at h
        refine ⟨h.1.symm, by rw [← h.2]; exact ⟨rfl, by simp⟩, ?_⟩
        unfold Reader.remaining; omega
      · simp at h

theorem readFull_le (n : Nat) (r : Reader) : r.Le (readFull n r).2 := by
  cases h : readFull n r with
  | mk res r' =>
    cases res with
    | error e => exact (readFull_err h).2.1
    | ok buf =>
      rcases readFull_ok h with ⟨_, _, rfl⟩ | ⟨_, _, _, _, rfl⟩
      · exact Reader.Le.refl _
      · exact ⟨rfl, by simp⟩

/-- a successful `bReadU n` (`n > 0`) consumed exactly `n` existing bytes and returns their
    big-endian value -/
theorem bReadU_ok {n : Nat} {r r' : Reader} {v : Nat} (hn : 0 < n) (h : bReadU n r = (.ok v, r')) :
    r.pos + n ≤ r.data.size ∧ r' = ⟨r.data, r.pos + n⟩ ∧ v = beVal (takeFrom r.data r.pos n) ∧
    (takeFrom r.data r.pos n).length = n := by
  unfold bReadU at h
  cases h1 : readFull n r with
  | mk res r1 =>
    rw [h1] at h
    cases res with
    | error e => simp at h
    | ok buf =>
      simp only [Prod.mk.injEq, Except.ok.injEq] at h
      rcases readFull_ok h1 with ⟨h0, _, _⟩ | ⟨_, hle, hb, hl, hr⟩
      · omega
      · subst hb
        exact ⟨hle, by rw [← h.2, hr], h.1.symm, hl⟩

theorem bReadU_err {n : Nat} {r r' : Reader} {e : Err} (h : bReadU n r = (.error e, r')) :
    e = .eof ∧ r.Le r' ∧ r.remaining < n := by
  unfold bReadU at h
  cases h1 : readFull n r with
  | mk res r1 =>
    rw [h1] at h
    cases res with
    | error e1 =>
      simp only [Prod.mk.injEq, Except.error.injEq] at h
      obtain ⟨rfl, rfl⟩ := h
      exact readFull_err h1
    | ok buf => simp at h

theorem bReadU_le (n : Nat) (r : Reader) : r.Le (bReadU n r).2 := by
  have := readFull_le n r
  unfold bReadU
  cases h1 : readFull n r with
  | mk res r1 => rw [h1] at this; cases res <;> exact this

/-- for `n > 0` a successful `bReadU` consumed at least one existing byte -/
theorem bReadU_lt {n : Nat} {r r' : Reader} {v : Nat} (hn : 0 < n) (h : bReadU n r = (.ok v, r')) :
    r.Lt r' := by
  obtain ⟨hle, rfl, _⟩ := bReadU_ok hn h
  refine ⟨rfl, ?_, ?_⟩ <;> simp only <;> omega

theorem bReadU8_ok {r r' : Reader} {v : Nat} (h : bReadU8 r = (.ok v, r')) :
    r' = ⟨r.data, r.pos + 1⟩ ∧ r.pos < r.data.size ∧ ∃ b : Byte, r.data[r.pos]? = some b ∧ v = b.val := by
  unfold bReadU8 at h
  cases h1 : readByte r with
  | mk res r1 =>
    cases res with
    | error e => simp [h1] at h
    | ok b =>
      obtain ⟨rfl, hlt, hb⟩ := readByte_ok h1
      simp only [h1, Prod.mk.injEq, Except.ok.injEq] at h
      exact ⟨h.2.symm, hlt, b, hb, h.1.symm⟩

theorem bReadU8_err {r r' : Reader} {e : Err} (h : bReadU8 r = (.error e, r')) :
    r' = r ∧ e = .eof ∧ r.data.size ≤ r.pos := by
  unfold bReadU8 at h
  cases h1 : readByte r with
  | mk res r1 =>
    cases res with
    | error e1 =>
      obtain ⟨rfl, rfl, hge⟩ := readByte_err h1
      simp only [h1, Prod.mk.injEq, Except.error.injEq] at h
      exact ⟨h.2.symm, h.1.symm, hge⟩
    | ok b => simp [h1] at h

theorem bReadU8_lt {r r' : Reader} {v : Nat} (h : bReadU8 r = (.ok v, r')) : r.Lt r' := by
  obtain ⟨rfl, hlt, _⟩ := bReadU8_ok h
  exact ⟨rfl, Nat.le_refl _, hlt⟩

theorem bReadU8_le (r : Reader) : r.Le (bReadU8 r).2 := by
  cases h : bReadU8 r with
  | mk res r' =>
    cases res with
    | error e => rw [(bReadU8_err h).1]; exact Reader.Le.refl _
    | ok v => exact (bReadU8_lt h).le

theorem mapRes_ok {α β : Type} {f : α → β} {x : Res α} {b : β} {r' : Reader}
    (h : mapRes f x = (.ok b, r')) : ∃ a, x = (.ok a, r') ∧ b = f a := by
  obtain ⟨res, r1⟩ := x
  cases res with
  | error e => simp [mapRes] at h
  | ok a =>
    simp only [mapRes, Prod.mk.injEq, Except.ok.injEq] at h
    exact ⟨a, by rw [h.2], h.1.symm⟩

theorem mapRes_err {α β : Type} {f : α → β} {x : Res α} {e : Err} {r' : Reader}
    (h : mapRes f x = (.error e, r')) : x = (.error e, r') := by
  obtain ⟨res, r1⟩ := x
  cases res with
  | error e1 =>
    simp only [mapRes, Prod.mk.injEq, Except.error.injEq] at h
    rw [h.1, h.2]
  | ok a => simp [mapRes] at h

@[simp] theorem mapRes_snd {α β : Type} (f : α → β) (x : Res α) : (mapRes f x).2 = x.2 := by
  obtain ⟨res, r1⟩ := x
  cases res <;> rfl

theorem readLen_ok {r r' : Reader} {v : Int} (h : readLen r = (.ok v, r')) : r.Lt r' := by
  unfold readLen at h
  cases h1 : readHead r with
  | mk res r1 =>
    cases res with
    | error e => simp [h1] at h
    | ok p =>
      obtain ⟨ty, tag⟩ := p
      have hl := (readHead_ok h1).1
      simp only [h1] at h
      split at h
      · simp at h
      · split at h
        · simp only [Prod.mk.injEq, Except.ok.injEq] at h; rw [← h.2]; exact hl
        · split at h
          · cases h2 : bReadU8 r1 with
            | mk res2 r2 =>
              cases res2 with
              | error e => simp [h2] at h
              | ok v2 =>
                simp only [h2, Prod.mk.injEq, Except.ok.injEq] at h
                rw [← h.2]; exact hl.trans (bReadU8_lt h2)
          · split at h
            · cases h2 : bReadU 2 r1 with
              | mk res2 r2 =>
                cases res2 with
                | error e => simp [h2] at h
                | ok v2 =>
                  simp only [h2, Prod.mk.injEq, Except.ok.injEq] at h
                  rw [← h.2]; exact hl.trans (bReadU_lt (by decide) h2)
            · split at h
              · cases h2 : bReadU 4 r1 with
                | mk res2 r2 =>
                  cases res2 with
                  | error e => simp [h2] at h
                  | ok v2 =>
                    simp only [h2, Prod.mk.injEq, Except.ok.injEq] at h
                    rw [← h.2]; exact hl.trans (bReadU_lt (by decide) h2)
              · simp at h

theorem readLen_le (r : Reader) : r.Le (readLen r).2 := by
  unfold readLen
  have hl := readHead_le r
  cases h1 : readHead r with
  | mk res r1 =>
    rw [h1] at hl
    cases res with
    | error e => exact hl
    | ok p =>
      obtain ⟨ty, tag⟩ := p
      simp only
      split
      · exact hl
      · split
        · exact hl
        · split
          · have := bReadU8_le r1
            cases h2 : bReadU8 r1 with
            | mk res2 r2 => rw [h2] at this; cases res2 <;> exact hl.trans this
          · split
            · have := bReadU_le 2 r1
              cases h2 : bReadU 2 r1 with
              | mk res2 r2 => rw [h2] at this; cases res2 <;> exact hl.trans this
            · split
              · have := bReadU_le 4 r1
                cases h2 : bReadU 4 r1 with
                | mk res2 r2 => rw [h2] at this; cases res2 <;> exact hl.trans this
              · exact hl

/-- `readLen` never reports the model artefact `.fuel` nor a panic -/
theorem readLen_err {r r' : Reader} {e : Err} (h : readLen r = (.error e, r')) :
    e = .require ∨ e = .eof ∨ e = .mismatch := by
  unfold readLen at h
  cases h1 : readHead r with
  | mk res r1 =>
    cases res with
    | error e1 => simp only [h1, Prod.mk.injEq, Except.error.injEq] at h; exact .inl h.1.symm
    | ok p =>
      obtain ⟨ty, tag⟩ := p
      simp only [h1] at h
      split at h
      · simp only [Prod.mk.injEq, Except.error.injEq] at h; exact .inl h.1.symm
      · split at h
        · simp at h
        · split at h
          · cases h2 : bReadU8 r1 with
            | mk res2 r2 =>
              cases res2 with
              | error e2 =>
                simp only [h2, Prod.mk.injEq, Except.error.injEq] at h
                rw [← h.1]; exact .inr (.inl (bReadU8_err h2).2.1)
              | ok v2 => simp [h2] at h
          · split at h
            · cases h2 : bReadU 2 r1 with
              | mk res2 r2 =>
                cases res2 with
                | error e2 =>
                  simp only [h2, Prod.mk.injEq, Except.error.injEq] at h
                  rw [← h.1]; exact .inr (.inl (bReadU_err h2).1)
                | ok v2 => simp [h2] at h
            · split at h
              · cases h2 : bReadU 4 r1 with
                | mk res2 r2 =>
                  cases res2 with
                  | error e2 =>
                    simp only [h2, Prod.mk.injEq, Except.error.injEq] at h
                    rw [← h.1]; exact .inr (.inl (bReadU_err h2).1)
                  | ok v2 => simp [h2] at h
              · simp only [Prod.mk.injEq, Except.error.injEq] at h; exact .inr (.inr h.1.symm)

theorem next_spec (n : Int) (r : Reader) :
    next n r = (.ok (takeFrom r.data (min r.pos r.data.size) (min n.toNat (r.data.size - r.pos))),
                ⟨r.data, r.pos + n.toNat⟩) := by
  unfold next
  split
  · rename_i h
    have : n.toNat = 0 := by omega
    simp [this, takeFrom]
  · simp only [Reader.remaining]
    congr 2
    · congr 1
      · omega
      · omega

theorem next_le (n : Int) (r : Reader) : r.Le (next n r).2 := by
  rw [next_spec]; exact ⟨rfl, by simp⟩

/-! ### checkLength -/

theorem checkLength_ok_inv {len : Int} {r r' : Reader} {u : Unit} (h : checkLength len r = (.ok u, r')) :
    r' = r ∧ 0 ≤ len ∧ len.toNat ≤ r.remaining := by
  unfold checkLength at h
  split at h
  · simp at h
  · rename_i hc
    simp only [Prod.mk.injEq] at h
    exact ⟨h.2.symm, by omega, by omega⟩

theorem checkLength_err {len : Int} {r r' : Reader} {e : Err} (h : checkLength len r = (.error e, r')) :
    r' = r ∧ e = .eof ∧ (len < 0 ∨ (r.remaining : Int) < len) := by
  unfold checkLength at h
  split at h
  · rename_i hc
    simp only [Prod.mk.injEq, Except.error.injEq] at h
    exact ⟨h.2.symm, h.1.symm, by omega⟩
  · simp at h

theorem checkLength_snd (len : Int) (r : Reader) : (checkLength len r).2 = r := by
  unfold checkLength; split <;> rfl

theorem checkLength_of_le {len : Int} {r : Reader} (h0 : 0 ≤ len) (h : len.toNat ≤ r.remaining) :
    checkLength len r = (.ok (), r) := by
  unfold checkLength; rw [if_neg (by omega)]

theorem checkLength_of_gt {len : Int} {r : Reader} (h : len < 0 ∨ (r.remaining : Int) < len) :
    checkLength len r = (.error .eof, r) := by
  unfold checkLength; rw [if_pos (by omega)]

end Tars
