import TarsModel.Proofs.TotalSkip

/-!
  C05/C06 helper lemmas, part 3: every scalar `Reader.ReadX` is `SkipToNoCheck` followed by a
  type switch (`readWith`); position and outcome facts for all of them and for `readScalar`.
-/
namespace Tars
open Consts

/-- common shape of every `Reader.ReadX`: `SkipToNoCheck`, then a type switch on the head found -/
def readWith {α : Type} (old : α) (tag : Nat) (req : Bool) (body : Nat → RM α) : RM α := fun r =>
  match skipToNoCheck tag req r with
  | (.error e, r') => (.error e, r')
  | (.ok (false, _), r1) => (.ok old, r1)
  | (.ok (true, ty), r1) => body ty r1

theorem readInt8_eq (old : Int) (tag : Nat) (req : Bool) : readInt8 old tag req = readWith old tag req
    (fun ty r1 => if ty = tyZeroTag then (.ok 0, r1) else if ty = tyBYTE then mapRes (toS 8) (bReadU8 r1)
      else (.error .mismatch, r1)) := rfl
theorem readInt16_eq (old : Int) (tag : Nat) (req : Bool) : readInt16 old tag req = readWith old tag req
    (fun ty r1 => if ty = tyZeroTag then (.ok 0, r1) else if ty = tyBYTE then mapRes (toS 8) (bReadU8 r1)
      else if ty = tySHORT then mapRes (toS 16) (bReadU 2 r1) else (.error .mismatch, r1)) := rfl
theorem readInt32_eq (old : Int) (tag : Nat) (req : Bool) : readInt32 old tag req = readWith old tag req
    (fun ty r1 => if ty = tyZeroTag then (.ok 0, r1) else if ty = tyBYTE then mapRes (toS 8) (bReadU8 r1)
      else if ty = tySHORT then mapRes (toS 16) (bReadU 2 r1)
      else if ty = tyINT then mapRes (toS 32) (bReadU 4 r1) else (.error .mismatch, r1)) := rfl
theorem readInt64_eq (old : Int) (tag : Nat) (req : Bool) : readInt64 old tag req = readWith old tag req
    (fun ty r1 => if ty = tyZeroTag then (.ok 0, r1) else if ty = tyBYTE then mapRes (toS 8) (bReadU8 r1)
      else if ty = tySHORT then mapRes (toS 16) (bReadU 2 r1)
      else if ty = tyINT then mapRes (toS 32) (bReadU 4 r1)
      else if ty = tyLONG then mapRes (toS 64) (bReadU 8 r1) else (.error .mismatch, r1)) := rfl
theorem readFloat32_eq (old : Nat) (tag : Nat) (req : Bool) : readFloat32 old tag req = readWith old tag req
    (fun ty r1 => if ty = tyZeroTag then (.ok 0, r1) else if ty = tyFLOAT then bReadU 4 r1
      else (.error .mismatch, r1)) := rfl
theorem readFloat64_eq (old : Nat) (tag : Nat) (req : Bool) : readFloat64 old tag req = readWith old tag req
    (fun ty r1 => if ty = tyZeroTag then (.ok 0, r1) else if ty = tyFLOAT then mapRes widenF32 (bReadU 4 r1)
      else if ty = tyDOUBLE then bReadU 8 r1 else (.error .mismatch, r1)) := rfl
theorem readString_eq (old : Bytes) (tag : Nat) (req : Bool) : readString old tag req = readWith old tag req
    (fun ty r1 =>
      if ty = tySTRING4 then
        match bReadU 4 r1 with
        | (.error e, r') => (.error e, r')
        | (.ok l, r2) => nextExact l r2
      else if ty = tySTRING1 then
        match bReadU8 r1 with
        | (.error e, r') => (.error e, r')
        | (.ok l, r2) => nextExact l r2
      else (.error .mismatch, r1)) := rfl

/-- position never decreases; a successful *required* read strictly reduces what remains -/
def StepOK {α : Type} (req : Bool) (r : Reader) (x : Res α) : Prop :=
  r.Le x.2 ∧ (req = true → ∀ v, x.1 = .ok v → x.2.remaining + 1 ≤ r.remaining)

theorem readWith_spec {α : Type} (old : α) (tag : Nat) (req : Bool) (body : Nat → RM α) (r : Reader)
    (hbody : ∀ ty r1, r1.Le (body ty r1).2 ∧ PlainRes (body ty r1).1) :
    StepOK req r (readWith old tag req body r) ∧ PlainRes (readWith old tag req body r).1 := by
  unfold readWith
  have hnf := skipToNoCheck_nofuel tag req r
  cases hb : skipToNoCheck tag req r with
  | mk res r1 =>
    obtain ⟨p1, p2, p3⟩ := skipToNoCheck_pos hb
    rw [hb] at hnf
    cases res with
    | error e =>
      simp only
      exact ⟨⟨p1, by simp⟩, by simpa using hnf⟩
    | ok p =>
      obtain ⟨hv, ty⟩ := p
      cases hv with
      | false =>
        have := p3 ty rfl
        simp only
        exact ⟨⟨p1, by intro h; rw [this] at h; cases h⟩, by simp⟩
      | true =>
        have hlt := (p2 ty rfl).remaining
        obtain ⟨b1, b2⟩ := hbody ty r1
        simp only
        refine ⟨⟨p1.trans b1, ?_⟩, b2⟩
        intro _ v _
        have := b1.remaining
        omega

theorem nextExact_le (l : Nat) (r : Reader) : r.Le (nextExact l r).2 := by
  unfold nextExact; rw [next_spec]; simp only
  split <;> exact ⟨rfl, by simp⟩

theorem nextExact_plain (l : Nat) (r : Reader) : PlainRes (nextExact l r).1 := by
  unfold nextExact; rw [next_spec]; simp only
  split <;> simp

theorem bReadU_plain (n : Nat) (r : Reader) : PlainRes (bReadU n r).1 := by
  cases h : bReadU n r with
  | mk res r' =>
    cases res with
    | error e => rw [(bReadU_err h).1]; simp
    | ok v => simp

theorem bReadU8_plain (r : Reader) : PlainRes (bReadU8 r).1 := by
  cases h : bReadU8 r with
  | mk res r' =>
    cases res with
    | error e => rw [(bReadU8_err h).2.1]; simp
    | ok v => simp

theorem mapRes_plain {α β : Type} (f : α → β) (x : Res α) (h : PlainRes x.1) : PlainRes (mapRes f x).1 := by
  obtain ⟨res, r1⟩ := x
  cases res with
  | error e => simpa [mapRes] using h
  | ok a => simp [mapRes]

theorem mapRes_le {α β : Type} (f : α → β) (x : Res α) {r : Reader} (h : r.Le x.2) :
    r.Le (mapRes f x).2 := by rw [mapRes_snd]; exact h

theorem mapRes_stepOK {α β : Type} (f : α → β) (x : Res α) {req : Bool} {r : Reader}
    (h : StepOK req r x) : StepOK req r (mapRes f x) := by
  obtain ⟨res, r1⟩ := x
  cases res with
  | error e => exact ⟨h.1, by simp [mapRes]⟩
  | ok a => exact ⟨h.1, fun hr v _ => h.2 hr a rfl⟩

section bodies
variable (ty : Nat) (r1 : Reader)

local macro "body_tac" : tactic =>
  `(tactic| (
    repeat' split
    all_goals first
      | exact ⟨Reader.Le.refl _, by simp⟩
      | exact ⟨mapRes_le _ _ (bReadU8_le _), mapRes_plain _ _ (bReadU8_plain _)⟩
      | exact ⟨mapRes_le _ _ (bReadU_le _ _), mapRes_plain _ _ (bReadU_plain _ _)⟩
      | exact ⟨bReadU_le _ _, bReadU_plain _ _⟩))

theorem readInt8_spec (old : Int) (tag : Nat) (req : Bool) (r : Reader) :
    StepOK req r (readInt8 old tag req r) ∧ PlainRes (readInt8 old tag req r).1 := by
  rw [readInt8_eq]; apply readWith_spec; intro ty r1; body_tac
theorem readInt16_spec (old : Int) (tag : Nat) (req : Bool) (r : Reader) :
    StepOK req r (readInt16 old tag req r) ∧ PlainRes (readInt16 old tag req r).1 := by
  rw [readInt16_eq]; apply readWith_spec; intro ty r1; body_tac
theorem readInt32_spec (old : Int) (tag : Nat) (req : Bool) (r : Reader) :
    StepOK req r (readInt32 old tag req r) ∧ PlainRes (readInt32 old tag req r).1 := by
  rw [readInt32_eq]; apply readWith_spec; intro ty r1; body_tac
theorem readInt64_spec (old : Int) (tag : Nat) (req : Bool) (r : Reader) :
    StepOK req r (readInt64 old tag req r) ∧ PlainRes (readInt64 old tag req r).1 := by
  rw [readInt64_eq]; apply readWith_spec; intro ty r1; body_tac
theorem readFloat32_spec (old : Nat) (tag : Nat) (req : Bool) (r : Reader) :
    StepOK req r (readFloat32 old tag req r) ∧ PlainRes (readFloat32 old tag req r).1 := by
  rw [readFloat32_eq]; apply readWith_spec; intro ty r1; body_tac
theorem readFloat64_spec (old : Nat) (tag : Nat) (req : Bool) (r : Reader) :
    StepOK req r (readFloat64 old tag req r) ∧ PlainRes (readFloat64 old tag req r).1 := by
  rw [readFloat64_eq]; apply readWith_spec; intro ty r1; body_tac

theorem readString_spec (old : Bytes) (tag : Nat) (req : Bool) (r : Reader) :
    StepOK req r (readString old tag req r) ∧ PlainRes (readString old tag req r).1 := by
  rw [readString_eq]; apply readWith_spec; intro ty r1
  split
  · cases hb : bReadU 4 r1 with
    | mk res r2 =>
      have hl := res_le_of (bReadU_le 4 r1) hb
      have hp := bReadU_plain 4 r1
      rw [hb] at hp
      cases res with
      | error e => simp only; exact ⟨hl, by simpa using hp⟩
      | ok l => simp only; exact ⟨hl.trans (nextExact_le _ _), nextExact_plain _ _⟩
  · split
    · cases hb : bReadU8 r1 with
      | mk res r2 =>
        have hl := res_le_of (bReadU8_le r1) hb
        have hp := bReadU8_plain r1
        rw [hb] at hp
        cases res with
        | error e => simp only; exact ⟨hl, by simpa using hp⟩
        | ok l => simp only; exact ⟨hl.trans (nextExact_le _ _), nextExact_plain _ _⟩
    · exact ⟨Reader.Le.refl _, by simp⟩
end bodies

theorem readUint8_spec (old tag : Nat) (req : Bool) (r : Reader) :
    StepOK req r (readUint8 old tag req r) ∧ PlainRes (readUint8 old tag req r).1 :=
  ⟨mapRes_stepOK _ _ (readInt16_spec _ tag req r).1, mapRes_plain _ _ (readInt16_spec _ tag req r).2⟩
theorem readUint16_spec (old tag : Nat) (req : Bool) (r : Reader) :
    StepOK req r (readUint16 old tag req r) ∧ PlainRes (readUint16 old tag req r).1 :=
  ⟨mapRes_stepOK _ _ (readInt32_spec _ tag req r).1, mapRes_plain _ _ (readInt32_spec _ tag req r).2⟩
theorem readUint32_spec (old tag : Nat) (req : Bool) (r : Reader) :
    StepOK req r (readUint32 old tag req r) ∧ PlainRes (readUint32 old tag req r).1 :=
  ⟨mapRes_stepOK _ _ (readInt64_spec _ tag req r).1, mapRes_plain _ _ (readInt64_spec _ tag req r).2⟩
theorem readBool_spec (old : Bool) (tag : Nat) (req : Bool) (r : Reader) :
    StepOK req r (readBool old tag req r) ∧ PlainRes (readBool old tag req r).1 :=
  ⟨mapRes_stepOK _ _ (readInt8_spec _ tag req r).1, mapRes_plain _ _ (readInt8_spec _ tag req r).2⟩

/-- the target value has the Go type the generated code declares for a scalar member -/
def ScalarShape : Ty → Val → Prop
  | .bool, .bool _ => True
  | .i8, .int _ | .u8, .int _ | .i16, .int _ | .u16, .int _ | .i32, .int _ | .u32, .int _
  | .i64, .int _ | .enum, .int _ => True
  | .f32, .f32 _ => True
  | .f64, .f64 _ => True
  | .str, .str _ => True
  | _, _ => False

/-- the model's marker for a target value whose shape does not fit the schema type -/
def illTyped : Err := .panic "model: ill-typed target"

theorem scalar_case {α : Type} (f : α → Val) (x : Res α) (req : Bool) (r : Reader) (P : Prop)
    (h : StepOK req r x ∧ PlainRes x.1) :
    StepOK req r (mapRes f x) ∧ (P → PlainRes (mapRes f x).1) ∧
    (∀ e, (mapRes f x).1 = .error e → e.isPlain = true ∨ e = illTyped) :=
  ⟨mapRes_stepOK _ _ h.1, fun _ => mapRes_plain _ _ h.2, fun e he => .inl (mapRes_plain _ _ h.2 e he)⟩

/-- the only non-plain outcome of `readScalar` is the model's own "ill-typed target" marker, and
    it does not occur for a target of the right shape -/
theorem readScalar_spec (ty : Ty) (old : Val) (tag : Nat) (req : Bool) (r : Reader) :
    StepOK req r (readScalar ty old tag req r) ∧
    (ScalarShape ty old → PlainRes (readScalar ty old tag req r).1) ∧
    (∀ e, (readScalar ty old tag req r).1 = .error e → e.isPlain = true ∨ e = illTyped) := by
  unfold readScalar
  split
  · exact scalar_case _ _ req r _ (readBool_spec _ tag req r)
  · exact scalar_case _ _ req r _ (readInt8_spec _ tag req r)
  · exact scalar_case _ _ req r _ (readUint8_spec _ tag req r)
  · exact scalar_case _ _ req r _ (readInt16_spec _ tag req r)
  · exact scalar_case _ _ req r _ (readUint16_spec _ tag req r)
  · exact scalar_case _ _ req r _ (readInt32_spec _ tag req r)
  · exact scalar_case _ _ req r _ (readUint32_spec _ tag req r)
  · exact scalar_case _ _ req r _ (readInt64_spec _ tag req r)
  · exact scalar_case _ _ req r _ (readInt32_spec _ tag req r)
  · exact scalar_case _ _ req r _ (readFloat32_spec _ tag req r)
  · exact scalar_case _ _ req r _ (readFloat64_spec _ tag req r)
  · exact scalar_case _ _ req r _ (readString_spec _ tag req r)
  refine ⟨⟨Reader.Le.refl _, by simp⟩, ?_, ?_⟩
  · intro hs
    exfalso
    cases ty <;> cases old <;> simp_all [ScalarShape]
  · intro e he
    simp only [Except.error.injEq] at he
    right; rw [← he]; rfl

end Tars
