/-
  Helper lemmas for C13: with EQUAL static weights the cycle built by `BuildStaticWeightList` is a
  strict rotation — provided the tie-break key (`Endpoint.String()`) is injective on the list, i.e.
  the comparator of `sort.Slice` is a total order on the slots.
-/
import TarsModel.Proofs.WeightBuild
import Mathlib.Data.List.Rotate

namespace Tars.Sel

/-! ### the byte-wise order is a total order -/

theorem lexLe_refl : ∀ a : List Nat, lexLe a a = true
  | [] => rfl
  | a :: as => by simp [lexLe, lexLe_refl as]

theorem lexLe_antisymm : ∀ a b : List Nat, lexLe a b = true → lexLe b a = true → a = b
  | [], [] => fun _ _ => rfl
  | [], _ :: _ => by simp [lexLe]
  | _ :: _, [] => by simp [lexLe]
  | a :: as, b :: bs => by
    have ih := lexLe_antisymm as bs
    simp only [lexLe, Bool.or_eq_true, Bool.and_eq_true, decide_eq_true_eq, beq_iff_eq]
    intro h1 h2
    rcases h1 with h1 | ⟨h1, h1'⟩ <;> rcases h2 with h2 | ⟨h2, h2'⟩
    · omega
    · omega
    · omega
    · rw [h1, ih h1' h2']

theorem lexLt_lexLe {a b : List Nat} (h : lexLt a b = true) : lexLe a b = true := by
  unfold lexLt at h
  have := lexLe_total a b
  simp only [Bool.or_eq_true] at this
  rcases this with t | t
  · exact t
  · simp [t] at h

theorem lexLt_ne {a b : List Nat} (h : lexLt a b = true) : a ≠ b := by
  intro e
  subst e
  simp [lexLt, lexLe_refl] at h

theorem lexLt_of_le_ne {a b : List Nat} (h : lexLe a b = true) (hne : a ≠ b) : lexLt a b = true := by
  unfold lexLt
  cases hb : lexLe b a with
  | false => rfl
  | true => exact absurd (lexLe_antisymm a b h hb) hne

/-- keys strictly descending along the list -/
def KeyDesc (l : List Slot) : Prop := (l.map (·.key)).Pairwise (fun x y => lexLt y x = true)

theorem keyDesc_inj : ∀ {l : List Slot}, KeyDesc l → ∀ {a b : Slot}, a ∈ l → b ∈ l → a.key = b.key → a = b
  | [], _, _, _, ha, _, _ => by simp at ha
  | x :: l, h, a, b, ha, hb, e => by
    unfold KeyDesc at h
    simp only [List.map_cons, List.pairwise_cons, List.mem_map, forall_exists_index, and_imp,
      forall_apply_eq_imp_iff₂] at h
    simp only [List.mem_cons] at ha hb
    rcases ha with ha | ha <;> rcases hb with hb | hb
    · rw [ha, hb]
    · subst ha
      exact absurd e.symm (lexLt_ne (h.1 b hb))
    · subst hb
      exact absurd e (lexLt_ne (h.1 a ha))
    · exact keyDesc_inj (l := l) h.2 ha hb e

/-! ### the sorted order is unique when keys are distinct -/

theorem sortDesc_pairwise (l : List Slot) : (sortDesc l).Pairwise (fun a b => slotLe b a = true) := by
  unfold sortDesc
  rw [List.pairwise_reverse]
  exact List.pairwise_mergeSort slotLe_trans slotLe_total l

/-- `A` (running weight `X`) in front of `B` (running weight `X − t`), keys descending through
`B ++ A`: this is the order `sort.Slice` + reversed traversal produce -/
theorem sortDesc_eq {l A B : List Slot} {X t : Int} (ht : 0 < t) (hp : l.Perm (A ++ B))
    (hA : ∀ a ∈ A, a.cur = X) (hB : ∀ b ∈ B, b.cur = X - t) (hk : KeyDesc (B ++ A)) :
    sortDesc l = A ++ B := by
  have hkd : ((B ++ A).map (·.key)).Pairwise (fun x y => lexLt y x = true) := hk
  rw [List.pairwise_map, List.pairwise_append] at hkd
  obtain ⟨kB, kA, _⟩ := hkd
  apply List.Perm.eq_of_pairwise (le := fun a b => slotLe b a = true) ?_ (sortDesc_pairwise l) ?_
    ((sortDesc_perm l).trans hp)
  · intro a b ha hb h1 h2
    have ha' : a ∈ B ++ A := by
      have := ((sortDesc_perm l).trans hp).mem_iff.1 ha
      simp only [List.mem_append] at this ⊢; tauto
    have hb' : b ∈ B ++ A := by simp only [List.mem_append] at hb ⊢; tauto
    rw [slotLe_iff] at h1 h2
    have hkey : a.key = b.key := by
      rcases h1 with h1 | ⟨_, h1⟩ <;> rcases h2 with h2 | ⟨_, h2⟩
      · omega
      · omega
      · omega
      · exact lexLe_antisymm _ _ h2 h1
    exact keyDesc_inj hk ha' hb' hkey
  · rw [List.pairwise_append]
    refine ⟨?_, ?_, ?_⟩
    · refine kA.imp_of_mem ?_
      intro a b ha hb h
      rw [slotLe_iff]
      exact Or.inr ⟨by rw [hA a ha, hA b hb], lexLt_lexLe h⟩
    · refine kB.imp_of_mem ?_
      intro a b ha hb h
      rw [slotLe_iff]
      exact Or.inr ⟨by rw [hB a ha, hB b hb], lexLt_lexLe h⟩
    · intro a ha b hb
      rw [slotLe_iff]
      exact Or.inl (by rw [hA a ha, hB b hb]; omega)

/-! ### the rotation invariant of the loop -/

/-- what the loop picks in its `j`-th iteration when it serves `σ` in rotation -/
def pickAt (σ : List Nat) (j : Nat) : Nat := (σ[j % σ.length]?).getD 0

/-- after `k` iterations: the slots not yet served in the current lap (`A`, one running weight) are in
front of those already served (`B`, that weight minus `t`); the key order of `B ++ A` — the order of
service `σ` — never changes and `|B| = k mod N`. -/
def RotInv (t c : Int) (σ : List Nat) (k : Nat) (l : List Slot) : Prop :=
  ∃ (X : Int) (A B : List Slot), l.Perm (A ++ B) ∧ A ≠ [] ∧ (∀ a ∈ A, a.cur = X ∧ a.w = c) ∧
    (∀ b ∈ B, b.cur = X - t ∧ b.w = c) ∧ KeyDesc (B ++ A) ∧ (B ++ A).map (·.idx) = σ ∧
    B.length = k % σ.length

theorem map_key_bump (l : List Slot) : (l.map bump).map (·.key) = l.map (·.key) := by
  induction l with
  | nil => rfl
  | cons s l ih => simp [bump]

theorem succ_mod_of_lt {k n : Nat} (h : k % n + 1 < n) : (k + 1) % n = k % n + 1 := by
  rw [Nat.add_mod, Nat.mod_eq_of_lt (by omega : 1 < n), Nat.mod_eq_of_lt h]

theorem succ_mod_of_eq {k n : Nat} (h : k % n + 1 = n) : (k + 1) % n = 0 := by
  rw [Nat.add_mod]
  by_cases h1 : n = 1
  · subst h1; exact Nat.mod_one _
  · rw [Nat.mod_eq_of_lt (by omega : 1 < n), h, Nat.mod_self]

theorem RotInv.step {t c : Int} {σ : List Nat} {k : Nat} {l : List Slot} (ht : 0 < t)
    (inv : RotInv t c σ k l) :
    ∃ p rest, sortDesc l = p :: rest ∧ p.idx = pickAt σ k ∧ RotInv t c σ (k + 1) (roundStep t p rest) := by
  obtain ⟨X, A, B, hp, hne, hA, hB, hk, hσ, hlen⟩ := inv
  cases A with
  | nil => exact absurd rfl hne
  | cons p A' =>
  have hsort : sortDesc l = p :: (A' ++ B) :=
    sortDesc_eq ht hp (fun a ha => (hA a ha).1) (fun b hb => (hB b hb).1) hk
  have hN : σ.length = B.length + (A'.length + 1) := by
    rw [← hσ]; simp
  have hpick : p.idx = pickAt σ k := by
    unfold pickAt
    rw [← hlen, ← hσ, List.map_append, List.getElem?_append_right (by simp)]
    simp
  refine ⟨p, A' ++ B, hsort, hpick, ?_⟩
  have hpc := hA p (by simp)
  have hkeys : ∀ (L : List Slot), (L.map bump).map (·.key) = L.map (·.key) := map_key_bump
  have hidxs : ∀ (L : List Slot), (L.map bump).map (·.idx) = L.map (·.idx) := map_idx_bump
  -- the slot that was served, after the iteration
  let p' : Slot := { p with cur := p.cur - t + p.w }
  have hstep : roundStep t p (A' ++ B) = p' :: (A'.map bump ++ B.map bump) := by
    simp [roundStep, p']
  cases hA' : A' with
  | nil =>
    -- the lap is complete: everybody has the same running weight again
    subst hA'
    refine ⟨X - t + c, B.map bump ++ [p'], [], ?_, by simp, ?_, by simp, ?_, ?_, ?_⟩
    · rw [hstep]
      simp only [List.map_nil, List.nil_append, List.append_nil]
      exact (List.perm_append_comm (l₁ := [p']) (l₂ := B.map bump))
    · intro a ha
      simp only [List.mem_append, List.mem_map, List.mem_singleton] at ha
      rcases ha with ⟨b, hb, rfl⟩ | rfl
      · have := hB b hb
        simp only [bump]
        exact ⟨by rw [this.1, this.2], this.2⟩
      · simp only [p']
        exact ⟨by rw [hpc.1, hpc.2], hpc.2⟩
    · unfold KeyDesc at hk ⊢
      simpa [hkeys, p'] using hk
    · rw [← hσ]
      simp [hidxs, p']
    · simp only [List.length_nil]
      have : k % σ.length + 1 = σ.length := by rw [← hlen, hN]; simp
      exact (succ_mod_of_eq this).symm
  | cons q A'' =>
    subst hA'
    refine ⟨X + c, (q :: A'').map bump, B.map bump ++ [p'], ?_, by simp, ?_, ?_, ?_, ?_, ?_⟩
    · rw [hstep]
      have : (q :: A'').map bump ++ (B.map bump ++ [p']) = ((q :: A'').map bump ++ B.map bump) ++ [p'] := by
        simp
      rw [this]
      exact (List.perm_append_comm (l₁ := [p']) (l₂ := (q :: A'').map bump ++ B.map bump))
    · intro a ha
      obtain ⟨b, hb, rfl⟩ := List.mem_map.1 ha
      have := hA b (by simp only [List.mem_cons] at hb ⊢; exact Or.inr hb)
      simp only [bump]
      exact ⟨by rw [this.1, this.2], this.2⟩
    · intro a ha
      simp only [List.mem_append, List.mem_map, List.mem_singleton] at ha
      rcases ha with ⟨b, hb, rfl⟩ | rfl
      · have := hB b hb
        simp only [bump]
        exact ⟨by rw [this.1, this.2]; omega, this.2⟩
      · simp only [p']
        exact ⟨by rw [hpc.1, hpc.2]; omega, hpc.2⟩
    · unfold KeyDesc at hk ⊢
      simpa [hkeys, p', bump] using hk
    · rw [← hσ]
      simp [hidxs, p', bump]
    · have h1 : k % σ.length + 1 < σ.length := by rw [← hlen, hN]; simp
      rw [succ_mod_of_lt h1, ← hlen]
      simp

/-- `n` more iterations from a state satisfying the invariant serve `σ` in rotation -/
theorem RotInv.run {t c : Int} {σ : List Nat} (ht : 0 < t) :
    ∀ (n k : Nat) (l : List Slot) (acc : List Nat), RotInv t c σ k l →
      acc = ((List.range k).map (pickAt σ)).reverse →
      rounds t n l acc = ((List.range (k + n)).map (pickAt σ)).reverse
  | 0, k, l, acc, _, hacc => by simp [rounds, hacc]
  | n + 1, k, l, acc, inv, hacc => by
    obtain ⟨p, rest, hsort, hpick, inv'⟩ := inv.step ht
    rw [rounds_succ_cons t n l acc p rest hsort]
    have := RotInv.run ht n (k + 1) _ (p.idx :: acc) inv' (by
      rw [List.range_succ, List.map_append, List.reverse_append, hacc, hpick]; rfl)
    rw [this]
    congr 3
    omega

/-! ### slots of a list in which every scaled weight is positive -/

def slotsOf (r mx : Int) : List Ep → Nat → List Slot
  | [], _ => []
  | e :: es, b => ⟨scaled r mx e.weight, b, scaled r mx e.weight, e.str⟩ :: slotsOf r mx es (b + 1)

theorem split_all_pos (r mx : Int) : ∀ (es : List Ep) (b : Nat), (∀ e ∈ es, 0 < scaled r mx e.weight) →
    split r mx es b = ([], slotsOf r mx es b)
  | [], _, _ => rfl
  | e :: es, b, h => by
    have ih := split_all_pos r mx es (b + 1) (fun x hx => h x (by simp [hx]))
    have he := h e (by simp)
    simp [split, ih, Consts.selScaledWeightBound, he, slotsOf]

theorem slotsOf_idx (r mx : Int) : ∀ (es : List Ep) (b : Nat),
    (slotsOf r mx es b).map (·.idx) = List.range' b es.length
  | [], _ => rfl
  | e :: es, b => by simp [slotsOf, slotsOf_idx r mx es (b + 1), List.range'_succ]

theorem slotsOf_key (r mx : Int) : ∀ (es : List Ep) (b : Nat),
    (slotsOf r mx es b).map (·.key) = es.map Ep.str
  | [], _ => rfl
  | e :: es, b => by simp [slotsOf, slotsOf_key r mx es (b + 1)]

theorem slotsOf_mem (r mx : Int) : ∀ (es : List Ep) (b : Nat), ∀ s ∈ slotsOf r mx es b,
    ∃ e ∈ es, s.cur = scaled r mx e.weight ∧ s.w = scaled r mx e.weight
  | [], _ => by simp [slotsOf]
  | e :: es, b => by
    intro s hs
    simp only [slotsOf, List.mem_cons] at hs
    rcases hs with rfl | hs
    · exact ⟨e, by simp, rfl, rfl⟩
    · obtain ⟨x, hx, h⟩ := slotsOf_mem r mx es (b + 1) s hs
      exact ⟨x, by simp [hx], h⟩

theorem sumW_const {l : List Slot} {c : Int} (h : ∀ s ∈ l, s.w = c) : sumW l = c * l.length := by
  induction l with
  | nil => simp [sumW]
  | cons a l ih =>
    have h1 := h a (by simp)
    have h2 := ih (fun s hs => h s (by simp [hs]))
    simp only [sumW, List.length_cons, h1, h2]
    push_cast
    ring

/-- **Equal static weights: the cycle is a strict rotation.**  All weights equal `W > 0`, the
`String()`s pairwise different: `BuildStaticWeightList` returns the list `k ↦ σ[k mod N]`, `k < 10·N`,
for a permutation `σ` of the indices (the order of descending `String()`). -/
theorem build_equal (v : Variant) {eps : List Ep} {W : Int} (hne : eps ≠ []) (hst : AllStatic eps)
    (hW : ∀ e ∈ eps, e.weight = W) (hpos : 0 < W) (h32 : W ≤ maxInt32)
    (hkeys : (eps.map Ep.str).Nodup) :
    ∃ cap σ, buildStaticWeightList v eps
        = .ok cap ((List.range (10 * eps.length)).map (pickAt σ)) ∧
      σ.Perm (List.range eps.length) := by
  obtain ⟨e0, he0⟩ := List.exists_mem_of_ne_nil eps hne
  have hM : IsMaxWeight eps W := ⟨fun e he => by rw [hW e he], e0, he0, hW e0 he0⟩
  have hm : IsMinWeight eps W := ⟨fun e he => by rw [hW e he], e0, he0, hW e0 he0⟩
  have hscan := scan_spec hst hM hm (by simp only [minInt32]; omega) h32
  have hR : specRange W W = 10 := by
    unfold specRange
    rw [Int.ediv_self (by omega)]
    decide
  have hrange : rangeOf W W = (10, 0) := by rw [rangeOf_pos hpos (by omega), hR]
  have hsc : ∀ e ∈ eps, scaled 10 W e.weight = 10 := by
    intro e he
    rw [hW e he, scaled_pos_eq (by omega) (by omega), Int.mul_ediv_cancel_left _ (by omega)]
  have hsp := split_all_pos 10 W eps 0 (fun e he => by rw [hsc e he]; omega)
  have hsum := sumWeights_nonneg eps (fun e he => by rw [hW e he]; exact hpos)
  set slots := slotsOf 10 W eps 0 with hslots
  have hslot : ∀ s ∈ slots, s.cur = 10 ∧ s.w = 10 := by
    intro s hs
    obtain ⟨e, he, h1, h2⟩ := slotsOf_mem 10 W eps 0 s hs
    rw [hsc e he] at h1 h2
    exact ⟨h1, h2⟩
  have hslen : slots.length = eps.length := by
    have := congrArg List.length (slotsOf_idx 10 W eps 0)
    simpa using this
  have hT : sumW slots = 10 * (eps.length : Int) := by
    rw [sumW_const (fun s hs => (hslot s hs).2), hslen]
  have hTpos : 0 < sumW slots := by
    rw [hT]
    have : 0 < eps.length := List.length_pos_iff.2 hne
    omega
  have hTn : (sumW slots).toNat = 10 * eps.length := by rw [hT]; omega
  -- initial invariant: nobody served yet, the slots in descending key order
  let A0 := sortDesc slots
  have hA0p : A0.Perm slots := sortDesc_perm slots
  have hkd : KeyDesc A0 := by
    unfold KeyDesc
    have hnd : (A0.map (·.key)).Nodup := by
      rw [(hA0p.map (·.key)).nodup_iff, hslots, slotsOf_key]
      exact hkeys
    rw [List.pairwise_map]
    have h1 := sortDesc_pairwise slots
    have h2 : A0.Pairwise (fun a b => a.key ≠ b.key) := by
      rw [List.Nodup, List.pairwise_map] at hnd
      exact hnd
    refine (h1.and h2).imp_of_mem ?_
    intro a b ha hb h
    have hle : slotLe b a = true := h.1
    rw [slotLe_iff] at hle
    have hca := (hslot a (hA0p.mem_iff.1 ha)).1
    have hcb := (hslot b (hA0p.mem_iff.1 hb)).1
    rcases hle with hle | ⟨_, hle⟩
    · omega
    · exact lexLt_of_le_ne hle (fun e => h.2 e.symm)
  have hA0ne : A0 ≠ [] := by
    intro e
    have := hA0p.length_eq
    rw [e, hslen] at this
    have : 0 < eps.length := List.length_pos_iff.2 hne
    simp at *
    omega
  have inv0 : RotInv (sumW slots) 10 (A0.map (·.idx)) 0 slots :=
    ⟨10, A0, [], by simpa using hA0p.symm, hA0ne,
      fun a ha => hslot a (hA0p.mem_iff.1 ha), by simp, by simpa using hkd, by simp, by simp⟩
  have hrun := RotInv.run hTpos (sumW slots).toNat 0 slots [] inv0 (by simp)
  refine ⟨capOf v eps.length 10 (sumWeights eps), A0.map (·.idx), ?_, ?_⟩
  · rw [build_of_scan hscan, hrange]
    have hguard : ¬ (v = Variant.repaired ∧ W ≤ 0) := by omega
    have hdiv : ¬ (eps ≠ [] ∧ W = 0) := by omega
    have hcap : ¬ (capOf v eps.length 10 (sumWeights eps) < 0) := by
      cases v <;> simp only [capOf] <;> omega
    simp only [hguard, ↓reduceIte, hcap, hdiv, hsp, Int.zero_add, List.nil_append]
    rw [hrun, List.reverse_reverse, hTn, Nat.zero_add]
  · have := hA0p.map (·.idx)
    rw [hslots, slotsOf_idx] at this
    simpa [List.range_eq_range'] using this

/-- a window of `N` consecutive entries of `k ↦ σ[k mod N]` is a rotation of `σ` -/
theorem window_pickAt (σ : List Nat) (hN : 0 < σ.length) (a : Nat) :
    (List.range σ.length).map (fun j => pickAt σ (a + j)) = σ.rotate a := by
  apply List.ext_getElem
  · simp
  · intro j h1 h2
    simp only [List.length_map, List.length_range] at h1
    simp only [List.getElem_map, List.getElem_range, List.getElem_rotate, pickAt]
    have : (a + j) % σ.length < σ.length := Nat.mod_lt _ hN
    rw [List.getElem?_eq_getElem this, Option.getD_some]
    congr 1
    rw [Nat.add_comm]

end Tars.Sel
