/-
  Helper lemmas for C09: the timing invariant of the timed call-path LTS `Tars.Call.tstep`, and the
  fact that every timed run is a run of the untimed LTS (so the invariants of `Proofs/RouteInv.lean`
  hold along it).
-/
import TarsModel.Model.Call
import TarsModel.Proofs.RouteInv

set_option linter.unusedVariables false

namespace Tars.Call
open Tars.Route

/-- where the clock can be, relative to the call's time stamps, at each program point -/
def B (cfg : Cfg) (now : Nat) (c : Call) (t : Times) : Prop :=
  match c.pc with
  | .idle => True
  | .genCas | .genAdd | .pre | .select | .gate | .incQ | .store => now = t.start
  | .lock => True
  | .dial => now ≤ t.lockAt + cfg.dialTimeout
  | .enq => t.enqAt ≤ t.lockAt + cfg.dialTimeout ∧ (t.blocked = false → now = t.enqAt) ∧
      (t.blocked = true → 0 < cfg.writeTimeout → now ≤ t.enqAt + cfg.writeTimeout)
  | .wait | .decQ _ | .del _ | .post _ => (t.blocked = true → 0 < cfg.writeTimeout) → now ≤ budget cfg t
  | .done _ => (t.blocked = true → 0 < cfg.writeTimeout) → t.ret ≤ budget cfg t

/-- one step of the caller goroutine keeps `B` (the clock does not move) -/
theorem callStep_B {cfg : Cfg} {s s' : State} {i : Nat} {c : Call} {t : Times} {now : Nat} {a : CallAct}
    (hc : s.calls[i]? = some c) (hB : B cfg now c t) (h : callStep cfg s i c a = some s') :
    ∃ c', s'.calls = s.calls.set i c' ∧ B cfg now c' (stampCall cfg s now c t a) := by
  cases a <;> simp only [callStep] at h
  case add =>
    split at h <;> try contradiction
    rename_i hpc
    split at h
    · injection h with h; subst h
      exact ⟨_, rfl, by simp_all [B, stampCall]⟩
    · injection h with h; subst h
      refine ⟨c, ?_, by simp_all [B, stampCall]⟩
      exact (set_self hc).symm
  all_goals (
    repeat' (split at h)
    all_goals (try contradiction)
    all_goals (
      injection h with h; subst h
      refine ⟨_, rfl, ?_⟩
      simp_all [B, stampCall, budget]
      all_goals (first
        | omega
        | exact hB
        | (by_cases hb : t.blocked = true
           · simp only [hb, ↓reduceIte, forall_const] at *; omega
           · have hb' : t.blocked = false := by simpa using hb
             simp [hb'] at *; omega))))

/-- a tick keeps `B` for a call that may wait -/
theorem tick_B {cfg : Cfg} {b : State} {now : Nat} {c : Call} {t : Times}
    (hB : B cfg now c t) (hok : tickOk cfg b now c t = true) :
    B cfg (now + 1) c (if c.pc = .enq then { t with blocked := true } else t) := by
  unfold B tickOk at *
  split at hok <;> simp_all [budget] <;> omega

/-- how the untimed step changes the call records -/
theorem step_calls {cfg : Cfg} {s s' : State} {a : Action} (h : step cfg s a = some s') :
    match a with
    | .spawn par => s'.calls = s.calls ++ [⟨par, .idle, 0, 0, 0⟩]
    | .call _ _ => True
    | .deliver _ => ∃ (i : Nat) (c : Call) (p : Pkt), s.calls[i]? = some c ∧ c.pc = .wait ∧
        s'.calls = s.calls.set i { c with pc := .decQ (.reply p) }
    | _ => s'.calls = s.calls := by
  cases a with
  | call i ca => trivial
  | spawn par => simp only [step] at h; injection h with h; subst h; rfl
  | deliver r =>
    simp only [step] at h
    split at h
    · next x hx =>
      split at h
      · next i hpc =>
        split at h
        · next c hc =>
          split at h
          · next hw =>
            injection h with h; subst h
            exact ⟨i, c, x.pkt, hc, hw, rfl⟩
          all_goals contradiction
        · contradiction
      all_goals contradiction
    · contradiction
  | _ =>
    simp only [step] at h
    repeat' (split at h)
    all_goals (try contradiction)
    all_goals (injection h with h; subst h; rfl)

structure TInv (cfg : Cfg) (ts : TState) : Prop where
  len : ts.times.length = ts.base.calls.length
  b : ∀ (i : Nat) (c : Call) (t : Times), ts.base.calls[i]? = some c → ts.times[i]? = some t → B cfg ts.now c t

theorem tinv_init (cfg : Cfg) (ctr : Int) : TInv cfg (tinit cfg ctr) := by
  constructor <;> simp [tinit, init]

theorem tinv_step {cfg : Cfg} {ts ts' : TState} {a : TAction} (hI : TInv cfg ts) (h : tstep cfg ts a = some ts') :
    TInv cfg ts' := by
  cases a with
  | tick =>
    simp only [tstep] at h
    split at h
    · next hct =>
      injection h with h; subst h
      constructor
      · simp [stampTick, List.length_zipWith, hI.len]
      · intro i c t hc ht
        simp only [stampTick, List.getElem?_zipWith] at ht
        split at ht
        · next c0 t0 hc0 ht0 =>
          injection ht with ht; subst ht
          simp only at hc
          rw [hc0] at hc; injection hc with hc; subst hc
          have hok : tickOk cfg ts.base ts.now c0 t0 = true := by
            have := List.all_eq_true.mp hct (c0, t0)
              (List.mem_of_getElem? (List.getElem?_zip_eq_some.mpr ⟨hc0, ht0⟩))
            exact this
          exact tick_B (hI.b i c0 t0 hc0 ht0) hok
        · contradiction
    · contradiction
  | act a =>
    simp only [tstep] at h
    split at h
    · split at h
      · next hto b' hb =>
        injection h with h; subst h
        have hcalls := step_calls hb
        cases a with
        | spawn par =>
          simp only at hcalls
          constructor
          · simp [stamp, hcalls, hI.len]
          · intro i c t hc ht
            simp only [hcalls] at hc
            simp only [stamp] at ht
            rcases getElem?_append_one_cases hc with ⟨_, rfl⟩ | ⟨_, hc'⟩
            · simp [B]
            · rcases getElem?_append_one_cases ht with ⟨hi, _⟩ | ⟨_, ht'⟩
              · have := lt_of_getElem? hc'; rw [hI.len] at hi; omega
              · exact hI.b i c t hc' ht'
        | call i ca =>
          simp only [step] at hb
          split at hb
          · next c hc =>
            have hlt := lt_of_getElem? hc
            have hlt' : i < ts.times.length := by rw [hI.len]; exact hlt
            obtain ⟨t, ht⟩ : ∃ t, ts.times[i]? = some t := ⟨ts.times[i], by simp [hlt']⟩
            obtain ⟨c', hcs, hB'⟩ := callStep_B (now := ts.now) hc (hI.b i c t hc ht) hb
            constructor
            · simp [stamp, hc, ht, hcs, hI.len]
            · intro j cj tj hcj htj
              simp only [stamp, hc, ht] at htj
              simp only [hcs] at hcj
              rcases getElem?_set_cases hcj with ⟨rfl, rfl⟩ | ⟨hji, hcj'⟩
              · rcases getElem?_set_cases htj with ⟨_, rfl⟩ | ⟨hne, _⟩
                · exact hB'
                · exact absurd rfl hne
              · rcases getElem?_set_cases htj with ⟨hji', _⟩ | ⟨_, htj'⟩
                · exact absurd hji' hji
                · exact hI.b j cj tj hcj' htj'
          · contradiction
        | deliver r =>
          simp only at hcalls
          obtain ⟨i, c, p, hc, hw, hcs⟩ := hcalls
          constructor
          · simp [stamp, hcs, hI.len]
          · intro j cj tj hcj htj
            simp only [stamp] at htj
            simp only [hcs] at hcj
            rcases getElem?_set_cases hcj with ⟨rfl, rfl⟩ | ⟨_, hcj'⟩
            · have := hI.b j c tj hc htj
              simp only [B, hw] at this
              simp only [B]
              exact this
            · exact hI.b j cj tj hcj' htj
        | emit _ _ | garbage _ | lookup _ | giveUp _ | drain _ | connClose _ | kaCas | kaAdd | kaTake _ | kaRelease _ =>
          simp only at hcalls
          constructor
          · simp [stamp, hcalls, hI.len]
          · intro j cj tj hcj htj
            simp only [stamp] at htj
            simp only [hcalls] at hcj
            exact hI.b j cj tj hcj htj
      · contradiction
    · contradiction

theorem tinv_reachable {cfg : Cfg} {ctr : Int} {ts : TState} (h : TReachable cfg ctr ts) : TInv cfg ts := by
  induction h with
  | init => exact tinv_init cfg ctr
  | step a _ hs ih => exact tinv_step ih hs

/-- every timed run is a run of the untimed LTS: all invariants of `Route` hold along it -/
theorem base_reachable {cfg : Cfg} {ctr : Int} {ts : TState} (h : TReachable cfg ctr ts) :
    Reachable cfg ctr ts.base := by
  induction h with
  | init => exact Reachable.init
  | step a _ hs ih =>
    cases a with
    | tick =>
      simp only [tstep] at hs
      split at hs
      · injection hs with hs; subst hs; exact ih
      · contradiction
    | act a =>
      simp only [tstep] at hs
      split at hs
      · split at hs
        · next b' hb => injection hs with hs; subst hs; exact Reachable.step a ih hb
        · contradiction
      · contradiction

theorem tstep_call_some {cfg : Cfg} {ts : TState} {i : Nat} {c : Call} {a : CallAct}
    (hc : ts.base.calls[i]? = some c) (hto : timeOk ts (.call i a) = true)
    (h : (callStep cfg ts.base i c a).isSome = true) : ∃ ts', tstep cfg ts (.act (.call i a)) = some ts' := by
  obtain ⟨b', hb⟩ := Option.isSome_iff_exists.mp h
  simp [tstep, hto, step, hc, hb]

/-- no time-lock: when the clock may not advance, some caller goroutine can take a step -/
theorem no_timelock {cfg : Cfg} {ctr : Int} {ts : TState} (hr : TReachable cfg ctr ts)
    (hct : canTick cfg ts = false) : ∃ i a ts', tstep cfg ts (.act (.call i a)) = some ts' := by
  have hInv := inv_reachable (base_reachable hr)
  have hT := tinv_reachable hr
  -- a call that forbids the tick
  have : ∃ ct, ct ∈ List.zip ts.base.calls ts.times ∧ tickOk cfg ts.base ts.now ct.1 ct.2 = false := by
    unfold canTick at hct
    rw [List.all_eq_false] at hct
    obtain ⟨ct, hm, hf⟩ := hct
    exact ⟨ct, hm, by simpa using hf⟩
  obtain ⟨⟨c, t⟩, hm, hf⟩ := this
  obtain ⟨i, hi⟩ := List.mem_iff_getElem?.mp hm
  obtain ⟨hc, ht⟩ := List.getElem?_zip_eq_some.mp hi
  simp only at hc ht hf
  have hconn : c.pc.needsAdp = true → ∃ k, ts.base.conns[c.adp]? = some k := by
    intro hn
    have := hInv.adpv i c hc hn
    exact ⟨ts.base.conns[c.adp], by simp [this]⟩
  refine ⟨i, ?_⟩
  unfold tickOk at hf
  split at hf
  · contradiction
  · contradiction
  · -- lock
    next hpc =>
    obtain ⟨k, hk⟩ := hconn (by simp [hpc, Pc.needsAdp])
    have hl : k.locked = false := by simpa [connLocked, hk] using hf
    by_cases hcl : k.closed = true
    · exact ⟨.lockAcq, tstep_call_some hc rfl (by simp [callStep, hpc, hk, hl, hcl])⟩
    · exact ⟨.lockAcq, tstep_call_some hc rfl (by simp [callStep, hpc, hk, hl, hcl])⟩
  · -- dial
    next hpc =>
    obtain ⟨k, hk⟩ := hconn (by simp [hpc, Pc.needsAdp])
    exact ⟨.dialOk, tstep_call_some hc rfl (by simp [callStep, hpc, hk])⟩
  · -- enq
    next hpc =>
    obtain ⟨k, hk⟩ := hconn (by simp [hpc, Pc.needsAdp])
    by_cases hq : k.sendQ.length < cfg.queueCap
    · exact ⟨.enqueue, tstep_call_some hc rfl (by simp [callStep, hpc, hk, hq])⟩
    · have hfull : queueFull cfg ts.base c.adp = true := by simp [queueFull, hk]; omega
      have hwt : 0 < cfg.writeTimeout := by
        simp [hfull] at hf
        omega
      exact ⟨.writeTimeout, tstep_call_some hc rfl (by simp [callStep, hpc, hwt])⟩
  · -- wait
    next hpc =>
    have hd : t.deadline ≤ ts.now := by simpa using hf
    exact ⟨.timeout, tstep_call_some hc (by simp [timeOk, ht, hd]) (by simp [callStep, hpc])⟩
  · -- every other program point is a non-blocking step
    next h1 h2 h3 h4 h5 h6 =>
    cases hpc : c.pc with
    | idle => exact absurd hpc h1
    | done o => exact absurd hpc (h2 o)
    | lock => exact absurd hpc h3
    | dial => exact absurd hpc h4
    | enq => exact absurd hpc h5
    | wait => exact absurd hpc h6
    | genCas => exact ⟨.cas, tstep_call_some hc rfl (by simp [callStep, hpc])⟩
    | genAdd =>
      by_cases hiss : issues (addStep ts.base.gen.ctr) = true
      · exact ⟨.add, tstep_call_some hc rfl (by simp [callStep, hpc, hiss])⟩
      · exact ⟨.add, tstep_call_some hc rfl (by simp [callStep, hpc, hiss])⟩
    | pre => exact ⟨.pre, tstep_call_some hc rfl (by simp [callStep, hpc])⟩
    | select => exact ⟨.selectAdp none, tstep_call_some hc rfl (by simp [callStep, hpc])⟩
    | gate =>
      by_cases hg : qGet ts.base.queueLens c.par.proxy > cfg.objQueueMax
      · exact ⟨.gate, tstep_call_some hc rfl (by simp [callStep, hpc, hg])⟩
      · exact ⟨.gate, tstep_call_some hc rfl (by simp [callStep, hpc, hg])⟩
    | incQ => exact ⟨.incQ, tstep_call_some hc rfl (by simp [callStep, hpc])⟩
    | store => exact ⟨.store, tstep_call_some hc rfl (by simp [callStep, hpc])⟩
    | decQ o => exact ⟨.decQ, tstep_call_some hc rfl (by simp [callStep, hpc])⟩
    | del o => exact ⟨.del, tstep_call_some hc rfl (by simp [callStep, hpc])⟩
    | post o => exact ⟨.post, tstep_call_some hc rfl (by simp [callStep, hpc])⟩

end Tars.Call
