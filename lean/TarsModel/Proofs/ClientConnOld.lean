import TarsModel.Proofs.ClientConn

/-! Helper lemmas for C11: facts that hold for both variants on every schedule — a write to a
connection the client already knew to be closed when the call was issued can only come from the
sender of an OLD connection (one that has been replaced by a `ReConnect`). -/
namespace Tars.ClientConn

def Later (s : State) (m : Msg) : Prop :=
  m ∈ s.sendQ ∨ s.failQ = some m ∨ (∃ pc, pc ≠ CallPc.begun ∧ (m, pc) ∈ s.calls) ∨
    ∃ (k : Nat) (c : Conn), s.conns[k]? = some c ∧ c.spc.hand = some m

structure Inv0 (s : State) : Prop where
  knownOld : ∀ (k : Nat) (c : Conn), s.conns[k]? = some c → c.known = true →
    s.isClosed = true ∨ k + 1 < s.conns.length
  begunKnown : ∀ m, (m, CallPc.begun) ∈ s.calls → ∀ j ∈ m.dead, knownAt s j = true
  laterOld : ∀ m, Later s m → ∀ j ∈ m.dead, j + 1 < s.conns.length
  attemptsOld : ∀ m k, (m, k) ∈ s.attempts → ∀ j ∈ m.dead, j + 1 < s.conns.length
  locked : s.unlockedDial = false

macro "inv0_case" h:ident : tactic => `(tactic|
  (simp only [step] at $h:ident
   repeat' (split at $h:ident)
   all_goals first
     | (cases $h:ident; done)
     | (cases $h:ident
        constructor
        all_goals simp only [setConn, closeConn, knownAt, Later, List.getElem?_set, List.length_set, isCur, afterDequeue]
        all_goals grind [Inv0, Later, knownAt, SPc.hand, isCur, afterDequeue])))

theorem inv0_mark {v cap s s' p k} (hi : Inv0 s) (h : step v cap s (.mark p k) = some s') : Inv0 s' := by
  cases v <;> inv0_case h

theorem inv0_pClose {v cap s s' k} (hi : Inv0 s) (h : step v cap s (.pClose k) = some s') : Inv0 s' := by
  cases v <;> inv0_case h

theorem inv0_rEof {v cap s s' k} (hi : Inv0 s) (h : step v cap s (.rEof k) = some s') : Inv0 s' := by
  cases v <;> inv0_case h

theorem inv0_rErr {v cap s s' k} (hi : Inv0 s) (h : step v cap s (.rErr k) = some s') : Inv0 s' := by
  cases v <;> inv0_case h

theorem inv0_pReset {v cap s s' k} (hi : Inv0 s) (h : step v cap s (.pReset k) = some s') : Inv0 s' := by
  cases v <;> inv0_case h

theorem inv0_rClose {v cap s s' k} (hi : Inv0 s) (h : step v cap s (.rClose k) = some s') : Inv0 s' := by
  cases v <;> inv0_case h

theorem inv0_rSignal {v cap s s' k} (hi : Inv0 s) (h : step v cap s (.rSignal k) = some s') : Inv0 s' := by
  cases v <;> inv0_case h

theorem inv0_sTopDone {v cap s s' k} (hi : Inv0 s) (h : step v cap s (.sTopDone k) = some s') : Inv0 s' := by
  cases v <;> inv0_case h

theorem inv0_sTopGo {v cap s s' k} (hi : Inv0 s) (h : step v cap s (.sTopGo k) = some s') : Inv0 s' := by
  cases v <;> inv0_case h

theorem inv0_sTakeFail {v cap s s' k} (hi : Inv0 s) (h : step v cap s (.sTakeFail k) = some s') : Inv0 s' := by
  cases v <;> inv0_case h

theorem inv0_sNoFail {v cap s s' k} (hi : Inv0 s) (h : step v cap s (.sNoFail k) = some s') : Inv0 s' := by
  cases v <;> inv0_case h

theorem inv0_sTakeQ {v cap s s' k} (hi : Inv0 s) (h : step v cap s (.sTakeQ k) = some s') : Inv0 s' := by
  cases v <;> inv0_case h

theorem inv0_sTickClosed {v cap s s' k} (hi : Inv0 s) (h : step v cap s (.sTickClosed k) = some s') : Inv0 s' := by
  cases v <;> inv0_case h

theorem inv0_sTickIdle {v cap s s' k} (hi : Inv0 s) (h : step v cap s (.sTickIdle k) = some s') : Inv0 s' := by
  cases v <;> inv0_case h

theorem inv0_sTickCont {v cap s s' k} (hi : Inv0 s) (h : step v cap s (.sTickCont k) = some s') : Inv0 s' := by
  cases v <;> inv0_case h

theorem inv0_sIdleClose {v cap s s' k} (hi : Inv0 s) (h : step v cap s (.sIdleClose k) = some s') : Inv0 s' := by
  cases v <;> inv0_case h

theorem inv0_sInnerFail {v cap s s' k} (hi : Inv0 s) (h : step v cap s (.sInnerFail k) = some s') : Inv0 s' := by
  cases v <;> inv0_case h

theorem inv0_sInnerDone {v cap s s' k} (hi : Inv0 s) (h : step v cap s (.sInnerDone k) = some s') : Inv0 s' := by
  cases v <;> inv0_case h

theorem inv0_sCheckOk {v cap s s' k} (hi : Inv0 s) (h : step v cap s (.sCheckOk k) = some s') : Inv0 s' := by
  cases v <;> inv0_case h

theorem inv0_sCheckLost {v cap s s' k} (hi : Inv0 s) (h : step v cap s (.sCheckLost k) = some s') : Inv0 s' := by
  cases v <;> inv0_case h

theorem inv0_sHandback {v cap s s' k} (hi : Inv0 s) (h : step v cap s (.sHandback k) = some s') : Inv0 s' := by
  cases v <;> inv0_case h

theorem inv0_sWriteOk {v cap s s' k} (hi : Inv0 s) (h : step v cap s (.sWriteOk k) = some s') : Inv0 s' := by
  cases v <;> inv0_case h

theorem inv0_sWriteLost {v cap s s' k} (hi : Inv0 s) (h : step v cap s (.sWriteLost k) = some s') : Inv0 s' := by
  cases v <;> inv0_case h

theorem inv0_sWriteFail {v cap s s' k} (hi : Inv0 s) (h : step v cap s (.sWriteFail k) = some s') : Inv0 s' := by
  cases v <;> inv0_case h

theorem inv0_sRequeue {v cap s s' k} (hi : Inv0 s) (h : step v cap s (.sRequeue k) = some s') : Inv0 s' := by
  cases v <;> inv0_case h

theorem inv0_sFailClose {v cap s s' k} (hi : Inv0 s) (h : step v cap s (.sFailClose k) = some s') : Inv0 s' := by
  cases v <;> inv0_case h

theorem mem_setCall' {s : State} {m x : Msg} {pc pc' : CallPc} (h : (x, pc') ∈ (setCall s m pc).calls) :
    (x = m ∧ pc' = pc) ∨ (x, pc') ∈ s.calls := by
  simp only [setCall, List.mem_map] at h
  obtain ⟨y, hy, he⟩ := h
  split at he
  · left; cases he; exact ⟨rfl, rfl⟩
  · right; exact he ▸ hy

/-- same connections, flag and attempts; every later-stage request was one before and every
freshly begun call carries the currently known connections -/
theorem inv0_of_same {s s' : State} (hi : Inv0 s) (hc : s'.conns = s.conns)
    (hf : s'.isClosed = s.isClosed) (ha : s'.attempts = s.attempts)
    (hb : ∀ m, (m, CallPc.begun) ∈ s'.calls → (m, CallPc.begun) ∈ s.calls ∨ m.dead = knownList s)
    (hl : ∀ m, Later s' m → Later s m) (hu : s'.unlockedDial = s.unlockedDial := by rfl) : Inv0 s' := by
  have hk : ∀ j, knownAt s' j = knownAt s j := by intro j; simp only [knownAt, hc]
  constructor
  · rw [hc, hf]; exact hi.knownOld
  · intro m hm j hj
    rw [hk]
    rcases hb m hm with h | h
    · exact hi.begunKnown m h j hj
    · exact mem_knownList (h ▸ hj)
  · rw [hc]; exact fun m hm => hi.laterOld m (hl m hm)
  · rw [hc, ha]; exact hi.attemptsOld
  · rw [hu]; exact hi.locked

theorem later_dropCall {s : State} {id : Nat} {x : Msg} (hx : Later (dropCall s id) x) : Later s x := by
  simp only [Later, dropCall_sendQ, dropCall_failQ, dropCall_conns] at hx ⊢
  rcases hx with h1 | h1 | ⟨pc', hp, h1⟩ | h1
  · exact Or.inl h1
  · exact Or.inr (Or.inl h1)
  · exact Or.inr (Or.inr (Or.inl ⟨pc', hp, mem_dropCall h1⟩))
  · exact Or.inr (Or.inr (Or.inr h1))

/-- moving a call that is past `begun` to another stage past `begun` -/
theorem later_setCall {s : State} {id : Nat} {m x : Msg} {pc0 pc : CallPc}
    (hf : findCall s id = some (m, pc0)) (h0 : pc0 ≠ .begun) (hx : Later (setCall s m pc) x) :
    Later s x := by
  simp only [Later, setCall_sendQ, setCall_failQ, setCall_conns] at hx ⊢
  rcases hx with h1 | h1 | ⟨pc', hp, h1⟩ | h1
  · exact Or.inl h1
  · exact Or.inr (Or.inl h1)
  · right; right; left
    rcases mem_setCall' h1 with ⟨rfl, _⟩ | h2
    · exact ⟨pc0, h0, findCall_mem hf⟩
    · exact ⟨pc', hp, h2⟩
  · exact Or.inr (Or.inr (Or.inr h1))

theorem begun_setCall {s : State} {m x : Msg} {pc : CallPc} (hp : pc ≠ .begun)
    (h : (x, CallPc.begun) ∈ (setCall s m pc).calls) : (x, CallPc.begun) ∈ s.calls := by
  rcases mem_setCall' h with ⟨_, h2⟩ | h2
  · exact absurd h2.symm hp
  · exact h2

theorem inv0_callBegin {v cap s s' id} (hi : Inv0 s) (h : step v cap s (.callBegin id) = some s') : Inv0 s' := by
  simp only [step] at h
  split at h
  · cases h
  · cases h
    refine inv0_of_same hi rfl rfl rfl ?_ ?_
    · intro m hm
      simp only [List.mem_append, List.mem_singleton] at hm
      rcases hm with h1 | h1
      · exact Or.inl h1
      · right; cases h1; rfl
    · intro m hm
      simp only [Later, List.mem_append, List.mem_singleton] at hm ⊢
      rcases hm with h1 | h1 | ⟨pc, hp, h1 | h1⟩ | h1
      · exact Or.inl h1
      · exact Or.inr (Or.inl h1)
      · exact Or.inr (Or.inr (Or.inl ⟨pc, hp, h1⟩))
      · cases h1; exact absurd rfl hp
      · exact Or.inr (Or.inr (Or.inr h1))

theorem inv0_markReconnected {v cap s s' id} (hi : Inv0 s) (h : step v cap s (.markReconnected id) = some s') : Inv0 s' := by
  simp only [step] at h
  split at h
  · cases h
    rename_i m hf
    exact inv0_of_same hi rfl rfl rfl (fun x hx => Or.inl (begun_setCall (by decide) hx))
      (fun x hx => later_setCall hf (by decide) hx)
  · cases h

theorem inv0_callRet {v cap s s' id} (hi : Inv0 s) (h : step v cap s (.callRet id) = some s') : Inv0 s' := by
  simp only [step] at h
  split at h
  · cases h
    exact inv0_of_same hi rfl rfl rfl (fun x hx => Or.inl (mem_dropCall hx)) (fun x hx => later_dropCall hx)
  · cases h

theorem inv0_callFail {v cap s s' id} (hi : Inv0 s) (h : step v cap s (.callFail id) = some s') : Inv0 s' := by
  simp only [step] at h
  split at h
  · split at h
    · cases h
    · cases h
      exact inv0_of_same hi rfl rfl rfl (fun x hx => Or.inl (mem_dropCall hx)) (fun x hx => later_dropCall hx)
  · cases h

theorem inv0_callEnq {v cap s s' id} (hi : Inv0 s) (h : step v cap s (.callEnq id) = some s') : Inv0 s' := by
  simp only [step] at h
  split at h
  · rename_i m hf
    split at h
    · cases h
      refine inv0_of_same hi rfl rfl rfl (fun x hx => Or.inl (begun_setCall (by decide) hx)) ?_
      intro x hx
      have hm : Later s m := Or.inr (Or.inr (Or.inl ⟨_, by decide, findCall_mem hf⟩))
      simp only [Later, List.mem_append, List.mem_singleton] at hx
      rcases hx with (h1 | rfl) | h1 | h1 | h1
      · exact later_setCall (pc := .queued) hf (by decide) (Or.inl h1)
      · exact hm
      · exact later_setCall (pc := .queued) hf (by decide) (Or.inr (Or.inl h1))
      · exact later_setCall (pc := .queued) hf (by decide) (Or.inr (Or.inr (Or.inl h1)))
      · exact later_setCall (pc := .queued) hf (by decide) (Or.inr (Or.inr (Or.inr h1)))
    · cases h
  · cases h

theorem inv0_obsRecv {v cap s s' k id} (hi : Inv0 s) (h : step v cap s (.obsRecv k id) = some s') : Inv0 s' := by
  simp only [step] at h
  split at h
  · cases h
    exact inv0_of_same hi rfl rfl rfl (fun m hm => Or.inl hm) (fun m hm => hm)
  · cases h

theorem inv0_obsAccept {v cap s s' k} (hi : Inv0 s) (h : step v cap s (.obsAccept k) = some s') : Inv0 s' := by
  simp only [step] at h
  split at h
  · cases h
    exact inv0_of_same hi rfl rfl rfl (fun m hm => Or.inl hm) (fun m hm => hm)
  · cases h

theorem knownAt_lt {s : State} {j : Nat} (h : knownAt s j = true) : j < s.conns.length := by
  simp only [knownAt] at h
  split at h
  · rename_i c hc; exact (List.getElem?_eq_some_iff.mp hc).1
  · cases h

theorem inv0_callReconnect {v cap s s' id} (hi : Inv0 s) (h : step v cap s (.callReconnect id) = some s') : Inv0 s' := by
  simp only [step] at h
  split at h
  · rename_i m hf
    have hmb : (m, CallPc.begun) ∈ s.calls := findCall_mem hf
    split at h
    · cases h
      -- a new connection is dialled: every earlier connection becomes an old one
      have hget : ∀ (k : Nat) (c : Conn), (s.conns ++ [({} : Conn)])[k]? = some c →
          (k < s.conns.length ∧ s.conns[k]? = some c) ∨ (k = s.conns.length ∧ c = {}) := by
        intro k c hk
        by_cases hk' : k < s.conns.length
        · rw [List.getElem?_append_left hk'] at hk; exact Or.inl ⟨hk', hk⟩
        · have : k = s.conns.length := by
            have := (List.getElem?_eq_some_iff.mp hk).1
            simp only [List.length_append, List.length_singleton] at this
            omega
          subst this
          simp at hk
          exact Or.inr ⟨rfl, hk.symm⟩
      constructor
      · intro k c hk hkn
        right
        simp only [List.length_append, List.length_singleton]
        rcases hget k c hk with ⟨h1, _⟩ | ⟨_, h2⟩
        · omega
        · subst h2; cases hkn
      · intro x hx j hj
        have hx' := begun_setCall (s := s) (m := m) (pc := .atConnected) (by decide) hx
        have := hi.begunKnown x hx' j hj
        simp only [knownAt] at this ⊢
        split at this
        · rename_i c hc
          rw [List.getElem?_append_left (List.getElem?_eq_some_iff.mp hc).1, hc]; exact this
        · cases this
      · intro x hx j hj
        simp only [List.length_append, List.length_singleton]
        simp only [Later] at hx
        rcases hx with h1 | h1 | ⟨pc, hp, h1⟩ | ⟨k, c, hk, hh⟩
        · have := hi.laterOld x (Or.inl h1) j hj; omega
        · have := hi.laterOld x (Or.inr (Or.inl h1)) j hj; omega
        · rcases mem_setCall' h1 with ⟨rfl, _⟩ | h2
          · have := knownAt_lt (hi.begunKnown x hmb j hj); omega
          · have := hi.laterOld x (Or.inr (Or.inr (Or.inl ⟨pc, hp, h2⟩))) j hj; omega
        · rcases hget k c hk with ⟨_, h2⟩ | ⟨_, h2⟩
          · have := hi.laterOld x (Or.inr (Or.inr (Or.inr ⟨k, c, h2, hh⟩))) j hj; omega
          · subst h2; simp [SPc.hand] at hh
      · intro x k hx j hj
        simp only [List.length_append, List.length_singleton]
        have := hi.attemptsOld x k hx j hj; omega
      · exact hi.locked
    · cases h
      rename_i hcl
      -- the flag is not set: everything the call knew to be closed is already old
      constructor
      · exact hi.knownOld
      · intro x hx j hj
        exact hi.begunKnown x (begun_setCall (s := s) (m := m) (pc := .atConnected) (by decide) hx) j hj
      · intro x hx j hj
        simp only [Later, setCall_sendQ, setCall_failQ, setCall_conns] at hx
        rcases hx with h1 | h1 | ⟨pc, hp, h1⟩ | h1
        · exact hi.laterOld x (Or.inl h1) j hj
        · exact hi.laterOld x (Or.inr (Or.inl h1)) j hj
        · rcases mem_setCall' h1 with ⟨rfl, _⟩ | h2
          · have hk := hi.begunKnown x hmb j hj
            simp only [knownAt] at hk
            split at hk
            · rename_i c hc
              rcases hi.knownOld j c hc hk with h3 | h3
              · exact absurd h3 hcl
              · exact h3
            · cases hk
          · exact hi.laterOld x (Or.inr (Or.inr (Or.inl ⟨pc, hp, h2⟩))) j hj
        · exact hi.laterOld x (Or.inr (Or.inr (Or.inr h1))) j hj
      · exact hi.attemptsOld
      · exact hi.locked
  · cases h

theorem inv0_callCheckClosed {v cap s s' id} (hi : Inv0 s)
    (h : step v cap s (.callCheckClosed id) = some s') : Inv0 s' := by
  simp only [step] at h
  split at h
  · rename_i hu; rw [hi.locked] at hu; cases hu
  · cases h

theorem inv0_callInstall {v cap s s' id} (hi : Inv0 s)
    (h : step v cap s (.callInstall id) = some s') : Inv0 s' := by
  simp only [step] at h
  split at h
  · rename_i hu; rw [hi.locked] at hu; cases hu
  · cases h

theorem inv0_step {v cap s s' a} (hi : Inv0 s) (h : step v cap s a = some s') : Inv0 s' := by
  cases a with
  | callBegin id => exact inv0_callBegin hi h
  | callReconnect id => exact inv0_callReconnect hi h
  | callCheckClosed id => exact inv0_callCheckClosed hi h
  | callInstall id => exact inv0_callInstall hi h
  | markReconnected id => exact inv0_markReconnected hi h
  | callEnq id => exact inv0_callEnq hi h
  | callFail id => exact inv0_callFail hi h
  | callRet id => exact inv0_callRet hi h
  | mark p k => exact inv0_mark hi h
  | obsAccept k => exact inv0_obsAccept hi h
  | obsRecv k id => exact inv0_obsRecv hi h
  | pClose k => exact inv0_pClose hi h
  | rEof k => exact inv0_rEof hi h
  | rErr k => exact inv0_rErr hi h
  | pReset k => exact inv0_pReset hi h
  | rClose k => exact inv0_rClose hi h
  | rSignal k => exact inv0_rSignal hi h
  | sTopDone k => exact inv0_sTopDone hi h
  | sTopGo k => exact inv0_sTopGo hi h
  | sTakeFail k => exact inv0_sTakeFail hi h
  | sNoFail k => exact inv0_sNoFail hi h
  | sTakeQ k => exact inv0_sTakeQ hi h
  | sTickClosed k => exact inv0_sTickClosed hi h
  | sTickIdle k => exact inv0_sTickIdle hi h
  | sTickCont k => exact inv0_sTickCont hi h
  | sIdleClose k => exact inv0_sIdleClose hi h
  | sInnerFail k => exact inv0_sInnerFail hi h
  | sInnerDone k => exact inv0_sInnerDone hi h
  | sCheckOk k => exact inv0_sCheckOk hi h
  | sCheckLost k => exact inv0_sCheckLost hi h
  | sHandback k => exact inv0_sHandback hi h
  | sWriteOk k => exact inv0_sWriteOk hi h
  | sWriteLost k => exact inv0_sWriteLost hi h
  | sWriteFail k => exact inv0_sWriteFail hi h
  | sRequeue k => exact inv0_sRequeue hi h
  | sFailClose k => exact inv0_sFailClose hi h

theorem inv0_init : Inv0 init := by
  constructor <;> simp [init, Later, knownAt]

theorem inv0_initNoIdle : Inv0 initNoIdle := by
  constructor <;> simp [initNoIdle, Later, knownAt]

theorem reachable_inv0 {v cap s} (h : Reachable v cap s) : Inv0 s := by
  induction h with
  | init => exact inv0_init
  | initNoIdle => exact inv0_initNoIdle
  | step a _ hs ih => exact inv0_step ih hs

end Tars.ClientConn
