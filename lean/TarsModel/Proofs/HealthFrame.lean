/-
  Proofs/HealthFrame.lean — which action can change what: reinstatement, fallback, constancy of the
  registry list and the variant flag, monotone clock.
-/
import TarsModel.Proofs.HealthTime

namespace Tars.Health
open Tars

/-! ## constant fields -/

theorem checkStatus_reg (conn : List Nat) (s : Mgr) : (checkStatus conn s).reg = s.reg := by
  unfold checkStatus
  generalize hl : s.reg = l
  have : ∀ (l : List Nat) (s : Mgr), (l.foldl (checkOne conn) s).reg = s.reg := by
    intro l
    induction l with
    | nil => intro s; rfl
    | cons x xs ih => intro s; rw [List.foldl_cons, ih, checkOne_reg]
  rw [this]; exact hl

theorem checkStatus_now (conn : List Nat) (s : Mgr) : (checkStatus conn s).now = s.now := by
  unfold checkStatus
  have : ∀ (l : List Nat) (s : Mgr), (l.foldl (checkOne conn) s).now = s.now := by
    intro l
    induction l with
    | nil => intro s; rfl
    | cons x xs ih => intro s; rw [List.foldl_cons, ih, checkOne_now]
  exact this _ _

theorem checkStatus_inflight (conn : List Nat) (s : Mgr) : (checkStatus conn s).inflight = s.inflight := by
  unfold checkStatus
  have : ∀ (l : List Nat) (s : Mgr), (l.foldl (checkOne conn) s).inflight = s.inflight := by
    intro l
    induction l with
    | nil => intro s; rfl
    | cons x xs ih => intro s; rw [List.foldl_cons, ih, checkOne_inflight]
  exact this _ _

theorem startOn_reg (s : Mgr) (ep : Nat) (p so ow : Bool) : (startOn s ep p so ow).reg = s.reg := by
  unfold startOn; repeat' split
  all_goals rfl

theorem startOn_now (s : Mgr) (ep : Nat) (p so ow : Bool) : (startOn s ep p so ow).now = s.now := by
  unfold startOn; repeat' split
  all_goals rfl

theorem popProbe_reg (s : Mgr) (ep : Nat) (q : List Nat) : (popProbe s ep q).reg = s.reg := by
  unfold popProbe; split <;> rfl

theorem popProbe_now (s : Mgr) (ep : Nat) (q : List Nat) : (popProbe s ep q).now = s.now := by
  unfold popProbe; split <;> rfl

theorem start_reg (s : Mgr) (c : Nat) (so ow : Bool) : (start s c so ow).reg = s.reg := by
  unfold start selectAdapter
  repeat' split
  all_goals simp_all [startOn_reg, popProbe_reg, touch, emit]

theorem start_now (s : Mgr) (c : Nat) (so ow : Bool) : (start s c so ow).now = s.now := by
  unfold start selectAdapter
  repeat' split
  all_goals simp_all [startOn_now, popProbe_now, touch, emit]

theorem finishCall_reg (s : Mgr) (ep : Nat) (p ok : Bool) : (finishCall s ep p ok).reg = s.reg := by
  unfold finishCall; repeat' split
  all_goals rfl

theorem finishCall_now (s : Mgr) (ep : Nat) (p ok : Bool) : (finishCall s ep p ok).now = s.now := by
  unfold finishCall; repeat' split
  all_goals rfl

theorem finish_reg (s : Mgr) (k : Nat) (ok : Bool) : (finish s k ok).reg = s.reg := by
  unfold finish; split
  · rfl
  · simp only [finishCall_reg]

theorem finish_now (s : Mgr) (k : Nat) (ok : Bool) : (finish s k ok).now = s.now := by
  unfold finish; split
  · rfl
  · simp only [finishCall_now]

theorem step_reg (s : Mgr) (a : Action) : (step s a).reg = s.reg := by
  cases a with
  | advance d => rfl
  | checkStatus conn => exact checkStatus_reg conn s
  | start c so ow => exact start_reg s c so ow
  | finish k ok => exact finish_reg s k ok

theorem run_reg (s : Mgr) (h : List Action) : (run s h).reg = s.reg := by
  unfold run
  induction h generalizing s with
  | nil => rfl
  | cons a as ih => rw [List.foldl_cons, ih, step_reg]

theorem step_stamp (s : Mgr) (a : Action) : (step s a).stamp = s.stamp := by
  cases a with
  | advance d => rfl
  | checkStatus conn =>
    show (checkStatus conn s).stamp = s.stamp
    unfold checkStatus
    have : ∀ (l : List Nat) (s : Mgr), (l.foldl (checkOne conn) s).stamp = s.stamp := by
      intro l
      induction l with
      | nil => intro s; rfl
      | cons x xs ih => intro s; rw [List.foldl_cons, ih, checkOne_stamp]
    exact this _ _
  | start c so ow =>
    show (start s c so ow).stamp = s.stamp
    unfold start selectAdapter startOn popProbe
    simp only []
    repeat' split
    all_goals rfl
  | finish k ok =>
    show (finish s k ok).stamp = s.stamp
    unfold finish finishCall
    simp only []
    repeat' split
    all_goals rfl

theorem run_stamp (s : Mgr) (h : List Action) : (run s h).stamp = s.stamp := by
  unfold run
  induction h generalizing s with
  | nil => rfl
  | cons a as ih => rw [List.foldl_cons, ih, step_stamp]

theorem step_now_le (s : Mgr) (a : Action) : s.now ≤ (step s a).now := by
  cases a with
  | advance d => show s.now ≤ s.now + d; omega
  | checkStatus conn => rw [show (step s (.checkStatus conn)).now = s.now from checkStatus_now conn s]; exact Int.le_refl _
  | start c so ow => rw [show (step s (.start c so ow)).now = s.now from start_now s c so ow]; exact Int.le_refl _
  | finish k ok => rw [show (step s (.finish k ok)).now = s.now from finish_now s k ok]; exact Int.le_refl _

theorem run_now_le (s : Mgr) (h : List Action) : s.now ≤ (run s h).now := by
  unfold run
  induction h generalizing s with
  | nil => exact Int.le_refl _
  | cons a as ih => rw [List.foldl_cons]; exact Int.le_trans (step_now_le s a) (ih _)

/-! ## who changes `status` -/

theorem startOn_status (s : Mgr) (ep : Nat) (p so ow : Bool) (e : Nat) :
    ((startOn s ep p so ow).recs e).status = (s.recs e).status := by
  unfold startOn
  repeat' split
  all_goals simp only [recFail, recOk, recSend, emit, setRec, upd_apply, failAdd, successAdd, sendAdd]
  all_goals (repeat' split)
  all_goals simp_all

theorem popProbe_status (s : Mgr) (ep : Nat) (q : List Nat) (e : Nat) :
    ((popProbe s ep q).recs e).status = (s.recs e).status := by
  unfold popProbe
  split
  · simp only [setRec, upd_apply]; split
    · rename_i h; rw [h]
    · rfl
  · rfl

theorem start_status (s : Mgr) (c : Nat) (so ow : Bool) (e : Nat) :
    ((start s c so ow).recs e).status = (s.recs e).status := by
  unfold start selectAdapter
  repeat' split
  all_goals simp_all [startOn_status, popProbe_status, touch, emit]

theorem start_sel (s : Mgr) (c : Nat) (so ow : Bool) : (start s c so ow).sel = s.sel := by
  unfold start selectAdapter startOn popProbe
  repeat' split
  all_goals simp_all [touch, emit, recFail, recOk, recSend, setRec]

theorem checkStatus_status_false (conn : List Nat) (s : Mgr) (ep : Nat) (h : (s.recs ep).status = false) :
    ((checkStatus conn s).recs ep).status = false :=
  foldl_checkOne_status_false conn s.reg s ep h

/-- a failed call changes neither the status of any endpoint nor the rotation -/
theorem finishCall_fail (s : Mgr) (ep : Nat) (p : Bool) :
    (finishCall s ep p false).sel = s.sel ∧ (finishCall s ep p false).active = s.active ∧
    ∀ e, ((finishCall s ep p false).recs e).status = (s.recs e).status := by
  refine ⟨rfl, rfl, ?_⟩
  intro e
  simp only [finishCall, recFail, emit, setRec, upd_apply, failAdd, Bool.false_eq_true, if_false]
  split
  · rename_i h; rw [h]
  · rfl

/-- a successful call that was not a probe changes neither status nor rotation -/
theorem finishCall_ok_noprobe (s : Mgr) (ep : Nat) :
    (finishCall s ep false true).sel = s.sel ∧ (finishCall s ep false true).active = s.active ∧
    ∀ e, ((finishCall s ep false true).recs e).status = (s.recs e).status := by
  refine ⟨rfl, rfl, ?_⟩
  intro e
  simp only [finishCall, recOk, emit, setRec, upd_apply, successAdd, Bool.false_eq_true, if_false, if_true]
  split
  · rename_i h; rw [h]
  · rfl

/-- a successful probe puts the endpoint back: active record, member of the selectors and of `activeEp` -/
theorem finishCall_ok_probe (s : Mgr) (ep : Nat) :
    ((finishCall s ep true true).recs ep).status = true ∧ ep ∈ (finishCall s ep true true).sel ∧
    ep ∈ (finishCall s ep true true).active ∧ ((finishCall s ep true true).recs ep).failCount = 0 := by
  simp only [finishCall, recOk, reinstate, emit, addAliveEp, setRec, upd_same, successAdd, reset, if_true]
  refine ⟨trivial, (mem_selAdd _ _ _).mpr (Or.inr rfl), ?_, trivial⟩
  simp

/-- `finish` on the `k`-th open call, when that call is a probe on `ep`, succeeding -/
theorem finish_probe_ok (s : Mgr) (k : Nat) (ep : Nat) (c0 : Nat × Bool) (cs : List (Nat × Bool))
    (hin : s.inflight = c0 :: cs) (hk : s.inflight.getD (k % s.inflight.length) c0 = (ep, true)) :
    ((finish s k true).recs ep).status = true ∧ ep ∈ (finish s k true).sel ∧ ep ∈ (finish s k true).active ∧
    ((finish s k true).recs ep).failCount = 0 := by
  unfold finish
  rw [hin] at hk ⊢
  simp only
  rw [hk]
  exact finishCall_ok_probe _ ep

theorem finishCall_status_other (s : Mgr) (ep : Nat) (p ok : Bool) (e : Nat) (hne : e ≠ ep) :
    ((finishCall s ep p ok).recs e).status = (s.recs e).status := by
  unfold finishCall
  repeat' split
  all_goals simp [recFail, recOk, reinstate, emit, addAliveEp, setRec, upd_apply, hne]

/-- only the successful completion of an open probe call turns a blocked record active -/
theorem step_unblock (s : Mgr) (a : Action) (ep : Nat) (h0 : (s.recs ep).status = false)
    (h1 : ((step s a).recs ep).status = true) : (∃ k, a = .finish k true) ∧ (ep, true) ∈ s.inflight := by
  cases a with
  | advance d => exact absurd h1 (by simp [step, h0])
  | checkStatus conn =>
    have := checkStatus_status_false conn s ep h0
    exact absurd h1 (by simp [step, this])
  | start c so ow =>
    have := start_status s c so ow ep
    exact absurd h1 (by simp [step, this, h0])
  | finish k ok =>
    simp only [step, finish] at h1
    split at h1
    · rw [h0] at h1; cases h1
    · rename_i c0 cs hin
      have hmem : s.inflight.getD (k % s.inflight.length) c0 ∈ s.inflight := getD_mod_mem _ _ _ (by rw [hin]; simp)
      generalize hc : s.inflight.getD (k % s.inflight.length) c0 = c at h1 hmem
      obtain ⟨cep, cp⟩ := c
      simp only at h1
      by_cases hne : ep = cep
      · subst hne
        cases ok
        · rw [(finishCall_fail _ ep cp).2.2 ep] at h1; rw [h0] at h1; cases h1
        · cases cp
          · rw [(finishCall_ok_noprobe _ ep).2.2 ep] at h1; rw [h0] at h1; cases h1
          · exact ⟨⟨k, rfl⟩, hmem⟩
      · rw [finishCall_status_other _ cep cp ok ep hne] at h1; rw [h0] at h1; cases h1

/-! ## calls are always attempted -/

/-- no `noEndpoint` event -/
def NoNone (log : List Event) : Prop := ∀ t, Event.noEndpoint t ∉ log

theorem NoNone.cons {log : List Event} (h : NoNone log) (e : Event) (he : ∀ t, e ≠ .noEndpoint t) : NoNone (e :: log) := by
  intro t hm
  rcases List.mem_cons.mp hm with h1 | h1
  · exact he t h1.symm
  · exact h t h1

theorem checkOne_noNone (conn : List Nat) (s : Mgr) (x : Nat) (h : NoNone s.log) : NoNone (checkOne conn s x).log := by
  rcases checkOne_cases conn s x with ⟨_, he⟩ | ⟨_, _, he⟩ | ⟨_, _, _, he⟩ | ⟨_, _, _, he⟩
  · rw [he]; exact h
  · rw [he]; exact h.cons _ (fun _ hc => by cases hc)
  · rw [he]; exact h
  · rw [he]; exact h.cons _ (fun _ hc => by cases hc)

theorem checkStatus_noNone (conn : List Nat) (s : Mgr) (h : NoNone s.log) : NoNone (checkStatus conn s).log := by
  unfold checkStatus
  generalize s.reg = l
  induction l generalizing s with
  | nil => exact h
  | cons x xs ih => exact ih _ (checkOne_noNone conn s x h)

theorem startOn_noNone (s : Mgr) (ep : Nat) (p so ow : Bool) (h : NoNone s.log) : NoNone (startOn s ep p so ow).log := by
  have h1 : NoNone (recSend s ep p).log := h.cons _ (fun _ hc => by cases hc)
  unfold startOn
  repeat' split
  · exact h1.cons _ (fun _ hc => by cases hc)
  · exact h1.cons _ (fun _ hc => by cases hc)
  · exact h1

theorem popProbe_log (s : Mgr) (ep : Nat) (q : List Nat) : (popProbe s ep q).log = s.log := by
  unfold popProbe; split <;> rfl

theorem start_noNone (s : Mgr) (c : Nat) (so ow : Bool) (hr : s.reg ≠ []) (h : NoNone s.log) :
    NoNone (start s c so ow).log := by
  unfold start selectAdapter
  split
  · rename_i hreg; exact absurd hreg hr
  · split
    · exact startOn_noNone _ _ _ _ _ (by rw [popProbe_log]; exact h)
    · split
      · exact startOn_noNone _ _ _ _ _ h
      · exact startOn_noNone _ _ _ _ _ h

theorem finishCall_noNone (s : Mgr) (ep : Nat) (p ok : Bool) (h : NoNone s.log) : NoNone (finishCall s ep p ok).log := by
  unfold finishCall
  repeat' split
  · exact (h.cons (.reinstated ep s.now) (fun _ hc => by cases hc)).cons _ (fun _ hc => by cases hc)
  · exact h.cons _ (fun _ hc => by cases hc)
  · exact h.cons _ (fun _ hc => by cases hc)

theorem finish_noNone (s : Mgr) (k : Nat) (ok : Bool) (h : NoNone s.log) : NoNone (finish s k ok).log := by
  unfold finish; split
  · exact h
  · exact finishCall_noNone _ _ _ _ h

theorem run_noNone (s : Mgr) (hist : List Action) (hr : s.reg ≠ []) (h : NoNone s.log) : NoNone (run s hist).log := by
  unfold run
  induction hist generalizing s with
  | nil => exact h
  | cons a as ih =>
    rw [List.foldl_cons]
    apply ih
    · rw [step_reg]; exact hr
    · cases a with
      | advance d => exact h
      | checkStatus conn => exact checkStatus_noNone conn s h
      | start c so ow => exact start_noNone s c so ow hr h
      | finish k ok => exact finish_noNone s k ok h

/-- what `start` logs first: the endpoint it picked (when the registry lists any) -/
theorem start_picks (s : Mgr) (c : Nat) (so ow : Bool) (hr : s.reg ≠ []) :
    ∃ ep p, Event.picked ep p s.now ∈ (start s c so ow).log ∧
      (s.queue = [] → p = false ∧ (s.sel ≠ [] → ep ∈ s.sel) ∧ (s.sel = [] → ep ∈ s.reg)) ∧
      (∀ x q, s.queue = x :: q → ep = x ∧ p = true) := by
  have key : ∀ (m : Mgr) (ep : Nat) (p : Bool), m.now = s.now → Event.picked ep p s.now ∈ (startOn m ep p so ow).log := by
    intro m ep p hn
    unfold startOn
    repeat' split
    all_goals simp [recFail, recOk, recSend, emit, setRec, hn]
  unfold start selectAdapter
  split
  · rename_i hreg; exact absurd hreg hr
  · rename_i r0 rs hreg
    split
    · rename_i x q hq
      refine ⟨x, true, key _ _ _ (popProbe_now s x q), ?_, ?_⟩
      · intro hq'; rw [hq'] at hq; cases hq
      · intro x' q' hq'; rw [hq'] at hq; cases hq; exact ⟨rfl, rfl⟩
    · rename_i hq
      split
      · rename_i e0 es hsel
        refine ⟨_, false, key _ _ _ rfl, ?_, ?_⟩
        · intro _
          refine ⟨rfl, fun _ => getD_mod_mem _ _ _ (by rw [hsel]; simp), fun h => ?_⟩
          rw [h] at hsel; cases hsel
        · intro x q hq'; rw [hq'] at hq; cases hq
      · rename_i hsel
        refine ⟨_, false, key _ _ _ rfl, ?_, ?_⟩
        · intro _
          refine ⟨rfl, fun h => absurd hsel h, fun _ => getD_mod_mem _ _ _ (by rw [hreg]; simp)⟩
        · intro x q hq'; rw [hq'] at hq; cases hq

end Tars.Health
