import TarsModel.Proofs.ClientConnOld

/-! Helper lemmas for C11: the sender of a current connection that the client has not closed and
that the server still reads is never stuck. -/
namespace Tars.ClientConn

/-- the statements of `connection.send` for connection `k` -/
def senderActions (k : Nat) : List Action :=
  [.mark .top k, .sTopDone k, .sTopGo k, .sTakeFail k, .sNoFail k, .mark .inner k, .sTakeQ k,
   .sTickClosed k, .sTickIdle k, .sTickCont k, .sIdleClose k, .sInnerFail k, .sInnerDone k,
   .mark .got k, .sCheckOk k, .sCheckLost k, .sHandback k, .sWriteOk k, .sWriteLost k, .sWriteFail k,
   .sRequeue k, .sFailClose k]

theorem sender_progress {v : Variant} {cap : Nat} {s : State} {k : Nat} {c : Conn} (hi : Inv v s)
    (hc : s.conns[k]? = some c) (hcur : k + 1 = s.conns.length) (hk : c.known = false)
    (ha : c.alive = true) :
    c.spc ≠ .exited ∧ ∃ a ∈ senderActions k, (step v cap s a).isSome = true := by
  have hopen : s.isClosed = false := by
    cases h : s.isClosed
    · rfl
    · have := hi.closedKnown h k c hc hcur; rw [hk] at this; cases this
  have hdone : c.connDone = false := by
    cases h : c.connDone
    · rfl
    · have := hi.doneKnown k c hc (Or.inl h); rw [hk] at this; cases this
  have hcur' : isCur s k = true := by simp [isCur, hcur]
  refine ⟨?_, ?_⟩
  · intro h
    have := hi.doneKnown k c hc (Or.inr (Or.inr (Or.inr h))); rw [hk] at this; cases this
  · cases hs : c.spc with
    | atTop => exact ⟨.mark .top k, by simp [senderActions], by simp [step, hc, hs]⟩
    | top => exact ⟨.sTopGo k, by simp [senderActions], by simp [step, hc, hs, hdone]⟩
    | pickFail =>
      cases hf : s.failQ with
      | none => exact ⟨.sNoFail k, by simp [senderActions], by simp [step, hc, hs, hf]⟩
      | some m => exact ⟨.sTakeFail k, by simp [senderActions], by simp [step, hc, hs, hf]⟩
    | atInner => exact ⟨.mark .inner k, by simp [senderActions], by simp [step, hc, hs]⟩
    | inner => exact ⟨.sTickCont k, by simp [senderActions], by simp [step, hc, hs, hopen]⟩
    | atGot m => exact ⟨.mark .got k, by simp [senderActions], by simp [step, hc, hs]⟩
    | got m => exact ⟨.sCheckOk k, by simp [senderActions], by simp [step, hc, hs, hopen, hcur']⟩
    | ready m => exact ⟨.sWriteOk k, by simp [senderActions], by simp [step, hc, hs, ha, hk]⟩
    | failed m =>
      rcases hi.failedDead k c hc (Or.inl ⟨m, hs⟩) with h | h
      · rw [ha] at h; cases h
      · rw [hk] at h; cases h
    | failClosing => exact ⟨.sFailClose k, by simp [senderActions], by simp [step, hc, hs]⟩
    | idleClosing => exact ⟨.sIdleClose k, by simp [senderActions], by simp [step, hc, hs]⟩
    | handback m =>
      have := hi.handbackKnown k c m hc hs; rw [hk] at this; cases this
    | exited =>
      have := hi.doneKnown k c hc (Or.inr (Or.inr (Or.inr hs))); rw [hk] at this; cases this

/-- the statements of `connection.recv` for connection `k` once `Read` has failed -/
def receiverActions (k : Nat) : List Action :=
  [.rEof k, .rErr k, .mark .closing k, .rClose k, .rSignal k]

/-- Whatever way connection `k` was lost — orderly close by the server (`io.EOF`), abortive close
(`*net.OpError`), or the client's own close of the socket — the receiver of `k`, until it is done,
has an enabled statement, and every path from its pending `Read` leads through `close(conn_k)`. -/
theorem receiver_progress {v : Variant} {cap : Nat} {s : State} {k : Nat} {c : Conn}
    (hc : s.conns[k]? = some c) (hl : c.alive = false ∨ c.known = true) (hd : c.rpc ≠ .done) :
    ∃ a ∈ receiverActions k, (step v cap s a).isSome = true := by
  cases hr : c.rpc with
  | reading =>
    by_cases h1 : c.reset = true ∨ c.known = true
    · exact ⟨.rErr k, by simp [receiverActions], by simp [step, hc, hr, h1]⟩
    · have h2 : c.reset = false ∧ c.known = false := by
        cases hx : c.reset <;> cases hy : c.known <;> simp_all
      have h3 : c.alive = false := by
        rcases hl with h | h
        · exact h
        · rw [h2.2] at h; cases h
      exact ⟨.rEof k, by simp [receiverActions], by simp [step, hc, hr, h2, h3]⟩
  | atClosing => exact ⟨.mark .closing k, by simp [receiverActions], by simp [step, hc, hr]⟩
  | closing => exact ⟨.rClose k, by simp [receiverActions], by simp [step, hc, hr]⟩
  | signalling => exact ⟨.rSignal k, by simp [receiverActions], by simp [step, hc, hr]⟩
  | done => exact absurd hr hd

end Tars.ClientConn
