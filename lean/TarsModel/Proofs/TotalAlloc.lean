import TarsModel.Proofs.TotalCost
import TarsModel.Proofs.ShortRead

/-!
  C05 helper lemmas, part 9: the allocation-instrumented decoders (`Model/Cost.lean`) return the
  original results (`decA_eq`) and obey the allocation bound `AllocOK` (`decA_bound`).
-/
namespace Tars
open Consts

/-- **The instrumented decoders return exactly the original results.** -/
theorem decA_eq (env : Env) : ∀ f : Nat,
    (∀ tag req ty old r, (decVarA env f tag req ty old r).1 = decVar env f tag req ty old r) ∧
    (∀ e n acc r, (decElemsA env f e n acc r).1 = decElems env f e n acc r) ∧
    (∀ e n i len cur r, (decArrA env f e n i len cur r).1 = decArr env f e n i len cur r) ∧
    (∀ k v len acc r, (decPairsA env f k v len acc r).1 = decPairs env f k v len acc r) ∧
    (∀ fs olds r, (decMembersA env f fs olds r).1 = decMembers env f fs olds r) := by
  intro f
  induction f with
  | zero =>
    refine ⟨?_, ?_, ?_, ?_, ?_⟩ <;> intros
    · rw [Total.decVar_zero]; unfold decVarA; rfl
    · rw [Total.decElems_zero]; unfold decElemsA; rfl
    · rw [Total.decArr_zero]; unfold decArrA; rfl
    · rw [Total.decPairs_zero]; unfold decPairsA; rfl
    · rw [Total.decMembers_zero]; unfold decMembersA; rfl
  | succ f ih =>
    obtain ⟨ihV, ihE, ihA, ihP, ihM⟩ := ih
    refine ⟨?_, ?_, ?_, ?_, ?_⟩
    · intro tag req ty old r
      cases ty with
      | vec e =>
        rw [Total.decVar_vec]
        unfold decVarA
        simp only [ihE, Total.oldBytes]
        rcases skipToNoCheck tag req r with ⟨_ | ⟨hv, tyCur⟩, r1⟩
        · rfl
        simp only
        by_cases c1 : (!req && !hv) = true
        · simp only [if_pos c1]
        simp only [if_neg c1]
        by_cases c2 : tyCur = tyLIST
        · simp only [if_pos c2]
          rcases readLen r1 with ⟨_ | len, r2⟩
          · rfl
          simp only
          rcases checkLength len r2 with ⟨_ | u, r3⟩
          · rfl
          · rfl
        simp only [if_neg c2]
        by_cases c3 : tyCur = tySimpleList
        · simp only [if_pos c3]
          by_cases c4 : e = Ty.i8 ∨ e = Ty.u8
          · simp only [if_pos c4]
            rcases skipTo tyBYTE 0 true r1 with ⟨_ | b, r2⟩
            · rfl
            simp only
            rcases readLen r2 with ⟨_ | len, r3⟩
            · rfl
            simp only
            rcases readSlice8 (match old with | .list vs => int8Bytes vs | _ => []) len r3
              with ⟨_ | bs, r4⟩
            · rfl
            · rfl
          · simp only [if_neg c4]
        · simp only [if_neg c3]
      | arr n e =>
        rw [Total.decVar_arr]
        unfold decVarA
        simp only [Total.oldList]
        rcases skipToNoCheck tag req r with ⟨_ | ⟨hv, tyCur⟩, r1⟩
        · rfl
        simp only
        by_cases c1 : (!req && !hv) = true
        · simp only [if_pos c1]
        simp only [if_neg c1]
        by_cases c2 : tyCur = tyLIST
        · simp only [if_pos c2]
          rcases readLen r1 with ⟨_ | len, r2⟩
          · rfl
          · simp only
            by_cases c3 : len > (n : Int)
            · simp only [if_pos c3]
            · simp only [if_neg c3, ihA]
              cases old <;> rfl
        · simp only [if_neg c2]
      | map k v =>
        rw [Total.decVar_map]
        unfold decVarA
        simp only
        rcases skipTo tyMAP tag req r with ⟨_ | hv, r1⟩
        · rfl
        simp only
        by_cases c1 : (!req && !hv) = true
        · simp only [if_pos c1]
        simp only [if_neg c1]
        rcases readLen r1 with ⟨_ | len, r2⟩
        · rfl
        · simp only
          rcases checkLength len r2 with ⟨_ | u, r3⟩
          · rfl
          · simp only [ihP]
      | struct name =>
        rw [Total.decVar_struct]
        unfold decVarA Total.structBody
        simp only [ihM]
        split
        · rename_i _ _ fs ovs hfs
          simp only [hfs]
          rcases skipTo tyStructBegin tag req r with ⟨_ | hv, r1⟩
          · rfl
          simp only
          by_cases c1 : (!hv) = true
          · simp only [if_pos c1]
            by_cases c2 : req = true
            · simp only [if_pos c2]
            · simp only [if_neg c2]
          · simp only [if_neg c1]
            rcases decMembers env f fs (resetDefault env f fs (resetDefault env f fs ovs)) r1
              with ⟨_ | vs, r2⟩
            · rfl
            simp only
            rcases skipToStructEnd r2.fuel r2 with ⟨_ | u, r3⟩
            · rfl
            · rfl
        · rename_i hno
          split
          · exfalso; simp_all
          · rfl
      | bool | i8 | u8 | i16 | u16 | i32 | u32 | i64 | f32 | f64 | str | enum =>
        rw [Total.decVar_atom _ _ _ _ _ _ _ rfl]
        unfold decVarA
        rfl
    · intro e n acc r
      rw [Total.decElems_succ]
      unfold decElemsA
      cases n with
      | zero => rfl
      | succ n' =>
        simp only
        rw [← ihV]
        rcases decVarA env f 0 true e (zeroOf env e) r with ⟨⟨_ | v, r1⟩, c⟩
        · rfl
        · simp only [ihE]
    · intro e n i len cur r
      rw [Total.decArr_succ]
      unfold decArrA
      by_cases c1 : (i : Int) ≥ len
      · simp only [if_pos c1]
      simp only [if_neg c1]
      by_cases c2 : i ≥ n
      · simp only [if_pos c2]
      simp only [if_neg c2]
      rw [← ihV]
      rcases decVarA env f 0 true e (cur.getD i (zeroOf env e)) r with ⟨⟨_ | v, r1⟩, c⟩
      · rfl
      · simp only [ihA]
    · intro k v len acc r
      rw [Total.decPairs_succ]
      unfold decPairsA
      by_cases c1 : len ≤ 0
      · simp only [if_pos c1]
      simp only [if_neg c1]
      rw [← ihV]
      rcases decVarA env f 0 true k (zeroOf env k) r with ⟨⟨_ | a, r1⟩, c⟩
      · rfl
      simp only
      rw [← ihV]
      rcases decVarA env f 1 true v (zeroOf env v) r1 with ⟨⟨_ | b, r2⟩, c'⟩
      · rfl
      · simp only [ihP]
    · intro fs olds r
      rw [Total.decMembers_succ]
      unfold decMembersA
      cases fs with
      | nil => rfl
      | cons fld fs' =>
      cases olds with
      | nil => rfl
      | cons o os =>
        simp only
        rw [← ihV]
        rcases decVarA env f fld.tag fld.req fld.ty o r with ⟨⟨_ | v, r1⟩, c⟩
        · rfl
        simp only
        rw [← ihM]
        rcases decMembersA env f fs' os r1 with ⟨⟨_ | vs, r2⟩, c'⟩
        · rfl
        · rfl

@[simp] theorem Cost.zero_alloc : Cost.zero.alloc = 0 := rfl
@[simp] theorem Cost.zero_nest : Cost.zero.nest = 0 := rfl
@[simp] theorem Cost.seq_alloc (a b : Cost) : (Cost.seq a b).alloc = a.alloc + b.alloc := rfl
@[simp] theorem Cost.seq_nest (a b : Cost) : (Cost.seq a b).nest = max a.nest b.nest := rfl
@[simp] theorem Cost.make_alloc (n : Nat) (c : Cost) : (Cost.make n c).alloc = n + c.alloc := rfl
@[simp] theorem Cost.make_nest (n : Nat) (c : Cost) : (Cost.make n c).nest = c.nest + 1 := rfl
@[simp] theorem Cost.flat_alloc (n : Nat) : (Cost.flat n).alloc = n := rfl
@[simp] theorem Cost.flat_nest (n : Nat) : (Cost.flat n).nest = 1 := rfl

/-- lift an error bound from an inner start position / nesting to an outer one -/
theorem err_mono {a rem' rem1 n1 rem n : Nat} (h : a + rem' ≤ rem1 + n1 * rem1) (h1 : rem1 ≤ rem)
    (hn : n1 ≤ n) : a + rem' ≤ rem + n * rem := by
  have := Nat.mul_le_mul hn h1; omega

/-- the allocation statement carried through the induction: a successful run allocated no more
    than it consumed (minus `extra` head bytes it is known to have consumed on top); a failed run
    at most `nest` times the remaining input more. -/
def AllocOK {α : Type} (extra : Nat) (r : Reader) (x : Res α × Cost) : Prop :=
    (∀ v, x.1.1 = .ok v → x.2.alloc + extra + x.1.2.remaining ≤ r.remaining) ∧
    (∀ e, x.1.1 = .error e → x.2.alloc + x.1.2.remaining ≤ r.remaining + x.2.nest * r.remaining)

theorem AllocOK.of_err0 {α : Type} {extra : Nat} {r r' : Reader} {e : Err} (h : r.Le r') :
    AllocOK extra r (((.error e, r'), Cost.zero) : Res α × Cost) := by
  refine ⟨by simp, ?_⟩
  intro _ _; have := h.remaining; simp; omega

theorem AllocOK.of_ok0 {α : Type} {extra : Nat} {r r' : Reader} {a : α}
    (h : extra + r'.remaining ≤ r.remaining) :
    AllocOK extra r (((.ok a, r'), Cost.zero) : Res α × Cost) := by
  refine ⟨?_, by simp⟩
  intro _ _; simp; omega

/-- string allocation: the bytes of the string are part of what the read consumed -/
theorem strAlloc_bound (ty : Ty) (old : Val) (tag : Nat) (req : Bool) (r : Reader) :
    AllocOK (if req then 1 else 0) r
      (readScalar ty old tag req r, ⟨strAlloc tag req r (readScalar ty old tag req r), 0⟩) := by
  have hstep := (readScalar_spec ty old tag req r).1
  constructor
  · intro v hv
    simp only
    have hle := hstep.1.remaining
    have hreq : req = true → (readScalar ty old tag req r).2.remaining + 1 ≤ r.remaining :=
      fun h => hstep.2 h v hv
    unfold strAlloc
    split
    · rename_i ty1 r1 s r' hs hx
      -- the result is a string: the declared type is `str`
      have hty : ∃ o, ty = .str ∧ old = .str o := by
        unfold readScalar at hx
        split at hx
        all_goals first
          | exact ⟨_, rfl, rfl⟩
          | (obtain ⟨a, _, ha⟩ := mapRes_ok hx; cases ha)
          | simp at hx
      obtain ⟨o, rfl, rfl⟩ := hty
      have hx' : readString o tag req r = (.ok s, r') := by
        unfold readScalar at hx
        simp only at hx
        obtain ⟨a, ha, hv'⟩ := mapRes_ok hx
        simp only [Val.str.injEq] at hv'
        subst hv'; exact ha
      rcases readString_exact hx' with ⟨ty2, h1, _⟩ | ⟨ty2, r1', w, l, h1, _, _, h4, h5, _, h7⟩
      · rw [hs] at h1; simp at h1
      · rw [hs] at h1
        simp only [Prod.mk.injEq, Except.ok.injEq, true_and] at h1
        obtain ⟨_, rfl⟩ := h1
        have hlt := (skipToNoCheck_pos hs).2.1 ty1 rfl
        have hp := hlt.2.1
        rw [hx]
        simp only [h7]
        rw [h5]
        unfold Reader.remaining
        simp only
        split <;> omega
    · by_cases hr : req = true
      · have := hreq hr; simp only [if_pos hr]; omega
      · simp only [if_neg hr]; omega
  · intro e he
    simp only
    have hle := hstep.1.remaining
    have : strAlloc tag req r (readScalar ty old tag req r) = 0 := by
      unfold strAlloc
      split
      · rename_i hx; rw [hx] at he; simp at he
      · rfl
    rw [this]; omega


theorem decVarA_le (env : Env) (f tag : Nat) (req : Bool) (ty : Ty) (old : Val) (r : Reader) :
    StepOK req r (decVarA env f tag req ty old r).1 := by
  rw [(decA_eq env f).1]; exact (dec_pos env f).1 tag req ty old r
theorem decElemsA_le (env : Env) (f : Nat) (e : Ty) (n : Nat) (acc : List Val) (r : Reader) :
    r.Le (decElemsA env f e n acc r).1.2 := by
  rw [(decA_eq env f).2.1]; exact (dec_pos env f).2.1 e n acc r
theorem decArrA_le (env : Env) (f : Nat) (e : Ty) (n i : Nat) (len : Int) (cur : List Val) (r : Reader) :
    r.Le (decArrA env f e n i len cur r).1.2 := by
  rw [(decA_eq env f).2.2.1]; exact (dec_pos env f).2.2.1 e n i len cur r
theorem decPairsA_le (env : Env) (f : Nat) (k v : Ty) (len : Int) (acc : List (Val × Val)) (r : Reader) :
    r.Le (decPairsA env f k v len acc r).1.2 := by
  rw [(decA_eq env f).2.2.2.1]; exact (dec_pos env f).2.2.2.1 k v len acc r
theorem decMembersA_le (env : Env) (f : Nat) (fs : List Field) (olds : List Val) (r : Reader) :
    r.Le (decMembersA env f fs olds r).1.2 := by
  rw [(decA_eq env f).2.2.2.2]; exact (dec_pos env f).2.2.2.2 fs olds r

/-- sequencing two runs: `x` from `r`, then (on success) `y` from where `x` stopped -/
theorem AllocOK.seq_err {rem remx remy ax ay nx ny : Nat}
    (hx : ax + remx ≤ rem) (hy : ay + remy ≤ remx + ny * remx) (hle : remx ≤ rem) :
    ax + ay + remy ≤ rem + max nx ny * rem := by
  have h1 : ny * remx ≤ max nx ny * rem := Nat.mul_le_mul (Nat.le_max_right _ _) hle
  omega

/-- **Allocation bound for the generated decoders** (any fuel), see `AllocOK`; `extra` is 1 for a
    required member/element, the element count for a vector's element loop. -/
theorem decA_bound (env : Env) : ∀ f : Nat,
    (∀ tag req ty old (r : Reader),
      AllocOK (if req then 1 else 0) r (decVarA env f tag req ty old r)) ∧
    (∀ e n acc (r : Reader), AllocOK n r (decElemsA env f e n acc r)) ∧
    (∀ e n i len cur (r : Reader), AllocOK 0 r (decArrA env f e n i len cur r)) ∧
    (∀ k v len acc (r : Reader), AllocOK 0 r (decPairsA env f k v len acc r)) ∧
    (∀ fs olds (r : Reader), AllocOK 0 r (decMembersA env f fs olds r)) := by
  intro f
  induction f with
  | zero =>
    refine ⟨?_, ?_, ?_, ?_, ?_⟩ <;> intros
    · unfold decVarA; exact AllocOK.of_err0 (Reader.Le.refl _)
    · unfold decElemsA; exact AllocOK.of_err0 (Reader.Le.refl _)
    · unfold decArrA; exact AllocOK.of_err0 (Reader.Le.refl _)
    · unfold decPairsA; exact AllocOK.of_err0 (Reader.Le.refl _)
    · unfold decMembersA; exact AllocOK.of_err0 (Reader.Le.refl _)
  | succ f ih =>
    obtain ⟨ihV, ihE, ihA, ihP, ihM⟩ := ih
    refine ⟨?_, ?_, ?_, ?_, ?_⟩
    · intro tag req ty old r
      cases ty with
      | vec e =>
        unfold decVarA
        simp only
        cases hb : skipToNoCheck tag req r with
        | mk res r1 =>
          obtain ⟨p1, p2, p3⟩ := skipToNoCheck_pos hb
          cases res with
          | error er => exact AllocOK.of_err0 p1
          | ok p =>
            obtain ⟨hv, tyCur⟩ := p
            simp only
            by_cases c1 : (!req && !hv) = true
            · simp only [if_pos c1]
              have : req = false := by cases req <;> simp_all
              subst this
              exact AllocOK.of_ok0 (by have := p1.remaining; simp; omega)
            simp only [if_neg c1]
            have hvt := have_true_of c1 (by intro h; subst h; exact p3 tyCur rfl)
            subst hvt
            have hlt := (p2 tyCur rfl).remaining
            by_cases c2 : tyCur = tyLIST
            · simp only [if_pos c2]
              cases hd : readLen r1 with
              | mk res2 r2 =>
                cases res2 with
                | error er => exact AllocOK.of_err0 (p1.trans (res_le_of (readLen_le r1) hd))
                | ok len =>
                  have hl2 := readLen_ok hd
                  have hlt2 := hl2.remaining
                  simp only
                  cases hc3 : checkLength len r2 with
                  | mk res3 r3 =>
                  cases res3 with
                  | error er =>
                    rw [(checkLength_err hc3).1]; exact AllocOK.of_err0 (p1.trans hl2.le)
                  | ok u =>
                  obtain ⟨rfl, _, hn⟩ := checkLength_ok_inv hc3
                  simp only
                  obtain ⟨b1, b2⟩ := ihE e len.toNat [] r3
                  constructor
                  · intro v hv'
                    have := b1 v hv'
                    simp only [Cost.make_alloc]
                    split <;> omega
                  · intro e' he'
                    have := b2 e' he'
                    simp only [Cost.make_alloc, Cost.make_nest]
                    have hm : (decElemsA env f e len.toNat [] r3).2.nest * r3.remaining
                        ≤ (decElemsA env f e len.toNat [] r3).2.nest * r.remaining :=
                      Nat.mul_le_mul (Nat.le_refl _) (by omega)
                    rw [Nat.add_mul]
                    omega
            simp only [if_neg c2]
            by_cases c3 : tyCur = tySimpleList
            · simp only [if_pos c3]
              by_cases c4 : e = Ty.i8 ∨ e = Ty.u8
              · simp only [if_pos c4]
                cases hd : skipTo tyBYTE 0 true r1 with
                | mk res2 r2 =>
                  have hl := (skipTo_pos hd).1
                  cases res2 with
                  | error er => exact AllocOK.of_err0 (p1.trans hl)
                  | ok b =>
                    simp only
                    cases he : readLen r2 with
                    | mk res3 r3 =>
                      have hl3 := res_le_of (readLen_le r2) he
                      cases res3 with
                      | error er => exact AllocOK.of_err0 ((p1.trans hl).trans hl3)
                      | ok len =>
                        simp only
                        have h13 : r3.remaining + 1 ≤ r.remaining := by
                          have := hl.remaining; have := hl3.remaining; omega
                        cases hg : readSlice8 (match old with | .list vs => int8Bytes vs | _ => []) len r3 with
                        | mk res4 r4 =>
                          have hl4 := (res_le_of (readSlice8_le _ len r3) hg).remaining
                          by_cases c5 : len ≤ 0
                          · cases res4 with
                            | error er =>
                              simp only [if_pos c5]
                              refine ⟨by simp, ?_⟩
                              intro _ _; simp; omega
                            | ok bs =>
                              simp only [if_pos c5]
                              refine ⟨?_, by simp⟩
                              intro _ _; simp; split <;> omega
                          · simp only [if_neg c5]
                            cases hc5 : checkLength len r3 with
                            | mk res5 r5 =>
                            cases res5 with
                            | error er5 =>
                              simp only
                              cases res4 with
                              | error er =>
                                refine ⟨by simp, ?_⟩
                                intro _ _; simp; omega
                              | ok bs =>
                                -- impossible: readSlice8 fails when checkLength fails
                                exfalso
                                unfold readSlice8 at hg
                                rw [if_neg c5, hc5] at hg
                                simp at hg
                            | ok u5 =>
                              obtain ⟨_, _, hn⟩ := checkLength_ok_inv hc5
                              simp only
                              cases res4 with
                              | error er =>
                                refine ⟨by simp, ?_⟩
                                intro _ _
                                simp only [Cost.flat_alloc, Cost.flat_nest, Nat.one_mul]
                                omega
                              | ok bs =>
                                refine ⟨?_, by simp⟩
                                intro _ _
                                rcases readSlice8_exact hg with ⟨h0, _, _⟩ | ⟨_, e1, e2, _, _⟩
                                · omega
                                · simp only [Cost.flat_alloc]
                                  have : r4.remaining + len.toNat = r3.remaining := by
                                    rw [e2]; unfold Reader.remaining; simp only; omega
                                  split <;> omega
              · simp only [if_neg c4]; exact AllocOK.of_err0 p1
            · simp only [if_neg c3]; exact AllocOK.of_err0 p1
      | arr n e =>
        unfold decVarA
        simp only
        cases hb : skipToNoCheck tag req r with
        | mk res r1 =>
          obtain ⟨p1, p2, p3⟩ := skipToNoCheck_pos hb
          cases res with
          | error er => exact AllocOK.of_err0 p1
          | ok p =>
            obtain ⟨hv, tyCur⟩ := p
            simp only
            by_cases c1 : (!req && !hv) = true
            · simp only [if_pos c1]
              have : req = false := by cases req <;> simp_all
              subst this
              exact AllocOK.of_ok0 (by have := p1.remaining; simp; omega)
            simp only [if_neg c1]
            have hvt := have_true_of c1 (by intro h; subst h; exact p3 tyCur rfl)
            subst hvt
            have hlt := (p2 tyCur rfl).remaining
            by_cases c2 : tyCur = tyLIST
            · simp only [if_pos c2]
              cases hd : readLen r1 with
              | mk res2 r2 =>
                cases res2 with
                | error er => exact AllocOK.of_err0 (p1.trans (res_le_of (readLen_le r1) hd))
                | ok len =>
                  have hl2 := readLen_ok hd
                  have hlt2 := hl2.remaining
                  simp only
                  by_cases c3 : len > (n : Int)
                  · simp only [if_pos c3]; exact AllocOK.of_err0 (p1.trans hl2.le)
                  simp only [if_neg c3]
                  have hA := fun cur => ihA e n 0 len cur r2
                  constructor
                  · intro v hv'
                    have := (hA _).1 v hv'
                    by_cases hr : req = true
                    · simp only [if_pos hr]; omega
                    · simp only [if_neg hr]; omega
                  · intro e' he'
                    have := (hA _).2 e' he'
                    exact err_mono this (by omega) (Nat.le_refl _)
            · simp only [if_neg c2]; exact AllocOK.of_err0 p1
      | map k v =>
        unfold decVarA
        simp only
        cases hb : skipTo tyMAP tag req r with
        | mk res r1 =>
          obtain ⟨p1, p2, p3, _⟩ := skipTo_pos hb
          cases res with
          | error er => exact AllocOK.of_err0 p1
          | ok hv =>
            simp only
            by_cases c1 : (!req && !hv) = true
            · simp only [if_pos c1]
              have : req = false := by cases req <;> simp_all
              subst this
              exact AllocOK.of_ok0 (by have := p1.remaining; simp; omega)
            simp only [if_neg c1]
            have hvt := have_true_of c1 (by intro h; subst h; exact p3 rfl)
            subst hvt
            have hlt := (p2 rfl).remaining
            cases hd : readLen r1 with
            | mk res2 r2 =>
              cases res2 with
              | error er => exact AllocOK.of_err0 (p1.trans (res_le_of (readLen_le r1) hd))
              | ok len =>
                have hl2 := readLen_ok hd
                have hlt2 := hl2.remaining
                simp only
                cases hc3 : checkLength len r2 with
                | mk res3 r3 =>
                cases res3 with
                | error er =>
                  rw [(checkLength_err hc3).1]; exact AllocOK.of_err0 (p1.trans hl2.le)
                | ok u =>
                obtain ⟨rfl, _, _⟩ := checkLength_ok_inv hc3
                simp only
                obtain ⟨b1, b2⟩ := ihP k v len [] r3
                constructor
                · intro v hv'
                  have := b1 v hv'
                  split <;> omega
                · intro e' he'
                  have := b2 e' he'
                  exact err_mono this (by omega) (Nat.le_refl _)
      | struct name =>
        unfold decVarA
        simp only
        cases hfind : env.find name with
        | none => simp only; exact AllocOK.of_err0 (Reader.Le.refl _)
        | some fs =>
        cases old with
        | struct ovs =>
          simp only
          cases hb : skipTo tyStructBegin tag req r with
          | mk res r1 =>
            obtain ⟨p1, p2, p3, _⟩ := skipTo_pos hb
            cases res with
            | error er => exact AllocOK.of_err0 p1
            | ok hv =>
              simp only
              cases hv with
              | false =>
                have := p3 rfl
                subst this
                simp only [Bool.not_false, if_true, Bool.false_eq_true, if_false]
                exact AllocOK.of_ok0 (by have := p1.remaining; simp; omega)
              | true =>
                have hlt := (p2 rfl).remaining
                simp only [Bool.not_true, Bool.false_eq_true, if_false]
                have hM := ihM fs (resetDefault env f fs (resetDefault env f fs ovs)) r1
                have hML := decMembersA_le env f fs (resetDefault env f fs (resetDefault env f fs ovs)) r1
                cases hd : decMembersA env f fs (resetDefault env f fs (resetDefault env f fs ovs)) r1 with
                | mk x c =>
                  rw [hd] at hM hML
                  obtain ⟨res2, r2⟩ := x
                  cases res2 with
                  | error er =>
                    simp only
                    obtain ⟨_, b2⟩ := hM
                    refine ⟨by simp, ?_⟩
                    intro e' _
                    have := b2 er rfl
                    exact err_mono this (by omega) (Nat.le_refl _)
                  | ok vs =>
                    simp only
                    cases he : skipToStructEnd r2.fuel r2 with
                    | mk res3 r3 =>
                      have hl3 := (res_le_of ((skip_family_le _).2.2 r2) he).remaining
                      cases res3 with
                      | error er =>
                        simp only
                        obtain ⟨b1, _⟩ := hM
                        have := b1 vs rfl
                        refine ⟨by simp, ?_⟩
                        intro _ _
                        simp only at this ⊢
                        omega
                      | ok u =>
                        simp only
                        obtain ⟨b1, _⟩ := hM
                        have := b1 vs rfl
                        refine ⟨?_, by simp⟩
                        intro _ _
                        simp only at this ⊢
                        by_cases hr : req = true
                        · simp only [if_pos hr]; omega
                        · simp only [if_neg hr]; omega
        | _ => simp only; exact AllocOK.of_err0 (Reader.Le.refl _)
      | bool | i8 | u8 | i16 | u16 | i32 | u32 | i64 | f32 | f64 | str | enum =>
        unfold decVarA
        exact strAlloc_bound _ old tag req r
    · intro e n acc r
      unfold decElemsA
      cases n with
      | zero => exact AllocOK.of_ok0 (by simp)
      | succ n' =>
        simp only
        have hV := ihV 0 true e (zeroOf env e) r
        have hL := (decVarA_le env f 0 true e (zeroOf env e) r).1.remaining
        cases hx : decVarA env f 0 true e (zeroOf env e) r with
        | mk x c =>
          rw [hx] at hV hL
          obtain ⟨res, r1⟩ := x
          cases res with
          | error er =>
            simp only
            exact ⟨by simp, fun e' _ => hV.2 er rfl⟩
          | ok v =>
            simp only
            have b1 := hV.1 v rfl
            obtain ⟨c1, c2⟩ := ihE e n' (v :: acc) r1
            simp only [if_true] at b1
            constructor
            · intro v' hv'
              have := c1 v' hv'
              simp only [Cost.seq_alloc] at this ⊢
              omega
            · intro e' he'
              have := c2 e' he'
              simp only [Cost.seq_alloc, Cost.seq_nest] at this ⊢
              exact AllocOK.seq_err (by omega) this (by simpa using hL)
    · intro e n i len cur r
      unfold decArrA
      by_cases c1 : (i : Int) ≥ len
      · simp only [if_pos c1]; exact AllocOK.of_ok0 (by simp)
      simp only [if_neg c1]
      by_cases c2 : i ≥ n
      · simp only [if_pos c2]
        have := (arrOverflow_le e r).remaining
        constructor
        · intro v hv; simp only [Cost.zero_alloc]; omega
        · intro e' _; simp only [Cost.zero_alloc, Cost.zero_nest]; omega
      simp only [if_neg c2]
      have hV := ihV 0 true e (cur.getD i (zeroOf env e)) r
      have hL := (decVarA_le env f 0 true e (cur.getD i (zeroOf env e)) r).1.remaining
      cases hx : decVarA env f 0 true e (cur.getD i (zeroOf env e)) r with
      | mk x c =>
        rw [hx] at hV hL
        obtain ⟨res, r1⟩ := x
        cases res with
        | error er =>
          simp only
          exact ⟨by simp, fun e' _ => hV.2 er rfl⟩
        | ok v =>
          simp only
          have b1 := hV.1 v rfl
          obtain ⟨c1', c2'⟩ := ihA e n (i+1) len (listSet cur i v) r1
          simp only [if_true] at b1
          constructor
          · intro v' hv'
            have := c1' v' hv'
            simp only [Cost.seq_alloc] at this ⊢
            omega
          · intro e' he'
            have := c2' e' he'
            simp only [Cost.seq_alloc, Cost.seq_nest] at this ⊢
            exact AllocOK.seq_err (by omega) this (by simpa using hL)
    · intro k v len acc r
      unfold decPairsA
      by_cases c1 : len ≤ 0
      · simp only [if_pos c1]; exact AllocOK.of_ok0 (by simp)
      simp only [if_neg c1]
      have hV := ihV 0 true k (zeroOf env k) r
      have hL := (decVarA_le env f 0 true k (zeroOf env k) r).1.remaining
      cases hx : decVarA env f 0 true k (zeroOf env k) r with
      | mk x c =>
        rw [hx] at hV hL
        obtain ⟨res, r1⟩ := x
        cases res with
        | error er =>
          simp only
          exact ⟨by simp, fun e' _ => hV.2 er rfl⟩
        | ok a =>
          simp only
          have hV2 := ihV 1 true v (zeroOf env v) r1
          have hL2 := (decVarA_le env f 1 true v (zeroOf env v) r1).1.remaining
          cases hy : decVarA env f 1 true v (zeroOf env v) r1 with
          | mk y c' =>
            rw [hy] at hV2 hL2
            obtain ⟨res2, r2⟩ := y
            cases res2 with
            | error er =>
              simp only
              have b1 := hV.1 a rfl
              have b2 := hV2.2 er rfl
              simp only [if_true] at b1
              refine ⟨by simp, ?_⟩
              intro e' _
              simp only [Cost.seq_alloc, Cost.seq_nest] at b2 ⊢
              exact AllocOK.seq_err (by omega) b2 (by simpa using hL)
            | ok b =>
              simp only
              have b1 := hV.1 a rfl
              have b2 := hV2.1 b rfl
              simp only [if_true] at b1 b2
              obtain ⟨c1', c2'⟩ := ihP k v (len - 1) (mapInsert acc a b keyEq) r2
              constructor
              · intro v' hv'
                have := c1' v' hv'
                simp only [Cost.seq_alloc] at this ⊢
                omega
              · intro e' he'
                have := c2' e' he'
                simp only [Cost.seq_alloc, Cost.seq_nest] at this ⊢
                have hle : r2.remaining ≤ r.remaining := by
                  have h1 : r1.remaining ≤ r.remaining := by simpa using hL
                  have h2 : r2.remaining ≤ r1.remaining := by simpa using hL2
                  omega
                have hm : (decPairsA env f k v (len - 1) (mapInsert acc a b keyEq) r2).2.nest * r2.remaining
                    ≤ max (max c.nest c'.nest) (max 0 (decPairsA env f k v (len - 1) (mapInsert acc a b keyEq) r2).2.nest) * r.remaining :=
                  Nat.mul_le_mul (by omega) hle
                omega
    · intro fs olds r
      unfold decMembersA
      cases fs with
      | nil => exact AllocOK.of_ok0 (by simp)
      | cons fld fs' =>
      cases olds with
      | nil => exact AllocOK.of_ok0 (by simp)
      | cons o os =>
        simp only
        have hV := ihV fld.tag fld.req fld.ty o r
        have hL := (decVarA_le env f fld.tag fld.req fld.ty o r).1.remaining
        cases hx : decVarA env f fld.tag fld.req fld.ty o r with
        | mk x c =>
          rw [hx] at hV hL
          obtain ⟨res, r1⟩ := x
          cases res with
          | error er =>
            simp only
            exact ⟨by simp, fun e' _ => hV.2 er rfl⟩
          | ok v =>
            simp only
            have hM := ihM fs' os r1
            cases hy : decMembersA env f fs' os r1 with
            | mk y c' =>
              rw [hy] at hM
              obtain ⟨res2, r2⟩ := y
              cases res2 with
              | error er =>
                simp only
                have b1 := hV.1 v rfl
                have b2 := hM.2 er rfl
                refine ⟨by simp, ?_⟩
                intro e' _
                simp only [Cost.seq_alloc, Cost.seq_nest] at b2 ⊢
                exact AllocOK.seq_err (by simp only at b1; omega) b2 (by simpa using hL)
              | ok vs =>
                simp only
                have b1 := hV.1 v rfl
                have b2 := hM.1 vs rfl
                refine ⟨?_, by simp⟩
                intro _ _
                simp only [Cost.seq_alloc] at b1 b2 ⊢
                omega


theorem decStructA_eq (env : Env) (name : String) (old : Val) (r : Reader) :
    (decStructA env name old r).1 = decStruct env name old r := by
  rw [decStruct_eq]
  unfold decStructA
  cases hfind : env.find name with
  | none => rfl
  | some fs =>
    cases old with
    | struct ovs =>
      simp only
      rw [← (decA_eq env _).2.2.2.2]
      rcases decMembersA env (decFuel env r) fs (resetDefault env (decFuel env r) fs ovs) r
        with ⟨⟨_ | vs, r1⟩, c⟩ <;> rfl
    | _ => rfl

theorem decStructA_bound (env : Env) (name : String) (old : Val) (r : Reader) :
    AllocOK 0 r (decStructA env name old r) := by
  unfold decStructA
  cases hfind : env.find name with
  | none => simp only; exact AllocOK.of_err0 (Reader.Le.refl _)
  | some fs =>
    cases old with
    | struct ovs =>
      simp only
      have hM := (decA_bound env (decFuel env r)).2.2.2.2 fs (resetDefault env (decFuel env r) fs ovs) r
      cases hd : decMembersA env (decFuel env r) fs (resetDefault env (decFuel env r) fs ovs) r with
      | mk x c =>
        rw [hd] at hM
        obtain ⟨res, r1⟩ := x
        cases res with
        | error er =>
          simp only
          exact ⟨by simp, fun e' _ => hM.2 er rfl⟩
        | ok vs =>
          simp only
          exact ⟨fun _ _ => hM.1 vs rfl, by simp⟩
    | _ => simp only; exact AllocOK.of_err0 (Reader.Le.refl _)

end Tars
