import TarsModel.Proofs.CallPathCall

/-!
# A concrete instance of the C01 hypotheses (non-vacuity of `C01_transparent`, `C01_failure`,
  `C01_oneway`, and of a call with a reused out variable)

IDL: `struct S { 0 require int a; 1 optional string b; };`
`interface I { long f(int x, out S s); void get(out S s); };`
-/
namespace Tars
open Consts CallPath Filter

namespace C01Example

def sFields : List Field := [⟨0, true, .i32, none⟩, ⟨1, false, .str, none⟩]
def env : Env := [("S", sFields)]
def sigG : Sig := ⟨[⟨true, .struct "S"⟩], none⟩
def oldStr : Bytes := [byte 111, byte 108, byte 100]
def newS : Val := .struct [.int 5, .str []]

theorem find_S : env.find "S" = some sFields := by simp [env, Env.find]

def rk : String → Nat := fun _ => 0

def sigF : Sig := ⟨[⟨false, .i32⟩, ⟨true, .struct "S"⟩], some .i64⟩

/-- `f`: returns `x + 1`, sets `s = {a: 5, b: ""}` and the response context `{"k": "v"}`; fails with
    `tars.Errorf(77, "boom")` for `x = 13` -/
def implF : Impl := fun args _ _ =>
  match args with
  | [.int 13] => ⟨none, [], none, none, some (.tars 77 (ascii "boom"))⟩
  | [.int x] => ⟨some (.int (x + 1)), [newS], some [(ascii "k", ascii "v")], none, none⟩
  | _ => ⟨none, [], none, none, some (.plain (ascii "bad arguments"))⟩

/-- `get`: sets `s = {a: 5, b: ""}` -/
def implG : Impl := fun _ _ _ => ⟨none, [newS], none, none, none⟩

def F : Func := ⟨ascii "f", sigF, implF⟩
def G : Func := ⟨ascii "get", sigG, implG⟩
def iface : Iface := [F, G]
def cfg : Cfg := { servant := ascii "App.Srv.IObj", timeout := 3000, reqId := 7 }

def zeroS : Val := .struct [.int 0, .str []]
/-- a reused out variable: `{a: 1, b: "old"}` -/
def oldS : Val := .struct [.int 1, .str oldStr]

theorem env_wf : EnvWF env rk := by
  intro name fs h
  simp only [env, Env.find] at h
  split at h
  · cases h
    refine ⟨Nat.zero_le _, by simp [TagsAsc, sFields], ?_⟩
    intro f hf
    simp only [sFields, List.mem_cons, List.not_mem_nil, or_false] at hf
    rcases hf with rfl | rfl <;> simp [FieldOK, TyOK]
  · cases h

theorem tyOK_S : TyOK env rk (env.length + 1) (.struct "S") := by
  simp [TyOK, find_S, rk]

theorem wt_zeroS : WT env (.struct "S") zeroS := by
  simp [zeroS, WT, find_S, sFields, WTm, ScalarOK]

theorem wt_oldS : WT env (.struct "S") oldS := by
  simp [oldS, WT, find_S, sFields, WTm, ScalarOK, oldStr]

theorem wt_newS : WT env (.struct "S") newS := by
  simp [newS, WT, find_S, sFields, WTm, ScalarOK]

theorem callOK_F (oneway : Bool) (x : Int) (hx : I32 x) (s : Val) (hs : WT env (.struct "S") s)
    (o : Option StrMap) (ho : o.getD [] = [])
    (hfit : ((requestPack (proxyRequest env cfg F.name F.sig oneway [.int x, s] [o])).length : Int)
      ≤ cfg.maxLen) :
    CallOK env rk cfg F.name F.sig oneway [.int x, s] [o] where
  envWF := env_wf
  nparams := by decide
  tys := by
    intro p hp
    simp only [F, sigF, List.mem_cons, List.not_mem_nil, or_false] at hp
    rcases hp with rfl | rfl
    · simp [TyOK]
    · exact tyOK_S
  retTy := by intro t ht; simp only [F, sigF, Option.some.injEq] at ht; subst ht; simp [TyOK]
  argsWT := by
    simp only [F, sigF, reqFields, reqFieldsFrom, argField, WTm, and_true]
    exact ⟨by simpa only [WT, ScalarOK] using hx, hs⟩
  version := rfl
  reqId := by decide
  reqIdNZ := by decide
  timeout := by decide
  servant := by decide
  fnLen := by decide
  notPing := by decide
  ctx := by simp only [optsMaps, ho]; exact mapOK_nil
  status := mapOK_nil
  maxLen := by decide
  fits := hfit

theorem callOK_G (s : Val) (hs : WT env (.struct "S") s)
    (hfit : ((requestPack (proxyRequest env cfg G.name G.sig false [s] [])).length : Int) ≤ cfg.maxLen) :
    CallOK env rk cfg G.name G.sig false [s] [] where
  envWF := env_wf
  nparams := by decide
  tys := by
    intro p hp
    simp only [G, sigG, List.mem_cons, List.not_mem_nil, or_false] at hp
    subst hp; exact tyOK_S
  retTy := by intro t ht; simp [G, sigG] at ht
  argsWT := by
    simp only [G, sigG, reqFields, reqFieldsFrom, argField, WTm, and_true]
    exact hs
  version := rfl
  reqId := by decide
  reqIdNZ := by decide
  timeout := by decide
  servant := by decide
  fnLen := by decide
  notPing := by decide
  ctx := mapOK_nil
  status := mapOK_nil
  maxLen := by decide
  fits := hfit

theorem find_F : iface.find F.name = some F := by
  simp [iface, Iface.find, F, G]

theorem find_G : iface.find G.name = some G := by
  have : (ascii "f" == ascii "get") = false := by decide
  simp [iface, Iface.find, List.find?, F, G, this]

end C01Example

end Tars
