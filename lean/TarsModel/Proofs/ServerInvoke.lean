/-
  Helper lemmas about Model/ServerInvoke.lean (property C10).
-/
import TarsModel.Model.ServerInvoke

namespace Tars.ServerInvoke

/-! ### constants -/

theorem normal_ne_oneway : TARSNORMAL ≠ TARSONEWAY := by decide
theorem zero_ne_oneway : (0 : Int) ≠ TARSONEWAY := by decide
theorem queueTimeout_ne_zero : QUEUETIMEOUT ≠ 0 := by decide
theorem invokeTimeoutRet_ne_zero : invokeTimeoutRet ≠ 0 := by decide
theorem success_eq_zero : SUCCESS = 0 := by decide
theorem noHandleTimeout_eq : Consts.srvNoHandleTimeout = 0 := by decide

/-! ### maps -/

theorem lookup_setKey_same (k v : String) (m : SMap) : lookup k (setKey k v m) = some v := by
  simp [setKey, lookup]

theorem lookup_filter_ne (k k' : String) (h : k' ≠ k) (m : SMap) :
    lookup k (m.filter (fun e => !decide (e.1 = k'))) = lookup k m := by
  induction m with
  | nil => rfl
  | cons e m ih =>
    by_cases he : e.1 = k'
    · have hk : ¬ e.1 = k := by rw [he]; exact h
      rw [List.filter_cons_of_neg (by simp [he]), ih]
      simp [lookup, hk]
    · rw [List.filter_cons_of_pos (by simp [he])]
      by_cases hk : e.1 = k
      · simp [lookup, hk]
      · simp [lookup, hk, ih]

theorem lookup_setKey_other (k k' v : String) (h : k' ≠ k) (m : SMap) :
    lookup k (setKey k' v m) = lookup k m := by
  unfold setKey
  rw [show lookup k ((k', v) :: m.filter (fun e => !decide (e.1 = k'))) = lookup k (m.filter (fun e => !decide (e.1 = k'))) from by simp [lookup, h]]
  exact lookup_filter_ne k k' h m

theorem statusKeys_ne : statusResultDesc ≠ statusResultCode := by decide

/-! ### Invoke -/

theorem queueExpired_iff (req : RequestPacket) (sub : Int) :
    queueExpired req sub = true ↔ (req.iTimeout > 0 ∧ req.iTimeout ≤ sub) := by
  simp only [queueExpired, Bool.and_eq_true, decide_eq_true_eq]
  constructor
  · rintro ⟨h1, h2⟩
    have : ((Consts.srvTimeoutPositiveBound : Nat) : Int) = 0 := by decide
    omega
  · rintro ⟨h1, h2⟩
    have : ((Consts.srvTimeoutPositiveBound : Nat) : Int) = 0 := by decide
    omega

@[simp] theorem invoke_ctxType (req : RequestPacket) (sub : Int) (d : Disp) :
    (invoke req sub d).ctxType = req.cPacketType := rfl

@[simp] theorem invoke_rsp_packetType (req : RequestPacket) (sub : Int) (d : Disp) :
    (invoke req sub d).rsp.cPacketType = req.cPacketType := rfl

theorem invoke_expired (req : RequestPacket) (sub : Int) (d : Disp) (h : queueExpired req sub = true) :
    invoke req sub d =
      ⟨{ preset req with iRet := QUEUETIMEOUT, sResultDesc := timeoutDesc, cPacketType := req.cPacketType },
       false, req.cPacketType, 0⟩ := by
  simp [invoke, h]

theorem invoke_ping (req : RequestPacket) (sub : Int) (d : Disp) (h : queueExpired req sub = false)
    (hp : req.sFuncName = pingName) :
    invoke req sub d = ⟨{ preset req with cPacketType := req.cPacketType }, false, req.cPacketType, 0⟩ := by
  simp [invoke, h, hp]

theorem invoke_ok (req : RequestPacket) (sub : Int) (d : Disp) (h : queueExpired req sub = false)
    (hp : req.sFuncName ≠ pingName) (he : (d.run req (preset req)).err = none) :
    invoke req sub d =
      ⟨{ (d.run req (preset req)).rsp with cPacketType := req.cPacketType }, true, req.cPacketType, d.dur⟩ := by
  simp [invoke, h, hp, he]

theorem invoke_err (req : RequestPacket) (sub : Int) (d : Disp) (h : queueExpired req sub = false)
    (hp : req.sFuncName ≠ pingName) (e : Err) (he : (d.run req (preset req)).err = some e) :
    invoke req sub d =
      ⟨{ (d.run req (preset req)).rsp with iRet := e.ret, sResultDesc := e.msg, cPacketType := req.cPacketType },
       true, req.cPacketType, d.dur⟩ := by
  simp [invoke, h, hp, he]

theorem invoke_invoked (req : RequestPacket) (sub : Int) (d : Disp) :
    (invoke req sub d).invoked = (!queueExpired req sub && decide (req.sFuncName ≠ pingName)) := by
  unfold invoke
  by_cases h : queueExpired req sub = true
  · simp [h]
  · have h' : queueExpired req sub = false := by simpa using h
    by_cases hp : req.sFuncName = pingName
    · simp [h', hp]
    · cases he : (d.run req (preset req)).err <;> simp [h', hp, he]

theorem invoke_dur (req : RequestPacket) (sub : Int) (d : Disp) :
    (invoke req sub d).dur = if (invoke req sub d).invoked then d.dur else 0 := rfl

/-- the dispatcher leaves version and request id as `Invoke` preset them (generated code assigns
    them from `tarsReq`, or returns an error without touching `*tarsResp`) -/
def Echoes (d : Disp) (req : RequestPacket) : Prop :=
  (d.run req (preset req)).rsp.iVersion = req.iVersion ∧
  (d.run req (preset req)).rsp.iRequestId = req.iRequestId

theorem invoke_rsp_identity (req : RequestPacket) (sub : Int) (d : Disp) (h : Echoes d req) :
    (invoke req sub d).rsp.iVersion = req.iVersion ∧ (invoke req sub d).rsp.iRequestId = req.iRequestId := by
  unfold invoke
  by_cases hq : queueExpired req sub = true
  · simp [hq, preset]
  · have h' : queueExpired req sub = false := by simpa using hq
    by_cases hp : req.sFuncName = pingName
    · simp [h', hp, preset]
    · cases he : (d.run req (preset req)).err <;> simp [h', hp, he, h.1, h.2]

/-! ### rsp2Byte -/

theorem rsp2Byte_id (v : Variant) (r : ResponsePacket) : (rsp2Byte v r).id = r.iRequestId := by
  unfold rsp2Byte; split <;> simp [Wire.id, req2Byte]

theorem rsp2Byte_version (v : Variant) (r : ResponsePacket) : (rsp2Byte v r).version = r.iVersion := by
  unfold rsp2Byte; split <;> simp [Wire.version, req2Byte]

theorem rsp2Byte_packetType (v : Variant) (r : ResponsePacket) : (rsp2Byte v r).packetType = r.cPacketType := by
  unfold rsp2Byte; split <;> simp [Wire.packetType, req2Byte]

theorem rsp2Byte_buffer (v : Variant) (r : ResponsePacket) : (rsp2Byte v r).buffer = r.sBuffer := by
  unfold rsp2Byte; split <;> simp [Wire.buffer, req2Byte]

/-- the answer is in the TUP encoding -/
def Wire.isTup : Wire → Bool
  | .rsp _ => false
  | .req _ => true

theorem rsp2Byte_isTup (v : Variant) (r : ResponsePacket) :
    (rsp2Byte v r).isTup = true ↔ r.iVersion = TUPVERSION := by
  unfold rsp2Byte; split <;> simp [Wire.isTup, *]

/-- a `ResponsePacket` answer always carries its return code; the TUP encoding does when the status
    rewrite is in place (or the code is 0 and the status map does not claim otherwise) -/
theorem rsp2Byte_carries (v : Variant) (r : ResponsePacket)
    (h : r.iVersion = TUPVERSION → (v.tupStatus = true ∧ r.iRet ≠ 0) ∨ (r.iRet = 0 ∧ lookup statusResultCode r.status = none)) :
    (rsp2Byte v r).Carries r.iRet r.sResultDesc := by
  unfold rsp2Byte
  split
  · rename_i ht
    rcases h ht with ⟨hv, hr⟩ | ⟨hr, hl⟩
    · simp only [Wire.Carries, req2Byte, hv, hr, ne_eq, not_false_eq_true, decide_true, Bool.and_self, if_true, if_false]
      refine ⟨?_, lookup_setKey_same _ _ _⟩
      rw [lookup_setKey_other _ _ _ statusKeys_ne, lookup_setKey_same]
    · simp [Wire.Carries, req2Byte, hr, hl]
  · simp [Wire.Carries]

/-! ### branches -/

theorem branches_noTimeout (cfg : Config) (dur : Nat) (h : cfg.handleTimeout = 0) :
    branches cfg dur = [.invokeWon] := by
  simp [branches, h, noHandleTimeout_eq]

theorem branches_fast (cfg : Config) (dur : Nat) (h : dur < cfg.handleTimeout) :
    branches cfg dur = [.invokeWon] := by
  unfold branches; split <;> simp [h]

theorem branches_slow (cfg : Config) (dur : Nat) (h0 : cfg.handleTimeout ≠ 0) (h : dur > cfg.handleTimeout) :
    branches cfg dur = [.timeoutWon false] := by
  unfold branches
  have h1 : ¬ cfg.handleTimeout = Consts.srvNoHandleTimeout := by rw [noHandleTimeout_eq]; exact h0
  have h2 : ¬ dur < cfg.handleTimeout := by omega
  have h3 : ¬ dur = cfg.handleTimeout := by omega
  simp [h1, h2, h3]

theorem branches_zero_dur (cfg : Config) : branches cfg 0 = [.invokeWon] := by
  by_cases h : cfg.handleTimeout = 0
  · exact branches_noTimeout cfg 0 h
  · exact branches_fast cfg 0 (by omega)

theorem mem_serveOne {v : Variant} {cfg : Config} {req : RequestPacket} {sub : Int} {d : Disp} {o : Outcome} :
    o ∈ serveOne v cfg req sub d ↔
      ∃ b ∈ branches cfg (invoke req sub d).dur, o = outcomeOf v req (invoke req sub d) b := by
  simp only [serveOne, List.mem_map]
  constructor
  · rintro ⟨b, hb, rfl⟩; exact ⟨b, hb, rfl⟩
  · rintro ⟨b, hb, rfl⟩; exact ⟨b, hb, rfl⟩

/-- when the dispatcher is not called, `Invoke` wins the race in every configuration -/
theorem serveOne_not_invoked (v : Variant) (cfg : Config) (req : RequestPacket) (sub : Int) (d : Disp)
    (h : (invoke req sub d).invoked = false) :
    serveOne v cfg req sub d = [outcomeOf v req (invoke req sub d) .invokeWon] := by
  have hd : (invoke req sub d).dur = 0 := by rw [invoke_dur, h]; rfl
  simp [serveOne, hd, branches_zero_dur]

/-- the only branch when there is no handle timeout or the dispatcher is faster -/
theorem serveOne_invokeWon (v : Variant) (cfg : Config) (req : RequestPacket) (sub : Int) (d : Disp)
    (h : cfg.handleTimeout = 0 ∨ d.dur < cfg.handleTimeout) :
    serveOne v cfg req sub d = [outcomeOf v req (invoke req sub d) .invokeWon] := by
  by_cases hi : (invoke req sub d).invoked = false
  · exact serveOne_not_invoked v cfg req sub d hi
  · have hd : (invoke req sub d).dur = d.dur := by
      rw [invoke_dur]; simp at hi; simp [hi]
    rcases h with h | h
    · simp [serveOne, branches_noTimeout _ _ h]
    · simp [serveOne, hd, branches_fast _ _ h]

/-! ### the handler -/

theorem handlerWrite_some (v : Variant) (w : Wire) (t : Int) :
    handlerWrite v (some w) t = if t = TARSONEWAY then [] else [some w] := by
  unfold handlerWrite; split <;> simp

/-- two-way: every outcome is exactly one packet (all variants, all configurations) provided
    `InvokeTimeout` answers; one-way: nothing, for the repaired transport -/
theorem outcome_sent_twoWay (v : Variant) (req : RequestPacket) (r : InvokeResult) (b : Branch)
    (hr : r.ctxType = req.cPacketType) (h2 : req.cPacketType = TARSNORMAL) :
    ∃ w, (outcomeOf v req r b).sent = [some w] := by
  have hne : req.cPacketType ≠ TARSONEWAY := by rw [h2]; exact normal_ne_oneway
  cases b with
  | invokeWon =>
    refine ⟨rsp2Byte v r.rsp, ?_⟩
    simp [outcomeOf, handlerWrite_some, hr, hne]
  | timeoutWon c =>
    have ht : ∃ w, invokeTimeout v req = some w := by
      unfold invokeTimeout
      by_cases hv : v.timeoutIdentity = true <;> simp [hv, hne]
    obtain ⟨w, hw⟩ := ht
    refine ⟨w, ?_⟩
    cases c <;> simp [outcomeOf, hw, handlerWrite_some, hr, hne, zero_ne_oneway]

theorem outcome_sent_oneWay (v : Variant) (hv : v.timeoutIdentity = true ∧ v.skipEmpty = true)
    (req : RequestPacket) (r : InvokeResult) (b : Branch)
    (hr : r.ctxType = req.cPacketType) (h1 : req.cPacketType = TARSONEWAY) :
    (outcomeOf v req r b).sent = [] := by
  cases b with
  | invokeWon => simp [outcomeOf, handlerWrite_some, hr, h1]
  | timeoutWon c =>
    have : invokeTimeout v req = none := by simp [invokeTimeout, hv.1, h1]
    cases c <;> simp [outcomeOf, this, handlerWrite, hv.2, hr, h1]

/-- the `ResponsePacket` of the repaired `InvokeTimeout` -/
def timeoutRsp (req : RequestPacket) : ResponsePacket :=
  { ResponsePacket.zero with
    iVersion := req.iVersion, cPacketType := req.cPacketType, iRequestId := req.iRequestId,
    iRet := invokeTimeoutRet, sResultDesc := timeoutDesc }

theorem mem_packets_invokeWon {v : Variant} {req : RequestPacket} {r : InvokeResult} {w : Wire}
    (h : w ∈ (outcomeOf v req r .invokeWon).packets) : w = rsp2Byte v r.rsp := by
  simp only [Outcome.packets, outcomeOf, handlerWrite_some] at h
  split at h
  · simp at h
  · simpa using h

theorem mem_packets_timeoutWon {v : Variant} (hv : v.timeoutIdentity = true ∧ v.skipEmpty = true)
    {req : RequestPacket} {r : InvokeResult} {c : Bool} {w : Wire}
    (h : w ∈ (outcomeOf v req r (.timeoutWon c)).packets) : w = rsp2Byte v (timeoutRsp req) := by
  by_cases h1 : req.cPacketType = TARSONEWAY
  · have hn : invokeTimeout v req = none := by simp [invokeTimeout, hv.1, h1]
    simp only [Outcome.packets, outcomeOf, hn, handlerWrite, hv.2] at h
    split at h <;> simp at h
  · have hs : invokeTimeout v req = some (rsp2Byte v (timeoutRsp req)) := by
      simp [invokeTimeout, hv.1, h1, timeoutRsp]
    simp only [Outcome.packets, outcomeOf, hs, handlerWrite_some] at h
    generalize (if c = true then r.ctxType else 0) = t at h
    by_cases ht : t = TARSONEWAY
    · simp [ht] at h
    · simpa [ht] using h

/-! ### counting over a batch -/

theorem written_cons (o : Outcome) (os : List Outcome) : written (o :: os) = o.packets ++ written os := by
  simp [written]

end Tars.ServerInvoke
