import TarsModel.Model.Cost
import TarsModel.Proofs.TotalShape

/-!
  C05 helper lemmas, part 8: the instrumented decoders of `Model/Cost.lean` compute the original
  results; bounds and witnesses for the call depth of the skip family.
-/
namespace Tars
open Consts

/-- the instrumented skip family returns exactly the original results -/
theorem skipD_eq : ∀ f : Nat,
    (∀ ty r, (skipFieldD f ty r).1 = skipField f ty r) ∧
    (∀ n r, (skipElemsD f n r).1 = skipElems f n r) ∧
    (∀ r, (skipToStructEndD f r).1 = skipToStructEnd f r) := by
  intro f
  induction f with
  | zero =>
    refine ⟨?_, ?_, ?_⟩ <;> intros <;>
      simp [skipFieldD, skipElemsD, skipToStructEndD, skipField, skipElems, skipToStructEnd, RM.fail]
  | succ f ih =>
    obtain ⟨ihF, ihE, ihS⟩ := ih
    refine ⟨?_, ?_, ?_⟩
    · intro ty r
      rw [skipField_succ]
      simp only [skipFieldD]
      split
      · cases hb : readLen r with
        | mk res r1 => cases res <;> simp only [ihE]
      · split
        · cases hb : readLen r with
          | mk res r1 => cases res <;> simp only [ihE]
        · split
          · simp only [ihS]
          · rfl
    · intro n r
      simp only [skipElemsD, skipElems]
      split
      · rfl
      · cases hb : readHead r with
        | mk res r1 =>
          cases res with
          | error e => rfl
          | ok p =>
            obtain ⟨tyCur, tg⟩ := p
            simp only [ihE, ihF]
    · intro r
      simp only [skipToStructEndD, skipToStructEnd]
      cases hb : readHead r with
      | mk res r1 =>
        cases res with
        | error e => rfl
        | ok p =>
          obtain ⟨ty, tg⟩ := p
          simp only
          have := ihF ty r1
          cases hc : skipFieldD f ty r1 with
          | mk x d =>
            rw [hc] at this
            simp only at this
            rw [← this]
            obtain ⟨res2, r2⟩ := x
            cases res2 with
            | error e => rfl
            | ok u =>
              simp only
              split
              · rfl
              · simp only [ihS]

/-- **Depth bound**: at most one `skipField` frame per remaining input byte (plus the entry
    frame), for any fuel -/
theorem skipD_le : ∀ f : Nat,
    (∀ ty (r : Reader), (skipFieldD f ty r).2 ≤ r.remaining + 1) ∧
    (∀ n (r : Reader), (skipElemsD f n r).2 ≤ r.remaining) ∧
    (∀ r : Reader, (skipToStructEndD f r).2 ≤ r.remaining) := by
  intro f
  induction f with
  | zero =>
    refine ⟨?_, ?_, ?_⟩ <;> intros <;> simp [skipFieldD, skipElemsD, skipToStructEndD]
  | succ f ih =>
    obtain ⟨ihF, ihE, ihS⟩ := ih
    refine ⟨?_, ?_, ?_⟩
    · intro ty r
      simp only [skipFieldD]
      split
      · cases hb : readLen r with
        | mk res r1 =>
          cases res with
          | error e => simp
          | ok len =>
            have := (readLen_ok hb).remaining
            have := ihE (wrapS 32 (len * 2)) r1
            simp only; omega
      · split
        · cases hb : readLen r with
          | mk res r1 =>
            cases res with
            | error e => simp
            | ok len =>
              have := (readLen_ok hb).remaining
              have := ihE len r1
              simp only; omega
        · split
          · have := ihS r
            simp only; omega
          · simp
    · intro n r
      simp only [skipElemsD]
      split
      · simp
      · cases hb : readHead r with
        | mk res r1 =>
          cases res with
          | error e => simp
          | ok p =>
            obtain ⟨tyCur, tg⟩ := p
            have h1 := (readHead_ok hb).1.remaining
            have h2 := ihF tyCur r1
            have h3 := ihE (n - 1) (skipFieldD f tyCur r1).1.2
            have h4 : (skipFieldD f tyCur r1).1.2.remaining ≤ r1.remaining := by
              rw [(skipD_eq f).1]; exact ((skip_family_le f).1 tyCur r1).remaining
            simp only
            omega
    · intro r
      simp only [skipToStructEndD]
      cases hb : readHead r with
      | mk res r1 =>
        cases res with
        | error e => simp
        | ok p =>
          obtain ⟨ty, tg⟩ := p
          have h1 := (readHead_ok hb).1.remaining
          have h2 := ihF ty r1
          have h4 : (skipFieldD f ty r1).1.2.remaining ≤ r1.remaining := by
            rw [(skipD_eq f).1]; exact ((skip_family_le f).1 ty r1).remaining
          simp only
          cases hc : skipFieldD f ty r1 with
          | mk x d =>
            rw [hc] at h2 h4
            obtain ⟨res2, r2⟩ := x
            cases res2 with
            | error e => simp only; simp only at h2; omega
            | ok u =>
              simp only
              split
              · simp only at h2; omega
              · have h3 := ihS r2
                simp only at h2 h4 ⊢
                omega



/-- `n` nested StructBegin heads (tag 0): the byte `0x0A` repeated -/
def nestBytes (n : Nat) : Bytes := List.replicate n (byte 0x0A)

theorem readHead_nest (n p : Nat) (h : p < n) :
    readHead ⟨(nestBytes n).toArray, p⟩ = (.ok (tyStructBegin, 0), ⟨(nestBytes n).toArray, p + 1⟩) := by
  have hb : (nestBytes n).toArray[p]? = some (byte 0x0A) := by
    simp [nestBytes, h]
  simp [readHead, readByte, hb, extTagRead, tyStructBegin]

theorem readHead_nest_end (n : Nat) :
    readHead ⟨(nestBytes n).toArray, n⟩ = (.error .eof, ⟨(nestBytes n).toArray, n⟩) := by
  have hb : (nestBytes n).toArray[n]? = none := by simp [nestBytes]
  simp [readHead, readByte, hb]

theorem structEndD_nest (n : Nat) : ∀ (k fuel p : Nat), p + k = n → 2 * k + 1 ≤ fuel →
    skipToStructEndD fuel ⟨(nestBytes n).toArray, p⟩ =
      ((.error .eof, ⟨(nestBytes n).toArray, n⟩), k) := by
  intro k
  induction k with
  | zero =>
    intro fuel p hp hf
    obtain ⟨f', rfl⟩ : ∃ f', fuel = f' + 1 := ⟨fuel - 1, by omega⟩
    have : p = n := by omega
    subst this
    simp only [skipToStructEndD, readHead_nest_end]
  | succ k ih =>
    intro fuel p hp hf
    obtain ⟨f', rfl⟩ : ∃ f', fuel = f' + 2 := ⟨fuel - 2, by omega⟩
    have hlt : p < n := by omega
    have := ih f' (p + 1) (by omega) (by omega)
    simp only [skipToStructEndD, readHead_nest n p hlt, skipFieldD, this]
    simp [tyStructBegin, tyMAP, tyLIST]

/-- **Linear witness (D12)**: on `n` bytes `0x0A` the recursion below `SkipToStructEnd` is `n`
    `skipField` frames deep -/
theorem structEndDepth_nest (n : Nat) : structEndDepth (Reader.mk0 (nestBytes n)) = n := by
  unfold structEndDepth Reader.mk0
  rw [structEndD_nest n n _ 0 (by omega) (by simp [Reader.fuel, nestBytes])]

theorem skipDepth_nest (n : Nat) : skipDepth tyStructBegin (Reader.mk0 (nestBytes n)) = n + 1 := by
  unfold skipDepth Reader.mk0
  rw [Reader.fuel_succ]
  simp only [skipFieldD]
  rw [structEndD_nest n n _ 0 (by omega) (by simp [nestBytes])]
  simp [tyStructBegin, tyMAP, tyLIST]

end Tars
