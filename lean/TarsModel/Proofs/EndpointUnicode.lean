/-
  The `unicode.IsSpace` path of the `strings.Fields` model: tokens with arbitrary (also non-ASCII,
  also malformed UTF-8) bytes.  Main results: `fields = fieldsUnicode` on every string, and
  `fieldsU_pairs`: blank-separated tokens in which Go's decoder finds no white space are exactly
  the fields.
-/
import TarsModel.Proofs.EndpointFields

namespace Tars.Endpoint
open Tars

theorem decodeRune_ascii (b : Byte) (rest : Bytes) (h : b.val < 128) : decodeRune b rest = (b.val, 0) := by
  unfold decodeRune; simp [h]

theorem isSpaceRune_ascii (b : Byte) (h : b.val < 128) : isSpaceRune b.val = isAsciiSpace b := by
  have e1 : ¬ b.val = 133 := by omega
  have e2 : ¬ b.val = 160 := by omega
  have e3 : ¬ b.val = 5760 := by omega
  have e4 : ¬ 8192 ≤ b.val := by omega
  have e5 : ¬ b.val = 8232 := by omega
  have e6 : ¬ b.val = 8233 := by omega
  have e7 : ¬ b.val = 8239 := by omega
  have e8 : ¬ b.val = 8287 := by omega
  have e9 : ¬ b.val = 12288 := by omega
  simp [isSpaceRune, isAsciiSpace, e1, e2, e3, e4, e5, e6, e7, e8, e9]

theorem fieldsUniAux_nil (cur : Bytes) : fieldsUniAux [] cur = if cur = [] then [] else [cur] := by
  rw [fieldsUniAux.eq_def]

theorem fieldsUniAux_cons (b : Byte) (rest cur : Bytes) :
    fieldsUniAux (b :: rest) cur =
      if isSpaceRune (decodeRune b rest).1 then
        (if cur = [] then fieldsUniAux (rest.drop (decodeRune b rest).2) []
         else cur :: fieldsUniAux (rest.drop (decodeRune b rest).2) [])
      else fieldsUniAux (rest.drop (decodeRune b rest).2) (cur ++ b :: rest.take (decodeRune b rest).2) := by
  conv => lhs; rw [fieldsUniAux.eq_def]

theorem ite_snd_le {p : Prop} [Decidable p] (a b w n : Nat) (h : w ≤ n) :
    (if p then (a, w) else (b, 0)).2 ≤ n := by
  split <;> simp [h]

/-- on ASCII strings the two paths of `strings.Fields` agree -/
theorem fieldsAux_eq_uni (s cur : Bytes) (h : allAscii s = true) : fieldsAux s cur = fieldsUniAux s cur := by
  induction s generalizing cur with
  | nil => rw [fieldsUniAux_nil]; rfl
  | cons b s ih =>
    unfold allAscii at h
    rw [List.all_cons, Bool.and_eq_true, decide_eq_true_eq] at h
    have hs : allAscii s = true := h.2
    rw [fieldsUniAux_cons]
    unfold fieldsAux
    simp only [decodeRune_ascii b s h.1, isSpaceRune_ascii b h.1, List.drop_zero, List.take_zero]
    rw [ih _ hs, ih _ hs]

theorem fields_eq_unicode (s : Bytes) : fields s = fieldsUnicode s := by
  unfold fields
  split
  · rename_i h; unfold fieldsAscii fieldsUnicode; exact fieldsAux_eq_uni s [] h
  · rfl

/-- the decoder never looks past an ASCII byte: what follows it does not matter -/
theorem decodeRune_append_ascii (c : Byte) (rest r : Bytes) (b : Byte) (hb : b.val < 128) :
    decodeRune c (rest ++ b :: r) = decodeRune c rest := by
  have nb : isCont b = false := by
    unfold isCont; simp only [Bool.and_eq_false_iff, decide_eq_false_iff_not]; omega
  unfold decodeRune
  simp only
  split
  · rfl
  · split
    · cases rest with
      | nil => simp [nb]
      | cons b1 t => rfl
    · split
      · match rest with
        | [] =>
          simp only [List.nil_append]
          cases r with
          | nil => rfl
          | cons b2 r' =>
            simp only
            rw [if_neg]
            intro h; split at h <;> omega
        | [b1] => simp [nb]
        | b1 :: b2 :: t => rfl
      · split
        · match rest with
          | [] =>
            simp only [List.nil_append]
            match r with
            | [] => rfl
            | [_] => rfl
            | b2 :: b3 :: r' =>
              simp only
              rw [if_neg]
              intro h; split at h <;> omega
          | [b1] =>
            simp only [List.cons_append, List.nil_append]
            cases r with
            | nil => rfl
            | cons b3 r' => simp [nb]
          | [b1, b2] => simp [nb]
          | b1 :: b2 :: b3 :: t => rfl
        · rfl

/-- the decoder consumes only bytes that are there -/
theorem decodeRune_width (c : Byte) (rest : Bytes) : (decodeRune c rest).2 ≤ rest.length := by
  unfold decodeRune
  simp only
  split
  · simp
  · split
    · cases rest with
      | nil => simp
      | cons b1 t => exact ite_snd_le _ _ _ _ (by simp)
    · split
      · match rest with
        | [] => simp
        | [_] => simp
        | b1 :: b2 :: t => exact ite_snd_le _ _ _ _ (by simp)
      · split
        · match rest with
          | [] => simp
          | [_] => simp
          | [_, _] => simp
          | b1 :: b2 :: b3 :: t => exact ite_snd_le _ _ _ _ (by simp)
        · simp

/-- Go's decoder finds no white-space rune in `s` -/
def uniNoSpace (s : Bytes) : Bool :=
  match s with
  | [] => true
  | b :: rest => !isSpaceRune (decodeRune b rest).1 && uniNoSpace (rest.drop (decodeRune b rest).2)
termination_by s.length
decreasing_by simp only [List.length_drop, List.length_cons]; omega

theorem uniNoSpace_nil : uniNoSpace [] = true := by rw [uniNoSpace.eq_def]

theorem uniNoSpace_cons (b : Byte) (rest : Bytes) :
    uniNoSpace (b :: rest) =
      (!isSpaceRune (decodeRune b rest).1 && uniNoSpace (rest.drop (decodeRune b rest).2)) := by
  conv => lhs; rw [uniNoSpace.eq_def]

/-- the remainder of the string after a token: nothing, or something that starts with an ASCII byte -/
def AsciiStart (r : Bytes) : Prop := r = [] ∨ ∃ b r', r = b :: r' ∧ b.val < 128

theorem decodeRune_append (c : Byte) (rest r : Bytes) (hr : AsciiStart r) :
    decodeRune c (rest ++ r) = decodeRune c rest := by
  rcases hr with hr | ⟨b, r', hr, hb⟩
  · subst hr; simp
  · subst hr; exact decodeRune_append_ascii c rest r' b hb

/-- a token without white space is collected as a whole -/
theorem fieldsUniAux_tok (t r cur : Bytes) (ht : uniNoSpace t = true) (hr : AsciiStart r) :
    fieldsUniAux (t ++ r) cur = fieldsUniAux r (cur ++ t) := by
  induction hn : t.length using Nat.strongRecOn generalizing t cur with
  | _ n ih =>
    cases t with
    | nil => simp
    | cons c rest =>
      rw [uniNoSpace_cons, Bool.and_eq_true, Bool.not_eq_true'] at ht
      have hw := decodeRune_width c rest
      rw [List.cons_append, fieldsUniAux_cons]
      simp only [decodeRune_append c rest r hr, ht.1, Bool.false_eq_true, if_false]
      have hd : List.drop (decodeRune c rest).2 (rest ++ r) = List.drop (decodeRune c rest).2 rest ++ r := by
        rw [List.drop_append_of_le_length hw]
      have htk : List.take (decodeRune c rest).2 (rest ++ r) = List.take (decodeRune c rest).2 rest := by
        rw [List.take_append_of_le_length hw]
      rw [hd, htk, ih _ (by subst hn; simp only [List.length_drop, List.length_cons]; omega) _ _ ht.2 rfl]
      congr 1
      rw [List.append_assoc, List.cons_append, List.take_append_drop]

theorem fieldsUniAux_blank_nil (s r : Bytes) (h : Blank s) : fieldsUniAux (s ++ r) [] = fieldsUniAux r [] := by
  induction s with
  | nil => simp
  | cons b s ih =>
    have hb : isAsciiSpace b = true := h b (by simp)
    have hlt := isAsciiSpace_lt hb
    have hs : Blank s := fun x hx => h x (by simp [hx])
    rw [List.cons_append, fieldsUniAux_cons]
    simp only [decodeRune_ascii b _ hlt, isSpaceRune_ascii b hlt, hb, if_true, List.drop_zero]
    exact ih hs

theorem fieldsUniAux_blank (s r cur : Bytes) (h : Blank s) (hs : s ≠ []) (hc : cur ≠ []) :
    fieldsUniAux (s ++ r) cur = cur :: fieldsUniAux r [] := by
  cases s with
  | nil => exact absurd rfl hs
  | cons b s =>
    have hb : isAsciiSpace b = true := h b (by simp)
    have hlt := isAsciiSpace_lt hb
    have hs' : Blank s := fun x hx => h x (by simp [hx])
    rw [List.cons_append, fieldsUniAux_cons]
    simp only [decodeRune_ascii b _ hlt, isSpaceRune_ascii b hlt, hb, if_true, List.drop_zero, hc, if_false]
    rw [fieldsUniAux_blank_nil s r hs']

theorem fieldsUniAux_trail (trail cur : Bytes) (h : Blank trail) (hc : cur ≠ []) :
    fieldsUniAux trail cur = [cur] := by
  cases trail with
  | nil => rw [fieldsUniAux_nil]; simp [hc]
  | cons b s =>
    have := fieldsUniAux_blank (b :: s) [] cur h (by simp) hc
    rw [List.append_nil] at this
    rw [this, fieldsUniAux_nil]; rfl

theorem Blank.asciiStart_append {s : Bytes} (h : Blank s) (hne : s ≠ []) (r : Bytes) : AsciiStart (s ++ r) := by
  cases s with
  | nil => exact absurd rfl hne
  | cons b s' => exact Or.inr ⟨b, s' ++ r, rfl, isAsciiSpace_lt (h b (by simp))⟩

theorem Blank.asciiStart {s : Bytes} (h : Blank s) : AsciiStart s := by
  cases s with
  | nil => exact Or.inl rfl
  | cons b s' => exact Or.inr ⟨b, s', rfl, isAsciiSpace_lt (h b (by simp))⟩

/-- a token: non-empty and free of white space as Go decodes it -/
def TokU (t : Bytes) : Prop := t ≠ [] ∧ uniNoSpace t = true

theorem renderPairs_asciiStart (ps : List (Bytes × Bytes)) (trail : Bytes)
    (hps : ∀ p ∈ ps, Blank p.1 ∧ p.1 ≠ [] ∧ TokU p.2) (ht : Blank trail) :
    AsciiStart (renderPairs ps ++ trail) := by
  cases ps with
  | nil => simpa [renderPairs] using ht.asciiStart
  | cons p ps =>
    obtain ⟨hb, hne, _⟩ := hps p (by simp)
    have e : renderPairs (p :: ps) ++ trail = p.1 ++ (p.2 ++ (renderPairs ps ++ trail)) := by
      simp [renderPairs, List.append_assoc]
    rw [e]; exact hb.asciiStart_append hne _

/-- blank-separated white-space-free tokens are exactly the fields (unicode path) -/
theorem fieldsU_pairs (ps : List (Bytes × Bytes)) (trail cur : Bytes)
    (hps : ∀ p ∈ ps, Blank p.1 ∧ p.1 ≠ [] ∧ TokU p.2) (ht : Blank trail) (hc : cur ≠ []) :
    fieldsUniAux (renderPairs ps ++ trail) cur = cur :: ps.map (·.2) := by
  induction ps generalizing cur with
  | nil => simpa [renderPairs] using fieldsUniAux_trail trail cur ht hc
  | cons p ps ih =>
    obtain ⟨hb, hne, htok⟩ := hps p (by simp)
    have hps' : ∀ q ∈ ps, Blank q.1 ∧ q.1 ≠ [] ∧ TokU q.2 := fun q hq => hps q (by simp [hq])
    have e : renderPairs (p :: ps) ++ trail = p.1 ++ (p.2 ++ (renderPairs ps ++ trail)) := by
      simp [renderPairs, List.append_assoc]
    rw [e, fieldsUniAux_blank _ _ _ hb hne hc,
      fieldsUniAux_tok _ _ _ htok.2 (renderPairs_asciiStart ps trail hps' ht)]
    rw [List.nil_append, ih p.2 hps' htok.1]
    simp

/-- `strings.Fields` of a token followed by blank-separated tokens, any bytes -/
theorem fieldsU_render (first : Bytes) (ps : List (Bytes × Bytes)) (trail : Bytes)
    (hf : TokU first) (hps : ∀ p ∈ ps, Blank p.1 ∧ p.1 ≠ [] ∧ TokU p.2) (ht : Blank trail) :
    fields (first ++ renderPairs ps ++ trail) = first :: ps.map (·.2) := by
  rw [fields_eq_unicode]
  unfold fieldsUnicode
  rw [List.append_assoc, fieldsUniAux_tok _ _ _ hf.2 (renderPairs_asciiStart ps trail hps ht), List.nil_append]
  exact fieldsU_pairs ps trail first hps ht hf.1

/-! ## which strings are tokens -/

/-- ASCII tokens without ASCII blanks -/
theorem Tok.tokU {t : Bytes} (h : Tok t) : TokU t := by
  refine ⟨h.1, ?_⟩
  have h2 := h.2
  clear h
  induction t with
  | nil => exact uniNoSpace_nil
  | cons b t ih =>
    have hb := h2 b (by simp)
    rw [uniNoSpace_cons]
    simp only [decodeRune_ascii b t hb.2, isSpaceRune_ascii b hb.2, hb.1, Bool.not_false, Bool.true_and,
      List.drop_zero]
    exact ih (fun x hx => h2 x (by simp [hx]))

/-- an ASCII blank-free prefix keeps a token a token (`-h=` in front of a host) -/
theorem tokU_append (a t : Bytes) (ha : Tok a) (ht : uniNoSpace t = true) : TokU (a ++ t) := by
  refine ⟨by simp [ha.1], ?_⟩
  have h2 := ha.2
  clear ha
  induction a with
  | nil => simpa using ht
  | cons b a ih =>
    have hb := h2 b (by simp)
    rw [List.cons_append, uniNoSpace_cons]
    simp only [decodeRune_ascii b _ hb.2, isSpaceRune_ascii b hb.2, hb.1, Bool.not_false, Bool.true_and,
      List.drop_zero]
    exact ih (fun x hx => h2 x (by simp [hx]))

/-- number of bytes in a list of fields -/
def total (l : List Bytes) : Nat := (l.map List.length).sum

theorem total_fieldsUniAux (s cur : Bytes) : total (fieldsUniAux s cur) ≤ cur.length + s.length := by
  induction hn : s.length using Nat.strongRecOn generalizing s cur with
  | _ n ih =>
    cases s with
    | nil => rw [fieldsUniAux_nil]; split <;> simp [total]
    | cons b rest =>
      have hw := decodeRune_width b rest
      have hlen : (rest.drop (decodeRune b rest).2).length < n := by
        subst hn; simp only [List.length_drop, List.length_cons]; omega
      have e : (rest.take (decodeRune b rest).2).length + (rest.drop (decodeRune b rest).2).length = rest.length := by
        rw [← List.length_append, List.take_append_drop]
      rw [fieldsUniAux_cons]
      split
      · split
        · have := ih _ hlen (rest.drop (decodeRune b rest).2) [] rfl
          simp only [List.length_cons, List.length_nil] at this hn ⊢
          omega
        · have := ih _ hlen (rest.drop (decodeRune b rest).2) [] rfl
          simp only [total, List.map_cons, List.sum_cons, List.length_cons, List.length_nil] at this hn ⊢
          omega
      · have := ih _ hlen (rest.drop (decodeRune b rest).2) (cur ++ b :: rest.take (decodeRune b rest).2) rfl
        simp only [List.length_cons, List.length_append] at this hn ⊢
        omega

/-- if the fields of `cur ++ t` (with `cur` already collected) are the single field `cur ++ t`, the
    decoder found no white space in `t` -/
theorem uniNoSpace_of_single (t cur : Bytes) (h : fieldsUniAux t cur = [cur ++ t]) : uniNoSpace t = true := by
  induction hn : t.length using Nat.strongRecOn generalizing t cur with
  | _ n ih =>
    cases t with
    | nil => exact uniNoSpace_nil
    | cons b rest =>
      have hw := decodeRune_width b rest
      have hlen : (rest.drop (decodeRune b rest).2).length < n := by
        subst hn; simp only [List.length_drop, List.length_cons]; omega
      have hdl : (rest.drop (decodeRune b rest).2).length = rest.length - (decodeRune b rest).2 := by simp
      rw [fieldsUniAux_cons] at h
      rw [uniNoSpace_cons]
      by_cases hsp : isSpaceRune (decodeRune b rest).1 = true
      · exfalso
        have hb := total_fieldsUniAux (rest.drop (decodeRune b rest).2) []
        simp only [hsp, if_true] at h
        split at h
        · rw [h] at hb
          simp only [total, List.map_cons, List.map_nil, List.sum_cons, List.sum_nil, List.length_append,
            List.length_cons, List.length_nil, hdl] at hb
          omega
        · have h2 := congrArg total h
          simp only [total, List.map_cons, List.map_nil, List.sum_cons, List.sum_nil, List.length_append,
            List.length_cons] at h2
          simp only [total, List.length_nil, hdl] at hb
          omega
      · simp only [hsp, Bool.false_eq_true, if_false] at h
        simp only [hsp, Bool.not_false, Bool.true_and]
        refine ih _ hlen _ (cur ++ b :: rest.take (decodeRune b rest).2) ?_ rfl
        rw [h, List.append_assoc, List.cons_append, List.take_append_drop]

/-- a string that `strings.Fields` returns as its own single field is a token -/
theorem tokU_of_fields (t : Bytes) (h : fields t = [t]) : TokU t := by
  rw [fields_eq_unicode] at h
  unfold fieldsUnicode at h
  refine ⟨?_, uniNoSpace_of_single t [] (by simpa using h)⟩
  intro ht; subst ht
  rw [fieldsUniAux_nil] at h
  simp at h

end Tars.Endpoint
