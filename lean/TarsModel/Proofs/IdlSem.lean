/-
  Semantic analysis and the generator's acceptance conditions succeed on every syntax tree that
  satisfies the semantic side conditions of the language (`semOK`).
-/
import TarsModel.Model.Idl

namespace Tars.Idl

theorem mapRes_ok {α β : Type} (f : α → Res β) (l : List α) (h : ∀ a ∈ l, ∃ b, f a = .ok b) :
    ∃ bs, mapRes f l = .ok bs := by
  induction l with
  | nil => exact ⟨[], rfl⟩
  | cons a as ih =>
    obtain ⟨b, hb⟩ := h a (List.mem_cons_self ..)
    obtain ⟨bs, hbs⟩ := ih (fun x hx => h x (List.mem_cons_of_mem _ hx))
    refine ⟨b :: bs, ?_⟩
    unfold mapRes
    rw [hb, hbs]
    rfl

/-- `mapRes` with a function that keeps a projection: the projection of the result -/
theorem mapRes_proj {α β γ : Type} (f : α → Res β) (pa : α → γ) (pb : β → γ)
    (hp : ∀ a b, f a = .ok b → pb b = pa a) (l : List α) (bs : List β) (h : mapRes f l = .ok bs) :
    bs.map pb = l.map pa := by
  induction l generalizing bs with
  | nil => unfold mapRes at h; cases h; rfl
  | cons a as ih =>
    unfold mapRes at h
    cases hfa : f a with
    | ok b =>
      rw [hfa] at h
      cases has : mapRes f as with
      | ok bs' =>
        rw [has] at h
        simp only [Res.bind_ok, Res.pure_eq] at h
        cases h
        simp [hp a b hfa, ih bs' has]
      | diag d => rw [has] at h; cases h
      | hang => rw [has] at h; cases h
      | unsupported w => rw [has] at h; cases h
    | diag d => rw [hfa] at h; cases h
    | hang => rw [hfa] at h; cases h
    | unsupported w => rw [hfa] at h; cases h

/-- a declared name is resolved by `FindTNameType` -/
theorem findTName_declared (m : Module) (n : Bytes) (h : nameDeclared m n = true) :
    findTName m (m.name ++ [58, 58] ++ n) ≠ .unresolved := by
  simp only [nameDeclared, Bool.and_eq_true, Bool.or_eq_true, decide_eq_true_eq] at h
  unfold findTName
  by_cases hs : (m.structs.any fun st => m.name ++ [58, 58] ++ st.name = m.name ++ [58, 58] ++ n) = true
  · rw [if_pos hs]; simp
  · rw [if_neg hs]
    have he : (m.enums.any fun e => m.name ++ [58, 58] ++ e.name = m.name ++ [58, 58] ++ n) = true := by
      rcases h.2 with h2 | h2
      · exfalso; apply hs
        simp only [List.any_eq_true, decide_eq_true_eq] at h2 ⊢
        obtain ⟨st, hst, heq⟩ := h2
        exact ⟨st, hst, by rw [heq]⟩
      · simp only [List.any_eq_true, decide_eq_true_eq] at h2 ⊢
        obtain ⟨e, he, heq⟩ := h2
        exact ⟨e, he, by rw [heq]⟩
    rw [if_pos he]; simp

/-- `checkDepTName` succeeds on a type all of whose names are declared (with the array repair;
as found, arrays are passed through unchecked) -/
theorem checkDepTName_ok (v : Variant) (m : Module) (t : VarType)
    (h : t.names.all (nameDeclared m) = true) : ∃ t', checkDepTName v m t = .ok t' := by
  induction t with
  | prim p u => exact ⟨_, by unfold checkDepTName; rfl⟩
  | named n c =>
    simp only [VarType.names, List.all_cons, List.all_nil, Bool.and_true] at h
    have hc : countColon2 n = 0 := by
      simp only [nameDeclared, Bool.and_eq_true, decide_eq_true_eq] at h; exact h.1
    have := findTName_declared m n h
    unfold checkDepTName
    simp only [hc, if_true]
    cases hq : findTName m (m.name ++ [58, 58] ++ n) with
    | unresolved => exact absurd hq this
    | struct => exact ⟨_, rfl⟩
    | enum => exact ⟨_, rfl⟩
  | vector k ih =>
    obtain ⟨k', hk⟩ := ih h
    exact ⟨.vector k', by unfold checkDepTName; rw [hk]; rfl⟩
  | map k x ihk ihx =>
    simp only [VarType.names, List.all_append, Bool.and_eq_true] at h
    obtain ⟨k', hk⟩ := ihk h.1
    obtain ⟨x', hx⟩ := ihx h.2
    exact ⟨.map k' x', by unfold checkDepTName; rw [hk, hx]; rfl⟩
  | array k l ih =>
    obtain ⟨k', hk⟩ := ih h
    unfold checkDepTName
    split
    · exact ⟨.array k' l, by rw [hk]; rfl⟩
    · exact ⟨_, rfl⟩

theorem resolveEnumDefault_ok (v : Variant) (m : Module) (d : Bytes) (h : defaultResolvable m d = true) :
    ∃ r, resolveEnumDefault v m d = .ok r := by
  simp only [defaultResolvable, decide_eq_true_eq] at h
  unfold resolveEnumDefault
  simp only
  match hq : enumHits (if hasColon2 d then splitSecond d else d) m.enums, h with
  | [(e, mb)], _ => exact ⟨_, rfl⟩

theorem mapRes_mem {α β : Type} (f : α → Res β) (l : List α) (bs : List β) (h : mapRes f l = .ok bs) :
    ∀ b ∈ bs, ∃ a ∈ l, f a = .ok b := by
  induction l generalizing bs with
  | nil => unfold mapRes at h; cases h; simp
  | cons a as ih =>
    unfold mapRes at h
    cases hfa : f a with
    | ok b0 =>
      rw [hfa] at h
      cases has : mapRes f as with
      | ok bs' =>
        rw [has] at h
        simp only [Res.bind_ok, Res.pure_eq] at h
        cases h
        intro b hb
        rcases List.mem_cons.mp hb with rfl | hb
        · exact ⟨a, List.mem_cons_self .., hfa⟩
        · obtain ⟨a', ha', hfa'⟩ := ih bs' has b hb
          exact ⟨a', List.mem_cons_of_mem _ ha', hfa'⟩
      | diag d => rw [has] at h; cases h
      | hang => rw [has] at h; cases h
      | unsupported w => rw [has] at h; cases h
    | diag d => rw [hfa] at h; cases h
    | hang => rw [hfa] at h; cases h
    | unsupported w => rw [hfa] at h; cases h

theorem any_name_congr {α β : Type} (l1 : List α) (l2 : List β) (n1 : α → Bytes) (n2 : β → Bytes)
    (h : l1.map n1 = l2.map n2) (n : Bytes) :
    l1.any (fun x => n1 x = n) = l2.any (fun x => n2 x = n) := by
  have e1 : l1.any (fun x => n1 x = n) = (l1.map n1).any (fun y => y = n) := by
    rw [List.any_map]; rfl
  have e2 : l2.any (fun x => n2 x = n) = (l2.map n2).any (fun y => y = n) := by
    rw [List.any_map]; rfl
  rw [e1, e2, h]

theorem nameDeclared_congr (m m' : Module) (hs : m'.structs.map (·.name) = m.structs.map (·.name))
    (he : m'.enums = m.enums) (n : Bytes) : nameDeclared m' n = nameDeclared m n := by
  unfold nameDeclared
  rw [any_name_congr m'.structs m.structs (·.name) (·.name) hs n, he]

theorem analyzeDefaultMember_type (v : Variant) (m : Module) (x x' : StructMember)
    (h : analyzeDefaultMember v m x = .ok x') : x'.type = x.type := by
  unfold analyzeDefaultMember at h
  split at h
  · cases hq : resolveEnumDefault v m x.dflt with
    | ok d => rw [hq] at h; simp only [Res.bind_ok, Res.pure_eq] at h; cases h; rfl
    | diag d => rw [hq] at h; cases h
    | hang => rw [hq] at h; cases h
    | unsupported w => rw [hq] at h; cases h
  · cases h; rfl

theorem analyzeDefaultMember_ok (v : Variant) (m : Module) (x : StructMember)
    (h : (!(x.dflt ≠ [] && x.defType = .name) || defaultResolvable m x.dflt) = true) :
    ∃ x', analyzeDefaultMember v m x = .ok x' := by
  unfold analyzeDefaultMember
  split
  · rename_i hc
    simp only [hc, Bool.not_true, Bool.false_or] at h
    obtain ⟨d, hd⟩ := resolveEnumDefault_ok v m x.dflt h
    exact ⟨_, by rw [hd]; rfl⟩
  · exact ⟨_, rfl⟩

theorem defaultsOf_name (v : Variant) (m : Module) (st st' : Struct) (h : defaultsOf v m st = .ok st') :
    st'.name = st.name := by
  unfold defaultsOf at h
  cases hq : mapRes (analyzeDefaultMember v m) st.mb with
  | ok mb => rw [hq] at h; simp only [Res.bind_ok, Res.pure_eq] at h; cases h; rfl
  | diag d => rw [hq] at h; cases h
  | hang => rw [hq] at h; cases h
  | unsupported w => rw [hq] at h; cases h

theorem defaultsOf_types (v : Variant) (m : Module) (st st' : Struct) (h : defaultsOf v m st = .ok st') :
    ∀ x' ∈ st'.mb, ∃ x ∈ st.mb, x'.type = x.type := by
  unfold defaultsOf at h
  cases hq : mapRes (analyzeDefaultMember v m) st.mb with
  | ok mb =>
    rw [hq] at h; simp only [Res.bind_ok, Res.pure_eq] at h; cases h
    intro x' hx'
    obtain ⟨x, hx, hfx⟩ := mapRes_mem _ _ _ hq x' hx'
    exact ⟨x, hx, analyzeDefaultMember_type v m x x' hfx⟩
  | diag d => rw [hq] at h; cases h
  | hang => rw [hq] at h; cases h
  | unsupported w => rw [hq] at h; cases h

theorem typesOf_ok (v : Variant) (m1 : Module) (st : Struct)
    (h : ∀ x ∈ st.mb, x.type.names.all (nameDeclared m1) = true) : ∃ st', typesOf v m1 st = .ok st' := by
  unfold typesOf
  obtain ⟨mb, hmb⟩ := mapRes_ok (fun (x : StructMember) => do
      let t ← checkDepTName v m1 x.type
      pure { x with type := t }) st.mb (by
    intro x hx
    obtain ⟨t, ht⟩ := checkDepTName_ok v m1 x.type (h x hx)
    exact ⟨_, by simp only [ht]; rfl⟩)
  exact ⟨_, by rw [hmb]; rfl⟩

theorem defaultsOf_ok (v : Variant) (m : Module) (st : Struct)
    (h : ∀ x ∈ st.mb, (!(x.dflt ≠ [] && x.defType = .name) || defaultResolvable m x.dflt) = true) :
    ∃ st', defaultsOf v m st = .ok st' := by
  unfold defaultsOf
  obtain ⟨mb, hmb⟩ := mapRes_ok (analyzeDefaultMember v m) st.mb
    (fun x hx => analyzeDefaultMember_ok v m x (h x hx))
  exact ⟨_, by rw [hmb]; rfl⟩

theorem funcTypes_ok (v : Variant) (m1 : Module) (fn : Func)
    (ha : ∀ a ∈ fn.args, a.type.names.all (nameDeclared m1) = true)
    (hr : ∀ t, fn.retType = some t → t.names.all (nameDeclared m1) = true) :
    ∃ fn', funcTypes v m1 fn = .ok fn' := by
  unfold funcTypes
  obtain ⟨args, hargs⟩ := mapRes_ok (fun (a : Arg) => do
      let t ← checkDepTName v m1 a.type
      pure { a with type := t }) fn.args (by
    intro a h
    obtain ⟨t, ht⟩ := checkDepTName_ok v m1 a.type (ha a h)
    exact ⟨_, by simp only [ht]; rfl⟩)
  rw [hargs]
  simp only [Res.bind_ok]
  cases hrt : fn.retType with
  | none => exact ⟨_, rfl⟩
  | some t =>
    obtain ⟨t', ht'⟩ := checkDepTName_ok v m1 t (hr t hrt)
    simp only [ht']
    exact ⟨_, rfl⟩

theorem ifaceTypes_ok (v : Variant) (m1 : Module) (i : Interface)
    (h : ∀ fn ∈ i.funcs, (∀ a ∈ fn.args, a.type.names.all (nameDeclared m1) = true) ∧
      (∀ t, fn.retType = some t → t.names.all (nameDeclared m1) = true)) :
    ∃ i', ifaceTypes v m1 i = .ok i' := by
  unfold ifaceTypes
  obtain ⟨fs, hfs⟩ := mapRes_ok (funcTypes v m1) i.funcs
    (fun fn hfn => funcTypes_ok v m1 fn (h fn hfn).1 (h fn hfn).2)
  exact ⟨_, by rw [hfs]; rfl⟩

theorem typesOf_name (v : Variant) (m : Module) (st st' : Struct) (h : typesOf v m st = .ok st') :
    st'.name = st.name := by
  unfold typesOf at h
  cases hq : mapRes (fun (x : StructMember) => do
      let t ← checkDepTName v m x.type
      pure { x with type := t }) st.mb with
  | ok mb => rw [hq] at h; simp only [Res.bind_ok, Res.pure_eq] at h; cases h; rfl
  | diag d => rw [hq] at h; cases h
  | hang => rw [hq] at h; cases h
  | unsupported w => rw [hq] at h; cases h

/-- **semantic analysis succeeds** on every syntax tree that satisfies the semantic side conditions;
it keeps the enums and the names of the structs -/
theorem analyze_ok (v : Variant) (f : TarsFile) (h : semOK v f = true) :
    ∃ f', analyze v f = .ok f' ∧ f'.module.enums = f.module.enums ∧
      f'.module.structs.map (·.name) = f.module.structs.map (·.name) := by
  simp only [semOK, Bool.and_eq_true, List.all_eq_true, List.isEmpty_iff] at h
  obtain ⟨⟨⟨hinc, hst⟩, hif⟩, _⟩ := h
  unfold analyze
  rw [if_neg (by simp [hinc])]
  simp only
  -- stage 1
  obtain ⟨s1, hs1⟩ := mapRes_ok (defaultsOf v f.module) f.module.structs (by
    intro st hstm
    exact defaultsOf_ok v f.module st (fun x hx => ((hst st hstm) x hx).2))
  rw [hs1]
  simp only [Res.bind_ok]
  have hnames1 : s1.map (·.name) = f.module.structs.map (·.name) :=
    mapRes_proj _ (·.name) (·.name) (fun a b hab => defaultsOf_name v f.module a b hab) _ _ hs1
  have hdecl : ∀ n, nameDeclared { f.module with structs := s1 } n = nameDeclared f.module n :=
    fun n => nameDeclared_congr f.module { f.module with structs := s1 } hnames1 rfl n
  -- stage 2
  obtain ⟨s2, hs2⟩ := mapRes_ok (typesOf v { f.module with structs := s1 }) s1 (by
    intro st1 hst1
    obtain ⟨st, hstm, hd⟩ := mapRes_mem _ _ _ hs1 st1 hst1
    apply typesOf_ok
    intro x' hx'
    obtain ⟨x, hx, hty⟩ := defaultsOf_types v f.module st st1 hd x' hx'
    rw [hty]
    have := ((hst st hstm) x hx).1
    rw [List.all_eq_true]
    intro n hn
    rw [hdecl n]; exact this n hn)
  rw [hs2]
  simp only [Res.bind_ok]
  have hnames2 : s2.map (·.name) = s1.map (·.name) :=
    mapRes_proj _ (·.name) (·.name) (fun a b hab => typesOf_name v _ a b hab) _ _ hs2
  -- interfaces
  obtain ⟨ifs, hifs⟩ := mapRes_ok (ifaceTypes v { f.module with structs := s1 }) f.module.interfaces (by
    intro i hi
    apply ifaceTypes_ok
    intro fn hfn
    have := (hif i hi) fn hfn
    refine ⟨?_, ?_⟩
    · intro a ha
      rw [List.all_eq_true]
      intro n hn
      rw [hdecl n]; exact this.1 a ha n hn
    · intro t ht
      rw [List.all_eq_true]
      intro n hn
      rw [hdecl n]
      have h2 := this.2
      rw [ht] at h2
      simp only [List.all_eq_true] at h2
      exact h2 n hn)
  rw [hifs]
  exact ⟨_, rfl, rfl, by simp [hnames2, hnames1]⟩

/-- with the D6 repair `typeDef` never fails -/
theorem typeDefFails_repaired (v : Variant) (hv : v.typeDefByte = true) (mb : StructMember) :
    typeDefFails v mb = false := by
  unfold typeDefFails
  split
  · rfl
  · split <;> simp [hv]

/-- **the generator's acceptance conditions hold** after a successful analysis of a tree that
satisfies the side conditions (with the D6 repair) -/
theorem genCheck_ok (v : Variant) (hv : v.typeDefByte = true) (f f' : TarsFile)
    (h : semOK v f = true) (he : f'.module.enums = f.module.enums) : genCheck v f' = .ok () := by
  simp only [semOK, Bool.and_eq_true, List.all_eq_true] at h
  unfold genCheck
  have h1 : (f'.module.enums.any fun e => !enumRefsOk v e.mb) = false := by
    rw [he, List.any_eq_false]
    intro e hem
    simp [h.2 e hem]
  have h2 : (f'.module.structs.any fun st => st.mb.any (typeDefFails v)) = false := by
    rw [List.any_eq_false]
    intro st _
    simp only [Bool.not_eq_true, List.any_eq_false]
    intro x _
    simp [typeDefFails_repaired v hv x]
  rw [h1, h2]
  rfl

end Tars.Idl
