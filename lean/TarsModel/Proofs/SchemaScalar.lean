import TarsModel.Proofs.SchemaHead
import TarsModel.Props.C02

/-!
# Scalar members: `Read<T>` after `Write<T>` (present) and on an absent optional member
-/
namespace Tars
open Consts

/-- a scalar/enum member that is present reads back exactly (C02 lifted to `Val`) -/
theorem readScalar_present (ty : Ty) (v old : Val) (tag : Nat) (req : Bool) (r : Reader) (t : Bytes)
    (htag : tag < 256) (hv : ScalarOK ty v) (ho : ScalarOK ty old)
    (h : r.rest = writeScalar ty v tag ++ t) :
    readScalar ty old tag req r = (.ok v, r.adv (writeScalar ty v tag).length) := by
  cases ty <;> cases v <;> simp only [ScalarOK] at hv <;> cases old <;> simp only [ScalarOK] at ho
  all_goals simp only [writeScalar, readScalar] at h ⊢
  case bool.bool.bool => rw [C02_rt_bool r _ tag _ req t htag h]; rfl
  case i8.int.int => rw [C02_rt_int8 r _ tag _ req t htag hv h]; rfl
  case i16.int.int => rw [C02_rt_int16 r _ tag _ req t htag hv h]; rfl
  case i32.int.int => rw [C02_rt_int32 r _ tag _ req t htag hv h]; rfl
  case enum.int.int => rw [C02_rt_int32 r _ tag _ req t htag hv h]; rfl
  case i64.int.int => rw [C02_rt_int64 r _ tag _ req t htag hv h]; rfl
  case u8.int.int i _ =>
    rw [C02_rt_uint8 r _ tag _ req t htag (by omega) h]
    simp only [mapRes]; rw [Int.toNat_of_nonneg hv.1]
  case u16.int.int i _ =>
    rw [C02_rt_uint16 r _ tag _ req t htag (by omega) h]
    simp only [mapRes]; rw [Int.toNat_of_nonneg hv.1]
  case u32.int.int i _ =>
    rw [C02_rt_uint32 r _ tag _ req t htag (by omega) h]
    simp only [mapRes]; rw [Int.toNat_of_nonneg hv.1]
  case f32.f32.f32 => rw [C02_rt_float32 r _ tag _ req t htag hv h]; rfl
  case f64.f64.f64 => rw [C02_rt_float64 r _ tag _ req t htag hv h]; rfl
  case str.str.str => rw [C02_rt_string r _ tag _ req t htag hv h]; rfl

section absent
variable (r : Reader) (tag : Nat) (h : NextTagGt tag r.rest)
include h

theorem readInt8_absent (old : Int) : readInt8 old tag false r = (.ok old, r) := by
  obtain ⟨ty, h'⟩ := skipToNoCheck_miss r tag h; simp [readInt8, h']
theorem readInt16_absent (old : Int) : readInt16 old tag false r = (.ok old, r) := by
  obtain ⟨ty, h'⟩ := skipToNoCheck_miss r tag h; simp [readInt16, h']
theorem readInt32_absent (old : Int) : readInt32 old tag false r = (.ok old, r) := by
  obtain ⟨ty, h'⟩ := skipToNoCheck_miss r tag h; simp [readInt32, h']
theorem readInt64_absent (old : Int) : readInt64 old tag false r = (.ok old, r) := by
  obtain ⟨ty, h'⟩ := skipToNoCheck_miss r tag h; simp [readInt64, h']
theorem readFloat32_absent (old : Nat) : readFloat32 old tag false r = (.ok old, r) := by
  obtain ⟨ty, h'⟩ := skipToNoCheck_miss r tag h; simp [readFloat32, h']
theorem readFloat64_absent (old : Nat) : readFloat64 old tag false r = (.ok old, r) := by
  obtain ⟨ty, h'⟩ := skipToNoCheck_miss r tag h; simp [readFloat64, h']
theorem readString_absent (old : Bytes) : readString old tag false r = (.ok old, r) := by
  obtain ⟨ty, h'⟩ := skipToNoCheck_miss r tag h; simp [readString, h']

/-- an absent optional scalar/enum member leaves the target (and the read position) untouched -/
theorem readScalar_absent (ty : Ty) (old : Val) (ho : ScalarOK ty old) :
    readScalar ty old tag false r = (.ok old, r) := by
  cases ty <;> cases old <;> simp only [ScalarOK] at ho
  all_goals simp only [readScalar]
  case bool.bool b =>
    simp only [readBool, readInt8_absent r tag h, mapRes]; cases b <;> rfl
  case i8.int => rw [readInt8_absent r tag h]; rfl
  case i16.int => rw [readInt16_absent r tag h]; rfl
  case i32.int => rw [readInt32_absent r tag h]; rfl
  case enum.int => rw [readInt32_absent r tag h]; rfl
  case i64.int => rw [readInt64_absent r tag h]; rfl
  case u8.int i =>
    simp only [readUint8, readInt16_absent r tag h, mapRes, Int.toNat_of_nonneg ho.1]
    rw [← Int.toNat_of_nonneg ho.1, toU_ofNat 8 _ (by omega)]
  case u16.int i =>
    simp only [readUint16, readInt32_absent r tag h, mapRes, Int.toNat_of_nonneg ho.1]
    rw [← Int.toNat_of_nonneg ho.1, toU_ofNat 16 _ (by omega)]
  case u32.int i =>
    simp only [readUint32, readInt64_absent r tag h, mapRes, Int.toNat_of_nonneg ho.1]
    rw [← Int.toNat_of_nonneg ho.1, toU_ofNat 32 _ (by omega)]
  case f32.f32 => rw [readFloat32_absent r tag h]; rfl
  case f64.f64 => rw [readFloat64_absent r tag h]; rfl
  case str.str => rw [readString_absent r tag h]; rfl

end absent

end Tars
