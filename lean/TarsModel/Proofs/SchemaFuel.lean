import TarsModel.Proofs.SchemaRT3

/-!
# The decoder's fuel suffices: `needElems vs ≤ decFuel env r` for the encoding of a well-typed value

`needVar v` (the call depth of `decVar` on the encoding of `v`) is bounded by
`(env.width + 3) * (length of the encoding)` (+2 for an absent optional member).
-/
namespace Tars
open Consts

/-! ## weighted list bounds -/

theorem needElems_le (K : Nat) (hK : 1 ≤ K) (w : Val → Nat) : ∀ (vs : List Val),
    (∀ v ∈ vs, 1 ≤ w v ∧ needVar v ≤ K * w v) → needElems vs ≤ K * (vs.map w).sum + 1
  | [], _ => by simp [needElems]
  | v :: vs, h => by
    have ih := needElems_le K hK w vs (fun x hx => h x (by simp [hx]))
    obtain ⟨h1, h2⟩ := h v (by simp)
    simp only [needElems, List.map_cons, List.sum_cons, Nat.mul_add]
    have : K * 1 ≤ K * w v := Nat.mul_le_mul_left K h1
    omega

theorem needPairs_le (K : Nat) (hK : 1 ≤ K) (wa wb : Val → Nat) : ∀ (kvs : List (Val × Val)),
    (∀ p ∈ kvs, (1 ≤ wa p.1 ∧ needVar p.1 ≤ K * wa p.1) ∧ (1 ≤ wb p.2 ∧ needVar p.2 ≤ K * wb p.2)) →
      needPairs kvs ≤ K * (kvs.map fun p => wa p.1 + wb p.2).sum + 1
  | [], _ => by simp [needPairs]
  | (a, b) :: kvs, h => by
    have ih := needPairs_le K hK wa wb kvs (fun x hx => h x (by simp [hx]))
    obtain ⟨⟨h1, h2⟩, ⟨h3, h4⟩⟩ := h (a, b) (by simp)
    simp only at h1 h2 h3 h4
    simp only [needPairs, List.map_cons, List.sum_cons, Nat.mul_add]
    have : K * 1 ≤ K * wa a := Nat.mul_le_mul_left K h1
    have : K * 1 ≤ K * wb b := Nat.mul_le_mul_left K h3
    omega

theorem encElems_length (env : Env) (e : Ty) : ∀ (vs : List Val),
    (encElems env e vs).length = (vs.map fun v => (encVar env 0 true e none v).length).sum
  | [] => by simp [encElems]
  | v :: vs => by simp [encElems, encElems_length env e vs]

theorem encPairs_length (env : Env) (k v : Ty) : ∀ (kvs : List (Val × Val)),
    (encPairs env k v kvs).length =
      (kvs.map fun p => (encVar env 0 true k none p.1).length + (encVar env 1 true v none p.2).length).sum
  | [] => by simp [encPairs]
  | (a, b) :: kvs => by simp [encPairs, encPairs_length env k v kvs, Nat.add_assoc]

theorem WTs_mem {env : Env} {e : Ty} : ∀ {vs : List Val}, WTs env e vs → ∀ v ∈ vs, WT env e v
  | [], _, v, hv => by cases hv
  | x :: xs, h, v, hv => by
    simp only [WTs] at h
    rcases List.mem_cons.mp hv with rfl | hv
    · exact h.1
    · exact WTs_mem h.2 v hv

theorem WTp_mem {env : Env} {k v : Ty} : ∀ {kvs : List (Val × Val)}, WTp env k v kvs →
    ∀ p ∈ kvs, WT env k p.1 ∧ WT env v p.2
  | [], _, p, hp => by cases hp
  | (a, b) :: xs, h, p, hp => by
    simp only [WTp] at h
    rcases List.mem_cons.mp hp with rfl | hp
    · exact ⟨h.1, h.2.1⟩
    · exact WTp_mem h.2.2 p hp

theorem find_width (env : Env) (name : String) (fs : List Field) (h : env.find name = some fs) :
    fs.length ≤ env.width := by
  induction env with
  | nil => simp [Env.find] at h
  | cons p env ih =>
    obtain ⟨m, gs⟩ := p
    simp only [Env.find] at h
    simp only [Env.width, List.foldr_cons]
    split at h
    · cases h; omega
    · have := ih h
      simp only [Env.width] at this
      omega

theorem sum_map_one : ∀ (vs : List Val), (vs.map fun _ => 1).sum = vs.length
  | [] => rfl
  | _ :: vs => by rw [List.map_cons, List.sum_cons, sum_map_one vs, List.length_cons]; omega

/-! ## the bound -/

/-- fuel statement for one member/element: with `K = env.width + 3` and `b` the length of its
    encoding, `needVar v ≤ K*b + 2`, and `≤ K*b` when it is present -/
def FuelOK (env : Env) (v : Val) : Prop :=
  ∀ (tag : Nat) (req : Bool) (ty : Ty) (dflt : Option Val), WT env ty v →
    needVar v ≤ (env.width + 3) * (encVar env tag req ty dflt v).length + 2 ∧
    (0 < (encVar env tag req ty dflt v).length →
      needVar v ≤ (env.width + 3) * (encVar env tag req ty dflt v).length)

theorem fuelOK_scalar (env : Env) (v : Val) (h : needVar v = 1) : FuelOK env v := by
  intro tag req ty dflt _
  rw [h]
  refine ⟨by omega, fun hp => ?_⟩
  have : (env.width + 3) * 1 ≤ (env.width + 3) * (encVar env tag req ty dflt v).length :=
    Nat.mul_le_mul_left _ hp
  omega

theorem fuelOK_elems (env : Env) (e : Ty) (vs : List Val) (ih : ∀ v ∈ vs, FuelOK env v)
    (hwt : WTs env e vs) :
    needElems vs ≤ (env.width + 3) * (encElems env e vs).length + 1 := by
  rw [encElems_length]
  apply needElems_le (env.width + 3) (by omega)
  intro v hv
  have hw := WTs_mem hwt v hv
  have hp := encVar_req_pos env 0 e none v hw
  exact ⟨hp, (ih v hv 0 true e none hw).2 hp⟩

theorem fuelOK_list (env : Env) (vs : List Val) (ih : ∀ v ∈ vs, FuelOK env v) :
    FuelOK env (.list vs) := by
  intro tag req ty dflt hwt
  simp only [needVar]
  have key : ∀ e, WTs env e vs →
      (encVar env tag req ty dflt (.list vs) = [] ∧ vs = []) ∨
      (∃ hd : Bytes, 2 ≤ hd.length ∧ encVar env tag req ty dflt (.list vs) = hd ++ encElems env e vs) ∨
      (∃ hd : Bytes, 3 ≤ hd.length ∧ e = .i8 ∧
        encVar env tag req ty dflt (.list vs) = hd ++ int8Bytes vs) →
      1 + needElems vs ≤ (env.width + 3) * (encVar env tag req ty dflt (.list vs)).length + 2 ∧
      (0 < (encVar env tag req ty dflt (.list vs)).length →
        1 + needElems vs ≤ (env.width + 3) * (encVar env tag req ty dflt (.list vs)).length) := by
    intro e hwts hcase
    rcases hcase with ⟨h0, hvs⟩ | ⟨hd, hl, heq⟩ | ⟨hd, hl, he8, heq⟩
    · subst hvs
      rw [h0]
      simp [needElems]
    · have hb := fuelOK_elems env e vs ih hwts
      rw [heq, List.length_append, Nat.mul_add]
      have : (env.width + 3) * 2 ≤ (env.width + 3) * hd.length := Nat.mul_le_mul_left _ hl
      omega
    · subst he8
      obtain ⟨_, _, hb3⟩ := int8_roundtrip env vs hwts
      have hb : needElems vs ≤ (env.width + 3) * (vs.map fun _ => 1).sum + 1 := by
        apply needElems_le (env.width + 3) (by omega)
        intro v hv
        have hw := WTs_mem hwts v hv
        have : needVar v = 1 := by
          cases v <;> first | rfl | simp [WT] at hw
        omega
      rw [sum_map_one] at hb
      rw [heq, List.length_append, Nat.mul_add, hb3]
      have : (env.width + 3) * 3 ≤ (env.width + 3) * hd.length := Nat.mul_le_mul_left _ hl
      omega
  have hhd : ∀ ty', 2 ≤ (writeHead ty' tag ++ writeInt32 (wrapS 32 vs.length) 0).length := by
    intro ty'
    have h1 := writeHead_length_pos ty' tag
    have h2 := List.length_pos_iff.mpr (writeInt32_headAt (wrapS 32 vs.length) 0).ne_nil
    simp only [List.length_append]; omega
  have hhd3 : 3 ≤ (writeHead tySimpleList tag ++ writeHead tyBYTE 0
      ++ writeInt32 (wrapS 32 vs.length) 0).length := by
    have h1 := writeHead_length_pos tySimpleList tag
    have h2 := List.length_pos_iff.mpr (writeInt32_headAt (wrapS 32 vs.length) 0).ne_nil
    have h3 := writeHead_length_pos tyBYTE 0
    simp only [List.length_append]; omega
  cases ty <;> simp only [WT] at hwt
  case vec e =>
    apply key e hwt.2
    rw [encVar]
    by_cases c1 : (!req && vs.isEmpty) = true
    · left
      have hvs : vs = [] := by cases vs <;> simp_all
      exact ⟨by rw [if_pos c1], hvs⟩
    · right
      rw [if_neg c1]
      by_cases c2 : e = .i8
      · right; exact ⟨_, hhd3, c2, by rw [if_pos c2]⟩
      · left; exact ⟨_, hhd tyLIST, by rw [if_neg c2]⟩
  case arr n e =>
    apply key e hwt.2.2
    rw [encVar]
    by_cases c1 : (!req && vs.isEmpty) = true
    · left
      have hvs : vs = [] := by cases vs <;> simp_all
      exact ⟨by rw [if_pos c1], hvs⟩
    · right
      rw [if_neg c1]
      by_cases c2 : e = .i8
      · right; exact ⟨_, hhd3, c2, by rw [if_pos c2]⟩
      · left; exact ⟨_, hhd tyLIST, by rw [if_neg c2]⟩

theorem fuelOK_map (env : Env) (kvs : List (Val × Val))
    (ih : ∀ p ∈ kvs, FuelOK env p.1 ∧ FuelOK env p.2) : FuelOK env (.map kvs) := by
  intro tag req ty dflt hwt
  simp only [needVar]
  cases ty <;> simp only [WT] at hwt
  rename_i k v
  rw [encVar]
  by_cases c1 : (!req && kvs.isEmpty) = true
  · have hvs : kvs = [] := by cases kvs <;> simp_all
    subst hvs
    rw [if_pos c1]
    simp [needPairs]
  · rw [if_neg c1]
    have hb : needPairs kvs ≤ (env.width + 3) * (encPairs env k v kvs).length + 1 := by
      rw [encPairs_length]
      refine needPairs_le (env.width + 3) (by omega)
        (fun a => (encVar env 0 true k none a).length)
        (fun b => (encVar env 1 true v none b).length) kvs ?_
      intro p hp
      have hw := WTp_mem hwt.2.2 p hp
      have hp1 := encVar_req_pos env 0 k none p.1 hw.1
      have hp2 := encVar_req_pos env 1 v none p.2 hw.2
      exact ⟨⟨hp1, ((ih p hp).1 0 true k none hw.1).2 hp1⟩,
        ⟨hp2, ((ih p hp).2 1 true v none hw.2).2 hp2⟩⟩
    have h1 := writeHead_length_pos tyMAP tag
    have h2 := List.length_pos_iff.mpr (writeInt32_headAt (wrapS 32 kvs.length) 0).ne_nil
    simp only [List.length_append, Nat.mul_add]
    have : (env.width + 3) * 1 ≤ (env.width + 3) * (writeHead tyMAP tag).length :=
      Nat.mul_le_mul_left _ h1
    have : (env.width + 3) * 1 ≤ (env.width + 3) * (writeInt32 (wrapS 32 kvs.length) 0).length :=
      Nat.mul_le_mul_left _ h2
    omega

/-- members of a struct body (optional ones may be absent) -/
theorem fuelOK_members (env : Env) : ∀ (vs : List Val), (∀ v ∈ vs, FuelOK env v) →
    ∀ (fs : List Field), WTm env fs vs →
      needElems vs ≤ (env.width + 3) * (encMembers env fs vs).length + vs.length + 2
  | [], _, _, _ => by simp [needElems]
  | v :: vs, ih, fs, hwt => by
    cases fs with
    | nil => simp [WTm] at hwt
    | cons g gs =>
      simp only [WTm] at hwt
      have h1 := (ih v (by simp) g.tag g.req g.ty g.dflt hwt.1).1
      have h2 := fuelOK_members env vs (fun w hw => ih w (by simp [hw])) gs hwt.2
      simp only [needElems, encMembers, List.length_append, List.length_cons, Nat.mul_add]
      omega

theorem WTm_length {env : Env} : ∀ {fs : List Field} {vs : List Val}, WTm env fs vs →
    vs.length = fs.length
  | [], [], _ => rfl
  | [], _ :: _, h => by simp [WTm] at h
  | _ :: _, [], h => by simp [WTm] at h
  | _ :: fs, _ :: vs, h => by
    simp only [WTm] at h
    simp [WTm_length h.2]

theorem fuelOK_struct (env : Env) (vs : List Val) (ih : ∀ v ∈ vs, FuelOK env v) :
    FuelOK env (.struct vs) := by
  intro tag req ty dflt hwt
  simp only [needVar]
  cases ty <;> simp only [WT] at hwt
  rename_i name
  rw [encVar]
  cases hfs : env.find name with
  | none => simp [hfs] at hwt
  | some fs =>
    simp only [hfs] at hwt ⊢
    have hb := fuelOK_members env vs ih fs hwt
    have hl := WTm_length hwt
    have hw := find_width env name fs hfs
    have h1 := writeHead_length_pos tyStructBegin tag
    have h2 := writeHead_length_pos tyStructEnd 0
    simp only [List.length_append, Nat.mul_add]
    have : (env.width + 3) * 1 ≤ (env.width + 3) * (writeHead tyStructBegin tag).length :=
      Nat.mul_le_mul_left _ h1
    have : (env.width + 3) * 1 ≤ (env.width + 3) * (writeHead tyStructEnd 0).length :=
      Nat.mul_le_mul_left _ h2
    have : (env.width + 3) * 1 = env.width + 3 := Nat.mul_one _
    omega

theorem fuelOK_all (env : Env) : ∀ v, FuelOK env v :=
  Val.ind (fun _ => fuelOK_scalar env _ rfl) (fun _ => fuelOK_scalar env _ rfl)
    (fun _ => fuelOK_scalar env _ rfl) (fun _ => fuelOK_scalar env _ rfl)
    (fun _ => fuelOK_scalar env _ rfl)
    (fuelOK_list env) (fuelOK_map env) (fuelOK_struct env)

/-- `decFuel` suffices for a struct body that is a prefix of the unread input -/
theorem needElems_le_decFuel (env : Env) (name : String) (fs : List Field) (vs : List Val)
    (r : Reader) (t : Bytes) (hfs : env.find name = some fs) (hwt : WTm env fs vs)
    (h : r.rest = encMembers env fs vs ++ t) : needElems vs ≤ decFuel env r := by
  have hb := fuelOK_members env vs (fun v _ => fuelOK_all env v) fs hwt
  have hl := WTm_length hwt
  have hw := find_width env name fs hfs
  have hsz : (encMembers env fs vs).length ≤ r.data.size := by
    have := congrArg List.length h
    simp [Reader.rest] at this
    omega
  unfold decFuel
  have : (env.width + 3) * (encMembers env fs vs).length ≤ (env.width + 3) * r.data.size :=
    Nat.mul_le_mul_left _ hsz
  rw [Nat.mul_add]
  omega

end Tars
