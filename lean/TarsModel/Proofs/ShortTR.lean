import TarsModel.Proofs.ShortCut

namespace Tars
open Consts

/-! ### the first byte of a two-byte head, alone at the end of the input -/

/-- `q` is the first byte of a head with an extended tag (tag ≥ 15), and nothing else -/
def HalfHead (q : Bytes) : Prop := ∃ b : Byte, q = [b] ∧ b.val / 16 = 15

theorem readHead_half {r : Reader} {b : Byte} (h : r.rest = [b]) (hb : b.val / 16 = 15) :
    readHead r = (.error .eof, r.adv 1) := by
  have h1 := readByte_cons r b [] h
  have h2 : (r.adv 1).rest = [] := by simpa using r.rest_adv [b] [] (by simpa using h)
  have h3 := Evolve.readByte_nil (r.adv 1) h2
  simp [readHead, h1, hb, extTagRead, h3]

theorem skipToNoCheck_half_opt {r : Reader} {q : Bytes} (tag : Nat) (h : r.rest = q) (hq : HalfHead q) :
    skipToNoCheck tag false r = (.ok (false, 0), r.adv 1) ∧ (r.adv 1).rest = [] := by
  obtain ⟨b, rfl, hb⟩ := hq
  have h2 : (r.adv 1).rest = [] := by simpa using r.rest_adv [b] [] (by simpa using h)
  refine ⟨?_, h2⟩
  unfold skipToNoCheck
  rw [Reader.fuel_succ]
  simp [skipToNoCheckF, readHead_half h hb]

theorem skipToNoCheck_half_req {r : Reader} {q : Bytes} (tag : Nat) (h : r.rest = q) (hq : HalfHead q) :
    skipToNoCheck tag true r = (.error .require, r.adv 1) := by
  obtain ⟨b, rfl, hb⟩ := hq
  unfold skipToNoCheck
  rw [Reader.fuel_succ]
  simp [skipToNoCheckF, readHead_half h hb]

/-- the generated read of an optional member whose `SkipToNoCheck` reports "not there" -/
theorem decVar_of_skip_absent (env : Env) (F tag : Nat) (ty : Ty) (old : Val) (r r' : Reader) (tyc : Nat)
    (hok : Evolve.targetOk env ty old = true)
    (ha : skipToNoCheck tag false r = (.ok (false, tyc), r')) :
    decVar env (F+1) tag false ty old r = (.ok (Evolve.absentVal env F ty old), r') := by
  cases ty with
  | vec e => unfold decVar; simp [ha, Evolve.absentVal]
  | arr n e => unfold decVar; simp [ha, Evolve.absentVal]
  | map k v => unfold decVar; simp [skipTo, ha, Evolve.absentVal]
  | struct name =>
    cases old <;> simp [Evolve.targetOk] at hok
    rename_i ovs
    obtain ⟨fs, hfs⟩ := Option.isSome_iff_exists.mp hok
    unfold decVar; simp [hfs, skipTo, ha, Evolve.absentVal]
  | bool =>
    cases old <;> simp [Evolve.targetOk] at hok
    rename_i b
    cases b <;> (unfold decVar; simp [readScalar, readBool, readInt8, ha, mapRes, Evolve.absentVal])
  | i8 =>
    cases old <;> simp [Evolve.targetOk] at hok
    unfold decVar; simp [readScalar, readInt8, ha, mapRes, Evolve.absentVal]
  | i16 =>
    cases old <;> simp [Evolve.targetOk] at hok
    unfold decVar; simp [readScalar, readInt16, ha, mapRes, Evolve.absentVal]
  | i32 =>
    cases old <;> simp [Evolve.targetOk] at hok
    unfold decVar; simp [readScalar, readInt32, ha, mapRes, Evolve.absentVal]
  | i64 =>
    cases old <;> simp [Evolve.targetOk] at hok
    unfold decVar; simp [readScalar, readInt64, ha, mapRes, Evolve.absentVal]
  | enum =>
    cases old <;> simp [Evolve.targetOk] at hok
    unfold decVar; simp [readScalar, readInt32, ha, mapRes, Evolve.absentVal]
  | u8 =>
    cases old <;> simp [Evolve.targetOk] at hok
    unfold decVar; simp [readScalar, readUint8, readInt16, ha, mapRes, Evolve.absentVal]
    exact Evolve.toU_max 8 _ hok.1 (by simpa using hok.2)
  | u16 =>
    cases old <;> simp [Evolve.targetOk] at hok
    unfold decVar; simp [readScalar, readUint16, readInt32, ha, mapRes, Evolve.absentVal]
    exact Evolve.toU_max 16 _ hok.1 (by simpa using hok.2)
  | u32 =>
    cases old <;> simp [Evolve.targetOk] at hok
    unfold decVar; simp [readScalar, readUint32, readInt64, ha, mapRes, Evolve.absentVal]
    exact Evolve.toU_max 32 _ hok.1 (by simpa using hok.2)
  | f32 =>
    cases old <;> simp [Evolve.targetOk] at hok
    unfold decVar; simp [readScalar, readFloat32, ha, mapRes, Evolve.absentVal]
  | f64 =>
    cases old <;> simp [Evolve.targetOk] at hok
    unfold decVar; simp [readScalar, readFloat64, ha, mapRes, Evolve.absentVal]
  | str =>
    cases old <;> simp [Evolve.targetOk] at hok
    unfold decVar; simp [readScalar, readString, ha, mapRes, Evolve.absentVal]

/-- the generated read of a required member whose `SkipToNoCheck` fails: an error -/
theorem decVar_of_skip_error (env : Env) (F tag : Nat) (req : Bool) (ty : Ty) (old : Val) (r r' : Reader)
    (er : Err) (ha : skipToNoCheck tag req r = (.error er, r')) :
    ∃ e' r'', decVar env (F+1) tag req ty old r = (.error e', r'') := by
  cases ty with
  | vec e => exact ⟨er, r', by rw [decVar_vec]; simp [ha]⟩
  | arr n e => exact ⟨er, r', by rw [decVar_arr]; simp [ha]⟩
  | map k v => exact ⟨er, r', by rw [decVar_map]; simp [skipTo, ha]⟩
  | struct name =>
    unfold decVar
    simp only
    split
    · exact ⟨er, r', by simp [skipTo, ha]⟩
    · exact ⟨_, _, rfl⟩
  | _ =>
    rw [decVar_atom _ _ _ _ _ _ _ rfl]
    unfold readScalar
    split <;> first
      | exact ⟨_, _, rfl⟩
      | (refine ⟨er, r', ?_⟩
         simp [readBool, readUint8, readUint16, readUint32, readInt8, readInt16, readInt32, readInt64,
           readFloat32, readFloat64, readString, ha, mapRes])


/-- what the generated read of one member may do on a strict prefix `q` of the member's field (the
    input ends behind `q`): report an error, or — only for an optional member, and only when not
    even the head is complete (`q` empty or the first byte of a two-byte head) — treat the member
    as absent and leave the input exhausted -/
def CutRes (env : Env) (fuel tag : Nat) (req : Bool) (ty : Ty) (old : Val) (r : Reader) (q : Bytes) : Prop :=
  (∃ e r', decVar env fuel tag req ty old r = (.error e, r')) ∨
  (req = false ∧ (q = [] ∨ HalfHead q) ∧
    ∃ r', decVar env fuel tag req ty old r = (.ok (Evolve.absentVal env (fuel - 1) ty old), r') ∧
      r'.rest = [])

/-- the cut statement for one member/element holding `v` (counterpart of `RT`) -/
def TR (env : Env) (rk : String → Nat) (v : Val) : Prop :=
  ∀ (fuel tag : Nat) (req : Bool) (ty : Ty) (dflt : Option Val) (old : Val) (r : Reader) (q : Bytes),
    tag < 256 → TyOK env rk (env.length + 1) ty → DfltOK ty dflt → WT env ty v →
    OldOK env ty dflt old → q <+: encVar env tag req ty dflt v →
    q.length < (encVar env tag req ty dflt v).length →
    (env.width + 3) * q.length + 1 ≤ fuel → r.rest = q →
    CutRes env fuel tag req ty old r q

/-- the part of the cut analysis that is the same for every member kind: nothing, or only half of
    the head is there; otherwise the kind-specific argument `hbody` applies behind the head -/
theorem cut_front (env : Env) (F tag : Nat) (req : Bool) (ty : Ty) (old : Val) (r : Reader)
    (q enc : Bytes) (hty : Nat) (rest : Bytes) (h16 : hty < 16)
    (henc : enc = writeHead hty tag ++ rest) (hpre : q <+: enc)
    (hr : r.rest = q) (hok : Evolve.targetOk env ty old = true)
    (hbody : ∀ q1, q = writeHead hty tag ++ q1 → q1 <+: rest →
      ∃ e r', decVar env (F+1) tag req ty old r = (.error e, r')) :
    CutRes env (F+1) tag req ty old r q := by
  subst henc
  rcases prefix_append_cases q _ _ hpre with ⟨q1, rfl, hq1⟩ | ⟨hlt, hpre'⟩
  · exact .inl (hbody q1 rfl hq1)
  · by_cases hq : q = []
    · subst hq
      cases req with
      | true =>
        left
        have := Evolve.decVar_missing_req env F tag ty old r hok (Or.inl hr)
        exact ⟨_, _, Prod.ext this rfl⟩
      | false =>
        right
        exact ⟨rfl, Or.inl rfl, r, by
          rw [Evolve.decVar_absent_opt env F tag ty old r hok (Or.inl hr)]; simp, hr⟩
    · -- a non-empty strict prefix of the head: the head has two bytes and `q` is the first
      have hhalf : HalfHead q := by
        unfold writeHead at hlt hpre'
        by_cases ht : tag < extTagThreshold
        · rw [if_pos ht] at hlt hpre'
          simp only [List.length_cons, List.length_nil] at hlt
          cases q with
          | nil => exact absurd rfl hq
          | cons x xs => simp at hlt
        · rw [if_neg ht] at hlt hpre'
          obtain ⟨t, ht2⟩ := hpre'
          cases q with
          | nil => exact absurd rfl hq
          | cons x xs =>
            cases xs with
            | cons y ys => simp at hlt; omega
            | nil =>
              simp only [List.cons_append, List.nil_append, List.cons.injEq] at ht2
              refine ⟨x, rfl, ?_⟩
              rw [ht2.1]; simp only [byte_val, extTagMarker]; omega
      cases req with
      | true =>
        left
        exact decVar_of_skip_error env F tag true ty old r _ _ (skipToNoCheck_half_req tag hr hhalf)
      | false =>
        right
        obtain ⟨hs, hrest⟩ := skipToNoCheck_half_opt tag hr hhalf
        exact ⟨rfl, Or.inr hhalf, r.adv 1, by
          rw [decVar_of_skip_absent env F tag ty old r _ 0 hok hs]; simp, hrest⟩

/-! ### a length prefix cut short -/

theorem readLen_cut (x : Int) (r : Reader) (q : Bytes) (hpre : q <+: writeInt32 x 0)
    (hlt : q.length < (writeInt32 x 0).length) (hr : r.rest = q) :
    ∃ e r', readLen r = (.error e, r') := by
  rw [readLen_eq 0 r, readInt32_body]
  obtain ⟨hty, pl, hs, h16, hne, hw⟩ := writeInt32_shape x 0
  rw [hs] at hpre hlt
  have hhead : writeHead hty 0 = [byte (0 * 16 + hty)] := by
    unfold writeHead; rw [if_pos (by decide)]
  by_cases hq : q = []
  · subst hq
    obtain ⟨r', hm⟩ := Evolve.skipToNoCheck_missing 0 r (Or.inl hr)
    exact ⟨.require, r', by unfold readWith; rw [hm]⟩
  · rcases prefix_append_cases q _ _ hpre with ⟨q1, rfl, hq1⟩ | ⟨hl, _⟩
    · have hhit := skipToNoCheck_hit r hty 0 true q1 h16 hne (by decide) hr
      have hr1 := r.rest_adv _ _ hr
      have hsh : (r.adv (writeHead hty 0).length).remaining < pl.length := by
        rw [Reader.remaining_eq_rest, hr1]; simp at hlt; omega
      have := readWith_err_of_body (old := (0 : Int)) hhit (intBody_short hw hsh)
      exact ⟨_, _, Prod.ext this rfl⟩
    · rw [hhead] at hl
      cases q with
      | nil => exact absurd rfl hq
      | cons a as => simp at hl

/-! ### a member that is present decodes whatever follows it -/

theorem encVar_present_req (env : Env) (tag : Nat) (ty : Ty) (dflt : Option Val) (v : Val)
    (h : encVar env tag false ty dflt v ≠ []) :
    encVar env tag false ty dflt v = encVar env tag true ty dflt v := by
  cases v <;> (unfold encVar at h ⊢) <;> (try split at h) <;> simp_all


/-- when the member's head is the next thing in the input, the generated read does not depend on
    whether the member is declared required or optional -/
theorem decVar_req_hit (env : Env) (fuel tag : Nat) (ty : Ty) (old : Val) (r r1 : Reader) (hty : Nat)
    (h1 : skipToNoCheck tag false r = (.ok (true, hty), r1))
    (h2 : skipToNoCheck tag true r = (.ok (true, hty), r1)) :
    decVar env fuel tag false ty old r = decVar env fuel tag true ty old r := by
  cases fuel with
  | zero => unfold decVar; rfl
  | succ F =>
    have hst : ∀ ty0 req, skipToNoCheck tag req r = (.ok (true, hty), r1) →
        skipTo ty0 tag req r = if ty0 = hty then (.ok true, r1) else (.error .mismatch, r1) := by
      intro ty0 req h; unfold skipTo; rw [h]; by_cases c : ty0 = hty <;> simp [c]
    cases ty with
    | vec e => rw [decVar_vec, decVar_vec]; simp [h1, h2]
    | arr n e => rw [decVar_arr, decVar_arr]; simp [h1, h2]
    | map k v =>
      rw [decVar_map, decVar_map, hst _ _ h1, hst _ _ h2]
      by_cases c : tyMAP = hty <;> simp [c]
    | struct name =>
      unfold decVar
      simp only
      split
      · rw [hst _ _ h1, hst _ _ h2]
        by_cases c : tyStructBegin = hty <;> simp [c]
      · rfl
    | _ =>
      rw [decVar_atom _ _ _ _ _ _ _ rfl, decVar_atom _ _ _ _ _ _ _ rfl]
      unfold readScalar
      split <;> simp [readBool, readUint8, readUint16, readUint32, readInt8, readInt16, readInt32,
        readInt64, readFloat32, readFloat64, readString, h1, h2]

theorem normVar_present_req (env : Env) (tag : Nat) (ty : Ty) (dflt : Option Val) (v : Val)
    (hwt : WT env ty v) (h : encVar env tag false ty dflt v ≠ []) :
    normVar env false ty dflt v = normVar env true ty dflt v := by
  cases v with
  | list vs => cases ty <;> rfl
  | map kvs => cases ty <;> rfl
  | struct vs => cases ty <;> rfl
  | bool b => rfl
  | int i => rfl
  | str s => rfl
  | f32 b =>
    have hv : ScalarOK ty (.f32 b) := by simpa only [WT] using hwt
    rw [encVar_scalarVal env tag false ty dflt _ hv] at h
    rw [normVar_present env false ty dflt _ hv (by
      by_cases he : ty = .enum
      · exact .inl he
      · right; intro hc; rw [if_neg he, if_pos hc] at h; exact h rfl),
      normVar_present env true ty dflt _ hv (.inr (by simp))]
  | f64 b =>
    have hv : ScalarOK ty (.f64 b) := by simpa only [WT] using hwt
    rw [encVar_scalarVal env tag false ty dflt _ hv] at h
    rw [normVar_present env false ty dflt _ hv (by
      by_cases he : ty = .enum
      · exact .inl he
      · right; intro hc; rw [if_neg he, if_pos hc] at h; exact h rfl),
      normVar_present env true ty dflt _ hv (.inr (by simp))]

/-- **a member that is present** (non-empty encoding) decodes to its normal form whatever follows
    it — no condition on the tail, unlike `RT` for optional members -/
theorem decVar_present (env : Env) (rk : String → Nat) (hE : EnvWF env rk) (v : Val)
    (fuel tag : Nat) (req : Bool) (ty : Ty) (dflt : Option Val) (old : Val) (r : Reader) (t : Bytes)
    (htag : tag < 256) (hty : TyOK env rk (env.length + 1) ty) (hd : DfltOK ty dflt)
    (hwt : WT env ty v) (ho : OldOK env ty dflt old) (hfuel : needVar v ≤ fuel)
    (hne : encVar env tag req ty dflt v ≠ [])
    (h : r.rest = encVar env tag req ty dflt v ++ t) :
    decVar env fuel tag req ty old r
      = (.ok (normVar env req ty dflt v), r.adv (encVar env tag req ty dflt v).length) := by
  cases req with
  | true => exact rt_all env rk hE v fuel tag true ty dflt old r t htag hty hd hwt ho (fun h => by cases h) hfuel h
  | false =>
    have he := encVar_present_req env tag ty dflt v hne
    rw [he] at h ⊢
    rw [normVar_present_req env tag ty dflt v hwt hne]
    rcases encVar_headAt env tag true ty dflt v with h0 | ⟨hty', rest, h16, hnse, hh⟩
    · rw [he] at hne; exact absurd h0 hne
    · have h' : r.rest = writeHead hty' tag ++ (rest ++ t) := by rw [h, hh]; simp
      rw [decVar_req_hit env fuel tag ty old r _ hty'
        (skipToNoCheck_hit r hty' tag false _ h16 hnse htag h')
        (skipToNoCheck_hit r hty' tag true _ h16 hnse htag h')]
      exact rt_all env rk hE v fuel tag true ty dflt old r t htag hty hd hwt ho (fun h => by cases h) hfuel h

end Tars
