import TarsModel.Proofs.ShortRead
import TarsModel.Proofs.TotalDecEq

/-!
  C06 helper lemmas: the container members of the generated decoders reject a present field of
  an inadmissible wire type.
-/
set_option linter.unusedSimpArgs false

namespace Tars
open Consts

theorem skipTo_found_mismatch {ty tyCur tag : Nat} {req : Bool} {r r1 : Reader}
    (hs : skipToNoCheck tag req r = (.ok (true, tyCur), r1)) (hne : ty ≠ tyCur) :
    skipTo ty tag req r = (.error .mismatch, r1) := by
  unfold skipTo; rw [hs]; simp [hne]

theorem skipTo_found_ok {ty tag : Nat} {req : Bool} {r r1 : Reader}
    (hs : skipToNoCheck tag req r = (.ok (true, ty), r1)) :
    skipTo ty tag req r = (.ok true, r1) := by
  unfold skipTo; rw [hs]; simp

/-- `vector<e>` member: only LIST, or SimpleList when `e` is a byte type, is admissible -/
theorem decVar_vec_mismatch (env : Env) (fuel tag : Nat) (req : Bool) (e : Ty) (old : Val)
    {r r1 : Reader} {tyCur : Nat}
    (hs : skipToNoCheck tag req r = (.ok (true, tyCur), r1)) (h1 : tyCur ≠ tyLIST)
    (h2 : tyCur ≠ tySimpleList ∨ ¬ (e = .i8 ∨ e = .u8)) :
    decVar env (fuel+1) tag req (.vec e) old r = (.error .mismatch, r1) := by
  rw [Total.decVar_vec, hs]
  simp only [Bool.not_true, Bool.and_false, Bool.false_eq_true, if_false, if_neg h1]
  rcases h2 with h2 | h2
  · rw [if_neg h2]
  · split <;> simp [h2]

/-- fixed array member: only LIST is admissible -/
theorem decVar_arr_mismatch (env : Env) (fuel tag : Nat) (req : Bool) (n : Nat) (e : Ty) (old : Val)
    {r r1 : Reader} {tyCur : Nat}
    (hs : skipToNoCheck tag req r = (.ok (true, tyCur), r1)) (h1 : tyCur ≠ tyLIST) :
    decVar env (fuel+1) tag req (.arr n e) old r = (.error .mismatch, r1) := by
  rw [Total.decVar_arr, hs]
  simp only [Bool.not_true, Bool.and_false, Bool.false_eq_true, if_false, if_neg h1]

/-- map member: only MAP is admissible -/
theorem decVar_map_mismatch (env : Env) (fuel tag : Nat) (req : Bool) (k v : Ty) (old : Val)
    {r r1 : Reader} {tyCur : Nat}
    (hs : skipToNoCheck tag req r = (.ok (true, tyCur), r1)) (h1 : tyCur ≠ tyMAP) :
    decVar env (fuel+1) tag req (.map k v) old r = (.error .mismatch, r1) := by
  rw [Total.decVar_map, skipTo_found_mismatch hs (Ne.symm h1)]

/-- struct member: only StructBegin is admissible (for a defined struct and a struct target) -/
theorem decVar_struct_mismatch (env : Env) (fuel tag : Nat) (req : Bool) (name : String)
    (fs : List Field) (ovs : List Val) (hfs : env.find name = some fs)
    {r r1 : Reader} {tyCur : Nat}
    (hs : skipToNoCheck tag req r = (.ok (true, tyCur), r1)) (h1 : tyCur ≠ tyStructBegin) :
    decVar env (fuel+1) tag req (.struct name) (.struct ovs) r = (.error .mismatch, r1) := by
  rw [Total.decVar_struct]
  simp only [hfs]
  unfold Total.structBody
  rw [skipTo_found_mismatch hs (Ne.symm h1)]

end Tars
