import TarsModel.Proofs.ServerConnRun

/-!
Helper lemmas for C12, part 6: when `CloseIdles` never closes a connection itself (`ci = .kickOnly`,
the code after the D16 repair), the only `conn.Close()` is the one in the receive loop's deferred
function. Invariant: a closed connection's goroutine has finished, and every request was counted by
`handleConn` while the connection was open.
-/
namespace Tars.ServerConn

structure KInv (k : Conn) : Prop where
  closedPc : k.srvClosed = true → k.rpc = .closed
  allOpen : ∀ q ∈ k.reqs, q.dispOpen = true

def KeepsK (f : Conn → Option Conn) : Prop := ∀ k k', f k = some k' → KInv k → KInv k'

/-- a transition that needs a program counter other than `closed`, leaves `srvClosed` and the
`dispOpen` flags alone: the connection was open before and is open afterwards -/
theorem kk_of_open {f : Conn → Option Conn}
    (h : ∀ k k', f k = some k' → k.rpc ≠ .closed ∧ k'.srvClosed = k.srvClosed ∧
      (∀ q ∈ k'.reqs, q.dispOpen = true ∨ q ∈ k.reqs)) : KeepsK f := by
  intro k k' hf hk
  obtain ⟨hpc, hcl, hq⟩ := h k k' hf
  refine ⟨?_, ?_⟩
  · intro hc; rw [hcl] at hc; exact absurd (hk.closedPc hc) hpc
  · intro q hq'
    rcases hq q hq' with h1 | h1
    · exact h1
    · exact hk.allOpen q h1

/-- a transition that changes neither the program counter, nor `srvClosed`, nor the `dispOpen` flags -/
theorem kk_of_same {f : Conn → Option Conn}
    (h : ∀ k k', f k = some k' → k'.rpc = k.rpc ∧ k'.srvClosed = k.srvClosed ∧
      (∀ q ∈ k'.reqs, ∃ q0 ∈ k.reqs, q.dispOpen = q0.dispOpen)) : KeepsK f := by
  intro k k' hf hk
  obtain ⟨hpc, hcl, hq⟩ := h k k' hf
  refine ⟨?_, ?_⟩
  · intro hc; rw [hcl] at hc; rw [hpc]; exact hk.closedPc hc
  · intro q hq'
    obtain ⟨q0, hq0, he⟩ := hq q hq'
    rw [he]; exact hk.allOpen q0 hq0

theorem kk_cSend (nr : Bool) (r : Rid) : KeepsK (cSend nr r) := kk_of_same (by
  intro k k' h; unfold cSend at h; split at h <;> try contradiction
  simp only [Option.some.injEq] at h; subst h; exact ⟨rfl, rfl, fun q hq => ⟨q, hq, rfl⟩⟩)
theorem kk_cAge : KeepsK cAge := kk_of_same (by
  intro k k' h; unfold cAge at h
  simp only [Option.some.injEq] at h; subst h; exact ⟨rfl, rfl, fun q hq => ⟨q, hq, rfl⟩⟩)
theorem kk_cRecvRsp (i : Nat) : KeepsK (cRecvRsp i) := kk_of_same (by
  intro k k' h; unfold cRecvRsp at h; split at h <;> try contradiction
  split at h <;> try contradiction
  simp only [Option.some.injEq] at h; subst h; exact ⟨rfl, rfl, fun q hq => ⟨q, hq, rfl⟩⟩)
theorem kk_cRecvMsg : KeepsK cRecvMsg := kk_of_same (by
  intro k k' h; unfold cRecvMsg at h; split at h <;> try contradiction
  simp only [Option.some.injEq] at h; subst h; exact ⟨rfl, rfl, fun q hq => ⟨q, hq, rfl⟩⟩)
theorem kk_cRecvEof : KeepsK cRecvEof := kk_of_same (by
  intro k k' h; unfold cRecvEof at h; split at h <;> try contradiction
  simp only [Option.some.injEq] at h; subst h; exact ⟨rfl, rfl, fun q hq => ⟨q, hq, rfl⟩⟩)

theorem kk_cSetSt (i : Nat) (frm : HSt) (to : Conn → HSt) : KeepsK (fun k => cSetSt i frm (to k) k) :=
  kk_of_same (by
    intro k k' h
    simp only [cSetSt] at h
    split at h <;> try contradiction
    rename_i q0 hq0
    split at h <;> try contradiction
    simp only [Option.some.injEq] at h; subst h
    refine ⟨rfl, rfl, ?_⟩
    intro q hq
    rcases List.mem_or_eq_of_mem_set hq with hq | hq
    · exact ⟨q, hq, rfl⟩
    · subst hq; exact ⟨q0, mem_of_getElem? hq0, rfl⟩)

theorem kk_cStart (i : Nat) : KeepsK (cStart i) := kk_cSetSt i .queued (fun _ => .running)
theorem kk_cHand (i : Nat) : KeepsK (cHand i) := kk_cSetSt i .queued (fun _ => .handed)
theorem kk_cStartP (i : Nat) : KeepsK (cStartP i) := kk_cSetSt i .handed (fun _ => .running)
theorem kk_cFin (i : Nat) : KeepsK (cFin i) := kk_cSetSt i .running (fun _ => .finished)
theorem kk_of_imp {f g : Conn → Option Conn} (h : ∀ k k', f k = some k' → g k = some k')
    (hg : KeepsK g) : KeepsK f := fun k k' hf => hg k k' (h k k' hf)
theorem kk_cWrite (i : Nat) : KeepsK (cWrite i) :=
  kk_of_imp (cWrite_imp i) (kk_cSetSt i .finished (fun k => .wrote (!k.srvClosed)))
theorem kk_cSkip (d : Bool) (i : Nat) : KeepsK (cSkip d i) :=
  kk_of_imp (cSkip_imp d i) (kk_cSetSt i .finished (fun _ => if d then .wrote true else .leaked))

theorem kk_cDec (i : Nat) : KeepsK (cDec i) := kk_of_same (by
  intro k k' h
  unfold cDec at h
  split at h <;> try contradiction
  rename_i q0 hq0
  split at h <;> try contradiction
  simp only [Option.some.injEq] at h; subst h
  refine ⟨rfl, rfl, ?_⟩
  intro q hq
  rcases List.mem_or_eq_of_mem_set hq with hq | hq
  · exact ⟨q, hq, rfl⟩
  · subst hq; exact ⟨q0, mem_of_getElem? hq0, rfl⟩)

theorem kk_cFinEarly (i : Nat) : KeepsK (cFinEarly i) := kk_of_same (by
  intro k k' h
  unfold cFinEarly at h
  split at h <;> try contradiction
  rename_i q0 hq0
  split at h <;> try contradiction
  simp only [Option.some.injEq] at h; subst h
  refine ⟨rfl, rfl, ?_⟩
  intro q hq
  rcases List.mem_or_eq_of_mem_set hq with hq | hq
  · exact ⟨q, hq, rfl⟩
  · subst hq; exact ⟨q0, mem_of_getElem? hq0, rfl⟩)

theorem kk_cLateWrite (i : Nat) : KeepsK (cLateWrite i) := kk_of_same (by
  intro k k' h
  unfold cLateWrite at h
  split at h <;> try contradiction
  rename_i q0 hq0
  split at h <;> try contradiction
  simp only [Option.some.injEq] at h; subst h
  refine ⟨rfl, rfl, ?_⟩
  intro q hq
  rcases List.mem_or_eq_of_mem_set hq with hq | hq
  · exact ⟨q, hq, rfl⟩
  · subst hq; exact ⟨q0, mem_of_getElem? hq0, rfl⟩)

theorem kk_cAccept : KeepsK cAccept := kk_of_open (by
  intro k k' h; unfold cAccept at h; split at h <;> try contradiction
  rename_i hpc
  simp only [Option.some.injEq] at h; subst h
  exact ⟨by rw [hpc]; simp, rfl, fun q hq => Or.inr hq⟩)
theorem kk_cRegister : KeepsK cRegister := kk_of_open (by
  intro k k' h; unfold cRegister at h; split at h <;> try contradiction
  rename_i hpc
  simp only [Option.some.injEq] at h; subst h
  exact ⟨by rw [hpc]; simp, rfl, fun q hq => Or.inr hq⟩)
theorem kk_cStamp : KeepsK cStamp := kk_of_open (by
  intro k k' h; unfold cStamp at h; split at h <;> try contradiction
  rename_i hpc
  simp only [Option.some.injEq] at h; subst h
  exact ⟨by rw [hpc]; simp, rfl, fun q hq => Or.inr hq⟩)
theorem kk_cRead (n : Nat) : KeepsK (cRead n) := kk_of_open (by
  intro k k' h; unfold cRead at h; split at h <;> try contradiction
  rename_i hpc
  split at h <;> try contradiction
  simp only [Option.some.injEq] at h; subst h
  exact ⟨by rw [hpc]; simp, rfl, fun q hq => Or.inr hq⟩)
theorem kk_cReadErr (p b f : Bool) : KeepsK (cReadErr p b f) := kk_of_open (by
  intro k k' h; unfold cReadErr at h; split at h <;> try contradiction
  rename_i hpc
  split at h <;> (simp only [Option.some.injEq] at h; subst h
                  exact ⟨by rw [hpc]; simp, rfl, fun q hq => Or.inr hq⟩))
theorem kk_cDrainTick : KeepsK cDrainTick := kk_of_open (by
  intro k k' h; unfold cDrainTick at h; split at h <;> try contradiction
  rename_i hpc
  simp only [Option.some.injEq] at h; subst h
  exact ⟨by rw [hpc]; simp, rfl, fun q hq => Or.inr hq⟩)
theorem kk_cEnqueued' : KeepsK cEnqueued' := kk_of_open (by
  intro k k' h; unfold cEnqueued' cEnqueued at h; split at h <;> simp at h
  rename_i i hpc
  subst h
  exact ⟨by rw [hpc]; simp, rfl, fun q hq => Or.inr hq⟩)

theorem kk_cDispatch (p : Bool) : KeepsK (cDispatch p) := by
  intro k k' h hk
  unfold cDispatch at h; split at h <;> try contradiction
  rename_i r rest hpc hbuf
  simp only [Option.some.injEq] at h; subst h
  have hopen : k.srvClosed = false := by
    cases hc : k.srvClosed with
    | false => rfl
    | true => have := hk.closedPc hc; rw [hpc] at this; contradiction
  refine ⟨?_, ?_⟩
  · intro hc; simp only at hc; rw [hopen] at hc; contradiction
  · intro q hq
    simp at hq
    rcases hq with hq | hq
    · exact hk.allOpen q hq
    · subst hq; simp [hopen]

theorem kk_cDrainClose : KeepsK cDrainClose := by
  intro k k' h hk
  unfold cDrainClose at h; split at h <;> try contradiction
  split at h <;> try contradiction
  simp only [Option.some.injEq] at h; subst h
  exact ⟨fun _ => rfl, hk.allOpen⟩

theorem kinv_cNotify {k : Conn} (hk : KInv k) : KInv (cNotify k) := by
  obtain ⟨h1, h2, _⟩ := cNotify_keeps k
  refine ⟨?_, ?_⟩
  · intro hc; rw [h2] at hc; rw [cNotify_rpc]; exact hk.closedPc hc
  · intro q hq; rw [h1] at hq; exact hk.allOpen q hq

def KAll (s : State) : Prop := ∀ (c : Nat) (k : Conn), s.conns[c]? = some k → KInv k

theorem kick_updConn {s s' : State} {c : Cid} {f : Conn → Option Conn} (hf : KeepsK f)
    (hn : KAll s) (h : updConn s c f = some s') : KAll s' := by
  obtain ⟨k, k', hk, hfk, rfl⟩ := updConn_some h
  intro c' x hx
  rcases getElem?_set_cases hk hx with ⟨_, rfl⟩ | ⟨_, hx'⟩
  · exact hf k x hfk (hn c k hk)
  · exact hn c' x hx'

theorem kick_set {s : State} {c : Cid} {k k' : Conn} (hn : KAll s) (hk : s.conns[c]? = some k)
    (hk' : KInv k') : ∀ (c' : Nat) (x : Conn), (s.conns.set c k')[c']? = some x → KInv x := by
  intro c' x hx
  rcases getElem?_set_cases hk hx with ⟨_, rfl⟩ | ⟨_, hx'⟩
  · exact hk'
  · exact hn c' x hx'

theorem kick_notifyAll {s : State} (hn : KAll s) : KAll (notifyAll s) := by
  intro c x hx
  obtain ⟨k, hk, rfl⟩ := map_notify_get hx
  exact kinv_cNotify (hn c k hk)

/-- with the kick-only `CloseIdles` every action preserves `KInv` of every connection -/
theorem kick_step {cfg : Cfg} (hci : cfg.ci = .kickOnly) {s s' : State} (a : Action)
    (hI : GInv cfg s) (hn : KAll s) (h : step cfg s a = some s') : KAll s' := by
  cases a with
  | connect =>
    simp only [step, Option.some.injEq] at h; subst h
    intro c x hx
    by_cases hlt : c < s.conns.length
    · rw [List.getElem?_append_left hlt] at hx; exact hn c x hx
    · rw [List.getElem?_append_right (Nat.le_of_not_lt hlt)] at hx
      cases hcl : c - s.conns.length with
      | zero =>
        rw [hcl] at hx; simp at hx; subst hx
        exact ⟨by simp [Conn.new], by simp [Conn.new]⟩
      | succ n => rw [hcl] at hx; simp at hx
  | send c r => exact kick_updConn (kk_cSend false r) hn h
  | sendNR c r => exact kick_updConn (kk_cSend true r) hn h
  | accept c =>
    simp only [step] at h
    split at h
    · exact kick_updConn kk_cAccept hn h
    · contradiction
  | register c => exact kick_updConn kk_cRegister hn h
  | stamp c => exact kick_updConn kk_cStamp hn h
  | read c n => exact kick_updConn (kk_cRead n) hn h
  | readErr c f => exact kick_updConn (kk_cReadErr _ _ f) hn h
  | age c => exact kick_updConn kk_cAge hn h
  | dispatch c => exact kick_updConn (kk_cDispatch _) hn h
  | enqueue c =>
    simp only [step] at h
    split at h <;> try contradiction
    rename_i n q k hp hk
    split at h <;> try contradiction
    rename_i k' i hce
    have hce' : cEnqueued' k = some k' := by simp [cEnqueued', hce]
    have hk' := kk_cEnqueued' k k' hce' (hn c k hk)
    split at h
    · simp only [Option.some.injEq] at h; subst h
      exact kick_set hn hk hk'
    · split at h <;> try contradiction
      simp only [Option.some.injEq] at h; subst h
      exact kick_set hn hk hk'
  | pTake =>
    simp only [step] at h
    split at h <;> try contradiction
    split at h <;> try contradiction
    simp only [Option.some.injEq] at h; subst h; exact hn
  | pGive =>
    simp only [step] at h
    split at h <;> try contradiction
    rename_i n q c i hp hh
    split at h <;> try contradiction
    cases hu : updConn s c (cHand i) with
    | none => rw [hu] at h; contradiction
    | some s1 =>
      rw [hu] at h
      simp only [Option.map_some, Option.some.injEq] at h; subst h
      have := kick_updConn (kk_cHand i) hn hu
      exact this
  | start c i =>
    simp only [step] at h
    split at h
    · exact kick_updConn (kk_cStartP i) hn h
    · exact kick_updConn (kk_cStart i) hn h
  | fin c i =>
    simp only [step] at h
    split at h
    · contradiction
    · exact kick_updConn (kk_cFin i) hn h
  | finEarly c i =>
    simp only [step] at h
    split at h
    · exact kick_updConn (kk_cFinEarly i) hn h
    · contradiction
  | lateWrite c i => exact kick_updConn (kk_cLateWrite i) hn h
  | write c i => exact kick_updConn (kk_cWrite i) hn h
  | skip c i => exact kick_updConn (kk_cSkip _ i) hn h
  | dec c i => exact kick_updConn (kk_cDec i) hn h
  | drainTick c =>
    simp only [step] at h
    split at h <;> try contradiction
    split at h <;> try contradiction
    exact kick_updConn kk_cDrainTick hn h
  | drainClose c => exact kick_updConn kk_cDrainClose hn h
  | shutdownCall =>
    simp only [step] at h
    split at h <;> try contradiction
    simp only [Option.some.injEq] at h; subst h; exact hn
  | setClosed =>
    simp only [step] at h
    split at h <;> try contradiction
    simp only [Option.some.injEq] at h; subst h; exact hn
  | acceptExit =>
    simp only [step] at h
    split at h <;> try contradiction
    simp only [Option.some.injEq] at h; subst h; exact hn
  | relCall =>
    simp only [step] at h
    split at h <;> try contradiction
    simp only [Option.some.injEq] at h; subst h; exact hn
  | pStop =>
    simp only [step] at h
    split at h <;> try contradiction
    simp only [Option.some.injEq] at h; subst h; exact hn
  | relRet =>
    simp only [step] at h
    split at h <;> try contradiction
    simp only [Option.some.injEq] at h; subst h; exact hn
  | closeMsg =>
    simp only [step] at h
    split at h <;> try contradiction
    split at h <;> try contradiction
    simp only [Option.some.injEq] at h; subst h; exact kick_notifyAll hn
  | onShutdownRet =>
    simp only [step] at h
    split at h <;> try contradiction
    simp only [Option.some.injEq] at h; subst h; exact hn
  | ciBegin =>
    simp only [step] at h
    split at h <;> try contradiction
    simp only [Option.some.injEq] at h; subst h
    by_cases hl : s.listenClosed = 1
    · simp only [hl, if_true]; exact kick_notifyAll hn
    · simp only [hl, if_false]; exact hn
  | ciVisit c =>
    simp only [step, hci] at h
    split at h <;> try contradiction
    split at h <;> try contradiction
    split at h <;> try contradiction
    split at h
    · simp only [Option.some.injEq] at h; subst h; exact hn
    · split at h
      · simp only [Option.some.injEq] at h; subst h; exact hn
      · simp only [Option.some.injEq] at h; subst h; exact hn
  | ciClose =>
    -- never enabled: with the kick-only `CloseIdles` no connection is ever held for closing
    simp only [step] at h
    split at h <;> try contradiction
    rename_i p hp
    split at h <;> try contradiction
    rename_i c hh
    have := hI.noHold (by rw [hci]; simp) p hp
    rw [hh] at this; contradiction
  | ciEnd =>
    simp only [step] at h
    split at h <;> try contradiction
    split at h <;> try contradiction
    simp only [Option.some.injEq] at h; subst h; exact hn
  | ctxExpire =>
    simp only [step] at h
    split at h <;> try contradiction
    simp only [Option.some.injEq] at h; subst h; exact hn
  | recvRsp c i => exact kick_updConn (kk_cRecvRsp i) hn h
  | recvMsg c => exact kick_updConn kk_cRecvMsg hn h
  | recvEof c => exact kick_updConn kk_cRecvEof hn h

theorem kick_reachable {cfg : Cfg} (hci : cfg.ci = .kickOnly) {s : State} (hr : Reachable cfg s) :
    KAll s := by
  induction hr with
  | init => intro c k hk; simp [init] at hk
  | step a hr' hs ih => exact kick_step hci a (ginv_reachable hr') ih hs

end Tars.ServerConn
