import TarsModel.Proofs.SchemaRT3

/-!
# Round trip, stage 4: a REQUIRED member/element read into an arbitrary well-typed target

For a required member the previous content of the target is irrelevant as long as it is a value
of the member's type (`WT env ty old`): vectors and maps are rebuilt from scratch, scalars are
overwritten, fixed arrays are overwritten element-wise, structs are reset by `ResetDefault`.
(`rt_all` asks for the zero value / the default on non-struct types because an *optional* member
that is absent keeps the target's content.)
-/
namespace Tars
open Consts

/-- every well-typed struct value (e.g. the result of a previous decode, or any value the
    application stored in the target) is an admissible target -/
theorem WT.targetOK (env : Env) : ∀ (v : Val) (S : String), WT env (.struct S) v → TargetOK env S v := by
  refine Val.ind (P := fun v => ∀ S, WT env (.struct S) v → Ready env (.struct S) v)
    ?_ ?_ ?_ ?_ ?_ ?_ ?_ ?_
  · intro b S h; simp [WT, ScalarOK] at h
  · intro b S h; simp [WT, ScalarOK] at h
  · intro b S h; simp [WT, ScalarOK] at h
  · intro b S h; simp [WT, ScalarOK] at h
  · intro b S h; simp [WT, ScalarOK] at h
  · intro vs _ S h; simp [WT] at h
  · intro kvs _ S h; simp [WT] at h
  · intro vs ih S h
    simp only [WT] at h
    cases hfs : env.find S with
    | none => simp [hfs] at h
    | some fs =>
      simp only [hfs] at h
      simp only [Ready, hfs]
      have key : ∀ (gs : List Field) (ws : List Val), (∀ w ∈ ws, w ∈ vs) → WTm env gs ws →
          ReadyMembers env gs ws := by
        intro gs
        induction gs with
        | nil => intro ws _ hw; cases ws <;> simp [WTm, ReadyMembers] at hw ⊢
        | cons g gs ihg =>
          intro ws hsub hw
          cases ws with
          | nil => simp [WTm] at hw
          | cons w ws =>
            simp only [WTm] at hw
            simp only [ReadyMembers]
            refine ⟨?_, ihg ws (fun x hx => hsub x (by simp [hx])) hw.2⟩
            split
            · trivial
            · split
              · rename_i nm hty
                rw [hty] at hw ⊢
                exact ih w (hsub w (by simp)) nm hw.1
              · trivial
      exact key fs vs (fun w hw => hw) h

/-- the round-trip statement for a required member/element and a target holding any value of the
    member's type -/
def RQ (env : Env) (rk : String → Nat) (v : Val) : Prop :=
  ∀ (fuel tag : Nat) (ty : Ty) (dflt : Option Val) (old : Val) (r : Reader) (t : Bytes),
    tag < 256 → TyOK env rk (env.length + 1) ty → DfltOK ty dflt → WT env ty v →
    WT env ty old → needVar v ≤ fuel →
    r.rest = encVar env tag true ty dflt v ++ t →
    decVar env fuel tag true ty old r
      = (.ok (normVar env true ty dflt v), r.adv (encVar env tag true ty dflt v).length)

/-- a required vector read does not look at the target -/
theorem decVar_vec_req_indep (env : Env) (fuel tag : Nat) (e : Ty) (old old' : Val) (r : Reader) :
    decVar env (fuel+1) tag true (.vec e) old r = decVar env (fuel+1) tag true (.vec e) old' r := by
  rw [decVar_vec, decVar_vec]
  simp only [readSlice8, Bool.not_true, Bool.false_and, Bool.false_eq_true, if_false]

/-- a required map read does not look at the target -/
theorem decVar_map_req_indep (env : Env) (fuel tag : Nat) (k v : Ty) (old old' : Val) (r : Reader) :
    decVar env (fuel+1) tag true (.map k v) old r = decVar env (fuel+1) tag true (.map k v) old' r := by
  rw [decVar_map, decVar_map]
  simp only [Bool.not_true, Bool.false_and, Bool.false_eq_true, if_false]

theorem rq_scalar (env : Env) (rk : String → Nat) (v : Val)
    (hsc : ∀ ty w, WT env ty v → WT env ty w → ScalarOK ty v ∧ ScalarOK ty w) :
    RQ env rk v := by
  intro fuel tag ty dflt old r t htag _ _ hwt hwo hfuel h
  obtain ⟨hv, ho⟩ := hsc ty old hwt hwo
  have hat := scalarOK_isAtom hv
  obtain ⟨f, rfl⟩ : ∃ f, fuel = f + 1 := ⟨fuel - 1, by have := needVar_pos v; omega⟩
  rw [decVar_atom env f tag true ty old r hat]
  rw [encVar_scalarVal env tag true ty dflt v hv] at h ⊢
  have henc : (if ty = .enum then writeScalar ty v tag
      else if (!true && !scalarNeDefault ty dflt v) = true then [] else writeScalar ty v tag)
      = writeScalar ty v tag := by
    split <;> simp
  rw [henc] at h ⊢
  rw [normVar_present env true ty dflt v hv (Or.inr (by simp))]
  exact readScalar_present ty v old tag true r t htag hv ho h

/-- a value of an atom type is a scalar in range -/
theorem WT_atom {env : Env} {ty : Ty} {w : Val} (hat : ty.isAtom = true) (h : WT env ty w) :
    ScalarOK ty w := by
  cases w with
  | list _ => cases ty <;> first | (simp [WT] at h; done) | (simp [Ty.isAtom, Ty.isScalar] at hat; done)
  | map _ => cases ty <;> first | (simp [WT] at h; done) | (simp [Ty.isAtom, Ty.isScalar] at hat; done)
  | struct _ => cases ty <;> first | (simp [WT] at h; done) | (simp [Ty.isAtom, Ty.isScalar] at hat; done)
  | _ => simpa only [WT] using h

theorem decArr_rq (env : Env) (rk : String → Nat) (e : Ty)
    (he : TyOK env rk (env.length + 1) e) :
    ∀ (vs : List Val), (∀ v ∈ vs, RQ env rk v) → WTs env e vs →
      ∀ (fuel n i : Nat) (pre olds : List Val) (r : Reader) (t : Bytes),
        i = pre.length → n = i + vs.length → olds.length = vs.length → WTs env e olds →
        needElems vs ≤ fuel → r.rest = encElems env e vs ++ t →
        decArr env fuel e n i (n : Int) (pre ++ olds) r
          = (.ok (.list (pre ++ normElems env e vs)), r.adv (encElems env e vs).length)
  | [], _, _, fuel, n, i, pre, olds, r, t, hi, hn, hol, _, hf, _ => by
    obtain ⟨f, rfl⟩ : ∃ f, fuel = f + 1 := ⟨fuel - 1, by simp [needElems] at hf; omega⟩
    have : olds = [] := List.length_eq_zero_iff.mp (by simpa using hol)
    subst this
    simp only [List.length_nil, Nat.add_zero] at hn
    subst hn
    simp [decArr_succ, normElems, encElems]
  | v :: vs, ih, hwt, fuel, n, i, pre, olds, r, t, hi, hn, hol, hro, hf, h => by
    simp only [needElems] at hf
    obtain ⟨f, rfl⟩ : ∃ f, fuel = f + 1 := ⟨fuel - 1, by omega⟩
    obtain ⟨o, os, rfl⟩ : ∃ o os, olds = o :: os := by
      cases olds with
      | nil => simp at hol
      | cons o os => exact ⟨o, os, rfl⟩
    simp only [WTs] at hwt hro
    simp only [List.length_cons] at hn hol
    simp only [encElems, List.append_assoc] at h
    rw [decArr_succ]
    have c1 : ¬ ((i : Int) ≥ (n : Int)) := by omega
    have c2 : ¬ (i ≥ n) := by omega
    simp only [c1, c2, if_false]
    have hget : (pre ++ o :: os).getD i (zeroOf env e) = o := by
      subst hi; simp [List.getD]
    rw [hget]
    have hv := ih v (by simp) f 0 e none o r (encElems env e vs ++ t)
      (by decide) he trivial hwt.1 hro.1 (by omega) h
    rw [hv]
    simp only
    have hr := r.rest_adv _ _ h
    have hset : listSet (pre ++ o :: os) i (normVar env true e none v)
        = (pre ++ [normVar env true e none v]) ++ os := by
      subst hi; rw [listSet_mid]; simp
    rw [hset]
    have := decArr_rq env rk e he vs (fun w hw => ih w (by simp [hw])) hwt.2 f n (i+1)
      (pre ++ [normVar env true e none v]) os _ t (by simp [hi]) (by omega) (by omega) hro.2
      (by omega) hr
    rw [this]
    simp [normElems, encElems, Reader.adv_adv]

theorem rq_list (env : Env) (rk : String → Nat) (hE : EnvWF env rk) (vs : List Val)
    (ih : ∀ v ∈ vs, RQ env rk v) : RQ env rk (.list vs) := by
  intro fuel tag ty dflt old r t htag hty hd hwt hwo hfuel h
  have hpos := needVar_pos (.list vs)
  obtain ⟨f, rfl⟩ : ∃ f, fuel = f + 1 := ⟨fuel - 1, by omega⟩
  cases ty <;> try (simp only [WT] at hwt; done)
  case vec e =>
    rw [decVar_vec_req_indep env f tag e old (.list [])]
    exact rt_all env rk hE (.list vs) (f+1) tag true (.vec e) dflt (.list []) r t htag hty hd hwt
      (by
        have := dflt_none_of_nonatom hd (by rfl)
        subst this
        simp [OldOK, Ready])
      (by intro h; cases h) hfuel h
  case arr n e =>
    have hdn := dflt_none_of_nonatom hd (by rfl)
    subst hdn
    simp only [WT] at hwt
    simp only [TyOK] at hty
    simp only [needVar] at hfuel
    obtain ⟨hn, hlen, hwts⟩ := hwt
    subst hn
    -- the target: a list of `n` values of the element type
    obtain ⟨os, rfl, hos, hwos⟩ : ∃ os, old = .list os ∧ os.length = vs.length ∧ WTs env e os := by
      cases old <;> simp only [WT, ScalarOK] at hwo
      exact ⟨_, rfl, hwo.1, hwo.2.2⟩
    rw [decVar_arr]
    rw [encVar] at h ⊢
    simp only [normVar]
    have c1 : ¬ ((!true && vs.isEmpty) = true) := by simp
    rw [if_neg c1] at h ⊢
    simp only [hty.1, if_false, List.append_assoc] at h ⊢
    rw [skipToNoCheck_hit r tyLIST tag true _ (by decide) (by decide) htag h]
    have hr1 := r.rest_adv _ _ h
    simp +decide only [if_false, if_true]
    rw [readLen_len _ vs.length _ (by omega) hr1]
    have hr2 := Reader.rest_adv _ _ _ hr1
    simp only
    have c4 : ¬ ((vs.length : Int) > (vs.length : Int)) := by omega
    rw [if_neg c4]
    have := decArr_rq env rk e hty.2.2 vs ih hwts f vs.length 0 [] os _ t rfl (by omega) (by omega)
      hwos (by omega) hr2
    simp only [List.nil_append] at this
    rw [this]
    simp [Reader.adv_adv, Nat.add_assoc]

theorem rq_map (env : Env) (rk : String → Nat) (hE : EnvWF env rk) (kvs : List (Val × Val)) :
    RQ env rk (.map kvs) := by
  intro fuel tag ty dflt old r t htag hty hd hwt hwo hfuel h
  have hpos := needVar_pos (.map kvs)
  obtain ⟨f, rfl⟩ : ∃ f, fuel = f + 1 := ⟨fuel - 1, by omega⟩
  cases ty <;> try (simp only [WT] at hwt; done)
  rename_i k v
  rw [decVar_map_req_indep env f tag k v old (.map [])]
  exact rt_all env rk hE (.map kvs) (f+1) tag true (.map k v) dflt (.map []) r t htag hty hd hwt
    (by
      have := dflt_none_of_nonatom hd (by rfl)
      subst this
      simp [OldOK, Ready])
    (by intro h; cases h) hfuel h

theorem rq_struct (env : Env) (rk : String → Nat) (hE : EnvWF env rk) (vs : List Val) :
    RQ env rk (.struct vs) := by
  intro fuel tag ty dflt old r t htag hty hd hwt hwo hfuel h
  cases ty <;> try (simp only [WT] at hwt; done)
  rename_i name
  have := dflt_none_of_nonatom hd (by rfl)
  subst this
  exact decVar_struct_rt env rk hE vs (fun v _ => rt_all env rk hE v) name fuel tag true old r t htag
    hwt (WT.targetOK env old name hwo) hfuel h

/-- a REQUIRED member/element round-trips into a target holding any value of its type -/
theorem rq_all (env : Env) (rk : String → Nat) (hE : EnvWF env rk) : ∀ v, RQ env rk v :=
  Val.ind
    (fun b => rq_scalar env rk _ (fun ty w h1 h2 =>
      ⟨by simpa only [WT] using h1, WT_atom (scalarOK_isAtom (by simpa only [WT] using h1)) h2⟩))
    (fun i => rq_scalar env rk _ (fun ty w h1 h2 =>
      ⟨by simpa only [WT] using h1, WT_atom (scalarOK_isAtom (by simpa only [WT] using h1)) h2⟩))
    (fun b => rq_scalar env rk _ (fun ty w h1 h2 =>
      ⟨by simpa only [WT] using h1, WT_atom (scalarOK_isAtom (by simpa only [WT] using h1)) h2⟩))
    (fun b => rq_scalar env rk _ (fun ty w h1 h2 =>
      ⟨by simpa only [WT] using h1, WT_atom (scalarOK_isAtom (by simpa only [WT] using h1)) h2⟩))
    (fun s => rq_scalar env rk _ (fun ty w h1 h2 =>
      ⟨by simpa only [WT] using h1, WT_atom (scalarOK_isAtom (by simpa only [WT] using h1)) h2⟩))
    (fun vs ih => rq_list env rk hE vs ih)
    (fun kvs _ => rq_map env rk hE kvs)
    (fun vs _ => rq_struct env rk hE vs)

/-- `rt_all` for a required member with an arbitrary well-typed target (same argument order as
    `rt_all`, `req := true`, `WT env ty old` in place of `OldOK`, no condition on `t`) -/
theorem rt_req_wt (env : Env) (rk : String → Nat) (hE : EnvWF env rk) (v : Val)
    (fuel tag : Nat) (ty : Ty) (dflt : Option Val) (old : Val) (r : Reader) (t : Bytes)
    (htag : tag < 256) (hty : TyOK env rk (env.length + 1) ty) (hd : DfltOK ty dflt)
    (hwt : WT env ty v) (ho : WT env ty old) (hfuel : needVar v ≤ fuel)
    (h : r.rest = encVar env tag true ty dflt v ++ t) :
    decVar env fuel tag true ty old r
      = (.ok (normVar env true ty dflt v), r.adv (encVar env tag true ty dflt v).length) :=
  rq_all env rk hE v fuel tag ty dflt old r t htag hty hd hwt ho hfuel h

end Tars
