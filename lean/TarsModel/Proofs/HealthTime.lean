/-
  Proofs/HealthTime.lean — the probe queue and the timing of probe candidates / probe calls.
-/
import TarsModel.Proofs.HealthLive

namespace Tars.Health
open Tars

/-- the probe interval, as an integer -/
abbrev T : Int := (Consts.healthTryTimeInterval : Int)

/-- per-endpoint timing invariant. `st`/`lbt`: status and lastBlockTime of the record, `inq`: the
endpoint waits in the probe queue, `G`/`P`/`P2`: times of the last candidate queued, the last probe
call and the probe call before that. -/
structure CInv (stamp : Bool) (now : Int) (st : Bool) (lbt : Int) (inq : Prop) (G P P2 : Option Int) : Prop where
  g1 : ∀ t, G = some t → t ≤ now
  g2 : st = false → ∀ t, G = some t → t ≤ lbt
  p1 : ∀ t, P = some t → t ≤ now
  p4 : ∀ t, P = some t → ∃ g, G = some g
  p5 : ∀ t, P2 = some t → ∃ p, P = some p
  py : inq → ∃ g, G = some g ∧ (∀ p, P = some p → p ≤ g) ∧ (∀ p2, P2 = some p2 → p2 + T ≤ g)
  px : ¬inq → ∀ g p2, G = some g → P2 = some p2 → p2 ≤ g
  r1 : stamp = true → st = false → ∀ p, P = some p → p ≤ lbt
  r2 : stamp = true → inq → ∀ p g, P = some p → G = some g → p + T ≤ g
  /-- a blocked record's `lastBlockTime` is not in the future -/
  lb : st = false → lbt ≤ now

namespace CInv
variable {stamp : Bool} {now : Int} {st : Bool} {lbt : Int} {inq : Prop} {G P P2 : Option Int}

theorem advance (h : CInv stamp now st lbt inq G P P2) (d : Nat) : CInv stamp (now + d) st lbt inq G P P2 :=
  { h with g1 := fun t ht => (by have := h.g1 t ht; omega), p1 := fun t ht => (by have := h.p1 t ht; omega),
           lb := fun hs => (by have := h.lb hs; omega) }

/-- same facts under an equivalent queue-membership proposition -/
theorem congr_inq {inq' : Prop} (h : CInv stamp now st lbt inq G P P2) (e : inq' ↔ inq) :
    CInv stamp now st lbt inq' G P P2 :=
  { g1 := h.g1, g2 := h.g2, p1 := h.p1, p4 := h.p4, p5 := h.p5, py := fun hi => h.py (e.mp hi),
    px := fun hi => h.px (fun x => hi (e.mpr x)), r1 := h.r1, r2 := fun hs hi => h.r2 hs (e.mp hi), lb := h.lb }

/-- `lastBlockTime := now` (any status afterwards) -/
theorem stampNow (h : CInv stamp now st lbt inq G P P2) (st' : Bool) : CInv stamp now st' now inq G P P2 :=
  { h with g2 := fun _ t ht => h.g1 t ht, r1 := fun _ _ p hp => h.p1 p hp, lb := fun _ => Int.le_refl _ }

/-- status and lastBlockTime unchanged or status set to true -/
theorem setActive (h : CInv stamp now st lbt inq G P P2) (lbt' : Int) : CInv stamp now true lbt' inq G P P2 :=
  { h with g2 := fun hf => (by cases hf), r1 := fun _ hf => (by cases hf), lb := fun hf => (by cases hf) }

/-- a probe candidate is queued: blocked, not queued, `T` seconds after lastBlockTime -/
theorem grant (h : CInv stamp now false lbt inq G P P2) (hn : ¬inq) (ht : T ≤ now - lbt) {inq' : Prop} (hi : inq') :
    CInv stamp now false now inq' (some now) P P2 := by
  have hG : ∀ g, G = some g → g + T ≤ now := fun g hg => by have := h.g2 rfl g hg; omega
  refine { g1 := ?_, g2 := ?_, p1 := h.p1, p4 := ?_, p5 := h.p5, py := ?_, px := ?_, r1 := ?_, r2 := ?_,
           lb := fun _ => Int.le_refl _ }
  · intro t e; cases e; exact Int.le_refl _
  · intro _ t e; cases e; exact Int.le_refl _
  · intro t _; exact ⟨now, rfl⟩
  · intro _
    refine ⟨now, rfl, fun p hp => h.p1 p hp, ?_⟩
    intro p2 hp2
    obtain ⟨p, hp⟩ := h.p5 p2 hp2
    obtain ⟨g, hg⟩ := h.p4 p hp
    have := h.px hn g p2 hg hp2
    have := hG g hg
    omega
  · intro hni; exact absurd hi hni
  · intro _ _ p hp; exact h.p1 p hp
  · intro hs _ p g hp e
    cases e
    have := h.r1 hs rfl p hp
    omega

/-- the queued candidate is handed to a call -/
theorem pop (h : CInv stamp now st lbt inq G P P2) (hi : inq) {inq' : Prop} (hn : ¬inq') (lbt' : Int)
    (hl : (stamp = true → lbt' = now) ∧ (stamp = false → lbt' = lbt)) :
    CInv stamp now st lbt' inq' G (some now) P := by
  obtain ⟨g, hg, hgp, hgp2⟩ := h.py hi
  refine { g1 := h.g1, g2 := ?_, p1 := ?_, p4 := ?_, p5 := ?_, py := ?_, px := ?_, r1 := ?_, r2 := ?_, lb := ?_ }
  rotate_right
  · intro hs
    cases hst : stamp
    · rw [hl.2 hst]; exact h.lb hs
    · rw [hl.1 hst]; exact Int.le_refl _
  · intro hs t ht
    cases hst : stamp
    · rw [hl.2 hst]; exact h.g2 hs t ht
    · rw [hl.1 hst]; exact h.g1 t ht
  · intro t e; cases e; exact Int.le_refl _
  · intro t _; exact ⟨g, hg⟩
  · intro t _; exact ⟨now, rfl⟩
  · intro hi'; exact absurd hi' hn
  · intro _ g' p2 hg' hp2
    rw [hg] at hg'; cases hg'
    exact hgp p2 hp2
  · intro hs _ p e; cases e; rw [hl.1 hs]; exact Int.le_refl _
  · intro _ hi'; exact absurd hi' hn

/-- bound used at a `grant` event: the previous candidate is at least `T` older -/
theorem grant_gap (h : CInv stamp now false lbt inq G P P2) (ht : T ≤ now - lbt) (t0 : Int) (h0 : G = some t0) :
    T ≤ now - t0 := by have := h.g2 rfl t0 h0; omega

/-- bound used at a probe call: the probe call before the previous one is at least `T` older -/
theorem pop_gap3 (h : CInv stamp now st lbt inq G P P2) (hi : inq) (t1 : Int) (h1 : P2 = some t1) : T ≤ now - t1 := by
  obtain ⟨g, hg, _, hgp2⟩ := h.py hi
  have := hgp2 t1 h1
  have := h.g1 g hg
  omega

/-- repaired variant: the previous probe call is at least `T` older -/
theorem pop_gap2 (h : CInv stamp now st lbt inq G P P2) (hs : stamp = true) (hi : inq) (t1 : Int) (h1 : P = some t1) :
    T ≤ now - t1 := by
  obtain ⟨g, hg, _, _⟩ := h.py hi
  have := h.r2 hs hi t1 g h1 hg
  have := h.g1 g hg
  omega

end CInv


/-! ## the manager-level timing invariant -/

def PGrant (e : Event) (pre : List Event) : Prop :=
  ∀ ep t, e = .grant ep t → ∀ t0, lastGrant pre ep = some t0 → T ≤ t - t0
def PProbe3 (e : Event) (pre : List Event) : Prop :=
  ∀ ep t, e = .picked ep true t → ∀ t1, prevProbe pre ep = some t1 → T ≤ t - t1
def PProbe2 (e : Event) (pre : List Event) : Prop :=
  ∀ ep t, e = .picked ep true t → ∀ t1, lastProbe pre ep = some t1 → T ≤ t - t1

def cview (s : Mgr) (ep : Nat) : Prop :=
  CInv s.stamp s.now (s.recs ep).status (s.recs ep).lastBlockTime (ep ∈ s.queue)
    (lastGrant s.log ep) (lastProbe s.log ep) (prevProbe s.log ep)

structure InvT (s : Mgr) : Prop where
  pq : ∀ ep, ep ∈ s.pend ↔ ep ∈ s.queue
  nd : s.queue.Nodup
  pnd : s.pend.Nodup
  cnt : ∀ ep, grants s.log ep = probes s.log ep + (if ep ∈ s.queue then 1 else 0)
  c : ∀ ep, cview s ep
  okG : AllSuffix PGrant s.log
  okP3 : AllSuffix PProbe3 s.log
  okP2 : s.stamp = true → AllSuffix PProbe2 s.log

theorem init_invT (stamp : Bool) (reg : List Nat) (now0 : Int) : InvT (init stamp reg now0) := by
  refine { pq := by simp [init], nd := by simp [init], pnd := by simp [init], cnt := by simp [init, grants, probes],
           c := ?_, okG := trivial, okP3 := trivial, okP2 := fun _ => trivial }
  intro ep
  simp only [cview, init, lastGrant, lastProbe, prevProbe]
  constructor <;> simp [Rec.fresh]

theorem emit_neutral_invT {s : Mgr} (h : InvT s) (e : Event) (hg : ∀ ep t, e ≠ .grant ep t)
    (hp : ∀ ep t, e ≠ .picked ep true t) : InvT (emit s e) := by
  have e1 : ∀ ep, lastGrant (e :: s.log) ep = lastGrant s.log ep := by
    intro ep; cases e <;> first | rfl | (exfalso; exact hg _ _ rfl)
  have e2 : ∀ ep, lastProbe (e :: s.log) ep = lastProbe s.log ep := by
    intro ep; cases e with
    | picked x p t => cases p with
      | true => exact absurd rfl (hp x t)
      | false => rfl
    | _ => rfl
  have e3 : ∀ ep, prevProbe (e :: s.log) ep = prevProbe s.log ep := by
    intro ep; cases e with
    | picked x p t => cases p with
      | true => exact absurd rfl (hp x t)
      | false => rfl
    | _ => rfl
  have e4 : ∀ ep, grants (e :: s.log) ep = grants s.log ep := by
    intro ep; cases e <;> first | rfl | (exfalso; exact hg _ _ rfl)
  have e5 : ∀ ep, probes (e :: s.log) ep = probes s.log ep := by
    intro ep; cases e with
    | picked x p t => cases p with
      | true => exact absurd rfl (hp x t)
      | false => rfl
    | _ => rfl
  refine { pq := h.pq, nd := h.nd, pnd := h.pnd, cnt := ?_, c := ?_, okG := ⟨?_, h.okG⟩, okP3 := ⟨?_, h.okP3⟩,
           okP2 := fun hs => ⟨?_, h.okP2 hs⟩ }
  · intro ep; simp only [emit, e4, e5]; exact h.cnt ep
  · intro ep; simp only [cview, emit, e1, e2, e3]; exact h.c ep
  · intro ep t he; exact absurd he (hg ep t)
  · intro ep t he; exact absurd he (hp ep t)
  · intro ep t he; exact absurd he (hp ep t)

/-- a record update that keeps status and lastBlockTime -/
theorem setRec_neutral_invT {s : Mgr} (h : InvT s) (ep : Nat) (r' : Rec) (hst : r'.status = (s.recs ep).status)
    (hl : r'.lastBlockTime = (s.recs ep).lastBlockTime) : InvT (setRec s ep r') := by
  refine { pq := h.pq, nd := h.nd, pnd := h.pnd, cnt := h.cnt, c := ?_, okG := h.okG, okP3 := h.okP3, okP2 := h.okP2 }
  intro e
  simp only [cview, setRec, upd_apply]
  split
  · rename_i heq; subst heq; rw [hst, hl]; exact h.c e
  · exact h.c e

/-- a record update that makes the record active -/
theorem setRec_active_invT {s : Mgr} (h : InvT s) (ep : Nat) (r' : Rec) (hst : r'.status = true) : InvT (setRec s ep r') := by
  refine { pq := h.pq, nd := h.nd, pnd := h.pnd, cnt := h.cnt, c := ?_, okG := h.okG, okP3 := h.okP3, okP2 := h.okP2 }
  intro e
  simp only [cview, setRec, upd_apply]
  split
  · rename_i heq; subst heq; rw [hst]; exact (h.c e).setActive _
  · exact h.c e

/-- a record update that sets `lastBlockTime := now` -/
theorem setRec_stampNow_invT {s : Mgr} (h : InvT s) (ep : Nat) (r' : Rec) (hl : r'.lastBlockTime = s.now) :
    InvT (setRec s ep r') := by
  refine { pq := h.pq, nd := h.nd, pnd := h.pnd, cnt := h.cnt, c := ?_, okG := h.okG, okP3 := h.okP3, okP2 := h.okP2 }
  intro e
  simp only [cview, setRec, upd_apply]
  split
  · rename_i heq; subst heq; rw [hl]; exact (h.c e).stampNow _
  · exact h.c e

/-- changes of fields the timing invariant does not mention -/
theorem other_invT {s : Mgr} (h : InvT s) (a sl : List Nat) (hs : Nat → Bool) (inf : List (Nat × Bool)) :
    InvT { s with active := a, sel := sl, has := hs, inflight := inf } :=
  { pq := h.pq, nd := h.nd, pnd := h.pnd, cnt := h.cnt, c := h.c, okG := h.okG, okP3 := h.okP3, okP2 := h.okP2 }

theorem advance_invT {s : Mgr} (h : InvT s) (d : Nat) : InvT { s with now := s.now + d } :=
  { pq := h.pq, nd := h.nd, pnd := h.pnd, cnt := h.cnt, c := fun ep => (h.c ep).advance d,
    okG := h.okG, okP3 := h.okP3, okP2 := h.okP2 }


theorem takeOut_invT {s : Mgr} (h : InvT s) (x : Nat) (r' : Rec) (hl : r'.lastBlockTime = s.now) :
    InvT (takeOut (setRec s x r') x) := by
  have h1 := setRec_stampNow_invT h x r' hl
  have h2 := other_invT h1 ((setRec s x r').active.erase x) ((setRec s x r').sel.erase x) (setRec s x r').has (setRec s x r').inflight
  exact emit_neutral_invT h2 (.blocked x s.now) (fun _ _ he => by cases he) (fun _ _ he => by cases he)

theorem enqueue_invT {s : Mgr} (h : InvT s) (x : Nat) (r' : Rec) (hst : (s.recs x).status = false)
    (hst' : r'.status = false) (hl : r'.lastBlockTime = s.now) (ht : T ≤ s.now - (s.recs x).lastBlockTime)
    (hp : x ∉ s.pend) : InvT (enqueue (setRec s x r') x) := by
  have hq : x ∉ s.queue := fun hm => hp ((h.pq x).mpr hm)
  have hcx := h.c x
  simp only [cview] at hcx
  rw [hst] at hcx
  refine { pq := ?_, nd := ?_, pnd := ?_, cnt := ?_, c := ?_, okG := ⟨?_, h.okG⟩, okP3 := ⟨?_, h.okP3⟩,
           okP2 := fun hs => ⟨?_, h.okP2 hs⟩ }
  · intro e
    simp only [enqueue, emit, setRec, List.mem_cons, List.mem_append, List.not_mem_nil, or_false]
    rw [h.pq e]
    constructor
    · rintro (h1 | h1)
      · exact Or.inr h1
      · exact Or.inl h1
    · rintro (h1 | h1)
      · exact Or.inr h1
      · exact Or.inl h1
  · simp only [enqueue, emit, setRec]
    rw [List.nodup_append]
    refine ⟨h.nd, by simp, ?_⟩
    intro a ha b hb hab
    simp at hb
    rw [hb] at hab
    exact hq (hab ▸ ha)
  · simp only [enqueue, emit, setRec]
    exact List.nodup_cons.mpr ⟨hp, h.pnd⟩
  · intro e
    simp only [enqueue, emit, setRec, grants_grant, probes_grant, List.mem_append, List.mem_singleton]
    have := h.cnt e
    by_cases hx : x = e
    · subst hx; simp [hq] at this ⊢; omega
    · have hx' : ¬ e = x := fun y => hx y.symm
      simp only [hx, hx', if_false, or_false]; omega
  · intro e
    simp only [cview, enqueue, emit, setRec, upd_apply, lastGrant_grant, lastProbe_grant, prevProbe_grant]
    by_cases hx : e = x
    · subst hx
      simp only [if_true, hst', hl]
      exact hcx.grant hq ht (List.mem_append.mpr (Or.inr (List.mem_singleton.mpr rfl)))
    · have hx' : ¬ x = e := fun y => hx y.symm
      simp only [hx, hx', if_false]
      refine (h.c e).congr_inq ?_
      simp [hx]
  · intro e t he t0 h0
    injection he with he1 he2
    subst he1; subst he2
    exact hcx.grant_gap ht t0 h0
  · intro e t he; cases he
  · intro e t he; cases he


/-- the queued probe candidate is handed to a call (`popProbe` then `recSend … true`) -/
theorem probe_invT {s : Mgr} (h : InvT s) {x : Nat} {q : List Nat} (hq : s.queue = x :: q) :
    InvT (recSend (popProbe s x q) x true) := by
  have hnd : x ∉ q ∧ q.Nodup := by have := h.nd; rw [hq] at this; exact List.nodup_cons.mp this
  have hxq : x ∈ s.queue := by rw [hq]; exact List.mem_cons_self
  have hmem : ∀ e, e ≠ x → (e ∈ q ↔ e ∈ s.queue) := by
    intro e he; rw [hq]; simp [he]
  have hcx := h.c x
  simp only [cview] at hcx
  -- the fields of the new state that matter
  have f_now : (recSend (popProbe s x q) x true).now = s.now := by unfold recSend popProbe; split <;> rfl
  have f_stamp : (recSend (popProbe s x q) x true).stamp = s.stamp := by unfold recSend popProbe; split <;> rfl
  have f_queue : (recSend (popProbe s x q) x true).queue = q := by unfold recSend popProbe; split <;> rfl
  have f_pend : (recSend (popProbe s x q) x true).pend = s.pend.erase x := by unfold recSend popProbe; split <;> rfl
  have f_log : (recSend (popProbe s x q) x true).log = .picked x true s.now :: s.log := by
    unfold recSend popProbe; split <;> rfl
  have f_st : ∀ e, ((recSend (popProbe s x q) x true).recs e).status = (s.recs e).status := by
    intro e; unfold recSend popProbe; split <;> simp only [emit, setRec, upd_apply, sendAdd] <;> (repeat' split) <;> simp_all
  have f_lbt_other : ∀ e, e ≠ x → ((recSend (popProbe s x q) x true).recs e).lastBlockTime = (s.recs e).lastBlockTime := by
    intro e he; unfold recSend popProbe; split <;> simp [emit, setRec, upd_apply, he]
  have f_lbt_self : (s.stamp = true → ((recSend (popProbe s x q) x true).recs x).lastBlockTime = s.now) ∧
      (s.stamp = false → ((recSend (popProbe s x q) x true).recs x).lastBlockTime = (s.recs x).lastBlockTime) := by
    constructor <;> intro hs <;> unfold recSend popProbe <;> simp [hs, emit, setRec, sendAdd]
  refine { pq := ?_, nd := ?_, pnd := ?_, cnt := ?_, c := ?_, okG := ?_, okP3 := ?_, okP2 := ?_ }
  · intro e
    rw [f_pend, f_queue, h.pnd.mem_erase_iff, h.pq e]
    constructor
    · rintro ⟨h1, h2⟩; exact (hmem e h1).mpr h2
    · intro h1
      have hne : e ≠ x := fun heq => hnd.1 (heq ▸ h1)
      exact ⟨hne, (hmem e hne).mp h1⟩
  · rw [f_queue]; exact hnd.2
  · rw [f_pend]; exact h.pnd.erase x
  · intro e
    rw [f_log, f_queue]
    simp only [grants_picked, probes_probe]
    have hc := h.cnt e
    by_cases hx : x = e
    · subst hx; simp [hxq, hnd.1] at hc ⊢; omega
    · have hx' : e ≠ x := fun y => hx y.symm
      have hm := hmem e hx'
      by_cases hin : e ∈ s.queue
      · simp [hx, hin, hm.mpr hin] at hc ⊢; omega
      · have hnq : e ∉ q := fun y => hin (hm.mp y)
        simp [hx, hin, hnq] at hc ⊢; omega
  · intro e
    simp only [cview]
    rw [f_now, f_stamp, f_queue, f_log, f_st e]
    by_cases hx : e = x
    · subst hx
      simp only [lastGrant_picked, lastProbe_probe, prevProbe_probe, if_true]
      exact hcx.pop hxq hnd.1 _ f_lbt_self
    · have hx' : ¬ x = e := fun y => hx y.symm
      simp only [lastGrant_picked, lastProbe_probe, prevProbe_probe, hx', if_false]
      rw [f_lbt_other e hx]
      exact (h.c e).congr_inq (hmem e hx)
  · rw [f_log]; exact ⟨(by intro e t he; cases he), h.okG⟩
  · rw [f_log]
    refine ⟨?_, h.okP3⟩
    intro e t he t1 h1
    injection he with he1 _ he3
    subst he1; subst he3
    exact hcx.pop_gap3 hxq t1 h1
  · intro hs
    rw [f_stamp] at hs
    rw [f_log]
    refine ⟨?_, h.okP2 hs⟩
    intro e t he t1 h1
    injection he with he1 _ he3
    subst he1; subst he3
    exact hcx.pop_gap2 hs hxq t1 h1


theorem checkOne_invT (conn : List Nat) {s : Mgr} (h : InvT s) (x : Nat) : InvT (checkOne conn s x) := by
  rcases checkOne_cases conn s x with ⟨_, he⟩ | ⟨_, hft, he⟩ | ⟨_, hft, _, he⟩ | ⟨_, hn, hp, he⟩
  · rw [he]; exact h
  · rw [he]
    exact takeOut_invT h x _ (checkActive_first _ _ _ hft).2.2.1
  · rw [he]
    rcases checkActive_lbt s.now (conn.contains x) (s.recs x) with hl | hl
    · exact setRec_neutral_invT h x _ (checkActive_notfirst _ _ _ hft) hl
    · exact setRec_stampNow_invT h x _ hl
  · rw [he]
    have hf := checkActive_need _ _ _ hn
    have hst' := checkActive_notfirst _ _ _ hf.2.2.2.2
    exact enqueue_invT h x _ hf.1 (hst'.trans hf.1) hf.2.1 hf.2.2.1 hp

theorem checkStatus_invT (conn : List Nat) {s : Mgr} (h : InvT s) : InvT (checkStatus conn s) := by
  unfold checkStatus
  generalize s.reg = l
  induction l generalizing s with
  | nil => exact h
  | cons x xs ih => exact ih (checkOne_invT conn h x)

theorem recFail_invT {s : Mgr} (h : InvT s) (ep : Nat) : InvT (recFail s ep) :=
  emit_neutral_invT (setRec_neutral_invT h ep (failAdd (s.recs ep)) rfl rfl) (.fail ep s.now)
    (fun _ _ he => by cases he) (fun _ _ he => by cases he)

theorem recOk_invT {s : Mgr} (h : InvT s) (ep : Nat) : InvT (recOk s ep) :=
  emit_neutral_invT (setRec_neutral_invT h ep (successAdd s.now (s.recs ep)) rfl rfl) (.ok ep s.now)
    (fun _ _ he => by cases he) (fun _ _ he => by cases he)

theorem recSend_false_invT {s : Mgr} (h : InvT s) (ep : Nat) : InvT (recSend s ep false) :=
  emit_neutral_invT (setRec_neutral_invT h ep (sendAdd (s.recs ep)) rfl rfl) (.picked ep false s.now)
    (fun _ _ he => by cases he) (fun _ _ he => by cases he)

theorem reinstate_invT {s : Mgr} (h : InvT s) (ep : Nat) : InvT (reinstate s ep) := by
  have h1 := setRec_active_invT h ep (reset s.now (s.recs ep)) rfl
  have h2 := other_invT h1 ((setRec s ep (reset s.now (s.recs ep))).active ++ [ep])
    (selAdd (setRec s ep (reset s.now (s.recs ep))).sel ep) (setRec s ep (reset s.now (s.recs ep))).has
    (setRec s ep (reset s.now (s.recs ep))).inflight
  exact emit_neutral_invT h2 (.reinstated ep s.now) (fun _ _ he => by cases he) (fun _ _ he => by cases he)

/-- what `startOn` does after `recSend` -/
theorem afterSend_invT {m : Mgr} (h : InvT m) (ep : Nat) (probe sendOk oneway : Bool) :
    InvT (if (!sendOk) = true then recFail m ep
      else if oneway = true then recOk m ep else { m with inflight := m.inflight ++ [(ep, probe)] }) := by
  cases sendOk
  · simpa using recFail_invT h ep
  · cases oneway
    · simpa using other_invT h m.active m.sel m.has (m.inflight ++ [(ep, probe)])
    · simpa using recOk_invT h ep

theorem start_invT {s : Mgr} (h : InvT s) (choice : Nat) (sendOk oneway : Bool) : InvT (start s choice sendOk oneway) := by
  unfold start selectAdapter
  split
  · simp only
    exact emit_neutral_invT h _ (fun _ _ he => by cases he) (fun _ _ he => by cases he)
  · split
    · rename_i ep q hq
      simp only [startOn]
      exact afterSend_invT (probe_invT h hq) ep true sendOk oneway
    · split
      · simp only [startOn]
        exact afterSend_invT (recSend_false_invT (other_invT h s.active s.sel _ s.inflight) _) _ false sendOk oneway
      · simp only [startOn]
        exact afterSend_invT (recSend_false_invT (other_invT h s.active s.sel _ s.inflight) _) _ false sendOk oneway

theorem finishCall_invT {s : Mgr} (h : InvT s) (ep : Nat) (probe ok : Bool) : InvT (finishCall s ep probe ok) := by
  unfold finishCall
  cases ok
  · simpa using recFail_invT h ep
  · cases probe
    · simpa using recOk_invT h ep
    · simpa using recOk_invT (reinstate_invT h ep) ep

theorem finish_invT {s : Mgr} (h : InvT s) (k : Nat) (ok : Bool) : InvT (finish s k ok) := by
  unfold finish
  split
  · exact h
  · simp only
    exact finishCall_invT (other_invT h s.active s.sel s.has _) _ _ _

theorem step_invT {s : Mgr} (h : InvT s) (a : Action) : InvT (step s a) := by
  cases a with
  | advance d => exact advance_invT h d
  | checkStatus conn => exact checkStatus_invT conn h
  | start c so ow => exact start_invT h c so ow
  | finish k ok => exact finish_invT h k ok

theorem run_invT {s : Mgr} (h : InvT s) (hist : List Action) : InvT (run s hist) := by
  unfold run
  induction hist generalizing s with
  | nil => exact h
  | cons a as ih => exact ih (step_invT h a)

end Tars.Health
