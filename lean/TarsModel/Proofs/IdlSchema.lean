/-
  `sortTag` yields the unique ascending arrangement of the members; the schema extracted from the
  syntax tree of a grammar program.
-/
import TarsModel.Model.Idl

namespace Tars.Idl

theorem insertByTag_perm (m : StructMember) (l : List StructMember) :
    (insertByTag m l).Perm (m :: l) := by
  induction l with
  | nil => exact List.Perm.refl _
  | cons x xs ih =>
    unfold insertByTag
    split
    · exact List.Perm.refl _
    · exact ((List.perm_cons x).mpr ih).trans (List.Perm.swap m x xs)

theorem sortTag_perm (l : List StructMember) : (sortTag l).Perm l := by
  induction l with
  | nil => exact List.Perm.refl _
  | cons m ms ih =>
    unfold sortTag
    exact (insertByTag_perm m (sortTag ms)).trans ((List.perm_cons m).mpr ih)

theorem insertByTag_sorted (m : StructMember) (l : List StructMember)
    (h : l.Pairwise (fun a b => a.tag ≤ b.tag)) :
    (insertByTag m l).Pairwise (fun a b => a.tag ≤ b.tag) := by
  induction l with
  | nil => simp [insertByTag]
  | cons x xs ih =>
    rw [List.pairwise_cons] at h
    unfold insertByTag
    split
    · rename_i hlt
      rw [List.pairwise_cons]
      refine ⟨?_, List.pairwise_cons.mpr h⟩
      intro a ha
      rcases List.mem_cons.mp ha with rfl | ha
      · omega
      · have := h.1 a ha; omega
    · rename_i hge
      rw [List.pairwise_cons]
      refine ⟨?_, ih h.2⟩
      intro a ha
      rcases List.mem_cons.mp ((insertByTag_perm m xs).mem_iff.mp ha) with rfl | ha
      · omega
      · exact h.1 a ha

theorem sortTag_sorted (l : List StructMember) :
    (sortTag l).Pairwise (fun a b => a.tag ≤ b.tag) := by
  induction l with
  | nil => simp [sortTag]
  | cons m ms ih => unfold sortTag; exact insertByTag_sorted m _ ih

theorem dupTag_false (l : List StructMember) (h : dupTag l = false) :
    l.Pairwise (fun a b => a.tag ≠ b.tag) := by
  induction l with
  | nil => simp
  | cons m ms ih =>
    simp only [dupTag, Bool.or_eq_false_iff] at h
    rw [List.pairwise_cons]
    refine ⟨?_, ih h.2⟩
    intro a ha heq
    have := h.1
    rw [List.any_eq_false] at this
    exact this a ha (by simp [heq])

/-- after `checkTag`, `sortTag` gives strictly ascending tags -/
theorem sortTag_strict (l : List StructMember) (h : dupTag l = false) :
    (sortTag l).Pairwise (fun a b => a.tag < b.tag) := by
  have h1 := sortTag_sorted l
  have h2 : (sortTag l).Pairwise (fun a b => a.tag ≠ b.tag) :=
    (sortTag_perm l).symm.pairwise (dupTag_false l h) (fun h => fun e => h e.symm)
  exact (h1.and h2).imp (fun ⟨a, b⟩ => by omega)

/-- the structs of the declared syntax tree: one per struct declaration, in order -/
theorem structs_foldl (ds : List GDecl) (m : Module) :
    (ds.foldl GDecl.addTo m).structs =
      m.structs ++ (ds.filterMap GDecl.struct?).map
        fun s => ⟨s.name, sortTag (s.fields.map GField.ast)⟩ := by
  induction ds generalizing m with
  | nil => simp
  | cons d ds ih =>
    simp only [List.foldl_cons]
    rw [ih]
    cases d <;> simp [GDecl.addTo, GDecl.struct?, List.filterMap_cons]

/-- every struct declaration of a well-formed program has pairwise distinct tags -/
theorem declsWF_structs (ds : List GDecl) (m : Module) (h : declsWF m ds = true) :
    ∀ s ∈ (ds.filterMap GDecl.struct?),
      dupTag (s.fields.map GField.ast) = false := by
  induction ds generalizing m with
  | nil => simp
  | cons d ds ih =>
    simp only [declsWF, Bool.and_eq_true] at h
    intro s hs
    cases d with
    | struct st =>
      simp only [List.filterMap_cons, GDecl.struct?, List.mem_cons] at hs
      rcases hs with rfl | hs
      · simp only [GDecl.WF, Bool.and_eq_true, Bool.not_eq_true'] at h
        exact h.1.2
      · exact ih _ h.2 s hs
    | enum e => exact ih _ h.2 s (by simpa [GDecl.struct?] using hs)
    | const c => exact ih _ h.2 s (by simpa [GDecl.struct?] using hs)
    | key k => exact ih _ h.2 s (by simpa [GDecl.struct?] using hs)
    | interface i => exact ih _ h.2 s (by simpa [GDecl.struct?] using hs)

end Tars.Idl
