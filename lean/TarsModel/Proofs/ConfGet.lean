/-
  C17 helper lemmas: what `semItems d` contains, per (merged) domain of the document — children,
  lines — and the getters on it.
-/
import TarsModel.Proofs.ConfRun

namespace Tars.Conf
open Tars

/-! ## last value of a key in a list of entries -/

/-- the value of the last entry for `k` -/
def lastVal : List (Txt × Txt) → Txt → Option Txt
  | [], _ => none
  | (k', v) :: es, k =>
    match lastVal es k with
    | some x => some x
    | none => if k' = k then some v else none

theorem lastVal_append (a b : List (Txt × Txt)) (k : Txt) :
    lastVal (a ++ b) k = match lastVal b k with | some x => some x | none => lastVal a k := by
  induction a with
  | nil => cases h : lastVal b k <;> simp [lastVal, h]
  | cons x a ih =>
    obtain ⟨k', v⟩ := x
    simp only [List.cons_append, lastVal, ih]
    cases lastVal b k <;> simp

theorem lastVal_none_iff (es : List (Txt × Txt)) (k : Txt) : lastVal es k = none ↔ k ∉ es.map Prod.fst := by
  induction es with
  | nil => simp [lastVal]
  | cons x es ih =>
    obtain ⟨k', v⟩ := x
    simp only [lastVal, List.map_cons, List.mem_cons, not_or]
    cases h : lastVal es k with
    | some y =>
      have hm : k ∈ es.map Prod.fst := by
        apply Classical.byContradiction; intro hn; rw [ih.mpr hn] at h; cases h
      simp only [reduceCtorEq, false_iff, not_and, Classical.not_not]
      intro _; exact hm
    | none =>
      have := ih.mp h
      by_cases hk : k' = k
      · simp [hk]
      · have hk' : ¬ k = k' := fun e => hk e.symm
        simp [hk, hk', this]

/-- later duplicates win: the value of the last entry for the key -/
theorem lastVal_decomp (es1 es2 : List (Txt × Txt)) (k v : Txt) (h : k ∉ es2.map Prod.fst) :
    lastVal (es1 ++ (k, v) :: es2) k = some v := by
  rw [lastVal_append]
  simp [lastVal, (lastVal_none_iff es2 k).mpr h]

theorem lastVal_some_decomp (es : List (Txt × Txt)) (k v : Txt) (h : lastVal es k = some v) :
    ∃ es1 es2, es = es1 ++ (k, v) :: es2 ∧ k ∉ es2.map Prod.fst := by
  induction es with
  | nil => simp [lastVal] at h
  | cons x es ih =>
    obtain ⟨k', v'⟩ := x
    simp only [lastVal] at h
    cases hl : lastVal es k with
    | some y =>
      rw [hl] at h
      simp at h; subst h
      obtain ⟨e1, e2, he, hn⟩ := ih hl
      exact ⟨(k', v') :: e1, e2, by simp [he], hn⟩
    | none =>
      rw [hl] at h
      by_cases hk : k' = k
      · simp [hk] at h; subst h; subst hk
        exact ⟨[], es, rfl, (lastVal_none_iff es k').mp hl⟩
      · simp [hk] at h

/-! ## text -/

theorem semLine_cases (cur : Elem) (l : Line) :
    (l.listed = none ∧ l.entry = none ∧ semLine cur l = cur) ∨
    (∃ ln k v, l.listed = some ln ∧ l.entry = some (k, v) ∧ semLine cur l = (cur.addLine ln).addChild k (newLeaf k v)) := by
  cases l with
  | kv pre key mid val post => right; exact ⟨_, _, _, rfl, rfl, rfl⟩
  | comment pre t => left; exact ⟨rfl, rfl, rfl⟩
  | blank ws => left; exact ⟨rfl, rfl, rfl⟩

theorem foldl_semLine_find (ls : List Line) (cur : Elem) (n : Txt) :
    (ls.foldl semLine cur).findChild n =
      match lastVal (ls.filterMap Line.entry) n with
      | some v => some (newLeaf n v)
      | none => cur.findChild n := by
  induction ls generalizing cur with
  | nil => simp [lastVal]
  | cons l ls ih =>
    rw [List.foldl_cons, ih]
    rcases semLine_cases cur l with ⟨_, he, hs⟩ | ⟨ln, k, v, _, he, hs⟩
    · simp [he, hs]
    · simp only [List.filterMap_cons, he, lastVal]
      cases lastVal (ls.filterMap Line.entry) n with
      | some x => rfl
      | none =>
        by_cases hk : k = n
        · subst hk; simp [hs, findChild_addChild_same]
        · simp [hk, hs, findChild_addChild_other _ _ _ _ hk, findChild_addLine]

theorem foldl_semLine_line (ls : List Line) (cur : Elem) :
    (ls.foldl semLine cur).line = cur.line ++ ls.filterMap Line.listed := by
  induction ls generalizing cur with
  | nil => simp
  | cons l ls ih =>
    rw [List.foldl_cons, ih]
    rcases semLine_cases cur l with ⟨hl, _, hs⟩ | ⟨ln, k, v, hl, _, hs⟩
    · simp [hl, hs]
    · simp [hl, hs, line_addChild, line_addLine]

/-- keys of the children map are pairwise different -/
def Elem.nodupKeys (e : Elem) : Prop := (e.children.map Prod.fst).Nodup

theorem nodupKeys_addChild (e : Elem) (n : Txt) (c : Elem) (h : e.nodupKeys) : (e.addChild n c).nodupKeys := by
  unfold Elem.nodupKeys; rw [children_addChild]; exact assocSet_nodup _ _ _ h

theorem semLine_nodup (cur : Elem) (l : Line) (h : cur.nodupKeys) : (semLine cur l).nodupKeys := by
  rcases semLine_cases cur l with ⟨_, _, hs⟩ | ⟨ln, k, v, _, _, hs⟩
  · rw [hs]; exact h
  · rw [hs]; apply nodupKeys_addChild; unfold Elem.nodupKeys; rw [children_addLine]; exact h

theorem foldl_semLine_nodup (ls : List Line) (cur : Elem) (h : cur.nodupKeys) : (ls.foldl semLine cur).nodupKeys := by
  induction ls generalizing cur with
  | nil => exact h
  | cons l ls ih => rw [List.foldl_cons]; exact ih _ (semLine_nodup _ _ h)

/-! ## items -/

theorem semItems_cons (i : Item) (is : List Item) (cur : Elem) : semItems (i :: is) cur = semItems is (semItem i cur) := by
  rw [semItems]

theorem semItems_nil (cur : Elem) : semItems [] cur = cur := by rw [semItems]

theorem semItems_append (a b : List Item) (cur : Elem) : semItems (a ++ b) cur = semItems b (semItems a cur) := by
  induction a generalizing cur with
  | nil => simp [semItems_nil]
  | cons i a ih => simp [semItems_cons, ih]

theorem semItem_text (t : Text) (cur : Elem) : semItem (.text t) cur = t.lines.foldl semLine cur := by
  rw [semItem]

theorem semItems_line (d : List Item) (cur : Elem) : (semItems d cur).line = cur.line ++ linesOf d := by
  induction d generalizing cur with
  | nil => simp [semItems_nil, linesOf]
  | cons i is ih =>
    rw [semItems_cons, ih]
    cases i with
    | text t => simp [semItem_text, foldl_semLine_line, linesOf]
    | dom n body => simp [semItem_dom, line_addChild, linesOf]

theorem semItems_nodup (d : List Item) (cur : Elem) (h : cur.nodupKeys) : (semItems d cur).nodupKeys := by
  induction d generalizing cur with
  | nil => simpa [semItems_nil] using h
  | cons i is ih =>
    rw [semItems_cons]
    apply ih
    cases i with
    | text t => rw [semItem_text]; exact foldl_semLine_nodup _ _ h
    | dom n body => rw [semItem_dom]; exact nodupKeys_addChild _ _ _ h

theorem keysOf_cons_text (t : Text) (is : List Item) :
    keysOf (.text t :: is) = (t.lines.filterMap Line.entry).map Prod.fst ++ keysOf is := by
  simp [keysOf, entriesOf]

theorem keysOf_cons_dom (n : Txt) (b is : List Item) : keysOf (.dom n b :: is) = keysOf is := by
  simp [keysOf, entriesOf]

/-- a name that is not a sub-domain of this level: the child is the leaf with the last written
    value, or what was there before -/
theorem semItems_find_key (d : List Item) (cur : Elem) (n : Txt) (hn : n ∉ domsOf d) :
    (semItems d cur).findChild n =
      match lastVal (entriesOf d) n with
      | some v => some (newLeaf n v)
      | none => cur.findChild n := by
  induction d generalizing cur with
  | nil => simp [semItems_nil, entriesOf, lastVal]
  | cons i is ih =>
    rw [semItems_cons]
    cases i with
    | text t =>
      have hn' : n ∉ domsOf is := by simpa [domsOf] using hn
      rw [ih _ hn', semItem_text, foldl_semLine_find]
      simp only [entriesOf, lastVal_append]
      cases lastVal (entriesOf is) n <;> rfl
    | dom m body =>
      have hm : m ≠ n := by intro e; apply hn; simp [domsOf, e]
      have hn' : n ∉ domsOf is := by intro h; apply hn; simp [domsOf, h]
      rw [ih _ hn', semItem_dom, findChild_addChild_other _ _ _ _ hm]
      simp [entriesOf]

theorem bodyOf_notin (n : Txt) (d : List Item) (h : n ∉ domsOf d) : bodyOf n d = [] := by
  induction d with
  | nil => rfl
  | cons i is ih =>
    cases i with
    | text t => simp only [domsOf] at h; simpa [bodyOf] using ih h
    | dom m body =>
      simp only [domsOf, List.mem_cons, not_or] at h
      have : ¬ m = n := fun e => h.1 e.symm
      simp [bodyOf, this, ih h.2]

theorem baseOf_congr (a b : Elem) (n : Txt) (h : a.findChild n = b.findChild n) : baseOf a n = baseOf b n := by
  unfold baseOf; rw [h]

/-- a name that is not a key of this level: the child is the merged sub-domain applied to what
    was there before (or to a fresh node), or what was there before -/
theorem semItems_find_dom (d : List Item) (cur : Elem) (n : Txt) (hn : n ∉ keysOf d) :
    (semItems d cur).findChild n =
      if n ∈ domsOf d then some (semItems (bodyOf n d) (baseOf cur n)) else cur.findChild n := by
  induction d generalizing cur with
  | nil => simp [semItems_nil, domsOf]
  | cons i is ih =>
    rw [semItems_cons]
    cases i with
    | text t =>
      rw [keysOf_cons_text, List.mem_append, not_or] at hn
      have hf : (semItem (.text t) cur).findChild n = cur.findChild n := by
        rw [semItem_text, foldl_semLine_find, (lastVal_none_iff _ _).mpr hn.1]
      rw [ih _ hn.2, hf, baseOf_congr _ _ _ hf]
      by_cases hd : n ∈ domsOf is
      · simp [hd, domsOf, bodyOf]
      · simp [hd, domsOf]
    | dom m body =>
      rw [keysOf_cons_dom] at hn
      rw [ih _ hn, semItem_dom]
      by_cases hm : m = n
      · subst hm
        have hb : baseOf (cur.addChild m (semItems body (baseOf cur m))) m = semItems body (baseOf cur m) := by
          simp [baseOf, findChild_addChild_same]
        rw [hb, findChild_addChild_same]
        by_cases hd : m ∈ domsOf is
        · simp [domsOf, hd, bodyOf, semItems_append]
        · simp [domsOf, hd, bodyOf, bodyOf_notin m is hd]
      · have hf := findChild_addChild_other cur m n (semItems body (baseOf cur m)) hm
        have hm' : ¬ n = m := fun e => hm e.symm
        rw [hf, baseOf_congr _ _ _ hf]
        simp [domsOf, bodyOf, hm, hm']

/-! ## paths -/

/-- a node nothing has been written to -/
def Fresh (e : Elem) : Prop := e.children = [] ∧ e.line = [] ∧ e.kind = .node

theorem fresh_newElem (n : Txt) : Fresh (newElem .node n) := ⟨rfl, rfl, rfl⟩
theorem fresh_newRoot : Fresh newRoot := ⟨rfl, rfl, rfl⟩

theorem fresh_find (e : Elem) (h : Fresh e) (n : Txt) : e.findChild n = none := by
  unfold Elem.findChild; rw [h.1]; rfl

theorem fresh_baseOf (e : Elem) (h : Fresh e) (n : Txt) : baseOf e n = newElem .node n := by
  unfold baseOf; rw [fresh_find e h n]

theorem noClash_body (d : List Item) (n : Txt) (hn : n ∈ domsOf d) (h : NoClash d) : NoClash (bodyOf n d) := by
  intro p b hd
  apply h (n :: p) b
  simp [descend, hn, hd]

theorem getElem_append (e : Elem) (p q : List Txt) :
    getElem e (p ++ q) = match getElem e p with | none => none | some t => getElem t q := by
  induction p generalizing e with
  | nil => simp [getElem]
  | cons n p ih =>
    simp only [List.cons_append, getElem]
    cases e.findChild n with
    | none => rfl
    | some t => exact ih t

/-- the node a domain path leads to holds exactly the merged items of that domain -/
theorem getElem_descend (p : List Txt) : ∀ (d : List Item) (cur : Elem) (b : List Item), Fresh cur → NoClash d →
    descend d p = some b → ∃ base, Fresh base ∧ getElem (semItems d cur) p = some (semItems b base) := by
  induction p with
  | nil =>
    intro d cur b hf _ hd
    simp [descend] at hd; subst hd
    exact ⟨cur, hf, rfl⟩
  | cons n p ih =>
    intro d cur b hf hc hd
    simp only [descend] at hd
    by_cases hn : n ∈ domsOf d
    · simp only [hn, if_true] at hd
      have hk : n ∉ keysOf d := fun hk => hc [] d rfl n hk hn
      have := semItems_find_dom d cur n hk
      simp only [hn, if_true, fresh_baseOf cur hf] at this
      obtain ⟨base, hb, hg⟩ := ih (bodyOf n d) (newElem .node n) b (fresh_newElem n) (noClash_body d n hn hc) hd
      exact ⟨base, hb, by simp only [getElem, this]; exact hg⟩
    · simp [hn] at hd

/-- a path that is not a domain of the document leads nowhere, or to a leaf -/
theorem getElem_no_descend (p : List Txt) : ∀ (d : List Item) (cur : Elem), Fresh cur → NoClash d →
    descend d p = none → getElem (semItems d cur) p = none ∨ ∃ k v, getElem (semItems d cur) p = some (newLeaf k v) := by
  induction p with
  | nil => intro d cur _ _ hd; simp [descend] at hd
  | cons n p ih =>
    intro d cur hf hc hd
    simp only [descend] at hd
    by_cases hn : n ∈ domsOf d
    · simp only [hn, if_true] at hd
      have hk : n ∉ keysOf d := fun hk => hc [] d rfl n hk hn
      have := semItems_find_dom d cur n hk
      simp only [hn, if_true, fresh_baseOf cur hf] at this
      simp only [getElem, this]
      exact ih (bodyOf n d) (newElem .node n) (fresh_newElem n) (noClash_body d n hn hc) hd
    · have := semItems_find_key d cur n hn
      rw [fresh_find cur hf] at this
      simp only [getElem, this]
      cases lastVal (entriesOf d) n with
      | none => left; rfl
      | some v =>
        cases p with
        | nil => right; exact ⟨n, v, rfl⟩
        | cons m p => left; simp [getElem, Elem.findChild, newLeaf, newElem, Elem.setValue, Elem.children, assocFind]

end Tars.Conf

namespace Tars.Conf
open Tars

/-! ## the listings of one node -/

theorem fresh_ok (e : Elem) (h : Fresh e) : e.ok = true := by
  rw [Elem.ok_eq, h.1]; rfl

theorem fresh_nodup (e : Elem) (h : Fresh e) : e.nodupKeys := by
  unfold Elem.nodupKeys; rw [h.1]; exact List.nodup_nil

theorem okL_mem (cs : List (Txt × Elem)) (k : Txt) (e : Elem) (h : okL cs = true) (hm : (k, e) ∈ cs) : e.name = k := by
  induction cs with
  | nil => simp at hm
  | cons x cs ih =>
    obtain ⟨k', y⟩ := x
    simp only [okL, Bool.and_eq_true, beq_iff_eq] at h
    rcases List.mem_cons.mp hm with hx | hx
    · simp at hx; rw [hx.1, hx.2]; exact h.1.1
    · exact ih h.2 hx

theorem mem_children_iff (N : Elem) (hnd : N.nodupKeys) (k : Txt) (e : Elem) :
    (k, e) ∈ N.children ↔ N.findChild k = some e :=
  ⟨fun h => assocFind_of_mem _ _ _ hnd h, fun h => assocFind_some_mem _ _ _ h⟩

/-- the children of the node of a (merged) domain `b` without key/sub-domain name clash -/
theorem node_children_spec (b : List Item) (base : Elem) (hf : Fresh base)
    (hc : ∀ n, n ∈ keysOf b → n ∉ domsOf b) (k : Txt) (e : Elem) :
    (k, e) ∈ (semItems b base).children ↔
      (∃ v, lastVal (entriesOf b) k = some v ∧ e = newLeaf k v) ∨
      (k ∈ domsOf b ∧ e = semItems (bodyOf k b) (newElem .node k)) := by
  rw [mem_children_iff _ (semItems_nodup b base (fresh_nodup base hf))]
  by_cases hd : k ∈ domsOf b
  · have hk : k ∉ keysOf b := fun hk => hc k hk hd
    have hl : lastVal (entriesOf b) k = none := (lastVal_none_iff _ _).mpr hk
    rw [semItems_find_dom b base k hk, fresh_baseOf base hf]
    simp only [hd, if_true, hl, true_and]
    constructor
    · intro h; right; simpa using h.symm
    · rintro (⟨v, h, _⟩ | h)
      · cases h
      · rw [h]
  · rw [semItems_find_key b base k hd, fresh_find base hf]
    cases hl : lastVal (entriesOf b) k with
    | none => simp [hd]
    | some v =>
      simp only [hd, false_and, or_false]
      constructor
      · intro h; exact ⟨v, rfl, by simpa using h.symm⟩
      · rintro ⟨v', h, he⟩; simp at h; subst h; rw [he]

theorem kind_newLeaf (k v : Txt) : (newLeaf k v).kind = .leaf := rfl
theorem value_newLeaf (k v : Txt) : (newLeaf k v).value = v := rfl
theorem children_newLeaf (k v : Txt) : (newLeaf k v).children = [] := rfl
theorem line_newLeaf (k v : Txt) : (newLeaf k v).line = [] := rfl

theorem kind_semItems_node (b : List Item) (n : Txt) : (semItems b (newElem .node n)).kind = .node := by
  rw [semItems_kind]; rfl

theorem isLeaf_semItems_node (b : List Item) (n : Txt) : (semItems b (newElem .node n)).isLeaf = false := by
  simp [Elem.isLeaf, kind_semItems_node]

theorem isNode_semItems_node (b : List Item) (n : Txt) : (semItems b (newElem .node n)).isNode = true := by
  simp [Elem.isNode, kind_semItems_node]

theorem mem_keysOf_iff (b : List Item) (k : Txt) : k ∈ keysOf b ↔ ∃ v, lastVal (entriesOf b) k = some v := by
  constructor
  · intro h
    cases hl : lastVal (entriesOf b) k with
    | none => exact absurd h ((lastVal_none_iff _ _).mp hl)
    | some v => exact ⟨v, rfl⟩
  · rintro ⟨v, hv⟩
    apply Classical.byContradiction; intro hn
    rw [(lastVal_none_iff _ _).mpr hn] at hv; cases hv

/-- `getDomainKey` of the node: exactly the keys written in the domain -/
theorem node_keys (b : List Item) (base : Elem) (hf : Fresh base) (hc : ∀ n, n ∈ keysOf b → n ∉ domsOf b) (x : Txt) :
    x ∈ ((semItems b base).children.filter (fun c => c.2.isLeaf)).map (fun c => c.2.name) ↔ x ∈ keysOf b := by
  rw [mem_keysOf_iff]
  simp only [List.mem_map, List.mem_filter]
  constructor
  · rintro ⟨⟨k, e⟩, ⟨hm, hl⟩, hn⟩
    rcases (node_children_spec b base hf hc k e).mp hm with ⟨v, hv, he⟩ | ⟨_, he⟩
    · subst he; simp only [name_newLeaf] at hn; subst hn; exact ⟨v, hv⟩
    · subst he
      rw [isLeaf_semItems_node] at hl; cases hl
  · rintro ⟨v, hv⟩
    exact ⟨(x, newLeaf x v), ⟨(node_children_spec b base hf hc x _).mpr (Or.inl ⟨v, hv, rfl⟩), rfl⟩, rfl⟩

/-- `getDomain` of the node: exactly the sub-domains written in the domain -/
theorem node_doms (b : List Item) (base : Elem) (hf : Fresh base) (hc : ∀ n, n ∈ keysOf b → n ∉ domsOf b) (x : Txt) :
    x ∈ ((semItems b base).children.filter (fun c => c.2.isNode)).map (fun c => c.2.name) ↔ x ∈ domsOf b := by
  simp only [List.mem_map, List.mem_filter]
  constructor
  · rintro ⟨⟨k, e⟩, ⟨hm, hl⟩, hn⟩
    rcases (node_children_spec b base hf hc k e).mp hm with ⟨v, hv, he⟩ | ⟨hd, he⟩
    · subst he; simp [Elem.isNode, kind_newLeaf] at hl
    · subst he
      simp only [semItems_name] at hn
      have : (newElem Kind.node k).name = k := rfl
      rw [this] at hn; subst hn; exact hd
  · intro hd
    refine ⟨(x, semItems (bodyOf x b) (newElem .node x)), ⟨(node_children_spec b base hf hc x _).mpr (Or.inr ⟨hd, rfl⟩), ?_⟩, ?_⟩
    · exact isNode_semItems_node _ _
    · simp only [semItems_name]; rfl

/-- `getMap` of the node: exactly the keys written in the domain, each with its last value -/
theorem node_map (b : List Item) (base : Elem) (hf : Fresh base) (hc : ∀ n, n ∈ keysOf b → n ∉ domsOf b) (x v : Txt) :
    (x, v) ∈ ((semItems b base).children.filter (fun c => c.2.isLeaf)).map (fun c => (c.2.name, c.2.value))
      ↔ lastVal (entriesOf b) x = some v := by
  simp only [List.mem_map, List.mem_filter]
  constructor
  · rintro ⟨⟨k, e⟩, ⟨hm, hl⟩, hn⟩
    rcases (node_children_spec b base hf hc k e).mp hm with ⟨v', hv, he⟩ | ⟨_, he⟩
    · subst he
      simp only [name_newLeaf, value_newLeaf, Prod.mk.injEq] at hn
      rw [← hn.1, ← hn.2]; exact hv
    · subst he
      rw [isLeaf_semItems_node] at hl; cases hl
  · intro hv
    exact ⟨(x, newLeaf x v), ⟨(node_children_spec b base hf hc x _).mpr (Or.inl ⟨v, hv, rfl⟩), rfl⟩, rfl⟩

/-- listings of children carry no duplicates -/
theorem node_listing_nodup (N : Elem) (hok : N.ok = true) (hnd : N.nodupKeys) (f : Txt × Elem → Bool) :
    ((N.children.filter f).map (fun c => c.2.name)).Nodup := by
  have e : (N.children.filter f).map (fun c => c.2.name) = (N.children.filter f).map Prod.fst := by
    apply List.map_congr_left
    intro c hc
    have hm : c ∈ N.children := (List.mem_filter.mp hc).1
    rw [Elem.ok_eq] at hok
    exact okL_mem _ c.1 c.2 hok hm
  rw [e]
  exact List.Nodup.sublist (List.Sublist.map _ List.filter_sublist) hnd

theorem node_map_nodup (N : Elem) (hok : N.ok = true) (hnd : N.nodupKeys) (f : Txt × Elem → Bool) :
    (((N.children.filter f).map (fun c => (c.2.name, c.2.value))).map Prod.fst).Nodup := by
  rw [List.map_map]
  exact node_listing_nodup N hok hnd f

end Tars.Conf
