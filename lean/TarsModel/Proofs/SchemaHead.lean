import TarsModel.Proofs.SchemaSpec
import TarsModel.Proofs.WireRead

/-!
# Heads: recognising an absent optional member

`SkipToNoCheck(tag, false)` reports "not found" and restores the read position when the next
head carries a larger tag, is a StructEnd, or the input has ended.  Every encoding emitted by
`genWriteVar` is empty or begins with a (non-StructEnd) head carrying the member's tag.
-/
namespace Tars
open Consts

/-- the next head (if any) does not belong to member `tag`: end of input, a StructEnd head, or a
    head with a larger tag -/
def NextTagGt (tag : Nat) (bs : Bytes) : Prop :=
  bs = [] ∨ ∃ ty tg rest, ty < 16 ∧ tg < 256 ∧ (ty = tyStructEnd ∨ tag < tg) ∧
    bs = writeHead ty tg ++ rest

/-- `bs` begins with a head of tag `tag` whose type is not StructEnd -/
def HeadAt (tag : Nat) (bs : Bytes) : Prop :=
  ∃ hty rest, hty < 16 ∧ hty ≠ tyStructEnd ∧ bs = writeHead hty tag ++ rest

theorem Terminated.nextTagGt {t : Bytes} (h : Terminated t) (tag : Nat) : NextTagGt tag t := by
  rcases h with h | ⟨tg, t', htg, h⟩
  · exact Or.inl h
  · exact Or.inr ⟨tyStructEnd, tg, t', by decide, htg, Or.inl rfl, h⟩

theorem HeadAt.nextTagGt {tag tg : Nat} {bs : Bytes} (h : HeadAt tg bs) (hlt : tag < tg)
    (htg : tg < 256) (t : Bytes) : NextTagGt tag (bs ++ t) := by
  obtain ⟨hty, rest, h1, _, rfl⟩ := h
  exact Or.inr ⟨hty, tg, rest ++ t, h1, htg, Or.inr hlt, by simp⟩

theorem readByte_nil (r : Reader) (h : r.rest = []) : readByte r = (.error .eof, r) := by
  unfold Reader.rest at h
  have hp : r.data.size ≤ r.pos := by
    have := congrArg List.length h
    simp at this
    omega
  have : r.data[r.pos]? = none := Array.getElem?_eq_none hp
  simp [readByte, this]

theorem readHead_nil (r : Reader) (h : r.rest = []) : readHead r = (.error .eof, r) := by
  simp [readHead, readByte_nil r h]

theorem writeHead_length (ty tag : Nat) :
    (writeHead ty tag).length = if tag < 15 then 1 else 2 := by
  unfold writeHead
  simp only [extTagThreshold]
  split <;> simp

/-- `unreadHead` undoes `readHead` of a canonical head -/
theorem unreadHead_adv (r : Reader) (ty tg : Nat) :
    unreadHead tg (r.adv (writeHead ty tg).length) = (.ok (), r) := by
  rw [writeHead_length]
  unfold unreadHead unreadByte
  by_cases h : tg < 15
  · have h2 : ¬ (tg ≥ extTagUnread) := by simp only [extTagUnread]; omega
    simp [h, h2, Reader.adv]
  · have h2 : tg ≥ extTagUnread := by simp only [extTagUnread]; omega
    simp [h, h2, Reader.adv]

/-- the absent-member lemma: not found, position restored -/
theorem skipToNoCheck_miss (r : Reader) (tag : Nat) (h : NextTagGt tag r.rest) :
    ∃ ty, skipToNoCheck tag false r = (.ok (false, ty), r) := by
  unfold skipToNoCheck
  rw [Reader.fuel_succ]
  unfold skipToNoCheckF
  rcases h with h | ⟨ty, tg, rest, hty, htg, hc, h⟩
  · exact ⟨0, by simp [readHead_nil r h]⟩
  · refine ⟨ty, ?_⟩
    simp only [readHead_writeHead r ty tg rest hty htg h]
    have hc' : ty = tyStructEnd ∨ tg > tag := hc
    simp [hc', unreadHead_adv]

theorem skipTo_miss (r : Reader) (ty tag : Nat) (h : NextTagGt tag r.rest) :
    skipTo ty tag false r = (.ok false, r) := by
  obtain ⟨ty', h'⟩ := skipToNoCheck_miss r tag h
  simp [skipTo, h']

theorem skipTo_hit (r : Reader) (ty tag : Nat) (req : Bool) (t : Bytes)
    (hty : ty < 16) (hne : ty ≠ tyStructEnd) (htag : tag < 256)
    (h : r.rest = writeHead ty tag ++ t) :
    skipTo ty tag req r = (.ok true, r.adv (writeHead ty tag).length) := by
  simp [skipTo, skipToNoCheck_hit r ty tag req t hty hne htag h]

/-! ## every encoding is empty or starts with a head at the member's tag -/

theorem HeadAt.mk' {tag hty : Nat} {rest : Bytes} (h1 : hty < 16) (h2 : hty ≠ tyStructEnd) :
    HeadAt tag (writeHead hty tag ++ rest) := ⟨hty, rest, h1, h2, rfl⟩

theorem HeadAt.mk0 {tag hty : Nat} (h1 : hty < 16) (h2 : hty ≠ tyStructEnd) :
    HeadAt tag (writeHead hty tag) := ⟨hty, [], h1, h2, by simp⟩

theorem writeInt8_headAt (v : Int) (tag : Nat) : HeadAt tag (writeInt8 v tag) := by
  unfold writeInt8; split
  · exact HeadAt.mk0 (by decide) (by decide)
  · exact HeadAt.mk' (by decide) (by decide)
theorem writeInt16_headAt (v : Int) (tag : Nat) : HeadAt tag (writeInt16 v tag) := by
  unfold writeInt16; split
  · exact writeInt8_headAt v tag
  · exact HeadAt.mk' (by decide) (by decide)
theorem writeInt32_headAt (v : Int) (tag : Nat) : HeadAt tag (writeInt32 v tag) := by
  unfold writeInt32; split
  · exact writeInt16_headAt v tag
  · exact HeadAt.mk' (by decide) (by decide)
theorem writeInt64_headAt (v : Int) (tag : Nat) : HeadAt tag (writeInt64 v tag) := by
  unfold writeInt64; split
  · exact writeInt32_headAt v tag
  · exact HeadAt.mk' (by decide) (by decide)
theorem writeString_headAt (s : Bytes) (tag : Nat) : HeadAt tag (writeString s tag) := by
  unfold writeString; split
  · exact ⟨tySTRING4, be 4 s.length ++ s, by decide, by decide, by simp⟩
  · exact ⟨tySTRING1, [byte s.length] ++ s, by decide, by decide, by simp⟩

theorem writeScalar_headAt (ty : Ty) (v : Val) (tag : Nat) :
    writeScalar ty v tag = [] ∨ HeadAt tag (writeScalar ty v tag) := by
  unfold writeScalar
  split <;> first
    | exact Or.inl rfl
    | (right; first
        | exact writeInt8_headAt _ _
        | exact writeInt16_headAt _ _
        | exact writeInt32_headAt _ _
        | exact writeInt64_headAt _ _
        | exact writeString_headAt _ _
        | exact HeadAt.mk' (by decide) (by decide))

theorem encVar_headAt (env : Env) (tag : Nat) (req : Bool) (ty : Ty) (dflt : Option Val) (v : Val) :
    encVar env tag req ty dflt v = [] ∨ HeadAt tag (encVar env tag req ty dflt v) := by
  cases v with
  | list vs =>
    cases ty <;> try (left; simp [encVar]; done)
    all_goals
      rw [encVar]
      split
      · exact Or.inl rfl
      · split
        · exact Or.inr ⟨tySimpleList, _, by decide, by decide, by (simp only [List.append_assoc]; rfl)⟩
        · exact Or.inr ⟨tyLIST, _, by decide, by decide, by (simp only [List.append_assoc]; rfl)⟩
  | map kvs =>
    cases ty <;> try (left; simp [encVar]; done)
    rw [encVar]
    split
    · exact Or.inl rfl
    · exact Or.inr ⟨tyMAP, _, by decide, by decide, by (simp only [List.append_assoc]; rfl)⟩
  | struct vs =>
    cases ty <;> try (left; simp [encVar]; done)
    rw [encVar]
    split
    · exact Or.inr ⟨tyStructBegin, _, by decide, by decide, by (simp only [List.append_assoc]; rfl)⟩
    · exact Or.inl rfl
  | bool b =>
    simp only [encVar]
    split
    · exact writeScalar_headAt _ _ _
    · split
      · split
        · exact Or.inl rfl
        · exact writeScalar_headAt _ _ _
      · exact Or.inl rfl
  | int b =>
    simp only [encVar]
    split
    · exact writeScalar_headAt _ _ _
    · split
      · split
        · exact Or.inl rfl
        · exact writeScalar_headAt _ _ _
      · exact Or.inl rfl
  | f32 b =>
    simp only [encVar]
    split
    · exact writeScalar_headAt _ _ _
    · split
      · split
        · exact Or.inl rfl
        · exact writeScalar_headAt _ _ _
      · exact Or.inl rfl
  | f64 b =>
    simp only [encVar]
    split
    · exact writeScalar_headAt _ _ _
    · split
      · split
        · exact Or.inl rfl
        · exact writeScalar_headAt _ _ _
      · exact Or.inl rfl
  | str b =>
    simp only [encVar]
    split
    · exact writeScalar_headAt _ _ _
    · split
      · split
        · exact Or.inl rfl
        · exact writeScalar_headAt _ _ _
      · exact Or.inl rfl

/-- what follows member `tag` inside a struct body whose remaining members all have larger tags -/
theorem encMembers_nextTagGt (env : Env) (tag : Nat) (t : Bytes) (ht : Terminated t) :
    ∀ (fs : List Field) (vs : List Val), (∀ f ∈ fs, tag < f.tag ∧ f.tag ≤ 255) →
      NextTagGt tag (encMembers env fs vs ++ t)
  | [], vs, _ => by cases vs <;> simpa [encMembers] using ht.nextTagGt tag
  | f :: fs, [], _ => by simpa [encMembers] using ht.nextTagGt tag
  | f :: fs, v :: vs, h => by
    rw [encMembers]
    have hf := h f (by simp)
    rcases encVar_headAt env f.tag f.req f.ty f.dflt v with h0 | hh
    · rw [h0]
      simpa using encMembers_nextTagGt env tag t ht fs vs (fun g hg => h g (by simp [hg]))
    · have := hh.nextTagGt hf.1 (by omega) (encMembers env fs vs ++ t)
      simpa [List.append_assoc] using this

end Tars
