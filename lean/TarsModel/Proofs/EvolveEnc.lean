import TarsModel.Proofs.EvolveFresh

/-! The slots of an encoded value: connects the slot formulation with `encStruct` (C04). -/
namespace Tars
namespace Evolve
open Consts WFField

/-- the slots of the encoding of a value: member `i` holds `encVar` of value `i` -/
def encSlots (env : Env) : List Field → List Val → List Val → List Slot
  | f :: fs, o :: os, v :: vs => ⟨f, o, encVar env f.tag f.req f.ty f.dflt v⟩ :: encSlots env fs os vs
  | _, _, _ => []

theorem plain_encSlots (env : Env) (fs : List Field) (os vs : List Val)
    (h1 : os.length = fs.length) (h2 : vs.length = fs.length) :
    plain (encSlots env fs os vs) = encMembers env fs vs := by
  induction fs generalizing os vs with
  | nil => cases os <;> cases vs <;> simp [encSlots, plain, encMembers]
  | cons f fs ih =>
    cases os with
    | nil => simp at h1
    | cons o os =>
      cases vs with
      | nil => simp at h2
      | cons v vs =>
        simp only [encSlots, plain, encMembers]
        rw [ih os vs (by simpa using h1) (by simpa using h2)]

theorem encSlots_length (env : Env) (fs : List Field) (os vs : List Val)
    (h1 : os.length = fs.length) (h2 : vs.length = fs.length) :
    (encSlots env fs os vs).length = fs.length := by
  induction fs generalizing os vs with
  | nil => cases os <;> cases vs <;> simp [encSlots]
  | cons f fs ih =>
    cases os with
    | nil => simp at h1
    | cons o os =>
      cases vs with
      | nil => simp at h2
      | cons v vs =>
        simp only [encSlots, List.length_cons]
        rw [ih os vs (by simpa using h1) (by simpa using h2)]

theorem encSlots_fields (env : Env) (fs : List Field) (os vs : List Val)
    (h1 : os.length = fs.length) (h2 : vs.length = fs.length) :
    (encSlots env fs os vs).map (·.f) = fs := by
  induction fs generalizing os vs with
  | nil => cases os <;> cases vs <;> simp [encSlots]
  | cons f fs ih =>
    cases os with
    | nil => simp at h1
    | cons o os =>
      cases vs with
      | nil => simp at h2
      | cons v vs =>
        simp only [encSlots, List.map_cons]
        rw [ih os vs (by simpa using h1) (by simpa using h2)]

theorem encSlots_olds (env : Env) (fs : List Field) (os vs : List Val)
    (h1 : os.length = fs.length) (h2 : vs.length = fs.length) :
    (encSlots env fs os vs).map (·.old) = os := by
  induction fs generalizing os vs with
  | nil => cases os <;> cases vs <;> simp_all [encSlots]
  | cons f fs ih =>
    cases os with
    | nil => simp at h1
    | cons o os =>
      cases vs with
      | nil => simp at h2
      | cons v vs =>
        simp only [encSlots, List.map_cons]
        rw [ih os vs (by simpa using h1) (by simpa using h2)]

theorem map_snd_zip {α β : Type} (l1 : List α) (l2 : List β) (h : l1.length = l2.length) :
    (l1.zip l2).map (·.2) = l2 := by
  induction l1 generalizing l2 with
  | nil => cases l2 <;> simp_all
  | cons a l1 ih =>
    cases l2 with
    | nil => simp at h
    | cons b l2 => simp only [List.zip_cons_cons, List.map_cons]; rw [ih l2 (by simpa using h)]

/-- unknown fields merged into the encoding of a value, at the level of `ReadFrom`: the same
    outcome as on `encStruct` of the value alone, provided each member's `encVar` is `HeadOk` and
    `SelfDelimiting` (which is what the C03 round trip provides) -/
theorem decStruct_unknown_ignored_enc (env : Env) (N : Nat) (S : String) (fs : List Field)
    (vals ovs : List Val) (gaps : List (List WFField)) (tail : List WFField)
    (r r' : Reader) (t t' : Bytes)
    (hfind : env.find S = some fs) (hlo : ovs.length = fs.length) (hlv : vals.length = fs.length)
    (hlg : gaps.length = fs.length)
    (hstable : resetDefault env (decFuel env r') fs ovs = resetDefault env (decFuel env r) fs ovs)
    (hadm : Admissible 0
      (gaps.zip (encSlots env fs (resetDefault env (decFuel env r) fs ovs) vals)) tail)
    (hsl : ∀ s ∈ encSlots env fs (resetDefault env (decFuel env r) fs ovs) vals,
      s.HeadOk ∧ s.SelfDelimiting env N)
    (hF : N + fs.length < decFuel env r) (hF' : N + fs.length < decFuel env r')
    (ht : Terminated t) (ht' : Terminated t')
    (h : r.rest = merged
      (gaps.zip (encSlots env fs (resetDefault env (decFuel env r) fs ovs) vals)) tail ++ t)
    (h' : r'.rest = encStruct env S (.struct vals) ++ t') :
    (decStruct env S (.struct ovs) r).1 = (decStruct env S (.struct ovs) r').1 := by
  have hol : (resetDefault env (decFuel env r) fs ovs).length = fs.length := by
    rw [decFuel_pos]; exact resetDefault_length env _ fs ovs hlo.symm
  have hsl_len := encSlots_length env fs _ vals hol hlv
  have hzip := map_snd_zip gaps (encSlots env fs (resetDefault env (decFuel env r) fs ovs) vals)
    (by rw [hlg, hsl_len])
  have hlen : (gaps.zip (encSlots env fs (resetDefault env (decFuel env r) fs ovs) vals)).length
      = fs.length := by simp [List.length_zip, hlg, hsl_len]
  refine decStruct_unknown_ignored env N S fs ovs _ tail r r' t t' hfind ?_ ?_ hstable hadm ?_
    (by rw [hlen]; exact hF) (by rw [hlen]; exact hF') ht ht' h ?_
  · have : fieldsOf (gaps.zip (encSlots env fs (resetDefault env (decFuel env r) fs ovs) vals))
        = ((gaps.zip (encSlots env fs (resetDefault env (decFuel env r) fs ovs) vals)).map (·.2)).map (·.f) := by
      simp [fieldsOf]
    rw [this, hzip, encSlots_fields env fs _ vals hol hlv]
  · have : oldsOf (gaps.zip (encSlots env fs (resetDefault env (decFuel env r) fs ovs) vals))
        = ((gaps.zip (encSlots env fs (resetDefault env (decFuel env r) fs ovs) vals)).map (·.2)).map (·.old) := by
      simp [oldsOf]
    rw [this, hzip, encSlots_olds env fs _ vals hol hlv]
  · intro p hp
    apply hsl
    rw [← hzip]
    exact List.mem_map.mpr ⟨p, hp, rfl⟩
  · rw [merged_strip, hzip, plain_encSlots env fs _ vals hol hlv, h']
    simp [encStruct, hfind]

end Evolve
end Tars
